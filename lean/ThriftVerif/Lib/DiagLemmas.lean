import ThriftVerif.Lib.Diag
/-
  Helper lemmas for Props/C04.lean.  Core Lean only.
  Part 1: the loops of semantic/checker.go.
  Part 2: the include graph (dfs reaches every file, searchCircle finds every cycle, fuel suffices).
  Part 3: symbol resolution (RegisterNames, ResolveType, ResolveTypedefs, getEnum).
  Part 4: the pipeline.
-/
namespace Diag

/-! ## Part 1 — checker loops -/

theorem dupScan_of_mem {seen : List Name} {x : Name} (h : x ∈ seen) :
    ∀ (b c : List Name), dupScan seen (b ++ x :: c) = true
  | [], c => by simp [dupScan, h]
  | y :: b, c => by
    simp only [List.cons_append, dupScan]
    split
    · rfl
    · exact dupScan_of_mem (List.mem_cons_of_mem _ h) b c

theorem dupScan_dup (x : Name) : ∀ (seen a b c : List Name), dupScan seen (a ++ x :: (b ++ x :: c)) = true
  | seen, [], b, c => by
    simp only [List.nil_append, dupScan]
    split
    · rfl
    · exact dupScan_of_mem (List.mem_cons_self) b c
  | seen, y :: a, b, c => by
    simp only [List.cons_append, dupScan]
    split
    · rfl
    · exact dupScan_dup x _ a b c

/-- a loop that may only stop early keeps failing when a prefix is put in front of a failing suffix -/
theorem enumLoop_prefix {rest : List (Name × Int)} (h : ∀ ex v2n, enumLoop ex v2n rest ≠ none) :
    ∀ (a : List (Name × Int)) ex v2n, enumLoop ex v2n (a ++ rest) ≠ none
  | [], ex, v2n => h ex v2n
  | (n, v) :: a, ex, v2n => by
    simp only [List.cons_append, enumLoop]
    split
    · simp
    · split
      · simp
      · exact enumLoop_prefix h a _ _

theorem enumLoop_name_seen {n : Name} : ∀ (b : List (Name × Int)) (c : List (Name × Int)) (v : Int) ex v2n,
    n ∈ ex → enumLoop ex v2n (b ++ (n, v) :: c) ≠ none
  | [], c, v, ex, v2n, h => by
    simp only [List.nil_append, enumLoop, h, if_true]
    cases assocFind v v2n with
    | none => simp
    | some n' => by_cases hn : n' = n <;> simp [hn]
  | (m, w) :: b, c, v, ex, v2n, h => by
    simp only [List.cons_append, enumLoop]
    split
    · simp
    · split
      · simp
      · exact enumLoop_name_seen b c v _ _ (List.mem_cons_of_mem _ h)

theorem enumLoop_dup_name (n : Name) (v1 v2 : Int) (a b c : List (Name × Int)) :
    enumLoop [] [] (a ++ (n, v1) :: (b ++ (n, v2) :: c)) ≠ none := by
  apply enumLoop_prefix
  intro ex v2n
  simp only [enumLoop]
  split
  · simp
  · split
    · simp
    · exact enumLoop_name_seen b c v2 _ _ List.mem_cons_self

theorem enumLoop_number_seen {v : Int} : ∀ (b : List (Name × Int)) (c : List (Name × Int)) (n : Name) ex v2n,
    (∃ m, assocFind v v2n = some m ∧ m ∈ ex) → enumLoop ex v2n (b ++ (n, v) :: c) ≠ none
  | [], c, n, ex, v2n, ⟨m, hm, hmem⟩ => by
    simp only [List.nil_append, enumLoop, hm]
    by_cases hn : m = n
    · subst hn; simp [hmem]
    · simp [hn]
  | (m', w) :: b, c, n, ex, v2n, ⟨m, hm, hmem⟩ => by
    simp only [List.cons_append, enumLoop]
    split
    · simp
    · split
      · simp
      · apply enumLoop_number_seen b c n
        by_cases hw : w = v
        · exact ⟨m', by simp [assocFind, hw], List.mem_cons_self⟩
        · exact ⟨m, by simp [assocFind, hw, hm], List.mem_cons_of_mem _ hmem⟩

theorem enumLoop_dup_number (n1 n2 : Name) (v : Int) (a b c : List (Name × Int)) :
    enumLoop [] [] (a ++ (n1, v) :: (b ++ (n2, v) :: c)) ≠ none := by
  apply enumLoop_prefix
  intro ex v2n
  simp only [enumLoop]
  split
  · simp
  · split
    · simp
    · exact enumLoop_number_seen b c n2 _ _ ⟨n1, by simp [assocFind], List.mem_cons_self⟩

theorem enumLoop_range (n : Name) (v : Int) (hv : v < -2147483648 ∨ v > 2147483647) (a c : List (Name × Int)) :
    enumLoop [] [] (a ++ (n, v) :: c) ≠ none := by
  apply enumLoop_prefix
  intro ex v2n
  simp only [enumLoop]
  split
  · simp
  · simp [hv]

theorem fieldLoop_prefix {rest : List Field} (h : ∀ ids ns, fieldLoop ids ns rest ≠ none) :
    ∀ (a : List Field) ids ns, fieldLoop ids ns (a ++ rest) ≠ none
  | [], ids, ns => h ids ns
  | f :: a, ids, ns => by
    simp only [List.cons_append, fieldLoop]
    split
    · simp
    · split
      · simp
      · exact fieldLoop_prefix h a _ _

theorem fieldLoop_seen (g : Field) : ∀ (b c : List Field) ids ns,
    (g.id ∈ ids ∨ g.name ∈ ns) → fieldLoop ids ns (b ++ g :: c) ≠ none
  | [], c, ids, ns, h => by
    simp only [List.nil_append, fieldLoop]
    by_cases h1 : g.id ∈ ids
    · simp [h1]
    · have h2 : g.name ∈ ns := h.resolve_left h1
      simp [h1, h2]
  | f :: b, c, ids, ns, h => by
    simp only [List.cons_append, fieldLoop]
    split
    · simp
    · split
      · simp
      · apply fieldLoop_seen g b c
        cases h with
        | inl h => exact Or.inl (List.mem_cons_of_mem _ h)
        | inr h => exact Or.inr (List.mem_cons_of_mem _ h)

theorem fieldLoop_dup (f g : Field) (h : f.id = g.id ∨ f.name = g.name) (a b c : List Field) (ids0 : List Int) (ns0 : List Name) :
    fieldLoop ids0 ns0 (a ++ f :: (b ++ g :: c)) ≠ none := by
  apply fieldLoop_prefix
  intro ids ns
  simp only [fieldLoop]
  split
  · simp
  · split
    · simp
    · apply fieldLoop_seen g b c
      cases h with
      | inl h => exact Or.inl (h ▸ List.mem_cons_self)
      | inr h => exact Or.inr (h ▸ List.mem_cons_self)

/-- a member whose id or name is among the seeds (field 0 `success` of a result struct) -/
theorem fieldLoop_seeded (g : Field) (ids0 : List Int) (ns0 : List Name) (h : g.id ∈ ids0 ∨ g.name ∈ ns0) (a c : List Field) :
    fieldLoop ids0 ns0 (a ++ g :: c) ≠ none :=
  fieldLoop_seen g a c ids0 ns0 h

/-- one iteration either stops with an error or goes on with the name recorded -/
theorem funcLoop_step (d : List Name) (f : Func) (r : List Func) :
    funcLoop d (f :: r) ≠ none ∨ funcLoop d (f :: r) = funcLoop (f.name :: d) r := by
  simp only [funcLoop]
  repeat' split
  all_goals simp

theorem funcLoop_prefix {rest : List Func} (h : ∀ d, funcLoop d rest ≠ none) :
    ∀ (a : List Func) d, funcLoop d (a ++ rest) ≠ none
  | [], d => h d
  | f :: a, d => by
    rcases funcLoop_step d f (a ++ rest) with h1 | h1
    · exact h1
    · rw [List.cons_append, h1]; exact funcLoop_prefix h a _

theorem funcLoop_seen (g : Func) : ∀ (b c : List Func) d, g.name ∈ d → funcLoop d (b ++ g :: c) ≠ none
  | [], c, d, h => by simp [funcLoop, h]
  | f :: b, c, d, h => by
    rcases funcLoop_step d f (b ++ g :: c) with h1 | h1
    · exact h1
    · rw [List.cons_append, h1]; exact funcLoop_seen g b c _ (List.mem_cons_of_mem _ h)

theorem funcLoop_dup (f g : Func) (h : f.name = g.name) (a b c : List Func) :
    funcLoop [] (a ++ f :: (b ++ g :: c)) ≠ none := by
  apply funcLoop_prefix
  intro d
  rcases funcLoop_step d f (b ++ g :: c) with h1 | h1
  · exact h1
  · rw [h1]; exact funcLoop_seen g b c _ (h ▸ List.mem_cons_self)

theorem funcLoop_oneway (g : Func) (h : g.oneway = true ∧ (g.void = false ∨ g.throws ≠ [])) (a c : List Func) :
    funcLoop [] (a ++ g :: c) ≠ none := by
  apply funcLoop_prefix
  intro d
  simp only [funcLoop]
  split
  · simp
  · rcases h with ⟨ho, hv | ht⟩
    · simp [ho, hv]
    · split
      · simp
      · have : g.throws.isEmpty = false := by
          cases hth : g.throws with
          | nil => exact absurd hth ht
          | cons _ _ => rfl
        simp [ho, this]

/-- checkFunctionFields: a duplicated id or name among the arguments, or among the throws entries -/
theorem funcLoop_fields (g : Func)
    (h : fieldLoop [] [] g.args ≠ none ∨ fieldLoop (throwsSeedIds g) (throwsSeedNames g) g.throws ≠ none) (a c : List Func) :
    funcLoop [] (a ++ g :: c) ≠ none := by
  apply funcLoop_prefix
  intro d
  simp only [funcLoop]
  repeat' split
  all_goals (try simp)
  all_goals (rcases h with h | h <;> simp_all)

/-- with the assignment in place, a second defaulted member is refused -/
theorem unionLoop_sets_seen (g : Field) (hg : g.hasDefault = true) :
    ∀ (b c : List Field), unionLoop true true (b ++ g :: c) ≠ none
  | [], c => by simp [unionLoop, hg]
  | f :: b, c => by
    simp only [List.cons_append, unionLoop]
    split
    · simp
    · exact unionLoop_sets_seen g hg b c

theorem unionLoop_sets_dup (f g : Field) (hf : f.hasDefault = true) (hg : g.hasDefault = true) :
    ∀ (a b c : List Field) (hd : Bool), unionLoop true hd (a ++ f :: (b ++ g :: c)) ≠ none
  | [], b, c, hd => by
    simp only [List.nil_append, unionLoop, hf, if_true]
    split
    · simp
    · simpa using unionLoop_sets_seen g hg b c
  | x :: a, b, c, hd => by
    simp only [List.cons_append, unionLoop]
    split
    · split
      · simp
      · simpa using unionLoop_sets_dup f g hf hg a b c _
    · exact unionLoop_sets_dup f g hf hg a b c _

/-- without the assignment (`hasDefault` is declared and tested but never set) the test never fires -/
theorem unionLoop_never (fs : List Field) : unionLoop false false fs = none := by
  induction fs with
  | nil => rfl
  | cons f r ih => simp [unionLoop, ih]

theorem findSome?_ne_none {α β : Type} {f : α → Option β} {l : List α} {x : α} (hx : x ∈ l) (h : f x ≠ none) :
    l.findSome? f ≠ none := by
  intro hn
  rw [List.findSome?_eq_none_iff] at hn
  exact h (hn x hx)

/-! ## Part 2 — the include graph -/

/-- `i` includes `k` -/
def Edge (p : Program) (i k : Nat) : Prop :=
  ∃ f, p.files[i]? = some f ∧ ∃ inc ∈ f.includes, inc.ref = k

inductive Path (p : Program) : Nat → Nat → Prop
  | refl (i : Nat) : Path p i i
  | cons {i k j : Nat} : Edge p i k → Path p k j → Path p i j

/-- reachable from the main file through includes -/
def Reach (p : Program) (j : Nat) : Prop := Path p p.root j

def names (p : Program) : List Name := p.files.map (·.filename)

/-- what parseFileRecursively guarantees: every Reference is a parsed file, one AST per path -/
structure WF (p : Program) : Prop where
  root_lt : p.root < p.files.length
  refs_lt : ∀ f ∈ p.files, ∀ inc ∈ f.includes, inc.ref < p.files.length
  nodup : (names p).Nodup

theorem wfb_iff (p : Program) : wfb p = true ↔ WF p := by
  simp only [wfb, Bool.and_eq_true, decide_eq_true_eq, List.all_eq_true]
  constructor
  · rintro ⟨⟨h1, h2⟩, h3⟩
    exact ⟨h1, h2, h3⟩
  · rintro ⟨h1, h2, h3⟩
    exact ⟨⟨h1, h2⟩, h3⟩

theorem Path.trans {p : Program} {i j k : Nat} (h1 : Path p i j) (h2 : Path p j k) : Path p i k := by
  induction h1 with
  | refl _ => exact h2
  | cons e _ ih => exact .cons e (ih h2)

theorem nodup_getElem?_inj {α : Type} : ∀ {l : List α} {i j : Nat} {x : α}, l.Nodup → l[i]? = some x → l[j]? = some x → i = j
  | [], i, j, x, _, h, _ => by simp at h
  | a :: l, 0, 0, x, _, _, _ => rfl
  | a :: l, 0, j + 1, x, hn, h1, h2 => by
    simp only [List.getElem?_cons_zero, Option.some.injEq, List.getElem?_cons_succ] at h1 h2
    subst h1
    exact absurd (List.mem_of_getElem? h2) (List.nodup_cons.mp hn).1
  | a :: l, i + 1, 0, x, hn, h1, h2 => by
    simp only [List.getElem?_cons_zero, Option.some.injEq, List.getElem?_cons_succ] at h1 h2
    subst h2
    exact absurd (List.mem_of_getElem? h1) (List.nodup_cons.mp hn).1
  | a :: l, i + 1, j + 1, x, hn, h1, h2 => by
    simp only [List.getElem?_cons_succ] at h1 h2
    rw [nodup_getElem?_inj (List.nodup_cons.mp hn).2 h1 h2]

theorem WF.inj {p : Program} (w : WF p) {i j : Nat} {f g : File}
    (hi : p.files[i]? = some f) (hj : p.files[j]? = some g) (h : f.filename = g.filename) : i = j := by
  have h1 : (names p)[i]? = some f.filename := by simp [names, List.getElem?_map, hi]
  have h2 : (names p)[j]? = some f.filename := by simp [names, List.getElem?_map, hj, h]
  exact nodup_getElem?_inj w.nodup h1 h2

theorem mem_names {p : Program} {i : Nat} {f : File} (h : p.files[i]? = some f) : f.filename ∈ names p :=
  List.mem_map.mpr ⟨f, List.mem_of_getElem? h, rfl⟩

theorem WF.edge_lt {p : Program} (w : WF p) {i k : Nat} (e : Edge p i k) : k < p.files.length := by
  obtain ⟨f, hf, inc, hinc, rfl⟩ := e
  exact w.refs_lt f (List.mem_of_getElem? hf) inc hinc

theorem file_of_lt {p : Program} {i : Nat} (h : i < p.files.length) : ∃ f, p.files[i]? = some f :=
  ⟨p.files[i], List.getElem?_eq_getElem h⟩

/-- pigeonhole: a duplicate-free list of names drawn from `m` is no longer than `m` -/
theorem nodup_subset_length {α : Type} [DecidableEq α] : ∀ {l m : List α}, l.Nodup → (∀ x ∈ l, x ∈ m) → l.length ≤ m.length
  | [], _, _, _ => Nat.zero_le _
  | a :: l, m, hn, hs => by
    have ha : a ∈ m := hs a List.mem_cons_self
    have hn' := List.nodup_cons.mp hn
    have hs' : ∀ x ∈ l, x ∈ m.erase a := fun x hx =>
      (List.mem_erase_of_ne (fun (h : x = a) => hn'.1 (h ▸ hx))).mpr (hs x (List.mem_cons_of_mem _ hx))
    have ih := nodup_subset_length hn'.2 hs'
    rw [List.length_erase_of_mem ha] at ih
    have : 0 < m.length := List.length_pos_of_mem ha
    simp only [List.length_cons]
    omega

theorem names_length (p : Program) : (names p).length = p.files.length := by simp [names]

/-! ### CircleDetect -/

theorem anyM_ne_none {g : Nat → Option Bool} : ∀ {l : List Nat}, (∀ x ∈ l, g x ≠ none) → anyM g l ≠ none
  | [], _ => by simp [anyM]
  | x :: r, h => by
    have hx := h x List.mem_cons_self
    simp only [anyM]
    cases hg : g x with
    | none => exact absurd hg hx
    | some b =>
      cases b with
      | true => simp
      | false => exact anyM_ne_none fun y hy => h y (List.mem_cons_of_mem _ hy)

theorem anyM_false {g : Nat → Option Bool} : ∀ {l : List Nat}, anyM g l = some false → ∀ x ∈ l, g x = some false
  | [], _, x, hx => by simp at hx
  | y :: r, h, x, hx => by
    simp only [anyM] at h
    cases hg : g y with
    | none => simp [hg] at h
    | some b =>
      cases b with
      | true => simp [hg] at h
      | false =>
        simp only [hg] at h
        cases List.mem_cons.mp hx with
        | inl e => exact e ▸ hg
        | inr hr => exact anyM_false h x hr

theorem searchCircle_ne_none {p : Program} (w : WF p) : ∀ (fuel cur : Nat) (nodes : List Name),
    nodes.Nodup → (∀ x ∈ nodes, x ∈ names p) → p.files.length + 1 ≤ fuel + nodes.length →
    searchCircle fuel p cur nodes ≠ none
  | 0, _, nodes, hn, hs, hf => by
    have := nodup_subset_length hn hs
    rw [names_length] at this
    omega
  | fuel + 1, cur, nodes, hn, hs, hf => by
    simp only [searchCircle]
    cases hcur : p.files[cur]? with
    | none => simp
    | some f =>
      simp only
      split
      · simp
      · rename_i hmem
        apply anyM_ne_none
        intro c _
        apply searchCircle_ne_none w fuel c
        · exact List.nodup_append.mpr ⟨hn, by simp, fun a ha b hb => by
            simp only [List.mem_singleton] at hb
            exact fun e => hmem (hb ▸ e ▸ ha)⟩
        · intro x hx
          cases List.mem_append.mp hx with
          | inl h => exact hs x h
          | inr h => simp only [List.mem_singleton] at h; exact h ▸ mem_names hcur
        · simp only [List.length_append, List.length_singleton]; omega

theorem searchCircle_false_children {p : Program} {fuel cur : Nat} {nodes : List Name} {f : File}
    (h : searchCircle (fuel + 1) p cur nodes = some false) (hf : p.files[cur]? = some f) :
    f.filename ∉ nodes ∧ ∀ inc ∈ f.includes, searchCircle fuel p inc.ref (nodes ++ [f.filename]) = some false := by
  simp only [searchCircle, hf] at h
  split at h
  · simp at h
  · rename_i hmem
    refine ⟨hmem, fun inc hinc => ?_⟩
    exact anyM_false h inc.ref (List.mem_map.mpr ⟨inc, hinc, rfl⟩)

/-- a search that returns "no circle" has seen no file of the current path again, however far below -/
theorem searchCircle_false_path {p : Program} : ∀ (fuel cur : Nat) (nodes : List Name),
    searchCircle fuel p cur nodes = some false →
    ∀ j f, Path p cur j → p.files[j]? = some f → f.filename ∉ nodes
  | 0, _, _, h, _, _, _, _ => by simp [searchCircle] at h
  | fuel + 1, cur, nodes, h, j, f, hp, hf => by
    cases hp with
    | refl _ => exact (searchCircle_false_children h hf).1
    | cons e hp' =>
      obtain ⟨fc, hfc, inc, hinc, rfl⟩ := e
      have hc := (searchCircle_false_children h hfc).2 inc hinc
      have := searchCircle_false_path fuel inc.ref _ hc j f hp' hf
      exact fun hm => this (List.mem_append_left _ hm)

theorem searchCircle_false_descend {p : Program} {i : Nat} : ∀ {fuel cur : Nat} {nodes : List Name},
    searchCircle fuel p cur nodes = some false → Path p cur i →
    ∃ fuel' nodes', searchCircle fuel' p i nodes' = some false := by
  intro fuel cur nodes h hp
  induction hp generalizing fuel nodes with
  | refl _ => exact ⟨fuel, nodes, h⟩
  | cons e _ ih =>
    obtain ⟨fc, hfc, inc, hinc, rfl⟩ := e
    cases fuel with
    | zero => simp [searchCircle] at h
    | succ fuel => exact ih ((searchCircle_false_children h hfc).2 inc hinc)

/-- CircleDetect is complete: a cycle anywhere below the main file is reported -/
theorem circleDetect_complete {p : Program} (w : WF p) {i k : Nat}
    (hr : Reach p i) (e : Edge p i k) (hback : Path p k i) : circleDetect p = some true := by
  cases hc : circleDetect p with
  | none =>
    exact absurd hc (searchCircle_ne_none w _ _ [] List.nodup_nil (by simp) (by simp))
  | some b =>
    cases b with
    | true => rfl
    | false =>
      exfalso
      obtain ⟨fuel, nodes, hi⟩ := searchCircle_false_descend hc hr
      obtain ⟨fi, hfi, inc, hinc, rfl⟩ := e
      cases fuel with
      | zero => simp [searchCircle] at hi
      | succ fuel =>
        have hk := (searchCircle_false_children hi hfi).2 inc hinc
        exact searchCircle_false_path fuel inc.ref _ hk i fi hback hfi (by simp)

/-! ### DepthFirstSearch -/

/-- invariant of `dfs` with `S` the files currently being visited (entered, not yet emitted) -/
structure DInv (p : Program) (S : List Nat) (st : DfsSt) : Prop where
  nodup : st.set.Nodup
  sub : ∀ x ∈ st.set, x ∈ names p
  setOf : ∀ i f, p.files[i]? = some f → (f.filename ∈ st.set ↔ (i ∈ st.out ∨ i ∈ S))
  closed : ∀ i ∈ st.out, ∀ k, Edge p i k → ∀ fk, p.files[k]? = some fk → fk.filename ∈ st.set

/-- what one call of `dfs` guarantees -/
def DfsPost (p : Program) (S : List Nat) (t : Nat) (st : DfsSt) (r : Option DfsSt) : Prop :=
  ∃ st', r = some st' ∧ DInv p S st' ∧ (∀ x ∈ st.set, x ∈ st'.set) ∧
    (∀ f, p.files[t]? = some f → f.filename ∈ st'.set)

theorem dinv_length {p : Program} {S : List Nat} {st : DfsSt} (h : DInv p S st) : st.set.length ≤ p.files.length := by
  have := nodup_subset_length h.nodup h.sub
  rwa [names_length] at this

theorem subset_length_le {p : Program} {S : List Nat} {st st' : DfsSt} (h : DInv p S st)
    (hs : ∀ x ∈ st.set, x ∈ st'.set) : st.set.length ≤ st'.set.length :=
  nodup_subset_length h.nodup hs

theorem dfs_fold_spec {p : Program} {fuel : Nat} {S : List Nat}
    (ih : ∀ t st, DInv p S st → p.files.length + 1 ≤ fuel + st.set.length → DfsPost p S t st (dfs fuel p t st)) :
    ∀ (incs : List Include) (st : DfsSt), DInv p S st → p.files.length + 1 ≤ fuel + st.set.length →
    ∃ st', incs.foldlM (fun s inc => dfs fuel p inc.ref s) st = some st' ∧ DInv p S st' ∧
      (∀ x ∈ st.set, x ∈ st'.set) ∧
      (∀ inc ∈ incs, ∀ f, p.files[inc.ref]? = some f → f.filename ∈ st'.set)
  | [], st, hi, _ => ⟨st, by simp, hi, fun _ h => h, by simp⟩
  | inc :: r, st, hi, hf => by
    obtain ⟨st1, h1, hi1, hs1, ht1⟩ := ih inc.ref st hi hf
    have hl := subset_length_le hi hs1
    obtain ⟨st2, h2, hi2, hs2, ht2⟩ := dfs_fold_spec ih r st1 hi1 (by omega)
    refine ⟨st2, ?_, hi2, fun x hx => hs2 x (hs1 x hx), ?_⟩
    · simp only [List.foldlM_cons, h1]
      exact h2
    · intro inc' hinc' f hf'
      cases List.mem_cons.mp hinc' with
      | inl e => subst e; exact hs2 _ (ht1 f hf')
      | inr hr => exact ht2 inc' hr f hf'

theorem dfs_spec {p : Program} (w : WF p) : ∀ (fuel : Nat) (S : List Nat) (t : Nat) (st : DfsSt),
    DInv p S st → p.files.length + 1 ≤ fuel + st.set.length → DfsPost p S t st (dfs fuel p t st)
  | 0, S, t, st, hi, hf => by
    have := dinv_length hi
    omega
  | fuel + 1, S, t, st, hi, hf => by
    simp only [dfs]
    cases ht : p.files[t]? with
    | none => exact ⟨st, rfl, hi, fun _ h => h, fun g hg => by rw [ht] at hg; cases hg⟩
    | some f =>
      simp only
      split
      · rename_i hmem
        exact ⟨st, rfl, hi, fun _ h => h, fun g hg => by rw [ht] at hg; cases hg; exact hmem⟩
      · rename_i hmem
        -- enter t
        have hi1 : DInv p (t :: S) { st with set := f.filename :: st.set } := {
          nodup := List.nodup_cons.mpr ⟨hmem, hi.nodup⟩
          sub := fun x hx => by
            cases List.mem_cons.mp hx with
            | inl e => exact e ▸ mem_names ht
            | inr h => exact hi.sub x h
          setOf := fun i g hg => by
            constructor
            · intro h
              cases List.mem_cons.mp h with
              | inl e => exact Or.inr (by rw [w.inj hg ht e]; exact List.mem_cons_self)
              | inr h =>
                cases (hi.setOf i g hg).mp h with
                | inl h => exact Or.inl h
                | inr h => exact Or.inr (List.mem_cons_of_mem _ h)
            · intro h
              rcases h with h | h
              · exact List.mem_cons_of_mem _ ((hi.setOf i g hg).mpr (Or.inl h))
              · cases List.mem_cons.mp h with
                | inl e =>
                  subst e
                  rw [ht] at hg
                  cases hg
                  exact List.mem_cons_self
                | inr h => exact List.mem_cons_of_mem _ ((hi.setOf i g hg).mpr (Or.inr h))
          closed := fun i hiout k e fk hfk => List.mem_cons_of_mem _ (hi.closed i hiout k e fk hfk) }
        obtain ⟨st2, h2, hi2, hs2, hc2⟩ :=
          dfs_fold_spec (fun t' st' => dfs_spec w fuel (t :: S) t' st') f.includes _ hi1
            (by simp only [List.length_cons]; omega)
        simp only [h2]
        refine ⟨_, rfl, ?_, fun x hx => hs2 x (List.mem_cons_of_mem _ hx), fun g hg => ?_⟩
        · exact {
            nodup := hi2.nodup
            sub := hi2.sub
            setOf := fun i g hg => by
              rw [hi2.setOf i g hg]
              simp only [List.mem_append, List.mem_cons, List.not_mem_nil, or_false]
              constructor
              · rintro (h | h | h)
                · exact Or.inl (Or.inl h)
                · exact Or.inl (Or.inr h)
                · exact Or.inr h
              · rintro ((h | h) | h)
                · exact Or.inl h
                · exact Or.inr (Or.inl h)
                · exact Or.inr (Or.inr h)
            closed := fun i hiout k e fk hfk => by
              cases List.mem_append.mp hiout with
              | inl h => exact hi2.closed i h k e fk hfk
              | inr h =>
                simp only [List.mem_singleton] at h
                subst h
                obtain ⟨f', hf', inc, hinc, rfl⟩ := e
                rw [ht] at hf'
                cases hf'
                exact hc2 inc hinc fk hfk }
        · rw [ht] at hg
          cases hg
          exact hs2 _ List.mem_cons_self

/-- DepthFirstSearch never runs out of fuel and emits every file reachable through includes -/
theorem dfsOrder_complete {p : Program} (w : WF p) :
    ∃ order, dfsOrder p = some order ∧ ∀ i, Reach p i → i ∈ order := by
  have h0 : DInv p [] ⟨[], []⟩ := ⟨List.nodup_nil, by simp, by simp, by simp⟩
  obtain ⟨st, hst, hi, _, hroot⟩ := dfs_spec w (p.files.length + 1) [] p.root ⟨[], []⟩ h0 (by simp)
  refine ⟨st.out, by simp [dfsOrder, hst], ?_⟩
  have hstep : ∀ i j, Path p i j → i ∈ st.out → j ∈ st.out := by
    intro i j hp
    induction hp with
    | refl _ => exact id
    | cons e _ ih =>
      intro hiout
      obtain ⟨fk, hfk⟩ := file_of_lt (w.edge_lt e)
      have := hi.closed _ hiout _ e fk hfk
      have := (hi.setOf _ fk hfk).mp this
      simp only [List.not_mem_nil, or_false] at this
      exact ih this
  intro i hr
  obtain ⟨fr, hfr⟩ := file_of_lt w.root_lt
  have := (hi.setOf _ fr hfr).mp (hroot fr hfr)
  simp only [List.not_mem_nil, or_false] at this
  exact hstep _ _ hr this

/-! ## Part 3 — symbol resolution -/

theorem addAll_seen {n : Name} : ∀ (b : List (Name × Cat)) (c' : Cat) (r : List (Name × Cat)) (t : Table),
    (tlookup n t).isSome = true → addAll (b ++ (n, c') :: r) t = none
  | [], c', r, t, h => by simp [addAll, h]
  | (m, c) :: b, c', r, t, h => by
    simp only [List.cons_append, addAll]
    split
    · rfl
    · apply addAll_seen b c' r
      simp only [tlookup]
      split
      · rfl
      · exact h

/-- RegisterNames refuses any name defined twice, whatever the two kinds (enums included) -/
theorem addAll_dup (n : Name) (c1 c2 : Cat) : ∀ (a b r : List (Name × Cat)) (t : Table),
    addAll (a ++ (n, c1) :: (b ++ (n, c2) :: r)) t = none
  | [], b, r, t => by
    simp only [List.nil_append, addAll]
    split
    · rfl
    · exact addAll_seen b c2 r _ (by simp [tlookup])
  | (m, c) :: a, b, r, t => by
    simp only [List.cons_append, addAll]
    split
    · rfl
    · exact addAll_dup n c1 c2 a b r _

theorem addAll_keeps {n : Name} {c : Cat} : ∀ (l : List (Name × Cat)) (t t' : Table),
    addAll l t = some t' → tlookup n t = some c → tlookup n t' = some c
  | [], t, t', h, hl => by simp only [addAll, Option.some.injEq] at h; exact h ▸ hl
  | (m, d) :: l, t, t', h, hl => by
    simp only [addAll] at h
    split at h
    · simp at h
    · rename_i hm
      apply addAll_keeps l _ t' h
      simp only [tlookup]
      split
      · rename_i e
        subst e
        simp [hl] at hm
      · exact hl

theorem addAll_defines {n : Name} {c : Cat} : ∀ (l : List (Name × Cat)) (t t' : Table),
    addAll l t = some t' → (n, c) ∈ l → tlookup n t' = some c
  | [], _, _, _, hm => by simp at hm
  | (m, d) :: l, t, t', h, hm => by
    simp only [addAll] at h
    split at h
    · simp at h
    · cases List.mem_cons.mp hm with
      | inl e =>
        cases e
        exact addAll_keeps l _ t' h (by simp [tlookup])
      | inr hr => exact addAll_defines l _ t' h hr

/-- `n` occurs as a reference somewhere inside the type expression -/
inductive Mentions (n : Name) : Ty → Prop
  | ref : Mentions n (.ref n)
  | list {v : Ty} : Mentions n v → Mentions n (.list v)
  | mapKey {k v : Ty} : Mentions n k → Mentions n (.map k v)
  | mapVal {k v : Ty} : Mentions n v → Mentions n (.map k v)

/-- ResolveType fails on the name `n` itself -/
def BadRef (cfg : Cfg) (f : File) (tbl : Table) (incs : List IncV) (n : Name) : Prop :=
  ∀ tgt, ∃ e, resolveType cfg f tbl incs tgt (.ref n) = .error e

theorem resolveType_mentions {cfg : Cfg} {f : File} {tbl : Table} {incs : List IncV} {n : Name}
    (hb : BadRef cfg f tbl incs n) : ∀ {t : Ty}, Mentions n t → ∀ tgt, ∃ e, resolveType cfg f tbl incs tgt t = .error e := by
  intro t hm
  induction hm with
  | ref => exact hb
  | list _ ih =>
    intro tgt
    obtain ⟨e, he⟩ := ih none
    exact ⟨e, by simp [resolveType, he]⟩
  | mapKey _ ih =>
    intro tgt
    obtain ⟨e, he⟩ := ih none
    exact ⟨e, by simp [resolveType, he]⟩
  | @mapVal k v _ ih =>
    intro tgt
    obtain ⟨e, he⟩ := ih none
    cases hk : resolveType cfg f tbl incs none k with
    | error e' => exact ⟨e', by simp [resolveType, hk]⟩
    | ok r => exact ⟨e, by simp [resolveType, hk, he]⟩

theorem badRef_undefined {cfg : Cfg} {f : File} {tbl : Table} {incs : List IncV} {n a : Name}
    (h1 : splitType n = .one a) (h2 : tlookup a tbl = none) : BadRef cfg f tbl incs n :=
  fun _ => ⟨.undefinedType, by simp [resolveType, h1, h2]⟩

theorem badRef_nontype {cfg : Cfg} {f : File} {tbl : Table} {incs : List IncV} {n a : Name} {c : Cat}
    (h1 : splitType n = .one a) (h2 : tlookup a tbl = some c) (h3 : isTypeCat cfg c = false) : BadRef cfg f tbl incs n :=
  fun _ => ⟨.notAType, by simp [resolveType, h1, h2, h3]⟩

theorem findExt_none {good : Cat → Bool} {pre nm : Name} : ∀ (incs : List IncV) (k : Nat),
    (∀ v ∈ incs, v.pfx = pre → ∀ c, tlookup nm v.tbl = some c → good c = false) → findExt good pre nm incs k = none
  | [], _, _ => rfl
  | v :: r, k, h => by
    have ih := findExt_none r (k + 1) fun v' hv' => h v' (List.mem_cons_of_mem _ hv')
    simp only [findExt]
    split
    · rename_i hp
      cases hl : tlookup nm v.tbl with
      | none => simpa using ih
      | some c =>
        have := h v List.mem_cons_self hp c hl
        simpa [this] using ih
    · exact ih

/-- a qualified name that no include with that prefix defines as a type (undefined there, a constant, a service, or no such include) -/
theorem badRef_qualified {cfg : Cfg} {f : File} {tbl : Table} {incs : List IncV} {n pre nm : Name}
    (h1 : splitType n = .two pre nm)
    (h2 : ∀ v ∈ incs, v.pfx = pre → ∀ c, tlookup nm v.tbl = some c → isTypeCat cfg c = false) : BadRef cfg f tbl incs n :=
  fun _ => ⟨.undefinedType, by simp [resolveType, h1, findExt_none incs 0 h2]⟩

/-- a work item on which ResolveAST stops -/
def WorkFails (cfg : Cfg) (p : Program) (tables : List (Option Table)) (fuel i : Nat) (f : File) (tbl : Table)
    (incs : List IncV) : Work → Prop
  | .type tgt t => ∃ e, resolveType cfg f tbl incs tgt t = .error e
  | .idents ids => resolveIdents cfg p tables fuel i f ids ≠ .ok
  | .base s => resolveBase tbl incs s = false

theorem doWork_fails {cfg : Cfg} {p : Program} {tables : List (Option Table)} {fuel i : Nat} {f : File} {tbl : Table}
    {incs : List IncV} {w : Work} (hw : WorkFails cfg p tables fuel i f tbl incs w) (r : List Work) :
    ∀ (a : List Work) (acc : List Pend), (doWork cfg p tables fuel i f tbl incs (a ++ w :: r) acc).1 ≠ .ok
  | [], acc => by
    cases w with
    | type tgt t =>
      obtain ⟨e, he⟩ := hw
      simp [doWork, he]
    | idents ids =>
      simp only [WorkFails] at hw
      cases h : resolveIdents cfg p tables fuel i f ids with
      | ok => exact absurd h hw
      | err e => simp [doWork, h]
      | crash => simp [doWork, h]
    | base s =>
      simp only [WorkFails] at hw
      simp [doWork, hw]
  | x :: a, acc => by
    cases x with
    | type tgt t =>
      cases h : resolveType cfg f tbl incs tgt t with
      | error e => simp [doWork, h]
      | ok x =>
        simp only [List.cons_append, doWork, h]
        exact doWork_fails hw r a _
    | idents ids =>
      cases h : resolveIdents cfg p tables fuel i f ids with
      | ok =>
        simp only [List.cons_append, doWork, h]
        exact doWork_fails hw r a _
      | err e => simp [doWork, h]
      | crash => simp [doWork, h]
    | base s =>
      cases h : resolveBase tbl incs s with
      | true =>
        simp only [List.cons_append, doWork, h, if_true]
        exact doWork_fails hw r a _
      | false => simp [doWork, h]

theorem resolveFile_of_work {cfg : Cfg} {p : Program} {i : Nat} {f : File} {tbl : Table}
    (hf : p.files[i]? = some f) (ht : registerNames f = some tbl) {w : Work} (hm : w ∈ fileWork f)
    (hw : WorkFails cfg p (programTables p) (enumFuel p) i f tbl (incViews (programTables p) f) w) :
    resolveFile cfg p (programTables p) i ≠ .ok := by
  obtain ⟨a, r, hsplit⟩ := List.append_of_mem hm
  have := doWork_fails hw r a []
  rw [← hsplit] at this
  simp only [resolveFile, hf, ht]
  cases hd : doWork cfg p (programTables p) (enumFuel p) i f tbl (incViews (programTables p) f) (fileWork f) [] with
  | mk res tds =>
    rw [hd] at this
    cases res with
    | ok => exact absurd rfl this
    | err e => simp
    | crash => simp

theorem resolveFile_of_dup {cfg : Cfg} {p : Program} {i : Nat} {f : File}
    (hf : p.files[i]? = some f) (ht : registerNames f = none) : resolveFile cfg p (programTables p) i ≠ .ok := by
  simp [resolveFile, hf, ht]

/-! ### ResolveTypedefs -/

theorem getD_set_ne (cats : List Bool) (k j : Nat) (h : j ≠ k) (b d : Bool) : (cats.set k b).getD j d = cats.getD j d := by
  simp only [List.getD_eq_getElem?_getD]
  rw [List.getElem?_set_ne (Ne.symm h)]

/-- `C` is a set of local typedefs each of which is an alias of a member of `C`: the pairs that
target a member have a member as their source -/
def PendClosed (C : List Nat) (tds : List Pend) : Prop :=
  ∀ it ∈ tds, ∀ k ∈ C, it.tgt = some k → ∃ j ∈ C, it.src = some j

def CatsStuck (C : List Nat) (cats : List Bool) : Prop := ∀ k ∈ C, cats.getD k false = true

theorem tdRound_spec (C : List Nat) : ∀ (tds : List Pend) (cats : List Bool),
    PendClosed C tds → CatsStuck C cats →
    CatsStuck C (tdRound cats tds).1 ∧
    (∀ it ∈ tds, (∃ k ∈ C, it.tgt = some k) → it ∈ (tdRound cats tds).2) ∧
    (∀ it ∈ (tdRound cats tds).2, it ∈ tds) ∧ (tdRound cats tds).2.length ≤ tds.length
  | [], cats, _, hs => ⟨hs, by simp, by simp [tdRound], by simp [tdRound]⟩
  | it :: r, cats, hc, hs => by
    have hcr : PendClosed C r := fun x hx => hc x (List.mem_cons_of_mem _ hx)
    by_cases hsrc : srcIsTypedef cats it = true
    · -- source still a typedef: kept
      obtain ⟨h1, h2, h3, h4⟩ := tdRound_spec C r cats hcr hs
      simp only [tdRound, hsrc, if_true]
      refine ⟨h1, ?_, ?_, by simp only [List.length_cons]; omega⟩
      · intro x hx hk
        cases List.mem_cons.mp hx with
        | inl e => exact e ▸ List.mem_cons_self
        | inr hr => exact List.mem_cons_of_mem _ (h2 x hr hk)
      · intro x hx
        cases List.mem_cons.mp hx with
        | inl e => exact e ▸ List.mem_cons_self
        | inr hr => exact List.mem_cons_of_mem _ (h3 x hr)
    · -- the target is not a member of C
      have hnot : ∀ k ∈ C, it.tgt ≠ some k := by
        intro k hk ht
        obtain ⟨j, hj, hsj⟩ := hc it List.mem_cons_self k hk ht
        exact hsrc (by simp only [srcIsTypedef, hsj]; exact hs j hj)
      have hs' : CatsStuck C (clearTarget cats it) := by
        intro k hk
        simp only [clearTarget]
        cases htg : it.tgt with
        | none => exact hs k hk
        | some k' =>
          have : k ≠ k' := fun e => hnot k hk (e ▸ htg)
          simp only
          rw [getD_set_ne cats k' k this]
          exact hs k hk
      obtain ⟨h1, h2, h3, h4⟩ := tdRound_spec C r _ hcr hs'
      simp only [tdRound, hsrc, Bool.false_eq_true, if_false]
      refine ⟨h1, ?_, fun x hx => List.mem_cons_of_mem _ (h3 x hx), by simp only [List.length_cons]; omega⟩
      intro x hx hk
      cases List.mem_cons.mp hx with
      | inl e =>
        obtain ⟨k, hkC, hkt⟩ := hk
        exact absurd (e ▸ hkt) (hnot k hkC)
      | inr hr => exact h2 x hr hk

theorem resolveTypedefs_stuck (C : List Nat) : ∀ (fuel : Nat) (cats : List Bool) (tds : List Pend),
    PendClosed C tds → CatsStuck C cats → (∃ it ∈ tds, ∃ k ∈ C, it.tgt = some k) →
    resolveTypedefs fuel cats tds ≠ some true
  | 0, _, _, _, _, _ => by simp [resolveTypedefs]
  | fuel + 1, cats, tds, hc, hs, ⟨it, hit, hk⟩ => by
    obtain ⟨h1, h2, h3, _⟩ := tdRound_spec C tds cats hc hs
    simp only [resolveTypedefs]
    split
    · rename_i he
      cases tds with
      | nil => simp at hit
      | cons _ _ => simp at he
    · cases hr : tdRound cats tds with
      | mk cats' tmp =>
        rw [hr] at h1 h2 h3
        simp only
        split
        · simp
        · exact resolveTypedefs_stuck C fuel cats' tmp
            (fun x hx => hc x (h3 x hx)) h1 ⟨it, h2 it hit hk, hk⟩

theorem tdRound_length : ∀ (tds : List Pend) (cats : List Bool), (tdRound cats tds).2.length ≤ tds.length
  | [], _ => by simp [tdRound]
  | it :: r, cats => by
    by_cases hsrc : srcIsTypedef cats it = true
    · have := tdRound_length r cats
      simp only [tdRound, hsrc, if_true, List.length_cons]
      omega
    · have := tdRound_length r (clearTarget cats it)
      simp only [tdRound, hsrc, Bool.false_eq_true, if_false, List.length_cons]
      omega

/-- the loop of ResolveTypedefs ends: every round that goes on has removed a pair -/
theorem resolveTypedefs_fuel : ∀ (fuel : Nat) (cats : List Bool) (tds : List Pend),
    tds.length < fuel → resolveTypedefs fuel cats tds ≠ none
  | 0, _, _, h => by omega
  | fuel + 1, cats, tds, h => by
    simp only [resolveTypedefs]
    split
    · simp
    · have hl := tdRound_length tds cats
      cases hr : tdRound cats tds with
      | mk cats' tmp =>
        rw [hr] at hl
        simp only
        split
        · simp
        · rename_i hne
          exact resolveTypedefs_fuel fuel cats' tmp (by simp only at hl; omega)

/-! ### the pairs ResolveAST collects -/

theorem resolveType_pend {cfg : Cfg} {f : File} {tbl : Table} {incs : List IncV} :
    ∀ (t : Ty) (tgt : Option Nat) (b : Bool) (ps : List Pend), resolveType cfg f tbl incs tgt t = .ok (b, ps) →
    ∀ it ∈ ps, ∀ k, it.tgt = some k →
      tgt = some k ∧ ∃ n, t = .ref n ∧
        ((∃ a, splitType n = .one a ∧ it.src = typedefIdx f a) ∨ (∃ pre nm, splitType n = .two pre nm ∧ it.src = none))
  | .base, tgt, b, ps, h, it, hit, k, hk => by
    simp only [resolveType, Except.ok.injEq, Prod.mk.injEq] at h
    rw [← h.2] at hit
    simp at hit
  | .list v, tgt, b, ps, h, it, hit, k, hk => by
    simp only [resolveType] at h
    cases hv : resolveType cfg f tbl incs none v with
    | error e => simp [hv] at h
    | ok r =>
      obtain ⟨b', ps'⟩ := r
      simp only [hv, Except.ok.injEq, Prod.mk.injEq] at h
      rw [← h.2] at hit
      have := (resolveType_pend v none b' ps' hv it hit k hk).1
      simp at this
  | .map kt v, tgt, b, ps, h, it, hit, k, hk => by
    simp only [resolveType] at h
    cases hkt : resolveType cfg f tbl incs none kt with
    | error e => simp [hkt] at h
    | ok r =>
      obtain ⟨b1, ps1⟩ := r
      cases hv : resolveType cfg f tbl incs none v with
      | error e => simp [hkt, hv] at h
      | ok r2 =>
        obtain ⟨b2, ps2⟩ := r2
        simp only [hkt, hv, Except.ok.injEq, Prod.mk.injEq] at h
        rw [← h.2] at hit
        cases List.mem_append.mp hit with
        | inl h1 =>
          have := (resolveType_pend kt none b1 ps1 hkt it h1 k hk).1
          simp at this
        | inr h2 =>
          have := (resolveType_pend v none b2 ps2 hv it h2 k hk).1
          simp at this
  | .ref n, tgt, b, ps, h, it, hit, k, hk => by
    simp only [resolveType] at h
    cases hs : splitType n with
    | empty => simp [hs] at h
    | one a =>
      simp only [hs] at h
      cases hl : tlookup a tbl with
      | none => simp [hl] at h
      | some c =>
        simp only [hl] at h
        split at h
        · split at h
          · simp only [Except.ok.injEq, Prod.mk.injEq] at h
            rw [← h.2] at hit
            simp only [List.mem_singleton] at hit
            subst hit
            exact ⟨hk, n, rfl, Or.inl ⟨a, hs, rfl⟩⟩
          · simp only [Except.ok.injEq, Prod.mk.injEq] at h
            rw [← h.2] at hit
            simp at hit
        · simp at h
    | two pre nm =>
      simp only [hs] at h
      cases hx : findExt (isTypeCat cfg) pre nm incs 0 with
      | none => simp [hx] at h
      | some r =>
        obtain ⟨ix, c⟩ := r
        simp only [hx] at h
        split at h
        · simp only [Except.ok.injEq, Prod.mk.injEq] at h
          rw [← h.2] at hit
          simp only [List.mem_singleton] at hit
          subst hit
          exact ⟨hk, n, rfl, Or.inr ⟨pre, nm, hs, rfl⟩⟩
        · simp only [Except.ok.injEq, Prod.mk.injEq] at h
          rw [← h.2] at hit
          simp at hit

/-- every pair in the result either was there before or comes from a `.type` item of the list -/
theorem doWork_pend {cfg : Cfg} {p : Program} {tables : List (Option Table)} {fuel i : Nat} {f : File} {tbl : Table}
    {incs : List IncV} : ∀ (ws : List Work) (acc : List Pend) (res : RRes) (out : List Pend),
    doWork cfg p tables fuel i f tbl incs ws acc = (res, out) →
    ∀ it ∈ out, it ∈ acc ∨ ∃ tgt t b ps, Work.type tgt t ∈ ws ∧ resolveType cfg f tbl incs tgt t = .ok (b, ps) ∧ it ∈ ps
  | [], acc, res, out, h, it, hit => by
    simp only [doWork, Prod.mk.injEq] at h
    exact Or.inl (h.2 ▸ hit)
  | .type tgt t :: r, acc, res, out, h, it, hit => by
    simp only [doWork] at h
    cases ht : resolveType cfg f tbl incs tgt t with
    | error e =>
      simp only [ht, Prod.mk.injEq] at h
      exact Or.inl (h.2 ▸ hit)
    | ok x =>
      obtain ⟨b, ps⟩ := x
      simp only [ht] at h
      cases doWork_pend r (acc ++ ps) res out h it hit with
      | inl h1 =>
        cases List.mem_append.mp h1 with
        | inl h2 => exact Or.inl h2
        | inr h2 => exact Or.inr ⟨tgt, t, b, ps, List.mem_cons_self, ht, h2⟩
      | inr h1 =>
        obtain ⟨tgt', t', b', ps', hm, hr, hi⟩ := h1
        exact Or.inr ⟨tgt', t', b', ps', List.mem_cons_of_mem _ hm, hr, hi⟩
  | .idents ids :: r, acc, res, out, h, it, hit => by
    simp only [doWork] at h
    split at h
    · cases doWork_pend r acc res out h it hit with
      | inl h1 => exact Or.inl h1
      | inr h1 =>
        obtain ⟨tgt', t', b', ps', hm, hr, hi⟩ := h1
        exact Or.inr ⟨tgt', t', b', ps', List.mem_cons_of_mem _ hm, hr, hi⟩
    · simp only [Prod.mk.injEq] at h
      exact Or.inl (h.2 ▸ hit)
  | .base s :: r, acc, res, out, h, it, hit => by
    simp only [doWork] at h
    split at h
    · cases doWork_pend r acc res out h it hit with
      | inl h1 => exact Or.inl h1
      | inr h1 =>
        obtain ⟨tgt', t', b', ps', hm, hr, hi⟩ := h1
        exact Or.inr ⟨tgt', t', b', ps', List.mem_cons_of_mem _ hm, hr, hi⟩
    · simp only [Prod.mk.injEq] at h
      exact Or.inl (h.2 ▸ hit)

/-- a successful run has collected the pairs of every `.type` item -/
theorem doWork_collects {cfg : Cfg} {p : Program} {tables : List (Option Table)} {fuel i : Nat} {f : File} {tbl : Table}
    {incs : List IncV} : ∀ (ws : List Work) (acc : List Pend) (out : List Pend),
    doWork cfg p tables fuel i f tbl incs ws acc = (.ok, out) →
    (∀ it ∈ acc, it ∈ out) ∧
    ∀ tgt t, Work.type tgt t ∈ ws → ∃ b ps, resolveType cfg f tbl incs tgt t = .ok (b, ps) ∧ ∀ it ∈ ps, it ∈ out
  | [], acc, out, h => by
    simp only [doWork, Prod.mk.injEq, true_and] at h
    exact ⟨fun it hi => h ▸ hi, by simp⟩
  | .type tgt t :: r, acc, out, h => by
    simp only [doWork] at h
    cases ht : resolveType cfg f tbl incs tgt t with
    | error e => simp [ht] at h
    | ok x =>
      obtain ⟨b, ps⟩ := x
      simp only [ht] at h
      obtain ⟨h1, h2⟩ := doWork_collects r (acc ++ ps) out h
      refine ⟨fun it hi => h1 it (List.mem_append_left _ hi), ?_⟩
      intro tgt' t' hm
      cases List.mem_cons.mp hm with
      | inl e =>
        cases e
        exact ⟨b, ps, ht, fun it hi => h1 it (List.mem_append_right _ hi)⟩
      | inr hr => exact h2 tgt' t' hr
  | .idents ids :: r, acc, out, h => by
    simp only [doWork] at h
    split at h
    · obtain ⟨h1, h2⟩ := doWork_collects r acc out h
      refine ⟨h1, fun tgt' t' hm => ?_⟩
      cases List.mem_cons.mp hm with
      | inl e => cases e
      | inr hr => exact h2 tgt' t' hr
    · rename_i e hne
      simp only [Prod.mk.injEq] at h
      exact absurd h.1 (by intro he; exact hne he)
  | .base s :: r, acc, out, h => by
    simp only [doWork] at h
    split at h
    · obtain ⟨h1, h2⟩ := doWork_collects r acc out h
      refine ⟨h1, fun tgt' t' hm => ?_⟩
      cases List.mem_cons.mp hm with
      | inl e => cases e
      | inr hr => exact h2 tgt' t' hr
    · simp at h

theorem mem_enumFrom {α : Type} : ∀ (l : List α) (s k : Nat) (x : α), (k, x) ∈ enumFrom s l ↔ s ≤ k ∧ l[k - s]? = some x
  | [], s, k, x => by simp [enumFrom]
  | y :: l, s, k, x => by
    simp only [enumFrom, List.mem_cons, Prod.mk.injEq, mem_enumFrom l (s + 1) k x]
    constructor
    · rintro (⟨rfl, rfl⟩ | ⟨h1, h2⟩)
      · simp
      · refine ⟨by omega, ?_⟩
        have : k - s = (k - (s + 1)) + 1 := by omega
        rw [this, List.getElem?_cons_succ]
        exact h2
    · rintro ⟨h1, h2⟩
      by_cases hk : k = s
      · subst hk
        simp only [Nat.sub_self, List.getElem?_cons_zero, Option.some.injEq] at h2
        exact Or.inl ⟨rfl, h2.symm⟩
      · refine Or.inr ⟨by omega, ?_⟩
        have : k - s = (k - (s + 1)) + 1 := by omega
        rw [this, List.getElem?_cons_succ] at h2
        exact h2

/-- the `.type (some k) _` items of a file are exactly its typedefs, numbered -/
theorem fileWork_typedef_item {f : File} {k : Nat} {t : Ty} :
    Work.type (some k) t ∈ fileWork f ↔ ∃ td, f.typedefs[k]? = some td ∧ td.ty = t := by
  simp only [fileWork, List.mem_append, List.mem_map, List.mem_flatMap, Prod.exists]
  constructor
  · rintro (((⟨k', td, hm, he⟩ | ⟨c, _, hc⟩) | ⟨s, _, fl, _, hfl⟩) | ⟨s, _, hs⟩)
    · cases he
      have := (mem_enumFrom f.typedefs 0 k td).mp hm
      exact ⟨td, by simpa using this.2, rfl⟩
    · simp at hc
    · simp only [fieldWork] at hfl
      split at hfl <;> simp at hfl
    · rcases hs with ⟨fn, _, hfn⟩ | hb
      · simp only [funcWork, List.mem_append, List.mem_flatMap] at hfn
        rcases hfn with (hfn | ⟨a, _, ha⟩) | ⟨a, _, ha⟩
        · split at hfn <;> simp at hfn
        · simp only [fieldWork] at ha
          split at ha <;> simp at ha
        · simp only [fieldWork] at ha
          split at ha <;> simp at ha
      · simp at hb
  · rintro ⟨td, htd, rfl⟩
    exact Or.inl (Or.inl (Or.inl ⟨k, td, (mem_enumFrom f.typedefs 0 k td).mpr ⟨Nat.zero_le _, by simpa using htd⟩, rfl⟩))

theorem typedefIdx_spec {f : File} {a : Name} {j : Nat} (h : typedefIdx f a = some j) :
    ∃ td, f.typedefs[j]? = some td ∧ td.alias = a := by
  simp only [typedefIdx] at h
  split at h
  · rename_i hlt
    simp only [Option.some.injEq] at h
    subst h
    refine ⟨f.typedefs[List.findIdx (fun td => decide (td.alias = a)) f.typedefs], List.getElem?_eq_getElem hlt, ?_⟩
    have := List.findIdx_getElem (p := fun td : Typedef => decide (td.alias = a)) (w := hlt)
    simpa using this
  · simp at h

theorem symbols_typedef {f : File} {j : Nat} {td : Typedef} (h : f.typedefs[j]? = some td) :
    (td.alias, Cat.typedef) ∈ f.symbols := by
  simp only [File.symbols, List.mem_append, List.mem_map]
  exact Or.inl ⟨td, List.mem_of_getElem? h, rfl⟩

/-- **typedef cycles, any length.**  `C` is a non-empty set of local typedefs each of which is
written as an alias of (the first typedef called like) another member of `C`. -/
structure TypedefKnot (f : File) (C : List Nat) : Prop where
  nonempty : C ≠ []
  step : ∀ k ∈ C, ∃ td a, f.typedefs[k]? = some td ∧ td.ty = .ref a ∧ splitType a = .one a ∧
    ∃ j ∈ C, typedefIdx f a = some j

theorem resolveFile_of_knot {cfg : Cfg} (hcfg : isTypeCat cfg .typedef = true) {p : Program} {i : Nat} {f : File}
    (hf : p.files[i]? = some f) {C : List Nat} (hk : TypedefKnot f C) :
    resolveFile cfg p (programTables p) i ≠ .ok := by
  simp only [resolveFile, hf]
  cases ht : registerNames f with
  | none => simp
  | some tbl =>
    simp only
    cases hd : doWork cfg p (programTables p) (enumFuel p) i f tbl (incViews (programTables p) f) (fileWork f) [] with
    | mk res tds =>
      cases res with
      | err e => simp
      | crash => simp
      | ok =>
        simp only
        -- what ResolveType does on the type of a member of C
        have hmember : ∀ k ∈ C, ∃ td a j, f.typedefs[k]? = some td ∧ td.ty = .ref a ∧ splitType a = .one a ∧ j ∈ C ∧
            typedefIdx f a = some j ∧
            resolveType cfg f tbl (incViews (programTables p) f) (some k) (.ref a) = .ok (true, [⟨some k, some j⟩]) := by
          intro k hkC
          obtain ⟨td, a, htd, hty, hsp, j, hj, hidx⟩ := hk.step k hkC
          obtain ⟨tdj, htdj, hal⟩ := typedefIdx_spec hidx
          have hl : tlookup a tbl = some .typedef := by
            have := addAll_defines (n := tdj.alias) (c := .typedef) f.symbols [] tbl ht (symbols_typedef htdj)
            rwa [hal] at this
          exact ⟨td, a, j, htd, hty, hsp, hj, hidx, by simp [resolveType, hsp, hl, hcfg, hidx]⟩
        have hcol := (doWork_collects _ _ _ hd).2
        have hclosed : PendClosed C tds := by
          intro it hit k hkC htg
          cases doWork_pend _ _ _ _ hd it hit with
          | inl h => simp at h
          | inr h =>
            obtain ⟨tgt, t, b, ps, hm, hr, hi⟩ := h
            obtain ⟨htgt, n, hn, hsrc⟩ := resolveType_pend t tgt b ps hr it hi k htg
            subst htgt hn
            obtain ⟨td', htd', hty'⟩ := fileWork_typedef_item.mp hm
            obtain ⟨td, a, j, htd, hty, hsp, hj, hidx, _⟩ := hmember k hkC
            rw [htd] at htd'
            cases htd'
            rw [hty] at hty'
            cases hty'
            rcases hsrc with ⟨a', ha', hs'⟩ | ⟨pre, nm, ha', _⟩
            · rw [hsp] at ha'
              cases ha'
              exact ⟨j, hj, by rw [hs', hidx]⟩
            · rw [hsp] at ha'
              cases ha'
        have hex : ∃ it ∈ tds, ∃ k ∈ C, it.tgt = some k := by
          obtain ⟨k0, hk0⟩ := List.exists_mem_of_ne_nil C hk.nonempty
          · obtain ⟨td, a, j, htd, hty, hsp, hj, hidx, hres⟩ := hmember k0 hk0
            obtain ⟨b, ps, hr, hin⟩ := hcol (some k0) (.ref a) (fileWork_typedef_item.mpr ⟨td, htd, hty⟩)
            rw [hres] at hr
            simp only [Except.ok.injEq, Prod.mk.injEq] at hr
            exact ⟨⟨some k0, some j⟩, hin _ (hr.2 ▸ List.mem_singleton_self _), k0, hk0, rfl⟩
        have hstuck : CatsStuck C (initCats cfg f tbl (incViews (programTables p) f)) := by
          intro k hkC
          obtain ⟨td, a, j, htd, hty, hsp, hj, hidx, _⟩ := hmember k hkC
          obtain ⟨tdj, htdj, hal⟩ := typedefIdx_spec hidx
          have hl : tlookup a tbl = some .typedef := by
            have := addAll_defines (n := tdj.alias) (c := .typedef) f.symbols [] tbl ht (symbols_typedef htdj)
            rwa [hal] at this
          simp [initCats, List.getD_eq_getElem?_getD, List.getElem?_map, htd, hty, resolveType, hsp, hl, hcfg]
        have := resolveTypedefs_stuck C (tds.length + 1) _ tds hclosed hstuck hex
        cases hrt : resolveTypedefs (tds.length + 1) (initCats cfg f tbl (incViews (programTables p) f)) tds with
        | none => simp
        | some b =>
          cases b with
          | true => exact absurd hrt this
          | false => simp

/-! ### getEnum terminates -/

theorem mem_typedefKeys {p : Program} {i : Nat} {f : File} {td : Typedef} (hf : p.files[i]? = some f)
    (htd : td ∈ f.typedefs) : (i, td.alias) ∈ typedefKeys p := by
  simp only [typedefKeys, List.mem_flatMap, List.mem_map, Prod.exists]
  exact ⟨i, f, (mem_enumFrom p.files 0 i f).mpr ⟨Nat.zero_le _, by simpa using hf⟩, td, htd, rfl⟩

/-- the visited set only ever holds distinct (file, typedef) keys, so the fuel cannot run out -/
theorem getEnum_ne_none (cfg : Cfg) (p : Program) (tables : List (Option Table)) :
    ∀ (fuel : Nat) (seen : List (Nat × Name)) (i : Nat) (name : Name),
    seen.Nodup → (∀ k ∈ seen, k ∈ typedefKeys p) → (typedefKeys p).length + 1 ≤ fuel + seen.length →
    getEnum cfg p tables fuel seen i name ≠ none
  | 0, seen, _, _, hn, hs, hf => by
    have := nodup_subset_length hn hs
    omega
  | fuel + 1, seen, i, name, hn, hs, hf => by
    simp only [getEnum]
    cases hfile : p.files[i]? with
    | none => simp
    | some f =>
      simp only
      cases hl : tlookup name (tableOf tables i) with
      | none => simp
      | some c =>
        cases c with
        | typedef =>
          simp only
          cases hfind : f.typedefs.find? (fun td => decide (td.alias = name)) with
          | none => simp
          | some td =>
            simp only
            split
            · simp
            · rename_i hmem
              have hal : td.alias = name := by simpa using List.find?_some hfind
              have hkey : (i, name) ∈ typedefKeys p := hal ▸ mem_typedefKeys hfile (List.mem_of_find?_eq_some hfind)
              have hn' : ((i, name) :: seen).Nodup := List.nodup_cons.mpr ⟨hmem, hn⟩
              have hs' : ∀ k ∈ (i, name) :: seen, k ∈ typedefKeys p := by
                intro k hk
                cases List.mem_cons.mp hk with
                | inl e => exact e ▸ hkey
                | inr h => exact hs k h
              have hf' : (typedefKeys p).length + 1 ≤ fuel + ((i, name) :: seen).length := by
                simp only [List.length_cons]; omega
              cases hty : td.ty with
              | ref n =>
                simp only
                cases typeRef cfg tables f n with
                | none => exact getEnum_ne_none cfg p tables fuel _ i n hn' hs' hf'
                | some r => exact getEnum_ne_none cfg p tables fuel _ r.1 r.2 hn' hs' hf'
              | base => simp
              | list v => simp
              | map k v => simp
        | constant => simp
        | enum => simp
        | struct => simp
        | union => simp
        | exception => simp
        | service => simp

theorem foldl_some_inv {α : Type} (g : Option Nat → α → Option Nat) : ∀ (l : List α) (n : Nat),
    (∀ x ∈ l, ∀ m, ∃ m', g (some m) x = some m') → ∃ m', l.foldl g (some n) = some m'
  | [], n, _ => ⟨n, rfl⟩
  | x :: r, n, h => by
    obtain ⟨m', hm'⟩ := h x List.mem_cons_self n
    simp only [List.foldl_cons, hm']
    exact foldl_some_inv g r m' fun y hy => h y (List.mem_cons_of_mem _ hy)

theorem countSplit_total (cfg : Cfg) (p : Program) (tables : List (Option Table)) (fuel i : Nat) (f : File)
    (hfuel : (typedefKeys p).length + 1 ≤ fuel) (ss : List Name) :
    ∃ n, countSplit cfg p tables fuel i f ss = some n := by
  have hg : ∀ j nm, getEnum cfg p tables fuel [] j nm ≠ none := fun j nm =>
    getEnum_ne_none cfg p tables fuel [] j nm List.nodup_nil (by simp) (by simpa using hfuel)
  match ss with
  | [] => exact ⟨0, rfl⟩
  | [a] => exact ⟨_, rfl⟩
  | [a, b] =>
    simp only [countSplit]
    cases hge : getEnum cfg p tables fuel [] i a with
    | none => exact absurd hge (hg i a)
    | some e => exact ⟨_, rfl⟩
  | [a, e, v] =>
    simp only [countSplit]
    apply foldl_some_inv
    intro iv _ m
    by_cases hp : iv.pfx = a
    · simp only [hp, if_true]
      cases hge : getEnum cfg p tables fuel [] iv.ref e with
      | none => exact absurd hge (hg iv.ref e)
      | some r => cases r <;> exact ⟨_, rfl⟩
    · simp [hp]
  | _ :: _ :: _ :: _ :: _ => exact ⟨0, rfl⟩

theorem countIdent_total (cfg : Cfg) (p : Program) (tables : List (Option Table)) (fuel i : Nat) (f : File)
    (hfuel : (typedefKeys p).length + 1 ≤ fuel) (id : Name) : ∃ m, countIdent cfg p tables fuel i f id = some m := by
  have : ∀ (l : List (List Name)) (n : Nat),
      ∃ m, l.foldl (fun acc ss => addCounts acc (countSplit cfg p tables fuel i f ss)) (some n) = some m := by
    intro l
    induction l with
    | nil => exact fun n => ⟨n, rfl⟩
    | cons ss r ih =>
      intro n
      obtain ⟨m, hm⟩ := countSplit_total cfg p tables fuel i f hfuel ss
      simp only [List.foldl_cons, hm, addCounts]
      exact ih (n + m)
  exact this (splitValue id) 0

theorem resolveIdent_no_crash (cfg : Cfg) (p : Program) (tables : List (Option Table)) (fuel i : Nat) (f : File)
    (hfuel : (typedefKeys p).length + 1 ≤ fuel) (id : Name) : resolveIdent cfg p tables fuel i f id ≠ .crash := by
  obtain ⟨m, hm⟩ := countIdent_total cfg p tables fuel i f hfuel id
  simp only [resolveIdent, hm]
  split
  · simp
  · match m with
    | 0 => simp
    | 1 => simp
    | _ + 2 => simp

theorem resolveIdents_no_crash (cfg : Cfg) (p : Program) (tables : List (Option Table)) (fuel i : Nat) (f : File)
    (hfuel : (typedefKeys p).length + 1 ≤ fuel) : ∀ (ids : List Name), resolveIdents cfg p tables fuel i f ids ≠ .crash
  | [] => by simp [resolveIdents]
  | id :: r => by
    have h1 := resolveIdent_no_crash cfg p tables fuel i f hfuel id
    simp only [resolveIdents]
    cases hr : resolveIdent cfg p tables fuel i f id with
    | ok => exact resolveIdents_no_crash cfg p tables fuel i f hfuel r
    | undefined => simp
    | ambiguous => simp
    | crash => exact absurd hr h1

theorem doWork_no_crash {cfg : Cfg} {p : Program} {tables : List (Option Table)} {fuel i : Nat} {f : File} {tbl : Table}
    {incs : List IncV} (hfuel : (typedefKeys p).length + 1 ≤ fuel) : ∀ (ws : List Work) (acc : List Pend),
    (doWork cfg p tables fuel i f tbl incs ws acc).1 ≠ .crash
  | [], acc => by simp [doWork]
  | .type tgt t :: r, acc => by
    simp only [doWork]
    split
    · simp
    · exact doWork_no_crash hfuel r _
  | .idents ids :: r, acc => by
    have h1 := resolveIdents_no_crash cfg p tables fuel i f hfuel ids
    cases hr : resolveIdents cfg p tables fuel i f ids with
    | ok =>
      simp only [doWork, hr]
      exact doWork_no_crash hfuel r _
    | err e => simp [doWork, hr]
    | crash => exact absurd hr h1
  | .base s :: r, acc => by
    simp only [doWork]
    split
    · exact doWork_no_crash hfuel r _
    · simp

/-! ### where types and constant identifiers sit in a file -/

/-- every place of a file where a type is written -/
inductive TypeSite (f : File) : Ty → Prop
  | typedef (td : Typedef) : td ∈ f.typedefs → TypeSite f td.ty
  | const (c : Const) : c ∈ f.consts → TypeSite f c.ty
  | field (s : StructLike) (fl : Field) : s ∈ f.structLikes → fl ∈ s.fields → TypeSite f fl.ty
  | ret (sv : Service) (fn : Func) : sv ∈ f.services → fn ∈ sv.funcs → fn.void = false → TypeSite f fn.ret
  | arg (sv : Service) (fn : Func) (a : Field) : sv ∈ f.services → fn ∈ sv.funcs → a ∈ fn.args → TypeSite f a.ty
  | throws (sv : Service) (fn : Func) (a : Field) : sv ∈ f.services → fn ∈ sv.funcs → a ∈ fn.throws → TypeSite f a.ty

/-- every constant value ResolveAST looks at: constants, defaults of struct-like fields, defaults
of arguments and of throws entries -/
inductive IdentSite (f : File) : List Name → Prop
  | const (c : Const) : c ∈ f.consts → IdentSite f c.idents
  | field (s : StructLike) (fl : Field) : s ∈ f.structLikes → fl ∈ s.fields → fl.hasDefault = true → IdentSite f fl.dflt
  | arg (sv : Service) (fn : Func) (a : Field) : sv ∈ f.services → fn ∈ sv.funcs → a ∈ fn.args → a.hasDefault = true → IdentSite f a.dflt
  | throws (sv : Service) (fn : Func) (a : Field) : sv ∈ f.services → fn ∈ sv.funcs → a ∈ fn.throws → a.hasDefault = true → IdentSite f a.dflt

theorem typeSite_work {f : File} {t : Ty} (h : TypeSite f t) : ∃ tgt, Work.type tgt t ∈ fileWork f := by
  cases h with
  | typedef td hm =>
    obtain ⟨k, hk⟩ := List.mem_iff_getElem?.mp hm
    exact ⟨some k, fileWork_typedef_item.mpr ⟨td, hk, rfl⟩⟩
  | const c hm =>
    refine ⟨none, ?_⟩
    simp only [fileWork, List.mem_append, List.mem_flatMap]
    exact Or.inl (Or.inl (Or.inr ⟨c, hm, by simp⟩))
  | field s fl hs hf =>
    refine ⟨none, ?_⟩
    simp only [fileWork, List.mem_append, List.mem_flatMap]
    exact Or.inl (Or.inr ⟨s, hs, fl, hf, by simp [fieldWork]⟩)
  | ret sv fn hs hf hv =>
    refine ⟨none, ?_⟩
    simp only [fileWork, List.mem_append, List.mem_flatMap]
    exact Or.inr ⟨sv, hs, Or.inl ⟨fn, hf, by simp [funcWork, hv]⟩⟩
  | arg sv fn a hs hf ha =>
    refine ⟨none, ?_⟩
    simp only [fileWork, List.mem_append, List.mem_flatMap]
    refine Or.inr ⟨sv, hs, Or.inl ⟨fn, hf, ?_⟩⟩
    simp only [funcWork, List.mem_append, List.mem_flatMap]
    exact Or.inl (Or.inr ⟨a, ha, by simp [fieldWork]⟩)
  | throws sv fn a hs hf ha =>
    refine ⟨none, ?_⟩
    simp only [fileWork, List.mem_append, List.mem_flatMap]
    refine Or.inr ⟨sv, hs, Or.inl ⟨fn, hf, ?_⟩⟩
    simp only [funcWork, List.mem_append, List.mem_flatMap]
    exact Or.inr ⟨a, ha, by simp [fieldWork]⟩

theorem identSite_work {f : File} {ids : List Name} (h : IdentSite f ids) : Work.idents ids ∈ fileWork f := by
  cases h with
  | const c hm =>
    simp only [fileWork, List.mem_append, List.mem_flatMap]
    exact Or.inl (Or.inl (Or.inr ⟨c, hm, by simp⟩))
  | field s fl hs hf hd =>
    simp only [fileWork, List.mem_append, List.mem_flatMap]
    exact Or.inl (Or.inr ⟨s, hs, fl, hf, by simp [fieldWork, hd]⟩)
  | arg sv fn a hs hf ha hd =>
    simp only [fileWork, List.mem_append, List.mem_flatMap]
    refine Or.inr ⟨sv, hs, Or.inl ⟨fn, hf, ?_⟩⟩
    simp only [funcWork, List.mem_append, List.mem_flatMap]
    exact Or.inl (Or.inr ⟨a, ha, by simp [fieldWork, hd]⟩)
  | throws sv fn a hs hf ha hd =>
    simp only [fileWork, List.mem_append, List.mem_flatMap]
    refine Or.inr ⟨sv, hs, Or.inl ⟨fn, hf, ?_⟩⟩
    simp only [funcWork, List.mem_append, List.mem_flatMap]
    exact Or.inr ⟨a, ha, by simp [fieldWork, hd]⟩

theorem base_work {f : File} {s : Service} (h : s ∈ f.services) : Work.base s ∈ fileWork f := by
  simp only [fileWork, List.mem_append, List.mem_flatMap]
  exact Or.inr ⟨s, h, Or.inr (by simp)⟩

/-! ## Part 4 — the pipeline -/

theorem circleDetect_ne_none {p : Program} (w : WF p) : circleDetect p ≠ none :=
  searchCircle_ne_none w _ _ [] List.nodup_nil (by simp) (by simp)

theorem checkAll_err_of_violation {cfg : Cfg} {p : Program} (w : WF p) {i : Nat} {f : File}
    (hr : Reach p i) (hf : p.files[i]? = some f) (hv : checkFile cfg f ≠ none) :
    ∃ j c r, checkAll cfg p = .err j c r := by
  obtain ⟨order, ho, hall⟩ := dfsOrder_complete w
  have hat : checkAt cfg p i ≠ none := by
    simp only [checkAt, hf]
    cases hc : checkFile cfg f with
    | none => exact absurd hc hv
    | some x => simp
  have := findSome?_ne_none (hall i hr) hat
  simp only [checkAll, ho]
  cases hfs : order.findSome? (checkAt cfg p) with
  | none => exact absurd hfs this
  | some x => exact ⟨x.1, x.2.1, x.2.2, rfl⟩

theorem checkFile_of_check {cfg : Cfg} {f : File} {c : CheckFn} (hc : c ∈ cfg.checkOrder) (h : runCheck cfg c f ≠ none) :
    checkFile cfg f ≠ none := by
  apply findSome?_ne_none hc
  cases hr : runCheck cfg c f with
  | none => exact absurd hr h
  | some r => simp

theorem run_reject_of_check {cfg : Cfg} {env : Env} {p : Program} (w : WF p) (hpp : env.parsePanics = false)
    (h : ∃ j c r, checkAll cfg p = .err j c r) : ∃ s, (run cfg env p).outcome = .reject s := by
  obtain ⟨j, c, r, h⟩ := h
  have hc := circleDetect_ne_none w
  simp only [run, hpp, Bool.false_eq_true, if_false]
  split
  · exact ⟨_, rfl⟩
  · split
    · exact ⟨_, rfl⟩
    · cases hcd : circleDetect p with
      | none => exact absurd hcd hc
      | some b =>
        cases b with
        | true => exact ⟨_, rfl⟩
        | false => simp only [h]; exact ⟨_, rfl⟩

theorem run_reject_of_circle {cfg : Cfg} {env : Env} {p : Program} (hpp : env.parsePanics = false)
    (h : circleDetect p = some true) : ∃ s, (run cfg env p).outcome = .reject s := by
  simp only [run, hpp, Bool.false_eq_true, if_false, h]
  split
  · exact ⟨_, rfl⟩
  · split <;> exact ⟨_, rfl⟩

theorem firstBad_ne_ok {g : Nat → RRes} : ∀ {l : List Nat} {i : Nat}, i ∈ l → g i ≠ .ok → firstBad g l ≠ .ok
  | [], _, h, _ => by simp at h
  | x :: r, i, h, hg => by
    simp only [firstBad]
    cases hx : g x with
    | ok =>
      simp only
      cases List.mem_cons.mp h with
      | inl e => exact absurd (e ▸ hx) hg
      | inr hr => exact firstBad_ne_ok hr hg
    | err e => simp
    | crash => simp

theorem firstBad_crash {g : Nat → RRes} : ∀ {l : List Nat}, firstBad g l = .crash → ∃ i ∈ l, g i = .crash
  | [], h => by simp [firstBad] at h
  | x :: r, h => by
    simp only [firstBad] at h
    cases hx : g x with
    | ok =>
      simp only [hx] at h
      obtain ⟨i, hi, hg⟩ := firstBad_crash h
      exact ⟨i, List.mem_cons_of_mem _ hi, hg⟩
    | err e => simp [hx] at h
    | crash => exact ⟨x, List.mem_cons_self, hx⟩

theorem resolveAll_of_file {cfg : Cfg} {p : Program} (w : WF p) {i : Nat} (hr : Reach p i)
    (h : resolveFile cfg p (programTables p) i ≠ .ok) : resolveAll cfg p ≠ .ok := by
  obtain ⟨order, ho, hall⟩ := dfsOrder_complete w
  simp only [resolveAll, ho]
  exact firstBad_ne_ok (hall i hr) h

/-- a resolution failure anywhere ends the run before anything is generated: rejected, or — only
through getEnum's unbounded recursion — crashed -/
theorem run_of_resolve_bad {cfg : Cfg} {env : Env} {p : Program} (hpp : env.parsePanics = false)
    (h : resolveAll cfg p ≠ .ok) (hnc : (run cfg env p).outcome ≠ .crash) :
    ∃ s, (run cfg env p).outcome = .reject s := by
  revert hnc
  simp only [run, hpp, Bool.false_eq_true, if_false]
  split
  · exact fun _ => ⟨_, rfl⟩
  · split
    · exact fun _ => ⟨_, rfl⟩
    · split
      · simp
      · exact fun _ => ⟨_, rfl⟩
      · split
        · simp
        · exact fun _ => ⟨_, rfl⟩
        · split
          · simp
          · exact fun _ => ⟨_, rfl⟩
          · rename_i hok
            exact absurd hok h

theorem resolveFile_no_crash {cfg : Cfg} {p : Program} (i : Nat) :
    resolveFile cfg p (programTables p) i ≠ .crash := by
  simp only [resolveFile]
  cases hf : p.files[i]? with
  | none => simp
  | some f =>
    simp only
    cases ht : registerNames f with
    | none => simp
    | some tbl =>
      simp only
      have hnc := doWork_no_crash (cfg := cfg) (p := p) (tables := programTables p) (fuel := enumFuel p) (i := i) (f := f)
        (tbl := tbl) (incs := incViews (programTables p) f) (by simp [enumFuel]) (fileWork f) []
      cases hd : doWork cfg p (programTables p) (enumFuel p) i f tbl (incViews (programTables p) f) (fileWork f) [] with
      | mk res tds =>
        rw [hd] at hnc
        cases res with
        | err e => simp
        | crash => exact absurd rfl hnc
        | ok =>
          simp only
          have := resolveTypedefs_fuel (tds.length + 1) (initCats cfg f tbl (incViews (programTables p) f)) tds (Nat.lt_succ_self _)
          cases hrt : resolveTypedefs (tds.length + 1) (initCats cfg f tbl (incViews (programTables p) f)) tds with
          | none => exact absurd hrt this
          | some b => cases b <;> simp

/-- no fuel ever runs out: DepthFirstSearch and CircleDetect (pigeonhole on the visited set / path),
getEnum (pigeonhole on its `seen` set), ResolveTypedefs (every round that goes on removes a pair) -/
theorem run_no_crash {cfg : Cfg} {env : Env} {p : Program} (w : WF p) :
    (run cfg env p).outcome ≠ .crash := by
  obtain ⟨order, ho, _⟩ := dfsOrder_complete w
  have hc := circleDetect_ne_none w
  have hca : checkAll cfg p ≠ .exhausted := by
    simp only [checkAll, ho]
    split <;> simp
  have hra : resolveAll cfg p ≠ .crash := by
    simp only [resolveAll, ho]
    intro h
    obtain ⟨i, _, hi⟩ := firstBad_crash h
    exact resolveFile_no_crash i hi
  simp only [run, escaped]
  repeat' split
  all_goals first | simp | (rename_i h; first | exact absurd h hc | exact absurd h hca | exact absurd h hra) | skip
  all_goals simp_all

theorem run_persisted_iff (cfg : Cfg) (env : Env) (p : Program) :
    (run cfg env p).persisted = true ↔ (run cfg env p).outcome = .ok := by
  simp only [run, escaped]
  repeat' split
  all_goals simp

theorem run_exit0 {cfg : Cfg} {env : Env} {p : Program} (h : (run cfg env p).outcome = .exit0NoOutput) :
    cfg.handlePanicExits = false ∧ (env.parsePanics = true ∨ env.backendPanics = true) := by
  revert h
  simp only [run, escaped]
  repeat' split
  all_goals simp_all

theorem resolveIdents_bad {cfg : Cfg} {p : Program} {tables : List (Option Table)} {fuel i : Nat} {f : File} {id : Name}
    (h : resolveIdent cfg p tables fuel i f id ≠ .ok) (b : List Name) :
    ∀ (a : List Name), resolveIdents cfg p tables fuel i f (a ++ id :: b) ≠ .ok
  | [] => by
    simp only [List.nil_append, resolveIdents]
    cases hr : resolveIdent cfg p tables fuel i f id with
    | ok => exact absurd hr h
    | undefined => simp
    | ambiguous => simp
    | crash => simp
  | x :: a => by
    simp only [List.cons_append, resolveIdents]
    cases hr : resolveIdent cfg p tables fuel i f x with
    | ok => exact resolveIdents_bad h b a
    | undefined => simp
    | ambiguous => simp
    | crash => simp

theorem run_abstract {cfg : Cfg} {env : Env} {p : Program}
    (h : env.flagsBad = true ∨
      (env.parsePanics = false ∧ env.syntaxBad = true) ∨
      (env.parsePanics = false ∧ env.backendPanics = false ∧ (env.targetsBad = true ∨ env.backendBad = true) ∧
        (run cfg env p).outcome ≠ .crash)) :
    ∃ s, (run cfg env p).outcome = .reject s := by
  rcases h with h | ⟨h1, h2⟩ | ⟨h1, h2, h3, h4⟩
  · simp [run, h]
  · simp only [run, h1, h2]
    split <;> simp
  · revert h4
    simp only [run, h1, h2, Bool.false_eq_true, if_false]
    split
    · exact fun _ => ⟨_, rfl⟩
    · split
      · exact fun _ => ⟨_, rfl⟩
      · split
        · simp
        · exact fun _ => ⟨_, rfl⟩
        · split
          · simp
          · exact fun _ => ⟨_, rfl⟩
          · split
            · simp
            · exact fun _ => ⟨_, rfl⟩
            · split
              · exact fun _ => ⟨_, rfl⟩
              · split
                · exact fun _ => ⟨_, rfl⟩
                · rcases h3 with h | h <;> simp_all

end Diag
