import ThriftVerif.Gen.Std
/-
  Lib/Reflect: model of /repo/thrift_reflection (C15).

  * AST side  — what `parser.Thrift` holds for one IDL file (`File`), and the include structure as the
    code sees it: `inc.Reference` pointers, i.e. a finite tree `Ast` (the parser rejects include cycles).
  * `describe : File → FileDesc` — descriptor_creater.go, field by field, including what Go maps do:
    annotations / `Includes` (keyed by include *base name*) are built by repeated `m[k] = v` (`mapSet`: the last
    write wins), `Namespaces` (keyed by language) keeps the first entry per language, `ValueMap` is keyed by
    pointer (all pairs kept).
  * `toGoVal` — the Go object a descriptor is, in the vocabulary of `Gen.Schema` (what meta.Marshal walks);
    `marshal`/`unmarshalVal` = the shared schema-driven binary codec (`Gen.Std.write/read`) at the schema
    regenerated from descriptor.thrift.
  * registry — descriptor_register.go (`RegisterAST` → `regAST`, `registerGlobalUUID` → `uuid*`; nested constant
    values are the only descriptors it does not stamp),
    descriptor_lookup.go / descriptor-extend.go (`getDescriptor`, `Lookup*`, `TypeDescriptor.Get*Descriptor`,
    `GetFieldByName/ById`, `GetMethodByName`, `GetParent`), descriptor_register_go_type.go (`registerGoTypes`).
  * `forget : File → FileFacts`, `factsOf : FileDesc → FileFacts` — the facts property C15 lists.

  Go strings are `Bytes`.  A Go map with string keys is an association list with pairwise distinct keys
  (`mapSet` keeps that); its order is immaterial (dumps sort it).
-/
namespace Reflect
open Gen

abbrev Str := Bytes

/-! ### strings (strings.Split / TrimSuffix / Contains as used by the code) -/

/-- the part after the last `sep` (`arr[len(arr)-1]` of `strings.Split(s, sep)`) -/
def lastSeg (sep : Nat) (s : Str) : Str := (s.reverse.takeWhile (· != sep)).reverse

/-- `strings.TrimSuffix` -/
def trimSuffix (suf s : Str) : Str :=
  if suf.isSuffixOf s then s.take (s.length - suf.length) else s

def dotThrift : Str := [46, 116, 104, 114, 105, 102, 116]

/-- include alias: base name of the included file's path without `.thrift` -/
def baseName (path : Str) : Str := trimSuffix dotThrift (lastSeg 47 path)

/-- utils.ParseAlias: (everything before the last '.', the part after it); no dot → ("", name) -/
def parseAlias (tname : Str) : Str × Str :=
  if tname.contains 46 then
    let real := lastSeg 46 tname
    (trimSuffix (46 :: real) tname, real)
  else ([], tname)

/-! ### Go maps with string keys -/

/-- `m[k] = v` -/
def mapSet {β : Type} : List (Str × β) → Str → β → List (Str × β)
  | [], k, v => [(k, v)]
  | (k', v') :: r, k, v => if k' = k then (k', v) :: r else (k', v') :: mapSet r k v

/-- `m[k]` (absent → none) -/
def mapGet {β : Type} : List (Str × β) → Str → Option β
  | [], _ => none
  | (k', v') :: r, k => if k' = k then some v' else mapGet r k

/-- `if _, ok := m[k]; !ok { m[k] = v }` -/
def mapSetNew {β : Type} (m : List (Str × β)) (k : Str) (v : β) : List (Str × β) :=
  match mapGet m k with
  | some _ => m
  | none => mapSet m k v

/-- a map built by `for … { if _, ok := m[key(x)]; !ok { m[key(x)] = val(x) } }`: the first entry per key stays -/
def mapOfListFirst {α β : Type} (key : α → Str) (val : α → β) (xs : List α) : List (Str × β) :=
  xs.foldl (fun m x => mapSetNew m (key x) (val x)) []

/-- a map built by `for … { m[key(x)] = val(x) }` -/
def mapOfList {α β : Type} (key : α → Str) (val : α → β) (xs : List α) : List (Str × β) :=
  xs.foldl (fun m x => mapSet m (key x) (val x)) []

/-! ### AST side -/

mutual
/-- parser.Type: Name, KeyType, ValueType (nil-able pointers) -/
inductive TyE | mk (name : Str) (key val : TyO)
inductive TyO | none | some (t : TyE)
end

deriving instance Repr for TyE
deriving instance Repr for TyO
instance : Inhabited TyO := ⟨.none⟩
instance : Inhabited TyE := ⟨.mk [] .none .none⟩

/-- parser.ConstValue by its `Type` (ConstInt, ConstDouble, ConstLiteral, ConstIdentifier, ConstList, ConstMap) -/
inductive CV
  | int (v : Int) | dbl (bits : Nat) | lit (s : Str) | ident (s : Str)
  | list (xs : List CV) | map (kvs : List (CV × CV))
  deriving Repr, Inhabited

/-- parser.Annotation -/
structure Anno where
  key : Str
  values : List Str
  deriving Repr, Inhabited, DecidableEq

/-- parser.FieldType -/
inductive Req | dflt | required | optional
  deriving Repr, Inhabited, DecidableEq

/-- `FieldType.String()` -/
def Req.str : Req → Str
  | .dflt => [68, 101, 102, 97, 117, 108, 116]
  | .required => [82, 101, 113, 117, 105, 114, 101, 100]
  | .optional => [79, 112, 116, 105, 111, 110, 97, 108]

structure Field where
  name : Str
  id : Int
  req : Req
  ty : TyE
  dflt : Option CV
  annos : List Anno
  comments : Str
  deriving Repr, Inhabited

structure StructLike where
  name : Str
  fields : List Field
  annos : List Anno
  comments : Str
  deriving Repr, Inhabited

structure EnumValue where
  name : Str
  value : Int
  annos : List Anno
  comments : Str
  deriving Repr, Inhabited

structure Enum where
  name : Str
  values : List EnumValue
  annos : List Anno
  comments : Str
  deriving Repr, Inhabited

structure Typedef where
  alias : Str
  ty : TyE
  annos : List Anno
  comments : Str
  deriving Repr, Inhabited

structure Const where
  name : Str
  ty : TyE
  value : CV
  annos : List Anno
  comments : Str
  deriving Repr, Inhabited

structure Function where
  name : Str
  oneway : Bool
  fnType : TyO
  args : List Field
  throws : List Field
  annos : List Anno
  comments : Str
  deriving Repr, Inhabited

structure Service where
  name : Str
  base : Str
  functions : List Function
  annos : List Anno
  comments : Str
  deriving Repr, Inhabited

structure Namespace where
  lang : Str
  name : Str
  deriving Repr, Inhabited, DecidableEq

/-- parser.Thrift; `includes` = `inc.Reference.Filename` of every include, in order -/
structure File where
  filename : Str
  includes : List Str
  namespaces : List Namespace
  typedefs : List Typedef
  consts : List Const
  enums : List Enum
  structs : List StructLike
  unions : List StructLike
  exceptions : List StructLike
  services : List Service
  deriving Repr, Inhabited

/-- the AST as the code walks it: a file and the ASTs its includes point to -/
inductive Ast | mk (file : File) (refs : List Ast)
  deriving Inhabited

def Ast.file : Ast → File | .mk f _ => f
def Ast.refs : Ast → List Ast | .mk _ r => r

/-! ### descriptors (descriptor.thrift / descriptor.go) -/

/-- `map[string]string`, nil-able -/
abbrev Extra := Option (List (Str × Str))
abbrev AnnoMap := List (Str × List Str)

mutual
inductive TypeDesc | mk (filepath name : Str) (key val : TypeDescO) (extra : Extra)
inductive TypeDescO | none | some (t : TypeDesc)
end

deriving instance Repr for TypeDesc
deriving instance Repr for TypeDescO
instance : Inhabited TypeDescO := ⟨.none⟩
instance : Inhabited TypeDesc := ⟨.mk [] [] .none .none none⟩

def TypeDesc.filepath : TypeDesc → Str | .mk p _ _ _ _ => p
def TypeDesc.name : TypeDesc → Str | .mk _ n _ _ _ => n
def TypeDesc.key : TypeDesc → TypeDescO | .mk _ _ k _ _ => k
def TypeDesc.val : TypeDesc → TypeDescO | .mk _ _ _ v _ => v
def TypeDesc.extra : TypeDesc → Extra | .mk _ _ _ _ e => e

/-- ConstValueDescriptor: all nine members -/
inductive CVD
  | mk (type : Nat) (dbl : Nat) (int : Int) (str : Str) (bool : Bool)
      (list : Option (List CVD)) (map : Option (List (CVD × CVD))) (ident : Str) (extra : Extra)
  deriving Repr, Inhabited

/-- enum ConstValueType (Props/C15 checks the numbering against descriptor.thrift and descriptor.go) -/
def cvtTable : List (Str × Nat) :=
  [([68, 79, 85, 66, 76, 69], 0), ([73, 78, 84], 1), ([83, 84, 82, 73, 78, 71], 2), ([66, 79, 79, 76], 3),
   ([76, 73, 83, 84], 4), ([77, 65, 80], 5), ([73, 68, 69, 78, 84, 73, 70, 73, 69, 82], 6)]
def cvtDOUBLE : Nat := 0
def cvtINT : Nat := 1
def cvtSTRING : Nat := 2
def cvtBOOL : Nat := 3
def cvtLIST : Nat := 4
def cvtMAP : Nat := 5
def cvtIDENTIFIER : Nat := 6

structure FieldDesc where
  filepath : Str
  name : Str
  ty : TypeDesc
  req : Str
  id : Int
  dflt : Option CVD
  annos : AnnoMap
  comments : Str
  extra : Extra
  deriving Repr, Inhabited

structure StructDesc where
  filepath : Str
  name : Str
  fields : List FieldDesc
  annos : AnnoMap
  comments : Str
  extra : Extra
  deriving Repr, Inhabited

structure EnumValueDesc where
  filepath : Str
  name : Str
  value : Int
  annos : AnnoMap
  comments : Str
  extra : Extra
  deriving Repr, Inhabited

structure EnumDesc where
  filepath : Str
  name : Str
  values : List EnumValueDesc
  annos : AnnoMap
  comments : Str
  extra : Extra
  deriving Repr, Inhabited

structure TypedefDesc where
  filepath : Str
  ty : TypeDesc
  alias : Str
  annos : AnnoMap
  comments : Str
  extra : Extra
  deriving Repr, Inhabited

structure ConstDesc where
  filepath : Str
  name : Str
  ty : TypeDesc
  value : CVD
  annos : AnnoMap
  comments : Str
  extra : Extra
  deriving Repr, Inhabited

structure MethodDesc where
  filepath : Str
  name : Str
  response : TypeDescO
  args : List FieldDesc
  annos : AnnoMap
  comments : Str
  throws : List FieldDesc
  oneway : Bool
  extra : Extra
  deriving Repr, Inhabited

structure ServiceDesc where
  filepath : Str
  name : Str
  methods : List MethodDesc
  annos : AnnoMap
  comments : Str
  extra : Extra
  base : Str
  deriving Repr, Inhabited

structure FileDesc where
  filepath : Str
  includes : List (Str × Str)
  namespaces : List (Str × Str)
  services : List ServiceDesc
  structs : List StructDesc
  exceptions : List StructDesc
  enums : List EnumDesc
  typedefs : List TypedefDesc
  unions : List StructDesc
  consts : List ConstDesc
  extra : Extra
  deriving Repr, Inhabited

/-! ### the parser's `Annotations.Append` (parser/AST-extend.go): what `(k = "v", …)` becomes in the AST -/

/-- `a.Append(key, value)`: a repeated key extends the values of its first entry -/
def annoAppend : List Anno → Str → Str → List Anno
  | [], k, v => [{ key := k, values := [v] }]
  | a :: r, k, v => if a.key = k then { a with values := a.values ++ [v] } :: r else a :: annoAppend r k v

/-- the AST annotations of a source-level annotation list -/
def annosOfPairs (ps : List (Str × Str)) : List Anno := ps.foldl (fun as p => annoAppend as p.1 p.2) []

/-! ### describe (descriptor_creater.go) -/

/-- utils.GetAnnotationsAsMap -/
def annoMap (as : List Anno) : AnnoMap := mapOfList Anno.key Anno.values as

mutual
/-- GetTypeDescriptor -/
def descTy (path : Str) : TyE → TypeDesc
  | .mk n k v => .mk path n (descTyO path k) (descTyO path v) none
def descTyO (path : Str) : TyO → TypeDescO
  | .none => .none
  | .some t => .some (descTy path t)
end

def strTrue : Str := [116, 114, 117, 101]
def strFalse : Str := [102, 97, 108, 115, 101]

mutual
/-- getConstValueDescriptor -/
def descCV : CV → CVD
  | .int v => .mk cvtINT 0 v [] false none none [] none
  | .dbl b => .mk cvtDOUBLE b 0 [] false none none [] none
  | .lit s => .mk cvtSTRING 0 0 s false none none [] none
  | .ident s =>
      if s = strFalse then .mk cvtBOOL 0 0 [] false none none [] none
      else if s = strTrue then .mk cvtBOOL 0 0 [] true none none [] none
      else .mk cvtIDENTIFIER 0 0 [] false none none s none
  | .list xs => .mk cvtLIST 0 0 [] false (some (descCVs xs)) none [] none
  | .map kvs => .mk cvtMAP 0 0 [] false none (some (descCVp kvs)) [] none
def descCVs : List CV → List CVD
  | [] => []
  | x :: r => descCV x :: descCVs r
def descCVp : List (CV × CV) → List (CVD × CVD)
  | [] => []
  | (k, v) :: r => (descCV k, descCV v) :: descCVp r
end

/-- getFieldDescriptor -/
def descField (path : Str) (f : Field) : FieldDesc :=
  { filepath := path, name := f.name, ty := descTy path f.ty, req := f.req.str, id := f.id,
    dflt := f.dflt.map descCV, annos := annoMap f.annos, comments := f.comments, extra := none }

/-- getStructDescriptor -/
def descStruct (path : Str) (s : StructLike) : StructDesc :=
  { filepath := path, name := s.name, fields := s.fields.map (descField path), annos := annoMap s.annos,
    comments := s.comments, extra := none }

def descEnumValue (path : Str) (v : EnumValue) : EnumValueDesc :=
  { filepath := path, name := v.name, value := v.value, annos := annoMap v.annos, comments := v.comments, extra := none }

/-- getEnumDescriptor -/
def descEnum (path : Str) (e : Enum) : EnumDesc :=
  { filepath := path, name := e.name, values := e.values.map (descEnumValue path), annos := annoMap e.annos,
    comments := e.comments, extra := none }

/-- getTypedefDescriptor -/
def descTypedef (path : Str) (t : Typedef) : TypedefDesc :=
  { filepath := path, ty := descTy path t.ty, alias := t.alias, annos := annoMap t.annos, comments := t.comments, extra := none }

/-- getConstDescriptor -/
def descConst (path : Str) (c : Const) : ConstDesc :=
  { filepath := path, name := c.name, ty := descTy path c.ty, value := descCV c.value, annos := annoMap c.annos,
    comments := c.comments, extra := none }

/-- getMethodDescriptor -/
def descMethod (path : Str) (m : Function) : MethodDesc :=
  { filepath := path, name := m.name, response := descTyO path m.fnType, args := m.args.map (descField path),
    annos := annoMap m.annos, comments := m.comments, throws := m.throws.map (descField path), oneway := m.oneway,
    extra := none }

/-- getServiceDescriptor -/
def descService (path : Str) (s : Service) : ServiceDesc :=
  { filepath := path, name := s.name, methods := s.functions.map (descMethod path), annos := annoMap s.annos,
    comments := s.comments, extra := none, base := s.base }

/-- GetFileDescriptor -/
def describe (f : File) : FileDesc :=
  { filepath := f.filename,
    includes := mapOfList baseName id f.includes,
    namespaces := mapOfListFirst Namespace.lang Namespace.name f.namespaces,
    services := f.services.map (descService f.filename),
    structs := f.structs.map (descStruct f.filename),
    exceptions := f.exceptions.map (descStruct f.filename),
    enums := f.enums.map (descEnum f.filename),
    typedefs := f.typedefs.map (descTypedef f.filename),
    unions := f.unions.map (descStruct f.filename),
    consts := f.consts.map (descConst f.filename),
    extra := none }

/-! ### the Go object (what meta.Marshal walks), in schema order of descriptor.thrift -/

def gStr (s : Str) : GoVal := .bytes s

def gExtra : Extra → GoVal
  | none => .nil
  | some m => .map (m.map fun (k, v) => (gStr k, gStr v))

def gStrMap (m : List (Str × Str)) : GoVal := .map (m.map fun (k, v) => (gStr k, gStr v))

def gAnnos (m : AnnoMap) : GoVal := .map (m.map fun (k, vs) => (gStr k, .list (vs.map gStr)))

mutual
def gTy : TypeDesc → GoVal
  | .mk p n k v e => .strct [gStr p, gStr n, gTyO k, gTyO v, gExtra e]
def gTyO : TypeDescO → GoVal
  | .none => .nil
  | .some t => gTy t
end

mutual
def gCVD : CVD → GoVal
  | .mk t d i s b l m id e =>
      .strct [.int t, .dbl d, .int i, gStr s, .bool b,
              (match l with | none => .nil | some xs => .list (gCVDs xs)),
              (match m with | none => .nil | some kvs => .map (gCVDp kvs)),
              gStr id, gExtra e]
def gCVDs : List CVD → List GoVal
  | [] => []
  | x :: r => gCVD x :: gCVDs r
def gCVDp : List (CVD × CVD) → List (GoVal × GoVal)
  | [] => []
  | (k, v) :: r => (gCVD k, gCVD v) :: gCVDp r
end

def gField (f : FieldDesc) : GoVal :=
  .strct [gStr f.filepath, gStr f.name, gTy f.ty, gStr f.req, .int f.id,
          (match f.dflt with | none => .nil | some d => gCVD d), gAnnos f.annos, gStr f.comments, gExtra f.extra]

def gStruct (s : StructDesc) : GoVal :=
  .strct [gStr s.filepath, gStr s.name, .list (s.fields.map gField), gAnnos s.annos, gStr s.comments, gExtra s.extra]

def gEnumValue (v : EnumValueDesc) : GoVal :=
  .strct [gStr v.filepath, gStr v.name, .int v.value, gAnnos v.annos, gStr v.comments, gExtra v.extra]

def gEnum (e : EnumDesc) : GoVal :=
  .strct [gStr e.filepath, gStr e.name, .list (e.values.map gEnumValue), gAnnos e.annos, gStr e.comments, gExtra e.extra]

def gTypedef (t : TypedefDesc) : GoVal :=
  .strct [gStr t.filepath, gTy t.ty, gStr t.alias, gAnnos t.annos, gStr t.comments, gExtra t.extra]

def gConst (c : ConstDesc) : GoVal :=
  .strct [gStr c.filepath, gStr c.name, gTy c.ty, gCVD c.value, gAnnos c.annos, gStr c.comments, gExtra c.extra]

def gMethod (m : MethodDesc) : GoVal :=
  .strct [gStr m.filepath, gStr m.name, gTyO m.response, .list (m.args.map gField), gAnnos m.annos, gStr m.comments,
          .list (m.throws.map gField), .bool m.oneway, gExtra m.extra]

def gService (s : ServiceDesc) : GoVal :=
  .strct [gStr s.filepath, gStr s.name, .list (s.methods.map gMethod), gAnnos s.annos, gStr s.comments, gExtra s.extra,
          gStr s.base]

def gFile (f : FileDesc) : GoVal :=
  .strct [gStr f.filepath, gStrMap f.includes, gStrMap f.namespaces, .list (f.services.map gService),
          .list (f.structs.map gStruct), .list (f.exceptions.map gStruct), .list (f.enums.map gEnum),
          .list (f.typedefs.map gTypedef), .list (f.unions.map gStruct), .list (f.consts.map gConst), gExtra f.extra]

/-- struct indexes in descriptor.thrift (declaration order) -/
def sTypeDescriptor : Nat := 0
def sConstDescriptor : Nat := 1
def sConstValueDescriptor : Nat := 2
def sTypedefDescriptor : Nat := 3
def sEnumDescriptor : Nat := 4
def sEnumValueDescriptor : Nat := 5
def sFieldDescriptor : Nat := 6
def sStructDescriptor : Nat := 7
def sMethodDescriptor : Nat := 8
def sServiceDescriptor : Nat := 9
def sFileDescriptor : Nat := 10

private def fR (id : Int) (ty : Ty) : FieldDef := { id := id, req := .required, ty := ty, dflt := none }
private def fO (id : Int) (ty : Ty) : FieldDef := { id := id, req := .optional, ty := ty, dflt := none }
private def tExtra : Ty := .map .str .str
private def tAnnos : Ty := .map .str (.list .str)

/-- the schema the model's `g*` functions assume; Props/C15 proves it equal to the schema regenerated from
descriptor.thrift by the real parser (`Generated.C15Schema.prog`) on every run -/
def descProg : Prog := { structs := [
  { kind := 0, fields := [fR 1 .str, fR 2 .str, fO 3 (.struct 0), fO 4 (.struct 0), fO 5 tExtra] },
  { kind := 0, fields := [fR 1 .str, fR 2 .str, fR 3 (.struct 0), fR 4 (.struct 2), fR 5 tAnnos, fR 6 .str, fO 7 tExtra] },
  { kind := 0, fields := [fR 1 .enum, fR 2 .dbl, fR 3 .i64, fR 4 .str, fR 5 .bool, fO 6 (.list (.struct 2)),
                          fO 7 (.map (.struct 2) (.struct 2)), fR 8 .str, fO 9 tExtra] },
  { kind := 0, fields := [fR 1 .str, fR 2 (.struct 0), fR 3 .str, fR 4 tAnnos, fR 5 .str, fO 6 tExtra] },
  { kind := 0, fields := [fR 1 .str, fR 2 .str, fR 3 (.list (.struct 5)), fR 4 tAnnos, fR 5 .str, fO 6 tExtra] },
  { kind := 0, fields := [fR 1 .str, fR 2 .str, fR 3 .i64, fR 4 tAnnos, fR 5 .str, fO 6 tExtra] },
  { kind := 0, fields := [fR 1 .str, fR 2 .str, fR 3 (.struct 0), fR 4 .str, fR 5 .i32, fO 6 (.struct 2), fR 7 tAnnos,
                          fR 8 .str, fO 9 tExtra] },
  { kind := 0, fields := [fR 1 .str, fR 2 .str, fR 3 (.list (.struct 6)), fR 4 tAnnos, fR 5 .str, fO 6 tExtra] },
  { kind := 0, fields := [fR 1 .str, fR 2 .str, fO 3 (.struct 0), fR 4 (.list (.struct 6)), fR 5 tAnnos, fR 6 .str,
                          fR 7 (.list (.struct 6)), fR 8 .bool, fO 9 tExtra] },
  { kind := 0, fields := [fR 1 .str, fR 2 .str, fR 3 (.list (.struct 8)), fR 4 tAnnos, fR 5 .str, fO 6 tExtra,
                          { id := 7, req := .optional, ty := .str, dflt := some (.bytes []) }] },
  { kind := 0, fields := [fR 1 .str, fR 2 tExtra, fR 3 tExtra, fR 4 (.list (.struct 9)), fR 5 (.list (.struct 7)),
                          fR 6 (.list (.struct 7)), fR 7 (.list (.struct 4)), fR 8 (.list (.struct 3)),
                          fR 9 (.list (.struct 7)), fR 10 (.list (.struct 1)), fO 11 tExtra] } ] }

/-- `fd.Marshal()` before gzip: meta.Marshal = the schema-driven binary writer; the order in which Go
iterates a map is the order of the association list -/
def marshal (P : Prog) (fd : FileDesc) : Res Bytes := Std.write P sFileDescriptor (gFile fd)

/-- `Unmarshal` after gunzip, as the Go object it builds (`NewFileDescriptor()` then meta.Unmarshal) -/
def unmarshalVal (P : Prog) (bs : Bytes) : Option GoVal := Std.read P sFileDescriptor bs

/-! ### run-time check of `Gen.Std.WT` (what a Go program can hold): the hypothesis of the round trip -/

def isNilB : GoVal → Bool
  | .nil => true
  | _ => false

def keysOkB (k : Ty) : List GoVal → Bool
  | [] => true
  | a :: r => !isNilB a && r.all (fun p => !Std.keyEq k a p) && keysOkB k r

def inRange (lo hi : Int) (x : Int) : Bool := decide (lo ≤ x) && decide (x < hi)

mutual
def wtB (S : List StructDef) : Ty → GoVal → Bool
  | .bool, .bool _ => true
  | .i8, .int x => inRange (-128) 128 x
  | .i16, .int x => inRange (-32768) 32768 x
  | .i32, .int x => inRange (-2147483648) 2147483648 x
  | .enum, .int x => inRange (-2147483648) 2147483648 x
  | .i64, .int x => inRange (-9223372036854775808) 9223372036854775808 x
  | .dbl, .dbl b => decide (b < 256 ^ 8)
  | .str, .bytes bs => decide (bs.length < Wire.maxSize)
  | .bin, .bytes bs => decide (bs.length < Wire.maxSize)
  | .bin, .nil => true
  | .list _, .nil => true
  | .set _, .nil => true
  | .map _ _, .nil => true
  | .list e, .list xs => decide (xs.length < Wire.maxSize) && wtListB S e xs
  | .set e, .list xs => decide (xs.length < Wire.maxSize) && wtListB S e xs
  | .map k v, .map kvs => decide (kvs.length < Wire.maxSize) && wtPairsB S k v kvs && keysOkB k (kvs.map Prod.fst) &&
      (k.isBase || k.isStruct)
  | .struct i, .strct fs =>
      match S[i]? with
      | some sd => wtFieldsB S sd.fields fs
      | none => false
  | _, _ => false
def wtListB (S : List StructDef) (e : Ty) : List GoVal → Bool
  | [] => true
  | x :: r => wtB S e x && wtListB S e r
def wtPairsB (S : List StructDef) (k v : Ty) : List (GoVal × GoVal) → Bool
  | [] => true
  | (a, b) :: r => wtB S k a && wtB S v b && wtPairsB S k v r
def wtFieldsB (S : List StructDef) : List FieldDef → List GoVal → Bool
  | [], [] => true
  | f :: fs, v :: vs =>
      (if f.req = .optional then (isNilB v && !Std.isSet f v) || wtB S f.ty v else wtB S f.ty v) &&
      inRange (-32768) 32768 f.id && wtFieldsB S fs vs
  | _, _ => false
end

/-! ### registry (descriptor_register.go) -/

def uuidKey : Str := [103, 108, 111, 98, 97, 108, 95, 100, 101, 115, 99, 114, 105, 112, 116, 111, 114, 95, 117, 117, 105, 100]

/-- addExtraToDescriptor on a non-nil descriptor -/
def addExtra (uuid : Str) : Extra → Extra
  | none => some [(uuidKey, uuid)]
  | some m => some (mapSet m uuidKey uuid)

mutual
/-- addExtraToTypeDescriptor -/
def uuidTy (uuid : Str) : TypeDesc → TypeDesc
  | .mk p n k v e => .mk p n (uuidTyO uuid k) (uuidTyO uuid v) (addExtra uuid e)
def uuidTyO (uuid : Str) : TypeDescO → TypeDescO
  | .none => .none
  | .some t => .some (uuidTy uuid t)
end

/-- addExtraToDescriptor on a ConstValueDescriptor: the top node only -/
def uuidCVD (uuid : Str) : CVD → CVD
  | .mk t d i s b l m id e => .mk t d i s b l m id (addExtra uuid e)

/-- struct-like fields: f, f.Type, f.DefaultValue -/
def uuidField (uuid : Str) (f : FieldDesc) : FieldDesc :=
  { f with extra := addExtra uuid f.extra, ty := uuidTy uuid f.ty, dflt := f.dflt.map (uuidCVD uuid) }

/-- throws: e, e.Type (not the default value; method args are stamped like struct fields) -/
def uuidArg (uuid : Str) (f : FieldDesc) : FieldDesc :=
  { f with extra := addExtra uuid f.extra, ty := uuidTy uuid f.ty }

def uuidStruct (uuid : Str) (s : StructDesc) : StructDesc :=
  { s with extra := addExtra uuid s.extra, fields := s.fields.map (uuidField uuid) }

def uuidMethod (uuid : Str) (m : MethodDesc) : MethodDesc :=
  { m with extra := addExtra uuid m.extra, response := uuidTyO uuid m.response, args := m.args.map (uuidField uuid),
           throws := m.throws.map (uuidArg uuid) }

def uuidService (uuid : Str) (s : ServiceDesc) : ServiceDesc :=
  { s with extra := addExtra uuid s.extra, methods := s.methods.map (uuidMethod uuid) }

def uuidEnumValue (uuid : Str) (v : EnumValueDesc) : EnumValueDesc := { v with extra := addExtra uuid v.extra }

def uuidEnum (uuid : Str) (e : EnumDesc) : EnumDesc :=
  { e with extra := addExtra uuid e.extra, values := e.values.map (uuidEnumValue uuid) }

def uuidTypedef (uuid : Str) (t : TypedefDesc) : TypedefDesc :=
  { t with extra := addExtra uuid t.extra, ty := uuidTy uuid t.ty }

/-- constants: c, c.Type and (the top node of) c.Value -/
def uuidConst (uuid : Str) (c : ConstDesc) : ConstDesc :=
  { c with extra := addExtra uuid c.extra, ty := uuidTy uuid c.ty, value := uuidCVD uuid c.value }

/-- registerGlobalUUID -/
def registerUUID (uuid : Str) (fd : FileDesc) : FileDesc :=
  { fd with extra := addExtra uuid fd.extra,
            services := fd.services.map (uuidService uuid),
            structs := fd.structs.map (uuidStruct uuid),
            unions := fd.unions.map (uuidStruct uuid),
            exceptions := fd.exceptions.map (uuidStruct uuid),
            enums := fd.enums.map (uuidEnum uuid),
            typedefs := fd.typedefs.map (uuidTypedef uuid),
            consts := fd.consts.map (uuidConst uuid) }

/-- `globalFD map[string]*FileDescriptor` -/
abbrev GFD := List (Str × FileDesc)

mutual
/-- doRegisterAST: visited check by filename, register, recurse into `inc.Reference`, stamp the uuid -/
def regAST (uuid : Str) : Ast → GFD → GFD
  | .mk f refs, g =>
    match mapGet g f.filename with
    | some _ => g
    | none => regASTs uuid refs (mapSet g f.filename (registerUUID uuid (describe f)))
def regASTs (uuid : Str) : List Ast → GFD → GFD
  | [], g => g
  | a :: r, g => regASTs uuid r (regAST uuid a g)
end

/-- BuildFileDescriptor at the init of a generated package: the descriptor decoded from the embedded bytes is
registered under its filepath in the default registry — no uuid; the first registration of a path stays
(`checkDuplicateAndRegister`: an equal second one is ignored, a different one panics) -/
def registerBuilt (g : GFD) (fd : FileDesc) : GFD :=
  match mapGet g fd.filepath with
  | some _ => g
  | none => mapSet g fd.filepath fd

/-- the process-wide registries: `defaultGlobalDescriptor` and `globalDescriptorMap` minus the default -/
structure World where
  dflt : GFD
  regs : List (Str × GFD)
  deriving Inhabited

/-- GetGlobalDescriptor(v): none = a nil *GlobalDescriptor -/
def World.globalOf (w : World) (e : Extra) : Option GFD :=
  let uuid := match e with
    | none => []
    | some m => (mapGet m uuidKey).getD []
  if uuid = [] then some w.dflt else mapGet w.regs uuid

/-- RegisterAST with the uuid the code drew -/
def World.registerAST (w : World) (uuid : Str) (a : Ast) : World :=
  { w with regs := mapSet w.regs uuid (regAST uuid a []) }

/-! ### lookups (descriptor_lookup.go, descriptor-extend.go); none = Go nil -/

/-- (gd *GlobalDescriptor).LookupFD, nil-safe -/
def lookupFD (g : Option GFD) (path : Str) : Option FileDesc := g.bind (mapGet · path)

/-- (f *FileDescriptor).GetIncludeFD -/
def getIncludeFD (w : World) (f : FileDesc) (alias : Str) : Option FileDesc :=
  if alias = [] then some f else
  let p := (mapGet f.includes alias).getD []
  if p != [] then lookupFD (w.globalOf f.extra) p else none

/-- (f *FileDescriptor).getDescriptor on a non-nil receiver -/
def getDescriptor {α : Type} (w : World) (f : FileDesc) (name : Str) (look : FileDesc → Str → Option α) : Option α :=
  if name = [] then none else
  let (pre, nm) := parseAlias name
  if pre = [] then look f nm else
  match getIncludeFD w f pre with
  | none => none
  | some g => if nm = [] then none else look g nm    -- nm has no dot: the recursive call looks it up directly

def lookStruct (fd : FileDesc) (n : Str) : Option StructDesc := fd.structs.find? (·.name = n)
def lookUnion (fd : FileDesc) (n : Str) : Option StructDesc := fd.unions.find? (·.name = n)
def lookException (fd : FileDesc) (n : Str) : Option StructDesc := fd.exceptions.find? (·.name = n)
def lookEnum (fd : FileDesc) (n : Str) : Option EnumDesc := fd.enums.find? (·.name = n)
def lookTypedef (fd : FileDesc) (n : Str) : Option TypedefDesc := fd.typedefs.find? (·.alias = n)
def lookConst (fd : FileDesc) (n : Str) : Option ConstDesc := fd.consts.find? (·.name = n)
def lookService (fd : FileDesc) (n : Str) : Option ServiceDesc := fd.services.find? (·.name = n)

/-- (sd *ServiceDescriptor).GetMethodByName -/
def ServiceDesc.methodByName (s : ServiceDesc) (n : Str) : Option MethodDesc := s.methods.find? (·.name = n)

/-- (f *FileDescriptor).GetMethodDescriptor on a non-nil receiver -/
def getMethodDescriptor (w : World) (f : FileDesc) (service method : Str) : Option MethodDesc :=
  if service = [] then (f.services.flatMap (·.methods)).find? (·.name = method)
  else (getDescriptor w f service lookService).bind (·.methodByName method)

/-- (s *StructDescriptor).GetFieldByName / GetFieldById -/
def StructDesc.fieldByName (s : StructDesc) (n : Str) : Option FieldDesc := s.fields.find? (·.name = n)
def StructDesc.fieldById (s : StructDesc) (id : Int) : Option FieldDesc := s.fields.find? (·.id = id)

/-- gd.LookupX(name, filepath) for filepath ≠ "" -/
def lookupIn {α : Type} (w : World) (g : Option GFD) (path name : Str) (look : FileDesc → Str → Option α) : Option α :=
  (lookupFD g path).bind fun fd => getDescriptor w fd name look

def lookupMethod (w : World) (g : Option GFD) (path service method : Str) : Option MethodDesc :=
  (lookupFD g path).bind fun fd => getMethodDescriptor w fd service method

def basicNames : List Str :=
  [[105, 56], [105, 49, 54], [105, 51, 50], [105, 54, 52], [100, 111, 117, 98, 108, 101], [115, 116, 114, 105, 110, 103],
   [98, 121, 116, 101], [98, 105, 110, 97, 114, 121], [98, 111, 111, 108]]
def containerNames : List Str := [[115, 101, 116], [108, 105, 115, 116], [109, 97, 112]]
def isBasic (n : Str) : Bool := basicNames.contains n
def isContainer (n : Str) : Bool := containerNames.contains n

/-- (td *TypeDescriptor).GetStructDescriptor / GetUnionDescriptor / GetExceptionDescriptor (errors → none) -/
def TypeDesc.getVia {α : Type} (w : World) (td : TypeDesc) (look : FileDesc → Str → Option α) : Option α :=
  if isContainer td.name || isBasic td.name then none
  else lookupIn w (w.globalOf td.extra) td.filepath td.name look

/-- (td *TypeDescriptor).GetEnumDescriptor / GetTypedefDescriptor -/
def TypeDesc.getVia2 {α : Type} (w : World) (td : TypeDesc) (look : FileDesc → Str → Option α) : Option α :=
  if isContainer td.name || isBasic td.name then none else
  let (pre, nm) := parseAlias td.name
  match lookupFD (w.globalOf td.extra) td.filepath with
  | none => none
  | some fd => match getIncludeFD w fd pre with
    | none => none
    | some g => getDescriptor w g nm look

/-- (s *ServiceDescriptor).GetParent -/
def ServiceDesc.parent (w : World) (s : ServiceDesc) : Option ServiceDesc :=
  lookupIn w (w.globalOf s.extra) s.filepath s.base lookService

/-! ### Go-type registry (descriptor_register_go_type.go); a Go type is an opaque token -/

structure GoTypes (τ : Type) where
  structOf : List (τ × StructDesc)    -- goType2StructDes, later writes win
  enumOf : List (τ × EnumDesc)
  typedefOf : List (τ × TypedefDesc)

/-- registerGoTypes: positional pairing of `Structs ++ Unions ++ Exceptions`, `Enums`, `Typedefs` with the
type list of the generated file -/
def registerGoTypes {τ : Type} (fd : FileDesc) (tys : List τ) : GoTypes τ :=
  let sl := fd.structs ++ fd.unions ++ fd.exceptions
  { structOf := (tys.take sl.length).zip sl,
    enumOf := ((tys.drop sl.length).take fd.enums.length).zip fd.enums,
    typedefOf := ((tys.drop (sl.length + fd.enums.length)).take fd.typedefs.length).zip fd.typedefs }

/-- `goType2XDes[t]` after the registrations: the last pair with that type -/
def byGoType {τ β : Type} [DecidableEq τ] (m : List (τ × β)) (t : τ) : Option β :=
  (m.reverse.find? (·.1 = t)).map (·.2)

/-! ### the facts property C15 lists -/

/-- a finite map read as a function -/
abbrev FMap (β : Type) := Str → Option β

structure FieldFacts where
  name : Str
  id : Int
  req : Str
  ty : TyE
  dflt : Option CV
  annos : FMap (List Str)
  comments : Str

structure StructFacts where
  name : Str
  fields : List FieldFacts
  annos : FMap (List Str)
  comments : Str

structure EnumValueFacts where
  name : Str
  value : Int
  annos : FMap (List Str)
  comments : Str

structure EnumFacts where
  name : Str
  values : List EnumValueFacts
  annos : FMap (List Str)
  comments : Str

structure TypedefFacts where
  alias : Str
  ty : TyE
  annos : FMap (List Str)
  comments : Str

structure ConstFacts where
  name : Str
  ty : TyE
  value : CV
  annos : FMap (List Str)
  comments : Str

structure MethodFacts where
  name : Str
  oneway : Bool
  response : TyO
  args : List FieldFacts
  throws : List FieldFacts
  annos : FMap (List Str)
  comments : Str

structure ServiceFacts where
  name : Str
  base : Str
  methods : List MethodFacts
  annos : FMap (List Str)
  comments : Str

structure FileFacts where
  filename : Str
  includes : Str → Bool          -- "this file includes that path"
  includeOf : FMap Str           -- include prefix → path
  namespaces : FMap Str          -- language → namespace
  typedefs : List TypedefFacts
  consts : List ConstFacts
  enums : List EnumFacts
  structs : List StructFacts
  unions : List StructFacts
  exceptions : List StructFacts
  services : List ServiceFacts

/-- what the IDL states about a key: the values of the (first) annotation with that key -/
def annoFacts (as : List Anno) : FMap (List Str) := fun k => (as.find? (·.key = k)).map (·.values)

def forgetField (f : Field) : FieldFacts :=
  { name := f.name, id := f.id, req := f.req.str, ty := f.ty, dflt := f.dflt, annos := annoFacts f.annos, comments := f.comments }
def forgetStruct (s : StructLike) : StructFacts :=
  { name := s.name, fields := s.fields.map forgetField, annos := annoFacts s.annos, comments := s.comments }
def forgetEnumValue (v : EnumValue) : EnumValueFacts :=
  { name := v.name, value := v.value, annos := annoFacts v.annos, comments := v.comments }
def forgetEnum (e : Enum) : EnumFacts :=
  { name := e.name, values := e.values.map forgetEnumValue, annos := annoFacts e.annos, comments := e.comments }
def forgetTypedef (t : Typedef) : TypedefFacts :=
  { alias := t.alias, ty := t.ty, annos := annoFacts t.annos, comments := t.comments }
def forgetConst (c : Const) : ConstFacts :=
  { name := c.name, ty := c.ty, value := c.value, annos := annoFacts c.annos, comments := c.comments }
def forgetMethod (m : Function) : MethodFacts :=
  { name := m.name, oneway := m.oneway, response := m.fnType, args := m.args.map forgetField,
    throws := m.throws.map forgetField, annos := annoFacts m.annos, comments := m.comments }
def forgetService (s : Service) : ServiceFacts :=
  { name := s.name, base := s.base, methods := s.functions.map forgetMethod, annos := annoFacts s.annos, comments := s.comments }

/-- the facts the IDL file states -/
def forget (f : File) : FileFacts :=
  { filename := f.filename,
    includes := fun p => f.includes.contains p,
    includeOf := fun a => f.includes.find? (fun p => baseName p = a),
    namespaces := fun l => (f.namespaces.find? (·.lang = l)).map (·.name),
    typedefs := f.typedefs.map forgetTypedef, consts := f.consts.map forgetConst, enums := f.enums.map forgetEnum,
    structs := f.structs.map forgetStruct, unions := f.unions.map forgetStruct,
    exceptions := f.exceptions.map forgetStruct, services := f.services.map forgetService }

mutual
def tyOfDesc : TypeDesc → TyE
  | .mk _ n k v _ => .mk n (tyOfDescO k) (tyOfDescO v)
def tyOfDescO : TypeDescO → TyO
  | .none => .none
  | .some t => .some (tyOfDesc t)
end

mutual
/-- the constant expression a ConstValueDescriptor states (by its type tag) -/
def cvOfDesc : CVD → CV
  | .mk t d i s b l m id _ =>
    if t = cvtINT then .int i
    else if t = cvtDOUBLE then .dbl d
    else if t = cvtSTRING then .lit s
    else if t = cvtBOOL then .ident (if b then strTrue else strFalse)
    else if t = cvtLIST then .list (match l with | some xs => cvOfDescs xs | none => [])
    else if t = cvtMAP then .map (match m with | some kvs => cvOfDescp kvs | none => [])
    else .ident id
def cvOfDescs : List CVD → List CV
  | [] => []
  | x :: r => cvOfDesc x :: cvOfDescs r
def cvOfDescp : List (CVD × CVD) → List (CV × CV)
  | [] => []
  | (k, v) :: r => (cvOfDesc k, cvOfDesc v) :: cvOfDescp r
end

def factsField (f : FieldDesc) : FieldFacts :=
  { name := f.name, id := f.id, req := f.req, ty := tyOfDesc f.ty, dflt := f.dflt.map cvOfDesc, annos := mapGet f.annos,
    comments := f.comments }
def factsStruct (s : StructDesc) : StructFacts :=
  { name := s.name, fields := s.fields.map factsField, annos := mapGet s.annos, comments := s.comments }
def factsEnumValue (v : EnumValueDesc) : EnumValueFacts :=
  { name := v.name, value := v.value, annos := mapGet v.annos, comments := v.comments }
def factsEnum (e : EnumDesc) : EnumFacts :=
  { name := e.name, values := e.values.map factsEnumValue, annos := mapGet e.annos, comments := e.comments }
def factsTypedef (t : TypedefDesc) : TypedefFacts :=
  { alias := t.alias, ty := tyOfDesc t.ty, annos := mapGet t.annos, comments := t.comments }
def factsConst (c : ConstDesc) : ConstFacts :=
  { name := c.name, ty := tyOfDesc c.ty, value := cvOfDesc c.value, annos := mapGet c.annos, comments := c.comments }
def factsMethod (m : MethodDesc) : MethodFacts :=
  { name := m.name, oneway := m.oneway, response := tyOfDescO m.response, args := m.args.map factsField,
    throws := m.throws.map factsField, annos := mapGet m.annos, comments := m.comments }
def factsService (s : ServiceDesc) : ServiceFacts :=
  { name := s.name, base := s.base, methods := s.methods.map factsMethod, annos := mapGet s.annos, comments := s.comments }

/-- the facts a file descriptor states -/
def factsOf (fd : FileDesc) : FileFacts :=
  { filename := fd.filepath,
    includes := fun p => fd.includes.any (·.2 == p),
    includeOf := mapGet fd.includes,
    namespaces := mapGet fd.namespaces,
    typedefs := fd.typedefs.map factsTypedef, consts := fd.consts.map factsConst, enums := fd.enums.map factsEnum,
    structs := fd.structs.map factsStruct, unions := fd.unions.map factsStruct,
    exceptions := fd.exceptions.map factsStruct, services := fd.services.map factsService }

/-! ### what a name denotes in the IDL (the specification side of the lookups) -/

/-- the file a prefix denotes from `a`: itself for the empty prefix, else the first include with that base name -/
def denoteFile (a : Ast) (pre : Str) : Option Ast :=
  if pre = [] then some a else a.refs.find? (fun r => baseName r.file.filename = pre)

/-- the definition a (possibly qualified) name denotes from `a`, with the file that defines it -/
def denote {α : Type} (a : Ast) (name : Str) (defs : File → List α) (nameOf : α → Str) : Option (Str × α) :=
  let (pre, nm) := parseAlias name
  (denoteFile a pre).bind fun b => ((defs b.file).find? (fun d => nameOf d = nm)).map fun d => (b.file.filename, d)

end Reflect
