import ThriftVerif.Lib.WalkerSafe
/-
  Layout at the walker level: ListSeparator, Skip and SkipLine nodes are invisible to the loops of parser.go.
-/
set_option linter.unusedSimpArgs false
namespace Walker
open Peg Generated.C03

variable (buf : Array Nat)

theorem annLoop_sep (acc : Anns) (b e : Nat) (up next : T) :
    annLoop ids buf acc (.node ids.rListSeparator b e up next) = annLoop ids buf acc next := by
  simp [annLoop]

theorem fieldLoop_sep (fuel : Nat) (f : Field) (b e : Nat) (up next : T) :
    fieldLoop ids buf fuel f (.node ids.rListSeparator b e up next) = fieldLoop ids buf fuel f next := by
  rw [fieldLoop.eq_def]; simp

theorem fieldLoop_skip (fuel : Nat) (f : Field) (r b e : Nat) (up next : T) (h : r = ids.rSkip ∨ r = ids.rSkipLine) :
    fieldLoop ids buf fuel f (.node r b e up next) = fieldLoop ids buf fuel f next := by
  rw [fieldLoop.eq_def]; simp only []; rw [if_pos h]

theorem fieldsLoop_sep (fuel : Nat) (post : Field → Field) (acc : List Field) (b e : Nat) (up next : T) :
    fieldsLoop ids buf fuel post acc (.node ids.rListSeparator b e up next) = fieldsLoop ids buf fuel post acc next := by
  rw [fieldsLoop.eq_def]; simp

theorem functionLoop_sep (fuel : Nat) (f : Function) (b e : Nat) (up next : T) :
    functionLoop ids buf fuel f (.node ids.rListSeparator b e up next) = functionLoop ids buf fuel f next := by
  rw [functionLoop.eq_def]; simp

theorem functionsLoop_sep (fuel : Nat) (acc : List Function) (b e : Nat) (up next : T) :
    functionsLoop ids buf fuel acc (.node ids.rListSeparator b e up next) = functionsLoop ids buf fuel acc next := by
  rw [functionsLoop.eq_def]; simp

theorem constListLoop_sep (fuel : Nat) (b e : Nat) (up next : T) :
    constListLoop ids buf (fuel + 1) (.node ids.rListSeparator b e up next) = constListLoop ids buf fuel next := by
  simp [constListLoop]

theorem constMapLoop_sep (fuel : Nat) (b e : Nat) (up next : T) :
    constMapLoop ids buf (fuel + 1) (.node ids.rListSeparator b e up next) = constMapLoop ids buf fuel next := by
  simp [constMapLoop]

theorem docLoop_skip (fuel : Nat) (t : Thrift) (r b e : Nat) (up next : T) (h : r = ids.rSkip ∨ r = ids.rSkipLine) :
    docLoop ids buf fuel t (.node r b e up next) = docLoop ids buf fuel t next := by
  rw [docLoop.eq_def]; simp only []; rw [if_pos h]

end Walker
