import ThriftVerif.Lib.Sem
import ThriftVerif.Generated.C05
/-
  Resolve — model of semantic/semantic.go (ResolveSymbols, resolver.*, getEnum, Deref) and
  semantic/split.go (SplitType, SplitValue, IDLPrefix) over the abstract syntax of `Sem`.

  How Go's mutable state is mirrored
  * `Name2Category` (a Go map) is an association list built by `registerNames`; resolution of
    types and values reads it only through lookup, so the per-definition functions take the
    lookup *function* (`Env.n2c`).
  * `Include.Reference` pointers are file indices; whatever a resolver reads from another AST
    (its Name2Category, `GetTypedef`, `GetEnum`, its own include list) is a `FileView`.
    `views j = none` stands for an AST that has not been resolved (Name2Category == nil).
  * `ResolveType` mutates the Type node, appends to `r.typedefs` and sets `Includes[i].Used`;
    the model returns the resolved nodes (pre-order), the appended work-list entries and the
    indices it marked, in the same order.  A Type node is addressed by `(Slot, ordinal)`.
  * `ResolveTypedefs` is the loop it is: passes over the work list, `tmp`, `cnt`, the
    "no progress ⇒ error" test; the `Category` cells it mutates are a `Store` keyed by address.
    Go's `for` has no bound, the model has fuel `len+1`, exhaustion is `Err.loopDiverged`
    (theorem `typedef_fixpoint_complete`: never happens).
  * `Deref` recurses without bound in Go; the model has fuel, exhaustion is `Err.crash` (a fatal,
    unrecoverable stack overflow in Go).  `getEnum` carries Go's visited set; its fuel is a
    structural device only (`Err.fuel`).
  * Go panics inside ResolveAST are recovered and returned as errors: they are `Err` values.
-/
namespace Sem

/-! ### small association-list helpers (own definitions: they unfold predictably) -/

def lookupB {α} (k : Bytes) : List (Bytes × α) → Option α
  | [] => none
  | (k', v) :: r => if k' = k then some v else lookupB k r

/-! ### split.go -/

/-- split at the last '.' (byte 46): `strings.LastIndex(id, ".")`. -/
def splitLastDot : Bytes → Option (Bytes × Bytes)
  | [] => none
  | c :: r =>
    match splitLastDot r with
    | some (a, b) => some (c :: a, b)
    | none => if c = 46 then some ([], r) else none

/-- semantic.SplitType -/
def splitType (id : Bytes) : List Bytes :=
  if id = [] then []
  else match splitLastDot id with
    | none => [id]
    | some (a, b) => [a, b]

/-- semantic.SplitValue -/
def splitValue (id : Bytes) : List (List Bytes) :=
  if id = [] then []
  else match splitLastDot id with
    | none => [[id]]
    | some (i, v) =>
      [i, v] :: (match splitLastDot i with
                 | some (i', e) => [[i', e, v]]
                 | none => [])

/-- filepath.Base on a Unix path (separator '/', byte 47). -/
def fpBase (p : Bytes) : Bytes :=
  if p = [] then [46]
  else
    let q := (p.reverse.dropWhile (· == 47)).reverse
    let e := (q.reverse.takeWhile (· != 47)).reverse
    if e = [] then [47] else e

/-- semantic.IDLPrefix: `strings.TrimSuffix(Base(p), filepath.Ext(Base(p)))`. -/
def idlPrefix (p : Bytes) : Bytes :=
  let b := fpBase p
  match splitLastDot b with
  | some (a, _) => a
  | none => b

/-! ### tables regenerated from the working tree -/

def catOfNat (n : Nat) : Cat := (Cat.ofNat? n).getD .constant

/-- `case "bool", …:  t.Category = categoryMap[t.Name]` — `some c` iff the name is in the
first case list; an absent map key gives Go's zero value (Category 0). -/
def baseCat (n : Bytes) : Option Cat :=
  if n ∈ Generated.C05.baseCase then some (catOfNat ((lookupB n Generated.C05.categoryMap).getD 0))
  else none

def isContainerName (n : Bytes) : Bool := decide (n ∈ Generated.C05.containerCase)

/-- `_, ok := categoryMap[n]` -/
def inCategoryMap (n : Bytes) : Bool := (lookupB n Generated.C05.categoryMap).isSome

/-- `c >= Category_Enum && c <= Category_Typedef` -/
def Cat.isTypeLike (c : Cat) : Bool :=
  decide (Generated.C05.typeLo ≤ c.toNat) && decide (c.toNat ≤ Generated.C05.typeHi)

/-- `Category_Enum <= cat && cat <= Category_Exception` (Deref) -/
def Cat.isDerefTarget (c : Cat) : Bool :=
  decide (Generated.C05.derefLo ≤ c.toNat) && decide (c.toNat ≤ Generated.C05.derefHi)

/-! ### outcomes -/

inductive Err
  | multidef        -- "multiple definition of …" (AddName)
  | undefType       -- "undefined type"
  | badCat          -- "unexpected type category"
  | invalidTypeName -- "invalid type name"
  | undefValue      -- "undefined value"
  | ambiguous       -- "ambiguous const value"
  | baseSvc         -- "base service … not found"
  | tdCycle         -- "typedefs can not be resolved"
  | tdNotFound      -- "expected … a typedef, not found" (ResolveTypedef)
  | notParsed       -- "reference … is not parsed"
  | goPanic         -- a recovered Go panic (nil dereference, index out of range, "expect … not found")
  | derefErr        -- any error returned by Deref
  | includeCycle    -- include recursion does not end (CircleDetect rejects such programs earlier)
  | loopDiverged    -- ResolveTypedefs' loop ran out of the model's fuel (proved impossible)
  | fuel            -- getEnum ran out of the model's fuel (the visited set bounds the Go recursion)
  | crash           -- fatal stack overflow: unbounded recursion in Deref
  deriving DecidableEq, Repr, Inhabited

abbrev Res := Except Err

/-! ### resolved nodes -/

/-- parser.Reference -/
structure Ref where
  index : Nat
  name : Bytes
  deriving DecidableEq, Repr, Inhabited

/-- The fields of a parser.Type node written by resolution. -/
structure RNode where
  cat : Cat
  isTypedef : Bool
  ref : Option Ref
  deriving DecidableEq, Repr, Inhabited

/-- parser.ConstValueExtra -/
structure Extra where
  isEnum : Bool
  index : Int
  name : Bytes
  sel : Bytes
  deriving DecidableEq, Repr, Inhabited

/-- Which definition a Type node belongs to.  Definitions are identified by name (unique once
RegisterNames succeeded), members by position. -/
inductive Slot
  | typedef (tdAlias : Bytes)
  | const (name : Bytes)
  | field (sname : Bytes) (fidx : Nat)
  | ret (svc : Bytes) (fidx : Nat)
  | arg (svc : Bytes) (fidx aidx : Nat)
  | throw (svc : Bytes) (fidx tidx : Nat)
  deriving DecidableEq, Repr, Inhabited

/-- Address of a Type node: slot and pre-order ordinal within the slot's type expression. -/
abbrev Addr := Slot × Nat

/-- typedefPair.AST: the resolver's own AST or `Includes[k].Reference`. -/
inductive AstRef
  | cur
  | inc (k : Nat)
  deriving DecidableEq, Repr, Inhabited

/-- typedefPair -/
structure TdEntry where
  addr : Addr
  ast : AstRef
  name : Bytes
  deriving DecidableEq, Repr, Inhabited

/-- What resolution of one piece of syntax produces besides its value: entries appended to
`r.typedefs` and include indices marked `Used`, in program order. -/
structure Out (α : Type) where
  val : α
  work : List TdEntry
  used : List Nat
  deriving Repr

/-- What one resolver reads of a typedef in some AST: `td.Type.{Name,Category,IsTypedef,Reference}`. -/
structure TdRoot where
  rootName : Bytes
  cat : Cat
  isTypedef : Bool
  ref : Option Ref
  deriving DecidableEq, Repr, Inhabited

/-- What is read of an AST other than through its own resolver. -/
structure FileView where
  n2c : Bytes → Option Cat            -- Name2Category
  typedef : Bytes → Option TdRoot     -- GetTypedef (first match)
  enum : Bytes → Option (List Bytes)  -- GetEnum (first match): the value names in order
  incs : List Nat                      -- Includes[k].Reference

structure IncInfo where
  pfx : Bytes                          -- IDLPrefix(inc.Path)
  target : Nat
  n2c : Bytes → Option Cat            -- inc.Reference.Name2Category

structure Env where
  n2c : Bytes → Option Cat            -- r.ast.Name2Category
  incs : List IncInfo                  -- r.ast.Includes

/-! ### RegisterNames -/

abbrev N2C := List (Bytes × Cat)

/-- resolver.AddName -/
def addName (m : N2C) (name : Bytes) (c : Cat) : Res N2C :=
  match lookupB name m with
  | some _ => .error .multidef
  | none => .ok ((name, c) :: m)

def addNames (m : N2C) : List (Bytes × Cat) → Res N2C
  | [] => .ok m
  | (n, c) :: r =>
    match addName m n c with
    | .error e => .error e
    | .ok m' => addNames m' r

/-- The names RegisterNames adds, in its order: typedefs, constants, enums, struct-likes, services. -/
def File.declared (f : File) : List (Bytes × Cat) :=
  f.typedefs.map (fun v => (v.alias, Cat.typedef)) ++
  f.constants.map (fun v => (v.name, Cat.constant)) ++
  f.enums.map (fun v => (v.name, Cat.enum)) ++
  f.structLikes.map (fun v => (v.name, v.kind.cat)) ++
  f.services.map (fun v => (v.name, Cat.service))

/-- resolver.RegisterNames -/
def registerNames (f : File) : Res N2C := addNames [] f.declared

/-! ### ResolveType -/

/-- The `for i, inc := range r.ast.Includes` loops of ResolveType / ResolveBaseService: the first
include whose prefix is `a` and whose Name2Category has `b` with an acceptable category. -/
def findInc (okc : Cat → Bool) (a b : Bytes) : List IncInfo → Nat → Option (Nat × Cat)
  | [], _ => none
  | inc :: r, k =>
    if inc.pfx = a then
      match inc.n2c b with
      | some c => if okc c then some (k, c) else findInc okc a b r (k + 1)
      | none => findInc okc a b r (k + 1)
    else findInc okc a b r (k + 1)

def plainNode (c : Cat) : RNode := ⟨c, false, none⟩

/-- The `default:` branch of ResolveType plus the base-type case, for a node named `n` at
ordinal `off` of `slot`. -/
def resolveName (env : Env) (slot : Slot) (off : Nat) (n : Bytes) : Res (Out RNode) :=
  match baseCat n with
  | some c => .ok ⟨plainNode c, [], []⟩
  | none =>
    if isContainerName n then .error .goPanic   -- a container node without ValueType: nil dereference
    else
      match splitType n with
      | [a] =>
        match env.n2c a with
        | some c =>
          if c.isTypeLike then
            if c = .typedef then .ok ⟨⟨c, true, none⟩, [⟨(slot, off), .cur, a⟩], []⟩
            else .ok ⟨⟨c, false, none⟩, [], []⟩
          else .error .badCat
        | none => .error .undefType
      | [a, b] =>
        match findInc Cat.isTypeLike a b env.incs 0 with
        | some (k, c) =>
          if c = .typedef then .ok ⟨⟨c, true, some ⟨k, b⟩⟩, [⟨(slot, off), .inc k, b⟩], [k]⟩
          else .ok ⟨⟨c, false, some ⟨k, b⟩⟩, [], [k]⟩
        | none => .error .undefType
      | _ => .error .invalidTypeName

/-- What ResolveType does at one node (the recursion into element types is `resolveType`). -/
def nodeOut (env : Env) (slot : Slot) (off : Nat) : TypeExpr → Res (Out RNode)
  | .name n => resolveName env slot off n
  | .list _ => .ok ⟨plainNode .list, [], []⟩
  | .set _ => .ok ⟨plainNode .set, [], []⟩
  | .map _ _ => .ok ⟨plainNode .map, [], []⟩

/-- resolver.ResolveType; `off` is the pre-order ordinal of the node being resolved. -/
def resolveType (env : Env) (slot : Slot) : Nat → TypeExpr → Res (Out (List RNode))
  | off, .name n =>
    match resolveName env slot off n with
    | .error e => .error e
    | .ok o => .ok ⟨[o.val], o.work, o.used⟩
  | off, .list v =>
    match resolveType env slot (off + 1) v with
    | .error e => .error e
    | .ok o => .ok ⟨plainNode .list :: o.val, o.work, o.used⟩
  | off, .set v =>
    match resolveType env slot (off + 1) v with
    | .error e => .error e
    | .ok o => .ok ⟨plainNode .set :: o.val, o.work, o.used⟩
  | off, .map k v =>
    match resolveType env slot (off + 1) k with
    | .error e => .error e
    | .ok ok =>
      match resolveType env slot (off + 1 + ok.val.length) v with
      | .error e => .error e
      | .ok ov => .ok ⟨plainNode .map :: (ok.val ++ ov.val), ok.work ++ ov.work, ok.used ++ ov.used⟩

/-! ### getEnum -/

/-- semantic.getEnumVisited(ast = file `j`, name, seen).  Returns the value names of the enum found
(or `none`) and the include index.  `seen` is Go's `map[typedefKey]bool` (AST pointer, typedef name):
the map is shared by reference, but after the call made for a qualified typedef the function returns
at once, so passing the grown set downwards is all there is to it.  A typedef met a second time gives
(nil, -1).  The fuel only makes the definition structural: the visited set bounds the recursion by
the number of typedefs, `Err.fuel` is not an outcome of the Go code.  The two tests before the final
fall-back (container type, base-type keyword) are one test here: a container's `Type.Name` is its
keyword, which is a key of categoryMap (`container_table`). -/
def getEnum (views : Nat → Option FileView) : Nat → List (Nat × Bytes) → Nat → Bytes →
    Res (Option (List Bytes) × Int)
  | 0, _, _, _ => .error .fuel
  | fuel + 1, seen, j, name =>
    match views j with
    | none => .error .goPanic
    | some v =>
      match v.n2c name with
      | none => .ok (none, -1)
      | some c =>
        if c = .enum then
          match v.enum name with
          | none => .error .goPanic
          | some vals => .ok (some vals, -1)
        else if c = .typedef then
          match v.typedef name with
          | none => .error .goPanic
          | some td =>
            if (j, name) ∈ seen then .ok (none, -1)
            else
              match td.ref with
              | some r =>
                match v.incs[r.index]? with
                | none => .error .goPanic
                | some tgt =>
                  match getEnum views fuel ((j, name) :: seen) tgt r.name with
                  | .error e => .error e
                  | .ok (some vals, _) => .ok (some vals, (r.index : Int))
                  | .ok (none, _) => .ok (none, -1)
              | none =>
                -- `x.Type.KeyType != nil || x.Type.ValueType != nil` (a container: its Name is map /
                -- list / set, keys of categoryMap too) or `categoryMap[x.Type.Name]` exists
                if inCategoryMap td.rootName then .ok (none, -1)
                else getEnum views fuel ((j, name) :: seen) j td.rootName
        else .ok (none, -1)

/-! ### ResolveConstValue -/

/-- One element of `ref` together with the include it marks `Used`, if any. -/
abbrev Cand := Extra × Option Nat

/-- `for _, v := range enum.Values { if v.Name == x { ref = append(ref, mk) } }` -/
def enumCands (vals : List Bytes) (x : Bytes) (mk : Cand) : List Cand :=
  (vals.filter (· = x)).map (fun _ => mk)

/-- case 2, second loop: `someinclude.constant` -/
def incConstCands (a v : Bytes) : List IncInfo → Nat → List Cand
  | [], _ => []
  | inc :: r, k =>
    let rest := incConstCands a v r (k + 1)
    if inc.pfx = a then
      match inc.n2c v with
      | some c => if c = .constant then (⟨false, (k : Int), v, a⟩, some k) :: rest else rest
      | none => rest
    else rest

/-- case 3: `someinclude.enum.value` -/
def incEnumCands (views : Nat → Option FileView) (fuel : Nat) (a e v : Bytes) :
    List IncInfo → Nat → Res (List Cand)
  | [], _ => .ok []
  | inc :: r, k =>
    if inc.pfx = a then
      match getEnum views fuel [] inc.target e with
      | .error err => .error err
      | .ok (en, _) =>
        match incEnumCands views fuel a e v r (k + 1) with
        | .error err => .error err
        | .ok rest =>
          match en with
          | some vals => .ok (enumCands vals v (⟨true, (k : Int), v, e⟩, some k) ++ rest)
          | none => .ok rest
    else incEnumCands views fuel a e v r (k + 1)

structure CEnv where
  env : Env
  views : Nat → Option FileView     -- `views self` is the AST being resolved (typedefs already resolved)
  self : Nat
  fuel : Nat

/-- The body of `for _, ss := range sss` for one alternative. -/
def altCands (ce : CEnv) (ss : List Bytes) : Res (List Cand) :=
  match ss with
  | [a] =>
    match ce.env.n2c a with
    | some c => if c = .constant then .ok [(⟨false, -1, a, []⟩, none)] else .ok []
    | none => .ok []
  | [a, v] =>
    match getEnum ce.views ce.fuel [] ce.self a with
    | .error e => .error e
    | .ok (en, idx) =>
      let ec := match en with
        | some vals => enumCands vals v (⟨true, idx, v, a⟩, none)
        | none => []
      .ok (ec ++ incConstCands a v ce.env.incs 0)
  | [a, e, v] => incEnumCands ce.views ce.fuel a e v ce.env.incs 0
  | _ => .ok []

def allCands (ce : CEnv) : List (List Bytes) → Res (List Cand)
  | [] => .ok []
  | ss :: r =>
    match altCands ce ss with
    | .error e => .error e
    | .ok c =>
      match allCands ce r with
      | .error e => .error e
      | .ok c' => .ok (c ++ c')

def kwTrue : Bytes := [116, 114, 117, 101]
def kwFalse : Bytes := [102, 97, 108, 115, 101]

def candMarks (cs : List Cand) : List Nat := cs.filterMap (·.2)

/-- `case parser.ConstType_ConstIdentifier` of ResolveConstValue. -/
def resolveIdent (ce : CEnv) (id : Bytes) : Res (Out (Option Extra)) :=
  if id = kwTrue ∨ id = kwFalse then .ok ⟨none, [], []⟩
  else
    match allCands ce (splitValue id) with
    | .error e => .error e
    | .ok cs =>
      match cs with
      | [] => .error .undefValue
      | [c] => .ok ⟨some c.1, [], candMarks cs⟩
      | _ => .error .ambiguous

mutual
/-- resolver.ResolveConstValue: bindings of the identifiers in visiting order. -/
def resolveConst (ce : CEnv) : ConstVal → Res (Out (List (Option Extra)))
  | .int _ => .ok ⟨[], [], []⟩
  | .dbl _ => .ok ⟨[], [], []⟩
  | .str _ => .ok ⟨[], [], []⟩
  | .ident id =>
    match resolveIdent ce id with
    | .error e => .error e
    | .ok o => .ok ⟨[o.val], o.work, o.used⟩
  | .list xs => resolveConstL ce xs
  | .map kvs => resolveConstM ce kvs
def resolveConstL (ce : CEnv) : List ConstVal → Res (Out (List (Option Extra)))
  | [] => .ok ⟨[], [], []⟩
  | x :: r =>
    match resolveConst ce x with
    | .error e => .error e
    | .ok a =>
      match resolveConstL ce r with
      | .error e => .error e
      | .ok b => .ok ⟨a.val ++ b.val, a.work ++ b.work, a.used ++ b.used⟩
def resolveConstM (ce : CEnv) : List (ConstVal × ConstVal) → Res (Out (List (Option Extra)))
  | [] => .ok ⟨[], [], []⟩
  | (k, v) :: r =>
    match resolveConst ce k with
    | .error e => .error e
    | .ok a =>
      match resolveConst ce v with
      | .error e => .error e
      | .ok a' =>
        match resolveConstM ce r with
        | .error e => .error e
        | .ok b => .ok ⟨a.val ++ a'.val ++ b.val, a.work ++ a'.work ++ b.work, a.used ++ a'.used ++ b.used⟩
end

/-! ### what resolution stores in the AST, addressed by slot -/

/-- The resolved nodes of the type expression at a slot, in pre-order. -/
abbrev TypeRes := Slot × List RNode
/-- The bindings (`ConstValue.Extra`) of the identifiers of the constant value at a slot, in
visiting order (`none`: the identifier is `true` / `false`, which gets no Extra). -/
abbrev BindRes := Slot × List (Option Extra)

/-- What resolving one definition writes into the AST. -/
structure DefOut where
  types : List TypeRes
  binds : List BindRes
  svc : List (Bytes × Option Ref)     -- Service.Reference by service name
  deriving Repr, Inhabited

def DefOut.append (a b : DefOut) : DefOut := ⟨a.types ++ b.types, a.binds ++ b.binds, a.svc ++ b.svc⟩

def DefOut.concat : List DefOut → DefOut
  | [] => ⟨[], [], []⟩
  | a :: r => a.append (DefOut.concat r)

def lookupSlot {α} (s : Slot) : List (Slot × α) → Option α
  | [] => none
  | (s', v) :: r => if s' = s then some v else lookupSlot s r

/-- A file after resolution: Name2Category, `Include.Used`, and everything resolution wrote into
Type nodes, identifier values and services, addressed by slot. -/
structure RFile where
  n2c : N2C
  used : List Bool
  types : List TypeRes
  binds : List BindRes
  svcRefs : List (Bytes × Option Ref)
  deriving Repr, Inhabited

/-- Sequencing of per-item resolutions with first-error exit (`ForEach… guard(…)`). -/
def mapOut {α β} (g : α → Res (Out β)) : List α → Res (Out (List β))
  | [] => .ok ⟨[], [], []⟩
  | x :: r =>
    match g x with
    | .error e => .error e
    | .ok a =>
      match mapOut g r with
      | .error e => .error e
      | .ok b => .ok ⟨a.val :: b.val, a.work ++ b.work, a.used ++ b.used⟩

/-- The same with the position of the item (`for i, v := range …`). -/
def mapOutIdx {α β} (g : Nat → α → Res (Out β)) : Nat → List α → Res (Out (List β))
  | _, [] => .ok ⟨[], [], []⟩
  | k, x :: r =>
    match g k x with
    | .error e => .error e
    | .ok a =>
      match mapOutIdx g (k + 1) r with
      | .error e => .error e
      | .ok b => .ok ⟨a.val :: b.val, a.work ++ b.work, a.used ++ b.used⟩

/-- ResolveType on the type expression of a slot. -/
def resolveSlot (env : Env) (slot : Slot) (te : TypeExpr) : Res (Out DefOut) :=
  match resolveType env slot 0 te with
  | .error e => .error e
  | .ok o => .ok ⟨⟨[(slot, o.val)], [], []⟩, o.work, o.used⟩

/-- ResolveConstValue on the constant value of a slot. -/
def resolveSlotConst (ce : CEnv) (slot : Slot) (cv : ConstVal) : Res (Out DefOut) :=
  match resolveConst ce cv with
  | .error e => .error e
  | .ok b => .ok ⟨⟨[], [(slot, b.val)], []⟩, b.work, b.used⟩

/-- `a` then `b` (second not attempted if the first fails). -/
def seqOut (a : Res (Out DefOut)) (b : Res (Out DefOut)) : Res (Out DefOut) :=
  match a with
  | .error e => .error e
  | .ok x =>
    match b with
    | .error e => .error e
    | .ok y => .ok ⟨x.val.append y.val, x.work ++ y.work, x.used ++ y.used⟩

def flatOut (r : Res (Out (List DefOut))) : Res (Out DefOut) :=
  match r with
  | .error e => .error e
  | .ok o => .ok ⟨DefOut.concat o.val, o.work, o.used⟩

def resolveTypedefDef (env : Env) (td : Typedef) : Res (Out DefOut) :=
  resolveSlot env (.typedef td.alias) td.type

/-- `guard(r.ResolveType(v.Type)) && guard(r.ResolveConstValue(v.Value))` -/
def resolveConstantDef (ce : CEnv) (c : Constant) : Res (Out DefOut) :=
  seqOut (resolveSlot ce.env (.const c.name) c.type) (resolveSlotConst ce (.const c.name) c.value)

/-- One member (struct field, argument, throws field): ResolveType on its type, then
ResolveConstValue on its default if set (resolver.ResolveStructField; the argument and throws
loops of ResolveFunction). -/
def resolveMember (ce : CEnv) (mk : Nat → Slot) (a : Nat) (fl : Field) : Res (Out DefOut) :=
  match fl.dflt with
  | none => resolveSlot ce.env (mk a) fl.type
  | some d => seqOut (resolveSlot ce.env (mk a) fl.type) (resolveSlotConst ce (mk a) d)

def resolveStructLikeDef (ce : CEnv) (s : StructLike) : Res (Out DefOut) :=
  flatOut (mapOutIdx (resolveMember ce (fun k => .field s.name k)) 0 s.fields)

/-- resolver.ResolveFunction -/
def resolveFunction (ce : CEnv) (svc : Bytes) (k : Nat) (fn : Function) : Res (Out DefOut) :=
  let r : Res (Out DefOut) := match fn.ret with
    | none => .ok ⟨⟨[], [], []⟩, [], []⟩
    | some t => resolveSlot ce.env (.ret svc k) t
  seqOut r
    (seqOut (flatOut (mapOutIdx (resolveMember ce (fun a => .arg svc k a)) 0 fn.args))
            (flatOut (mapOutIdx (resolveMember ce (fun a => .throw svc k a)) 0 fn.throws)))

/-- resolver.ResolveBaseService -/
def resolveBaseService (env : Env) (ext : Bytes) : Res (Out (Option Ref)) :=
  match splitType ext with
  | [a] =>
    match env.n2c a with
    | some c => if c = .service then .ok ⟨none, [], []⟩ else .error .baseSvc
    | none => .error .baseSvc
  | [a, b] =>
    match findInc (fun c => c = .service) a b env.incs 0 with
    | some (k, _) => .ok ⟨some ⟨k, b⟩, [], [k]⟩
    | none => .error .baseSvc
  | _ => .ok ⟨none, [], []⟩

def resolveServiceDef (ce : CEnv) (s : Service) : Res (Out DefOut) :=
  seqOut (flatOut (mapOutIdx (resolveFunction ce s.name) 0 s.functions))
    (match resolveBaseService ce.env s.extends with
     | .error e => .error e
     | .ok bo => .ok ⟨⟨[], [], [(s.name, bo.val)]⟩, bo.work, bo.used⟩)

/-! ### ResolveTypedefs -/

/-- The `Category` cells the loop has written, newest first. -/
abbrev Store := List (Addr × Cat)

def Store.get : Store → Addr → Option Cat
  | [], _ => none
  | (a', c) :: r, a => if a' = a then some c else Store.get r a

structure LoopEnv where
  /-- Category of the root Type node of the local typedef `alias` before the loop (GetTypedef). -/
  localRoot : Bytes → Option Cat
  /-- Category of the root Type node of typedef `name` in `Includes[k].Reference`. -/
  incRoot : Nat → Bytes → Option Cat

/-- `td.Type.Category` as ResolveTypedef reads it now; `none` = GetTypedef failed. -/
def readTd (le : LoopEnv) (st : Store) (e : TdEntry) : Option Cat :=
  match e.ast with
  | .cur =>
    match le.localRoot e.name with
    | none => none
    | some c0 => some ((st.get (Slot.typedef e.name, 0)).getD c0)
  | .inc k => le.incRoot k e.name

/-- One `for _, t := range tds` pass: ResolveTypedef on each entry, keeping in `tmp` those whose
own Category is still Typedef. -/
def pass (le : LoopEnv) : List TdEntry → Store → Res (Store × List TdEntry)
  | [], st => .ok (st, [])
  | e :: r, st =>
    match readTd le st e with
    | none => .error .tdNotFound
    | some c =>
      if c = .typedef then
        match pass le r st with
        | .error err => .error err
        | .ok (st', tmp) => .ok (st', e :: tmp)
      else pass le r ((e.addr, c) :: st)

/-- The `for len(tds) > 0` loop with its variables `tds`, `cnt`. -/
def tdLoop (le : LoopEnv) : Nat → List TdEntry → Nat → Store → Res Store
  | 0, tds, _, st => if tds.isEmpty then .ok st else .error .loopDiverged
  | fuel + 1, tds, cnt, st =>
    if tds.isEmpty then .ok st
    else
      match pass le tds st with
      | .error e => .error e
      | .ok (st', tmp) =>
        if tmp.length = cnt then .error .tdCycle
        else tdLoop le fuel tmp tmp.length st'

/-- resolver.ResolveTypedefs -/
def resolveTypedefs (le : LoopEnv) (work : List TdEntry) : Res Store :=
  tdLoop le (work.length + 1) work work.length []

/-- The nodes of a slot after the loop: cells that were written carry the written category. -/
def patchNodes (st : Store) (slot : Slot) : Nat → List RNode → List RNode
  | _, [] => []
  | k, n :: r =>
    (match st.get (slot, k) with
     | some c => { n with cat := c }
     | none => n) :: patchNodes st slot (k + 1) r

def patchTypes (st : Store) (ts : List TypeRes) : List TypeRes :=
  ts.map fun (slot, ns) => (slot, patchNodes st slot 0 ns)

/-! ### views -/

def findTypedef (a : Bytes) : List Typedef → Option Typedef
  | [] => none
  | t :: r => if t.alias = a then some t else findTypedef a r

def findEnum (n : Bytes) : List Enum → Option Enum
  | [] => none
  | e :: r => if e.name = n then some e else findEnum n r

/-- `td.Type` of the first typedef named `a` (GetTypedef), with what resolution stored in its
root node so far. -/
def tdRootOf (f : File) (types : List TypeRes) (a : Bytes) : Option TdRoot :=
  match findTypedef a f.typedefs with
  | none => none
  | some td =>
    match (lookupSlot (.typedef a) types).bind List.head? with
    | some nd => some ⟨td.type.rootName, nd.cat, nd.isTypedef, nd.ref⟩
    | none => some ⟨td.type.rootName, .constant, false, none⟩

def mkView (n2c : Bytes → Option Cat) (types : List TypeRes) (f : File) : FileView :=
  { n2c := n2c
    typedef := tdRootOf f types
    enum := fun n => (findEnum n f.enums).map (fun e => e.values.map (·.name))
    incs := f.includes.map (·.target) }

def RFile.view (f : File) (rf : RFile) : FileView :=
  mkView (fun n => lookupB n rf.n2c) rf.types f

/-! ### ResolveAST -/

def mkIncs (views : Nat → Option FileView) : List Include → Res (List IncInfo)
  | [] => .ok []
  | inc :: r =>
    match views inc.target with
    | none => .error .notParsed
    | some v =>
      match mkIncs views r with
      | .error e => .error e
      | .ok is => .ok (⟨idlPrefix inc.path, inc.target, v.n2c⟩ :: is)

def usedFlags (n : Nat) (marks : List Nat) : List Bool :=
  (List.range n).map (fun k => decide (k ∈ marks))

/-- The resolver's view of its own AST and includes. -/
def mkEnv (n2cL : N2C) (incs : List IncInfo) : Env := ⟨fun n => lookupB n n2cL, incs⟩

/-- The AST being resolved as getEnum sees it once the typedefs' types are resolved. -/
def mkCur (env : Env) (tdTypes : List TypeRes) (f : File) : FileView := mkView env.n2c tdTypes f

def mkCE (views : Nat → Option FileView) (gfuel i : Nat) (env : Env) (cur : FileView) : CEnv :=
  ⟨env, fun j => if j = i then some cur else views j, i, gfuel⟩

def mkLE (views : Nat → Option FileView) (incs : List IncInfo) (cur : FileView) : LoopEnv :=
  { localRoot := fun a => (cur.typedef a).map (·.cat)
    incRoot := fun k name =>
      match incs[k]? with
      | none => none
      | some inc =>
        match views inc.target with
        | none => none
        | some v => (v.typedef name).map (·.cat) }

/-- resolver.ResolveAST after its include loop: file `i` = `f`, every other AST through `views`.
`gfuel` bounds getEnum's recursion. -/
def resolveAST (views : Nat → Option FileView) (gfuel : Nat) (i : Nat) (f : File) : Res RFile :=
  match mkIncs views f.includes with
  | .error e => .error e
  | .ok incs =>
    match registerNames f with
    | .error e => .error e
    | .ok n2cL =>
      match flatOut (mapOut (resolveTypedefDef (mkEnv n2cL incs)) f.typedefs) with
      | .error e => .error e
      | .ok tds =>
        match flatOut (mapOut (resolveConstantDef
            (mkCE views gfuel i (mkEnv n2cL incs) (mkCur (mkEnv n2cL incs) tds.val.types f))) f.constants) with
        | .error e => .error e
        | .ok cs =>
          match flatOut (mapOut (resolveStructLikeDef
              (mkCE views gfuel i (mkEnv n2cL incs) (mkCur (mkEnv n2cL incs) tds.val.types f))) f.structLikes) with
          | .error e => .error e
          | .ok ss =>
            match flatOut (mapOut (resolveServiceDef
                (mkCE views gfuel i (mkEnv n2cL incs) (mkCur (mkEnv n2cL incs) tds.val.types f))) f.services) with
            | .error e => .error e
            | .ok svs =>
              match resolveTypedefs (mkLE views incs (mkCur (mkEnv n2cL incs) tds.val.types f))
                  (tds.work ++ cs.work ++ ss.work ++ svs.work) with
              | .error e => .error e
              | .ok st =>
                .ok { n2c := n2cL
                      used := usedFlags f.includes.length (tds.used ++ cs.used ++ ss.used ++ svs.used)
                      types := patchTypes st (((tds.val.append cs.val).append ss.val).append svs.val).types
                      binds := (((tds.val.append cs.val).append ss.val).append svs.val).binds
                      svcRefs := (((tds.val.append cs.val).append ss.val).append svs.val).svc }

/-! ### ResolveSymbols: the recursion over includes -/

/-- `none` = `Name2Category == nil`. -/
abbrev Table := List (Option RFile)

def tableViews (p : Program) (tbl : Table) : Nat → Option FileView := fun j =>
  match p[j]?, tbl[j]? with
  | some f, some (some rf) => some (rf.view f)
  | _, _ => none

/-- `r.ast.ForEachInclude(… ResolveSymbols(v.Reference) …)` -/
def incLoop (rs : Nat → Table → Res Table) : List Include → Table → Res Table
  | [], t => .ok t
  | inc :: r, t =>
    match rs inc.target t with
    | .error e => .error e
    | .ok t' => incLoop rs r t'

/-- semantic.ResolveSymbols(file `i`) with the memo on `Name2Category != nil`.  The fuel stands
for the depth of the include recursion (≤ number of files when includes are acyclic). -/
def resolveSymbols (p : Program) (gfuel : Nat) : Nat → Nat → Table → Res Table
  | 0, _, _ => .error .includeCycle
  | fuel + 1, i, tbl =>
    match p[i]? with
    | none => .error .notParsed
    | some f =>
      match tbl[i]? with
      | some (some _) => .ok tbl
      | _ =>
        match incLoop (resolveSymbols p gfuel fuel) f.includes tbl with
        | .error e => .error e
        | .ok tbl' =>
          match resolveAST (tableViews p tbl') gfuel i f with
          | .error e => .error e
          | .ok rf => .ok (tbl'.set i (some rf))

def Program.typedefCount (p : Program) : Nat :=
  (p.map (fun f => f.typedefs.length)).foldl (· + ·) 0

/-- Fuel for getEnum / Deref: longer than any acyclic typedef chain of the program. -/
def Program.chainFuel (p : Program) : Nat := 2 * p.typedefCount + p.length + 2

/-- The whole run: parse result `p`, `ResolveSymbols(p[root])`. -/
def resolve (p : Program) (root : Nat) : Res Table :=
  resolveSymbols p p.chainFuel (p.length + 1) root (List.replicate p.length none)

/-! ### Deref -/

/-- semantic.Deref(ast = file `i`, t) where `t` has the given Name/Category/IsTypedef/Reference.
Returns the file, Name and Category of the type returned. -/
def deref (views : Nat → Option FileView) : Nat → Nat → Bytes → Cat → Bool → Option Ref →
    Res (Nat × Bytes × Cat)
  | 0, _, _, _, _, _ => .error .crash
  | fuel + 1, i, name, cat, isTd, ref =>
    match ref with
    | none =>
      if !isTd then .ok (i, name, cat)
      else
        match views i with
        | none => .error .goPanic
        | some v =>
          match v.typedef name with
          | some td => deref views fuel i td.rootName td.cat td.isTypedef td.ref
          | none => .error .derefErr
    | some r =>
      match views i with
      | none => .error .goPanic
      | some v =>
        match v.incs[r.index]? with
        | none => .error .derefErr
        | some j =>
          match views j with
          | none => .error .derefErr
          | some vj =>
            let c := (vj.n2c r.name).getD .constant
            if c = .typedef then
              match vj.typedef r.name with
              | some td => deref views fuel j td.rootName td.cat td.isTypedef td.ref
              | none => .error .derefErr
            else if c.isDerefTarget then .ok (j, r.name, c)
            else .error .derefErr

end Sem
