import ThriftVerif.Lib.PegLemmas
/-
  Shape of the trees `Peg.run` builds, for every grammar and every input:
  * `Within`: every node's range lies inside the matched span, children inside their parent;
  * `Kids`: the pruned sibling chain an expression leaves is one the expression itself describes
    (a node per non-empty rule call / capture, in grammar order) — the grammar seen as a tree grammar.
-/
namespace Peg

/-! ### prune and append -/

theorem append_nil (t : T) : t.append .nil = t := by
  induction t with
  | nil => rfl
  | node r b e up next _ ih => simp [T.append, ih]

theorem prune_append (a b : T) : prune (a.append b) = (prune a).append (prune b) := by
  induction a with
  | nil => rfl
  | node r b0 e0 up next _ ih =>
    simp only [T.append, prune]
    split
    · exact ih
    · simp [T.append, ih]

/-! ### ranges -/

inductive Within : Nat → Nat → T → Prop
  | nil {lo hi} : Within lo hi .nil
  | node {lo hi r b e up next} : lo ≤ b → b ≤ e → e ≤ hi → Within b e up → Within lo hi next →
      Within lo hi (.node r b e up next)

theorem Within.mono {lo hi lo' hi' : Nat} {t : T} (h : Within lo hi t) (h1 : lo' ≤ lo) (h2 : hi ≤ hi') :
    Within lo' hi' t := by
  induction h with
  | nil => exact .nil
  | node a b c hu _ _ ihn => exact .node (by omega) b (by omega) hu (ihn h1 h2)

theorem Within.append {lo hi : Nat} {a b : T} (ha : Within lo hi a) (hb : Within lo hi b) :
    Within lo hi (a.append b) := by
  induction ha with
  | nil => exact hb
  | node h1 h2 h3 hu _ _ ihn => exact .node h1 h2 h3 hu (ihn hb)

theorem Within.prune {lo hi : Nat} {t : T} (h : Within lo hi t) : Within lo hi (prune t) := by
  induction h with
  | nil => exact .nil
  | node h1 h2 h3 _ _ ihu ihn =>
    simp only [Peg.prune]
    split
    · exact ihn
    · exact .node h1 h2 h3 ihu ihn

theorem nulSound_nil (g : Grammar) : NulSound g [] := by
  intro i body _ h; simp at h

/-- positions only grow -/
theorem run_pos {g : Grammar} {fuel : Nat} {e : Expr} {pos : Nat} {s : List Nat} {p' : Nat} {s' : List Nat} {t : T}
    (h : run g fuel e pos s = .ok p' s' t) : pos ≤ p' := by
  have := run_ok (nulSound_nil g) fuel e pos s p' s' t h
  omega

/-- Every node of the tree lies inside the matched span. -/
theorem run_within {g : Grammar} :
    ∀ (fuel : Nat) (e : Expr) (pos : Nat) (s : List Nat) (p' : Nat) (s' : List Nat) (t : T),
      run g fuel e pos s = .ok p' s' t → Within pos p' t := by
  intro fuel
  induction fuel with
  | zero => intro e pos s p' s' t h; simp [run] at h
  | succ fuel ih =>
    intro e pos s p' s' t h
    cases e with
    | eps =>
      simp only [run, Res.ok.injEq] at h
      obtain ⟨_, _, rfl⟩ := h; exact .nil
    | rng lo hi =>
      cases s with
      | nil => simp [run] at h
      | cons c r =>
        simp only [run] at h
        split at h
        · simp only [Res.ok.injEq] at h
          obtain ⟨_, _, rfl⟩ := h; exact .nil
        · simp at h
    | any =>
      cases s with
      | nil => simp [run] at h
      | cons c r =>
        simp only [run, Res.ok.injEq] at h
        obtain ⟨_, _, rfl⟩ := h; exact .nil
    | call r =>
      simp only [run] at h
      split at h
      · simp at h
      · rename_i body hb
        split at h
        · rename_i p1 s1 t1 h1
          simp only [Res.ok.injEq] at h
          obtain ⟨rfl, rfl, rfl⟩ := h
          have hp := run_pos h1
          exact .node (Nat.le_refl _) hp (Nat.le_refl _) (ih body pos s _ _ _ h1) .nil
        · rename_i x hx
          cases x <;> simp_all
    | seq a b =>
      simp only [run] at h
      split at h
      · rename_i p1 s1 t1 h1
        split at h
        · rename_i p2 s2 t2 h2
          simp only [Res.ok.injEq] at h
          obtain ⟨rfl, rfl, rfl⟩ := h
          have hp1 := run_pos h1
          have hp2 := run_pos h2
          exact ((ih a pos s _ _ _ h1).mono (Nat.le_refl _) hp2).append ((ih b p1 s1 _ _ _ h2).mono hp1 (Nat.le_refl _))
        · rename_i x hx
          cases x <;> simp_all
      · rename_i x hx
        cases x <;> simp_all
    | alt a b =>
      simp only [run] at h
      split at h
      · exact ih b pos s _ _ _ h
      · exact ih a pos s _ _ _ h
    | star e =>
      simp only [run] at h
      split at h
      · rename_i p1 s1 t1 h1
        split at h
        · rename_i p2 s2 t2 h2
          simp only [Res.ok.injEq] at h
          obtain ⟨rfl, rfl, rfl⟩ := h
          have hp1 := run_pos h1
          have hp2 := run_pos h2
          exact ((ih e pos s _ _ _ h1).mono (Nat.le_refl _) hp2).append ((ih (.star e) p1 s1 _ _ _ h2).mono hp1 (Nat.le_refl _))
        · rename_i x hx
          cases x <;> simp_all
      · simp only [Res.ok.injEq] at h
        obtain ⟨_, _, rfl⟩ := h; exact .nil
      · simp at h
    | plus e =>
      simp only [run] at h
      split at h
      · rename_i p1 s1 t1 h1
        split at h
        · rename_i p2 s2 t2 h2
          simp only [Res.ok.injEq] at h
          obtain ⟨rfl, rfl, rfl⟩ := h
          have hp1 := run_pos h1
          have hp2 := run_pos h2
          exact ((ih e pos s _ _ _ h1).mono (Nat.le_refl _) hp2).append ((ih (.star e) p1 s1 _ _ _ h2).mono hp1 (Nat.le_refl _))
        · rename_i x hx
          cases x <;> simp_all
      · rename_i x hx
        cases x <;> simp_all
    | opt e =>
      simp only [run] at h
      split at h
      · simp only [Res.ok.injEq] at h
        obtain ⟨_, _, rfl⟩ := h; exact .nil
      · exact ih e pos s _ _ _ h
    | notP e =>
      simp only [run] at h
      split at h
      · simp at h
      · simp only [Res.ok.injEq] at h
        obtain ⟨_, _, rfl⟩ := h; exact .nil
      · simp at h
    | andP e =>
      simp only [run] at h
      split at h
      · simp only [Res.ok.injEq] at h
        obtain ⟨_, _, rfl⟩ := h; exact .nil
      · rename_i x hx
        cases x <;> simp_all
    | cap e =>
      simp only [run] at h
      split at h
      · rename_i p1 s1 t1 h1
        simp only [Res.ok.injEq] at h
        obtain ⟨rfl, rfl, rfl⟩ := h
        have hp := run_pos h1
        exact .node (Nat.le_refl _) hp (Nat.le_refl _) (ih e pos s _ _ _ h1) .nil
      · rename_i x hx
        cases x <;> simp_all

/-! ### the grammar as a tree grammar -/

/-- `Kids g nul e lo hi t`: `t` is a sibling chain (after `prune`) that expression `e` can leave behind when it
matches the span `[lo, hi)`.  A call of a rule marked non-nullable, and any call over a non-empty span, leaves its
node; every node's children are described by the rule's body over the node's own span. -/
inductive Kids (g : Grammar) (nul : List Bool) : Expr → Nat → Nat → T → Prop
  | eps {p} : Kids g nul .eps p p .nil
  | rng {lo hi p} : Kids g nul (.rng lo hi) p (p + 1) .nil
  | any {p} : Kids g nul .any p (p + 1) .nil
  | notP {e p} : Kids g nul (.notP e) p p .nil
  | andP {e p} : Kids g nul (.andP e) p p .nil
  | callEmpty {r p} : nul.getD r true = true → Kids g nul (.call r) p p .nil
  | callNode {r body b e up} : g.rules[r]? = some body → Kids g nul body b e up → b < e →
      Kids g nul (.call r) b e (.node r b e up .nil)
  | seq {a b lo mid hi t1 t2} : Kids g nul a lo mid t1 → Kids g nul b mid hi t2 →
      Kids g nul (.seq a b) lo hi (t1.append t2)
  | altL {a b lo hi t} : Kids g nul a lo hi t → Kids g nul (.alt a b) lo hi t
  | altR {a b lo hi t} : Kids g nul b lo hi t → Kids g nul (.alt a b) lo hi t
  | starNil {e p} : Kids g nul (.star e) p p .nil
  | starCons {e lo mid hi t1 t2} : Kids g nul e lo mid t1 → Kids g nul (.star e) mid hi t2 →
      Kids g nul (.star e) lo hi (t1.append t2)
  | plus {e lo mid hi t1 t2} : Kids g nul e lo mid t1 → Kids g nul (.star e) mid hi t2 →
      Kids g nul (.plus e) lo hi (t1.append t2)
  | optNil {e p} : Kids g nul (.opt e) p p .nil
  | optSome {e lo hi t} : Kids g nul e lo hi t → Kids g nul (.opt e) lo hi t
  | capEmpty {e p} : nullable nul e = true → Kids g nul (.cap e) p p .nil
  | capNode {e b e' up} : Kids g nul e b e' up → b < e' → Kids g nul (.cap e) b e' (.node g.pegText b e' up .nil)

theorem Kids.le {g : Grammar} {nul : List Bool} {e : Expr} {lo hi : Nat} {t : T} (h : Kids g nul e lo hi t) : lo ≤ hi := by
  induction h <;> omega

/-- Every tree the matcher returns, pruned as `AST()` does, conforms to the grammar. -/
theorem run_kids {g : Grammar} {nul : List Bool} (hn : NulSound g nul) :
    ∀ (fuel : Nat) (e : Expr) (pos : Nat) (s : List Nat) (p' : Nat) (s' : List Nat) (t : T),
      run g fuel e pos s = .ok p' s' t → Kids g nul e pos p' (prune t) := by
  intro fuel
  induction fuel with
  | zero => intro e pos s p' s' t h; simp [run] at h
  | succ fuel ih =>
    intro e pos s p' s' t h
    cases e with
    | eps =>
      simp only [run, Res.ok.injEq] at h
      obtain ⟨rfl, _, rfl⟩ := h; exact .eps
    | rng lo hi =>
      cases s with
      | nil => simp [run] at h
      | cons c r =>
        simp only [run] at h
        split at h
        · simp only [Res.ok.injEq] at h
          obtain ⟨rfl, _, rfl⟩ := h; exact .rng
        · simp at h
    | any =>
      cases s with
      | nil => simp [run] at h
      | cons c r =>
        simp only [run, Res.ok.injEq] at h
        obtain ⟨rfl, _, rfl⟩ := h; exact .any
    | call r =>
      simp only [run] at h
      split at h
      · simp at h
      · rename_i body hb
        split at h
        · rename_i p1 s1 t1 h1
          simp only [Res.ok.injEq] at h
          obtain ⟨rfl, rfl, rfl⟩ := h
          have hk := ih body pos s _ _ _ h1
          have inv := run_ok hn fuel body pos s _ _ _ h1
          simp only [prune]
          split
          · rename_i heq
            subst heq
            apply Kids.callEmpty
            cases hnr : nul.getD r true with
            | true => rfl
            | false =>
              have := inv.2.2 (hn r body hb hnr)
              omega
          · rename_i hne
            have hp := run_pos h1
            exact .callNode hb hk (by omega)
        · rename_i x hx
          cases x <;> simp_all
    | seq a b =>
      simp only [run] at h
      split at h
      · rename_i p1 s1 t1 h1
        split at h
        · rename_i p2 s2 t2 h2
          simp only [Res.ok.injEq] at h
          obtain ⟨rfl, rfl, rfl⟩ := h
          rw [prune_append]
          exact .seq (ih a pos s _ _ _ h1) (ih b p1 s1 _ _ _ h2)
        · rename_i x hx
          cases x <;> simp_all
      · rename_i x hx
        cases x <;> simp_all
    | alt a b =>
      simp only [run] at h
      split at h
      · exact .altR (ih b pos s _ _ _ h)
      · exact .altL (ih a pos s _ _ _ h)
    | star e =>
      simp only [run] at h
      split at h
      · rename_i p1 s1 t1 h1
        split at h
        · rename_i p2 s2 t2 h2
          simp only [Res.ok.injEq] at h
          obtain ⟨rfl, rfl, rfl⟩ := h
          rw [prune_append]
          exact .starCons (ih e pos s _ _ _ h1) (ih (.star e) p1 s1 _ _ _ h2)
        · rename_i x hx
          cases x <;> simp_all
      · simp only [Res.ok.injEq] at h
        obtain ⟨rfl, _, rfl⟩ := h; exact .starNil
      · simp at h
    | plus e =>
      simp only [run] at h
      split at h
      · rename_i p1 s1 t1 h1
        split at h
        · rename_i p2 s2 t2 h2
          simp only [Res.ok.injEq] at h
          obtain ⟨rfl, rfl, rfl⟩ := h
          rw [prune_append]
          exact .plus (ih e pos s _ _ _ h1) (ih (.star e) p1 s1 _ _ _ h2)
        · rename_i x hx
          cases x <;> simp_all
      · rename_i x hx
        cases x <;> simp_all
    | opt e =>
      simp only [run] at h
      split at h
      · simp only [Res.ok.injEq] at h
        obtain ⟨rfl, _, rfl⟩ := h; exact .optNil
      · exact .optSome (ih e pos s _ _ _ h)
    | notP e =>
      simp only [run] at h
      split at h
      · simp at h
      · simp only [Res.ok.injEq] at h
        obtain ⟨rfl, _, rfl⟩ := h; exact .notP
      · simp at h
    | andP e =>
      simp only [run] at h
      split at h
      · simp only [Res.ok.injEq] at h
        obtain ⟨rfl, _, rfl⟩ := h; exact .andP
      · rename_i x hx
        cases x <;> simp_all
    | cap e =>
      simp only [run] at h
      split at h
      · rename_i p1 s1 t1 h1
        simp only [Res.ok.injEq] at h
        obtain ⟨rfl, rfl, rfl⟩ := h
        have hk := ih e pos s _ _ _ h1
        have inv := run_ok hn fuel e pos s _ _ _ h1
        simp only [prune]
        split
        · rename_i heq; subst heq
          apply Kids.capEmpty
          cases hne : nullable nul e with
          | true => rfl
          | false => have := inv.2.2 hne; omega
        · have hp := run_pos h1
          exact .capNode hk (by omega)
      · rename_i x hx
        cases x <;> simp_all

/-! ### where captures begin -/

/-- every PegText node (id `pt`), at any depth, begins at offset ≥ `m` -/
inductive CapFrom (pt m : Nat) : T → Prop
  | nil : CapFrom pt m .nil
  | node {r b e up next} : (r = pt → m ≤ b) → CapFrom pt m up → CapFrom pt m next →
      CapFrom pt m (.node r b e up next)

theorem CapFrom.mono {pt m m' : Nat} {t : T} (h : CapFrom pt m t) (hm : m' ≤ m) : CapFrom pt m' t := by
  induction h with
  | nil => exact .nil
  | node h1 _ _ ihu ihn => exact .node (fun e => Nat.le_trans hm (h1 e)) ihu ihn

theorem CapFrom.append {pt m : Nat} {a b : T} (ha : CapFrom pt m a) (hb : CapFrom pt m b) :
    CapFrom pt m (a.append b) := by
  induction ha with
  | nil => exact hb
  | node h1 hu _ _ ihn => exact .node h1 hu ihn

theorem CapFrom.prune {pt m : Nat} {t : T} (h : CapFrom pt m t) : CapFrom pt m (prune t) := by
  induction h with
  | nil => exact .nil
  | node h1 _ _ ihu ihn =>
    simp only [Peg.prune]
    split
    · exact ihn
    · exact .node h1 ihu ihn

structure CapWF (g : Grammar) (nul cap : List Bool) : Prop where
  len : cap.length = g.rules.size
  start : cap.getD 0 true = false
  closed : ∀ i body, g.rules[i]? = some body → capHead nul cap body = true → cap.getD i true = true

theorem capOK_unpack {g : Grammar} {nul cap : List Bool} (h : capOK g nul cap = true) : CapWF g nul cap := by
  simp only [capOK, Bool.and_eq_true, beq_iff_eq, List.all_eq_true, List.mem_range] at h
  obtain ⟨⟨h1, h2⟩, h3⟩ := h
  refine ⟨h1, h2, ?_⟩
  intro i body hb hc
  have hlt : i < g.rules.size := by
    rcases Nat.lt_or_ge i g.rules.size with h' | h'
    · exact h'
    · have := Array.getElem?_eq_none h'
      rw [this] at hb; cases hb
  have := h3 i hlt
  simp only [hb, Bool.or_eq_true, Bool.not_eq_true'] at this
  have hcl : i < cap.length := by rw [h1]; exact hlt
  cases this with
  | inl h4 => rw [hc] at h4; cases h4
  | inr h4 =>
    simp [List.getD_eq_getElem?_getD, List.getElem?_eq_getElem hcl] at h4 ⊢
    exact h4

/-- lower bound for the begin offset of captures below an expression matched at `p` -/
def lvl (c : Bool) (p : Nat) : Nat := if c = true then p else p + 1

theorem lvl_ge (c : Bool) (p : Nat) : p ≤ lvl c p := by unfold lvl; split <;> omega
theorem lvl_le (c : Bool) (p : Nat) : lvl c p ≤ p + 1 := by unfold lvl; split <;> omega
@[simp] theorem lvl_true (p : Nat) : lvl true p = p := by simp [lvl]
@[simp] theorem lvl_false (p : Nat) : lvl false p = p + 1 := by simp [lvl]

/-- A capture can begin at the start position of an expression only if `capHead` says so. -/
theorem run_capFrom {g : Grammar} {nul cap : List Bool} (hn : NulSound g nul) (hc : CapWF g nul cap) :
    ∀ (fuel : Nat) (e : Expr) (pos : Nat) (s : List Nat) (p' : Nat) (s' : List Nat) (t : T),
      run g fuel e pos s = .ok p' s' t → CapFrom g.pegText (lvl (capHead nul cap e) pos) t := by
  intro fuel
  induction fuel with
  | zero => intro e pos s p' s' t h; simp [run] at h
  | succ fuel ih =>
    intro e pos s p' s' t h
    cases e with
    | eps =>
      simp only [run, Res.ok.injEq] at h
      obtain ⟨_, _, rfl⟩ := h; exact .nil
    | rng lo hi =>
      cases s with
      | nil => simp [run] at h
      | cons c r =>
        simp only [run] at h
        split at h
        · simp only [Res.ok.injEq] at h
          obtain ⟨_, _, rfl⟩ := h; exact .nil
        · simp at h
    | any =>
      cases s with
      | nil => simp [run] at h
      | cons c r =>
        simp only [run, Res.ok.injEq] at h
        obtain ⟨_, _, rfl⟩ := h; exact .nil
    | call r =>
      simp only [run] at h
      split at h
      · simp at h
      · rename_i body hb
        split at h
        · rename_i p1 s1 t1 h1
          simp only [Res.ok.injEq] at h
          obtain ⟨rfl, rfl, rfl⟩ := h
          have hk := ih body pos s _ _ _ h1
          have hlt : r < g.rules.size := by
            rcases Nat.lt_or_ge r g.rules.size with h' | h'
            · exact h'
            · have := Array.getElem?_eq_none h'
              rw [this] at hb; cases hb
          refine .node (fun e => by unfold Grammar.pegText at e; omega) ?_ .nil
          simp only [capHead]
          cases hcr : cap.getD r true with
          | true =>
            have := lvl_ge (capHead nul cap body) pos
            exact hk.mono (by simpa using this)
          | false =>
            have : capHead nul cap body = false := by
              cases hb' : capHead nul cap body with
              | false => rfl
              | true => have := hc.closed r body hb hb'; rw [hcr] at this; cases this
            rw [this] at hk
            exact hk
        · rename_i x hx
          cases x <;> simp_all
    | seq a b =>
      simp only [run] at h
      split at h
      · rename_i p1 s1 t1 h1
        split at h
        · rename_i p2 s2 t2 h2
          simp only [Res.ok.injEq] at h
          obtain ⟨rfl, rfl, rfl⟩ := h
          have ha := ih a pos s _ _ _ h1
          have hb := ih b p1 s1 _ _ _ h2
          have hp1 := run_pos h1
          have inv := run_ok hn fuel a pos s _ _ _ h1
          have g1 := lvl_ge (capHead nul cap a) pos
          have g2 := lvl_ge (capHead nul cap b) p1
          simp only [capHead]
          cases hca : capHead nul cap a with
          | true =>
            simp only [Bool.true_or, lvl_true]
            exact (ha.mono (by omega)).append (hb.mono (by omega))
          | false =>
            rw [hca] at ha
            simp only [Bool.false_or]
            cases hcb : capHead nul cap b with
            | false =>
              rw [hcb] at hb
              simp only [Bool.and_false, lvl_false] at hb ha ⊢
              exact ha.append (hb.mono (by omega))
            | true =>
              rw [hcb] at hb
              simp only [Bool.and_true, lvl_true] at hb ⊢
              cases hna : nullable nul a with
              | true =>
                simp only [lvl_true]
                exact (ha.mono (by simp)).append (hb.mono hp1)
              | false =>
                have hlt := inv.2.2 hna
                simp only [lvl_false] at ha ⊢
                exact ha.append (hb.mono (by omega))
        · rename_i x hx
          cases x <;> simp_all
      · rename_i x hx
        cases x <;> simp_all
    | alt a b =>
      simp only [run] at h
      split at h
      · have hb := ih b pos s _ _ _ h
        simp only [capHead]
        refine hb.mono ?_
        cases capHead nul cap a <;> cases capHead nul cap b <;> simp
      · have ha := ih a pos s _ _ _ h
        simp only [capHead]
        refine ha.mono ?_
        cases capHead nul cap a <;> cases capHead nul cap b <;> simp
    | star e =>
      simp only [run] at h
      split at h
      · rename_i p1 s1 t1 h1
        split at h
        · rename_i p2 s2 t2 h2
          simp only [Res.ok.injEq] at h
          obtain ⟨rfl, rfl, rfl⟩ := h
          have ha := ih e pos s _ _ _ h1
          have hb := ih (.star e) p1 s1 _ _ _ h2
          have hp1 := run_pos h1
          simp only [capHead] at hb ⊢
          refine ha.append (hb.mono ?_)
          cases capHead nul cap e <;> simp <;> omega
        · rename_i x hx
          cases x <;> simp_all
      · simp only [Res.ok.injEq] at h
        obtain ⟨_, _, rfl⟩ := h; exact .nil
      · simp at h
    | plus e =>
      simp only [run] at h
      split at h
      · rename_i p1 s1 t1 h1
        split at h
        · rename_i p2 s2 t2 h2
          simp only [Res.ok.injEq] at h
          obtain ⟨rfl, rfl, rfl⟩ := h
          have ha := ih e pos s _ _ _ h1
          have hb := ih (.star e) p1 s1 _ _ _ h2
          have hp1 := run_pos h1
          simp only [capHead] at hb ⊢
          refine ha.append (hb.mono ?_)
          cases capHead nul cap e <;> simp <;> omega
        · rename_i x hx
          cases x <;> simp_all
      · rename_i x hx
        cases x <;> simp_all
    | opt e =>
      simp only [run] at h
      split at h
      · simp only [Res.ok.injEq] at h
        obtain ⟨_, _, rfl⟩ := h; exact .nil
      · have := ih e pos s _ _ _ h
        simpa only [capHead] using this
    | notP e =>
      simp only [run] at h
      split at h
      · simp at h
      · simp only [Res.ok.injEq] at h
        obtain ⟨_, _, rfl⟩ := h; exact .nil
      · simp at h
    | andP e =>
      simp only [run] at h
      split at h
      · simp only [Res.ok.injEq] at h
        obtain ⟨_, _, rfl⟩ := h; exact .nil
      · rename_i x hx
        cases x <;> simp_all
    | cap e =>
      simp only [run] at h
      split at h
      · rename_i p1 s1 t1 h1
        simp only [Res.ok.injEq] at h
        obtain ⟨rfl, rfl, rfl⟩ := h
        have hk := ih e pos s _ _ _ h1
        have := lvl_ge (capHead nul cap e) pos
        simp only [capHead, lvl_true]
        exact .node (fun _ => Nat.le_refl _) (hk.mono this) .nil
      · rename_i x hx
        cases x <;> simp_all

/-! ### what the walker may assume about every node -/

/-- non-empty range inside the buffer; a PegText node does not begin at offset 0 -/
inductive Safe (pt n : Nat) : T → Prop
  | nil : Safe pt n .nil
  | node {r b e up next} : b < e → e ≤ n → (r = pt → 1 ≤ b) → Safe pt n up → Safe pt n next →
      Safe pt n (.node r b e up next)

theorem Safe.mono {pt n n' : Nat} {t : T} (h : Safe pt n t) (hn : n ≤ n') : Safe pt n' t := by
  induction h with
  | nil => exact .nil
  | node h1 h2 h3 _ _ ihu ihn => exact .node h1 (by omega) h3 ihu ihn

theorem safe_prune {pt n lo : Nat} : ∀ {t : T}, Within lo n t → CapFrom pt 1 t → Safe pt n (prune t) := by
  intro t hw
  induction hw with
  | nil => intro _; exact .nil
  | node h1 h2 h3 hu hn ihu ihn =>
    intro hc
    cases hc with
    | node c1 cu cn =>
      simp only [prune]
      split
      · exact ihn cn
      · rename_i hne
        refine .node (by omega) h3 c1 ?_ (ihn cn)
        exact (ihu cu).mono h3

/-- The tree handed to the walker: every node non-empty and inside the input, no capture at offset 0. -/
theorem parse_safe {g : Grammar} {nul cap : List Bool} {rk : List Nat} (hw : WF g nul rk) (hc : CapWF g nul cap)
    (rs : List Nat) (p' : Nat) (s' : List Nat) (t : T) (h : parseRunes g rs = .ok p' s' t) :
    Safe g.pegText rs.length (prune t) := by
  unfold parseRunes at h
  have hwi := run_within _ _ _ _ _ _ _ h
  have hcf := run_capFrom hw.nulSound hc _ _ _ _ _ _ _ h
  have inv := run_ok hw.nulSound _ _ _ _ _ _ _ h
  have hle : p' ≤ rs.length := by omega
  have : capHead nul cap (.call 0) = false := by
    simp only [capHead]; exact hc.start
  rw [this] at hcf
  exact safe_prune (hwi.mono (Nat.le_refl _) hle) (by simpa using hcf)

/-! ### Kids inversion -/

theorem Kids.call_inv {g : Grammar} {nul : List Bool} {r lo hi : Nat} {t : T} (h : Kids g nul (.call r) lo hi t) :
    (t = .nil ∧ lo = hi ∧ nul.getD r true = true) ∨
    ∃ body up, g.rules[r]? = some body ∧ t = .node r lo hi up .nil ∧ lo < hi ∧ Kids g nul body lo hi up := by
  cases h with
  | callEmpty h => exact .inl ⟨rfl, rfl, h⟩
  | callNode hb hk hlt => exact .inr ⟨_, _, hb, rfl, hlt, hk⟩

theorem Safe.up {pt n r b e : Nat} {u nx : T} (h : Safe pt n (.node r b e u nx)) : Safe pt n u := by
  cases h with | node _ _ _ hu _ => exact hu

theorem Safe.next {pt n r b e : Nat} {u nx : T} (h : Safe pt n (.node r b e u nx)) : Safe pt n nx := by
  cases h with | node _ _ _ _ hn => exact hn

theorem Safe.of_append_left {pt n : Nat} {a b : T} (h : Safe pt n (a.append b)) : Safe pt n a := by
  induction a with
  | nil => exact .nil
  | node r b0 e0 up next _ ihn =>
    simp only [T.append] at h
    cases h with
    | node h1 h2 h3 hu hn => exact .node h1 h2 h3 hu (ihn hn)

theorem Safe.of_append_right {pt n : Nat} {a b : T} (h : Safe pt n (a.append b)) : Safe pt n b := by
  induction a with
  | nil => exact h
  | node r b0 e0 up next _ ihn =>
    simp only [T.append] at h
    cases h with
    | node h1 h2 h3 hu hn => exact ihn hn


end Peg
