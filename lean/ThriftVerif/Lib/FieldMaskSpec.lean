import ThriftVerif.Lib.FieldMask
/-
  Specification side of C14, written without reference to the trie:

  * `PStep` / `APath` / `Sel` — the path-set semantics of a mask;
  * `NoStarConflict`, `NoTerminalStar` — the decidable side conditions of the property;
  * `ATree`, `shadow`, `expand` — what a path string MEANS for a descriptor: the tokens and the
    descriptor walk of `addPath` with the mask replaced by the type tag of the current node
    (`shadow` never looks at a mask).  `shadow` accepts the "regular fragment": it refuses the
    quirks that have no path-set reading (empty id set `[,]`, ids before a `*` in one bracket,
    a `$` that re-types a node, `""` on an untyped root);
  * `Rep` — the representation invariant between a trie node and the set of path suffixes
    that run through it (used by the proofs only).
-/
namespace FieldMask

/-! ## path-set semantics -/

inductive PStep
  | field (id : Int)
  | idx (i : Int)          -- list index or integer map key
  | key (s : Bytes)        -- string map key
  | any                    -- `[*]` / `{*}`
  | anyField               -- `.*`
  deriving DecidableEq, Repr

abbrev APath := List PStep

def PStep.isStar : PStep → Bool
  | .any | .anyField => true
  | _ => false

/-- the path step a query step asks about -/
def QStep.toP : QStep → PStep
  | .field id => .field id
  | .int i => .idx i
  | .str s => .key s

def PStep.matchQ (p : PStep) (q : QStep) : Bool := p.isStar || p == q.toP

/-- `p` and `q` agree on their common length -/
def compat : APath → List QStep → Bool
  | [], _ => true
  | _, [] => true
  | p :: ps, q :: qs => p.matchQ q && compat ps qs

/-- the complete path `p` matches a prefix of `q` -/
def covers : APath → List QStep → Bool
  | [], _ => true
  | _ :: _, [] => false
  | p :: ps, q :: qs => p.matchQ q && covers ps qs

/-- **the specification**: does the path set select the data the query sequence walks to?
white list: an empty mask passes everything; otherwise some path agrees with the query as far
as both go.  black list: rejected iff some complete path matches a prefix of the query. -/
def Sel (black : Bool) (ps : List APath) (q : List QStep) : Bool :=
  if black then !(ps.any (covers · q)) else ps.isEmpty || ps.any (compat · q)

/-- two paths do not conflict: at the first position where they stop being equal, both carry a
specific step; being equal all the way is fine, except that a second `.*` on the same struct is
a conflict for the code ("field conflicts with previously settled '*'"). -/
def noConf : APath → APath → Bool
  | [], [] => true
  | [], _ :: _ => false
  | _ :: _, [] => false
  | a :: p, b :: q =>
    if a.isStar || b.isStar then
      (a == .any && b == .any) && noConf p q
    else if a == b then noConf p q else true

def noConfAll (p : APath) (l : List APath) : Bool := l.all (noConf p)

/-- pairwise `noConf` (decidable) -/
def NoStarConflict : List APath → Bool
  | [] => true
  | p :: l => noConfAll p l && NoStarConflict l

def NoTerminalStar (ps : List APath) : Bool := ps.all fun p => !(p.getLast?.any PStep.isStar)

/-! ## what a path string means -/

inductive ATree
  | leaf
  | field (id : Int) (t : ATree)
  | anyField (t : ATree)
  | any (t : ATree)
  | ints (ids : List Int) (t : ATree)
  | strs (ks : List Bytes) (t : ATree)
  deriving Repr

def ATree.expand : ATree → List APath
  | .leaf => [[]]
  | .field id t => t.expand.map (PStep.field id :: ·)
  | .anyField t => t.expand.map (PStep.anyField :: ·)
  | .any t => t.expand.map (PStep.any :: ·)
  | .ints ids t => ids.flatMap fun i => t.expand.map (PStep.idx i :: ·)
  | .strs ks t => ks.flatMap fun k => t.expand.map (PStep.key k :: ·)

def shViaField (cfg : Sites) (sch : Schema) (rec : Ft → Ty → Bytes → Res ATree) (rest2 : Bytes) (f : FieldD) : Res ATree := do
  let d' ← liftO (sch.unwrap f.ty)
  let ft' ← liftO (sch.switchFt f.ty)
  siteHead cfg f.id
  if ft' = .invalid then .err .unsupported      -- union / exception typed field: an unset child
  else do
    let t ← rec ft' d' rest2
    .ok (.field f.id t)

def shFieldStar (sch : Schema) (rec : Ft → Ty → Bytes → Res ATree) (rest2 : Bytes) (d : Ty) (fs : List FieldD) : Res ATree :=
  match fs with
  | [] => .err .noChildren
  | f0 :: _ => do
    let ft' ← liftO (sch.switchFt f0.ty)
    if ft' = .invalid then .err .unsupported
    else do
      let t ← rec ft' d rest2
      .ok (.anyField t)

/-- the `.` case of `shadow` -/
def shField (cfg : Sites) (sch : Schema) (rec : Ft → Ty → Bytes → Res ATree)
    (ft : Ft) (rest : Bytes) (d : Ty) : Res ATree :=
  match sch.structOf d with
  | none => .err .wrongKind
  | some fs =>
    if ft != .struct then .err .wrongKind else do
    let (tok, rest2) ← next cfg rest
    if tok = .eof then .err .eof
    else
      match tok with
      | .litInt n => do
        let id ← siteInt32 cfg n
        match fieldById fs id with
        | none => .err .unknownField
        | some f => shViaField cfg sch rec rest2 f
      | .litStr name =>
        match fieldByName fs name with
        | none => .err .unknownField
        | some f => shViaField cfg sch rec rest2 f
      | .any => shFieldStar sch rec rest2 d fs
      | _ => .err .unexpected

/-- the `[` case of `shadow` -/
def shIndex (cfg : Sites) (sch : Schema) (fuel : Nat) (rec : Ft → Ty → Bytes → Res ATree)
    (ft : Ft) (rest : Bytes) (d : Ty) : Res ATree :=
  match d with
  | .list e =>
    if ft != .list then .err .wrongKind else do
    let et ← liftO (sch.unwrap e)
    let nextFt ← liftO (sch.switchFt et)
    if nextFt = .invalid then .err .unsupported else do
    let sc ← scanIndex cfg fuel rest false false true []
    if sc.star then
      if !sc.ids.isEmpty then .err .conflict           -- `[1,*]`: ids silently dropped by the code
      else do
        let t ← rec nextFt et sc.rest
        .ok (.any t)
    else if sc.ids.isEmpty then .err .emptySet          -- `[,]` / `[`: nothing selected, node created
    else do
      let et' ← liftO (sch.unwrap et)
      let t ← rec nextFt et' sc.rest
      .ok (.ints (sc.ids.map Int.ofNat) t)
  | _ => .err .wrongKind

/-- the `{` case of `shadow` -/
def shMap (cfg : Sites) (sch : Schema) (fuel : Nat) (rec : Ft → Ty → Bytes → Res ATree)
    (ft : Ft) (rest : Bytes) (d : Ty) : Res ATree :=
  match d with
  | .map _ v =>
    if ft != .intMap && ft != .strMap && ft != .scalar then .err .wrongKind else do
    let et ← liftO (sch.unwrap v)
    let nextFt ← liftO (sch.switchFt et)
    if nextFt = .invalid then .err .unsupported else do
    let isInt := ft == .intMap
    let isStr := ft == .strMap
    let sc ← scanKeys cfg isInt isStr fuel rest (ft == .scalar) false true [] []
    if sc.star then
      if !sc.ids.isEmpty || !sc.strs.isEmpty then .err .conflict
      else do
        let t ← rec nextFt et sc.rest
        .ok (.any t)
    else if ft == .scalar then .err .emptySet           -- `{,}` on a map with other keys
    else do
      let et' ← liftO (sch.unwrap et)
      let t ← rec nextFt et' sc.rest
      if isInt then
        (if sc.ids.isEmpty then .err .emptySet else .ok (.ints (sc.ids.map Int.ofNat) t))
      else
        (if sc.strs.isEmpty then .err .emptySet else .ok (.strs sc.strs t))
  | _ => .err .wrongKind

/-- `addLoop` with the mask replaced by the current node's type tag `ft` -/
def shadow (cfg : Sites) (sch : Schema) : Nat → Ft → Ty → Bytes → Res ATree
  | 0, _, _, _ => .crash
  | fuel + 1, ft, d, path =>
    if path.isEmpty then (if ft = .invalid then .err .unexpected else .ok .leaf)
    else do
      let (stok, rest) ← next cfg path
      match stok with
      | .eof => .err .eof
      | .root => do
        let ft' ← liftO (sch.switchFt d)
        if ft ≠ .invalid ∧ ft ≠ ft' then .err .unexpected     -- a `$` that would re-type the node
        else shadow cfg sch fuel ft' d rest
      | .field => shField cfg sch (shadow cfg sch fuel) ft rest d
      | .indexL => shIndex cfg sch fuel (shadow cfg sch fuel) ft rest d
      | .mapL => shMap cfg sch fuel (shadow cfg sch fuel) ft rest d
      | _ => .err .unexpected

/-- the type tag of a node after a path went through it: an untyped root is typed by `$` -/
def ftAfter (sch : Schema) (d : Ty) (ft : Ft) : Ft :=
  if ft = .invalid then (sch.switchFt d).getD .invalid else ft

/-- the meanings of the path strings given to NewFieldMask (`d` = unwrapDesc of the descriptor):
the root is untyped (`ft = invalid`) until the first path types it -/
def pathsMeaning (cfg : Sites) (sch : Schema) (d : Ty) : Ft → List Bytes → Res (List ATree)
  | _, [] => .ok []
  | ft, p :: ps => do
    let t ← shadow cfg sch (p.length + 1) ft d p
    let ts ← pathsMeaning cfg sch d (ftAfter sch d ft) ps
    .ok (t :: ts)

def expandAll (ts : List ATree) : List APath := ts.flatMap ATree.expand

/-- the meanings of the path strings given to `NewFieldMask(desc, paths...)` -/
def meaning (cfg : Sites) (sch : Schema) (desc : Ty) (paths : List Bytes) : Res (List ATree) := do
  let d ← liftO (sch.unwrap desc)
  pathsMeaning cfg sch d .invalid paths


/-! ## representation invariant (proofs only) -/

def Mask.kid (m : Mask) : PStep → MaskOpt
  | .field id => m.fd.get (.i id)
  | .idx i => m.ints.get (.i i)
  | .key s => m.strs.get (.s s)
  | _ => .none

def tailsOf (k : PStep) (P : List APath) : List APath :=
  P.filterMap fun p => match p with
    | k' :: t => if k' = k then some t else none
    | [] => none

/-- the (type tag, descriptor) of the child reached by a step: what `addLoop` computes when it descends -/
def stepCur (sch : Schema) (ft : Ft) (d : Ty) : PStep → Option (Ft × Ty)
  | .field id => do
    let fs ← sch.structOf d
    let f ← fieldById fs id
    let d' ← sch.unwrap f.ty
    let ft' ← sch.switchFt f.ty
    pure (ft', d')
  | .anyField => do
    let fs ← sch.structOf d
    let f0 ← fs.head?
    let ft' ← sch.switchFt f0.ty
    pure (ft', d)
  | .any =>
    match d with
    | .list e => do
      let et ← sch.unwrap e
      let ft' ← sch.switchFt et
      pure (ft', et)
    | .map _ v => do
      let et ← sch.unwrap v
      let ft' ← sch.switchFt et
      pure (ft', et)
    | _ => none
  | _ =>
    let _ := ft
    match d with
    | .list e => do
      let et ← sch.unwrap e
      let ft' ← sch.switchFt et
      let et' ← sch.unwrap et
      pure (ft', et')
    | .map _ v => do
      let et ← sch.unwrap v
      let ft' ← sch.switchFt et
      let et' ← sch.unwrap et
      pure (ft', et')
    | _ => none

/-- which child map a step lives in, by the node's type tag -/
def kindOK (ft : Ft) : PStep → Bool
  | .field _ => ft == .struct
  | .idx _ => ft == .list || ft == .intMap
  | .key _ => ft == .strMap
  | _ => true

def Kids.keys : Kids → List Key
  | .nil => []
  | .cons k _ r => k :: r.keys

/-- a child map keyed by integers / by strings, without duplicate keys (what a Go map is) -/
def Kids.wfI (ks : Kids) : Prop := ks.keys.Nodup ∧ ∀ k ∈ ks.keys, ∃ n, k = Key.i n
def Kids.wfS (ks : Kids) : Prop := ks.keys.Nodup ∧ ∀ k ∈ ks.keys, ∃ b, k = Key.s b

def Mask.NoKids (m : Mask) : Prop :=
  m.fd = .nil ∧ m.ints = .nil ∧ m.strs = .nil ∧ m.fdA = false ∧ m.intA = false ∧ m.strA = false

/-- a node nothing was inserted under yet -/
def Mask.Fresh (black : Bool) (m : Mask) : Prop :=
  m.isAll = false ∧ m.all = .none ∧ m.isBlack = black ∧ m.NoKids

/-- `Rep d m P`: the trie node `m`, reached with descriptor `d`, represents exactly the non-empty
set `P` of path suffixes (a leaf where paths end, an "all" node where they continue with `*`,
a node with one child per distinct specific first step otherwise). -/
inductive Rep (sch : Schema) (black : Bool) : Ty → Mask → List APath → Prop
  | leaf {d m P} : m.typ ≠ .invalid → m.isBlack = black → P ≠ [] → (∀ p ∈ P, p = []) →
      m.isAll = true → m.all = .none → m.NoKids → Rep sch black d m P
  | star {d m P} (s : PStep) (a : Mask) (cu : Ft × Ty) :
      m.typ ≠ .invalid → m.isBlack = black → P ≠ [] → s.isStar = true → (∀ p ∈ P, ∃ t, p = s :: t) →
      m.isAll = true → m.all = .some a → m.NoKids → stepCur sch m.typ d s = some cu → a.typ = cu.1 →
      Rep sch black cu.2 a (P.map List.tail) → Rep sch black d m P
  | spec {d m P} : m.typ ≠ .invalid → m.isBlack = black → P ≠ [] →
      (∀ p ∈ P, ∃ k t, p = k :: t ∧ k.isStar = false) →
      m.isAll = false → m.hasChild = true → (m.fdA = true ∨ m.fd = .nil) →
      (∀ k, k.isStar = false → tailsOf k P ≠ [] → kindOK m.typ k = true) →
      (m.fd.wfI ∧ m.ints.wfI ∧ m.strs.wfS) →
      (∀ k, k.isStar = false → tailsOf k P = [] → m.kid k = .none) →
      (∀ k, k.isStar = false → tailsOf k P ≠ [] →
         ∃ c cu, m.kid k = .some c ∧ stepCur sch m.typ d k = some cu ∧ c.typ = cu.1) →
      (∀ k c cu, m.kid k = .some c → stepCur sch m.typ d k = some cu → tailsOf k P ≠ [] →
         Rep sch black cu.2 c (tailsOf k P)) →
      Rep sch black d m P

/-- struct field ids are unique (the thrift semantic checker enforces it; `fieldById` is first-match) -/
def Schema.uniqueIds (s : Schema) : Bool :=
  s.structs.all fun st => st.2.all fun f => (fieldById st.2 f.id) == some f


/-! ## witnesses and decidable hypotheses used by Props/C14.lean -/

/-- witness schema `struct S {-1: string neg, 1: string a, 2: list<string> l, 3: map<string,S> m, 4: S s}` -/
def wS : Schema :=
  { structs := [([83], [⟨-1, [110, 101, 103], .named [115, 116, 114, 105, 110, 103]⟩,
                        ⟨1, [97], .named [115, 116, 114, 105, 110, 103]⟩,
                        ⟨2, [108], .list (.named [115, 116, 114, 105, 110, 103])⟩,
                        ⟨3, [109], .map (.named [115, 116, 114, 105, 110, 103]) (.named [83])⟩,
                        ⟨4, [115], .named [83]⟩])],
    typedefs := [], enums := [] }
def rS : Ty := .named [83]

def Res.get? {α} : Res α → Option α
  | .ok a => some a
  | _ => none
def Res.panicSite {α} : Res α → Option Site
  | .panic s => some s
  | _ => none
def Res.isCrash {α} : Res α → Bool
  | .crash => true
  | _ => false
def Res.isErr {α} : Res α → Bool
  | .err _ => true
  | _ => false


/-- all suffixes of a byte string -/
def suffixes : Bytes → List Bytes
  | [] => [[]]
  | a :: l => (a :: l) :: suffixes l

/-- decidable hypotheses of `no_panic_partial` -/
def idsNonneg (sch : Schema) : Bool := sch.structs.all fun st => st.2.all fun f => decide (0 ≤ f.id)

/-- no suffix of the path makes the tokenizer panic (unbalanced quote, backslash at the end of a quoted
string, integer beyond int64) and no integer literal exceeds int32 -/
def tokSafe (cfg : Sites) (p : Bytes) : Bool :=
  (suffixes p).all fun r =>
    match next cfg r with
    | .panic _ => false
    | .ok (.litInt n, _) => !cfg.int32 || decide (n ≤ 2147483647)
    | _ => true



/-- every token read at a non-empty suffix consumes input (decidable form of `Progress`) -/
def progressB (cfg : Sites) (p : Bytes) : Bool :=
  (suffixes p).all fun r =>
    r.isEmpty || match next cfg r with
      | .ok (_, r') => decide (r'.length < r.length)
      | _ => true


/-- keys that survive the trip through `strconv`/`encoding/json` as modelled by `JPath.toRaw`:
field ids fit int32 (and are non-negative while `head[f]` is unguarded), indices fit int64, no string key is `"*"`
and string keys are valid UTF-8 (JSON cannot carry other bytes) -/
def jsonSafeStep (cfg : Sites) : PStep → Bool
  | .field id => fitsInt32 id && (!cfg.headNeg || decide (0 ≤ id))
  | .idx i => fitsInt64 i
  | .key s => s != [42] && validUtf8 s
  | _ => true

def JsonSafe (cfg : Sites) (P : List APath) : Bool := P.all fun p => p.all (jsonSafeStep cfg)


end FieldMask
