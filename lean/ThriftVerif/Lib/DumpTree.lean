/-
  C17 — model of `recurseDump` (tool/trimmer/main.go), the `-r` mode of the trimmer that writes the dump of
  every included file.

  An AST and the ASTs it includes form a finite acyclic structure (`parser.CircleDetect` rejects include
  cycles before `recurseDump` runs); `Node.mk id incs` is one AST: `id` stands for its pointer identity (the
  key of the `visited` map), `incs` for `ast.Includes[i].Reference` in order.  A file that is included from
  several places occurs several times in the structure, always with the same id.

  `rd n vis` = the list of ids written so far (in writing order) after `recurseDump(n, …, visited = vis)`.
  Core Lean only.
-/
namespace DumpTree

inductive Node where
  | mk (id : Nat) (incs : List Node)

def Node.id : Node → Nat
  | .mk i _ => i

def Node.incs : Node → List Node
  | .mk _ l => l

mutual
/-- `recurseDump`: return if visited; mark, write the file, then recurse into every include in order -/
def rd : Node → List Nat → List Nat
  | .mk id incs, vis => if id ∈ vis then vis else rdAll incs (vis ++ [id])
/-- the loop `for _, includes := range ast.Includes { recurseDump(includes.Reference, …) }` -/
def rdAll : List Node → List Nat → List Nat
  | [], vis => vis
  | n :: ns, vis => rdAll ns (rd n vis)
end

mutual
/-- all ASTs reachable from `n` (occurrences), `n` itself first -/
def occ : Node → List Node
  | .mk id incs => .mk id incs :: occAll incs
def occAll : List Node → List Node
  | [] => []
  | n :: ns => occ n ++ occAll ns
end

mutual
/-- NOT the code: the variant in which the include loop is left (`break`) at the first include that was
    already visited — kept only for the counterexample in Props/C17 (a shared include listed before a new one). -/
def rdBreak : Node → List Nat → List Nat
  | .mk id incs, vis => if id ∈ vis then vis else rdBreakAll incs (vis ++ [id])
def rdBreakAll : List Node → List Nat → List Nat
  | [], vis => vis
  | n :: ns, vis => if n.id ∈ vis then vis else rdBreakAll ns (rdBreak n vis)
end

/-- the include structure given as adjacency lists (file index → included file indices, in order), unfolded from
    file `i`; `fuel` bounds the depth (the graph is acyclic: number of files suffices) -/
def unfold (adj : List (List Nat)) : Nat → Nat → Node
  | 0, i => .mk i []
  | fuel + 1, i => .mk i ((adj.getD i []).map (unfold adj fuel))

/-- the same AST (same id) has the same includes wherever it occurs -/
def Consistent (root : Node) : Prop :=
  ∀ i l1 l2, Node.mk i l1 ∈ occ root → Node.mk i l2 ∈ occ root → l1.map Node.id = l2.map Node.id

end DumpTree
