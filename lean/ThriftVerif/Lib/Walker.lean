import ThriftVerif.Lib.Peg
/-
  C03 — model of the hand-written tree walk of parser/parser.go (parse, parseHeader … parseThrows,
  pegText, checkrule, addField) over the pruned token tree `Peg.T`.

  Every `node.next`, `node.up`, `node.pegRule`, `node.begin` of the Go text is one `next?`/`up?`/`rule?`/`b?`
  step here; on the nil pointer it yields the outcome `panic`.  `p.buffer[i]` outside the buffer is `panic`
  too.  Go `error` returns are the outcome `err`.  The two recursive groups (parseFieldType/parseContainerType,
  parseConstValue) recurse by fuel; fuel exhaustion is the outcome `crash`.

  Strings are Go strings, i.e. `Bytes` (UTF-8 of the rune slices the code converts with `string(...)`).
  `strconv.ParseInt` is written out (`GoStrconv.parseInt`); `strconv.ParseFloat` is a parameter of the model:
  a double constant is represented by the *text handed to ParseFloat*.
-/
namespace GoStrconv

def lower (c : Nat) : Nat := c ||| 32

/-- digit value of a byte as `strconv.ParseUint` reads it (any base); `'_'` is not modelled: no text that
reaches the calls in parser.go contains one -/
def digitVal (c : Nat) : Option Nat :=
  if 48 ≤ c ∧ c ≤ 57 then some (c - 48)
  else if 97 ≤ lower c ∧ lower c ≤ 122 then some (lower c - 97 + 10)
  else none

inductive U where
  | ok (n : Nat)
  | syntaxErr
  | rangeErr
  deriving DecidableEq, Repr

/-- the digit loop of ParseUint: a range error is reported as soon as the prefix exceeds `maxVal` -/
def uintLoop (base maxVal : Nat) : Nat → List Nat → U
  | n, [] => .ok n
  | n, c :: r =>
    match digitVal c with
    | none => .syntaxErr
    | some d =>
      if d ≥ base then .syntaxErr
      else if n * base + d > maxVal then .rangeErr
      else uintLoop base maxVal (n * base + d) r

/-- `strconv.ParseUint(s, base, bits)` for `base ∈ {0} ∪ [2,36]` -/
def parseUint (s : List Nat) (base bits : Nat) : U :=
  if s = [] then .syntaxErr else
  let maxVal := 2 ^ bits - 1
  if base ≠ 0 then uintLoop base maxVal 0 s else
  match s with
  | 48 :: c :: d :: r =>
    if lower c = 98 then uintLoop 2 maxVal 0 (d :: r)
    else if lower c = 111 then uintLoop 8 maxVal 0 (d :: r)
    else if lower c = 120 then uintLoop 16 maxVal 0 (d :: r)
    else uintLoop 8 maxVal 0 (c :: d :: r)
  | 48 :: r => uintLoop 8 maxVal 0 r
  | _ => uintLoop 10 maxVal 0 s

/-- `strconv.ParseInt(s, base, bits)`: the returned value and whether `err != nil` -/
def parseInt (s : List Nat) (base bits : Nat) : Int × Bool :=
  match s with
  | [] => (0, true)
  | c :: r =>
    let neg := c = 45
    let body := if c = 43 ∨ c = 45 then r else s
    let cutoff : Nat := 2 ^ (bits - 1)
    match parseUint body base bits with
    | .syntaxErr => (0, true)
    | .rangeErr => if neg then (-(cutoff : Int), true) else ((cutoff : Int) - 1, true)
    | .ok un =>
      if !neg && un ≥ cutoff then ((cutoff : Int) - 1, true)
      else if neg && un > cutoff then (-(cutoff : Int), true)
      else (if neg then -(un : Int) else (un : Int), false)

end GoStrconv

namespace Walker
open Peg

inductive W (α : Type) where
  | ok (a : α)
  | err
  | panic
  | crash
  deriving DecidableEq, Repr

instance : Monad W where
  pure := .ok
  bind x f := match x with
    | .ok a => f a
    | .err => .err
    | .panic => .panic
    | .crash => .crash

/-! ### AST (parser/AST.go), the fields the walker fills -/

abbrev Anns := List (Bytes × List Bytes)

inductive Ty where
  | none
  | mk (name : Bytes) (key val : Ty) (cpp : Bytes) (anns : Anns)
  deriving DecidableEq, Repr, Inhabited

inductive CV where
  | dbl (text : Bytes)     -- ParseFloat(text, 64), error ignored
  | int (v : Int)
  | lit (s : Bytes)
  | ident (s : Bytes)
  | list (xs : List CV)
  | map (kvs : List (CV × CV))
  deriving Repr, Inhabited

structure Field where
  id : Int
  name : Bytes
  req : Nat               -- FieldType_Default 0 / Required 1 / Optional 2
  ty : Ty
  dflt : Option CV
  anns : Anns
  comments : Bytes
  deriving Repr, Inhabited

structure Namespace where
  lang : Bytes
  name : Bytes
  anns : Anns
  deriving Repr

structure Typedef where
  ty : Ty
  alias : Bytes
  anns : Anns
  comments : Bytes
  deriving Repr

structure Constant where
  name : Bytes
  ty : Ty
  value : CV
  anns : Anns
  comments : Bytes
  deriving Repr

structure EnumValue where
  name : Bytes
  value : Int
  anns : Anns
  comments : Bytes
  deriving Repr, Inhabited

structure Enum where
  name : Bytes
  values : List EnumValue
  anns : Anns
  comments : Bytes
  deriving Repr

structure StructLike where
  category : Nat          -- 0 struct, 1 union, 2 exception
  name : Bytes
  fields : List Field
  anns : Anns
  comments : Bytes
  deriving Repr

structure Function where
  name : Bytes
  oneway : Bool
  void : Bool
  ty : Ty
  args : List Field
  throws : List Field
  anns : Anns
  comments : Bytes
  deriving Repr

structure Service where
  name : Bytes
  ext : Bytes
  functions : List Function
  anns : Anns
  comments : Bytes
  deriving Repr

structure Thrift where
  includes : List Bytes := []
  cppIncludes : List Bytes := []
  namespaces : List Namespace := []
  typedefs : List Typedef := []
  constants : List Constant := []
  enums : List Enum := []
  structs : List StructLike := []
  unions : List StructLike := []
  exceptions : List StructLike := []
  services : List Service := []
  deriving Repr

def NOTSET : Int := -999999

def wrap32 (x : Int) : Int := (x + 2147483648) % 4294967296 - 2147483648
def wrap64 (x : Int) : Int := (x + 9223372036854775808) % 18446744073709551616 - 9223372036854775808

/-- `(*Annotations).Append` (AST-extend.go) -/
def annAppend : Anns → Bytes → Bytes → Anns
  | [], k, v => [(k, [v])]
  | (k', vs) :: r, k, v => if k' = k then (k', vs ++ [v]) :: r else (k', vs) :: annAppend r k v

/-- `(*Annotations).Get` -/
def annGet : Anns → Bytes → List Bytes
  | [], _ => []
  | (k', vs) :: r, k => if k' = k then vs else annGet r k

/-! ### pointer steps -/

def next? : T → W T
  | .nil => .panic
  | .node _ _ _ _ n => .ok n

def up? : T → W T
  | .nil => .panic
  | .node _ _ _ u _ => .ok u

def rule? : T → W Nat
  | .nil => .panic
  | .node r _ _ _ _ => .ok r

def b? : T → W Nat
  | .nil => .panic
  | .node _ b _ _ _ => .ok b

def e? : T → W Nat
  | .nil => .panic
  | .node _ _ e _ _ => .ok e

def isNil : T → Bool
  | .nil => true
  | _ => false

/-- `node != nil && node.pegRule == r` -/
def isRule (t : T) (r : Nat) : Bool :=
  match t with
  | .nil => false
  | .node r' _ _ _ _ => r' = r

/-- util.go `checkrule` -/
def checkrule (t : T) (r : Nat) : W T := do
  let x ← rule? t
  if x ≠ r then .err else up? t

/-! ### pegText -/

/-- the copy loop of `pegText` over `buffer[begin:end]` (last element = `buffer[end-1]`, appended verbatim) -/
def unescLoop (q : Nat) : List Nat → List Nat
  | [] => []
  | [c] => [c]
  | c :: d :: rest =>
    if c = 92 ∧ d = 92 then
      if rest.isEmpty then [92, 92, d] else 92 :: 92 :: unescLoop q rest
    else if c = 92 ∧ d = q then unescLoop q (d :: rest)
    else c :: unescLoop q (d :: rest)

def slice (buf : Array Nat) (b e : Nat) : List Nat := (buf.extract b e).toList

/-- text of one PegText node -/
def textOf (buf : Array Nat) (b e : Nat) : W Bytes :=
  if b = 0 ∨ e ≤ b ∨ e > buf.size then .panic
  else .ok (Utf8.encode (unescLoop (buf.getD (b - 1) 0) (slice buf b e)))

/-- `string(p.buffer[n.begin:n.end])` of a non-nil node -/
def rawText (buf : Array Nat) : T → W Bytes
  | .nil => .panic
  | .node _ b e _ _ => if e > buf.size ∨ b > e then .panic else .ok (Utf8.encode (slice buf b e))

/-- an explicit field id (parseField, case ruleFieldId): `ParseInt(text, 10, 32)`, on error `ParseInt(text, 0, 32)`,
`none` when both fail (parseField then returns an error) -/
def fieldIdOf (s : Bytes) : Option Int :=
  let (v, bad) := GoStrconv.parseInt s 10 32
  if !bad then some v else
  let (v0, bad0) := GoStrconv.parseInt s 0 32
  if !bad0 then some v0 else none

/-- an explicit enum value (parseEnum): `ParseInt(text, 0, 64)`, on error `ParseInt(text, 10, 64)`, `none` when both fail -/
def enumValueOf (s : Bytes) : Option Int :=
  let (v, bad) := GoStrconv.parseInt s 0 64
  if !bad then some v else
  let (v0, bad0) := GoStrconv.parseInt s 10 64
  if !bad0 then some v0 else none

variable (ids : Ids) (buf : Array Nat)

/-- `for n := t; n != nil; n = n.next { if n.pegRule == rulePegText { … break } }`: the node the loop stops at, or nil -/
def findCap : T → T
  | .nil => .nil
  | .node r b e up next => if r = ids.rPegText then .node r b e up next else findCap next

/-- `strings.TrimRight(s, " \t\v")` -/
def trimRightBlank (l : List Nat) : List Nat :=
  (l.reverse.dropWhile (fun c => c = 32 ∨ c = 9 ∨ c = 11)).reverse

/-- `(*parser).pegText` -/
def pegText : T → W Bytes
  | .nil => .ok []
  | .node r b e up next =>
    match pegText up with
    | .ok s =>
      if s ≠ [] then .ok s
      else if r ≠ ids.rPegText then pegText next
      else textOf buf b e
    | x => x

/-! ### comments -/

def trimRightCRLF (l : List Nat) : List Nat :=
  (l.reverse.dropWhile (fun c => c = 13 ∨ c = 10)).reverse

def joinNL : List Bytes → Bytes
  | [] => []
  | [x] => x
  | x :: r => x ++ [10] ++ joinNL r

/-- the loop shared by parseReservedComments / parseReservedEndLineComments -/
def commentLoop : T → W (List Bytes)
  | .nil => .ok []
  | .node r _ _ up next =>
    if r = ids.rComment then
      match up with
      | .nil => .panic
      | .node _ b e _ _ =>
        if e > buf.size ∨ b > e then .panic else
        let c := trimRightCRLF (Utf8.encode (slice buf b e))
        let c := match c with
          | 35 :: r => [47, 47] ++ r
          | _ => c
        match commentLoop next with
        | .ok cs => .ok (if c ≠ [] then c :: cs else cs)
        | x => x
    else commentLoop next

def parseReservedComments (node : T) (rule : Nat) : W Bytes := do
  let node ← checkrule node rule
  let node ← up? node
  let cs ← commentLoop ids buf node
  pure (joinNL cs)

/-! ### annotations -/

def parseAnnotation (node : T) : W (Bytes × Bytes) := do
  let node ← checkrule node ids.rAnnotation
  let k ← pegText ids buf node
  let node ← next? node
  let node ← next? node
  let v ← pegText ids buf node
  pure (k, v)

def annLoop (ret : Anns) : T → W Anns
  | .nil => .ok ret
  | .node r b e up next =>
    if r = ids.rAnnotation then
      match parseAnnotation ids buf (.node r b e up next) with
      | .ok (k, v) => annLoop (annAppend ret k v) next
      | .err => .err
      | .panic => .panic
      | .crash => .crash
    else annLoop ret next

def parseAnnotations (node : T) : W Anns := do
  let node ← checkrule node ids.rAnnotations
  let node ← next? node
  annLoop ids buf [] node

/-! ### types -/

def Ty.setAnns : Ty → Anns → Ty
  | .none, _ => .none
  | .mk n k v c _, a => .mk n k v c a

/-- `cppType = p.pegText(node.up.next)` -/
def cppTypeText (node : T) : W Bytes := do
  let u ← up? node
  let n ← next? u
  pegText ids buf n

mutual
def parseFieldType : Nat → T → W Ty
  | 0, _ => .crash
  | fuel + 1, node => do
    let node ← checkrule node ids.rFieldType
    let r ← rule? node
    let typ ←
      if r = ids.rContainerType then parseContainerType fuel node
      else if r = ids.rIdentifier ∨ r = ids.rBaseType then do
        let s ← pegText ids buf node
        pure (Ty.mk s .none .none [] [])
      else .err
    let node ← next? node
    if isRule node ids.rAnnotations then do
      let a ← parseAnnotations ids buf node
      pure (typ.setAnns a)
    else pure typ

def parseContainerType : Nat → T → W Ty
  | 0, _ => .crash
  | fuel + 1, node => do
    let node ← checkrule node ids.rContainerType
    let r ← rule? node
    if r = ids.rMapType then do
      let node ← up? node
      let node ← next? node
      let r1 ← rule? node
      let (cpp, node) ← (if r1 = ids.rCppType then do
          let c ← cppTypeText ids buf node
          let n ← next? node
          pure (c, n)
        else pure ([], node) : W (Bytes × T))
      let node ← next? node
      let kt ← parseFieldType fuel node
      let node ← next? node
      let node ← next? node
      let vt ← parseFieldType fuel node
      pure (Ty.mk [109, 97, 112] kt vt cpp [])
    else if r = ids.rSetType then do
      let node ← up? node
      let node ← next? node
      let r1 ← rule? node
      let (cpp, node) ← (if r1 = ids.rCppType then do
          let c ← cppTypeText ids buf node
          let n ← next? node
          pure (c, n)
        else pure ([], node) : W (Bytes × T))
      let node ← next? node
      let vt ← parseFieldType fuel node
      pure (Ty.mk [115, 101, 116] .none vt cpp [])
    else if r = ids.rListType then do
      let node ← up? node
      let node ← next? node
      let node ← next? node
      let vt ← parseFieldType fuel node
      let node ← next? node
      let node ← next? node
      let cpp ← (if isRule node ids.rCppType then cppTypeText ids buf node else pure [] : W Bytes)
      pure (Ty.mk [108, 105, 115, 116] .none vt cpp [])
    else .err
end

/-! ### constant values -/

mutual
def parseConstValue : Nat → T → W CV
  | 0, _ => .crash
  | fuel + 1, node => do
    let node ← checkrule node ids.rConstValue
    let r ← rule? node
    if r = ids.rDoubleConstant then do
      -- text := p.pegText(node); for n := node.up; n != nil; n = n.next { if n.pegRule == rulePegText { text = TrimRight(string(buffer[n.begin:n.end]), " \t\v"); break } }
      let s ← pegText ids buf node
      let n ← up? node
      let c := findCap ids n
      if isNil c then pure (.dbl s)
      else do
        let t ← rawText buf c
        pure (.dbl (trimRightBlank t))
    else if r = ids.rIntConstant then do
      let s ← pegText ids buf node
      let (v, bad) := GoStrconv.parseInt s 0 64
      if bad then .err else pure (.int v)
    else if r = ids.rLiteral then do
      let s ← pegText ids buf node
      pure (.lit s)
    else if r = ids.rIdentifier then do
      let s ← pegText ids buf node
      pure (.ident s)
    else if r = ids.rConstList then do
      let n ← up? node
      let xs ← constListLoop fuel n
      pure (.list xs)
    else if r = ids.rConstMap then do
      let node ← up? node
      let n ← next? node
      let kvs ← constMapLoop fuel n
      pure (.map kvs)
    else .err

/-- `for n := node.up; n != nil; n = n.next { if n.pegRule == ruleConstValue {…} }` -/
def constListLoop : Nat → T → W (List CV)
  | 0, _ => .crash
  | _, .nil => .ok []
  | fuel + 1, .node r b e up next =>
    if r = ids.rConstValue then do
      let v ← parseConstValue fuel (.node r b e up next)
      let rest ← constListLoop fuel next
      pure (v :: rest)
    else constListLoop fuel next

/-- the ConstMap loop: key at `n`, value at `n.next.next`, then `n = n.next` from the value -/
def constMapLoop : Nat → T → W (List (CV × CV))
  | 0, _ => .crash
  | _, .nil => .ok []
  | fuel + 1, .node r b e up next =>
    if r ≠ ids.rConstValue then constMapLoop fuel next
    else do
      let k ← parseConstValue fuel (.node r b e up next)
      let n ← next? next
      let v ← parseConstValue fuel n
      let n ← next? n
      let rest ← constMapLoop fuel n
      pure ((k, v) :: rest)
end

/-! ### fields -/

/-- `addField` of util.go and its three inlined copies -/
def addField (fields : List Field) (f : Field) : List Field :=
  let f := if f.id = NOTSET then
      match fields.getLast? with
      | some l => { f with id := wrap32 (l.id + 1) }
      | none => { f with id := 1 }
    else f
  fields ++ [f]

def reqOf (s : Bytes) : Nat :=
  if s = [114, 101, 113, 117, 105, 114, 101, 100] then 1
  else if s = [111, 112, 116, 105, 111, 110, 97, 108] then 2
  else 0

/-- the `for ; node != nil; node = node.next` loop of parseField -/
def fieldLoop (fuel : Nat) (f : Field) : T → W Field
  | .nil => .ok f
  | .node r b e up next =>
    let node := T.node r b e up next
    if r = ids.rSkip ∨ r = ids.rSkipLine then fieldLoop fuel f next
    else if r = ids.rReservedComments then
      match parseReservedComments ids buf node ids.rReservedComments with
      | .ok c => fieldLoop fuel { f with comments := c } next
      | .err => .err | .panic => .panic | .crash => .crash
    else if r = ids.rReservedEndLineComments then
      match parseReservedComments ids buf node ids.rReservedEndLineComments with
      | .ok c => fieldLoop fuel (if f.comments = [] then { f with comments := c } else f) next
      | .err => .err | .panic => .panic | .crash => .crash
    else if r = ids.rFieldId then
      match pegText ids buf node with
      | .ok s =>
        match fieldIdOf s with
        | some v => fieldLoop fuel { f with id := v } next
        | none => .err
      | .err => .err | .panic => .panic | .crash => .crash
    else if r = ids.rFieldReq then
      match pegText ids buf node with
      | .ok s => fieldLoop fuel { f with req := reqOf s } next
      | .err => .err | .panic => .panic | .crash => .crash
    else if r = ids.rFieldType then
      match parseFieldType ids buf fuel node with
      | .ok t => fieldLoop fuel { f with ty := t } next
      | .err => .err | .panic => .panic | .crash => .crash
    else if r = ids.rIdentifier then
      match pegText ids buf node with
      | .ok s => fieldLoop fuel { f with name := s } next
      | .err => .err | .panic => .panic | .crash => .crash
    else if r = ids.rEQUAL then
      -- node = node.next; parseConstValue(node); then the loop's node = node.next
      match next with
      | .nil => .panic
      | .node r' b' e' up' next' =>
        match parseConstValue ids buf fuel (.node r' b' e' up' next') with
        | .ok v => fieldLoop fuel { f with dflt := some v } next'
        | .err => .err | .panic => .panic | .crash => .crash
    else if r = ids.rAnnotations then
      match parseAnnotations ids buf node with
      | .ok a => fieldLoop fuel { f with anns := a } next
      | .err => .err | .panic => .panic | .crash => .crash
    else fieldLoop fuel f next

def emptyField : Field :=
  { id := NOTSET, name := [], req := 0, ty := .none, dflt := none, anns := [], comments := [] }

def parseField (fuel : Nat) (node : T) : W Field := do
  let node ← checkrule node ids.rField
  fieldLoop ids buf fuel emptyField node

/-- `for …; n != nil; n = n.next { if n.pegRule == ruleField {…} }` with the numbering rule;
`post` is what parseThrows does to every field before numbering -/
def fieldsLoop (fuel : Nat) (post : Field → Field) (fields : List Field) : T → W (List Field)
  | .nil => .ok fields
  | .node r b e up next =>
    if r = ids.rField then
      match parseField ids buf fuel (.node r b e up next) with
      | .ok f => fieldsLoop fuel post (addField fields (post f)) next
      | .err => .err | .panic => .panic | .crash => .crash
    else fieldsLoop fuel post fields next

/-! ### definitions -/

def parseInclude (t : Thrift) (node : T) : W Thrift := do
  let node ← checkrule node ids.rInclude
  let filename ← pegText ids buf node
  if filename = [] then pure t
  else if t.includes.contains filename then pure t
  else pure { t with includes := t.includes ++ [filename] }

def parseCppInclude (t : Thrift) (node : T) : W Thrift := do
  let node ← checkrule node ids.rCppInclude
  let s ← pegText ids buf node
  pure { t with cppIncludes := t.cppIncludes ++ [s] }

def parseNamespace (t : Thrift) (node : T) : W Thrift := do
  let node ← checkrule node ids.rNamespace
  let node ← next? node
  let lang ← pegText ids buf (← up? node)
  let node ← next? node
  let name ← pegText ids buf (← up? node)
  let node ← next? node
  let anns ← (if isRule node ids.rAnnotations then parseAnnotations ids buf node else pure [] : W Anns)
  pure { t with namespaces := t.namespaces ++ [{ lang := lang, name := name, anns := anns }] }

def parseHeader (t : Thrift) (node : T) : W Thrift := do
  let node ← checkrule node ids.rHeader
  let r ← rule? node
  let node ← (if r = ids.rSkip then next? node else pure node : W T)
  let r ← rule? node
  if r = ids.rInclude then parseInclude ids buf t node
  else if r = ids.rNamespace then parseNamespace ids buf t node
  else if r = ids.rCppInclude then parseCppInclude ids buf t node
  else .err

inductive Def where
  | const (c : Constant)
  | typedef (d : Typedef)
  | enum (e : Enum)
  | service (s : Service)
  | slike (s : StructLike)

def parseConst (fuel : Nat) (cm : Bytes) (node : T) : W Constant := do
  let node ← checkrule node ids.rConst
  let node ← next? node
  let ft ← parseFieldType ids buf fuel node
  let node ← next? node
  let name ← pegText ids buf node
  let node ← next? node
  let node ← next? node
  let value ← parseConstValue ids buf fuel node
  pure { name := name, ty := ft, value := value, anns := [], comments := cm }

def parseTypedef (fuel : Nat) (cm : Bytes) (node : T) : W Typedef := do
  let node ← checkrule node ids.rTypedef
  let node ← next? node
  let ft ← parseFieldType ids buf fuel node
  let node ← next? node
  let al ← pegText ids buf node
  pure { ty := ft, alias := al, anns := [], comments := cm }

/-- `n.next.pegRule` (both dereferences) together with `n.next` -/
def peekNext (n : T) : W (Nat × T) := do
  let nx ← next? n
  let r ← rule? nx
  pure (r, nx)

/-- value of an enum member written without `= n`: 0 for the first, previous + 1 (int64 arithmetic) otherwise -/
def implicitEnumValue (values : List EnumValue) : Int :=
  match values.getLast? with
  | none => 0
  | some l => wrap64 (l.value + 1)

/-- the body of the enum loop for one `n` that is an Identifier; returns the value and the node the loop
continues from -/
def enumValueAt (values : List EnumValue) (valueComments : Bytes) (n : T) : W (EnumValue × T) := do
  let name ← pegText ids buf n
  let (r1, nx) ← peekNext n
  let (value, n) ← (if r1 = ids.rEQUAL then do
      let n2 ← next? nx
      let s ← pegText ids buf n2
      match enumValueOf s with
      | some v => pure (v, n2)
      | none => .err
    else pure (implicitEnumValue values, n) : W (Int × T))
  let (r2, nx) ← peekNext n
  let (anns, n) ← (if r2 = ids.rAnnotations then do
      let a ← parseAnnotations ids buf nx
      pure (a, nx)
    else pure ([], n) : W (Anns × T))
  let (r3, nx) ← peekNext n
  let n := if r3 = ids.rListSeparator then nx else n
  let (r4, nx) ← peekNext n
  if r4 = ids.rReservedEndLineComments ∧ valueComments = [] then do
    let c ← parseReservedComments ids buf nx ids.rReservedEndLineComments
    pure ({ name := name, value := value, anns := anns, comments := c }, nx)
  else
    pure ({ name := name, value := value, anns := anns, comments := valueComments }, n)

/-- `for n := node.next.next; n != nil; n = n.next {…}` of parseEnum; `fuel` bounds the iterations
(the cursor moves irregularly), one per sibling suffices -/
def enumLoop : Nat → List EnumValue → T → W (List EnumValue)
  | 0, _, _ => .crash
  | _, values, .nil => .ok values
  | fuel + 1, values, n => do
    let r ← rule? n
    let (valueComments, n) ← (if r = ids.rReservedComments then do
        let c ← parseReservedComments ids buf n ids.rReservedComments
        let n' ← next? n
        pure (c, n')
      else pure ([], n) : W (Bytes × T))
    let r ← rule? n
    if r = ids.rIdentifier then do
      let (v, n) ← enumValueAt ids buf values valueComments n
      let n ← next? n
      enumLoop fuel (values ++ [v]) n
    else do
      let n ← next? n
      enumLoop fuel values n

def chainLen : T → Nat
  | .nil => 0
  | .node _ _ _ _ n => chainLen n + 1

def parseEnum (cm : Bytes) (node : T) : W Enum := do
  let node ← checkrule node ids.rEnum
  let node ← next? node
  let name ← pegText ids buf node
  let n ← next? node
  let n ← next? n
  let values ← enumLoop ids buf (chainLen n + 1) [] n
  pure { name := name, values := values, anns := [], comments := cm }

/-- parseStruct / parseUnion: name from the node after the keyword, fields from the node after LWING -/
def parseStructLike (fuel : Nat) (cat rule : Nat) (cm : Bytes) (node : T) : W StructLike := do
  let node ← checkrule node rule
  let node ← next? node
  let name ← pegText ids buf node
  let node ← next? node
  let n ← next? node
  let fields ← fieldsLoop ids buf fuel id [] n
  pure { category := cat, name := name, fields := fields, anns := [], comments := cm }

/-- parseException: the loop starts one node earlier (at LWING) -/
def parseException (fuel : Nat) (cm : Bytes) (node : T) : W StructLike := do
  let node ← checkrule node ids.rException
  let node ← next? node
  let name ← pegText ids buf node
  let n ← next? node
  let fields ← fieldsLoop ids buf fuel id [] n
  pure { category := 2, name := name, fields := fields, anns := [], comments := cm }

def parseThrows (fuel : Nat) (node : T) : W (List Field) := do
  let node ← checkrule node ids.rThrows
  let node ← next? node
  fieldsLoop ids buf fuel (fun f => { f with req := 2 }) [] node

def emptyFunction : Function :=
  { name := [], oneway := false, void := false, ty := .none, args := [], throws := [], anns := [], comments := [] }

def functionLoop (fuel : Nat) (f : Function) : T → W Function
  | .nil => .ok f
  | .node r b e up next =>
    let node := T.node r b e up next
    if r = ids.rReservedComments then
      match parseReservedComments ids buf node ids.rReservedComments with
      | .ok c => functionLoop fuel { f with comments := c } next
      | .err => .err | .panic => .panic | .crash => .crash
    else if r = ids.rONEWAY then functionLoop fuel { f with oneway := true } next
    else if r = ids.rFunctionType then
      match up with
      | .nil => .panic
      | .node r1 b1 e1 up1 next1 =>
        if r1 = ids.rFieldType then
          match parseFieldType ids buf fuel (.node r1 b1 e1 up1 next1) with
          | .ok t => functionLoop fuel { f with ty := t } next
          | .err => .err | .panic => .panic | .crash => .crash
        else if r1 = ids.rVOID then
          functionLoop fuel { f with void := true, ty := .mk [118, 111, 105, 100] .none .none [] [] } next
        else functionLoop fuel f next
    else if r = ids.rIdentifier then
      match pegText ids buf node with
      | .ok s => functionLoop fuel { f with name := s } next
      | .err => .err | .panic => .panic | .crash => .crash
    else if r = ids.rField then
      match parseField ids buf fuel node with
      | .ok fd => functionLoop fuel { f with args := addField f.args fd } next
      | .err => .err | .panic => .panic | .crash => .crash
    else if r = ids.rThrows then
      match parseThrows ids buf fuel node with
      | .ok fs => functionLoop fuel { f with throws := fs } next
      | .err => .err | .panic => .panic | .crash => .crash
    else if r = ids.rAnnotations then
      match parseAnnotations ids buf node with
      | .ok a => functionLoop fuel { f with anns := a } next
      | .err => .err | .panic => .panic | .crash => .crash
    else functionLoop fuel f next

def parseFunction (fuel : Nat) (node : T) : W Function := do
  let node ← checkrule node ids.rFunction
  functionLoop ids buf fuel emptyFunction node

def functionsLoop (fuel : Nat) (fs : List Function) : T → W (List Function)
  | .nil => .ok fs
  | .node r b e up next =>
    if r = ids.rFunction then
      match parseFunction ids buf fuel (.node r b e up next) with
      | .ok f => functionsLoop fuel (fs ++ [f]) next
      | .err => .err | .panic => .panic | .crash => .crash
    else functionsLoop fuel fs next

def parseService (fuel : Nat) (cm : Bytes) (node : T) : W Service := do
  let node ← checkrule node ids.rService
  let node ← next? node
  let name ← pegText ids buf node
  let node ← next? node
  let r ← rule? node
  let (ext, node) ← (if r = ids.rEXTENDS then do
      let s ← pegText ids buf node
      let n ← next? node
      pure (s, n)
    else pure ([], node) : W (Bytes × T))
  let node ← next? node
  let fs ← functionsLoop ids buf fuel [] node
  pure { name := name, ext := ext, functions := fs, anns := [], comments := cm }

def addDef (t : Thrift) (anns : Option Anns) : Def → Thrift
  | .const c => { t with constants := t.constants ++ [match anns with | some a => { c with anns := a } | none => c] }
  | .typedef d => { t with typedefs := t.typedefs ++ [match anns with | some a => { d with anns := a } | none => d] }
  | .enum e => { t with enums := t.enums ++ [match anns with | some a => { e with anns := a } | none => e] }
  | .service s => { t with services := t.services ++ [match anns with | some a => { s with anns := a } | none => s] }
  | .slike s =>
    let s := match anns with | some a => { s with anns := a } | none => s
    if s.category = 0 then { t with structs := t.structs ++ [s] }
    else if s.category = 1 then { t with unions := t.unions ++ [s] }
    else { t with exceptions := t.exceptions ++ [s] }

def parseDefinition (fuel : Nat) (t : Thrift) (node : T) : W Thrift := do
  let node ← checkrule node ids.rDefinition
  let r ← rule? node
  let (cm, node) ← (if r = ids.rReservedComments then do
      let c ← parseReservedComments ids buf node ids.rReservedComments
      let n ← next? node
      pure (c, n)
    else pure ([], node) : W (Bytes × T))
  let r ← rule? node
  let node ← (if r = ids.rSkip then next? node else pure node : W T)
  let r ← rule? node
  let d ← (
    if r = ids.rConst then do pure (Def.const (← parseConst ids buf fuel cm node))
    else if r = ids.rTypedef then do pure (Def.typedef (← parseTypedef ids buf fuel cm node))
    else if r = ids.rEnum then do pure (Def.enum (← parseEnum ids buf cm node))
    else if r = ids.rUnion then do pure (Def.slike (← parseStructLike ids buf fuel 1 ids.rUnion cm node))
    else if r = ids.rStruct then do pure (Def.slike (← parseStructLike ids buf fuel 0 ids.rStruct cm node))
    else if r = ids.rException then do pure (Def.slike (← parseException ids buf fuel cm node))
    else if r = ids.rService then do pure (Def.service (← parseService ids buf fuel cm node))
    else .err : W Def)
  let node ← next? node
  if isRule node ids.rAnnotations then do
    let a ← parseAnnotations ids buf node
    pure (addDef t (some a) d)
  else pure (addDef t none d)

/-- the loop of `(*parser).parse` over `root.up` -/
def docLoop (fuel : Nat) (t : Thrift) : T → W Thrift
  | .nil => .ok t
  | .node r b e up next =>
    if r = ids.rSkip ∨ r = ids.rSkipLine then docLoop fuel t next
    else if r = ids.rHeader then
      match parseHeader ids buf t (.node r b e up next) with
      | .ok t' => docLoop fuel t' next
      | .err => .err | .panic => .panic | .crash => .crash
    else if r = ids.rDefinition then
      match parseDefinition ids buf fuel t (.node r b e up next) with
      | .ok t' => docLoop fuel t' next
      | .err => .err | .panic => .panic | .crash => .crash
    else .err

def treeSize : T → Nat
  | .nil => 0
  | .node _ _ _ up next => treeSize up + treeSize next + 1

/-- `(*parser).parse` on the result of `p.AST()` -/
def walk (root : T) : W Thrift :=
  match root with
  | .nil => .ok {}          -- an empty document: no node at all
  | .node r _ _ up _ =>
    if r ≠ ids.rDocument then .err
    else docLoop ids buf (treeSize root + 1) {} up

end Walker

namespace C03
open Peg Walker

inductive Outcome where
  | parseError
  | walkError
  | panic
  | crash
  | ok (t : Thrift)

/-- `parser.ParseString(_, content)`: decode, match, build the tree, walk it -/
def parseString (g : Grammar) (ids : Ids) (content : Bytes) : Outcome :=
  let rs := Utf8.decode content
  match parseRunes g rs with
  | .oof => .crash
  | .fail => .parseError
  | .ok _ _ t =>
    match walk ids (rs ++ [1114112]).toArray (prune t) with
    | .ok a => .ok a
    | .err => .walkError
    | .panic => .panic
    | .crash => .crash

end C03
