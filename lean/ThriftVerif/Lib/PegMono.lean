import ThriftVerif.Lib.PegLemmas
/-
  Fuel monotonicity of `Peg.run`: a result other than `oof` does not depend on the fuel.  With `peg_total`
  this makes `∃ fuel, run … = ok …` statements about token rules statements about `p.Parse()` itself.
-/
namespace Peg

theorem run_mono {g : Grammar} : ∀ (fuel : Nat) (e : Expr) (pos : Nat) (s : List Nat) (r : Res),
    run g fuel e pos s = r → r ≠ .oof → ∀ fuel', fuel ≤ fuel' → run g fuel' e pos s = r := by
  intro fuel
  induction fuel with
  | zero => intro e pos s r h hr; simp [run] at h; exact absurd h.symm hr
  | succ fuel ih =>
    intro e pos s r h hr fuel' hle
    obtain ⟨f', rfl⟩ : ∃ f', fuel' = f' + 1 := ⟨fuel' - 1, by omega⟩
    have hle' : fuel ≤ f' := by omega
    -- a sub-run that is not `oof` is the same with more fuel
    have sub : ∀ (e' : Expr) (p : Nat) (s' : List Nat), run g fuel e' p s' ≠ .oof → run g f' e' p s' = run g fuel e' p s' :=
      fun e' p s' hne => ih e' p s' _ rfl hne f' hle'
    cases e with
    | eps => simpa [run] using h
    | rng lo hi => cases s <;> simpa [run] using h
    | any => cases s <;> simpa [run] using h
    | call r' =>
      simp only [run] at h ⊢
      cases hb : g.rules[r']? with
      | none => simpa [hb] using h
      | some body =>
        simp only [hb] at h ⊢
        cases hx : run g fuel body pos s with
        | oof => simp [hx] at h; exact absurd h.symm hr
        | fail => rw [sub body pos s (by simp [hx]), hx]; simpa [hx] using h
        | ok p1 s1 t1 => rw [sub body pos s (by simp [hx]), hx]; simpa [hx] using h
    | seq a b =>
      simp only [run] at h ⊢
      cases hx : run g fuel a pos s with
      | oof => simp [hx] at h; exact absurd h.symm hr
      | fail => rw [sub a pos s (by simp [hx]), hx]; simpa [hx] using h
      | ok p1 s1 t1 =>
        rw [sub a pos s (by simp [hx]), hx]
        simp only [hx] at h ⊢
        cases hy : run g fuel b p1 s1 with
        | oof => simp [hy] at h; exact absurd h.symm hr
        | fail => rw [sub b p1 s1 (by simp [hy]), hy]; simpa [hy] using h
        | ok p2 s2 t2 => rw [sub b p1 s1 (by simp [hy]), hy]; simpa [hy] using h
    | alt a b =>
      simp only [run] at h ⊢
      cases hx : run g fuel a pos s with
      | oof => simp [hx] at h; exact absurd h.symm hr
      | ok p1 s1 t1 => rw [sub a pos s (by simp [hx]), hx]; simpa [hx] using h
      | fail =>
        rw [sub a pos s (by simp [hx]), hx]
        simp only [hx] at h ⊢
        have hne : run g fuel b pos s ≠ .oof := by rw [h]; exact hr
        rw [sub b pos s hne]; exact h
    | star e =>
      simp only [run] at h ⊢
      cases hx : run g fuel e pos s with
      | oof => simp [hx] at h; exact absurd h.symm hr
      | fail => rw [sub e pos s (by simp [hx]), hx]; simpa [hx] using h
      | ok p1 s1 t1 =>
        rw [sub e pos s (by simp [hx]), hx]
        simp only [hx] at h ⊢
        cases hy : run g fuel (.star e) p1 s1 with
        | oof => simp [hy] at h; exact absurd h.symm hr
        | fail => rw [sub (.star e) p1 s1 (by simp [hy]), hy]; simpa [hy] using h
        | ok p2 s2 t2 => rw [sub (.star e) p1 s1 (by simp [hy]), hy]; simpa [hy] using h
    | plus e =>
      simp only [run] at h ⊢
      cases hx : run g fuel e pos s with
      | oof => simp [hx] at h; exact absurd h.symm hr
      | fail => rw [sub e pos s (by simp [hx]), hx]; simpa [hx] using h
      | ok p1 s1 t1 =>
        rw [sub e pos s (by simp [hx]), hx]
        simp only [hx] at h ⊢
        cases hy : run g fuel (.star e) p1 s1 with
        | oof => simp [hy] at h; exact absurd h.symm hr
        | fail => rw [sub (.star e) p1 s1 (by simp [hy]), hy]; simpa [hy] using h
        | ok p2 s2 t2 => rw [sub (.star e) p1 s1 (by simp [hy]), hy]; simpa [hy] using h
    | opt e =>
      simp only [run] at h ⊢
      cases hx : run g fuel e pos s with
      | oof => simp [hx] at h; exact absurd h.symm hr
      | fail => rw [sub e pos s (by simp [hx]), hx]; simpa [hx] using h
      | ok p1 s1 t1 => rw [sub e pos s (by simp [hx]), hx]; simpa [hx] using h
    | notP e =>
      simp only [run] at h ⊢
      cases hx : run g fuel e pos s with
      | oof => simp [hx] at h; exact absurd h.symm hr
      | fail => rw [sub e pos s (by simp [hx]), hx]; simpa [hx] using h
      | ok p1 s1 t1 => rw [sub e pos s (by simp [hx]), hx]; simpa [hx] using h
    | andP e =>
      simp only [run] at h ⊢
      cases hx : run g fuel e pos s with
      | oof => simp [hx] at h; exact absurd h.symm hr
      | fail => rw [sub e pos s (by simp [hx]), hx]; simpa [hx] using h
      | ok p1 s1 t1 => rw [sub e pos s (by simp [hx]), hx]; simpa [hx] using h
    | cap e =>
      simp only [run] at h ⊢
      cases hx : run g fuel e pos s with
      | oof => simp [hx] at h; exact absurd h.symm hr
      | fail => rw [sub e pos s (by simp [hx]), hx]; simpa [hx] using h
      | ok p1 s1 t1 => rw [sub e pos s (by simp [hx]), hx]; simpa [hx] using h

end Peg

namespace Peg

/-- fuel-free view of the matcher: some fuel gives the result `r`, and `r` is not fuel exhaustion -/
def Runs (g : Grammar) (e : Expr) (pos : Nat) (s : List Nat) (r : Res) : Prop :=
  ∃ fuel, run g fuel e pos s = r ∧ r ≠ .oof

theorem Runs.at_least {g : Grammar} {e : Expr} {pos : Nat} {s : List Nat} {r : Res} (h : Runs g e pos s r) (m : Nat) :
    ∃ fuel, m ≤ fuel ∧ run g fuel e pos s = r := by
  obtain ⟨f, hf, hr⟩ := h
  exact ⟨max f m, Nat.le_max_right _ _, run_mono f e pos s r hf hr _ (Nat.le_max_left _ _)⟩

/-- the result does not depend on the fuel: in particular it is the one `parseRunes` computes -/
theorem Runs.unique {g : Grammar} {e : Expr} {pos : Nat} {s : List Nat} {r1 r2 : Res}
    (h1 : Runs g e pos s r1) (h2 : Runs g e pos s r2) : r1 = r2 := by
  obtain ⟨f1, hf1, hr1⟩ := h1
  obtain ⟨f2, hf2, hr2⟩ := h2
  have a := run_mono f1 e pos s r1 hf1 hr1 (max f1 f2) (Nat.le_max_left _ _)
  have b := run_mono f2 e pos s r2 hf2 hr2 (max f1 f2) (Nat.le_max_right _ _)
  rw [← a, ← b]

theorem Runs.of_fuel {g : Grammar} {e : Expr} {pos : Nat} {s : List Nat} {r : Res} {fuel : Nat}
    (h : run g fuel e pos s = r) (hr : r ≠ .oof) : Runs g e pos s r := ⟨fuel, h, hr⟩

section
variable {g : Grammar}

theorem Runs.eps {pos : Nat} {s : List Nat} : Runs g .eps pos s (.ok pos s .nil) := ⟨1, by simp [run], by simp⟩

theorem Runs.rng_ok {lo hi c pos : Nat} {r : List Nat} (h : lo ≤ c ∧ c ≤ hi) :
    Runs g (.rng lo hi) pos (c :: r) (.ok (pos + 1) r .nil) := ⟨1, by simp [run, h], by simp⟩

theorem Runs.rng_fail {lo hi c pos : Nat} {r : List Nat} (h : ¬ (lo ≤ c ∧ c ≤ hi)) :
    Runs g (.rng lo hi) pos (c :: r) .fail := ⟨1, by simp [run, h], by simp⟩

theorem Runs.rng_nil {lo hi pos : Nat} : Runs g (.rng lo hi) pos [] .fail := ⟨1, by simp [run], by simp⟩

theorem Runs.any_ok {c pos : Nat} {r : List Nat} : Runs g .any pos (c :: r) (.ok (pos + 1) r .nil) := ⟨1, by simp [run], by simp⟩

theorem Runs.any_nil {pos : Nat} : Runs g .any pos [] .fail := ⟨1, by simp [run], by simp⟩

theorem Runs.call_ok {r pos p' : Nat} {s s' : List Nat} {t : T} {body : Expr} (hb : g.rules[r]? = some body)
    (h : Runs g body pos s (.ok p' s' t)) : Runs g (.call r) pos s (.ok p' s' (.node r pos p' t .nil)) := by
  obtain ⟨f, hf, _⟩ := h
  exact ⟨f + 1, by simp [run, hb, hf], by simp⟩

theorem Runs.call_fail {r pos : Nat} {s : List Nat} {body : Expr} (hb : g.rules[r]? = some body)
    (h : Runs g body pos s .fail) : Runs g (.call r) pos s .fail := by
  obtain ⟨f, hf, _⟩ := h
  exact ⟨f + 1, by simp [run, hb, hf], by simp⟩

theorem Runs.seq_ok {a b : Expr} {pos p1 p2 : Nat} {s s1 s2 : List Nat} {t1 t2 : T}
    (ha : Runs g a pos s (.ok p1 s1 t1)) (hb : Runs g b p1 s1 (.ok p2 s2 t2)) :
    Runs g (.seq a b) pos s (.ok p2 s2 (t1.append t2)) := by
  obtain ⟨fa, hfa, _⟩ := ha
  obtain ⟨fb, hm, hfb⟩ := hb.at_least fa
  have := run_mono fa a pos s _ hfa (by simp) fb hm
  exact ⟨fb + 1, by simp [run, this, hfb], by simp⟩

theorem Runs.seq_fail1 {a b : Expr} {pos : Nat} {s : List Nat} (ha : Runs g a pos s .fail) : Runs g (.seq a b) pos s .fail := by
  obtain ⟨fa, hfa, _⟩ := ha
  exact ⟨fa + 1, by simp [run, hfa], by simp⟩

theorem Runs.seq_fail2 {a b : Expr} {pos p1 : Nat} {s s1 : List Nat} {t1 : T}
    (ha : Runs g a pos s (.ok p1 s1 t1)) (hb : Runs g b p1 s1 .fail) : Runs g (.seq a b) pos s .fail := by
  obtain ⟨fa, hfa, _⟩ := ha
  obtain ⟨fb, hm, hfb⟩ := hb.at_least fa
  have := run_mono fa a pos s _ hfa (by simp) fb hm
  exact ⟨fb + 1, by simp [run, this, hfb], by simp⟩

theorem Runs.alt_l {a b : Expr} {pos p1 : Nat} {s s1 : List Nat} {t1 : T} (ha : Runs g a pos s (.ok p1 s1 t1)) :
    Runs g (.alt a b) pos s (.ok p1 s1 t1) := by
  obtain ⟨fa, hfa, _⟩ := ha
  exact ⟨fa + 1, by simp [run, hfa], by simp⟩

theorem Runs.alt_r {a b : Expr} {pos : Nat} {s : List Nat} {r : Res} (ha : Runs g a pos s .fail) (hb : Runs g b pos s r) :
    Runs g (.alt a b) pos s r := by
  obtain ⟨fa, hfa, _⟩ := ha
  have hbr : r ≠ .oof := by obtain ⟨_, _, h⟩ := hb; exact h
  obtain ⟨fb, hm, hfb⟩ := hb.at_least fa
  have := run_mono fa a pos s _ hfa (by simp) fb hm
  exact ⟨fb + 1, by simp [run, this, hfb], hbr⟩

theorem Runs.star_nil {e : Expr} {pos : Nat} {s : List Nat} (he : Runs g e pos s .fail) :
    Runs g (.star e) pos s (.ok pos s .nil) := by
  obtain ⟨f, hf, _⟩ := he
  exact ⟨f + 1, by simp [run, hf], by simp⟩

theorem Runs.star_cons {e : Expr} {pos p1 p2 : Nat} {s s1 s2 : List Nat} {t1 t2 : T}
    (he : Runs g e pos s (.ok p1 s1 t1)) (hs : Runs g (.star e) p1 s1 (.ok p2 s2 t2)) :
    Runs g (.star e) pos s (.ok p2 s2 (t1.append t2)) := by
  obtain ⟨fa, hfa, _⟩ := he
  obtain ⟨fb, hm, hfb⟩ := hs.at_least fa
  have := run_mono fa e pos s _ hfa (by simp) fb hm
  exact ⟨fb + 1, by simp [run, this, hfb], by simp⟩

theorem Runs.plus_ok {e : Expr} {pos p1 p2 : Nat} {s s1 s2 : List Nat} {t1 t2 : T}
    (he : Runs g e pos s (.ok p1 s1 t1)) (hs : Runs g (.star e) p1 s1 (.ok p2 s2 t2)) :
    Runs g (.plus e) pos s (.ok p2 s2 (t1.append t2)) := by
  obtain ⟨fa, hfa, _⟩ := he
  obtain ⟨fb, hm, hfb⟩ := hs.at_least fa
  have := run_mono fa e pos s _ hfa (by simp) fb hm
  exact ⟨fb + 1, by simp [run, this, hfb], by simp⟩

theorem Runs.plus_fail {e : Expr} {pos : Nat} {s : List Nat} (he : Runs g e pos s .fail) : Runs g (.plus e) pos s .fail := by
  obtain ⟨f, hf, _⟩ := he
  exact ⟨f + 1, by simp [run, hf], by simp⟩

theorem Runs.opt_some {e : Expr} {pos p1 : Nat} {s s1 : List Nat} {t1 : T} (he : Runs g e pos s (.ok p1 s1 t1)) :
    Runs g (.opt e) pos s (.ok p1 s1 t1) := by
  obtain ⟨f, hf, _⟩ := he
  exact ⟨f + 1, by simp [run, hf], by simp⟩

theorem Runs.opt_none {e : Expr} {pos : Nat} {s : List Nat} (he : Runs g e pos s .fail) :
    Runs g (.opt e) pos s (.ok pos s .nil) := by
  obtain ⟨f, hf, _⟩ := he
  exact ⟨f + 1, by simp [run, hf], by simp⟩

theorem Runs.not_ok {e : Expr} {pos : Nat} {s : List Nat} (he : Runs g e pos s .fail) :
    Runs g (.notP e) pos s (.ok pos s .nil) := by
  obtain ⟨f, hf, _⟩ := he
  exact ⟨f + 1, by simp [run, hf], by simp⟩

theorem Runs.not_fail {e : Expr} {pos p1 : Nat} {s s1 : List Nat} {t1 : T} (he : Runs g e pos s (.ok p1 s1 t1)) :
    Runs g (.notP e) pos s .fail := by
  obtain ⟨f, hf, _⟩ := he
  exact ⟨f + 1, by simp [run, hf], by simp⟩

theorem Runs.cap_ok {e : Expr} {pos p1 : Nat} {s s1 : List Nat} {t1 : T} (he : Runs g e pos s (.ok p1 s1 t1)) :
    Runs g (.cap e) pos s (.ok p1 s1 (.node g.pegText pos p1 t1 .nil)) := by
  obtain ⟨f, hf, _⟩ := he
  exact ⟨f + 1, by simp [run, hf], by simp⟩

theorem Runs.cap_fail {e : Expr} {pos : Nat} {s : List Nat} (he : Runs g e pos s .fail) : Runs g (.cap e) pos s .fail := by
  obtain ⟨f, hf, _⟩ := he
  exact ⟨f + 1, by simp [run, hf], by simp⟩

end

end Peg
