/-
  C17 helper lemmas, numbers: `%d` output read back by the IntConstant rule + `strconv.ParseInt(·, 0, 64)`,
  `FormatFloat(·, 'f', -1, 64)` output read back by DoubleConstant / IntConstant.
-/
import ThriftVerif.Lib.Dump

namespace Dump

/-- `rest` begins with a byte on which `p` is false, or is empty -/
def stops (p : Nat → Bool) : Bytes → Prop
  | [] => True
  | c :: _ => p c = false

theorem spanP_append (p : Nat → Bool) (ds rest : Bytes) (hd : ds.all p = true) (hr : stops p rest) :
    spanP p (ds ++ rest) = (ds, rest) := by
  induction ds with
  | nil =>
    cases rest with
    | nil => rfl
    | cons c r => simp only [stops] at hr; simp [spanP, hr]
  | cons d ds ih =>
    simp only [List.all_cons, Bool.and_eq_true] at hd
    simp [spanP, hd.1, ih hd.2]

theorem decDigits_lt (n : Nat) (h : n < 10) : decDigits n = [48 + n] := by
  rw [decDigits]; simp [h]

theorem decDigits_ge (n : Nat) (h : ¬ n < 10) : decDigits n = decDigits (n / 10) ++ [48 + n % 10] := by
  rw [decDigits]; simp [h]

theorem decVal_snoc (a : Bytes) (d : Nat) : decVal (a ++ [d]) = decVal a * 10 + (d - 48) := by
  simp [decVal, List.foldl_append]

theorem decVal_decDigits (n : Nat) : decVal (decDigits n) = n := by
  induction n using Nat.strongRecOn with
  | _ n ih =>
    by_cases h : n < 10
    · rw [decDigits_lt n h]; simp [decVal]
    · rw [decDigits_ge n h, decVal_snoc, ih (n / 10) (by omega)]; omega

theorem decDigits_all (n : Nat) : (decDigits n).all isDigit = true := by
  induction n using Nat.strongRecOn with
  | _ n ih =>
    by_cases h : n < 10
    · rw [decDigits_lt n h]; simp [isDigit]; omega
    · rw [decDigits_ge n h]
      simp only [List.all_append, ih (n / 10) (by omega), Bool.true_and, List.all_cons, List.all_nil, Bool.and_true]
      simp [isDigit]; omega

/-- canonical decimal text: non-empty, digits only, no leading zero except for "0" itself -/
def Canon (ds : Bytes) : Prop := ds.all isDigit = true ∧ ∃ d r, ds = d :: r ∧ (d = 48 → r = [])

theorem decDigits_canon (n : Nat) : Canon (decDigits n) := by
  refine ⟨decDigits_all n, ?_⟩
  induction n using Nat.strongRecOn with
  | _ n ih =>
    by_cases h : n < 10
    · rw [decDigits_lt n h]; exact ⟨48 + n, [], rfl, fun _ => rfl⟩
    · rw [decDigits_ge n h]
      obtain ⟨d, r, hdr, hz⟩ := ih (n / 10) (by omega)
      refine ⟨d, r ++ [48 + n % 10], by simp [hdr], ?_⟩
      intro hd
      -- a leading zero would make n / 10 = 0
      have hr := hz hd
      have : decVal (decDigits (n / 10)) = 0 := by rw [hdr, hd, hr]; rfl
      rw [decVal_decDigits] at this
      omega

def Sep : Bytes → Prop
  | [] => True
  | c :: _ => isDigit c = false ∧ c ≠ 46 ∧ c ≠ 101 ∧ c ≠ 69 ∧ c ≠ 120 ∧ c ≠ 111

theorem Sep.stops {rest : Bytes} (h : Sep rest) : stops isDigit rest := by
  cases rest with
  | nil => trivial
  | cons c r => exact h.1

theorem dblAlt_none (pf : Bytes → Nat) (sign ip rest : Bytes) (h : Sep rest) : dblAlt pf sign ip rest = none := by
  cases rest with
  | nil => rfl
  | cons c r =>
    obtain ⟨_, h46, h101, h69, _, _⟩ := h
    unfold dblAlt
    split <;> simp_all

theorem splitSign_digit (d : Nat) (r : Bytes) (hd : isDigit d = true) : splitSign (d :: r) = ([], d :: r) := by
  have h1 : d ≠ 43 := by intro e; subst e; simp [isDigit] at hd
  have h2 : d ≠ 45 := by intro e; subst e; simp [isDigit] at hd
  unfold splitSign
  split <;> simp_all

theorem magOf_canon (ds : Bytes) (h : Canon ds) : magOf 0 ds = some (decVal ds) := by
  obtain ⟨_, d, r, hdr, hz⟩ := h
  subst hdr
  unfold magOf
  simp only [Nat.reduceEqDiff, if_false]
  split
  · rename_i d' r' heq
    injection heq with h1 h2
    have := hz h1
    rw [this] at h2
    cases h2
  · rfl

theorem parseInt0_canon (neg : Bool) (ds : Bytes) (h : Canon ds) :
    parseInt0 neg 0 ds =
      if neg then (if decVal ds ≤ 9223372036854775808 then .int (-(decVal ds : Int)) else .err)
      else (if decVal ds < 9223372036854775808 then .int (decVal ds) else .err) := by
  simp only [parseInt0, magOf_canon ds h]

theorem intAlt_canon (ds rest sign : Bytes) (h : Canon ds) (hs : Sep rest) :
    intAlt (ds ++ rest) sign ds rest = (parseInt0 (sign = [45]) 0 ds, rest) := by
  obtain ⟨hall, d, r, hdr, hz⟩ := h
  subst hdr
  unfold intAlt
  split
  · rename_i r' heq
    simp only [List.cons_append, List.cons.injEq] at heq
    have hr := hz heq.1; subst hr
    cases rest with
    | nil => simp at heq
    | cons c rr => simp at heq; have := hs.2.2.2.2.1; simp_all
  · rename_i r' heq
    simp only [List.cons_append, List.cons.injEq] at heq
    have hr := hz heq.1; subst hr
    cases rest with
    | nil => simp at heq
    | cons c rr => simp at heq; have := hs.2.2.2.2.2; simp_all
  · simp

theorem intAlt_signed (ds rest : Bytes) (h : Canon ds) :
    intAlt (45 :: (ds ++ rest)) [45] ds rest = (parseInt0 true 0 ds, rest) := by
  obtain ⟨_, d, r, hdr, _⟩ := h
  subst hdr
  unfold intAlt
  split <;> simp_all

/-- unsigned canonical digits followed by a separator -/
theorem readNumber_canon (pf : Bytes → Nat) (ds rest : Bytes) (h : Canon ds) (hs : Sep rest) :
    readNumber pf (ds ++ rest) = (parseInt0 false 0 ds, rest) := by
  obtain ⟨hall, d, r, hdr, hz⟩ := h
  have hd : isDigit d = true := by subst hdr; simp at hall; exact hall.1
  have hss : splitSign (ds ++ rest) = ([], ds ++ rest) := by subst hdr; exact splitSign_digit d _ hd
  simp only [readNumber, hss, spanP_append isDigit ds rest hall hs.stops, dblAlt_none pf [] ds rest hs]
  rw [intAlt_canon ds rest [] ⟨hall, d, r, hdr, hz⟩ hs]
  simp

/-- `-` followed by canonical digits followed by a separator -/
theorem readNumber_neg_canon (pf : Bytes → Nat) (ds rest : Bytes) (h : Canon ds) (hs : Sep rest) :
    readNumber pf (45 :: (ds ++ rest)) = (parseInt0 true 0 ds, rest) := by
  have hss : splitSign (45 :: (ds ++ rest)) = ([45], ds ++ rest) := rfl
  simp only [readNumber, hss, spanP_append isDigit ds rest h.1 hs.stops, dblAlt_none pf [45] ds rest hs]
  exact intAlt_signed ds rest h

theorem readNumber_fmtInt (pf : Bytes → Nat) (i : Int) (hlo : -9223372036854775808 ≤ i) (hhi : i < 9223372036854775808)
    (rest : Bytes) (hs : Sep rest) : readNumber pf (fmtInt i ++ rest) = (.int i, rest) := by
  cases i with
  | ofNat n =>
    simp only [fmtInt]
    rw [readNumber_canon pf _ rest (decDigits_canon n) hs, parseInt0_canon false _ (decDigits_canon n), decVal_decDigits]
    have e : Int.ofNat n = (n : Int) := rfl
    rw [e] at hhi
    have : n < 9223372036854775808 := by omega
    simp [this]
  | negSucc n =>
    simp only [fmtInt, List.cons_append]
    rw [readNumber_neg_canon pf _ rest (decDigits_canon (n + 1)) hs, parseInt0_canon true _ (decDigits_canon (n + 1)),
      decVal_decDigits]
    have e : Int.negSucc n = -((n : Int) + 1) := Int.negSucc_eq n
    rw [e] at hlo
    have : n + 1 ≤ 9223372036854775808 := by omega
    simp only [if_true, this]
    rfl

/-- the shape of `strconv.FormatFloat(x, 'f', -1, 64)` for a finite x -/
structure FShape (t : Bytes) where
  neg : Bool
  ip : Bytes
  fp : Bytes
  eq : t = (if neg then [45] else []) ++ ip ++ (if fp.isEmpty then [] else 46 :: fp)
  ipCanon : Canon ip
  fpDigits : fp.all isDigit = true

def SepD : Bytes → Prop
  | [] => True
  | c :: _ => isDigit c = false ∧ c ≠ 101 ∧ c ≠ 69

theorem dblAlt_frac (pf : Bytes → Nat) (sign ip fp rest : Bytes) (hne : fp ≠ []) (hfp : fp.all isDigit = true) (hs : SepD rest) :
    dblAlt pf sign ip (46 :: (fp ++ rest)) = some (.dbl (pf (sign ++ ip ++ [46] ++ fp)), rest) := by
  have hst : stops isDigit rest := by cases rest with | nil => trivial | cons c r => exact hs.1
  have he : fp.isEmpty = false := by cases fp with | nil => exact absurd rfl hne | cons _ _ => rfl
  simp only [dblAlt, spanP_append isDigit fp rest hfp hst, he, Bool.false_eq_true, if_false]
  cases rest with
  | nil => rfl
  | cons c r =>
    obtain ⟨_, h101, h69⟩ := hs
    split <;> simp_all

theorem readNumber_fshape_frac (pf : Bytes → Nat) (t : Bytes) (sh : FShape t) (hne : sh.fp ≠ []) (rest : Bytes) (hs : SepD rest) :
    readNumber pf (t ++ rest) = (.dbl (pf t), rest) := by
  obtain ⟨neg, ip, fp, heq, hip, hfp⟩ := sh
  simp only at hne
  have he : fp.isEmpty = false := by cases fp with | nil => exact absurd rfl hne | cons _ _ => rfl
  have hstop : stops isDigit (46 :: (fp ++ rest)) := by simp [stops, isDigit]
  obtain ⟨hall, d, r, hdr, hz⟩ := hip
  have hd : isDigit d = true := by subst hdr; simp at hall; exact hall.1
  cases neg with
  | false =>
    simp only [Bool.false_eq_true, if_false, List.nil_append, he] at heq
    subst heq
    have hss : splitSign (ip ++ 46 :: fp ++ rest) = ([], ip ++ 46 :: fp ++ rest) := by
      subst hdr; exact splitSign_digit d _ hd
    have e : ip ++ 46 :: fp ++ rest = ip ++ (46 :: (fp ++ rest)) := by simp
    simp only [readNumber, hss]
    rw [e, spanP_append isDigit ip _ hall hstop]
    simp only [dblAlt_frac pf [] ip fp rest hne hfp hs]
    simp
  | true =>
    simp only [if_true, he, Bool.false_eq_true, if_false] at heq
    subst heq
    have hss : splitSign ([45] ++ ip ++ 46 :: fp ++ rest) = ([45], ip ++ (46 :: (fp ++ rest))) := by simp [splitSign]
    simp only [readNumber, hss]
    rw [spanP_append isDigit ip _ hall hstop]
    simp only [dblAlt_frac pf [45] ip fp rest hne hfp hs]
    simp

theorem readNumber_fshape_int (pf : Bytes → Nat) (t : Bytes) (sh : FShape t) (he : sh.fp = []) (rest : Bytes) (hs : Sep rest) :
    readNumber pf (t ++ rest) = (parseInt0 sh.neg 0 sh.ip, rest) := by
  obtain ⟨neg, ip, fp, heq, hip, hfp⟩ := sh
  simp only at he
  subst he
  cases neg with
  | false =>
    simp only [Bool.false_eq_true, if_false, List.nil_append, List.isEmpty_nil, if_true, List.append_nil] at heq
    subst heq
    exact readNumber_canon pf _ rest hip hs
  | true =>
    simp only [if_true, List.isEmpty_nil, List.append_nil] at heq
    subst heq
    simpa using readNumber_neg_canon pf ip rest hip hs

end Dump
