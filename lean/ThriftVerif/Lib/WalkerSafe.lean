import ThriftVerif.Lib.PegTree
import ThriftVerif.Lib.WalkerLemmas
import ThriftVerif.Generated.C03Grammar
set_option linter.unusedSimpArgs false
/-
  The walker does not panic on the trees the matcher builds for the regenerated grammar:
  generic part (pegText, comments) and the per-rule part for the rules listed in docs/C03.md.
-/
namespace Walker
open Peg

/-! ### the W monad, for rewriting -/

@[simp] theorem bind_ok {α β} (a : α) (f : α → W β) : (W.ok a >>= f) = f a := rfl
@[simp] theorem bind_err {α β} (f : α → W β) : (W.err >>= f) = W.err := rfl
@[simp] theorem bind_panic {α β} (f : α → W β) : (W.panic >>= f) = W.panic := rfl
@[simp] theorem bind_crash {α β} (f : α → W β) : (W.crash >>= f) = W.crash := rfl
@[simp] theorem pure_eq {α} (a : α) : (pure a : W α) = W.ok a := rfl

/-- "no panic, no fuel exhaustion" -/
def NP {α} (x : W α) : Prop := x ≠ .panic ∧ x ≠ .crash

@[simp] theorem NP_ok {α} (a : α) : NP (W.ok a) := ⟨by simp, by simp⟩
@[simp] theorem NP_err {α} : NP (W.err : W α) := ⟨by simp, by simp⟩

theorem NP_bind {α β} {x : W α} {f : α → W β} (hx : NP x) (hf : ∀ a, x = .ok a → NP (f a)) : NP (x >>= f) := by
  cases x with
  | ok a => simpa using hf a rfl
  | err => simp
  | panic => exact absurd rfl hx.1
  | crash => exact absurd rfl hx.2

/-! ### generic: pegText and the comment loop -/

section Generic
variable (ids : Ids) (buf : Array Nat)

theorem textOf_ok (b e : Nat) (h1 : 1 ≤ b) (h2 : b < e) (h3 : e ≤ buf.size) : ∃ s, textOf buf b e = .ok s := by
  unfold textOf
  have : ¬ (b = 0 ∨ e ≤ b ∨ e > buf.size) := by omega
  simp [this]

/-- pegText never panics on a tree whose PegText nodes lie inside the buffer and not at offset 0. -/
theorem pegText_ok {n : Nat} (hn : n ≤ buf.size) : ∀ {t : T}, Safe ids.rPegText n t → ∃ s, pegText ids buf t = .ok s := by
  intro t h
  induction h with
  | nil => exact ⟨[], rfl⟩
  | @node r b e up next h1 h2 h3 _ _ ihu ihn =>
    obtain ⟨su, hsu⟩ := ihu
    obtain ⟨sn, hsn⟩ := ihn
    simp only [pegText, hsu]
    by_cases hs : su ≠ []
    · simp [hs]
    · simp only [hs, if_false]
      by_cases hr : r ≠ ids.rPegText
      · simp [hr, hsn]
      · simp only [hr, if_false]
        have hr' : r = ids.rPegText := by simpa using hr
        exact textOf_ok buf b e (h3 hr') h1 (by omega)

end Generic

/-! ### the regenerated grammar -/

abbrev G := Generated.C03.grammar
abbrev NUL := Generated.C03.nul
abbrev ids := Generated.C03.ids
open Generated.C03

/-- body of rule `r` in the regenerated grammar -/
def ruleBody (r : Nat) : Expr := Generated.C03.rules.getD r .eps

theorem body_eq {r : Nat} {body : Expr} (h : G.rules[r]? = some body) : body = ruleBody r := by
  have : Generated.C03.rules[r]? = some body := by
    simpa [G, Generated.C03.grammar] using h
  simp [ruleBody, List.getD_eq_getElem?_getD, this]

/-- a call of a rule marked non-nullable leaves exactly one node, whose children conform to the rule's body -/
theorem kids_call {r lo hi : Nat} {t : T} (hnul : NUL.getD r true = false) (h : Kids G NUL (.call r) lo hi t) :
    ∃ up, t = .node r lo hi up .nil ∧ lo < hi ∧ Kids G NUL (ruleBody r) lo hi up := by
  rcases h.call_inv with ⟨_, _, h2⟩ | ⟨body, up, hb, rfl, hlt, hk⟩
  · rw [hnul] at h2; cases h2
  · exact ⟨up, rfl, hlt, body_eq hb ▸ hk⟩

/-- a call of any rule over a non-empty span leaves its node -/
theorem kids_call_span {r lo hi : Nat} {t : T} (hlt : lo < hi) (h : Kids G NUL (.call r) lo hi t) :
    ∃ up, t = .node r lo hi up .nil ∧ Kids G NUL (ruleBody r) lo hi up := by
  rcases h.call_inv with ⟨_, h1, _⟩ | ⟨body, up, hb, rfl, _, hk⟩
  · omega
  · exact ⟨up, rfl, body_eq hb ▸ hk⟩

/-- a call of any rule leaves nothing or one node -/
theorem kids_call_opt {r lo hi : Nat} {t : T} (h : Kids G NUL (.call r) lo hi t) :
    (t = .nil ∧ lo = hi) ∨ ∃ up, t = .node r lo hi up .nil ∧ lo < hi ∧ Kids G NUL (ruleBody r) lo hi up := by
  rcases h.call_inv with ⟨h1, h2, _⟩ | ⟨body, up, hb, rfl, hlt, hk⟩
  · exact .inl ⟨h1, h2⟩
  · exact .inr ⟨up, rfl, hlt, body_eq hb ▸ hk⟩

/-- every node of a sibling chain satisfies `P rule begin end up` -/
inductive All (P : Nat → Nat → Nat → T → Prop) : T → Prop
  | nil : All P .nil
  | node {r b e up next} : P r b e up → All P next → All P (.node r b e up next)

theorem All.append {P : Nat → Nat → Nat → T → Prop} {a b : T} (ha : All P a) (hb : All P b) : All P (a.append b) := by
  induction ha with
  | nil => exact hb
  | node h _ ihn => exact .node h ihn

theorem All.imp {P Q : Nat → Nat → Nat → T → Prop} {t : T} (h : All P t) (hpq : ∀ r b e up, P r b e up → Q r b e up) :
    All Q t := by
  induction h with
  | nil => exact .nil
  | node h _ ihn => exact .node (hpq _ _ _ _ h) ihn

/-- a node of rule `r` whose children conform to the rule's body over the node's span -/
def IsRule (r : Nat) : Nat → Nat → Nat → T → Prop := fun r' b e up => r' = r ∧ b < e ∧ Kids G NUL (ruleBody r) b e up

/-- the chain a `(call r)*` leaves: nodes of rule `r` whose children conform -/
theorem kids_star_call {r lo hi : Nat} {t : T} (h : Kids G NUL (.star (.call r)) lo hi t) : All (IsRule r) t := by
  generalize he : Expr.star (.call r) = e at h
  induction h with
  | starNil => exact .nil
  | starCons h1 _ _ ih2 =>
    injection he with he'
    subst he'
    rcases kids_call_opt h1 with ⟨rfl, _⟩ | ⟨up, rfl, hlt, hk⟩
    · exact ih2 rfl
    · exact All.append (.node ⟨rfl, hlt, hk⟩ .nil) (ih2 rfl)
  | _ => cases he

/-! ### annotations -/

theorem parseAnnotation_np (buf : Array Nat) (n : Nat) (hn : n ≤ buf.size) (b e : Nat) (up next : T)
    (hs : Safe ids.rPegText n up) (hk : Kids G NUL (ruleBody ids.rAnnotation) b e up) :
    NP (parseAnnotation ids buf (.node ids.rAnnotation b e up next)) := by
  change Kids G NUL (.seq (.call ids.rIdentifier) (.seq (.call ids.rEQUAL) (.seq (.call ids.rLiteral) (.opt (.call ids.rListSeparator))))) b e up at hk
  cases hk with
  | seq h1 h2 =>
    obtain ⟨u1, rfl, _, _⟩ := kids_call (by decide) h1
    cases h2 with
    | seq h2 h3 =>
      obtain ⟨u2, rfl, _, _⟩ := kids_call (by decide) h2
      cases h3 with
      | seq h3 h4 =>
        obtain ⟨u3, rfl, _, _⟩ := kids_call (by decide) h3
        simp only [T.append] at hs ⊢
        obtain ⟨k, hk⟩ := pegText_ok ids buf hn hs
        obtain ⟨v, hv⟩ := pegText_ok ids buf hn hs.next.next
        simp only [ids, Generated.C03.ids] at hk hv ⊢
        simp [parseAnnotation, checkrule, rule?, up?, next?, hk, hv]

theorem annLoop_np (buf : Array Nat) (n : Nat) (hn : n ≤ buf.size) : ∀ (t : T) (acc : Anns),
    Safe ids.rPegText n t →
    All (fun r b e up => r = ids.rAnnotation → Kids G NUL (ruleBody ids.rAnnotation) b e up) t →
    NP (annLoop ids buf acc t) := by
  intro t
  induction t with
  | nil => intro acc _ _; simp [annLoop]
  | node r b e up next _ ihn =>
    intro acc hs ha
    cases ha with
    | node hp hrest =>
      simp only [annLoop]
      split
      · rename_i hr
        have := parseAnnotation_np buf n hn b e up next hs.up (hp hr)
        rw [← hr] at this
        cases hpa : parseAnnotation ids buf (.node r b e up next) with
        | ok kv => obtain ⟨k, v⟩ := kv; simp only []; exact ihn _ hs.next hrest
        | err => simp
        | panic => exact absurd hpa this.1
        | crash => exact absurd hpa this.2
      · exact ihn _ hs.next hrest

theorem parseAnnotations_np (buf : Array Nat) (n : Nat) (hn : n ≤ buf.size) (b e : Nat) (up next : T)
    (hs : Safe ids.rPegText n up) (hk : Kids G NUL (ruleBody ids.rAnnotations) b e up) :
    NP (parseAnnotations ids buf (.node ids.rAnnotations b e up next)) := by
  change Kids G NUL (.seq (.call R.LPAR) (.seq (.star (.call ids.rAnnotation)) (.call R.RPAR))) b e up at hk
  cases hk with
  | seq h1 h2 =>
    obtain ⟨u1, rfl, _, _⟩ := kids_call (by decide) h1
    cases h2 with
    | seq h2 h3 =>
      obtain ⟨u3, rfl, _, _⟩ := kids_call (by decide) h3
      have hall := kids_star_call h2
      simp only [T.append] at hs ⊢
      have hloop := annLoop_np buf n hn _ [] hs.next
        (All.append (hall.imp (fun r b e up h _ => h.2.2)) (.node (fun h => absurd h (by decide)) .nil))
      simpa [parseAnnotations, checkrule, rule?, up?, next?] using hloop

/-- what callers know about a node that `isRule … rAnnotations` accepts -/
theorem parseAnnotations_np' (buf : Array Nat) (n : Nat) (hn : n ≤ buf.size) (r b e : Nat) (up next : T)
    (hs : Safe ids.rPegText n up) (hr : r = ids.rAnnotations) (hk : Kids G NUL (ruleBody ids.rAnnotations) b e up) :
    NP (parseAnnotations ids buf (.node r b e up next)) := by
  subst hr; exact parseAnnotations_np buf n hn b e up next hs hk

/-! ### every node conforms to its own rule -/

/-- non-empty, and (unless it is a capture) its children are described by its rule's body over its span -/
def Good : Nat → Nat → Nat → T → Prop :=
  fun r b e up => b < e ∧ (r ≠ G.pegText → Kids G NUL (ruleBody r) b e up)

theorem kids_all_good {ex : Expr} {lo hi : Nat} {t : T} (h : Kids G NUL ex lo hi t) : All Good t := by
  induction h with
  | callNode hb hk hlt _ =>
    refine .node ⟨hlt, fun _ => body_eq hb ▸ hk⟩ .nil
  | seq _ _ ih1 ih2 => exact ih1.append ih2
  | altL _ ih => exact ih
  | altR _ ih => exact ih
  | starCons _ _ ih1 ih2 => exact ih1.append ih2
  | plus _ _ ih1 ih2 => exact ih1.append ih2
  | optSome _ ih => exact ih
  | capNode _ hlt _ => exact .node ⟨hlt, fun h => absurd rfl h⟩ .nil
  | _ => exact .nil

theorem All.tail {P : Nat → Nat → Nat → T → Prop} {r b e : Nat} {up next : T} (h : All P (.node r b e up next)) : All P next := by
  cases h with | node _ hn => exact hn

theorem All.head {P : Nat → Nat → Nat → T → Prop} {r b e : Nat} {up next : T} (h : All P (.node r b e up next)) : P r b e up := by
  cases h with | node hp _ => exact hp

theorem Good.kids {r b e : Nat} {up : T} (h : Good r b e up) (hr : r ≠ G.pegText) : Kids G NUL (ruleBody r) b e up := h.2 hr

/-! ### comments -/

theorem commentLoop_np (buf : Array Nat) (n : Nat) (hn : n ≤ buf.size) : ∀ (t : T),
    Safe ids.rPegText n t → All Good t → NP (commentLoop ids buf t) := by
  intro t
  induction t with
  | nil => intro _ _; simp [commentLoop]
  | node r b e up next _ ihn =>
    intro hs ha
    have ihn' := ihn hs.next ha.tail
    simp only [commentLoop]
    split
    · rename_i hr
      have hk := ha.head.kids (by rw [hr]; decide)
      rw [hr] at hk
      change Kids G NUL (.alt (.call R.LongComment) (.alt (.call R.LineComment) (.call R.UnixComment))) b e up at hk
      have hlt := ha.head.1
      have hup : ∃ u, ∃ r', up = .node r' b e u .nil := by
        cases hk with
        | altL h => obtain ⟨u, rfl, _⟩ := kids_call_span hlt h; exact ⟨u, _, rfl⟩
        | altR h =>
          cases h with
          | altL h => obtain ⟨u, rfl, _⟩ := kids_call_span hlt h; exact ⟨u, _, rfl⟩
          | altR h => obtain ⟨u, rfl, _⟩ := kids_call_span hlt h; exact ⟨u, _, rfl⟩
      obtain ⟨u, r', rfl⟩ := hup
      have hsu := hs.up
      cases hsu with
      | node h1 h2 _ _ _ =>
        have : ¬ (e > buf.size ∨ b > e) := by omega
        simp only [this, if_false]
        cases hc : commentLoop ids buf next with
        | ok cs => simp
        | err => simp
        | panic => exact absurd hc ihn'.1
        | crash => exact absurd hc ihn'.2
    · exact ihn'

/-- parseReservedComments on a ReservedComments node and parseReservedEndLineComments on its node -/
theorem parseReservedComments_np (buf : Array Nat) (n : Nat) (hn : n ≤ buf.size) (rule inner : Nat) (b e : Nat) (up next : T)
    (hs : Safe ids.rPegText n up) (hlt : b < e) (hk : Kids G NUL (.call inner) b e up) :
    NP (parseReservedComments ids buf (.node rule b e up next) rule) := by
  obtain ⟨u, rfl, hku⟩ := kids_call_span hlt hk
  have := commentLoop_np buf n hn u hs.up (kids_all_good hku)
  simp only [parseReservedComments, checkrule, rule?, up?, ne_eq, not_true_eq_false, if_false, bind_ok]
  exact NP_bind this (fun _ _ => by simp)

/-! ### types -/

theorem W_bind_assoc {α β γ} (x : W α) (f : α → W β) (g : β → W γ) :
    (x >>= f) >>= g = x >>= fun a => f a >>= g := by cases x <;> rfl

theorem pegText_np (buf : Array Nat) {n : Nat} (hn : n ≤ buf.size) {t : T} (hs : Safe ids.rPegText n t) :
    NP (pegText ids buf t) := by
  obtain ⟨s, h⟩ := pegText_ok ids buf hn hs
  rw [h]; simp

theorem cppTypeText_np (buf : Array Nat) (n : Nat) (hn : n ≤ buf.size) (b e : Nat) (up next : T)
    (hs : Safe ids.rPegText n up) (hk : Kids G NUL (ruleBody ids.rCppType) b e up) :
    NP (cppTypeText ids buf (.node ids.rCppType b e up next)) := by
  change Kids G NUL (.seq (.call R.CPPTYPE) (.call ids.rLiteral)) b e up at hk
  cases hk with
  | seq h1 h2 =>
    obtain ⟨u1, rfl, _, _⟩ := kids_call (by decide) h1
    obtain ⟨u2, rfl, _, _⟩ := kids_call (by decide) h2
    simp only [T.append] at hs ⊢
    simp only [cppTypeText, up?, next?, bind_ok]
    exact pegText_np buf hn hs.next

theorem fieldType_np (buf : Array Nat) (n : Nat) (hn : n ≤ buf.size) : ∀ fuel : Nat,
    (∀ b e up next, treeSize up < fuel → Safe ids.rPegText n up → Kids G NUL (ruleBody ids.rFieldType) b e up →
      NP (parseFieldType ids buf fuel (.node ids.rFieldType b e up next))) ∧
    (∀ b e up next, treeSize up < fuel → Safe ids.rPegText n up → Kids G NUL (ruleBody ids.rContainerType) b e up →
      NP (parseContainerType ids buf fuel (.node ids.rContainerType b e up next))) := by
  intro fuel
  induction fuel with
  | zero => exact ⟨fun _ _ _ _ h => absurd h (by omega), fun _ _ _ _ h => absurd h (by omega)⟩
  | succ fuel ih =>
    obtain ⟨ihF, ihC⟩ := ih
    constructor
    · intro b e up next hsz hs hk
      change Kids G NUL (.seq (.alt (.call ids.rContainerType) (.alt (.call ids.rBaseType) (.call ids.rIdentifier))) (.opt (.call ids.rAnnotations))) b e up at hk
      cases hk with
      | seq h1 h2 =>
        rename_i mid t1 t2
        -- the optional annotations
        have hann : Safe ids.rPegText n t2 →
            ∀ typ : Ty, NP (if isRule t2 ids.rAnnotations = true then (do let a ← parseAnnotations ids buf t2; pure (typ.setAnns a)) else pure typ : W Ty) := by
          intro hs2 typ
          cases h2 with
          | optNil => simp [isRule]
          | optSome h2 =>
            obtain ⟨u, rfl, _, hk2⟩ := kids_call (by decide) h2
            have := parseAnnotations_np buf n hn _ _ u .nil hs2.up hk2
            simp only [isRule, ids_rAnnotations, decide_true, if_true]
            exact NP_bind this (fun _ _ => by simp)
        cases h1 with
        | altL h1 =>
          obtain ⟨u1, rfl, _, hk1⟩ := kids_call (by decide) h1
          simp only [T.append, treeSize] at hs hsz ⊢
          have hc := ihC b mid u1 t2 (by omega) hs.up hk1
          simp only [parseFieldType, checkrule, rule?, up?, next?, ids_rFieldType, ids_rContainerType, ne_eq, not_true_eq_false, if_false, if_true, bind_ok]
          exact NP_bind hc (fun typ _ => hann hs.next typ)
        | altR h1 =>
          cases h1 with
          | altL h1 =>
            obtain ⟨u1, rfl, _, hk1⟩ := kids_call (by decide) h1
            simp only [T.append] at hs ⊢
            simp only [parseFieldType, checkrule, rule?, up?, next?, ids_rFieldType, ids_rContainerType, ids_rBaseType, ids_rIdentifier, ne_eq, not_true_eq_false, if_false, if_true, bind_ok, pure_eq]
            simp only [show ((21 : Nat) = 22) = False by decide, show ((37 : Nat) = 22) = False by decide, if_false, or_true, true_or, if_true]
            exact NP_bind (pegText_np buf hn hs) (fun s _ => hann hs.next _)
          | altR h1 =>
            obtain ⟨u1, rfl, _, hk1⟩ := kids_call (by decide) h1
            simp only [T.append] at hs ⊢
            simp only [parseFieldType, checkrule, rule?, up?, next?, ids_rFieldType, ids_rContainerType, ids_rBaseType, ids_rIdentifier, ne_eq, not_true_eq_false, if_false, if_true, bind_ok, pure_eq]
            simp only [show ((21 : Nat) = 22) = False by decide, show ((37 : Nat) = 22) = False by decide, if_false, or_true, true_or, if_true]
            exact NP_bind (pegText_np buf hn hs) (fun s _ => hann hs.next _)
    · intro b e up next hsz hs hk
      change Kids G NUL (.alt (.call ids.rMapType) (.alt (.call ids.rSetType) (.call ids.rListType))) b e up at hk
      cases hk with
      | altL hk =>
        obtain ⟨um, rfl, _, hkm⟩ := kids_call (by decide) hk
        change Kids G NUL (.seq (.call R.MAP) (.seq (.opt (.call ids.rCppType)) (.seq (.call R.LPOINT) (.seq (.call ids.rFieldType)
          (.seq (.call R.COMMA) (.seq (.call ids.rFieldType) (.call R.RPOINT))))))) b e um at hkm
        cases hkm with
        | seq h1 h2 =>
        obtain ⟨u1, rfl, _, _⟩ := kids_call (by decide) h1
        cases h2 with
        | seq hcpp h3 =>
        cases h3 with
        | seq h3 h4 =>
        obtain ⟨u3, rfl, _, _⟩ := kids_call (by decide) h3
        cases h4 with
        | seq h4 h5 =>
        obtain ⟨u4, rfl, _, hk4⟩ := kids_call (by decide) h4
        cases h5 with
        | seq h5 h6 =>
        obtain ⟨u5, rfl, _, _⟩ := kids_call (by decide) h5
        cases h6 with
        | seq h6 h7 =>
        obtain ⟨u6, rfl, _, hk6⟩ := kids_call (by decide) h6
        obtain ⟨u7, rfl, _, _⟩ := kids_call (by decide) h7
        cases hcpp with
        | optNil =>
          simp only [T.append, treeSize] at hs hsz ⊢
          have hs' := hs.up
          simp [parseContainerType, checkrule, rule?, up?, next?, R.LPOINT]
          exact NP_bind (ihF _ _ u4 _ (by omega) hs'.next.next.up hk4)
            (fun kt _ => NP_bind (ihF _ _ u6 _ (by omega) hs'.next.next.next.next.up hk6) (fun vt _ => by simp))
        | optSome hcpp =>
          obtain ⟨uc, rfl, _, hkc⟩ := kids_call (by decide) hcpp
          simp only [T.append, treeSize] at hs hsz ⊢
          have hs' := hs.up
          simp [parseContainerType, checkrule, rule?, up?, next?, W_bind_assoc]
          exact NP_bind (cppTypeText_np buf n hn _ _ uc _ hs'.next.up hkc) (fun c _ =>
            NP_bind (ihF _ _ u4 _ (by omega) hs'.next.next.next.up hk4)
              (fun kt _ => NP_bind (ihF _ _ u6 _ (by omega) hs'.next.next.next.next.next.up hk6) (fun vt _ => by simp)))
      | altR hk =>
        cases hk with
        | altL hk =>
          obtain ⟨um, rfl, _, hkm⟩ := kids_call (by decide) hk
          change Kids G NUL (.seq (.call R.SET) (.seq (.opt (.call ids.rCppType)) (.seq (.call R.LPOINT) (.seq (.call ids.rFieldType)
            (.call R.RPOINT))))) b e um at hkm
          cases hkm with
          | seq h1 h2 =>
          obtain ⟨u1, rfl, _, _⟩ := kids_call (by decide) h1
          cases h2 with
          | seq hcpp h3 =>
          cases h3 with
          | seq h3 h4 =>
          obtain ⟨u3, rfl, _, _⟩ := kids_call (by decide) h3
          cases h4 with
          | seq h4 h5 =>
          obtain ⟨u4, rfl, _, hk4⟩ := kids_call (by decide) h4
          obtain ⟨u5, rfl, _, _⟩ := kids_call (by decide) h5
          cases hcpp with
          | optNil =>
            simp only [T.append, treeSize] at hs hsz ⊢
            have hs' := hs.up
            simp [parseContainerType, checkrule, rule?, up?, next?, R.LPOINT]
            exact NP_bind (ihF _ _ u4 _ (by omega) hs'.next.next.up hk4) (fun vt _ => by simp)
          | optSome hcpp =>
            obtain ⟨uc, rfl, _, hkc⟩ := kids_call (by decide) hcpp
            simp only [T.append, treeSize] at hs hsz ⊢
            have hs' := hs.up
            simp [parseContainerType, checkrule, rule?, up?, next?, W_bind_assoc]
            exact NP_bind (cppTypeText_np buf n hn _ _ uc _ hs'.next.up hkc) (fun c _ =>
              NP_bind (ihF _ _ u4 _ (by omega) hs'.next.next.next.up hk4) (fun vt _ => by simp))
        | altR hk =>
          obtain ⟨um, rfl, _, hkm⟩ := kids_call (by decide) hk
          change Kids G NUL (.seq (.call R.LIST) (.seq (.call R.LPOINT) (.seq (.call ids.rFieldType)
            (.seq (.call R.RPOINT) (.opt (.call ids.rCppType)))))) b e um at hkm
          cases hkm with
          | seq h1 h2 =>
          obtain ⟨u1, rfl, _, _⟩ := kids_call (by decide) h1
          cases h2 with
          | seq h3 h4 =>
          obtain ⟨u3, rfl, _, _⟩ := kids_call (by decide) h3
          cases h4 with
          | seq h4 h5 =>
          obtain ⟨u4, rfl, _, hk4⟩ := kids_call (by decide) h4
          cases h5 with
          | seq h5 hcpp =>
          obtain ⟨u5, rfl, _, _⟩ := kids_call (by decide) h5
          cases hcpp with
          | optNil =>
            simp only [T.append, treeSize] at hs hsz ⊢
            have hs' := hs.up
            simp [parseContainerType, checkrule, rule?, up?, next?, isRule]
            exact NP_bind (ihF _ _ u4 _ (by omega) hs'.next.next.up hk4) (fun vt _ => by simp)
          | optSome hcpp =>
            obtain ⟨uc, rfl, _, hkc⟩ := kids_call (by decide) hcpp
            simp only [T.append, treeSize] at hs hsz ⊢
            have hs' := hs.up
            simp [parseContainerType, checkrule, rule?, up?, next?, isRule]
            exact NP_bind (ihF _ _ u4 _ (by omega) hs'.next.next.up hk4) (fun vt _ =>
              NP_bind (cppTypeText_np buf n hn _ _ uc _ hs'.next.next.next.next.up hkc) (fun c _ => by simp))

/-! ### constant values -/

/-- the sibling chain after LWING in a ConstMap: entries `ConstValue COLON ConstValue`, anything else skipped -/
inductive MapChain : T → Prop
  | nil : MapChain .nil
  | skip {r b e up next} : r ≠ ids.rConstValue → MapChain next → MapChain (.node r b e up next)
  | pair {b e up rc bc ec uc bv ev uv rest} :
      Kids G NUL (ruleBody ids.rConstValue) b e up → Kids G NUL (ruleBody ids.rConstValue) bv ev uv → MapChain rest →
      MapChain (.node ids.rConstValue b e up (.node rc bc ec uc (.node ids.rConstValue bv ev uv rest)))

theorem MapChain.append_entries {lo hi : Nat} {t tail : T}
    (h : Kids G NUL (.star (.seq (.call ids.rConstValue) (.seq (.call R.COLON) (.seq (.call ids.rConstValue) (.opt (.call ids.rListSeparator)))))) lo hi t)
    (ht : MapChain tail) : MapChain (t.append tail) := by
  generalize he : Expr.star (.seq (.call ids.rConstValue) (.seq (.call R.COLON) (.seq (.call ids.rConstValue) (.opt (.call ids.rListSeparator))))) = ex at h
  induction h with
  | starNil => exact ht
  | starCons h1 _ _ ih2 =>
    injection he with he'
    subst he'
    have ih := ih2 rfl
    cases h1 with
    | seq h1 h2 =>
      obtain ⟨u1, rfl, _, hk1⟩ := kids_call (by decide) h1
      cases h2 with
      | seq h2 h3 =>
        obtain ⟨u2, rfl, _, _⟩ := kids_call (by decide) h2
        cases h3 with
        | seq h3 h4 =>
          obtain ⟨u3, rfl, _, hk3⟩ := kids_call (by decide) h3
          cases h4 with
          | optNil =>
            simp only [T.append]
            exact .pair hk1 hk3 ih
          | optSome h4 =>
            obtain ⟨u4, rfl, _, _⟩ := kids_call (by decide) h4
            simp only [T.append]
            exact .pair hk1 hk3 (.skip (by decide) ih)
  | _ => cases he

theorem Safe.chain_next {pt n r b e : Nat} {u nx : T} (h : Safe pt n (.node r b e u nx)) : Safe pt n nx := h.next

theorem rawText_np (buf : Array Nat) {n : Nat} (hn : n ≤ buf.size) {t : T} (hr : isNil t = false)
    (hs : Safe ids.rPegText n t) : NP (rawText buf t) := by
  cases t with
  | nil => simp [isNil] at hr
  | node r b e up next =>
    cases hs with
    | node h1 h2 _ _ _ =>
      have : ¬ (e > buf.size ∨ b > e) := by omega
      simp [rawText, this]

theorem findCap_safe {n : Nat} : ∀ {t : T}, Safe ids.rPegText n t → Safe ids.rPegText n (findCap ids t) := by
  intro t h
  induction h with
  | nil => exact .nil
  | node h1 h2 h3 hu hn _ ihn =>
    simp only [findCap]
    split
    · exact .node h1 h2 h3 hu hn
    · exact ihn

theorem constValue_np (buf : Array Nat) (n : Nat) (hn : n ≤ buf.size) : ∀ fuel : Nat,
    (∀ b e up next, treeSize up < fuel → Safe ids.rPegText n up → Kids G NUL (ruleBody ids.rConstValue) b e up →
      NP (parseConstValue ids buf fuel (.node ids.rConstValue b e up next))) ∧
    (∀ t, treeSize t < fuel → Safe ids.rPegText n t → All Good t → NP (constListLoop ids buf fuel t)) ∧
    (∀ t, treeSize t < fuel → Safe ids.rPegText n t → MapChain t → NP (constMapLoop ids buf fuel t)) := by
  intro fuel
  induction fuel with
  | zero => exact ⟨fun _ _ _ _ h => absurd h (by omega), fun _ h => absurd h (by omega), fun _ h => absurd h (by omega)⟩
  | succ fuel ih =>
    obtain ⟨ihA, ihB, ihC⟩ := ih
    refine ⟨?_, ?_, ?_⟩
    · intro b e up next hsz hs hk
      change Kids G NUL (.alt (.call ids.rDoubleConstant) (.alt (.call ids.rIntConstant) (.alt (.call ids.rLiteral)
        (.alt (.call ids.rIdentifier) (.alt (.call ids.rConstList) (.call ids.rConstMap)))))) b e up at hk
      cases hk with
      | altL hk =>
        obtain ⟨u, rfl, _, _⟩ := kids_call (by decide) hk
        simp [parseConstValue, checkrule, rule?, up?]
        refine NP_bind (pegText_np buf hn hs) (fun _ _ => ?_)
        split
        · simp
        · rename_i hr
          exact NP_bind (rawText_np buf hn (by simpa using hr) (findCap_safe hs.up)) (fun _ _ => by simp)
      | altR hk =>
      cases hk with
      | altL hk =>
        obtain ⟨u, rfl, _, _⟩ := kids_call (by decide) hk
        simp [parseConstValue, checkrule, rule?, up?]
        refine NP_bind (pegText_np buf hn hs) (fun s _ => ?_)
        split <;> simp
      | altR hk =>
      cases hk with
      | altL hk =>
        obtain ⟨u, rfl, _, _⟩ := kids_call (by decide) hk
        simp [parseConstValue, checkrule, rule?, up?]
        exact NP_bind (pegText_np buf hn hs) (fun _ _ => by simp)
      | altR hk =>
      cases hk with
      | altL hk =>
        obtain ⟨u, rfl, _, _⟩ := kids_call (by decide) hk
        simp [parseConstValue, checkrule, rule?, up?]
        exact NP_bind (pegText_np buf hn hs) (fun _ _ => by simp)
      | altR hk =>
      cases hk with
      | altL hk =>
        obtain ⟨u, rfl, _, hku⟩ := kids_call (by decide) hk
        simp only [treeSize] at hsz
        simp [parseConstValue, checkrule, rule?, up?]
        exact NP_bind (ihB u (by omega) hs.up (kids_all_good hku)) (fun _ _ => by simp)
      | altR hk =>
        obtain ⟨u, rfl, _, hku⟩ := kids_call (by decide) hk
        change Kids G NUL (.seq (.call R.LWING) (.seq (.star (.seq (.call ids.rConstValue) (.seq (.call R.COLON)
          (.seq (.call ids.rConstValue) (.opt (.call ids.rListSeparator)))))) (.call R.RWING))) b e u at hku
        cases hku with
        | seq h1 h2 =>
          obtain ⟨u1, rfl, _, _⟩ := kids_call (by decide) h1
          cases h2 with
          | seq h2 h3 =>
            obtain ⟨u3, rfl, _, _⟩ := kids_call (by decide) h3
            simp only [T.append, treeSize] at hsz hs ⊢
            simp [parseConstValue, checkrule, rule?, up?, next?]
            exact NP_bind (ihC _ (by omega) hs.up.next (MapChain.append_entries h2 (MapChain.skip (by decide) .nil)))
              (fun _ _ => by simp)
    · intro t hsz hs hg
      cases t with
      | nil => simp [constListLoop]
      | node r b e up next =>
        simp only [treeSize] at hsz
        simp only [constListLoop]
        split
        · rename_i hr
          subst hr
          have hk := hg.head.kids (by decide)
          exact NP_bind (ihA b e up next (by omega) hs.up hk) (fun _ _ =>
            NP_bind (ihB next (by omega) hs.next hg.tail) (fun _ _ => by simp))
        · exact ihB next (by omega) hs.next hg.tail
    · intro t hsz hs hm
      cases t with
      | nil => simp [constMapLoop]
      | node r b e up next =>
        simp only [treeSize] at hsz
        simp only [constMapLoop]
        cases hm with
        | skip hr hrest =>
          simp only [hr, ne_eq, not_false_eq_true, if_true]
          exact ihC next (by omega) hs.next hrest
        | pair hk1 hk3 hrest =>
          simp only [treeSize] at hsz
          simp only [ne_eq, not_true_eq_false, if_false]
          refine NP_bind (ihA _ _ _ _ (by omega) hs.up hk1) (fun k _ => ?_)
          simp only [next?, bind_ok]
          refine NP_bind (ihA _ _ _ _ (by omega) hs.next.next.up hk3) (fun v _ => ?_)
          exact NP_bind (ihC _ (by omega) hs.next.next.next hrest) (fun _ _ => by simp)


/-! ### fields -/

/-- split a `match x with | .ok a => k a | .err => .err | .panic => .panic | .crash => .crash` whose scrutinee is
known not to panic; leaves the `.ok` goal -/
macro "np_match " h:term : tactic =>
  `(tactic| (split
             rotate_left
             · simp
             · (rename_i hq; exact absurd hq ($h).1)
             · (rename_i hq; exact absurd hq ($h).2)))

/-- the children of a Field as parseField's loop needs them: every node conforms to its rule, and an EQUAL is
followed by a ConstValue -/
inductive FieldChain : T → Prop
  | nil : FieldChain .nil
  | eq {b e up bv ev uv rest} : Kids G NUL (ruleBody ids.rConstValue) bv ev uv → FieldChain rest →
      FieldChain (.node ids.rEQUAL b e up (.node ids.rConstValue bv ev uv rest))
  | other {r b e up next} : r ≠ ids.rEQUAL → Good r b e up → FieldChain next → FieldChain (.node r b e up next)

theorem FieldChain.call {r lo hi : Nat} {t tail : T} (hr : r ≠ ids.rEQUAL) (h : Kids G NUL (.call r) lo hi t)
    (ht : FieldChain tail) : FieldChain (t.append tail) := by
  rcases kids_call_opt h with ⟨rfl, _⟩ | ⟨up, rfl, hlt, hk⟩
  · exact ht
  · exact .other hr ⟨hlt, fun _ => hk⟩ ht

theorem FieldChain.optCall {r lo hi : Nat} {t tail : T} (hr : r ≠ ids.rEQUAL) (h : Kids G NUL (.opt (.call r)) lo hi t)
    (ht : FieldChain tail) : FieldChain (t.append tail) := by
  cases h with
  | optNil => exact ht
  | optSome h => exact FieldChain.call hr h ht

theorem FieldChain.optEq {lo hi : Nat} {t tail : T}
    (h : Kids G NUL (.opt (.seq (.call ids.rEQUAL) (.call ids.rConstValue))) lo hi t)
    (ht : FieldChain tail) : FieldChain (t.append tail) := by
  cases h with
  | optNil => exact ht
  | optSome h =>
    cases h with
    | seq h1 h2 =>
      obtain ⟨u1, rfl, _, _⟩ := kids_call (by decide) h1
      obtain ⟨u2, rfl, _, hk2⟩ := kids_call (by decide) h2
      simp only [T.append]
      exact .eq hk2 ht

theorem fieldChain_of_kids {b e : Nat} {up : T} (hk : Kids G NUL (ruleBody ids.rField) b e up) : FieldChain up := by
  change Kids G NUL (.seq (.call ids.rReservedComments) (.seq (.call ids.rSkip) (.seq (.opt (.call ids.rFieldId))
    (.seq (.opt (.call ids.rFieldReq)) (.seq (.call ids.rFieldType) (.seq (.call ids.rIdentifier)
    (.seq (.opt (.seq (.call ids.rEQUAL) (.call ids.rConstValue))) (.seq (.opt (.call ids.rAnnotations))
    (.seq (.opt (.call ids.rListSeparator)) (.seq (.call ids.rReservedEndLineComments) (.call ids.rSkipLine))))))))))) b e up at hk
  cases hk with | seq h1 hk =>
  cases hk with | seq h2 hk =>
  cases hk with | seq h3 hk =>
  cases hk with | seq h4 hk =>
  cases hk with | seq h5 hk =>
  cases hk with | seq h6 hk =>
  cases hk with | seq h7 hk =>
  cases hk with | seq h8 hk =>
  cases hk with | seq h9 hk =>
  cases hk with | seq h10 h11 =>
  refine FieldChain.call (by decide) h1 (FieldChain.call (by decide) h2 (FieldChain.optCall (by decide) h3
    (FieldChain.optCall (by decide) h4 (FieldChain.call (by decide) h5 (FieldChain.call (by decide) h6
    (FieldChain.optEq h7 (FieldChain.optCall (by decide) h8 (FieldChain.optCall (by decide) h9
    (FieldChain.call (by decide) h10 ?_)))))))))
  have := FieldChain.call (by decide) h11 FieldChain.nil
  rwa [append_nil] at this

theorem parseReservedComments_good (buf : Array Nat) (n : Nat) (hn : n ≤ buf.size) (r b e : Nat) (up next : T)
    (hs : Safe ids.rPegText n up) (hg : Good r b e up) (hr : r = ids.rReservedComments ∨ r = ids.rReservedEndLineComments) :
    NP (parseReservedComments ids buf (.node r b e up next) r) := by
  rcases hr with rfl | rfl
  · exact parseReservedComments_np buf n hn _ ids.rSkip b e up next hs hg.1 (hg.kids (by decide))
  · exact parseReservedComments_np buf n hn _ ids.rSkipLine b e up next hs hg.1 (hg.kids (by decide))

theorem fieldLoop_np (buf : Array Nat) (n : Nat) (hn : n ≤ buf.size) (fuel : Nat) : ∀ (t : T),
    FieldChain t → ∀ (f : Field), treeSize t < fuel → Safe ids.rPegText n t → NP (fieldLoop ids buf fuel f t) := by
  intro t hfc
  induction hfc with
  | nil => intro f _ _; simp [fieldLoop]
  | @eq b e up bv ev uv rest hkv hrest ih =>
    intro f hsz hs
    simp only [treeSize] at hsz
    have hcv := (constValue_np buf n hn fuel).1 bv ev uv rest (by omega) hs.next.up hkv
    simp [fieldLoop]
    np_match hcv
    exact ih _ (by omega) hs.next.next
  | @other r b e up next hr hg hrest ih =>
    intro f hsz hs
    simp only [treeSize] at hsz
    have ihn := fun f' => ih f' (by omega) hs.next
    rw [fieldLoop.eq_def]
    simp only []
    split
    · exact ihn _
    split
    · rename_i h; subst h
      np_match (parseReservedComments_good buf n hn _ b e up next hs.up hg (.inl rfl))
      exact ihn _
    split
    · rename_i h; subst h
      np_match (parseReservedComments_good buf n hn _ b e up next hs.up hg (.inr rfl))
      exact ihn _
    split
    · np_match (pegText_np buf hn hs)
      split
      · exact ihn _
      · simp
    split
    · np_match (pegText_np buf hn hs)
      exact ihn _
    split
    · rename_i h; subst h
      np_match ((fieldType_np buf n hn fuel).1 b e up next (by omega) hs.up (hg.kids (by decide)))
      exact ihn _
    split
    · np_match (pegText_np buf hn hs)
      exact ihn _
    split
    · rename_i h; subst h
      np_match (parseAnnotations_np buf n hn b e up next hs.up (hg.kids (by decide)))
      exact ihn _
    · exact ihn _

theorem parseField_np (buf : Array Nat) (n : Nat) (hn : n ≤ buf.size) (fuel : Nat) (b e : Nat) (up next : T)
    (hsz : treeSize up < fuel) (hs : Safe ids.rPegText n up) (hk : Kids G NUL (ruleBody ids.rField) b e up) :
    NP (parseField ids buf fuel (.node ids.rField b e up next)) := by
  have := fieldLoop_np buf n hn fuel up (fieldChain_of_kids hk) emptyField hsz hs
  simpa [parseField, checkrule, rule?, up?] using this

/-- the loops over `Field*` -/
theorem fieldsLoop_np (buf : Array Nat) (n : Nat) (hn : n ≤ buf.size) (fuel : Nat) (post : Field → Field) : ∀ (t : T) (acc : List Field),
    treeSize t < fuel → Safe ids.rPegText n t → All Good t → NP (fieldsLoop ids buf fuel post acc t) := by
  intro t
  induction t with
  | nil => intro acc _ _ _; simp [fieldsLoop]
  | node r b e up next _ ihn =>
    intro acc hsz hs hg
    simp only [treeSize] at hsz
    rw [fieldsLoop.eq_def]
    simp only []
    split
    · rename_i h; subst h
      np_match (parseField_np buf n hn fuel b e up next (by omega) hs.up (hg.head.kids (by decide)))
      exact ihn _ (by omega) hs.next hg.tail
    · exact ihn _ (by omega) hs.next hg.tail

/-! ### headers -/

theorem parseInclude_np (buf : Array Nat) (n : Nat) (hn : n ≤ buf.size) (t : Thrift) (r b e : Nat) (up next : T)
    (hs : Safe ids.rPegText n up) : NP (parseInclude ids buf t (.node r b e up next)) := by
  simp only [parseInclude, checkrule, rule?, up?, bind_ok]
  split
  · simp
  · simp only [bind_ok]
    refine NP_bind (pegText_np buf hn hs) (fun s _ => ?_)
    split
    · simp
    · split <;> simp

theorem parseCppInclude_np (buf : Array Nat) (n : Nat) (hn : n ≤ buf.size) (t : Thrift) (r b e : Nat) (up next : T)
    (hs : Safe ids.rPegText n up) : NP (parseCppInclude ids buf t (.node r b e up next)) := by
  simp only [parseCppInclude, checkrule, rule?, up?, bind_ok]
  split
  · simp
  · simp only [bind_ok]
    exact NP_bind (pegText_np buf hn hs) (fun s _ => by simp)

theorem optAnns_np (buf : Array Nat) (n : Nat) (hn : n ≤ buf.size) {lo hi : Nat} {t2 : T}
    (h2 : Kids G NUL (.opt (.call ids.rAnnotations)) lo hi t2) (hs2 : Safe ids.rPegText n t2) :
    NP (if isRule t2 ids.rAnnotations = true then parseAnnotations ids buf t2 else pure [] : W Anns) := by
  cases h2 with
  | optNil => simp [isRule]
  | optSome h2 =>
    obtain ⟨u, rfl, _, hk2⟩ := kids_call (by decide) h2
    have := parseAnnotations_np buf n hn _ _ u .nil hs2.up hk2
    simpa [isRule] using this

theorem parseNamespace_np (buf : Array Nat) (n : Nat) (hn : n ≤ buf.size) (t : Thrift) (b e : Nat) (up next : T)
    (hs : Safe ids.rPegText n up) (hk : Kids G NUL (ruleBody ids.rNamespace) b e up) :
    NP (parseNamespace ids buf t (.node ids.rNamespace b e up next)) := by
  change Kids G NUL (.seq (.call R.NAMESPACE) (.seq (.call ids.rNamespaceScope) (.seq (.call ids.rIdentifier)
    (.opt (.call ids.rAnnotations))))) b e up at hk
  cases hk with | seq h1 hk =>
  cases hk with | seq h2 hk =>
  cases hk with | seq h3 h4 =>
  obtain ⟨u1, rfl, _, _⟩ := kids_call (by decide) h1
  obtain ⟨u2, rfl, _, _⟩ := kids_call (by decide) h2
  obtain ⟨u3, rfl, _, _⟩ := kids_call (by decide) h3
  simp only [T.append] at hs ⊢
  simp [parseNamespace, checkrule, rule?, up?, next?]
  refine NP_bind (pegText_np buf hn hs.next.up) (fun _ _ => ?_)
  refine NP_bind (pegText_np buf hn hs.next.next.up) (fun _ _ => ?_)
  exact NP_bind (optAnns_np buf n hn h4 hs.next.next.next) (fun _ _ => by simp)

theorem parseHeader_np (buf : Array Nat) (n : Nat) (hn : n ≤ buf.size) (t : Thrift) (b e : Nat) (up next : T)
    (hs : Safe ids.rPegText n up) (hk : Kids G NUL (ruleBody ids.rHeader) b e up) :
    NP (parseHeader ids buf t (.node ids.rHeader b e up next)) := by
  change Kids G NUL (.seq (.call ids.rSkip) (.seq (.alt (.call ids.rInclude) (.alt (.call ids.rCppInclude) (.call ids.rNamespace)))
    (.call ids.rSkipLine))) b e up at hk
  cases hk with | seq h1 hk =>
  cases hk with | seq h2 h3 =>
  cases h2 with
  | altL h =>
    obtain ⟨u, rfl, _, _⟩ := kids_call (by decide) h
    rcases kids_call_opt h1 with ⟨rfl, _⟩ | ⟨u1, rfl, _, _⟩ <;>
    · simp only [T.append] at hs ⊢
      simp [parseHeader, checkrule, rule?, up?, next?]
      first
        | exact parseInclude_np buf n hn t _ _ _ u _ hs.up
        | exact parseInclude_np buf n hn t _ _ _ u _ hs.next.up
  | altR h =>
    cases h with
    | altL h =>
      obtain ⟨u, rfl, _, _⟩ := kids_call (by decide) h
      rcases kids_call_opt h1 with ⟨rfl, _⟩ | ⟨u1, rfl, _, _⟩ <;>
      · simp only [T.append] at hs ⊢
        simp [parseHeader, checkrule, rule?, up?, next?]
        first
          | exact parseCppInclude_np buf n hn t _ _ _ u _ hs.up
          | exact parseCppInclude_np buf n hn t _ _ _ u _ hs.next.up
    | altR h =>
      obtain ⟨u, rfl, _, hku⟩ := kids_call (by decide) h
      rcases kids_call_opt h1 with ⟨rfl, _⟩ | ⟨u1, rfl, _, _⟩ <;>
      · simp only [T.append] at hs ⊢
        simp [parseHeader, checkrule, rule?, up?, next?]
        first
          | exact parseNamespace_np buf n hn t _ _ u _ hs.up hku
          | exact parseNamespace_np buf n hn t _ _ u _ hs.next.up hku


/-! ### definitions -/

theorem parseConst_np (buf : Array Nat) (n : Nat) (hn : n ≤ buf.size) (fuel : Nat) (cm : Bytes) (b e : Nat) (up next : T)
    (hsz : treeSize up < fuel) (hs : Safe ids.rPegText n up) (hk : Kids G NUL (ruleBody ids.rConst) b e up) :
    NP (parseConst ids buf fuel cm (.node ids.rConst b e up next)) := by
  change Kids G NUL (.seq (.call R.CONST) (.seq (.call ids.rFieldType) (.seq (.call ids.rIdentifier) (.seq (.call ids.rEQUAL)
    (.seq (.call ids.rConstValue) (.opt (.call ids.rListSeparator))))))) b e up at hk
  cases hk with | seq h1 hk =>
  cases hk with | seq h2 hk =>
  cases hk with | seq h3 hk =>
  cases hk with | seq h4 hk =>
  cases hk with | seq h5 h6 =>
  obtain ⟨u1, rfl, _, _⟩ := kids_call (by decide) h1
  obtain ⟨u2, rfl, _, hk2⟩ := kids_call (by decide) h2
  obtain ⟨u3, rfl, _, _⟩ := kids_call (by decide) h3
  obtain ⟨u4, rfl, _, _⟩ := kids_call (by decide) h4
  obtain ⟨u5, rfl, _, hk5⟩ := kids_call (by decide) h5
  simp only [T.append, treeSize] at hs hsz ⊢
  simp [parseConst, checkrule, rule?, up?, next?]
  refine NP_bind ((fieldType_np buf n hn fuel).1 _ _ u2 _ (by omega) hs.next.up hk2) (fun _ _ => ?_)
  refine NP_bind (pegText_np buf hn hs.next.next) (fun _ _ => ?_)
  exact NP_bind ((constValue_np buf n hn fuel).1 _ _ u5 _ (by omega) hs.next.next.next.next.up hk5) (fun _ _ => by simp)

theorem parseTypedef_np (buf : Array Nat) (n : Nat) (hn : n ≤ buf.size) (fuel : Nat) (cm : Bytes) (b e : Nat) (up next : T)
    (hsz : treeSize up < fuel) (hs : Safe ids.rPegText n up) (hk : Kids G NUL (ruleBody ids.rTypedef) b e up) :
    NP (parseTypedef ids buf fuel cm (.node ids.rTypedef b e up next)) := by
  change Kids G NUL (.seq (.call R.TYPEDEF) (.seq (.call ids.rFieldType) (.call ids.rIdentifier))) b e up at hk
  cases hk with | seq h1 hk =>
  cases hk with | seq h2 h3 =>
  obtain ⟨u1, rfl, _, _⟩ := kids_call (by decide) h1
  obtain ⟨u2, rfl, _, hk2⟩ := kids_call (by decide) h2
  obtain ⟨u3, rfl, _, _⟩ := kids_call (by decide) h3
  simp only [T.append, treeSize] at hs hsz ⊢
  simp [parseTypedef, checkrule, rule?, up?, next?]
  refine NP_bind ((fieldType_np buf n hn fuel).1 _ _ u2 _ (by omega) hs.next.up hk2) (fun _ _ => ?_)
  exact NP_bind (pegText_np buf hn hs.next.next) (fun _ _ => by simp)

theorem treeSize_append (a b : T) : treeSize (a.append b) = treeSize a + treeSize b := by
  induction a with
  | nil => simp [T.append, treeSize]
  | node r b0 e0 up next _ ih => simp only [T.append, treeSize, ih]; omega

/-- `KW Identifier LWING Field* RWING` as parseStruct / parseUnion walk it -/
theorem parseStructLike_np (buf : Array Nat) (n : Nat) (hn : n ≤ buf.size) (fuel : Nat) (cat rule kw : Nat) (cm : Bytes)
    (b e : Nat) (up next : T) (hkw : NUL.getD kw true = false)
    (hsz : treeSize up < fuel) (hs : Safe ids.rPegText n up)
    (hk : Kids G NUL (.seq (.call kw) (.seq (.call ids.rIdentifier) (.seq (.call R.LWING) (.seq (.star (.call ids.rField)) (.call R.RWING))))) b e up) :
    NP (parseStructLike ids buf fuel cat rule cm (.node rule b e up next)) := by
  cases hk with | seq h1 hk =>
  cases hk with | seq h2 hk =>
  cases hk with | seq h3 hk =>
  obtain ⟨u1, rfl, _, _⟩ := kids_call hkw h1
  obtain ⟨u2, rfl, _, _⟩ := kids_call (by decide) h2
  obtain ⟨u3, rfl, _, _⟩ := kids_call (by decide) h3
  have hg := kids_all_good hk
  simp only [T.append, treeSize] at hs hsz ⊢
  simp [parseStructLike, checkrule, rule?, up?, next?]
  refine NP_bind (pegText_np buf hn hs.next) (fun _ _ => ?_)
  exact NP_bind (fieldsLoop_np buf n hn fuel id _ [] (by omega) hs.next.next.next hg) (fun _ _ => by simp)

theorem parseException_np (buf : Array Nat) (n : Nat) (hn : n ≤ buf.size) (fuel : Nat) (cm : Bytes)
    (b e : Nat) (up next : T) (hsz : treeSize up < fuel) (hs : Safe ids.rPegText n up)
    (hk : Kids G NUL (ruleBody ids.rException) b e up) :
    NP (parseException ids buf fuel cm (.node ids.rException b e up next)) := by
  change Kids G NUL (.seq (.call R.EXCEPTION) (.seq (.call ids.rIdentifier) (.seq (.call R.LWING) (.seq (.star (.call ids.rField)) (.call R.RWING))))) b e up at hk
  cases hk with | seq h1 hk =>
  cases hk with | seq h2 hk =>
  obtain ⟨u1, rfl, _, _⟩ := kids_call (by decide) h1
  obtain ⟨u2, rfl, _, _⟩ := kids_call (by decide) h2
  have hg := kids_all_good hk
  simp only [T.append, treeSize] at hs hsz ⊢
  simp [parseException, checkrule, rule?, up?, next?]
  refine NP_bind (pegText_np buf hn hs.next) (fun _ _ => ?_)
  exact NP_bind (fieldsLoop_np buf n hn fuel id _ [] (by omega) hs.next.next hg) (fun _ _ => by simp)

theorem parseThrows_np (buf : Array Nat) (n : Nat) (hn : n ≤ buf.size) (fuel : Nat)
    (b e : Nat) (up next : T) (hsz : treeSize up < fuel) (hs : Safe ids.rPegText n up)
    (hk : Kids G NUL (ruleBody ids.rThrows) b e up) :
    NP (parseThrows ids buf fuel (.node ids.rThrows b e up next)) := by
  change Kids G NUL (.seq (.call R.THROWS) (.seq (.call R.LPAR) (.seq (.star (.call ids.rField)) (.call R.RPAR)))) b e up at hk
  cases hk with | seq h1 hk =>
  obtain ⟨u1, rfl, _, _⟩ := kids_call (by decide) h1
  have hg := kids_all_good hk
  simp only [T.append, treeSize] at hs hsz ⊢
  simp [parseThrows, checkrule, rule?, up?, next?]
  exact fieldsLoop_np buf n hn fuel _ _ [] (by omega) hs.next hg


/-! ### services -/

theorem functionLoop_np (buf : Array Nat) (n : Nat) (hn : n ≤ buf.size) (fuel : Nat) : ∀ (t : T) (f : Function),
    treeSize t < fuel → Safe ids.rPegText n t → All Good t → NP (functionLoop ids buf fuel f t) := by
  intro t
  induction t with
  | nil => intro f _ _ _; simp [functionLoop]
  | node r b e up next _ ih =>
    intro f hsz hs hg
    simp only [treeSize] at hsz
    have ihn := fun f' => ih f' (by omega) hs.next hg.tail
    have hgood := hg.head
    rw [functionLoop.eq_def]
    simp only []
    split
    · rename_i h; subst h
      np_match (parseReservedComments_good buf n hn _ b e up next hs.up hgood (.inl rfl))
      exact ihn _
    split
    · exact ihn _
    split
    · rename_i h; subst h
      have hk := hgood.kids (by decide)
      change Kids G NUL (.alt (.call ids.rVOID) (.call ids.rFieldType)) b e up at hk
      cases hk with
      | altL hk =>
        obtain ⟨u, rfl, _⟩ := kids_call_span hgood.1 hk
        simp
        exact ihn _
      | altR hk =>
        obtain ⟨u, rfl, hku⟩ := kids_call_span hgood.1 hk
        simp only [treeSize] at hsz
        simp
        np_match ((fieldType_np buf n hn fuel).1 b e u .nil (by omega) hs.up.up hku)
        exact ihn _
    split
    · np_match (pegText_np buf hn hs)
      exact ihn _
    split
    · rename_i h; subst h
      np_match (parseField_np buf n hn fuel b e up next (by omega) hs.up (hgood.kids (by decide)))
      exact ihn _
    split
    · rename_i h; subst h
      np_match (parseThrows_np buf n hn fuel b e up next (by omega) hs.up (hgood.kids (by decide)))
      exact ihn _
    split
    · rename_i h; subst h
      np_match (parseAnnotations_np buf n hn b e up next hs.up (hgood.kids (by decide)))
      exact ihn _
    · exact ihn _

theorem parseFunction_np (buf : Array Nat) (n : Nat) (hn : n ≤ buf.size) (fuel : Nat) (b e : Nat) (up next : T)
    (hsz : treeSize up < fuel) (hs : Safe ids.rPegText n up) (hk : Kids G NUL (ruleBody ids.rFunction) b e up) :
    NP (parseFunction ids buf fuel (.node ids.rFunction b e up next)) := by
  have := functionLoop_np buf n hn fuel up emptyFunction hsz hs (kids_all_good hk)
  simpa [parseFunction, checkrule, rule?, up?] using this

theorem functionsLoop_np (buf : Array Nat) (n : Nat) (hn : n ≤ buf.size) (fuel : Nat) : ∀ (t : T) (acc : List Function),
    treeSize t < fuel → Safe ids.rPegText n t → All Good t → NP (functionsLoop ids buf fuel acc t) := by
  intro t
  induction t with
  | nil => intro acc _ _ _; simp [functionsLoop]
  | node r b e up next _ ihn =>
    intro acc hsz hs hg
    simp only [treeSize] at hsz
    rw [functionsLoop.eq_def]
    simp only []
    split
    · rename_i h; subst h
      np_match (parseFunction_np buf n hn fuel b e up next (by omega) hs.up (hg.head.kids (by decide)))
      exact ihn _ (by omega) hs.next hg.tail
    · exact ihn _ (by omega) hs.next hg.tail

theorem parseService_np (buf : Array Nat) (n : Nat) (hn : n ≤ buf.size) (fuel : Nat) (cm : Bytes)
    (b e : Nat) (up next : T) (hsz : treeSize up < fuel) (hs : Safe ids.rPegText n up)
    (hk : Kids G NUL (ruleBody ids.rService) b e up) :
    NP (parseService ids buf fuel cm (.node ids.rService b e up next)) := by
  change Kids G NUL (.seq (.call R.SERVICE) (.seq (.call ids.rIdentifier) (.seq (.opt (.seq (.call ids.rEXTENDS) (.call ids.rIdentifier)))
    (.seq (.call R.LWING) (.seq (.star (.call ids.rFunction)) (.call R.RWING)))))) b e up at hk
  cases hk with | seq h1 hk =>
  cases hk with | seq h2 hk =>
  cases hk with | seq hext hk =>
  cases hk with | seq h4 hk =>
  obtain ⟨u1, rfl, _, _⟩ := kids_call (by decide) h1
  obtain ⟨u2, rfl, _, _⟩ := kids_call (by decide) h2
  obtain ⟨u4, rfl, hlt4, hk4⟩ := kids_call (by decide) h4
  have hg := kids_all_good hk
  cases hext with
  | optNil =>
    simp only [T.append, treeSize] at hs hsz ⊢
    simp [parseService, checkrule, rule?, up?, next?, R.LWING]
    refine NP_bind (pegText_np buf hn hs.next) (fun _ _ => ?_)
    exact NP_bind (functionsLoop_np buf n hn fuel _ [] (by omega) hs.next.next.next hg) (fun _ _ => by simp)
  | optSome hext =>
    cases hext with | seq h5 h6 =>
    obtain ⟨u5, rfl, _, _⟩ := kids_call (by decide) h5
    obtain ⟨u6, rfl, _, _⟩ := kids_call (by decide) h6
    simp only [T.append, treeSize] at hs hsz ⊢
    simp [parseService, checkrule, rule?, up?, next?, W_bind_assoc]
    refine NP_bind (pegText_np buf hn hs.next) (fun _ _ => ?_)
    refine NP_bind (pegText_np buf hn hs.next.next) (fun _ _ => ?_)
    have hall := All.node (P := Good) (r := R.LWING) (up := u4) ⟨hlt4, fun _ => hk4⟩ hg
    exact NP_bind (functionsLoop_np buf n hn fuel _ [] (by simp only [treeSize]; omega) hs.next.next.next.next hall) (fun _ _ => by simp)


/-! ### enums -/

theorem append_assoc (a b c : T) : (a.append b).append c = a.append (b.append c) := by
  induction a with
  | nil => rfl
  | node r b0 e0 up next _ ih => simp [T.append, ih]

/-- the sibling chain parseEnum's loop walks: it ends with the closing brace, every other node conforms to its rule,
an EQUAL is followed by an IntConstant -/
inductive EnumChain : T → Prop
  | last {b e up} : EnumChain (.node R.RWING b e up .nil)
  | eq {b e up bi ei ui rest} : EnumChain (.node ids.rIntConstant bi ei ui rest) →
      EnumChain (.node ids.rEQUAL b e up (.node ids.rIntConstant bi ei ui rest))
  | other {r b e up next} : r ≠ R.RWING → r ≠ ids.rEQUAL → Good r b e up → EnumChain next →
      EnumChain (.node r b e up next)

theorem EnumChain.call {r lo hi : Nat} {t tail : T} (hr1 : r ≠ R.RWING) (hr : r ≠ ids.rEQUAL) (h : Kids G NUL (.call r) lo hi t)
    (ht : EnumChain tail) : EnumChain (t.append tail) := by
  rcases kids_call_opt h with ⟨rfl, _⟩ | ⟨up, rfl, hlt, hk⟩
  · exact ht
  · exact .other hr1 hr ⟨hlt, fun _ => hk⟩ ht

theorem EnumChain.optCall {r lo hi : Nat} {t tail : T} (hr1 : r ≠ R.RWING) (hr : r ≠ ids.rEQUAL)
    (h : Kids G NUL (.opt (.call r)) lo hi t) (ht : EnumChain tail) : EnumChain (t.append tail) := by
  cases h with
  | optNil => exact ht
  | optSome h => exact EnumChain.call hr1 hr h ht

theorem EnumChain.optEq {lo hi : Nat} {t tail : T}
    (h : Kids G NUL (.opt (.seq (.call ids.rEQUAL) (.call ids.rIntConstant))) lo hi t)
    (ht : EnumChain tail) : EnumChain (t.append tail) := by
  cases h with
  | optNil => exact ht
  | optSome h =>
    cases h with
    | seq h1 h2 =>
      obtain ⟨u1, rfl, _, _⟩ := kids_call (by decide) h1
      obtain ⟨u2, rfl, hlt2, hk2⟩ := kids_call (by decide) h2
      simp only [T.append]
      exact .eq (.other (by decide) (by decide) ⟨hlt2, fun _ => hk2⟩ ht)

abbrev enumItem : Expr :=
  .seq (.call ids.rReservedComments) (.seq (.call ids.rIdentifier) (.seq (.opt (.seq (.call ids.rEQUAL) (.call ids.rIntConstant)))
    (.seq (.opt (.call ids.rAnnotations)) (.seq (.opt (.call ids.rListSeparator)) (.seq (.call ids.rReservedEndLineComments) (.call ids.rSkipLine))))))

theorem EnumChain.items {lo hi : Nat} {t tail : T} (h : Kids G NUL (.star enumItem) lo hi t) (ht : EnumChain tail) :
    EnumChain (t.append tail) := by
  generalize he : Expr.star enumItem = ex at h
  induction h with
  | starNil => exact ht
  | starCons h1 _ _ ih2 =>
    injection he with he'
    subst he'
    have ih := ih2 rfl
    cases h1 with | seq h1 hk =>
    cases hk with | seq h2 hk =>
    cases hk with | seq h3 hk =>
    cases hk with | seq h4 hk =>
    cases hk with | seq h5 hk =>
    cases hk with | seq h6 h7 =>
    simp only [append_assoc]
    exact EnumChain.call (by decide) (by decide) h1 (EnumChain.call (by decide) (by decide) h2 (EnumChain.optEq h3
      (EnumChain.optCall (by decide) (by decide) h4 (EnumChain.optCall (by decide) (by decide) h5
      (EnumChain.call (by decide) (by decide) h6 (EnumChain.call (by decide) (by decide) h7 ih))))))
  | _ => cases he

theorem EnumChain.tail {r b e : Nat} {up next : T} (h : EnumChain (.node r b e up next)) (hr : r ≠ R.RWING) : EnumChain next := by
  cases h with
  | last => exact absurd rfl hr
  | eq h => exact h
  | other _ _ _ h => exact h

theorem EnumChain.exists_node {t : T} (h : EnumChain t) : ∃ r b e up next, t = .node r b e up next := by
  cases h <;> exact ⟨_, _, _, _, _, rfl⟩

theorem EnumChain.good {r b e : Nat} {up next : T} (h : EnumChain (.node r b e up next)) (hr : r ≠ R.RWING) (hr2 : r ≠ ids.rEQUAL) :
    Good r b e up := by
  cases h with
  | last => exact absurd rfl hr
  | eq h => exact absurd rfl hr2
  | other _ _ hg _ => exact hg

theorem peekNext_ok {r b e : Nat} {up next : T} (h : EnumChain (.node r b e up next)) (hr : r ≠ R.RWING) :
    ∃ r2 b2 e2 u2 rest, next = .node r2 b2 e2 u2 rest ∧ peekNext (.node r b e up next) = .ok (r2, next) := by
  obtain ⟨r2, b2, e2, u2, rest, rfl⟩ := (h.tail hr).exists_node
  exact ⟨r2, b2, e2, u2, rest, rfl, by simp [peekNext, next?, rule?]⟩

/-- total-correctness style triple for the W monad: no panic / crash, and the result satisfies `Q` -/
def Post {α} (x : W α) (Q : α → Prop) : Prop := NP x ∧ ∀ a, x = .ok a → Q a

theorem Post.bind {α β} {x : W α} {f : α → W β} {Q : α → Prop} {R : β → Prop}
    (hx : Post x Q) (hf : ∀ a, Q a → Post (f a) R) : Post (x >>= f) R := by
  cases x with
  | ok a => simpa using hf a (hx.2 a rfl)
  | err => exact ⟨by simp, fun _ h => by simp at h⟩
  | panic => exact absurd rfl hx.1.1
  | crash => exact absurd rfl hx.1.2

theorem Post.pure {α} {a : α} {Q : α → Prop} (h : Q a) : Post (pure a : W α) Q :=
  ⟨by simp, fun b hb => by simp at hb; exact hb ▸ h⟩

theorem Post.ok {α} {a : α} {Q : α → Prop} (h : Q a) : Post (W.ok a) Q := Post.pure h

theorem Post.err {α} {Q : α → Prop} : Post (W.err : W α) Q := ⟨by simp, fun _ h => by simp at h⟩

theorem Post.of_np {α} {x : W α} (h : NP x) : Post x (fun _ => True) := ⟨h, fun _ _ => trivial⟩

theorem Post.np {α} {x : W α} {Q : α → Prop} (h : Post x Q) : NP x := h.1

/-- cursor of the enum loop: a non-brace node of an enum chain -/
structure Cur (n L : Nat) (t : T) : Prop where
  chain : EnumChain t
  notR : ¬ isRule t R.RWING = true
  safe : Safe ids.rPegText n t
  len : chainLen t ≤ L

theorem Cur.node {n L : Nat} {t : T} (h : Cur n L t) : ∃ r b e up next, t = .node r b e up next ∧ r ≠ R.RWING := by
  obtain ⟨r, b, e, up, next, rfl⟩ := h.chain.exists_node
  refine ⟨r, b, e, up, next, rfl, ?_⟩
  intro hr; apply h.notR; simp [isRule, hr]

/-- `peekNext` at a cursor: the next node exists, is an enum chain, one shorter -/
theorem peekNext_post {n L : Nat} {t : T} (h : Cur n L t) :
    Post (peekNext t) (fun p => isRule p.2 p.1 = true ∧ EnumChain p.2 ∧ Safe ids.rPegText n p.2 ∧ chainLen p.2 + 1 ≤ L) := by
  obtain ⟨r, b, e, up, next, rfl, hr⟩ := h.node
  obtain ⟨r2, b2, e2, u2, rest, rfl⟩ := (h.chain.tail hr).exists_node
  have hl := h.len
  simp only [chainLen] at hl
  simp only [peekNext, next?, rule?, bind_ok, pure_eq]
  exact Post.ok ⟨by simp [isRule], h.chain.tail hr, h.safe.next, by simp only [chainLen]; omega⟩

theorem cur_of_rule {n L : Nat} {t : T} {x : Nat} (hx : x ≠ R.RWING) (h1 : isRule t x = true) (h2 : EnumChain t)
    (h3 : Safe ids.rPegText n t) (h4 : chainLen t ≤ L) : Cur n L t := by
  refine ⟨h2, ?_, h3, h4⟩
  cases t with
  | nil => simp [isRule]
  | node r b e up next =>
    simp only [isRule, decide_eq_true_eq] at h1 ⊢
    omega

theorem EnumChain.eq_inv {b e : Nat} {up next : T} (h : EnumChain (.node ids.rEQUAL b e up next)) :
    ∃ bi ei ui rest, next = .node ids.rIntConstant bi ei ui rest ∧ EnumChain next := by
  cases h with
  | eq h => exact ⟨_, _, _, _, rfl, h⟩
  | other _ hr _ _ => exact absurd rfl hr

theorem isRule_node {t : T} {x : Nat} (h : isRule t x = true) : ∃ b e up next, t = .node x b e up next := by
  cases t with
  | nil => simp [isRule] at h
  | node r b e up next => simp only [isRule, decide_eq_true_eq] at h; subst h; exact ⟨_, _, _, _, rfl⟩

theorem enumValueAt_post (buf : Array Nat) (n : Nat) (hn : n ≤ buf.size) {L : Nat} (values : List EnumValue) (vc : Bytes)
    {t : T} (h : Cur n L t) :
    Post (enumValueAt ids buf values vc t) (fun p => Cur n L p.2) := by
  unfold enumValueAt
  refine Post.bind (Post.of_np (pegText_np buf hn h.safe)) (fun name _ => ?_)
  refine Post.bind (peekNext_post h) (fun p hp => ?_)
  obtain ⟨r1, nx⟩ := p
  obtain ⟨hp1, hp2, hp3, hp4⟩ := hp
  dsimp only at hp1 hp2 hp3 hp4 ⊢
  refine Post.bind (Q := fun q => Cur n L q.2) ?_ (fun q hq => ?_)
  · split
    · rename_i hr1
      subst hr1
      obtain ⟨b, e, up, next, rfl⟩ := isRule_node hp1
      obtain ⟨bi, ei, ui, rest, rfl, hch⟩ := hp2.eq_inv
      simp only [next?, bind_ok]
      refine Post.bind (Post.of_np (pegText_np buf hn hp3.next)) (fun s _ => ?_)
      split
      · refine Post.pure ?_
        simp only [chainLen] at hp4
        exact cur_of_rule (x := ids.rIntConstant) (by decide) (by simp [isRule]) hch hp3.next (by simp only [chainLen]; omega)
      · exact Post.err
    · exact Post.pure h
  obtain ⟨value, c1⟩ := q
  dsimp only at hq ⊢
  refine Post.bind (peekNext_post hq) (fun p hp => ?_)
  obtain ⟨r2, nx2⟩ := p
  obtain ⟨hp1, hp2, hp3, hp4⟩ := hp
  dsimp only at hp1 hp2 hp3 hp4 ⊢
  refine Post.bind (Q := fun q => Cur n L q.2) ?_ (fun q hq2 => ?_)
  · split
    · rename_i hr2
      subst hr2
      obtain ⟨b, e, up, next, rfl⟩ := isRule_node hp1
      have hg := hp2.good (by decide) (by decide)
      refine Post.bind (Post.of_np (parseAnnotations_np buf n hn b e up next hp3.up (hg.kids (by decide)))) (fun a _ => ?_)
      refine Post.pure ?_
      dsimp only
      exact cur_of_rule (x := ids.rAnnotations) (by decide) hp1 hp2 hp3 (by omega)
    · exact Post.pure hq
  obtain ⟨anns, c2⟩ := q
  dsimp only at hq2 ⊢
  refine Post.bind (peekNext_post hq2) (fun p hp => ?_)
  obtain ⟨r3, nx3⟩ := p
  obtain ⟨hp1, hp2, hp3, hp4⟩ := hp
  dsimp only at hp1 hp2 hp3 hp4 ⊢
  have hc3 : Cur n L (if r3 = ids.rListSeparator then nx3 else c2) := by
    split
    · rename_i hr3; subst hr3
      exact cur_of_rule (x := ids.rListSeparator) (by decide) hp1 hp2 hp3 (by omega)
    · exact hq2
  refine Post.bind (peekNext_post hc3) (fun p hp => ?_)
  obtain ⟨r4, nx4⟩ := p
  obtain ⟨hp1, hp2, hp3, hp4⟩ := hp
  dsimp only at hp1 hp2 hp3 hp4 ⊢
  split
  · rename_i hr4
    obtain ⟨hr4, _⟩ := hr4
    subst hr4
    obtain ⟨b, e, up, next, rfl⟩ := isRule_node hp1
    have hg := hp2.good (by decide) (by decide)
    refine Post.bind (Post.of_np (parseReservedComments_good buf n hn _ b e up next hp3.up hg (.inr rfl))) (fun c _ => ?_)
    refine Post.pure ?_
    dsimp only
    exact cur_of_rule (x := ids.rReservedEndLineComments) (by decide) hp1 hp2 hp3 (by omega)
  · exact Post.pure hc3

theorem EnumChain.tail_or_nil {r b e : Nat} {up next : T} (h : EnumChain (.node r b e up next)) :
    next = .nil ∨ EnumChain next := by
  cases h with
  | last => exact .inl rfl
  | eq h => exact .inr h
  | other _ _ _ h => exact .inr h

theorem enumLoop_np (buf : Array Nat) (n : Nat) (hn : n ≤ buf.size) : ∀ (fuel : Nat) (t : T) (values : List EnumValue),
    (t = .nil ∨ EnumChain t) → Safe ids.rPegText n t → chainLen t < fuel → NP (enumLoop ids buf fuel values t) := by
  intro fuel
  induction fuel with
  | zero => intro t values _ _ h; omega
  | succ fuel ih =>
    intro t values ht hs hlen
    rcases ht with rfl | hch
    · simp [enumLoop]
    obtain ⟨r, b, e, up, next, rfl⟩ := hch.exists_node
    simp only [chainLen] at hlen
    rw [enumLoop.eq_def]
    simp only [rule?, bind_ok]
    -- step 1: an optional ReservedComments node
    refine Post.np (Q := fun _ => True) ?_
    refine Post.bind (Q := fun (q : Bytes × T) => EnumChain q.2 ∧ Safe ids.rPegText n q.2 ∧ chainLen q.2 ≤ chainLen next + 1) ?_ (fun q hq => ?_)
    · split
      · rename_i hr; subst hr
        have hg := hch.good (by decide) (by decide)
        refine Post.bind (Post.of_np (parseReservedComments_good buf n hn _ b e up next hs.up hg (.inl rfl))) (fun c _ => ?_)
        simp only [next?, bind_ok]
        refine Post.pure ⟨hch.tail (by decide), hs.next, by dsimp only; omega⟩
      · exact Post.pure ⟨hch, hs, by simp only [chainLen]; omega⟩
    obtain ⟨vc, c⟩ := q
    obtain ⟨hc1, hc2, hc3⟩ := hq
    dsimp only at hc1 hc2 hc3 ⊢
    obtain ⟨r', b', e', up', next', rfl⟩ := hc1.exists_node
    simp only [chainLen] at hc3
    simp only [rule?, bind_ok]
    split
    · rename_i hr'; subst hr'
      have hcur : Cur n (chainLen next' + 1) (.node ids.rIdentifier b' e' up' next') :=
        cur_of_rule (x := ids.rIdentifier) (by decide) (by simp [isRule]) hc1 hc2 (by simp only [chainLen]; omega)
      refine Post.bind (enumValueAt_post buf n hn values vc hcur) (fun p hp => ?_)
      obtain ⟨v, c'⟩ := p
      dsimp only at hp ⊢
      obtain ⟨r2, b2, e2, u2, nx2, rfl, hr2⟩ := hp.node
      have hl := hp.len
      simp only [chainLen] at hl
      simp only [next?, bind_ok]
      exact Post.of_np (ih nx2 _ (hp.chain.tail_or_nil) hp.safe.next (by omega))
    · simp only [next?, bind_ok]
      exact Post.of_np (ih next' _ (hc1.tail_or_nil) hc2.next (by omega))

theorem parseEnum_np (buf : Array Nat) (n : Nat) (hn : n ≤ buf.size) (cm : Bytes)
    (b e : Nat) (up next : T) (hs : Safe ids.rPegText n up) (hk : Kids G NUL (ruleBody ids.rEnum) b e up) :
    NP (parseEnum ids buf cm (.node ids.rEnum b e up next)) := by
  change Kids G NUL (.seq (.call R.ENUM) (.seq (.call ids.rIdentifier) (.seq (.call R.LWING) (.seq (.star enumItem) (.call R.RWING))))) b e up at hk
  cases hk with | seq h1 hk =>
  cases hk with | seq h2 hk =>
  cases hk with | seq h3 hk =>
  cases hk with | seq h4 h5 =>
  obtain ⟨u1, rfl, _, _⟩ := kids_call (by decide) h1
  obtain ⟨u2, rfl, _, _⟩ := kids_call (by decide) h2
  obtain ⟨u3, rfl, _, _⟩ := kids_call (by decide) h3
  obtain ⟨u5, rfl, _, _⟩ := kids_call (by decide) h5
  simp only [T.append] at hs ⊢
  simp [parseEnum, checkrule, rule?, up?, next?]
  refine NP_bind (pegText_np buf hn hs.next) (fun _ _ => ?_)
  exact NP_bind (enumLoop_np buf n hn _ _ [] (.inr (EnumChain.items h4 .last)) hs.next.next.next (by omega)) (fun _ _ => by simp)


/-! ### definitions, documents -/

abbrev defAlts : Expr :=
  .alt (.call ids.rConst) (.alt (.call ids.rTypedef) (.alt (.call ids.rEnum) (.alt (.call ids.rService)
    (.alt (.call ids.rStruct) (.alt (.call ids.rUnion) (.call ids.rException))))))

/-- the dispatch of parseDefinition on the definition node itself -/
theorem defDispatch_np (buf : Array Nat) (n : Nat) (hn : n ≤ buf.size) (fuel : Nat) {lo hi : Nat} {t : T}
    (h : Kids G NUL defAlts lo hi t) (hsz : treeSize t < fuel) (hs : Safe ids.rPegText n t) :
    ∃ r b e up, t = .node r b e up .nil ∧ r ≠ ids.rReservedComments ∧ r ≠ ids.rSkip ∧ ∀ (cm : Bytes) (tl : T), NP
      (if r = ids.rConst then do pure (Def.const (← parseConst ids buf fuel cm (.node r b e up tl)))
        else if r = ids.rTypedef then do pure (Def.typedef (← parseTypedef ids buf fuel cm (.node r b e up tl)))
        else if r = ids.rEnum then do pure (Def.enum (← parseEnum ids buf cm (.node r b e up tl)))
        else if r = ids.rUnion then do pure (Def.slike (← parseStructLike ids buf fuel 1 ids.rUnion cm (.node r b e up tl)))
        else if r = ids.rStruct then do pure (Def.slike (← parseStructLike ids buf fuel 0 ids.rStruct cm (.node r b e up tl)))
        else if r = ids.rException then do pure (Def.slike (← parseException ids buf fuel cm (.node r b e up tl)))
        else if r = ids.rService then do pure (Def.service (← parseService ids buf fuel cm (.node r b e up tl)))
        else .err : W Def) := by
  cases h with
  | altL h =>
    obtain ⟨u, rfl, _, hk⟩ := kids_call (by decide) h
    simp only [treeSize] at hsz
    refine ⟨_, _, _, _, rfl, by decide, by decide, fun cm tl => ?_⟩
    simp
    exact NP_bind (parseConst_np buf n hn fuel cm _ _ u tl (by omega) hs.up hk) (fun _ _ => by simp)
  | altR h =>
  cases h with
  | altL h =>
    obtain ⟨u, rfl, _, hk⟩ := kids_call (by decide) h
    simp only [treeSize] at hsz
    refine ⟨_, _, _, _, rfl, by decide, by decide, fun cm tl => ?_⟩
    simp
    exact NP_bind (parseTypedef_np buf n hn fuel cm _ _ u tl (by omega) hs.up hk) (fun _ _ => by simp)
  | altR h =>
  cases h with
  | altL h =>
    obtain ⟨u, rfl, _, hk⟩ := kids_call (by decide) h
    refine ⟨_, _, _, _, rfl, by decide, by decide, fun cm tl => ?_⟩
    simp
    exact NP_bind (parseEnum_np buf n hn cm _ _ u tl hs.up hk) (fun _ _ => by simp)
  | altR h =>
  cases h with
  | altL h =>
    obtain ⟨u, rfl, _, hk⟩ := kids_call (by decide) h
    simp only [treeSize] at hsz
    refine ⟨_, _, _, _, rfl, by decide, by decide, fun cm tl => ?_⟩
    simp
    exact NP_bind (parseService_np buf n hn fuel cm _ _ u tl (by omega) hs.up hk) (fun _ _ => by simp)
  | altR h =>
  cases h with
  | altL h =>
    obtain ⟨u, rfl, _, hk⟩ := kids_call (by decide) h
    simp only [treeSize] at hsz
    refine ⟨_, _, _, _, rfl, by decide, by decide, fun cm tl => ?_⟩
    simp
    exact NP_bind (parseStructLike_np buf n hn fuel 0 ids.rStruct R.STRUCT cm _ _ u tl (by decide) (by omega) hs.up hk) (fun _ _ => by simp)
  | altR h =>
  cases h with
  | altL h =>
    obtain ⟨u, rfl, _, hk⟩ := kids_call (by decide) h
    simp only [treeSize] at hsz
    refine ⟨_, _, _, _, rfl, by decide, by decide, fun cm tl => ?_⟩
    simp
    exact NP_bind (parseStructLike_np buf n hn fuel 1 ids.rUnion R.UNION cm _ _ u tl (by decide) (by omega) hs.up hk) (fun _ _ => by simp)
  | altR h =>
    obtain ⟨u, rfl, _, hk⟩ := kids_call (by decide) h
    simp only [treeSize] at hsz
    refine ⟨_, _, _, _, rfl, by decide, by decide, fun cm tl => ?_⟩
    simp
    exact NP_bind (parseException_np buf n hn fuel cm _ _ u tl (by omega) hs.up hk) (fun _ _ => by simp)

theorem parseDefinition_np (buf : Array Nat) (n : Nat) (hn : n ≤ buf.size) (fuel : Nat) (t : Thrift) (b e : Nat) (up next : T)
    (hsz : treeSize up < fuel) (hs : Safe ids.rPegText n up) (hk : Kids G NUL (ruleBody ids.rDefinition) b e up) :
    NP (parseDefinition ids buf fuel t (.node ids.rDefinition b e up next)) := by
  change Kids G NUL (.seq (.call ids.rReservedComments) (.seq (.call ids.rSkip) (.seq defAlts (.seq (.opt (.call ids.rAnnotations))
    (.call ids.rSkipLine))))) b e up at hk
  cases hk with | @seq _ _ _ _ _ tR _ h1 hk =>
  cases hk with | @seq _ _ _ _ _ tK _ h2 hk =>
  cases hk with | @seq _ _ _ _ _ tD _ h3 hk =>
  cases hk with | @seq _ _ _ _ _ tA tS h4 h5 =>
  -- the tail after the definition node: optional annotations, optional SkipLine
  have htail : ∀ (d : Def), Safe ids.rPegText n (tA.append tS) →
      NP (if isRule (tA.append tS) ids.rAnnotations = true then do
            let a ← parseAnnotations ids buf (tA.append tS)
            pure (addDef t (some a) d)
          else pure (addDef t none d) : W Thrift) := by
    intro d hsT
    cases h4 with
    | optNil =>
      rcases kids_call_opt h5 with ⟨rfl, _⟩ | ⟨u, rfl, _, _⟩ <;> simp [T.append, isRule]
    | optSome h4 =>
      obtain ⟨u, rfl, _, hku⟩ := kids_call (by decide) h4
      simp only [T.append] at hsT ⊢
      simp only [isRule, decide_true, if_true]
      exact NP_bind (parseAnnotations_np buf n hn _ _ u _ hsT.up hku) (fun _ _ => by simp)
  have hsD : Safe ids.rPegText n tD := Safe.of_append_left (Safe.of_append_right (Safe.of_append_right hs))
  have hszD : treeSize tD < fuel := by
    simp only [treeSize_append] at hsz; omega
  have hsT : Safe ids.rPegText n (tA.append tS) := Safe.of_append_right (Safe.of_append_right (Safe.of_append_right hs))
  obtain ⟨rD, bD, eD, uD, rfl, hne1, hne2, hdisp⟩ := defDispatch_np buf n hn fuel h3 hszD hsD
  have hne1' : ¬ rD = 42 := hne1
  have hne2' : ¬ rD = 44 := hne2
  rcases kids_call_opt h1 with ⟨rfl, _⟩ | ⟨u1, rfl, hlt1, hk1⟩
  · rcases kids_call_opt h2 with ⟨rfl, _⟩ | ⟨u2, rfl, _, _⟩
    · simp only [T.append] at hs ⊢
      simp [parseDefinition, checkrule, rule?, up?, next?, W_bind_assoc, hne1', hne2']
      exact NP_bind (hdisp _ _) (fun d _ => htail d hsT)
    · simp only [T.append] at hs ⊢
      simp [parseDefinition, checkrule, rule?, up?, next?, W_bind_assoc, hne1', hne2']
      exact NP_bind (hdisp _ _) (fun d _ => htail d hsT)
  · have hrc : ∀ nx, NP (parseReservedComments ids buf (.node ids.rReservedComments _ _ u1 nx) ids.rReservedComments) :=
      fun nx => parseReservedComments_np buf n hn _ ids.rSkip _ _ u1 nx (Safe.of_append_left hs).up hlt1 hk1
    rcases kids_call_opt h2 with ⟨rfl, _⟩ | ⟨u2, rfl, _, _⟩
    · simp only [T.append] at hs ⊢
      simp [parseDefinition, checkrule, rule?, up?, next?, W_bind_assoc, hne1', hne2']
      exact NP_bind (hrc _) (fun c _ => NP_bind (hdisp _ _) (fun d _ => htail d hsT))
    · simp only [T.append] at hs ⊢
      simp [parseDefinition, checkrule, rule?, up?, next?, W_bind_assoc, hne1', hne2']
      exact NP_bind (hrc _) (fun c _ => NP_bind (hdisp _ _) (fun d _ => htail d hsT))

theorem docLoop_np (buf : Array Nat) (n : Nat) (hn : n ≤ buf.size) (fuel : Nat) : ∀ (t : T) (acc : Thrift),
    treeSize t < fuel → Safe ids.rPegText n t → All Good t → NP (docLoop ids buf fuel acc t) := by
  intro t
  induction t with
  | nil => intro acc _ _ _; simp [docLoop]
  | node r b e up next _ ihn =>
    intro acc hsz hs hg
    simp only [treeSize] at hsz
    have ih := fun acc' => ihn acc' (by omega) hs.next hg.tail
    rw [docLoop.eq_def]
    simp only []
    split
    · exact ih _
    split
    · rename_i h; subst h
      np_match (parseHeader_np buf n hn acc b e up next hs.up (hg.head.kids (by decide)))
      exact ih _
    split
    · rename_i h; subst h
      np_match (parseDefinition_np buf n hn fuel acc b e up next (by omega) hs.up (hg.head.kids (by decide)))
      exact ih _
    · simp

/-- `(*parser).parse` does not panic on the tree of a document -/
theorem walk_np (buf : Array Nat) (n : Nat) (hn : n ≤ buf.size) {lo hi : Nat} {root : T}
    (hk : Kids G NUL (.call ids.rDocument) lo hi root) (hs : Safe ids.rPegText n root) : NP (walk ids buf root) := by
  rcases kids_call_opt hk with ⟨rfl, _⟩ | ⟨up, rfl, _, hku⟩
  · simp [walk]
  · simp only [walk, ids_rDocument, ne_eq, not_true_eq_false, if_false]
    exact docLoop_np buf n hn _ up {} (by simp only [treeSize]; omega) hs.up (kids_all_good hku)


/-! ### the text of a double constant -/

theorem G_pegText : G.pegText = ids.rPegText := by decide


/-- the expression inside the capture of DoubleConstant -/
def dblCapBody : Expr :=
  match ruleBody ids.rDoubleConstant with
  | .seq _ (.seq (.cap x) _) => x
  | _ => .eps

theorem dbl_body : ruleBody ids.rDoubleConstant = .seq (.call R.Skip) (.seq (.cap dblCapBody) (.star (.call R.Indent))) := by decide

theorem dbl_cap_nonnull : nullable NUL dblCapBody = false := by decide

/-- For every DoubleConstant node of a parse tree, the text handed to `strconv.ParseFloat` is the node's own capture
(the whole literal, trailing blanks trimmed) — not the exponent's IntConstant. -/
theorem double_text (buf : Array Nat) (n : Nat) (hn : n ≤ buf.size) (fuel b0 e0 b e : Nat) (u next : T)
    (hs : Safe ids.rPegText n u) (hk : Kids G NUL (ruleBody ids.rDoubleConstant) b e u) :
    ∃ b1 e1, b ≤ b1 ∧ b1 < e1 ∧ e1 ≤ e ∧
      parseConstValue ids buf (fuel + 1) (.node ids.rConstValue b0 e0 (.node ids.rDoubleConstant b e u .nil) next) =
        .ok (.dbl (trimRightBlank (Utf8.encode (slice buf b1 e1)))) := by
  rw [dbl_body] at hk
  cases hk with | @seq _ _ _ mid _ t1 _ h1 hk =>
  cases hk with | @seq _ _ _ mid2 _ t2 t3 h2 h3 =>
  have hle1 := h1.le
  have hle3 := h3.le
  cases h2 with
  | capEmpty hnul => rw [dbl_cap_nonnull] at hnul; cases hnul
  | @capNode _ _ _ uc hkc hlt =>
    refine ⟨mid, mid2, hle1, hlt, hle3, ?_⟩
    have hwrap : ∀ (t : T), Safe ids.rPegText n t → ∃ s0, pegText ids buf (.node 29 b e t .nil) = .ok s0 := by
      intro t ht
      obtain ⟨s1, h1⟩ := pegText_ok ids buf hn ht
      by_cases hne : s1 ≠ []
      · exact ⟨s1, by simp [pegText, h1, hne]⟩
      · exact ⟨[], by simp [pegText, h1, hne]⟩
    rcases kids_call_opt h1 with ⟨rfl, _⟩ | ⟨us, rfl, _, _⟩
    · simp only [T.append] at hs ⊢
      obtain ⟨s0, hs0⟩ := hwrap _ hs
      have hb : ¬ (mid2 > buf.size ∨ mid > mid2) := by cases hs with | node _ h _ _ _ => omega
      simp only [G_pegText, ids_rPegText] at hs0
      simp [parseConstValue, checkrule, rule?, up?, hs0, findCap, G_pegText, isNil, rawText, hb]
    · simp only [T.append] at hs ⊢
      obtain ⟨s0, hs0⟩ := hwrap _ hs
      have hb : ¬ (mid2 > buf.size ∨ mid > mid2) := by cases hs.next with | node _ h _ _ _ => omega
      simp only [G_pegText, ids_rPegText, R.Skip] at hs0
      simp [parseConstValue, checkrule, rule?, up?, hs0, findCap, G_pegText, isNil, rawText, hb, R.Skip]

/-! ### the whole pipeline -/

end Walker

namespace C03
open Peg Walker

theorem parseString_cases (g : Grammar) (ids : Ids) (content : Bytes) :
    (parseRunes g (Utf8.decode content) = .oof ∧ parseString g ids content = .crash) ∨
    (parseRunes g (Utf8.decode content) = .fail ∧ parseString g ids content = .parseError) ∨
    (∃ p' s' t, parseRunes g (Utf8.decode content) = .ok p' s' t ∧
      parseString g ids content =
        match walk ids (Utf8.decode content ++ [1114112]).toArray (prune t) with
        | .ok a => .ok a
        | .err => .walkError
        | .panic => .panic
        | .crash => .crash) := by
  unfold parseString
  dsimp only
  generalize parseRunes g (Utf8.decode content) = res
  cases res with
  | oof => exact .inl ⟨rfl, rfl⟩
  | fail => exact .inr (.inl ⟨rfl, rfl⟩)
  | ok p' s' t => exact .inr (.inr ⟨p', s', t, rfl, rfl⟩)

/-- decode → match → prune → walk never ends in `panic` or `crash`, given the two decidable grammar checks -/
theorem parseString_safe (hwf : wf Walker.G Walker.NUL Generated.C03.rank = true)
    (hcap : capOK Walker.G Walker.NUL Generated.C03.capTab = true) (content : Bytes) :
    parseString Walker.G Walker.ids content = .parseError ∨ parseString Walker.G Walker.ids content = .walkError ∨
    ∃ t, parseString Walker.G Walker.ids content = .ok t := by
  have hw := wf_unpack hwf
  have hc := capOK_unpack hcap
  rcases parseString_cases Walker.G Walker.ids content with ⟨hp, _⟩ | ⟨_, h⟩ | ⟨p', s', t, hp, h⟩
  · exact absurd hp (parseRunes_no_oof hw _)
  · exact .inl h
  · have hk := run_kids hw.nulSound _ _ _ _ _ _ _ hp
    have hs := parse_safe hw hc _ _ _ _ hp
    have hnp := walk_np ((Utf8.decode content ++ [1114112]).toArray) (Utf8.decode content).length (by simp) hk hs
    rw [h]
    generalize walk Walker.ids (Utf8.decode content ++ [1114112]).toArray (prune t) = w at hnp
    cases w with
    | ok a => exact .inr (.inr ⟨a, rfl⟩)
    | err => exact .inr (.inl rfl)
    | panic => exact absurd rfl hnp.1
    | crash => exact absurd rfl hnp.2

end C03
