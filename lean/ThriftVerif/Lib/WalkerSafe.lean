import ThriftVerif.Lib.PegTree
import ThriftVerif.Lib.WalkerLemmas
import ThriftVerif.Generated.C03Grammar
/-
  The walker does not panic on the trees the matcher builds for the regenerated grammar:
  generic part (pegText, comments) and the per-rule part for the rules listed in docs/C03.md.
-/
namespace Walker
open Peg

/-! ### the W monad, for rewriting -/

@[simp] theorem bind_ok {α β} (a : α) (f : α → W β) : (W.ok a >>= f) = f a := rfl
@[simp] theorem bind_err {α β} (f : α → W β) : (W.err >>= f) = W.err := rfl
@[simp] theorem bind_panic {α β} (f : α → W β) : (W.panic >>= f) = W.panic := rfl
@[simp] theorem bind_crash {α β} (f : α → W β) : (W.crash >>= f) = W.crash := rfl
@[simp] theorem pure_eq {α} (a : α) : (pure a : W α) = W.ok a := rfl

/-- "no panic, no fuel exhaustion" -/
def NP {α} (x : W α) : Prop := x ≠ .panic ∧ x ≠ .crash

@[simp] theorem NP_ok {α} (a : α) : NP (W.ok a) := ⟨by simp, by simp⟩
@[simp] theorem NP_err {α} : NP (W.err : W α) := ⟨by simp, by simp⟩

theorem NP_bind {α β} {x : W α} {f : α → W β} (hx : NP x) (hf : ∀ a, x = .ok a → NP (f a)) : NP (x >>= f) := by
  cases x with
  | ok a => simpa using hf a rfl
  | err => simp
  | panic => exact absurd rfl hx.1
  | crash => exact absurd rfl hx.2

/-! ### generic: pegText and the comment loop -/

section Generic
variable (ids : Ids) (buf : Array Nat)

theorem textOf_ok (b e : Nat) (h1 : 1 ≤ b) (h2 : b < e) (h3 : e ≤ buf.size) : ∃ s, textOf buf b e = .ok s := by
  unfold textOf
  have : ¬ (b = 0 ∨ e ≤ b ∨ e > buf.size) := by omega
  simp [this]

/-- pegText never panics on a tree whose PegText nodes lie inside the buffer and not at offset 0. -/
theorem pegText_ok {n : Nat} (hn : n ≤ buf.size) : ∀ {t : T}, Safe ids.rPegText n t → ∃ s, pegText ids buf t = .ok s := by
  intro t h
  induction h with
  | nil => exact ⟨[], rfl⟩
  | @node r b e up next h1 h2 h3 _ _ ihu ihn =>
    obtain ⟨su, hsu⟩ := ihu
    obtain ⟨sn, hsn⟩ := ihn
    simp only [pegText, hsu]
    by_cases hs : su ≠ []
    · simp [hs]
    · simp only [hs, if_false]
      by_cases hr : r ≠ ids.rPegText
      · simp [hr, hsn]
      · simp only [hr, if_false]
        have hr' : r = ids.rPegText := by simpa using hr
        exact textOf_ok buf b e (h3 hr') h1 (by omega)

end Generic

/-! ### the regenerated grammar -/

abbrev G := Generated.C03.grammar
abbrev NUL := Generated.C03.nul
abbrev ids := Generated.C03.ids
open Generated.C03 in
abbrev dummyR := R.Document
open Generated.C03

/-- body of rule `r` in the regenerated grammar -/
def ruleBody (r : Nat) : Expr := Generated.C03.rules.getD r .eps

theorem body_eq {r : Nat} {body : Expr} (h : G.rules[r]? = some body) : body = ruleBody r := by
  have : Generated.C03.rules[r]? = some body := by
    simpa [G, Generated.C03.grammar] using h
  simp [ruleBody, List.getD_eq_getElem?_getD, this]

/-- a call of a rule marked non-nullable leaves exactly one node, whose children conform to the rule's body -/
theorem kids_call {r : Nat} {t : T} (hnul : NUL.getD r true = false) (h : Kids G NUL (.call r) t) :
    ∃ b e up, t = .node r b e up .nil ∧ b < e ∧ Kids G NUL (ruleBody r) up := by
  rcases h.call_inv with ⟨_, h2⟩ | ⟨body, b, e, up, hb, rfl, hlt, hk⟩
  · rw [hnul] at h2; cases h2
  · exact ⟨b, e, up, rfl, hlt, body_eq hb ▸ hk⟩

/-- a call of any rule leaves nothing or one node -/
theorem kids_call_opt {r : Nat} {t : T} (h : Kids G NUL (.call r) t) :
    t = .nil ∨ ∃ b e up, t = .node r b e up .nil ∧ b < e ∧ Kids G NUL (ruleBody r) up := by
  rcases h.call_inv with ⟨h1, _⟩ | ⟨body, b, e, up, hb, rfl, hlt, hk⟩
  · exact .inl h1
  · exact .inr ⟨b, e, up, rfl, hlt, body_eq hb ▸ hk⟩

/-- every node of a sibling chain satisfies `P rule up` -/
inductive All (P : Nat → T → Prop) : T → Prop
  | nil : All P .nil
  | node {r b e up next} : P r up → All P next → All P (.node r b e up next)

theorem All.append {P : Nat → T → Prop} {a b : T} (ha : All P a) (hb : All P b) : All P (a.append b) := by
  induction ha with
  | nil => exact hb
  | node h _ ihn => exact .node h ihn

theorem All.imp {P Q : Nat → T → Prop} {t : T} (h : All P t) (hpq : ∀ r up, P r up → Q r up) : All Q t := by
  induction h with
  | nil => exact .nil
  | node h _ ihn => exact .node (hpq _ _ h) ihn

/-- the chain a `(call r)*` leaves: nodes of rule `r` whose children conform -/
theorem kids_star_call {r : Nat} {t : T} (h : Kids G NUL (.star (.call r)) t) :
    All (fun r' up => r' = r ∧ Kids G NUL (ruleBody r) up) t := by
  generalize he : Expr.star (.call r) = e at h
  induction h with
  | starNil => exact .nil
  | starCons h1 _ _ ih2 =>
    injection he with he'
    subst he'
    rcases kids_call_opt h1 with rfl | ⟨b, e, up, rfl, _, hk⟩
    · exact ih2 rfl
    · exact All.append (.node ⟨rfl, hk⟩ .nil) (ih2 rfl)
  | _ => cases he

/-! ### annotations -/

theorem parseAnnotation_np (buf : Array Nat) (n : Nat) (hn : n ≤ buf.size) (b e : Nat) (up next : T)
    (hs : Safe ids.rPegText n up) (hk : Kids G NUL (ruleBody ids.rAnnotation) up) :
    NP (parseAnnotation ids buf (.node ids.rAnnotation b e up next)) := by
  change Kids G NUL (.seq (.call ids.rIdentifier) (.seq (.call ids.rEQUAL) (.seq (.call ids.rLiteral) (.opt (.call ids.rListSeparator))))) up at hk
  cases hk with
  | seq h1 h2 =>
    obtain ⟨b1, e1, u1, rfl, _, _⟩ := kids_call (by decide) h1
    cases h2 with
    | seq h2 h3 =>
      obtain ⟨b2, e2, u2, rfl, _, _⟩ := kids_call (by decide) h2
      cases h3 with
      | seq h3 h4 =>
        obtain ⟨b3, e3, u3, rfl, _, _⟩ := kids_call (by decide) h3
        simp only [T.append] at hs ⊢
        obtain ⟨k, hk⟩ := pegText_ok ids buf hn hs
        obtain ⟨v, hv⟩ := pegText_ok ids buf hn hs.next.next
        simp only [ids, Generated.C03.ids] at hk hv ⊢
        simp [parseAnnotation, checkrule, rule?, up?, next?, hk, hv]

theorem annLoop_np (buf : Array Nat) (n : Nat) (hn : n ≤ buf.size) : ∀ (t : T) (acc : Anns),
    Safe ids.rPegText n t → All (fun r up => r = ids.rAnnotation → Kids G NUL (ruleBody ids.rAnnotation) up) t →
    NP (annLoop ids buf acc t) := by
  intro t
  induction t with
  | nil => intro acc _ _; simp [annLoop]
  | node r b e up next _ ihn =>
    intro acc hs ha
    cases ha with
    | node hp hrest =>
      simp only [annLoop]
      split
      · rename_i hr
        have := parseAnnotation_np buf n hn b e up next hs.up (hp hr)
        rw [← hr] at this
        cases hpa : parseAnnotation ids buf (.node r b e up next) with
        | ok kv => obtain ⟨k, v⟩ := kv; simp only []; exact ihn _ hs.next hrest
        | err => simp
        | panic => exact absurd hpa this.1
        | crash => exact absurd hpa this.2
      · exact ihn _ hs.next hrest

theorem parseAnnotations_np (buf : Array Nat) (n : Nat) (hn : n ≤ buf.size) (b e : Nat) (up next : T)
    (hs : Safe ids.rPegText n up) (hk : Kids G NUL (ruleBody ids.rAnnotations) up) :
    NP (parseAnnotations ids buf (.node ids.rAnnotations b e up next)) := by
  change Kids G NUL (.seq (.call R.LPAR) (.seq (.star (.call ids.rAnnotation)) (.call R.RPAR))) up at hk
  cases hk with
  | seq h1 h2 =>
    obtain ⟨b1, e1, u1, rfl, _, _⟩ := kids_call (by decide) h1
    cases h2 with
    | seq h2 h3 =>
      obtain ⟨b3, e3, u3, rfl, _, _⟩ := kids_call (by decide) h3
      have hall := kids_star_call h2
      simp only [T.append] at hs ⊢
      have hloop := annLoop_np buf n hn _ [] hs.next
        (All.append (hall.imp (fun r up h _ => h.2)) (.node (fun h => absurd h (by decide)) .nil))
      simpa [parseAnnotations, checkrule, rule?, up?, next?] using hloop

end Walker
