import ThriftVerif.Lib.PegTree
import ThriftVerif.Lib.WalkerLemmas
import ThriftVerif.Generated.C03Grammar
/-
  The walker does not panic on the trees the matcher builds for the regenerated grammar:
  generic part (pegText, comments) and the per-rule part for the rules listed in docs/C03.md.
-/
namespace Walker
open Peg

/-! ### the W monad, for rewriting -/

@[simp] theorem bind_ok {α β} (a : α) (f : α → W β) : (W.ok a >>= f) = f a := rfl
@[simp] theorem bind_err {α β} (f : α → W β) : (W.err >>= f) = W.err := rfl
@[simp] theorem bind_panic {α β} (f : α → W β) : (W.panic >>= f) = W.panic := rfl
@[simp] theorem bind_crash {α β} (f : α → W β) : (W.crash >>= f) = W.crash := rfl
@[simp] theorem pure_eq {α} (a : α) : (pure a : W α) = W.ok a := rfl

/-- "no panic, no fuel exhaustion" -/
def NP {α} (x : W α) : Prop := x ≠ .panic ∧ x ≠ .crash

@[simp] theorem NP_ok {α} (a : α) : NP (W.ok a) := ⟨by simp, by simp⟩
@[simp] theorem NP_err {α} : NP (W.err : W α) := ⟨by simp, by simp⟩

theorem NP_bind {α β} {x : W α} {f : α → W β} (hx : NP x) (hf : ∀ a, x = .ok a → NP (f a)) : NP (x >>= f) := by
  cases x with
  | ok a => simpa using hf a rfl
  | err => simp
  | panic => exact absurd rfl hx.1
  | crash => exact absurd rfl hx.2

/-! ### generic: pegText and the comment loop -/

section Generic
variable (ids : Ids) (buf : Array Nat)

theorem textOf_ok (b e : Nat) (h1 : 1 ≤ b) (h2 : b < e) (h3 : e ≤ buf.size) : ∃ s, textOf buf b e = .ok s := by
  unfold textOf
  have : ¬ (b = 0 ∨ e ≤ b ∨ e > buf.size) := by omega
  simp [this]

/-- pegText never panics on a tree whose PegText nodes lie inside the buffer and not at offset 0. -/
theorem pegText_ok {n : Nat} (hn : n ≤ buf.size) : ∀ {t : T}, Safe ids.rPegText n t → ∃ s, pegText ids buf t = .ok s := by
  intro t h
  induction h with
  | nil => exact ⟨[], rfl⟩
  | @node r b e up next h1 h2 h3 _ _ ihu ihn =>
    obtain ⟨su, hsu⟩ := ihu
    obtain ⟨sn, hsn⟩ := ihn
    simp only [pegText, hsu]
    by_cases hs : su ≠ []
    · simp [hs]
    · simp only [hs, if_false]
      by_cases hr : r ≠ ids.rPegText
      · simp [hr, hsn]
      · simp only [hr, if_false]
        have hr' : r = ids.rPegText := by simpa using hr
        exact textOf_ok buf b e (h3 hr') h1 (by omega)

end Generic

/-! ### Kids inversion -/

theorem Kids.call_inv {g : Grammar} {nul : List Bool} {r : Nat} {t : T} (h : Kids g nul (.call r) t) :
    (t = .nil ∧ nul.getD r true = true) ∨
    ∃ body b e up, g.rules[r]? = some body ∧ t = .node r b e up .nil ∧ b < e ∧ Kids g nul body up := by
  cases h with
  | callEmpty h => exact .inl ⟨rfl, h⟩
  | callNode hb hk hlt => exact .inr ⟨_, _, _, _, hb, rfl, hlt, hk⟩

theorem Safe.up {pt n r b e : Nat} {u nx : T} (h : Safe pt n (.node r b e u nx)) : Safe pt n u := by
  cases h with | node _ _ _ hu _ => exact hu

theorem Safe.next {pt n r b e : Nat} {u nx : T} (h : Safe pt n (.node r b e u nx)) : Safe pt n nx := by
  cases h with | node _ _ _ _ hn => exact hn

theorem Safe.of_append_left {pt n : Nat} {a b : T} (h : Safe pt n (a.append b)) : Safe pt n a := by
  induction a with
  | nil => exact .nil
  | node r b0 e0 up next _ ihn =>
    simp only [T.append] at h
    cases h with
    | node h1 h2 h3 hu hn => exact .node h1 h2 h3 hu (ihn hn)

theorem Safe.of_append_right {pt n : Nat} {a b : T} (h : Safe pt n (a.append b)) : Safe pt n b := by
  induction a with
  | nil => exact h
  | node r b0 e0 up next _ ihn =>
    simp only [T.append] at h
    cases h with
    | node h1 h2 h3 hu hn => exact ihn hn

end Walker
