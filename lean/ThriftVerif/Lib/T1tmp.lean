import ThriftVerif.Lib.TrimLemmas
namespace Trim

theorem traceFinish_sub (f : Nat) (svc : Service) (r : St × Bool) :
    r.1.marks ⊆ (traceFinish f svc r).1.marks ∧ (traceFinish f svc r).1.cache = r.1.cache := by
  unfold traceFinish
  split
  · refine ⟨?_, rfl⟩
    intro x hx
    simp only
    split
    · exact insInc_sub _ _ _ (List.mem_cons_of_mem _ hx)
    · exact List.mem_cons_of_mem _ hx
  · exact ⟨fun _ h => h, rfl⟩

theorem traceFinish_inv (p : Program) (cfg : Cfg) (Mf : Marks) (f : Nat) (svc : Service) (r : St × Bool)
    (h : Inv p cfg Mf r.1) : Inv p cfg Mf (traceFinish f svc r).1 := by
  unfold traceFinish
  split
  · simp only
    split
    · exact h.step _ rfl (fun _ hx => insInc_sub _ _ _ (List.mem_cons_of_mem _ hx))
        ((h.m.cons_leaf _ rfl rfl).insInc _ _) ((h.fnj.cons_other _ (fun _ _ _ => by simp)).insInc _ _)
    · exact h.step _ rfl (fun _ hx => List.mem_cons_of_mem _ hx)
        (h.m.cons_leaf _ rfl rfl) (h.fnj.cons_other _ (fun _ _ _ => by simp))
  · exact h

theorem trace_sub (p : Program) (cfg : Cfg) (ms : List Bytes) : ∀ (j : Nat) (fathers : List Bytes) (f : Nat) (svc : Service) (st : St),
    st.marks ⊆ (trace p cfg ms j fathers f svc st).1.marks ∧ (trace p cfg ms j fathers f svc st).1.cache = st.cache := by
  intro j
  induction j with
  | zero => intro fathers f svc st; exact ⟨fun _ h => h, rfl⟩
  | succ j ih =>
    intro fathers f svc st
    have ok : ∀ Mf, True := fun _ => trivial
    have hfold := foldFns_sub (g := traceStep p cfg ms fathers f svc)
      (fun st fn => by unfold traceStep; split; exact markSvcFn_sub p f svc st fn; exact fun _ h => h)
      (fun st fn => by unfold traceStep; split <;> rfl) svc.fns st
    unfold trace
    simp only
    split
    · split
      · obtain ⟨a, b⟩ := traceFinish_sub f svc ({ svc.fns.foldl (traceStep p cfg ms fathers f svc) st with crash := true }, svc.fns.any (hitFathers cfg ms fathers))
        exact ⟨fun _ h => a (hfold.1 h), by rw [b]; exact hfold.2⟩
      · rename_i g b _
        obtain ⟨i1, i2⟩ := ih (fathers ++ [b.name]) g b (svc.fns.foldl (traceStep p cfg ms fathers f svc) st)
        split
        · rename_i hr
          obtain ⟨a, c⟩ := traceFinish_sub f svc ((trace p cfg ms j (fathers ++ [b.name]) g b (svc.fns.foldl (traceStep p cfg ms fathers f svc) st)).1, (trace p cfg ms j (fathers ++ [b.name]) g b (svc.fns.foldl (traceStep p cfg ms fathers f svc) st)).2 || svc.fns.any (hitFathers cfg ms fathers))
          exact ⟨fun _ h => a (i1 (hfold.1 h)), by rw [c, i2]; exact hfold.2⟩
        · obtain ⟨a, c⟩ := traceFinish_sub f svc ({ (trace p cfg ms j (fathers ++ [b.name]) g b (svc.fns.foldl (traceStep p cfg ms fathers f svc) st)).1 with ext := (f, svc.name) :: (trace p cfg ms j (fathers ++ [b.name]) g b (svc.fns.foldl (traceStep p cfg ms fathers f svc) st)).1.ext }, (trace p cfg ms j (fathers ++ [b.name]) g b (svc.fns.foldl (traceStep p cfg ms fathers f svc) st)).2 || svc.fns.any (hitFathers cfg ms fathers))
          exact ⟨fun _ h => a (i1 (hfold.1 h)), by rw [c]; exact i2.trans hfold.2⟩
    · obtain ⟨a, b⟩ := traceFinish_sub f svc (svc.fns.foldl (traceStep p cfg ms fathers f svc) st, svc.fns.any (hitFathers cfg ms fathers))
      exact ⟨fun _ h => a (hfold.1 h), by rw [b]; exact hfold.2⟩
end Trim
