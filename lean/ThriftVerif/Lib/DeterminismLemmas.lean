import ThriftVerif.Lib.Determinism
/-
  Helper lemmas for C07 (permutation invariance of the map-range consumers of Lib/Determinism).
-/
namespace Determinism

/-! ## association maps -/

theorem aLookup_aInsert {κ ν} [DecidableEq κ] (k k' : κ) (v : ν) (m : List (κ × ν)) :
    aLookup k' (aInsert k v m) = if k = k' then some v else aLookup k' m := by
  induction m with
  | nil => simp [aInsert, aLookup]
  | cons e r ih =>
    obtain ⟨a, b⟩ := e
    by_cases h1 : a = k
    · subst h1
      by_cases h2 : a = k' <;> simp [aInsert, aLookup, h2]
    · by_cases h2 : k = k'
      · subst h2
        simp [aInsert, aLookup, h1, ih]
      · by_cases h3 : a = k'
        · subst h3
          simp [aInsert, aLookup, h1, h2]
        · simp [aInsert, aLookup, h1, h2, h3, ih]

/-- the running value of key `k` while the loop stores entry after entry -/
def stepVal {κ ν} [DecidableEq κ] (k : κ) (acc : Option ν) (e : κ × ν) : Option ν :=
  if e.1 = k then some e.2 else acc

theorem aLookup_intoMap {κ ν} [DecidableEq κ] (k : κ) (es dst : List (κ × ν)) :
    aLookup k (intoMap dst es) = es.foldl (stepVal k) (aLookup k dst) := by
  induction es generalizing dst with
  | nil => rfl
  | cons e r ih =>
    show aLookup k (intoMap (aInsert e.1 e.2 dst) r) = _
    rw [ih, aLookup_aInsert]
    rfl

theorem foldl_stepVal_perm {κ ν} [DecidableEq κ] (k : κ) {es₁ es₂ : List (κ × ν)} (hp : es₁.Perm es₂)
    (hn : (es₁.map Prod.fst).Nodup) (init : Option ν) :
    es₁.foldl (stepVal k) init = es₂.foldl (stepVal k) init := by
  induction hp generalizing init with
  | nil => rfl
  | cons x _ ih =>
    simp only [List.map_cons, List.nodup_cons] at hn
    simp only [List.foldl_cons]
    exact ih hn.2 _
  | swap x y l =>
    simp only [List.map_cons, List.nodup_cons, List.mem_cons, not_or] at hn
    have hne : y.1 ≠ x.1 := hn.1.1
    simp only [List.foldl_cons]
    congr 1
    unfold stepVal
    by_cases h1 : x.1 = k <;> by_cases h2 : y.1 = k <;> simp [h1, h2]
    exact absurd (h2.trans h1.symm) hne
  | trans h₁ _ ih₁ ih₂ =>
    rw [ih₁ hn, ih₂ (((h₁.map Prod.fst).nodup_iff).1 hn)]

theorem intoMap_perm {κ ν} [DecidableEq κ] {es₁ es₂ : List (κ × ν)} (hp : es₁.Perm es₂)
    (hn : (es₁.map Prod.fst).Nodup) (dst : List (κ × ν)) (k : κ) :
    aLookup k (intoMap dst es₁) = aLookup k (intoMap dst es₂) := by
  rw [aLookup_intoMap, aLookup_intoMap]
  exact foldl_stepVal_perm k hp hn _

/-! ## namespace -/

theorem addAll_fresh (rename : Bytes → Nat → Bytes) (es : List (Bytes × Bytes)) (ns : NS)
    (hn : (es.map Prod.fst).Nodup) (hf : ∀ e ∈ es, aLookup e.1 ns.name2id = none) :
    NS.addAll rename ns es =
      some ⟨intoMap ns.name2id es, intoMap ns.id2name (es.map fun e => (e.2, e.1))⟩ := by
  induction es generalizing ns with
  | nil => rfl
  | cons e r ih =>
    obtain ⟨n, i⟩ := e
    simp only [List.map_cons, List.nodup_cons] at hn
    have h0 : aLookup n ns.name2id = none := hf (n, i) (List.mem_cons_self ..)
    have hadd : ns.add rename n i = some (⟨aInsert n i ns.name2id, aInsert i n ns.id2name⟩, n) := by
      simp [NS.add, addLoop, h0]
    simp only [NS.addAll, hadd]
    rw [ih _ hn.2]
    · rfl
    · intro e he
      show aLookup e.1 (aInsert n i ns.name2id) = none
      rw [aLookup_aInsert]
      have hne : n ≠ e.1 := by
        intro h
        exact hn.1 (h ▸ List.mem_map_of_mem (f := Prod.fst) he)
      simp [hne, hf e (List.mem_cons_of_mem _ he)]

/-! ## sorting -/

theorem mem_insertBy {α} (le : α → α → Bool) (x a : α) (l : List α) :
    a ∈ insertBy le x l ↔ a = x ∨ a ∈ l := by
  induction l with
  | nil => simp [insertBy]
  | cons y r ih =>
    unfold insertBy
    split
    · simp
    · simp only [List.mem_cons, ih]
      constructor
      · rintro (h | h | h) <;> simp [h]
      · rintro (h | h | h) <;> simp [h]

theorem insertBy_perm {α} (le : α → α → Bool) (x : α) (l : List α) : (insertBy le x l).Perm (x :: l) := by
  induction l with
  | nil => exact List.Perm.refl _
  | cons y r ih =>
    unfold insertBy
    split
    · exact List.Perm.refl _
    · exact (List.Perm.cons y ih).trans (List.Perm.swap x y r)

theorem sortedBy_perm {α} (le : α → α → Bool) (l : List α) : (sortedBy le l).Perm l := by
  induction l with
  | nil => exact List.Perm.refl _
  | cons x r ih => exact (insertBy_perm le x _).trans (List.Perm.cons x ih)

theorem pairwise_insertBy {α} (le : α → α → Bool)
    (tot : ∀ a b, le a b = false → le b a = true)
    (tr : ∀ a b c, le a b = true → le b c = true → le a c = true)
    (x : α) (l : List α) (h : l.Pairwise (fun a b => le a b = true)) :
    (insertBy le x l).Pairwise (fun a b => le a b = true) := by
  induction l with
  | nil => simp [insertBy]
  | cons y r ih =>
    rw [List.pairwise_cons] at h
    unfold insertBy
    split
    · rename_i hxy
      rw [List.pairwise_cons]
      refine ⟨?_, List.pairwise_cons.2 h⟩
      intro z hz
      rcases List.mem_cons.1 hz with rfl | hz
      · exact hxy
      · exact tr _ _ _ hxy (h.1 z hz)
    · rename_i hxy
      rw [List.pairwise_cons]
      refine ⟨?_, ih h.2⟩
      intro z hz
      rcases (mem_insertBy le x z r).1 hz with rfl | hz
      · exact tot _ _ (by simpa using hxy)
      · exact h.1 z hz

theorem pairwise_sortedBy {α} (le : α → α → Bool)
    (tot : ∀ a b, le a b = false → le b a = true)
    (tr : ∀ a b c, le a b = true → le b c = true → le a c = true)
    (l : List α) : (sortedBy le l).Pairwise (fun a b => le a b = true) := by
  induction l with
  | nil => exact List.Pairwise.nil
  | cons x r ih => exact pairwise_insertBy le tot tr x _ ih

/-- two sorted arrangements of the same elements are equal when `le` is antisymmetric on them -/
theorem eq_of_perm_of_sorted {α} (le : α → α → Bool) :
    ∀ (l₁ l₂ : List α), l₁.Perm l₂ →
      (∀ a b, a ∈ l₁ → b ∈ l₁ → le a b = true → le b a = true → a = b) →
      l₁.Pairwise (fun a b => le a b = true) → l₂.Pairwise (fun a b => le a b = true) → l₁ = l₂
  | [], l₂, hp, _, _, _ => (List.Perm.nil_eq hp)
  | a :: t₁, [], hp, _, _, _ => absurd hp.symm (by intro h; exact absurd (List.Perm.nil_eq h) (by simp))
  | a :: t₁, b :: t₂, hp, anti, s₁, s₂ => by
    rw [List.pairwise_cons] at s₁ s₂
    have ha : a ∈ b :: t₂ := hp.mem_iff.1 (List.mem_cons_self ..)
    have hb : b ∈ a :: t₁ := hp.mem_iff.2 (List.mem_cons_self ..)
    have hab : a = b := by
      rcases List.mem_cons.1 ha with h | h
      · exact h
      · rcases List.mem_cons.1 hb with h' | h'
        · exact h'.symm
        · exact anti a b (List.mem_cons_self ..) hb (s₁.1 b h') (s₂.1 a h)
    subst hab
    have hp' : t₁.Perm t₂ := List.Perm.cons_inv hp
    have := eq_of_perm_of_sorted le t₁ t₂ hp'
      (fun x y hx hy => anti x y (List.mem_cons_of_mem _ hx) (List.mem_cons_of_mem _ hy)) s₁.2 s₂.2
    rw [this]

theorem sortedBy_perm_eq {α} (le : α → α → Bool)
    (tot : ∀ a b, le a b = false → le b a = true)
    (tr : ∀ a b c, le a b = true → le b c = true → le a c = true)
    {l₁ l₂ : List α} (hp : l₁.Perm l₂)
    (anti : ∀ a b, a ∈ l₁ → b ∈ l₁ → le a b = true → le b a = true → a = b) :
    sortedBy le l₁ = sortedBy le l₂ := by
  apply eq_of_perm_of_sorted le
  · exact (sortedBy_perm le l₁).trans (hp.trans (sortedBy_perm le l₂).symm)
  · intro a b ha hb
    exact anti a b ((sortedBy_perm le l₁).mem_iff.1 ha) ((sortedBy_perm le l₁).mem_iff.1 hb)
  · exact pairwise_sortedBy le tot tr l₁
  · exact pairwise_sortedBy le tot tr l₂

/-! ### the order on Go strings -/

theorem bytesLe_total : ∀ a b : Bytes, bytesLe a b = false → bytesLe b a = true
  | [], _, h => by simp [bytesLe] at h
  | _ :: _, [], _ => by simp [bytesLe]
  | x :: r, y :: s, h => by
    unfold bytesLe at h ⊢
    by_cases h1 : x < y
    · simp [h1] at h
    · by_cases h2 : y < x
      · simp [h2]
      · simp only [h1, h2, if_false] at h ⊢
        exact bytesLe_total r s h

theorem bytesLe_trans : ∀ a b c : Bytes, bytesLe a b = true → bytesLe b c = true → bytesLe a c = true
  | [], _, _, _, _ => by simp [bytesLe]
  | _ :: _, [], _, h, _ => by simp [bytesLe] at h
  | _ :: _, _ :: _, [], _, h => by simp [bytesLe] at h
  | x :: r, y :: s, z :: t, h₁, h₂ => by
    unfold bytesLe at h₁ h₂ ⊢
    by_cases a1 : x < y
    · by_cases b1 : y < z
      · have : x < z := Nat.lt_trans a1 b1
        simp [this]
      · by_cases b2 : z < y
        · simp [b1, b2] at h₂
        · have : y = z := by omega
          subst this
          simp [a1]
    · by_cases a2 : y < x
      · simp [a1, a2] at h₁
      · have hxy : x = y := by omega
        subst hxy
        simp only [a1, if_false] at h₁
        by_cases b1 : x < z
        · simp [b1]
        · by_cases b2 : z < x
          · simp [b1, b2] at h₂
          · simp only [b1, b2, if_false] at h₂ ⊢
            exact bytesLe_trans r s t h₁ h₂

theorem bytesLe_antisymm : ∀ a b : Bytes, bytesLe a b = true → bytesLe b a = true → a = b
  | [], [], _, _ => rfl
  | [], _ :: _, _, h => by simp [bytesLe] at h
  | _ :: _, [], h, _ => by simp [bytesLe] at h
  | x :: r, y :: s, h₁, h₂ => by
    unfold bytesLe at h₁ h₂
    by_cases a1 : x < y
    · have : ¬ y < x := by omega
      simp [a1, this] at h₂
    · by_cases a2 : y < x
      · simp [a1, a2] at h₁
      · have hxy : x = y := by omega
        subst hxy
        simp only [a1, if_false] at h₁ h₂
        rw [bytesLe_antisymm r s h₁ h₂]

theorem inj_on_of_nodup_map {α β} (f : α → β) :
    ∀ (l : List α), (l.map f).Nodup → ∀ a b, a ∈ l → b ∈ l → f a = f b → a = b
  | [], _, _, _, ha, _, _ => by simp at ha
  | x :: r, hn, a, b, ha, hb, hf => by
    simp only [List.map_cons, List.nodup_cons] at hn
    rcases List.mem_cons.1 ha with rfl | ha' <;> rcases List.mem_cons.1 hb with rfl | hb'
    · rfl
    · exact absurd (hf ▸ List.mem_map_of_mem (f := f) hb') hn.1
    · exact absurd (hf ▸ List.mem_map_of_mem (f := f) ha') hn.1
    · exact inj_on_of_nodup_map f r hn.2 a b ha' hb' hf

/-- sort by a key that is a total order on keys and injective on the elements present -/
theorem sortedBy_key_perm_eq {α κ} (key : α → κ) (leK : κ → κ → Bool)
    (tot : ∀ a b, leK a b = false → leK b a = true)
    (tr : ∀ a b c, leK a b = true → leK b c = true → leK a c = true)
    (anti : ∀ a b, leK a b = true → leK b a = true → a = b)
    {l₁ l₂ : List α} (hp : l₁.Perm l₂) (hn : (l₁.map key).Nodup) :
    sortedBy (fun a b => leK (key a) (key b)) l₁ = sortedBy (fun a b => leK (key a) (key b)) l₂ := by
  refine sortedBy_perm_eq (fun a b => leK (key a) (key b)) (fun a b => tot _ _) (fun a b c => tr _ _ _) hp ?_
  intro a b ha hb h₁ h₂
  exact inj_on_of_nodup_map key l₁ hn a b ha hb (anti _ _ h₁ h₂)

/-! ## adding up -/

theorem foldl_add_perm {α} (f : α → Nat) {l₁ l₂ : List α} (hp : l₁.Perm l₂) (init : Nat) :
    l₁.foldl (fun off e => off + f e) init = l₂.foldl (fun off e => off + f e) init := by
  induction hp generalizing init with
  | nil => rfl
  | cons x _ ih => exact ih _
  | swap x y l =>
    simp only [List.foldl_cons]
    congr 1
    omega
  | trans _ _ ih₁ ih₂ => rw [ih₁, ih₂]

/-! ## the replacer -/

/-- no old string is a prefix of the old string of a different pair -/
def PrefixFree (pairs : List (Bytes × Bytes)) : Prop :=
  ∀ p q, p ∈ pairs → q ∈ pairs → p.1 <+: q.1 → p = q

theorem find?_perm_of_unique {α} (p : α → Bool) {l₁ l₂ : List α} (hp : l₁.Perm l₂)
    (hu : ∀ a b, a ∈ l₁ → b ∈ l₁ → p a = true → p b = true → a = b) :
    l₁.find? p = l₂.find? p := by
  induction hp with
  | nil => rfl
  | cons x _ ih =>
    simp only [List.find?_cons]
    split
    · rfl
    · exact ih (fun a b ha hb => hu a b (List.mem_cons_of_mem _ ha) (List.mem_cons_of_mem _ hb))
  | swap x y l =>
    simp only [List.find?_cons]
    cases hx : p x <;> cases hy : p y <;> simp
    exact hu y x (List.mem_cons_self ..) (List.mem_cons_of_mem _ (List.mem_cons_self ..)) hy hx
  | trans h₁ _ ih₁ ih₂ =>
    rw [ih₁ hu, ih₂ (fun a b ha hb => hu a b (h₁.mem_iff.2 ha) (h₁.mem_iff.2 hb))]

theorem prefix_or_prefix {a b s : Bytes} (ha : a <+: s) (hb : b <+: s) : a <+: b ∨ b <+: a := by
  rcases Nat.le_total a.length b.length with h | h
  · exact Or.inl (List.prefix_of_prefix_length_le ha hb h)
  · exact Or.inr (List.prefix_of_prefix_length_le hb ha h)

theorem findMatch_perm {pairs₁ pairs₂ : List (Bytes × Bytes)} (hp : pairs₁.Perm pairs₂)
    (hf : PrefixFree pairs₁) (s : Bytes) : findMatch pairs₁ s = findMatch pairs₂ s := by
  unfold findMatch
  apply find?_perm_of_unique _ hp
  intro a b ha hb h₁ h₂
  have h₁' : a.1 <+: s := List.isPrefixOf_iff_prefix.1 h₁
  have h₂' : b.1 <+: s := List.isPrefixOf_iff_prefix.1 h₂
  rcases prefix_or_prefix h₁' h₂' with h | h
  · exact hf a b ha hb h
  · exact (hf b a hb ha h).symm

theorem replaceAux_perm {pairs₁ pairs₂ : List (Bytes × Bytes)} (hp : pairs₁.Perm pairs₂)
    (hf : PrefixFree pairs₁) (s : Bytes) (skip : Nat) :
    replaceAux pairs₁ skip s = replaceAux pairs₂ skip s := by
  induction s generalizing skip with
  | nil => cases skip <;> rfl
  | cons c r ih =>
    cases skip with
    | succ n => exact ih n
    | zero =>
      unfold replaceAux
      rw [findMatch_perm hp hf]
      split
      · rw [ih]
      · rw [ih]

/-! ### insertion-point keys -/

theorem closeParen_not_keyChar : isKeyChar closeParen = false := by decide

theorem name_eq_of_append_paren : ∀ (n₁ n₂ t : Bytes),
    (∀ c ∈ n₁, isKeyChar c = true) → (∀ c ∈ n₂, isKeyChar c = true) →
    n₁ ++ closeParen :: t = n₂ ++ [closeParen] → n₁ = n₂
  | [], [], _, _, _, _ => rfl
  | [], b :: n₂, t, _, h₂, h => by
    simp only [List.nil_append, List.cons_append, List.cons.injEq] at h
    have := h₂ b (List.mem_cons_self ..)
    rw [← h.1, closeParen_not_keyChar] at this
    exact absurd this (by simp)
  | a :: n₁, [], t, h₁, _, h => by
    simp only [List.nil_append, List.cons_append, List.cons.injEq] at h
    have := h₁ a (List.mem_cons_self ..)
    rw [h.1, closeParen_not_keyChar] at this
    exact absurd this (by simp)
  | a :: n₁, b :: n₂, t, h₁, h₂, h => by
    simp only [List.cons_append, List.cons.injEq] at h
    rw [h.1, name_eq_of_append_paren n₁ n₂ t (fun c hc => h₁ c (List.mem_cons_of_mem _ hc))
      (fun c hc => h₂ c (List.mem_cons_of_mem _ hc)) h.2]

theorem insertionKey_prefix_eq {k₁ k₂ : Bytes} (h₁ : IsInsertionKey k₁) (h₂ : IsInsertionKey k₂)
    (hp : k₁ <+: k₂) : k₁ = k₂ := by
  obtain ⟨n₁, hn₁, rfl⟩ := h₁
  obtain ⟨n₂, hn₂, rfl⟩ := h₂
  unfold insertionPoint at hp ⊢
  rw [List.append_assoc, List.append_assoc, List.prefix_append_right_inj] at hp
  obtain ⟨t, ht⟩ := hp
  rw [List.append_assoc] at ht
  have := name_eq_of_append_paren n₁ n₂ t hn₁ hn₂ (by simpa using ht)
  rw [this]

theorem prefixFree_of_insertionKeys (pairs : List (Bytes × Bytes))
    (hk : ∀ p ∈ pairs, IsInsertionKey p.1) (hn : (pairs.map Prod.fst).Nodup) : PrefixFree pairs := by
  intro p q hp hq hpre
  exact inj_on_of_nodup_map Prod.fst pairs hn p q hp hq (insertionKey_prefix_eq (hk p hp) (hk q hq) hpre)

/-! ### the table built by newInsertionPointReplacer + Add -/

theorem keys_aInsert {ν} (k : Bytes) (v : ν) (m : List (Bytes × ν)) :
    ∀ a, a ∈ (aInsert k v m).map Prod.fst ↔ a = k ∨ a ∈ m.map Prod.fst := by
  induction m with
  | nil => intro a; simp [aInsert]
  | cons e r ih =>
    intro a
    obtain ⟨x, y⟩ := e
    unfold aInsert
    split
    · rename_i h; subst h; simp
    · simp only [List.map_cons, List.mem_cons, ih]
      constructor
      · rintro (h | h | h) <;> simp [h]
      · rintro (h | h | h) <;> simp [h]

theorem nodup_aInsert {ν} (k : Bytes) (v : ν) (m : List (Bytes × ν)) (h : (m.map Prod.fst).Nodup) :
    ((aInsert k v m).map Prod.fst).Nodup := by
  induction m with
  | nil => simp [aInsert]
  | cons e r ih =>
    obtain ⟨x, y⟩ := e
    simp only [List.map_cons, List.nodup_cons] at h
    unfold aInsert
    split
    · rename_i hx; subst hx
      simpa [List.nodup_cons] using h
    · rename_i hx
      simp only [List.map_cons, List.nodup_cons]
      refine ⟨?_, ih h.2⟩
      intro hmem
      rcases (keys_aInsert k v r x).1 hmem with h' | h'
      · exact hx h'
      · exact h.1 h'

theorem ipAdd_keys (m : List (Bytes × Bytes)) (x c : Bytes) :
    (∀ a, a ∈ (ipAdd m x c).map Prod.fst → a = x ∨ a ∈ m.map Prod.fst) ∧
    ((m.map Prod.fst).Nodup → ((ipAdd m x c).map Prod.fst).Nodup) := by
  unfold ipAdd
  split
  · split
    · exact ⟨fun a h => (keys_aInsert _ _ _ a).1 h, nodup_aInsert _ _ _⟩
    · exact ⟨fun a h => (keys_aInsert _ _ _ a).1 h, nodup_aInsert _ _ _⟩
  · exact ⟨fun a h => (keys_aInsert _ _ _ a).1 h, nodup_aInsert _ _ _⟩

theorem matchKeyAt_isKey {s k : Bytes} (h : matchKeyAt s = some k) : IsInsertionKey k := by
  unfold matchKeyAt at h
  split at h
  · simp only at h
    split at h
    · split at h
      · injection h with h
        exact ⟨_, fun c hc => (List.all_eq_true.1 List.all_takeWhile) c hc, h.symm⟩
      · exact absurd h (by simp)
    · exact absurd h (by simp)
  · exact absurd h (by simp)

theorem scanKeysAux_isKey : ∀ (s : Bytes) (skip : Nat), ∀ k ∈ scanKeysAux skip s, IsInsertionKey k
  | [], skip, k, hk => by cases skip <;> simp [scanKeysAux] at hk
  | c :: r, skip + 1, k, hk => by
    simp only [scanKeysAux] at hk
    exact scanKeysAux_isKey r skip k hk
  | c :: r, 0, k, hk => by
    unfold scanKeysAux at hk
    split at hk
    · rename_i k' hm
      rcases List.mem_cons.1 hk with rfl | hk
      · exact matchKeyAt_isKey hm
      · exact scanKeysAux_isKey r _ k hk
    · exact scanKeysAux_isKey r 0 k hk

/-- invariant of the table: keys pairwise distinct, each of the insertion-point shape -/
def TableOK (m : List (Bytes × Bytes)) : Prop :=
  (m.map Prod.fst).Nodup ∧ ∀ a ∈ m.map Prod.fst, IsInsertionKey a

theorem tableOK_foldl_keys (ks : List Bytes) (m : List (Bytes × Bytes)) (hm : TableOK m)
    (hk : ∀ k ∈ ks, IsInsertionKey k) : TableOK (ks.foldl (fun m k => aInsert k [] m) m) := by
  induction ks generalizing m with
  | nil => exact hm
  | cons k r ih =>
    apply ih
    · refine ⟨nodup_aInsert _ _ _ hm.1, ?_⟩
      intro a ha
      rcases (keys_aInsert _ _ _ a).1 ha with rfl | h
      · exact hk _ (List.mem_cons_self ..)
      · exact hm.2 a h
    · exact fun k' hk' => hk k' (List.mem_cons_of_mem _ hk')

theorem tableOK_foldl_patches (ps : List (Bytes × Bytes)) (m : List (Bytes × Bytes)) (hm : TableOK m)
    (hp : ∀ p ∈ ps, ∀ c ∈ p.1, isKeyChar c = true) :
    TableOK (ps.foldl (fun m p => ipAdd m (insertionPoint p.1) p.2) m) := by
  induction ps generalizing m with
  | nil => exact hm
  | cons p r ih =>
    apply ih
    · refine ⟨(ipAdd_keys m _ _).2 hm.1, ?_⟩
      intro a ha
      rcases (ipAdd_keys m _ _).1 a ha with rfl | h
      · exact ⟨p.1, hp p (List.mem_cons_self ..), rfl⟩
      · exact hm.2 a h
    · exact fun p' hp' => hp p' (List.mem_cons_of_mem _ hp')

theorem tableOK_ipTable (content : Bytes) (patches : List (Bytes × Bytes))
    (hp : ∀ p ∈ patches, ∀ c ∈ p.1, isKeyChar c = true) : TableOK (ipTable content patches) := by
  unfold ipTable
  apply tableOK_foldl_patches _ _ _ hp
  apply tableOK_foldl_keys
  · exact ⟨by simp, by simp⟩
  · exact fun k hk => scanKeysAux_isKey content 0 k hk

/-! ## entries written in iteration order -/

theorem be32_length (n : Nat) : (be32 n).length = 4 := rfl

theorem be32_inj {a b : Nat} (ha : a < 4294967296) (hb : b < 4294967296) (h : be32 a = be32 b) : a = b := by
  unfold be32 at h
  simp only [List.cons.injEq, and_true] at h
  omega

theorem encStr_cancel {a b X Y : Bytes} (ha : a.length < 4294967296) (hb : b.length < 4294967296)
    (h : encStr a ++ X = encStr b ++ Y) : a = b ∧ X = Y := by
  unfold encStr at h
  rw [List.append_assoc, List.append_assoc] at h
  obtain ⟨h₁, h₂⟩ := List.append_inj h (by simp [be32_length])
  have hl := be32_inj ha hb h₁
  exact List.append_inj h₂ hl

/-- size bound under which the 4-byte length prefix is exact (Thrift strings are < 2^31 anyway) -/
def Small (e : Bytes × Bytes) : Prop := e.1.length < 4294967296 ∧ e.2.length < 4294967296

theorem encEntry_cancel {a b : Bytes × Bytes} {X Y : Bytes} (ha : Small a) (hb : Small b)
    (h : encEntry a ++ X = encEntry b ++ Y) : a = b ∧ X = Y := by
  unfold encEntry at h
  rw [List.append_assoc, List.append_assoc] at h
  obtain ⟨h₁, h₂⟩ := encStr_cancel ha.1 hb.1 h
  obtain ⟨h₃, h₄⟩ := encStr_cancel ha.2 hb.2 h₂
  exact ⟨Prod.ext h₁ h₃, h₄⟩

theorem emit_swap_ne {α} (enc : α → Bytes) (a b : α) (r : List α)
    (h : enc a ++ enc b ≠ enc b ++ enc a) : emit enc (a :: b :: r) ≠ emit enc (b :: a :: r) := by
  intro he
  simp only [emit, List.flatMap_cons] at he
  rw [← List.append_assoc, ← List.append_assoc] at he
  exact h (List.append_cancel_right he)

theorem encEntry_noncomm {a b : Bytes × Bytes} (ha : Small a) (hb : Small b) (hne : a ≠ b) :
    encEntry a ++ encEntry b ≠ encEntry b ++ encEntry a :=
  fun h => hne (encEntry_cancel ha hb h).1

theorem encMapField_swap_ne (fid : Nat) {a b : Bytes × Bytes} (r : List (Bytes × Bytes))
    (ha : Small a) (hb : Small b) (hne : a ≠ b) :
    encMapField fid (a :: b :: r) ≠ encMapField fid (b :: a :: r) := by
  intro h
  unfold encMapField at h
  simp only [List.length_cons] at h
  exact emit_swap_ne encEntry a b r (encEntry_noncomm ha hb hne) (List.append_cancel_left h)

theorem encNameCategory_noncomm {a b : Bytes × Nat} (ha : a.1.length < 4294967296) (hb : b.1.length < 4294967296)
    (hva : a.2 < 4294967296) (hvb : b.2 < 4294967296) (hne : a ≠ b) :
    encNameCategory a ++ encNameCategory b ≠ encNameCategory b ++ encNameCategory a := by
  intro h
  unfold encNameCategory at h
  rw [List.append_assoc, List.append_assoc] at h
  obtain ⟨h₁, h₂⟩ := encStr_cancel ha hb h
  obtain ⟨h₃, _⟩ := List.append_inj h₂ (by simp [be32_length])
  exact hne (Prod.ext h₁ (be32_inj hva hvb h₃))

theorem nodup_filter_keys {ν} (p : Bytes × ν → Bool) (es : List (Bytes × ν)) (hn : (es.map Prod.fst).Nodup) :
    ((es.filter p).map Prod.fst).Nodup :=
  hn.sublist ((List.filter_sublist (l := es)).map Prod.fst)

theorem importsFormatted_perm {es₁ es₂ : List (Bytes × Bytes)} (hp : es₁.Perm es₂)
    (hn : (es₁.map Prod.fst).Nodup) : importsFormatted es₁ = importsFormatted es₂ := by
  unfold importsFormatted byPath
  rw [sortedBy_key_perm_eq Prod.fst bytesLe bytesLe_total bytesLe_trans bytesLe_antisymm
        (hp.filter _) (nodup_filter_keys _ es₁ hn),
      sortedBy_key_perm_eq Prod.fst bytesLe bytesLe_total bytesLe_trans bytesLe_antisymm
        (hp.filter _) (nodup_filter_keys _ es₁ hn)]

theorem encStr_inj {a b : Bytes} (h : encStr a = encStr b) : a = b := by
  unfold encStr at h
  have hl : (be32 a.length ++ a).length = (be32 b.length ++ b).length := by rw [h]
  simp only [List.length_append, be32_length] at hl
  exact (List.append_inj' h (by omega)).2

theorem nodup_encStr_keys (es : List (Bytes × Bytes)) (hn : (es.map Prod.fst).Nodup) :
    (es.map fun e => encStr e.1).Nodup := by
  have : (es.map fun e => encStr e.1) = (es.map Prod.fst).map encStr := by simp [List.map_map, Function.comp_def]
  rw [this]
  exact List.Pairwise.map encStr (fun _ _ hab h => hab (encStr_inj h)) hn

theorem lexLe_total (a b : Bytes × Bytes) (h : lexLe a b = false) : lexLe b a = true := by
  unfold lexLe at h ⊢
  by_cases e : a.1 = b.1
  · simp only [e, if_true] at h
    simp only [e, if_true]
    exact bytesLe_total _ _ h
  · simp only [e, if_false] at h
    have e' : ¬ b.1 = a.1 := fun h' => e h'.symm
    simp only [e', if_false]
    exact bytesLe_total _ _ h

theorem lexLe_antisymm (a b : Bytes × Bytes) (h₁ : lexLe a b = true) (h₂ : lexLe b a = true) : a = b := by
  unfold lexLe at h₁ h₂
  by_cases e : a.1 = b.1
  · simp only [e, if_true] at h₁ h₂
    exact Prod.ext e (bytesLe_antisymm _ _ h₁ h₂)
  · have e' : ¬ b.1 = a.1 := fun h' => e h'.symm
    simp only [e, e', if_false] at h₁ h₂
    exact absurd (bytesLe_antisymm _ _ h₁ h₂) e

theorem lexLe_trans (a b c : Bytes × Bytes) (h₁ : lexLe a b = true) (h₂ : lexLe b c = true) : lexLe a c = true := by
  unfold lexLe at h₁ h₂ ⊢
  by_cases e₁ : a.1 = b.1
  · by_cases e₂ : b.1 = c.1
    · have e₃ : a.1 = c.1 := e₁.trans e₂
      simp only [e₁, if_true] at h₁
      simp only [e₂, if_true] at h₂
      simp only [e₃, if_true]
      exact bytesLe_trans _ _ _ h₁ h₂
    · have e₃ : ¬ a.1 = c.1 := fun h => e₂ (e₁.symm.trans h)
      simp only [e₂, if_false] at h₂
      simp only [e₃, if_false]
      rw [e₁]; exact h₂
  · by_cases e₂ : b.1 = c.1
    · have e₃ : ¬ a.1 = c.1 := fun h => e₁ (h.trans e₂.symm)
      simp only [e₁, if_false] at h₁
      simp only [e₃, if_false]
      rw [← e₂]; exact h₁
    · simp only [e₁, if_false] at h₁
      simp only [e₂, if_false] at h₂
      by_cases e₃ : a.1 = c.1
      · rw [← e₃] at h₂
        exact absurd (bytesLe_antisymm _ _ h₁ h₂) e₁
      · simp only [e₃, if_false]
        exact bytesLe_trans _ _ _ h₁ h₂

/-- sorting by (f, then g) under `lexLe` gives one result for every order when (f, g) is injective —
no distinctness of the elements is needed -/
theorem sortedBy_lex_perm {α} (f g : α → Bytes) (inj : ∀ a b, f a = f b → g a = g b → a = b)
    {l₁ l₂ : List α} (hp : l₁.Perm l₂) :
    sortedBy (fun a b => lexLe (f a, g a) (f b, g b)) l₁ = sortedBy (fun a b => lexLe (f a, g a) (f b, g b)) l₂ := by
  refine sortedBy_perm_eq (fun a b => lexLe (f a, g a) (f b, g b)) (fun a b => lexLe_total _ _)
    (fun a b c => lexLe_trans _ _ _) hp ?_
  intro a b _ _ h₁ h₂
  have := lexLe_antisymm _ _ h₁ h₂
  exact inj a b (congrArg Prod.fst this) (congrArg Prod.snd this)

theorem sortedBy_byEncodedKey_perm {es₁ es₂ : List (Bytes × Bytes)} (hp : es₁.Perm es₂) :
    sortedBy byEncodedKey es₁ = sortedBy byEncodedKey es₂ :=
  sortedBy_lex_perm (fun e : Bytes × Bytes => encStr e.1) (fun e => encStr e.2)
    (fun _ _ h₁ h₂ => Prod.ext (encStr_inj h₁) (encStr_inj h₂)) hp

theorem encCVStr_inj {a b : Bytes} (h : encCVStr a = encCVStr b) : a = b := by
  unfold encCVStr at h
  simp only [List.append_assoc] at h
  have h₁ := List.append_cancel_left (List.append_cancel_left (List.append_cancel_left h))
  have h₂ : ([11, 0, 4] : Bytes) ++ (encStr a ++ ([2, 0, 5, 0] ++ ([11, 0, 8, 0, 0, 0, 0] ++ [0]))) =
      [11, 0, 4] ++ (encStr b ++ ([2, 0, 5, 0] ++ ([11, 0, 8, 0, 0, 0, 0] ++ [0]))) := h₁
  have h₃ := List.append_cancel_left h₂
  have hl : (encStr a ++ ([2, 0, 5, 0] ++ ([11, 0, 8, 0, 0, 0, 0] ++ [0]))).length =
      (encStr b ++ ([2, 0, 5, 0] ++ ([11, 0, 8, 0, 0, 0, 0] ++ [0]))).length := by rw [h₃]
  simp only [List.length_append] at hl
  exact encStr_inj (List.append_inj' h₃ (by simp)).1

theorem sortedBy_byEncodedCV_perm {es₁ es₂ : List (Bytes × Bytes)} (hp : es₁.Perm es₂) :
    sortedBy byEncodedCV es₁ = sortedBy byEncodedCV es₂ :=
  sortedBy_lex_perm (fun e : Bytes × Bytes => encCVStr e.1) (fun e => encCVStr e.2)
    (fun _ _ h₁ h₂ => Prod.ext (encCVStr_inj h₁) (encCVStr_inj h₂)) hp

end Determinism
