/-
  C19 — model of `asyncPostProcess.OnFinished` (generator/generator.go).

  A labelled transition system.  One dispatcher (the goroutine that called OnFinished) and one
  worker per spawned job.  Goroutine interleaving = choice of which enabled label fires; the
  dispatch `select` with both cases ready = two enabled labels (`acquire`, `recvErr`).

  The LTS is parameterised by a record of *skeleton facts* (`Facts`) which the translator
  `harness/cmd/c19 extract` reads from the function body with go/ast on every run
  (`Generated/C19.lean`): channel capacities, which select cases exist, whether `wg.Wait()` precedes
  the early return, whether `wg.Add(1)` precedes `go`, the order of the worker's synchronisation
  operations (body order, then the deferred calls in LIFO order), the final `wg.Wait()` and the
  final receive.  Changed facts give a different (still executable) LTS; the theorems are about
  `expected`, and `Props.C19.facts_match` pins `Generated.C19.facts = expected`.
-/
import ThriftVerif.Core.VL

namespace AsyncPP

/-- capacity expression of a `make(chan T, e)` -/
inductive Cap
  | lenJobs              -- len(p.jobs)
  | concurrency          -- p.concurrency
  | const (n : Nat)      -- literal (0 = unbuffered / no capacity argument)
  deriving DecidableEq, Repr

/-- synchronisation-relevant operations of a worker, in execution order -/
inductive WOp
  | add       -- wg.Add(1) inside the worker (not in the unchanged code)
  | pp        -- p.pp.PostProcess(path, content)
  | write     -- f(path, content): the file at `path` becomes exactly `content` (replace, not overlay)
  | send      -- errs <- err      (guarded by err != nil)
  | done      -- wg.Done()
  | release   -- <-processing
  deriving DecidableEq, Repr, Hashable

inductive FinalRecv
  | nonblocking   -- select { case err := <-errs: return err; default: return nil }
  | blocking      -- return <-errs
  | absent        -- return nil
  deriving DecidableEq, Repr

structure Facts where
  clampConc : Bool              -- if p.concurrency <= 0 { p.concurrency = 1 }
  errsCap : Cap                 -- errs := make(chan error, ·)
  procCap : Cap                 -- processing := make(chan struct{}, ·)
  selAcquire : Bool             -- dispatch select has `case processing <- struct{}{}`
  selRecvErr : Bool             -- dispatch select has `case err := <-errs`
  waitBeforeEarlyReturn : Bool  -- that case does wg.Wait() before `return err`
  addBeforeGo : Bool            -- wg.Add(1) in the loop body before the go statement
  addAfterGo : Bool             -- wg.Add(1) in the loop body after the go statement (not in the unchanged code)
  workerOps : List WOp          -- worker: body operations in order, then deferred ones (LIFO)
  writeGuarded : Bool           -- f is called only if PostProcess returned nil
  finalWait : Bool              -- wg.Wait() after the loop
  finalRecv : FinalRecv
  deriving DecidableEq, Repr

/-- the skeleton the proofs are about (the unchanged code) -/
def expected : Facts :=
  { clampConc := true, errsCap := .lenJobs, procCap := .concurrency,
    selAcquire := true, selRecvErr := true, waitBeforeEarlyReturn := true,
    addBeforeGo := true, addAfterGo := false, workerOps := [.pp, .write, .send, .done, .release],
    writeGuarded := true, finalWait := true, finalRecv := .nonblocking }

/-- one call: the job list (path, content), p.concurrency (values ≤ 0 are represented by 0),
    the failure oracle (by job index and stage) and the post-processing function -/
structure Cfg where
  jobs : List (Bytes × Bytes)
  conc : Nat
  failPP : Nat → Bool
  failWr : Nat → Bool
  ppf : Bytes → Bytes → Bytes

def Cfg.jobFails (cfg : Cfg) (k : Nat) : Bool := cfg.failPP k || cfg.failWr k

/-- a spawned worker: what the goroutine captured (`verifJob`, `path`, `content`), its `err != nil`
    and the operations it still has to perform -/
structure Worker where
  id : Nat
  path : Bytes
  content : Bytes
  failed : Bool
  ops : List WOp
  deriving DecidableEq, Repr, Hashable

/-- dispatcher program counter -/
inductive DPc
  | loop                -- at the head of `for _, j := range p.jobs` (before the select / after the loop)
  | acquired            -- select took `processing <- struct{}{}`
  | added               -- after wg.Add(1), before `go`
  | errRecv (e : Nat)   -- select took `err := <-errs` (before wg.Wait(); return err)
  | finalRecv           -- after the final wg.Wait()
  | returned
  deriving DecidableEq, Repr, Hashable

structure State where
  dpc : DPc
  idx : Nat                          -- loop index = number of jobs dispatched so far
  workers : List Worker              -- worker k is the goroutine spawned for job k
  errs : List Nat                    -- FIFO; an error is identified by the job that produced it
  processing : Nat                   -- tokens in the semaphore channel
  wg : Nat                           -- WaitGroup counter
  written : List (Nat × Bytes × Bytes) -- successful calls of f: (job, path, content), in order
  ret : Option (Option Nat)          -- none: not returned; some none: nil; some (some e): error of job e
  panicked : Bool                    -- negative WaitGroup counter
  deriving DecidableEq, Repr, Hashable

inductive Label
  | acquire | recvErr | add | spawn | earlyRet | finalWait | finalRecv
  | work (k : Nat)
  deriving DecidableEq, Repr

def init : State :=
  { dpc := .loop, idx := 0, workers := [], errs := [], processing := 0, wg := 0,
    written := [], ret := none, panicked := false }

section
variable (F : Facts) (cfg : Cfg)

def conc : Nat := if F.clampConc then (if cfg.conc = 0 then 1 else cfg.conc) else cfg.conc

def capOf : Cap → Nat
  | .lenJobs => cfg.jobs.length
  | .concurrency => conc F cfg
  | .const n => n

def stepAcquire (s : State) : Option State :=
  if s.dpc = .loop ∧ s.idx < cfg.jobs.length then
    if F.selAcquire then
      if s.processing < capOf F cfg F.procCap then
        some { s with dpc := .acquired, processing := s.processing + 1 }
      else none
    else if F.selRecvErr then none   -- a select with only the receive case
    else some { s with dpc := .acquired } -- no semaphore at all
  else none

def stepRecvErr (s : State) : Option State :=
  if s.dpc = .loop ∧ s.idx < cfg.jobs.length ∧ F.selRecvErr = true then
    match s.errs with
    | [] => none
    | e :: es => some { s with dpc := .errRecv e, errs := es }
  else none

/- `wg.Add(1)` and the `go` statement.  Unchanged code: acquired --add--> added --spawn--> loop.
   With the Add after the go statement (`addAfterGo`): acquired --spawn--> added --add--> loop, so the
   new worker can run — and reach `wg.Done()` — before the counter was incremented. -/
def stepAdd (s : State) : Option State :=
  if F.addAfterGo then
    if s.dpc = .added then some { s with dpc := .loop, wg := s.wg + 1 } else none
  else
    if s.dpc = .acquired then
      some { s with dpc := .added, wg := if F.addBeforeGo then s.wg + 1 else s.wg }
    else none

def stepSpawn (s : State) : Option State :=
  if F.addAfterGo then
    if s.dpc = .acquired then
      match cfg.jobs[s.idx]? with
      | none => none
      | some (p, c) =>
        some { s with dpc := .added, idx := s.idx + 1, wg := if F.addBeforeGo then s.wg + 1 else s.wg,
                      workers := s.workers ++ [{ id := s.idx, path := p, content := c, failed := false, ops := F.workerOps }] }
    else none
  else
    if s.dpc = .added then
      match cfg.jobs[s.idx]? with
      | none => none
      | some (p, c) =>
        some { s with dpc := .loop, idx := s.idx + 1,
                      workers := s.workers ++ [{ id := s.idx, path := p, content := c, failed := false, ops := F.workerOps }] }
    else none

def stepEarlyRet (s : State) : Option State :=
  match s.dpc with
  | .errRecv e =>
    if F.waitBeforeEarlyReturn = true → s.wg = 0 then
      some { s with dpc := .returned, ret := some (some e) }
    else none
  | _ => none

def stepFinalWait (s : State) : Option State :=
  if s.dpc = .loop ∧ cfg.jobs.length ≤ s.idx ∧ (F.finalWait = true → s.wg = 0) then
    some { s with dpc := .finalRecv }
  else none

def stepFinalRecv (s : State) : Option State :=
  if s.dpc = .finalRecv then
    match F.finalRecv, s.errs with
    | .nonblocking, [] => some { s with dpc := .returned, ret := some none }
    | .nonblocking, e :: es => some { s with dpc := .returned, ret := some (some e), errs := es }
    | .blocking, [] => none
    | .blocking, e :: es => some { s with dpc := .returned, ret := some (some e), errs := es }
    | .absent, _ => some { s with dpc := .returned, ret := some none }
  else none

/-- worker `k` performs its next operation -/
def stepWorker (s : State) (k : Nat) : Option State :=
  match s.workers[k]? with
  | none => none
  | some w =>
    match w.ops with
    | [] => none
    | .add :: r => some { s with wg := s.wg + 1, workers := s.workers.set k { w with ops := r } }
    | .pp :: r =>
      if cfg.failPP w.id then
        let r' := if F.writeGuarded then r.filter (· ≠ .write) else r
        some { s with workers := s.workers.set k { w with failed := true, ops := r' } }
      else
        some { s with workers := s.workers.set k { w with content := cfg.ppf w.path w.content, ops := r } }
    | .write :: r =>
      if cfg.failWr w.id then
        some { s with workers := s.workers.set k { w with failed := true, ops := r } }
      else
        some { s with written := s.written ++ [(w.id, w.path, w.content)],
                      workers := s.workers.set k { w with failed := false, ops := r.filter (· ≠ .send) } }
    | .send :: r =>
      if w.failed then
        if s.errs.length < capOf F cfg F.errsCap then
          some { s with errs := s.errs ++ [w.id], workers := s.workers.set k { w with ops := r } }
        else none
      else some { s with workers := s.workers.set k { w with ops := r } }
    | .done :: r =>
      if s.wg = 0 then
        some { s with panicked := true, workers := s.workers.set k { w with ops := r } }
      else some { s with wg := s.wg - 1, workers := s.workers.set k { w with ops := r } }
    | .release :: r =>
      if s.processing = 0 then none
      else some { s with processing := s.processing - 1, workers := s.workers.set k { w with ops := r } }

def stepCore (s : State) : Label → Option State
  | .acquire => stepAcquire F cfg s
  | .recvErr => stepRecvErr F cfg s
  | .add => stepAdd F s
  | .spawn => stepSpawn F cfg s
  | .earlyRet => stepEarlyRet F s
  | .finalWait => stepFinalWait F cfg s
  | .finalRecv => stepFinalRecv F s
  | .work k => stepWorker F cfg s k

/-- the transition function: a panicked process makes no further step -/
def step (s : State) (l : Label) : Option State :=
  if s.panicked then none else stepCore F cfg s l

/-- reachable states -/
inductive Reach : State → Prop
  | init : Reach init
  | step {s s' : State} {l : Label} : Reach s → step F cfg s l = some s' → Reach s'

/-- candidate labels of a state (all others are disabled) -/
def labels (s : State) : List Label :=
  [.acquire, .recvErr, .add, .spawn, .earlyRet, .finalWait, .finalRecv] ++
    (List.range s.workers.length).map .work

def enabled (s : State) : List Label := (labels s).filter fun l => (step F cfg s l).isSome

end

/-- the call has returned and every goroutine it spawned has exited -/
def State.final (s : State) : Bool := s.dpc == .returned && s.workers.all (fun w => w.ops.isEmpty)

/-- worker is past wg.Done(): no PostProcess/write of it can still happen -/
def Worker.quiescent (w : Worker) : Bool := !w.ops.contains .done && !w.ops.contains .write && !w.ops.contains .pp

end AsyncPP
