/-
  Diag — model of thriftgo's diagnosis pipeline (property C04, DESIGN.md §5.4).

  What is modelled, following the code's own structure:
    * sdk/invoke.go  InvokeThriftgo      → `run`   (order of the stages, Persist last)
    * parser/circle_detect.go            → `searchCircle`, `circleDetect`
    * parser/AST-extend.go  dfs          → `dfs`    (post-order, visited set keyed by Filename)
    * semantic/checker.go                → `checkGlobals … checkFunctions`, `checkFile`, `checkAll`
    * semantic/semantic.go               → `registerNames`, `resolveType`, `getEnum`,
                                           `countIdent`, `resolveTypedefs`, `resolveFile`, `resolveAll`
    * main.go  handlePanic               → `escaped`
  Stages not modelled in detail (flag parsing, PEG syntax + include search, backend
  selection/options, backend constant typing) are explicit predicates of `Env`.
  Facts read off the source on every run (order of the five checks, whether CheckUnions
  assigns `hasDefault`, which symbol categories `ResolveType` accepts, whether
  `handlePanic` exits non-zero, the order of the calls in InvokeThriftgo) are the
  regenerated `Cfg` / tables in `Generated/C04.lean`.

  Go strings are `Name = List Nat` (bytes).  Go recursion is fuel; fuel exhaustion is an explicit
  outcome (`none` / `.crash`), never silently "ok" — and is proved impossible (DiagLemmas).
  Core Lean only: the driver `tv_c04` links this file.
-/
namespace Diag

abbrev Name := List Nat

/-! ## abstract syntax (what the rule catalogue needs of parser.Thrift) -/

/-- parser.Type by `Name`: base types, list/set, map, anything else is a reference. -/
inductive Ty
  | base
  | list (v : Ty)
  | map (k v : Ty)
  | ref (n : Name)
  deriving DecidableEq, Repr, Inhabited

structure Field where
  id : Int
  name : Name
  ty : Ty
  hasDefault : Bool
  /-- identifiers of the default value in the order ResolveConstValue visits them -/
  dflt : List Name
  deriving DecidableEq, Repr

structure StructLike where
  name : Name
  fields : List Field
  deriving DecidableEq, Repr

structure EnumDef where
  name : Name
  values : List (Name × Int)
  deriving DecidableEq, Repr

structure Func where
  name : Name
  oneway : Bool
  void : Bool
  ret : Ty
  args : List Field
  throws : List Field
  deriving DecidableEq, Repr

structure Service where
  name : Name
  /-- `Extends`; empty = none -/
  ext : Name
  funcs : List Func
  deriving DecidableEq, Repr

structure Include where
  path : Name
  /-- `Reference`: index into `Program.files` (out of range = nil) -/
  ref : Nat
  deriving DecidableEq, Repr

structure Typedef where
  alias : Name
  ty : Ty
  deriving DecidableEq, Repr

structure Const where
  name : Name
  ty : Ty
  idents : List Name
  deriving DecidableEq, Repr

structure File where
  filename : Name
  includes : List Include
  typedefs : List Typedef
  consts : List Const
  enums : List EnumDef
  structs : List StructLike
  unions : List StructLike
  exceptions : List StructLike
  services : List Service
  deriving DecidableEq, Repr

structure Program where
  files : List File
  root : Nat
  deriving DecidableEq, Repr

/-! ## facts regenerated from the source -/

inductive CheckFn | globals | enums | structLikes | unions | functions
  deriving DecidableEq, Repr

/-- symbol categories of `Name2Category` -/
inductive Cat | constant | enum | struct | union | exception | typedef | service
  deriving DecidableEq, Repr

/-- the calls of InvokeThriftgo in source order -/
inductive Step | parseArgs | parseFile | circleDetect | checkAll | resolveSymbols | usedPlugins | targets | generate | persist
  deriving DecidableEq, Repr

structure Cfg where
  /-- the `checks` slice of CheckAll -/
  checkOrder : List CheckFn
  /-- does CheckUnions ever assign `hasDefault`? -/
  unionSetsHasDefault : Bool
  /-- categories `c` with `Category_Enum <= c && c <= Category_Typedef` -/
  typeCats : List Cat
  /-- does main.handlePanic leave with a non-zero status after recovering? -/
  handlePanicExits : Bool
  deriving DecidableEq, Repr

/-! ## semantic/checker.go -/

inductive Rule
  | dupGlobal | dupEnumName | dupEnumNumber | enumRange | dupFieldId | dupFieldName
  | unionDefault | dupFunction | onewayNonVoid | onewayThrows
  deriving DecidableEq, Repr

def File.structLikes (f : File) : List StructLike := f.structs ++ f.unions ++ f.exceptions

/-- names in the order the four loops of CheckGlobals visit them (enums are not visited) -/
def File.globalNames (f : File) : List Name :=
  f.typedefs.map (·.alias) ++ (f.consts.map (·.name) ++ (f.structLikes.map (·.name) ++ f.services.map (·.name)))

/-- the `check` closure of CheckGlobals run over a list of names; `true` = it panicked -/
def dupScan (seen : List Name) : List Name → Bool
  | [] => false
  | x :: r => if x ∈ seen then true else dupScan (x :: seen) r

def checkGlobals (f : File) : Option Rule :=
  if dupScan [] f.globalNames then some .dupGlobal else none

def assocFind (k : Int) : List (Int × Name) → Option Name
  | [] => none
  | (k', n) :: r => if k' = k then some n else assocFind k r

/-- the inner loop of CheckEnums: `exist`, `v2n` (last write first), `err` carried over one iteration -/
def enumLoop (exist : List Name) (v2n : List (Int × Name)) : List (Name × Int) → Option Rule
  | [] => none
  | (n, v) :: r =>
    let e1 : Option Rule := if n ∈ exist then some .dupEnumName else none
    let e2 : Option Rule :=
      match assocFind v v2n with
      | some n' => if n' ≠ n then some .dupEnumNumber else e1
      | none => e1
    match e2 with
    | some e => some e
    | none =>
      if v < -2147483648 ∨ v > 2147483647 then some .enumRange
      else enumLoop (n :: exist) ((v, n) :: v2n) r

def checkEnums (f : File) : Option Rule :=
  f.enums.findSome? fun e => enumLoop [] [] e.values

/-- the inner loop of CheckStructLikes: id first, then name -/
def fieldLoop (ids : List Int) (names : List Name) : List Field → Option Rule
  | [] => none
  | f :: r =>
    if f.id ∈ ids then some .dupFieldId
    else if f.name ∈ names then some .dupFieldName
    else fieldLoop (f.id :: ids) (f.name :: names) r

def checkStructLikes (f : File) : Option Rule :=
  f.structLikes.findSome? fun s => fieldLoop [] [] s.fields

/-- the inner loop of CheckUnions.  `sets` = the regenerated fact "the loop assigns hasDefault". -/
def unionLoop (sets : Bool) (hasDefault : Bool) : List Field → Option Rule
  | [] => none
  | f :: r =>
    if f.hasDefault then
      if hasDefault then some .unionDefault else unionLoop sets (hasDefault || sets) r
    else unionLoop sets hasDefault r

def checkUnions (cfg : Cfg) (f : File) : Option Rule :=
  f.unions.findSome? fun u => unionLoop cfg.unionSetsHasDefault false u.fields

/-- "success" -/
def successName : Name := [115, 117, 99, 99, 101, 115, 115]

/-- the seeds of checkFunctionFields for a throws list: with a return value the synthesized
`<func>_result` struct already holds field 0 named `success` -/
def throwsSeedIds (f : Func) : List Int := if f.void then [] else [0]
def throwsSeedNames (f : Func) : List Name := if f.void then [] else [successName]

/-- the per-service loop of CheckFunctions: name, oneway rules, then `checkFunctionFields` on the
arguments (`withSuccess = false`) and on the throws list (`withSuccess = !f.Void`): the same
id-then-name loop as for struct-likes -/
def funcLoop (defined : List Name) : List Func → Option Rule
  | [] => none
  | f :: r =>
    if f.name ∈ defined then some .dupFunction
    else if f.oneway && !f.void then some .onewayNonVoid
    else if f.oneway && !f.throws.isEmpty then some .onewayThrows
    else
      match fieldLoop [] [] f.args with
      | some e => some e
      | none =>
        match fieldLoop (throwsSeedIds f) (throwsSeedNames f) f.throws with
        | some e => some e
        | none => funcLoop (f.name :: defined) r

def checkFunctions (f : File) : Option Rule :=
  f.services.findSome? fun s => funcLoop [] s.funcs

def runCheck (cfg : Cfg) (c : CheckFn) (f : File) : Option Rule :=
  match c with
  | .globals => checkGlobals f
  | .enums => checkEnums f
  | .structLikes => checkStructLikes f
  | .unions => checkUnions cfg f
  | .functions => checkFunctions f

/-- the inner loop of CheckAll on one file -/
def checkFile (cfg : Cfg) (f : File) : Option (CheckFn × Rule) :=
  cfg.checkOrder.findSome? fun c => (runCheck cfg c f).map fun r => (c, r)

/-! ## parser/AST-extend.go : DepthFirstSearch -/

structure DfsSt where
  set : List Name
  out : List Nat
  deriving DecidableEq, Repr

/-- `dfs`: post-order, visited set keyed by Filename, nil references skipped.
`none` = fuel exhausted. -/
def dfs : Nat → Program → Nat → DfsSt → Option DfsSt
  | 0, _, _, _ => none
  | fuel + 1, p, t, st =>
    match p.files[t]? with
    | none => some st
    | some f =>
      if f.filename ∈ st.set then some st
      else
        match f.includes.foldlM (fun s inc => dfs fuel p inc.ref s) { st with set := f.filename :: st.set } with
        | none => none
        | some s' => some { s' with out := s'.out ++ [t] }

def dfsOrder (p : Program) : Option (List Nat) :=
  (dfs (p.files.length + 1) p p.root ⟨[], []⟩).map (·.out)

inductive CheckRes
  | ok
  | err (file : Nat) (fn : CheckFn) (rule : Rule)
  | exhausted
  deriving DecidableEq, Repr

def checkAt (cfg : Cfg) (p : Program) (i : Nat) : Option (Nat × CheckFn × Rule) :=
  match p.files[i]? with
  | none => none
  | some f => (checkFile cfg f).map fun (c, r) => (i, c, r)

/-- CheckAll: the first failing (file, check) in DepthFirstSearch order -/
def checkAll (cfg : Cfg) (p : Program) : CheckRes :=
  match dfsOrder p with
  | none => .exhausted
  | some order =>
    match order.findSome? (checkAt cfg p) with
    | some (i, c, r) => .err i c r
    | none => .ok

/-! ## parser/circle_detect.go -/

/-- sequential "return the first non-empty path" over the children -/
def anyM (g : Nat → Option Bool) : List Nat → Option Bool
  | [] => some false
  | x :: r =>
    match g x with
    | none => none
    | some true => some true
    | some false => anyM g r

/-- `searchCircle`: `some true` = a path was returned, `none` = fuel exhausted -/
def searchCircle : Nat → Program → Nat → List Name → Option Bool
  | 0, _, _, _ => none
  | fuel + 1, p, cur, nodes =>
    match p.files[cur]? with
    | none => some false
    | some f =>
      if f.filename ∈ nodes then some true
      else anyM (fun c => searchCircle fuel p c (nodes ++ [f.filename])) (f.includes.map (·.ref))

def circleDetect (p : Program) : Option Bool :=
  searchCircle (p.files.length + 1) p p.root []

/-! ## semantic/split.go -/

/-- split at the last occurrence of byte `c` -/
def splitLast (c : Nat) : Name → Option (Name × Name)
  | [] => none
  | x :: r =>
    match splitLast c r with
    | some (a, b) => some (x :: a, b)
    | none => if x = c then some ([], r) else none

inductive TySplit
  | empty
  | one (n : Name)
  | two (pre n : Name)
  deriving DecidableEq, Repr

def splitType (id : Name) : TySplit :=
  if id = [] then .empty else
  match splitLast 46 id with
  | none => .one id
  | some (a, b) => .two a b

def splitValue (id : Name) : List (List Name) :=
  if id = [] then [] else
  match splitLast 46 id with
  | none => [[id]]
  | some (i, v) =>
    match splitLast 46 i with
    | none => [[i, v]]
    | some (i', e) => [[i, v], [i', e, v]]

/-- IDLPrefix: base name without extension (paths as written in `include "…"`). -/
def idlPrefix (path : Name) : Name :=
  let base := match splitLast 47 path with
    | none => path
    | some (_, b) => b
  match splitLast 46 base with
  | none => base
  | some (a, _) => a

/-! ## semantic/semantic.go -/

abbrev Table := List (Name × Cat)

def tlookup (n : Name) : Table → Option Cat
  | [] => none
  | (k, c) :: r => if k = n then some c else tlookup n r

/-- the AddName calls of RegisterNames, in order -/
def File.symbols (f : File) : List (Name × Cat) :=
  f.typedefs.map (fun x => (x.alias, Cat.typedef)) ++ (f.consts.map (fun x => (x.name, Cat.constant)) ++
  (f.enums.map (fun x => (x.name, Cat.enum)) ++ (f.structs.map (fun x => (x.name, Cat.struct)) ++
  (f.unions.map (fun x => (x.name, Cat.union)) ++ (f.exceptions.map (fun x => (x.name, Cat.exception)) ++
  f.services.map (fun x => (x.name, Cat.service)))))))

/-- AddName one after the other; `none` = "multiple definition" -/
def addAll : List (Name × Cat) → Table → Option Table
  | [], t => some t
  | (n, c) :: r, t => if (tlookup n t).isSome then none else addAll r ((n, c) :: t)

def registerNames (f : File) : Option Table := addAll f.symbols []

/-- what the resolver of one file sees of its includes -/
structure IncV where
  pfx : Name
  ref : Nat
  tbl : Table
  deriving Repr

def tableOf (tables : List (Option Table)) (i : Nat) : Table :=
  match tables[i]? with
  | some (some t) => t
  | _ => []

def incViews (tables : List (Option Table)) (f : File) : List IncV :=
  f.includes.map fun inc => ⟨idlPrefix inc.path, inc.ref, tableOf tables inc.ref⟩

/-- `for i, inc := range Includes { if prefix matches { if c, ok := N2C[nm]; ok && good c { …; break } } }` :
index of the first include that defines `nm` with an accepted category -/
def findExt (good : Cat → Bool) (pre nm : Name) : List IncV → Nat → Option (Nat × Cat)
  | [], _ => none
  | v :: r, i =>
    if v.pfx = pre then
      match tlookup nm v.tbl with
      | some c => if good c then some (i, c) else findExt good pre nm r (i + 1)
      | none => findExt good pre nm r (i + 1)
    else findExt good pre nm r (i + 1)

def isTypeCat (cfg : Cfg) (c : Cat) : Bool := cfg.typeCats.contains c

/-- a `typedefPair`: `tgt = some k` when the Type is the top-level type of local typedef #k,
`src = some j` when the typedef it names is local typedef #j, `none` when it lives in an include -/
structure Pend where
  tgt : Option Nat
  src : Option Nat
  deriving DecidableEq, Repr

inductive RErr | undefinedType | notAType | invalidName | multipleDef | baseService | undefinedValue | ambiguous | typedefs
  deriving DecidableEq, Repr

def typedefIdx (f : File) (a : Name) : Option Nat :=
  let i := f.typedefs.findIdx (fun td => td.alias = a)
  if i < f.typedefs.length then some i else none

/-- ResolveType.  Returns whether the type's own Category is Typedef, and the typedef pairs appended. -/
def resolveType (cfg : Cfg) (f : File) (tbl : Table) (incs : List IncV) (tgt : Option Nat) :
    Ty → Except RErr (Bool × List Pend)
  | .base => .ok (false, [])
  | .list v =>
    match resolveType cfg f tbl incs none v with
    | .error e => .error e
    | .ok (_, ps) => .ok (false, ps)
  | .map k v =>
    match resolveType cfg f tbl incs none k with
    | .error e => .error e
    | .ok (_, ps) =>
      match resolveType cfg f tbl incs none v with
      | .error e => .error e
      | .ok (_, qs) => .ok (false, ps ++ qs)
  | .ref n =>
    match splitType n with
    | .empty => .error .invalidName
    | .one a =>
      match tlookup a tbl with
      | none => .error .undefinedType
      | some c =>
        if isTypeCat cfg c then
          if c = .typedef then .ok (true, [⟨tgt, typedefIdx f a⟩]) else .ok (false, [])
        else .error .notAType
    | .two pre nm =>
      match findExt (isTypeCat cfg) pre nm incs 0 with
      | none => .error .undefinedType
      | some (_, c) => if c = .typedef then .ok (true, [⟨tgt, none⟩]) else .ok (false, [])

/-- `td.Type.Category == Category_Typedef` for the typedef a pair names.  `cats[k]` = "the top-level
type of local typedef #k still has Category_Typedef"; types living in includes are resolved. -/
def srcIsTypedef (cats : List Bool) (it : Pend) : Bool :=
  match it.src with
  | some j => cats.getD j false
  | none => false

/-- `t.Type.Category = td.Type.Category` (a resolved category) -/
def clearTarget (cats : List Bool) (it : Pend) : List Bool :=
  match it.tgt with
  | some k => cats.set k false
  | none => cats

/-- one pass of the `for _, t := range tds` loop of ResolveTypedefs: new categories and `tmp` -/
def tdRound (cats : List Bool) : List Pend → List Bool × List Pend
  | [] => (cats, [])
  | it :: r =>
    if srcIsTypedef cats it then ((tdRound cats r).1, it :: (tdRound cats r).2)
    else tdRound (clearTarget cats it) r

/-- ResolveTypedefs: `some true` = nil, `some false` = "typedefs can not be resolved", `none` = fuel -/
def resolveTypedefs : Nat → List Bool → List Pend → Option Bool
  | 0, _, _ => none
  | fuel + 1, cats, tds =>
    if tds.isEmpty then some true else
    let (cats', tmp) := tdRound cats tds
    if tmp.length = tds.length then some false else resolveTypedefs fuel cats' tmp

/-- the Reference ResolveType leaves on a type named `n` in file `f` (index of the include's file, name) -/
def typeRef (cfg : Cfg) (tables : List (Option Table)) (f : File) (n : Name) : Option (Nat × Name) :=
  match splitType n with
  | .two pre nm =>
    match findExt (isTypeCat cfg) pre nm (incViews tables f) 0 with
    | some (i, _) => (f.includes[i]?).map fun inc => (inc.ref, nm)
    | none => none
  | _ => none

def enumValues (f : File) (name : Name) : Option (List Name) :=
  (f.enums.find? fun e => e.name = name).map fun e => e.values.map (·.1)

def enumFrom {α : Type} (k : Nat) : List α → List (Nat × α)
  | [] => []
  | x :: r => (k, x) :: enumFrom (k + 1) r

/-- every (file, typedef alias) pair: what the `seen` set of getEnumVisited can hold -/
def typedefKeys (p : Program) : List (Nat × Name) :=
  (enumFrom 0 p.files).flatMap fun (i, f) => f.typedefs.map fun td => (i, td.alias)

/-- getEnum = getEnumVisited with its `seen` set (the calls form a chain, so the set is the path).
Outer `none` = fuel exhausted (shown impossible: `seen` only holds distinct typedef keys).
Inner: the enum's value names.  A typedef met twice ends the search; so does a typedef of an
include-qualified name that is no enum there, and a typedef of a base or container type (no table
has an entry called `list`, `i32`, …). -/
def getEnum (cfg : Cfg) (p : Program) (tables : List (Option Table)) :
    Nat → List (Nat × Name) → Nat → Name → Option (Option (List Name))
  | 0, _, _, _ => none
  | fuel + 1, seen, i, name =>
    match p.files[i]? with
    | none => some none
    | some f =>
      match tlookup name (tableOf tables i) with
      | some .enum => some (enumValues f name)
      | some .typedef =>
        match f.typedefs.find? fun td => td.alias = name with
        | none => some none
        | some td =>
          if (i, name) ∈ seen then some none else
          match td.ty with
          | .ref n =>
            match typeRef cfg tables f n with
            | some (j, nm) => getEnum cfg p tables fuel ((i, name) :: seen) j nm
            | none => getEnum cfg p tables fuel ((i, name) :: seen) i n
          | _ => some none
      | _ => some none

def countName (n : Name) (l : List Name) : Nat := (l.filter (· = n)).length

def isBoolIdent (id : Name) : Bool := id = [116, 114, 117, 101] || id = [102, 97, 108, 115, 101]

/-- how many `ConstValueExtra` one split of an identifier contributes; `none` = getEnum ran out of fuel -/
def countSplit (cfg : Cfg) (p : Program) (tables : List (Option Table)) (fuel : Nat) (i : Nat) (f : File) :
    List Name → Option Nat
  | [a] => some (if tlookup a (tableOf tables i) = some .constant then 1 else 0)
  | [a, b] =>
    match getEnum cfg p tables fuel [] i a with
    | none => none
    | some e =>
      let n1 := match e with
        | some vs => countName b vs
        | none => 0
      let n2 := ((incViews tables f).filter fun v => v.pfx = a && tlookup b v.tbl = some .constant).length
      some (n1 + n2)
  | [a, e, v] =>
    (incViews tables f).foldl (fun acc iv =>
      match acc with
      | none => none
      | some n =>
        if iv.pfx = a then
          match getEnum cfg p tables fuel [] iv.ref e with
          | none => none
          | some (some vs) => some (n + countName v vs)
          | some none => some n
        else some n) (some 0)
  | _ => some 0

inductive IdRes | ok | undefined | ambiguous | crash
  deriving DecidableEq, Repr

def addCounts : Option Nat → Option Nat → Option Nat
  | some n, some m => some (n + m)
  | _, _ => none

/-- `len(ref)` after the loop over SplitValue(id); `none` = getEnum ran out of fuel -/
def countIdent (cfg : Cfg) (p : Program) (tables : List (Option Table)) (fuel : Nat) (i : Nat) (f : File)
    (id : Name) : Option Nat :=
  (splitValue id).foldl (fun acc ss => addCounts acc (countSplit cfg p tables fuel i f ss)) (some 0)

/-- ResolveConstValue on one identifier -/
def resolveIdent (cfg : Cfg) (p : Program) (tables : List (Option Table)) (fuel : Nat) (i : Nat) (f : File)
    (id : Name) : IdRes :=
  if isBoolIdent id then .ok else
  match countIdent cfg p tables fuel i f id with
  | none => .crash
  | some 0 => .undefined
  | some 1 => .ok
  | some _ => .ambiguous

inductive RRes | ok | err (e : RErr) | crash
  deriving DecidableEq, Repr

def resolveIdents (cfg : Cfg) (p : Program) (tables : List (Option Table)) (fuel : Nat) (i : Nat) (f : File) :
    List Name → RRes
  | [] => .ok
  | id :: r =>
    match resolveIdent cfg p tables fuel i f id with
    | .ok => resolveIdents cfg p tables fuel i f r
    | .undefined => .err .undefinedValue
    | .ambiguous => .err .ambiguous
    | .crash => .crash

/-- ResolveBaseService -/
def resolveBase (tbl : Table) (incs : List IncV) (s : Service) : Bool :=
  match splitType s.ext with
  | .empty => true
  | .one a => tlookup a tbl = some .service
  | .two pre nm => (findExt (· = .service) pre nm incs 0).isSome

/-- the work items of ResolveAST after RegisterNames, in the order the code performs them -/
inductive Work
  | type (tgt : Option Nat) (t : Ty)
  | idents (ids : List Name)
  | base (s : Service)
  deriving Repr

def fieldWork (fl : Field) : List Work :=
  [.type none fl.ty] ++ (if fl.hasDefault then [.idents fl.dflt] else [])

def funcWork (fn : Func) : List Work :=
  (if fn.void then [] else [.type none fn.ret]) ++ fn.args.flatMap fieldWork ++ fn.throws.flatMap fieldWork

def fileWork (f : File) : List Work :=
  (enumFrom 0 f.typedefs).map (fun (k, td) => .type (some k) td.ty) ++
  f.consts.flatMap (fun c => [.type none c.ty, .idents c.idents]) ++
  f.structLikes.flatMap (fun s => s.fields.flatMap fieldWork) ++
  f.services.flatMap (fun s => s.funcs.flatMap funcWork ++ [.base s])

def doWork (cfg : Cfg) (p : Program) (tables : List (Option Table)) (fuel : Nat) (i : Nat) (f : File)
    (tbl : Table) (incs : List IncV) : List Work → List Pend → RRes × List Pend
  | [], acc => (.ok, acc)
  | .type tgt t :: r, acc =>
    match resolveType cfg f tbl incs tgt t with
    | .error e => (.err e, acc)
    | .ok (_, ps) => doWork cfg p tables fuel i f tbl incs r (acc ++ ps)
  | .idents ids :: r, acc =>
    match resolveIdents cfg p tables fuel i f ids with
    | .ok => doWork cfg p tables fuel i f tbl incs r acc
    | e => (e, acc)
  | .base s :: r, acc =>
    if resolveBase tbl incs s then doWork cfg p tables fuel i f tbl incs r acc
    else (.err .baseService, acc)

/-- `td.Type.Category == Category_Typedef` for every local typedef after the ResolveType pass -/
def initCats (cfg : Cfg) (f : File) (tbl : Table) (incs : List IncV) : List Bool :=
  f.typedefs.map fun td =>
    match resolveType cfg f tbl incs none td.ty with
    | .ok (b, _) => b
    | .error _ => false

/-- fuel for getEnum: every step that goes on puts a new typedef key into `seen` -/
def enumFuel (p : Program) : Nat := (typedefKeys p).length + 2

/-- ResolveAST of file `i`, its includes already resolved -/
def resolveFile (cfg : Cfg) (p : Program) (tables : List (Option Table)) (i : Nat) : RRes :=
  match p.files[i]? with
  | none => .ok
  | some f =>
    match registerNames f with
    | none => .err .multipleDef
    | some tbl =>
      match doWork cfg p tables (enumFuel p) i f tbl (incViews tables f) (fileWork f) [] with
      | (.ok, tds) =>
        match resolveTypedefs (tds.length + 1) (initCats cfg f tbl (incViews tables f)) tds with
        | some true => .ok
        | some false => .err .typedefs
        | none => .crash
      | (e, _) => e

inductive ResolveRes | ok | err (file : Nat) (e : RErr) | crash
  deriving DecidableEq, Repr

def firstBad (g : Nat → RRes) : List Nat → ResolveRes
  | [] => .ok
  | i :: r =>
    match g i with
    | .ok => firstBad g r
    | .err e => .err i e
    | .crash => .crash

def programTables (p : Program) : List (Option Table) := p.files.map registerNames

/-- ResolveSymbols(root): includes first (post-order), each file once -/
def resolveAll (cfg : Cfg) (p : Program) : ResolveRes :=
  match dfsOrder p with
  | none => .crash
  | some order => firstBad (resolveFile cfg p (programTables p)) order

/-! ## sdk/invoke.go + main.go -/

structure Env where
  /-- args.Parse fails: unknown flag, bad flag value, not exactly one positional argument -/
  flagsBad : Bool
  /-- some file met while loading has a syntax error, or an include / the IDL itself is not found -/
  syntaxBad : Bool
  /-- a Go panic escapes from the parser to main -/
  parsePanics : Bool
  /-- no `-g`, unknown backend, bad backend option value, unknown plugin -/
  targetsBad : Bool
  /-- the backend's constant typing (ensureType / ensureCode / Scope.init) fails -/
  backendBad : Bool
  /-- a Go panic escapes from generation to main -/
  backendPanics : Bool
  deriving DecidableEq, Repr

inductive Stage | flags | syntax | circle | check | resolve | targets | backend | panic
  deriving DecidableEq, Repr

inductive Outcome
  | ok
  | reject (s : Stage)
  | crash
  | exit0NoOutput
  deriving DecidableEq, Repr

structure Result where
  outcome : Outcome
  /-- Generator.Persist was reached -/
  persisted : Bool
  deriving DecidableEq, Repr

/-- a panic that reaches `defer handlePanic()` -/
def escaped (cfg : Cfg) : Outcome := if cfg.handlePanicExits then .reject .panic else .exit0NoOutput

def run (cfg : Cfg) (env : Env) (p : Program) : Result :=
  if env.flagsBad then ⟨.reject .flags, false⟩ else
  if env.parsePanics then ⟨escaped cfg, false⟩ else
  if env.syntaxBad then ⟨.reject .syntax, false⟩ else
  match circleDetect p with
  | none => ⟨.crash, false⟩
  | some true => ⟨.reject .circle, false⟩
  | some false =>
    match checkAll cfg p with
    | .exhausted => ⟨.crash, false⟩
    | .err _ _ _ => ⟨.reject .check, false⟩
    | .ok =>
      match resolveAll cfg p with
      | .crash => ⟨.crash, false⟩
      | .err _ _ => ⟨.reject .resolve, false⟩
      | .ok =>
        if env.targetsBad then ⟨.reject .targets, false⟩ else
        if env.backendPanics then ⟨escaped cfg, false⟩ else
        if env.backendBad then ⟨.reject .backend, false⟩ else
        ⟨.ok, true⟩

/-- the order of calls `run` hard-codes; compared with the regenerated `Generated.C04.pipeline` -/
def modelPipeline : List Step :=
  [.parseArgs, .parseFile, .circleDetect, .checkAll, .resolveSymbols, .usedPlugins, .targets, .generate, .persist]

/-! ## well-formedness of what the parser hands over (parseFileRecursively's thriftMap) -/

def wfb (p : Program) : Bool :=
  decide (p.root < p.files.length) &&
  p.files.all (fun f => f.includes.all fun inc => decide (inc.ref < p.files.length)) &&
  decide (p.files.map (·.filename)).Nodup

end Diag
