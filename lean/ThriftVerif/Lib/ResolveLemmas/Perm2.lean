import ThriftVerif.Lib.ResolveLemmas.Perm1
/-
  Order independence, part 2: the work list of a file has one entry per address, entries settle
  at one category only, hence the fixpoint of ResolveTypedefs does not depend on the order of the
  work list.
-/
namespace Sem

/-- What is known about the calls ResolveAST made on file `f` (before ResolveTypedefs). -/
structure Traced (p : Program) (i : Nat) (f : File) (ce : CEnv) (tds all : Out DefOut) : Prop where
  env : EnvGood p i f ce.env
  tds : Trace ce (f.typedefs.map (fun td => Ev.ty (.typedef td.alias) td.type)) tds
  all : Trace ce f.events all

theorem Traced.entry_at {p : Program} {i : Nat} {f : File} {ce : CEnv} {tds all : Out DefOut}
    (T : Traced p i f ce tds all) {e : TdEntry} {s : Slot} {te : TypeExpr} {k : Nat} {sub : TypeExpr}
    {a : Out RNode} (he : e ∈ all.work) (hadr : e.addr = (s, k)) (hs : SlotType f s te)
    (hsub : te.nodes[k]? = some sub) (hout : nodeOut ce.env s k sub = .ok a) : e ∈ a.work := by
  obtain ⟨s', te', k', sub', a', hs', hsub', hout', hea'⟩ := entry_node T.all he
  have hadr' := (nodeOut_facts T.env hout').addr e hea'
  rw [hadr] at hadr'
  simp only [Prod.mk.injEq] at hadr'
  obtain ⟨rfl, rfl⟩ := hadr'
  have := slot_fun T.env.nodup hs hs'
  subst this
  rw [hsub] at hsub'
  simp only [Option.some.injEq] at hsub'
  subst hsub'
  rw [hout] at hout'
  simp only [Except.ok.injEq] at hout'
  subst hout'
  exact hea'

/-- one entry per address -/
theorem Traced.work_inj {p : Program} {i : Nat} {f : File} {ce : CEnv} {tds all : Out DefOut}
    (T : Traced p i f ce tds all) {e e' : TdEntry} (he : e ∈ all.work) (he' : e' ∈ all.work)
    (h : e.addr = e'.addr) : e = e' := by
  obtain ⟨s, te, k, sub, a, hs, hsub, hout, hea⟩ := entry_node T.all he
  have facts := nodeOut_facts T.env hout
  have hadr := facts.addr e hea
  have hea' := T.entry_at he' (by rw [← h]; exact hadr) hs hsub hout
  rcases facts.cat with ⟨_, hw, _⟩ | ⟨_, e0, n, hw, _, _⟩
  · rw [hw] at hea; simp at hea
  · rw [hw] at hea hea'
    simp only [List.mem_cons, List.not_mem_nil, or_false] at hea hea'
    rw [hea, hea']

def Traced.le {p : Program} {i : Nat} {f : File} {ce : CEnv} {tds all : Out DefOut}
    (_ : Traced p i f ce tds all) (views : Nat → Option FileView) (incs : List IncInfo) : LoopEnv :=
  mkLE views incs (mkCur ce.env tds.val.types f)

theorem Traced.local_root {p : Program} {i : Nat} {f : File} {ce : CEnv} {tds all : Out DefOut}
    (T : Traced p i f ce tds all) {views : Nat → Option FileView} {incs : List IncInfo} {a : Bytes} {c : Cat}
    (hlr : (mkLE views incs (mkCur ce.env tds.val.types f)).localRoot a = some c) :
    ∃ td a0, td ∈ f.typedefs ∧ td.alias = a ∧ nodeOut ce.env (.typedef a) 0 td.type = .ok a0 ∧ c = a0.val.cat := by
  simp only [mkLE, mkCur, mkView] at hlr
  cases hroot : tdRootOf f tds.val.types a with
  | none => rw [hroot] at hlr; simp at hlr
  | some root =>
    rw [hroot] at hlr
    simp only [Option.map_some, Option.some.injEq] at hlr
    obtain ⟨td, a0, h1, h2, h3, h4⟩ := tdRootOf_spec T.env.nodup T.tds (typedef_events_nodup f T.env.nodup)
      (fun td htd => List.mem_map.mpr ⟨td, htd, rfl⟩) hroot
    exact ⟨td, a0, h1, h2, h3, by rw [← hlr, h4]⟩

theorem slotType_typedef_inv {f : File} {a : Bytes} {te : TypeExpr} (h : SlotType f (.typedef a) te) :
    ∃ td, td ∈ f.typedefs ∧ td.alias = a ∧ te = td.type := by
  generalize hs : Slot.typedef a = s at h
  cases h with
  | typedef h1 => simp only [Slot.typedef.injEq] at hs; exact ⟨_, h1, hs.symm, rfl⟩
  | const _ => cases hs
  | field _ _ => cases hs
  | ret _ _ _ => cases hs
  | arg _ _ _ => cases hs
  | throw _ _ _ => cases hs

/-- an entry at the address of a typedef's root exists only if that root was named by a typedef -/
theorem Traced.root_entry {p : Program} {i : Nat} {f : File} {ce : CEnv} {tds all : Out DefOut}
    (T : Traced p i f ce tds all) {views : Nat → Option FileView} {incs : List IncInfo}
    {e' : TdEntry} {a : Bytes} (he' : e' ∈ all.work) (hadr : e'.addr = (Slot.typedef a, 0)) :
    (mkLE views incs (mkCur ce.env tds.val.types f)).localRoot a = some .typedef := by
  obtain ⟨s, te, k, sub, a', hs, hsub, hout, hea⟩ := entry_node T.all he'
  have facts := nodeOut_facts T.env hout
  have := facts.addr e' hea
  rw [hadr] at this
  simp only [Prod.mk.injEq] at this
  obtain ⟨rfl, rfl⟩ := this
  obtain ⟨td, htd, hal, rfl⟩ := slotType_typedef_inv hs
  rw [nodes_head] at hsub
  simp only [Option.some.injEq] at hsub
  subst hsub
  have hcat : a'.val.cat = .typedef := by
    rcases facts.cat with ⟨_, hw, _⟩ | ⟨hc, _⟩
    · rw [hw] at hea; simp at hea
    · exact hc
  -- the view finds this typedef
  have hex : ∃ c, (mkLE views incs (mkCur ce.env tds.val.types f)).localRoot a = some c := by
    simp only [mkLE, mkCur, mkView]
    unfold tdRootOf
    obtain ⟨td', h'⟩ := findTypedef_of_mem htd hal
    rw [h']
    simp only
    split <;> exact ⟨_, rfl⟩
  obtain ⟨c, hc⟩ := hex
  obtain ⟨td2, a0, h1, h2, h3, h4⟩ := T.local_root hc
  have : td2 = td := findTypedef_unique T.env.nodup h1 htd (by rw [h2, hal])
  subst this
  rw [hout] at h3
  simp only [Except.ok.injEq] at h3
  subst h3
  rw [hc, h4, hcat]

theorem settles_mono {le : LoopEnv} {w w' : List TdEntry} (hsub : ∀ x, x ∈ w → x ∈ w')
    {e : TdEntry} {c : Cat} (h : Settles le w e c) : Settles le w' e c := by
  induction h with
  | inc h1 h2 h3 h4 => exact .inc (hsub _ h1) h2 h3 h4
  | curStatic h1 h2 h3 h4 => exact .curStatic (hsub _ h1) h2 h3 h4
  | curStep h1 h2 h3 h4 h5 _ ih => exact .curStep (hsub _ h1) h2 h3 (hsub _ h4) h5 ih

theorem settles_src {le : LoopEnv} {w : List TdEntry} {e : TdEntry} {c : Cat} (h : Settles le w e c) :
    e.src le ≠ none := by
  cases h with
  | inc _ h2 h3 _ => unfold TdEntry.src; rw [h2]; simp [h3]
  | curStatic _ h2 h3 _ => unfold TdEntry.src; rw [h2]; simp [h3]
  | curStep _ h2 h3 _ _ _ => unfold TdEntry.src; rw [h2]; simp [h3]

/-- an entry settles at one category only -/
theorem Traced.settles_fun {p : Program} {i : Nat} {f : File} {ce : CEnv} {tds all : Out DefOut}
    (T : Traced p i f ce tds all) {views : Nat → Option FileView} {incs : List IncInfo}
    {e : TdEntry} {c c' : Cat}
    (h : Settles (mkLE views incs (mkCur ce.env tds.val.types f)) all.work e c)
    (h' : Settles (mkLE views incs (mkCur ce.env tds.val.types f)) all.work e c') : c = c' := by
  induction h generalizing c' with
  | inc _ h2 h3 _ =>
    cases h' with
    | inc _ q2 q3 _ =>
      rw [h2] at q2; simp only [AstRef.inc.injEq] at q2; subst q2
      rw [h3] at q3; exact Option.some.inj q3
    | curStatic _ q2 _ _ => rw [h2] at q2; cases q2
    | curStep _ q2 _ _ _ _ => rw [h2] at q2; cases q2
  | curStatic _ h2 h3 h4 =>
    cases h' with
    | inc _ q2 _ _ => rw [h2] at q2; cases q2
    | curStatic _ _ q3 _ => rw [h3] at q3; exact Option.some.inj q3
    | curStep _ _ _ q4 q5 _ =>
      have := T.root_entry (views := views) (incs := incs) q4 q5
      rw [h3] at this
      exact absurd (Option.some.inj this) h4
  | curStep _ h2 h3 h4 h5 _ ih =>
    cases h' with
    | inc _ q2 _ _ => rw [h2] at q2; cases q2
    | curStatic _ _ q3 q4 =>
      have := T.root_entry (views := views) (incs := incs) h4 h5
      rw [q3] at this
      exact absurd (Option.some.inj this) q4
    | curStep _ _ _ q4 q5 q6 =>
      have := T.work_inj h4 q4 (by rw [h5, q5])
      subst this
      exact ih q6

/-- after a successful loop every queued node's cell holds the category its entry settles at -/
theorem Traced.settles_of_ok {p : Program} {i : Nat} {f : File} {ce : CEnv} {tds all : Out DefOut}
    (T : Traced p i f ce tds all) {le : LoopEnv} {w : List TdEntry} (hw : ∀ x, x ∈ w ↔ x ∈ all.work)
    {st : Store} (h : resolveTypedefs le w = .ok st) :
    ∀ e, e ∈ w → ∃ c, st.get e.addr = some c ∧ Settles le w e c := by
  have hl := resolveTypedefs_spec le w
  rw [h] at hl
  intro e he
  rcases hl.done e he with hm | hm
  · simp at hm
  · cases hg : st.get e.addr with
    | none => rw [hg] at hm; simp at hm
    | some c =>
      obtain ⟨_, e', he', hadr, hs⟩ := hl.sound _ _ hg
      have : e' = e := T.work_inj ((hw _).mp he') ((hw _).mp he) hadr
      subst this
      exact ⟨c, rfl, hs⟩

/-- The fixpoint does not depend on the order of the work list. -/
theorem Traced.loop_perm {p : Program} {i : Nat} {f : File} {ce : CEnv} {tds all : Out DefOut}
    (T : Traced p i f ce tds all) {views : Nat → Option FileView} {incs : List IncInfo}
    {w' : List TdEntry} (hw : ∀ x, x ∈ w' ↔ x ∈ all.work) {st : Store}
    (h : resolveTypedefs (mkLE views incs (mkCur ce.env tds.val.types f)) all.work = .ok st) :
    ∃ st', resolveTypedefs (mkLE views incs (mkCur ce.env tds.val.types f)) w' = .ok st' ∧
      ∀ a, st'.get a = st.get a := by
  generalize hle : mkLE views incs (mkCur ce.env tds.val.types f) = le at h
  have hset := T.settles_of_ok (le := le) (w := all.work) (fun _ => Iff.rfl) h
  have hset' : ∀ e, e ∈ w' → ∃ c, Settles le w' e c := by
    intro e he
    obtain ⟨c, _, hs⟩ := hset e ((hw e).mp he)
    exact ⟨c, settles_mono (fun x hx => (hw x).mpr hx) hs⟩
  have hl' := resolveTypedefs_spec le w'
  cases hr : resolveTypedefs le w' with
  | error err =>
    rw [hr] at hl'
    exfalso
    cases err <;> simp only at hl'
    · obtain ⟨e, he, hns⟩ := hl'
      obtain ⟨c, hc⟩ := hset' e he
      exact hns c hc
    · obtain ⟨e, he, hsrc⟩ := hl'
      obtain ⟨c, hc⟩ := hset' e he
      exact settles_src hc hsrc
  | ok st' =>
    refine ⟨st', rfl, ?_⟩
    have hset2 := T.settles_of_ok (le := le) (w := w') hw hr
    have hl := resolveTypedefs_spec le all.work
    rw [h] at hl
    rw [hr] at hl'
    simp only at hl hl'
    have agree : ∀ a c, st.get a = some c → st'.get a = some c := by
      intro a c hg
      obtain ⟨_, e, he, hadr, hs⟩ := hl.sound a c hg
      obtain ⟨c', hg', hs'⟩ := hset2 e ((hw e).mpr he)
      have hs'' : Settles le all.work e c' := settles_mono (fun x hx => (hw x).mp hx) hs'
      have : c = c' := by
        rw [← hle] at hs hs''
        exact T.settles_fun hs hs''
      rw [← hadr, hg', this]
    have agree' : ∀ a c, st'.get a = some c → st.get a = some c := by
      intro a c hg
      obtain ⟨_, e, he, hadr, hs⟩ := hl'.sound a c hg
      obtain ⟨c', hg', hs'⟩ := hset e ((hw e).mp he)
      have hs'' : Settles le all.work e c := settles_mono (fun x hx => (hw x).mp hx) hs
      have : c' = c := by
        rw [← hle] at hs' hs''
        exact T.settles_fun hs' hs''
      rw [← hadr, hg', this]
    intro a
    exact option_eq_of_imp (agree' a) (agree a)

end Sem
