import ThriftVerif.Lib.ResolveLemmas.SlotsNodup
import ThriftVerif.Lib.ResolveLemmas.Loop
/-
  The invariant of resolution (`Good`): what is known of a file once ResolveAST succeeded on it,
  stated against the declarative specification; the include loops against `FirstInc`.
-/
namespace Sem

def NodeGood (p : Program) (i : Nat) (sub : TypeExpr) (nd : RNode) : Prop :=
  (∃ t, Den p i (.ty sub) t ∧ nd.cat = t.cat) ∧
  (nd.isTypedef = true ↔ NamesTypedef p i sub) ∧
  (∀ k b, nd.ref = some ⟨k, b⟩ ↔ QualRef p i sub k b)

def NodesGood (p : Program) (i : Nat) (te : TypeExpr) (ns : List RNode) : Prop :=
  ns.length = te.nodes.length ∧
  ∀ (k : Nat) sub nd, te.nodes[k]? = some sub → ns[k]? = some nd → NodeGood p i sub nd

structure Good (p : Program) (i : Nat) (f : File) (rf : RFile) : Prop where
  nodup : f.names.Nodup
  n2c : ∀ n c, lookupB n rf.n2c = some c ↔ Declares f n c
  nodes : ∀ s te, SlotType f s te → ∃ ns, rf.nodesAt s = some ns ∧ NodesGood p i te ns

/-- What a resolver may assume of the other ASTs. -/
def ViewsGood (p : Program) (views : Nat → Option FileView) : Prop :=
  ∀ j v, views j = some v → ∃ g rf, p[j]? = some g ∧ v = rf.view g ∧ Good p j g rf

def IncsGood (p : Program) (f : File) (incs : List IncInfo) : Prop :=
  incs.length = f.includes.length ∧
  ∀ (k : Nat) (inc : Include), f.includes[k]? = some inc →
    ∃ (ii : IncInfo) (g : File), incs[k]? = some ii ∧ ii.pfx = idlPrefix inc.path ∧ ii.target = inc.target ∧
      p[inc.target]? = some g ∧ g.names.Nodup ∧ ∀ n c, ii.n2c n = some c ↔ Declares g n c

theorem mkIncs_good {p : Program} {views : Nat → Option FileView} (hv : ViewsGood p views) :
    ∀ (l : List Include) (incs : List IncInfo), mkIncs views l = .ok incs →
      incs.length = l.length ∧
      ∀ (k : Nat) (inc : Include), l[k]? = some inc →
        ∃ (ii : IncInfo) (g : File), incs[k]? = some ii ∧ ii.pfx = idlPrefix inc.path ∧ ii.target = inc.target ∧
          p[inc.target]? = some g ∧ g.names.Nodup ∧ (∀ n c, ii.n2c n = some c ↔ Declares g n c) ∧
          ∃ v, views inc.target = some v ∧ ii.n2c = v.n2c
  | [], incs => by
    intro h
    simp only [mkIncs, Except.ok.injEq] at h
    subst h
    simp
  | inc0 :: r, incs => by
    intro h
    simp only [mkIncs] at h
    cases hv0 : views inc0.target with
    | none => rw [hv0] at h; simp at h
    | some v =>
      rw [hv0] at h
      simp only at h
      cases hr : mkIncs views r with
      | error e => rw [hr] at h; simp at h
      | ok is =>
        rw [hr] at h
        simp only [Except.ok.injEq] at h
        subst h
        obtain ⟨ih1, ih2⟩ := mkIncs_good hv r is hr
        refine ⟨by simp [ih1], ?_⟩
        intro k inc hk
        cases k with
        | zero =>
          simp only [List.getElem?_cons_zero, Option.some.injEq] at hk
          subst hk
          obtain ⟨g, rf, hg, hvv, hgood⟩ := hv _ _ hv0
          refine ⟨_, g, rfl, rfl, rfl, hg, hgood.nodup, ?_, v, hv0, rfl⟩
          intro n c
          rw [hvv]
          exact hgood.n2c n c
        | succ k =>
          simp only [List.getElem?_cons_succ] at hk
          obtain ⟨ii, g, h1, h2⟩ := ih2 k inc hk
          exact ⟨ii, g, by simpa using h1, h2⟩

/-! ### the include loop -/

theorem findInc_some {okc : Cat → Bool} {a b : Bytes} : ∀ (l : List IncInfo) (k0 k : Nat) (c : Cat),
    findInc okc a b l k0 = some (k, c) →
    ∃ (j : Nat) (ii : IncInfo), k = k0 + j ∧ l[j]? = some ii ∧ ii.pfx = a ∧ ii.n2c b = some c ∧ okc c = true ∧
      ∀ (j' : Nat) (ii' : IncInfo), j' < j → l[j']? = some ii' → ii'.pfx = a → ∀ c', ii'.n2c b = some c' → okc c' = false
  | [], k0, k, c => by simp [findInc]
  | ii0 :: r, k0, k, c => by
    intro h
    simp only [findInc] at h
    have rec_case : findInc okc a b r (k0 + 1) = some (k, c) →
        (ii0.pfx = a → ∀ c', ii0.n2c b = some c' → okc c' = false) →
        ∃ (j : Nat) (ii : IncInfo), k = k0 + j ∧ (ii0 :: r)[j]? = some ii ∧ ii.pfx = a ∧ ii.n2c b = some c ∧ okc c = true ∧
          ∀ (j' : Nat) (ii' : IncInfo), j' < j → (ii0 :: r)[j']? = some ii' → ii'.pfx = a → ∀ c', ii'.n2c b = some c' → okc c' = false := by
      intro hr h0
      obtain ⟨j, ii, e, h1, h2, h3, h4, h5⟩ := findInc_some r (k0 + 1) k c hr
      refine ⟨j + 1, ii, by omega, by simpa using h1, h2, h3, h4, ?_⟩
      intro j' ii' hj' hget hp c' hc'
      cases j' with
      | zero =>
        simp only [List.getElem?_cons_zero, Option.some.injEq] at hget
        subst hget
        exact h0 hp c' hc'
      | succ j' =>
        simp only [List.getElem?_cons_succ] at hget
        exact h5 j' ii' (by omega) hget hp c' hc'
    by_cases hp : ii0.pfx = a
    · rw [if_pos hp] at h
      cases hn : ii0.n2c b with
      | none =>
        rw [hn] at h
        exact rec_case h (fun _ c' hc' => by rw [hn] at hc'; cases hc')
      | some c0 =>
        rw [hn] at h
        simp only at h
        by_cases hok : okc c0 = true
        · rw [if_pos hok] at h
          simp only [Option.some.injEq, Prod.mk.injEq] at h
          obtain ⟨rfl, rfl⟩ := h
          exact ⟨0, ii0, rfl, rfl, hp, hn, hok, fun j' _ hj' => by omega⟩
        · rw [if_neg hok] at h
          exact rec_case h (fun _ c' hc' => by
            rw [hn] at hc'
            simp only [Option.some.injEq] at hc'
            subst hc'
            simpa using hok)
    · rw [if_neg hp] at h
      exact rec_case h (fun hp' => absurd hp' hp)

theorem findInc_none {okc : Cat → Bool} {a b : Bytes} : ∀ (l : List IncInfo) (k0 : Nat),
    findInc okc a b l k0 = none →
    ∀ (j : Nat) (ii : IncInfo), l[j]? = some ii → ii.pfx = a → ∀ c', ii.n2c b = some c' → okc c' = false
  | [], k0 => by intro _ j ii h; simp at h
  | ii0 :: r, k0 => by
    intro h j ii hget hp c' hc'
    simp only [findInc] at h
    cases j with
    | zero =>
      simp only [List.getElem?_cons_zero, Option.some.injEq] at hget
      subst hget
      rw [if_pos hp, hc'] at h
      simp only at h
      by_cases hok : okc c' = true
      · rw [if_pos hok] at h; simp at h
      · simpa using hok
    | succ j =>
      simp only [List.getElem?_cons_succ] at hget
      have hr : findInc okc a b r (k0 + 1) = none := by
        by_cases hp0 : ii0.pfx = a
        · rw [if_pos hp0] at h
          cases hn : ii0.n2c b with
          | none => rw [hn] at h; exact h
          | some c0 =>
            rw [hn] at h
            simp only at h
            by_cases hok : okc c0 = true
            · rw [if_pos hok] at h; simp at h
            · rw [if_neg hok] at h; exact h
        · rw [if_neg hp0] at h; exact h
      exact findInc_none r (k0 + 1) hr j ii hget hp c' hc'

theorem firstInc_of_findInc {p : Program} {f : File} {incs : List IncInfo} (hi : IncsGood p f incs)
    {okc : Cat → Bool} {a b : Bytes} {k : Nat} {c : Cat}
    (h : findInc okc a b incs 0 = some (k, c)) :
    ∃ j, FirstInc p f okc a b k j c := by
  obtain ⟨j, ii, e, h1, h2, h3, h4, h5⟩ := findInc_some incs 0 k c h
  rw [Nat.zero_add] at e
  subst e
  have hlt : k < f.includes.length := by
    rw [← hi.1]
    exact (List.getElem?_eq_some_iff.mp h1).1
  have hinc : f.includes[k]? = some f.includes[k] := List.getElem?_eq_getElem hlt
  obtain ⟨ii', g, g1, g2, g3, g4, g5, g6⟩ := hi.2 k _ hinc
  rw [h1] at g1
  simp only [Option.some.injEq] at g1
  subst g1
  refine ⟨f.includes[k].target, f.includes[k], g, hinc, rfl, ?_, g4, (g6 b c).mp h3, h4, ?_⟩
  · rw [← g2]; exact h2
  · intro k' inc' g' c' hk' hinc' hp' hg' hd'
    obtain ⟨ii2, g2', q1, q2, q3, q4, q5, q6⟩ := hi.2 k' inc' hinc'
    rw [hg'] at q4
    simp only [Option.some.injEq] at q4
    subst q4
    exact h5 k' ii2 hk' q1 (by rw [q2]; exact hp') c' ((q6 b c').mpr hd')

theorem no_firstInc_of_findInc {p : Program} {f : File} {incs : List IncInfo} (hi : IncsGood p f incs)
    {okc : Cat → Bool} {a b : Bytes}
    (h : findInc okc a b incs 0 = none) : ∀ k j c, ¬ FirstInc p f okc a b k j c := by
  intro k j c ⟨inc, g, h1, h2, h3, h4, h5, h6, _⟩
  obtain ⟨ii, g', q1, q2, q3, q4, q5, q6⟩ := hi.2 k inc h1
  rw [h2, h4] at q4
  simp only [Option.some.injEq] at q4
  subst q4
  have := findInc_none incs 0 h k ii q1 (by rw [q2]; exact h3) c ((q6 b c).mpr h5)
  rw [h6] at this
  simp at this

theorem firstInc_unique {p : Program} {f : File} {incs : List IncInfo} (hi : IncsGood p f incs)
    {okc : Cat → Bool} {a b : Bytes} {k j k' j' : Nat} {c c' : Cat}
    (h : FirstInc p f okc a b k j c) (h' : FirstInc p f okc a b k' j' c') : k = k' ∧ j = j' ∧ c = c' := by
  obtain ⟨inc, g, h1, h2, h3, h4, h5, h6, h7⟩ := h
  obtain ⟨inc', g', h1', h2', h3', h4', h5', h6', h7'⟩ := h'
  have hk : k = k' := by
    rcases Nat.lt_trichotomy k k' with hlt | heq | hgt
    · have := h7' k inc g c hlt h1 h3 (by rw [h2]; exact h4) h5
      rw [h6] at this; simp at this
    · exact heq
    · have := h7 k' inc' g' c' hgt h1' h3' (by rw [h2']; exact h4') h5'
      rw [h6'] at this; simp at this
  subst hk
  rw [h1] at h1'
  simp only [Option.some.injEq] at h1'
  subst h1'
  rw [h2] at h2'
  subst h2'
  rw [h4] at h4'
  simp only [Option.some.injEq] at h4'
  subst h4'
  obtain ⟨ii, g2, q1, q2, q3, q4, q5, q6⟩ := hi.2 k inc h1
  rw [h2, h4] at q4
  simp only [Option.some.injEq] at q4
  subst q4
  exact ⟨rfl, rfl, declares_unique q5 h5 h5'⟩

/-! ### reading names -/

theorem splitType_one {n a : Bytes} (h : splitType n = [a]) : splitLastDot n = none ∧ a = n ∧ n ≠ [] := by
  unfold splitType at h
  by_cases hn : n = []
  · rw [if_pos hn] at h; simp at h
  · rw [if_neg hn] at h
    cases hs : splitLastDot n with
    | none => rw [hs] at h; simp only [List.cons.injEq, and_true] at h; exact ⟨rfl, h.symm, hn⟩
    | some x => obtain ⟨x1, x2⟩ := x; rw [hs] at h; simp at h

theorem splitType_two {n a b : Bytes} (h : splitType n = [a, b]) : splitLastDot n = some (a, b) := by
  unfold splitType at h
  by_cases hn : n = []
  · rw [if_pos hn] at h; simp at h
  · rw [if_neg hn] at h
    cases hs : splitLastDot n with
    | none => rw [hs] at h; simp at h
    | some x =>
      obtain ⟨x1, x2⟩ := x
      rw [hs] at h
      simp only [List.cons.injEq, and_true] at h
      rw [h.1, h.2]

theorem splitType_cases (n : Bytes) :
    splitType n = [] ∨ (∃ a, splitType n = [a]) ∨ (∃ a b, splitType n = [a, b]) := by
  unfold splitType
  by_cases hn : n = []
  · left; rw [if_pos hn]
  · rw [if_neg hn]
    cases hs : splitLastDot n with
    | none => right; left; exact ⟨n, rfl⟩
    | some x => obtain ⟨a, b⟩ := x; right; right; exact ⟨a, b, rfl⟩

theorem nodes_head (te : TypeExpr) : te.nodes[0]? = some te := by
  cases te <;> simp [TypeExpr.nodes]

theorem nodes_pos (te : TypeExpr) : 0 < te.nodes.length := by
  cases te <;> simp [TypeExpr.nodes]

end Sem
