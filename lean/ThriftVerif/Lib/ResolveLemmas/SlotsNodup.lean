import ThriftVerif.Lib.ResolveLemmas.Events
/-
  A file whose global names are pairwise distinct has pairwise distinct slots.
-/
namespace Sem

def Slot.owner : Slot → Nat × Bytes
  | .typedef a => (0, a)
  | .const n => (1, n)
  | .field s _ => (2, s)
  | .ret s _ => (3, s)
  | .arg s _ _ => (3, s)
  | .throw s _ _ => (3, s)

/-- slot extractors that distribute over append -/
structure Extractor where
  sl : List Ev → List Slot
  app : ∀ a b, sl (a ++ b) = sl a ++ sl b
  nil : sl [] = []

def tyX : Extractor := ⟨tySlots, tySlots_append, rfl⟩
def cvX : Extractor := ⟨cvSlots, cvSlots_append, rfl⟩

theorem nodup_flatMap_owner {α} (X : Extractor) (nm : α → Bytes) (g : α → List Ev) (tag : Nat) :
    ∀ l : List α, (l.map nm).Nodup → (∀ x, x ∈ l → (X.sl (g x)).Nodup) →
      (∀ x, x ∈ l → ∀ s, s ∈ X.sl (g x) → s.owner = (tag, nm x)) →
      (X.sl (l.flatMap g)).Nodup ∧ ∀ s, s ∈ X.sl (l.flatMap g) → ∃ x, x ∈ l ∧ s.owner = (tag, nm x)
  | [], _, _, _ => by simp [X.nil]
  | x :: r, hnd, h1, h2 => by
    simp only [List.map_cons, List.nodup_cons] at hnd
    obtain ⟨ih1, ih2⟩ := nodup_flatMap_owner X nm g tag r hnd.2
      (fun y hy => h1 y (List.mem_cons_of_mem _ hy)) (fun y hy => h2 y (List.mem_cons_of_mem _ hy))
    simp only [List.flatMap_cons, X.app]
    refine ⟨List.nodup_append.mpr ⟨h1 x (List.mem_cons_self ..), ih1, ?_⟩, ?_⟩
    · intro a ha b hb hab
      subst hab
      have e1 := h2 x (List.mem_cons_self ..) a ha
      obtain ⟨y, hy, e2⟩ := ih2 a hb
      rw [e1] at e2
      simp only [Prod.mk.injEq, true_and] at e2
      exact hnd.1 (List.mem_map.mpr ⟨y, hy, e2.symm⟩)
    · intro s hs
      rcases List.mem_append.mp hs with hs | hs
      · exact ⟨x, List.mem_cons_self .., h2 x (List.mem_cons_self ..) s hs⟩
      · obtain ⟨y, hy, e⟩ := ih2 s hs
        exact ⟨y, List.mem_cons_of_mem _ hy, e⟩

theorem map_eq_flatMap {α β} (h : α → β) : ∀ l : List α, l.map h = l.flatMap (fun x => [h x])
  | [] => rfl
  | x :: r => by simp [map_eq_flatMap h r]

/-! ### within one definition -/

theorem tySlots_fieldEvs_mem {mk : Nat → Slot} {l : List Field} {k : Nat} {s : Slot}
    (h : s ∈ tySlots (fieldEvs mk k l)) : ∃ j, s = mk j ∧ k ≤ j := by
  obtain ⟨te, hm⟩ := mem_tySlots.mp h
  obtain ⟨j, fl, _, h2, _⟩ := (mem_fieldEvs_ty mk l k s te).mp hm
  exact ⟨k + j, h2, Nat.le_add_right ..⟩

theorem cvSlots_fieldEvs_mem {mk : Nat → Slot} {l : List Field} {k : Nat} {s : Slot}
    (h : s ∈ cvSlots (fieldEvs mk k l)) : ∃ j, s = mk j ∧ k ≤ j := by
  obtain ⟨te, hm⟩ := mem_cvSlots.mp h
  obtain ⟨j, fl, _, h2, _⟩ := (mem_fieldEvs_cv mk l k s te).mp hm
  exact ⟨k + j, h2, Nat.le_add_right ..⟩

theorem tySlots_fieldEvs_nodup (mk : Nat → Slot) (inj : ∀ a b, mk a = mk b → a = b) :
    ∀ (l : List Field) (k : Nat), (tySlots (fieldEvs mk k l)).Nodup
  | [], k => by simp [fieldEvs, tySlots]
  | fl :: r, k => by
    have ih := tySlots_fieldEvs_nodup mk inj r (k + 1)
    have hnot : mk k ∉ tySlots (fieldEvs mk (k + 1) r) := by
      intro hm
      obtain ⟨j, h1, h2⟩ := tySlots_fieldEvs_mem hm
      have := inj _ _ h1
      omega
    cases hd : fl.dflt <;>
      simp only [fieldEvs, hd, List.cons_append, List.nil_append, tySlots, List.nodup_cons] <;>
      exact ⟨hnot, ih⟩

theorem cvSlots_fieldEvs_nodup (mk : Nat → Slot) (inj : ∀ a b, mk a = mk b → a = b) :
    ∀ (l : List Field) (k : Nat), (cvSlots (fieldEvs mk k l)).Nodup
  | [], k => by simp [fieldEvs, cvSlots]
  | fl :: r, k => by
    have ih := cvSlots_fieldEvs_nodup mk inj r (k + 1)
    have hnot : mk k ∉ cvSlots (fieldEvs mk (k + 1) r) := by
      intro hm
      obtain ⟨j, h1, h2⟩ := cvSlots_fieldEvs_mem hm
      have := inj _ _ h1
      omega
    cases hd : fl.dflt
    · simp only [fieldEvs, hd, List.cons_append, List.nil_append, cvSlots]
      exact ih
    · simp only [fieldEvs, hd, List.cons_append, List.nil_append, cvSlots, List.nodup_cons]
      exact ⟨hnot, ih⟩

/-- the function index of a function-member slot -/
def Slot.fnIdx : Slot → Option Nat
  | .ret _ k => some k
  | .arg _ k _ => some k
  | .throw _ k _ => some k
  | _ => none

theorem argInj (svc : Bytes) (k : Nat) : ∀ a b, Slot.arg svc k a = Slot.arg svc k b → a = b := by
  intro a b h; simpa using h

theorem throwInj (svc : Bytes) (k : Nat) : ∀ a b, Slot.throw svc k a = Slot.throw svc k b → a = b := by
  intro a b h; simpa using h

theorem fieldInj (sname : Bytes) : ∀ a b, Slot.field sname a = Slot.field sname b → a = b := by
  intro a b h; simpa using h

theorem tySlots_fnEv_mem {svc : Bytes} {k : Nat} {fn : Function} {s : Slot}
    (h : s ∈ tySlots (fnEv svc k fn)) : s.fnIdx = some k ∧ s.owner = (3, svc) := by
  obtain ⟨te, hm⟩ := mem_tySlots.mp h
  rcases (mem_fnEv_ty svc k fn _ _).mp hm with ⟨_, h4⟩ | ⟨a, fl, _, h4, _⟩ | ⟨a, fl, _, h4, _⟩ <;>
    rw [h4] <;> exact ⟨rfl, rfl⟩

theorem cvSlots_fnEv_mem {svc : Bytes} {k : Nat} {fn : Function} {s : Slot}
    (h : s ∈ cvSlots (fnEv svc k fn)) : s.fnIdx = some k ∧ s.owner = (3, svc) := by
  obtain ⟨te, hm⟩ := mem_cvSlots.mp h
  rcases (mem_fnEv_cv svc k fn _ _).mp hm with ⟨a, fl, _, h4, _⟩ | ⟨a, fl, _, h4, _⟩ <;>
    rw [h4] <;> exact ⟨rfl, rfl⟩

theorem tySlots_fnEv_nodup (svc : Bytes) (k : Nat) (fn : Function) : (tySlots (fnEv svc k fn)).Nodup := by
  unfold fnEv
  rw [tySlots_append, tySlots_append]
  have ha := tySlots_fieldEvs_nodup (fun a => Slot.arg svc k a) (argInj svc k) fn.args 0
  have ht := tySlots_fieldEvs_nodup (fun a => Slot.throw svc k a) (throwInj svc k) fn.throws 0
  refine List.nodup_append.mpr ⟨?_, List.nodup_append.mpr ⟨ha, ht, ?_⟩, ?_⟩
  · cases fn.ret <;> simp [tySlots]
  · intro a h1 b h2 hab
    obtain ⟨j, e1, _⟩ := tySlots_fieldEvs_mem h1
    obtain ⟨j', e2, _⟩ := tySlots_fieldEvs_mem h2
    rw [e1, e2] at hab
    simp at hab
  · intro a h1 b h2 hab
    have ea : a = .ret svc k := by
      cases hr : fn.ret with
      | none => rw [hr] at h1; simp [tySlots] at h1
      | some t => rw [hr] at h1; simpa [tySlots] using h1
    rcases List.mem_append.mp h2 with h2 | h2
    · obtain ⟨j', e2, _⟩ := tySlots_fieldEvs_mem h2
      rw [ea, e2] at hab; simp at hab
    · obtain ⟨j', e2, _⟩ := tySlots_fieldEvs_mem h2
      rw [ea, e2] at hab; simp at hab

theorem cvSlots_fnEv_nodup (svc : Bytes) (k : Nat) (fn : Function) : (cvSlots (fnEv svc k fn)).Nodup := by
  unfold fnEv
  rw [cvSlots_append, cvSlots_append]
  have ha := cvSlots_fieldEvs_nodup (fun a => Slot.arg svc k a) (argInj svc k) fn.args 0
  have ht := cvSlots_fieldEvs_nodup (fun a => Slot.throw svc k a) (throwInj svc k) fn.throws 0
  refine List.nodup_append.mpr ⟨?_, List.nodup_append.mpr ⟨ha, ht, ?_⟩, ?_⟩
  · cases fn.ret <;> simp [cvSlots]
  · intro a h1 b h2 hab
    obtain ⟨j, e1, _⟩ := cvSlots_fieldEvs_mem h1
    obtain ⟨j', e2, _⟩ := cvSlots_fieldEvs_mem h2
    rw [e1, e2] at hab
    simp at hab
  · intro a h1
    cases hr : fn.ret <;> rw [hr] at h1 <;> simp [cvSlots] at h1

theorem tySlots_fnEvs_mem {svc : Bytes} {l : List Function} {k : Nat} {s : Slot}
    (h : s ∈ tySlots (fnEvs svc k l)) : (∃ j, s.fnIdx = some j ∧ k ≤ j) ∧ s.owner = (3, svc) := by
  obtain ⟨te, hm⟩ := mem_tySlots.mp h
  obtain ⟨j, fn, _, h2⟩ := (mem_fnEvs svc l k _).mp hm
  have := tySlots_fnEv_mem (mem_tySlots.mpr ⟨te, h2⟩)
  exact ⟨⟨k + j, this.1, Nat.le_add_right ..⟩, this.2⟩

theorem cvSlots_fnEvs_mem {svc : Bytes} {l : List Function} {k : Nat} {s : Slot}
    (h : s ∈ cvSlots (fnEvs svc k l)) : (∃ j, s.fnIdx = some j ∧ k ≤ j) ∧ s.owner = (3, svc) := by
  obtain ⟨te, hm⟩ := mem_cvSlots.mp h
  obtain ⟨j, fn, _, h2⟩ := (mem_fnEvs svc l k _).mp hm
  have := cvSlots_fnEv_mem (mem_cvSlots.mpr ⟨te, h2⟩)
  exact ⟨⟨k + j, this.1, Nat.le_add_right ..⟩, this.2⟩

theorem tySlots_fnEvs_nodup (svc : Bytes) : ∀ (l : List Function) (k : Nat), (tySlots (fnEvs svc k l)).Nodup
  | [], k => by simp [fnEvs, tySlots]
  | fn :: r, k => by
    simp only [fnEvs, tySlots_append]
    refine List.nodup_append.mpr ⟨tySlots_fnEv_nodup svc k fn, tySlots_fnEvs_nodup svc r (k + 1), ?_⟩
    intro a h1 b h2 hab
    subst hab
    have e1 := (tySlots_fnEv_mem h1).1
    obtain ⟨⟨j, e2, hj⟩, _⟩ := tySlots_fnEvs_mem h2
    rw [e1] at e2
    simp only [Option.some.injEq] at e2
    omega

theorem cvSlots_fnEvs_nodup (svc : Bytes) : ∀ (l : List Function) (k : Nat), (cvSlots (fnEvs svc k l)).Nodup
  | [], k => by simp [fnEvs, cvSlots]
  | fn :: r, k => by
    simp only [fnEvs, cvSlots_append]
    refine List.nodup_append.mpr ⟨cvSlots_fnEv_nodup svc k fn, cvSlots_fnEvs_nodup svc r (k + 1), ?_⟩
    intro a h1 b h2 hab
    subst hab
    have e1 := (cvSlots_fnEv_mem h1).1
    obtain ⟨⟨j, e2, hj⟩, _⟩ := cvSlots_fnEvs_mem h2
    rw [e1] at e2
    simp only [Option.some.injEq] at e2
    omega

theorem cvSlots_svcEvs (s : Service) : cvSlots (svcEvs s) = cvSlots (fnEvs s.name 0 s.functions) := by
  unfold svcEvs
  rw [cvSlots_append]
  simp [cvSlots]

theorem tySlots_svcEvs (s : Service) : tySlots (svcEvs s) = tySlots (fnEvs s.name 0 s.functions) := by
  unfold svcEvs
  rw [tySlots_append]
  simp [tySlots]

/-! ### the whole file -/

theorem events_ty_nodup (f : File) (h : f.names.Nodup) : (tySlots f.events).Nodup := by
  obtain ⟨n1, n2, _, n4, n5⟩ := names_sublists f h
  unfold File.events
  rw [map_eq_flatMap]
  obtain ⟨a1, a2⟩ := nodup_flatMap_owner tyX (fun (td : Typedef) => td.alias)
    (fun td => [Ev.ty (.typedef td.alias) td.type]) 0 f.typedefs n1
    (fun x _ => by simp [tyX, tySlots]) (fun x _ s hs => by simp [tyX, tySlots] at hs; rw [hs]; rfl)
  obtain ⟨b1, b2⟩ := nodup_flatMap_owner tyX (fun (c : Constant) => c.name)
    (fun c => [Ev.ty (.const c.name) c.type, Ev.cv (.const c.name) c.value]) 1 f.constants n2
    (fun x _ => by simp [tyX, tySlots]) (fun x _ s hs => by simp [tyX, tySlots] at hs; rw [hs]; rfl)
  obtain ⟨c1, c2⟩ := nodup_flatMap_owner tyX (fun (s : StructLike) => s.name)
    (fun s => fieldEvs (fun k => .field s.name k) 0 s.fields) 2 f.structLikes n4
    (fun x _ => tySlots_fieldEvs_nodup _ (fieldInj x.name) x.fields 0)
    (fun x _ s hs => by obtain ⟨j, e, _⟩ := tySlots_fieldEvs_mem hs; rw [e]; rfl)
  obtain ⟨d1, d2⟩ := nodup_flatMap_owner tyX (fun (s : Service) => s.name) svcEvs 3 f.services n5
    (fun x _ => by show (tySlots (svcEvs x)).Nodup; rw [tySlots_svcEvs]; exact tySlots_fnEvs_nodup x.name x.functions 0)
    (fun x _ s hs => by
      have hs' : s ∈ tySlots (svcEvs x) := hs
      rw [tySlots_svcEvs] at hs'
      exact (tySlots_fnEvs_mem hs').2)
  simp only [tyX] at a1 a2 b1 b2 c1 c2 d1 d2
  simp only [tySlots_append]
  have tagne : ∀ {s : Slot} {α β} {l : List α} {l' : List β} {nm : α → Bytes} {nm' : β → Bytes} {t t' : Nat},
      (∃ x, x ∈ l ∧ s.owner = (t, nm x)) → (∃ x, x ∈ l' ∧ s.owner = (t', nm' x)) → t = t' := by
    intro s α β l l' nm nm' t t' ⟨x, _, e1⟩ ⟨y, _, e2⟩
    rw [e1] at e2
    exact (Prod.mk.inj e2).1
  refine List.nodup_append.mpr ⟨List.nodup_append.mpr ⟨List.nodup_append.mpr ⟨a1, b1, ?_⟩, c1, ?_⟩, d1, ?_⟩
  · intro a ha b hb hab; subst hab
    have := tagne (a2 a ha) (b2 a hb); omega
  · intro a ha b hb hab; subst hab
    rcases List.mem_append.mp ha with ha | ha
    · have := tagne (a2 a ha) (c2 a hb); omega
    · have := tagne (b2 a ha) (c2 a hb); omega
  · intro a ha b hb hab; subst hab
    rcases List.mem_append.mp ha with ha | ha
    · rcases List.mem_append.mp ha with ha | ha
      · have := tagne (a2 a ha) (d2 a hb); omega
      · have := tagne (b2 a ha) (d2 a hb); omega
    · have := tagne (c2 a ha) (d2 a hb); omega

theorem events_cv_nodup (f : File) (h : f.names.Nodup) : (cvSlots f.events).Nodup := by
  obtain ⟨n1, n2, _, n4, n5⟩ := names_sublists f h
  unfold File.events
  rw [map_eq_flatMap]
  obtain ⟨a1, a2⟩ := nodup_flatMap_owner cvX (fun (td : Typedef) => td.alias)
    (fun td => [Ev.ty (.typedef td.alias) td.type]) 0 f.typedefs n1
    (fun x _ => by simp [cvX, cvSlots]) (fun x _ s hs => by simp [cvX, cvSlots] at hs)
  obtain ⟨b1, b2⟩ := nodup_flatMap_owner cvX (fun (c : Constant) => c.name)
    (fun c => [Ev.ty (.const c.name) c.type, Ev.cv (.const c.name) c.value]) 1 f.constants n2
    (fun x _ => by simp [cvX, cvSlots]) (fun x _ s hs => by simp [cvX, cvSlots] at hs; rw [hs]; rfl)
  obtain ⟨c1, c2⟩ := nodup_flatMap_owner cvX (fun (s : StructLike) => s.name)
    (fun s => fieldEvs (fun k => .field s.name k) 0 s.fields) 2 f.structLikes n4
    (fun x _ => cvSlots_fieldEvs_nodup _ (fieldInj x.name) x.fields 0)
    (fun x _ s hs => by obtain ⟨j, e, _⟩ := cvSlots_fieldEvs_mem hs; rw [e]; rfl)
  obtain ⟨d1, d2⟩ := nodup_flatMap_owner cvX (fun (s : Service) => s.name) svcEvs 3 f.services n5
    (fun x _ => by show (cvSlots (svcEvs x)).Nodup; rw [cvSlots_svcEvs]; exact cvSlots_fnEvs_nodup x.name x.functions 0)
    (fun x _ s hs => by
      have hs' : s ∈ cvSlots (svcEvs x) := hs
      rw [cvSlots_svcEvs] at hs'
      exact (cvSlots_fnEvs_mem hs').2)
  simp only [cvX] at a1 a2 b1 b2 c1 c2 d1 d2
  simp only [cvSlots_append]
  have tagne : ∀ {s : Slot} {α β} {l : List α} {l' : List β} {nm : α → Bytes} {nm' : β → Bytes} {t t' : Nat},
      (∃ x, x ∈ l ∧ s.owner = (t, nm x)) → (∃ x, x ∈ l' ∧ s.owner = (t', nm' x)) → t = t' := by
    intro s α β l l' nm nm' t t' ⟨x, _, e1⟩ ⟨y, _, e2⟩
    rw [e1] at e2
    exact (Prod.mk.inj e2).1
  refine List.nodup_append.mpr ⟨List.nodup_append.mpr ⟨List.nodup_append.mpr ⟨a1, b1, ?_⟩, c1, ?_⟩, d1, ?_⟩
  · intro a ha b hb hab; subst hab
    have := tagne (a2 a ha) (b2 a hb); omega
  · intro a ha b hb hab; subst hab
    rcases List.mem_append.mp ha with ha | ha
    · have := tagne (a2 a ha) (c2 a hb); omega
    · have := tagne (b2 a ha) (c2 a hb); omega
  · intro a ha b hb hab; subst hab
    rcases List.mem_append.mp ha with ha | ha
    · rcases List.mem_append.mp ha with ha | ha
      · have := tagne (a2 a ha) (d2 a hb); omega
      · have := tagne (b2 a ha) (d2 a hb); omega
    · have := tagne (c2 a ha) (d2 a hb); omega

theorem svcNames_flatMap_none {α} (g : α → List Ev) (hg : ∀ x, svcNames (g x) = []) :
    ∀ l : List α, svcNames (l.flatMap g) = []
  | [] => rfl
  | x :: r => by simp [svcNames_append, hg x, svcNames_flatMap_none g hg r]

theorem svcNames_svcEvs (s : Service) : svcNames (svcEvs s) = [s.name] := by
  unfold svcEvs
  rw [svcNames_append]
  have : svcNames (fnEvs s.name 0 s.functions) = [] := by
    apply List.eq_nil_iff_forall_not_mem.mpr
    intro x hx
    obtain ⟨v, hm⟩ := mem_svcNames.mp hx
    exact not_svc_fnEvs _ _ _ _ _ hm
  rw [this]; rfl

theorem svcNames_services : ∀ l : List Service, svcNames (l.flatMap svcEvs) = l.map (·.name)
  | [] => rfl
  | x :: r => by simp [svcNames_append, svcNames_svcEvs, svcNames_services r]

theorem events_svc_nodup (f : File) (h : f.names.Nodup) : (svcNames f.events).Nodup := by
  obtain ⟨_, _, _, _, n5⟩ := names_sublists f h
  unfold File.events
  rw [map_eq_flatMap]
  simp only [svcNames_append]
  rw [svcNames_flatMap_none _ (fun x => by simp [svcNames]),
      svcNames_flatMap_none _ (fun x => by simp [svcNames]),
      svcNames_flatMap_none _ (fun (x : StructLike) => by
        apply List.eq_nil_iff_forall_not_mem.mpr
        intro y hy
        obtain ⟨v, hm⟩ := mem_svcNames.mp hy
        exact not_mem_fieldEvs_svc _ _ _ _ _ hm),
      svcNames_services]
  simpa using n5

end Sem
