import ThriftVerif.Lib.ResolveSpec
/-
  Basic facts: association lists, RegisterNames, the regenerated tables against the
  specification's tables, the include loops against `FirstInc`.
-/
namespace Sem

/-! ### association lists -/

theorem lookupB_cons {α} (k k' : Bytes) (v : α) (r : List (Bytes × α)) :
    lookupB k ((k', v) :: r) = if k' = k then some v else lookupB k r := rfl

theorem lookupB_none {α} (k : Bytes) : ∀ (l : List (Bytes × α)),
    lookupB k l = none ↔ k ∉ l.map Prod.fst
  | [] => by simp [lookupB]
  | (k', v) :: r => by
    rw [lookupB_cons]
    by_cases h : k' = k
    · simp [h]
    · simp only [if_neg h, List.map_cons, List.mem_cons, not_or]
      rw [lookupB_none k r]
      exact ⟨fun h' => ⟨fun e => h e.symm, h'⟩, fun h' => h'.2⟩

theorem lookupB_mem {α} (k : Bytes) (v : α) : ∀ (l : List (Bytes × α)),
    lookupB k l = some v → (k, v) ∈ l
  | [] => by simp [lookupB]
  | (k', v') :: r => by
    rw [lookupB_cons]
    by_cases h : k' = k
    · simp only [if_pos h, Option.some.injEq]
      intro hv; subst hv; subst h; exact List.mem_cons_self ..
    · simp only [if_neg h]
      intro hv; exact List.mem_cons_of_mem _ (lookupB_mem k v r hv)

theorem lookupB_of_mem {α} (k : Bytes) (v : α) : ∀ (l : List (Bytes × α)),
    (l.map Prod.fst).Nodup → (k, v) ∈ l → lookupB k l = some v
  | [] => by simp
  | (k', v') :: r => by
    intro hnd hm
    rw [lookupB_cons]
    simp only [List.map_cons, List.nodup_cons] at hnd
    rcases List.mem_cons.mp hm with h | h
    · simp only [Prod.mk.injEq] at h
      obtain ⟨rfl, rfl⟩ := h
      simp
    · have hne : k' ≠ k := by
        intro e; subst e
        exact hnd.1 (List.mem_map.mpr ⟨(k', v), h, rfl⟩)
      rw [if_neg hne]
      exact lookupB_of_mem k v r hnd.2 h

/-! ### RegisterNames -/

theorem addNames_spec : ∀ (l : List (Bytes × Cat)) (m m' : N2C),
    addNames m l = .ok m' →
      m' = l.reverse ++ m ∧ (l.map Prod.fst).Nodup ∧ ∀ k, k ∈ l.map Prod.fst → k ∉ m.map Prod.fst
  | [], m, m' => by
    intro h
    simp only [addNames, Except.ok.injEq] at h
    subst h
    simp
  | (n, c) :: r, m, m' => by
    intro h
    simp only [addNames, addName] at h
    cases hl : lookupB n m with
    | some x => rw [hl] at h; simp at h
    | none =>
      rw [hl] at h
      simp only at h
      obtain ⟨h1, h2, h3⟩ := addNames_spec r ((n, c) :: m) m' h
      have hn : n ∉ m.map Prod.fst := (lookupB_none n m).mp hl
      refine ⟨?_, ?_, ?_⟩
      · rw [h1]; simp
      · simp only [List.map_cons, List.nodup_cons]
        refine ⟨?_, h2⟩
        intro hm
        have := h3 n hm
        simp at this
      · intro k hk
        simp only [List.map_cons, List.mem_cons] at hk
        rcases hk with rfl | hk
        · exact hn
        · have := h3 k hk
          simp only [List.map_cons, List.mem_cons, not_or] at this
          exact this.2

theorem addNames_error : ∀ (l : List (Bytes × Cat)) (m : N2C) (e : Err),
    addNames m l = .error e → e = .multidef
  | [], m, e => by simp [addNames]
  | (n, c) :: r, m, e => by
    intro h
    simp only [addNames, addName] at h
    cases hl : lookupB n m with
    | some x => rw [hl] at h; simp only [Except.error.injEq] at h; exact h.symm
    | none => rw [hl] at h; exact addNames_error r _ e h

theorem addNames_complete : ∀ (l : List (Bytes × Cat)) (m : N2C),
    (l.map Prod.fst).Nodup → (∀ k, k ∈ l.map Prod.fst → k ∉ m.map Prod.fst) →
    ∃ m', addNames m l = .ok m'
  | [], m => by intro _ _; exact ⟨m, rfl⟩
  | (n, c) :: r, m => by
    intro hnd hdis
    simp only [List.map_cons, List.nodup_cons] at hnd
    have hn : lookupB n m = none := (lookupB_none n m).mpr (hdis n (by simp))
    simp only [addNames, addName, hn]
    apply addNames_complete r _ hnd.2
    intro k hk
    simp only [List.map_cons, List.mem_cons, not_or]
    refine ⟨?_, hdis k (by simp [hk])⟩
    intro e; subst e; exact hnd.1 hk

theorem declared_iff (f : File) (n : Bytes) (c : Cat) : (n, c) ∈ f.declared ↔ Declares f n c := by
  unfold File.declared
  simp only [List.mem_append, List.mem_map, Prod.mk.injEq]
  constructor
  · rintro ((((⟨x, hx, rfl, rfl⟩ | ⟨x, hx, rfl, rfl⟩) | ⟨x, hx, rfl, rfl⟩) | ⟨x, hx, rfl, rfl⟩) | ⟨x, hx, rfl, rfl⟩)
    · exact .typedef hx
    · exact .constant hx
    · exact .enum hx
    · exact .structLike hx
    · exact .service hx
  · intro h
    cases h with
    | typedef h => exact Or.inl (Or.inl (Or.inl (Or.inl ⟨_, h, rfl, rfl⟩)))
    | constant h => exact Or.inl (Or.inl (Or.inl (Or.inr ⟨_, h, rfl, rfl⟩)))
    | enum h => exact Or.inl (Or.inl (Or.inr ⟨_, h, rfl, rfl⟩))
    | structLike h => exact Or.inl (Or.inr ⟨_, h, rfl, rfl⟩)
    | service h => exact Or.inr ⟨_, h, rfl, rfl⟩

/-- RegisterNames succeeds exactly when the global names of the file are pairwise distinct, and
then Name2Category maps each name to the category it is declared with. -/
theorem registerNames_ok {f : File} {m : N2C} (h : registerNames f = .ok m) :
    f.names.Nodup ∧ ∀ n c, lookupB n m = some c ↔ Declares f n c := by
  obtain ⟨h1, h2, _⟩ := addNames_spec f.declared [] m h
  refine ⟨h2, ?_⟩
  intro n c
  rw [← declared_iff]
  simp only [List.append_nil] at h1
  subst h1
  have hnd : (f.declared.reverse.map Prod.fst).Nodup := by
    rw [List.map_reverse]; exact (List.reverse_perm _).nodup_iff.mpr h2
  constructor
  · intro hl
    exact List.mem_reverse.mp (lookupB_mem n c _ hl)
  · intro hm
    exact lookupB_of_mem n c _ hnd (List.mem_reverse.mpr hm)

theorem registerNames_error {f : File} {e : Err} (h : registerNames f = .error e) : e = .multidef :=
  addNames_error _ _ _ h

theorem registerNames_complete {f : File} (h : f.names.Nodup) : ∃ m, registerNames f = .ok m :=
  addNames_complete f.declared [] h (by simp)

theorem declares_unique {f : File} (hnd : f.names.Nodup) {n : Bytes} {c c' : Cat}
    (h : Declares f n c) (h' : Declares f n c') : c = c' := by
  rw [← declared_iff] at h h'
  have h1 := lookupB_of_mem n c f.declared hnd h
  have h2 := lookupB_of_mem n c' f.declared hnd h'
  rw [h1] at h2
  exact Option.some.inj h2

/-- injectivity of a key on a list whose keys are pairwise distinct -/
theorem eq_of_nodup_map {α β} (g : α → β) : ∀ (l : List α), (l.map g).Nodup →
    ∀ x y, x ∈ l → y ∈ l → g x = g y → x = y
  | [], _ => by intro x y hx; simp at hx
  | a :: r, hnd => by
    intro x y hx hy hg
    simp only [List.map_cons, List.nodup_cons] at hnd
    rcases List.mem_cons.mp hx with h1 | hx <;> rcases List.mem_cons.mp hy with h2 | hy
    · rw [h1, h2]
    · rw [h1] at hg
      exact absurd (List.mem_map.mpr ⟨y, hy, hg.symm⟩) hnd.1
    · rw [h2] at hg
      exact absurd (List.mem_map.mpr ⟨x, hx, hg⟩) hnd.1
    · exact eq_of_nodup_map g r hnd.2 x y hx hy hg

theorem names_sublists (f : File) (h : f.names.Nodup) :
    (f.typedefs.map (·.alias)).Nodup ∧ (f.constants.map (·.name)).Nodup ∧ (f.enums.map (·.name)).Nodup ∧
    (f.structLikes.map (·.name)).Nodup ∧ (f.services.map (·.name)).Nodup := by
  unfold File.names File.declared at h
  simp only [List.map_append, List.map_map] at h
  have e1 : (Prod.fst ∘ fun (v : Typedef) => (v.alias, Cat.typedef)) = (·.alias) := rfl
  have e2 : (Prod.fst ∘ fun (v : Constant) => (v.name, Cat.constant)) = (·.name) := rfl
  have e3 : (Prod.fst ∘ fun (v : Enum) => (v.name, Cat.enum)) = (·.name) := rfl
  have e4 : (Prod.fst ∘ fun (v : StructLike) => (v.name, v.kind.cat)) = (·.name) := rfl
  have e5 : (Prod.fst ∘ fun (v : Service) => (v.name, Cat.service)) = (·.name) := rfl
  rw [e1, e2, e3, e4, e5] at h
  have h5 := (List.nodup_append.mp h).2.1
  have h' := (List.nodup_append.mp h).1
  have h4 := (List.nodup_append.mp h').2.1
  have h'' := (List.nodup_append.mp h').1
  have h3 := (List.nodup_append.mp h'').2.1
  have h''' := (List.nodup_append.mp h'').1
  exact ⟨(List.nodup_append.mp h''').1, (List.nodup_append.mp h''').2.1, h3, h4, h5⟩

/-! ### the regenerated tables against the specification -/

theorem specBase_keys : specBaseTable.map Prod.fst = Generated.C05.baseCase := by decide

theorem baseCat_on_table : ∀ n, n ∈ Generated.C05.baseCase → baseCat n = specBase n := by decide

/-- `categoryMap` restricted to ResolveType's first case list is the IDL's base-type table. -/
theorem baseCat_eq_specBase (n : Bytes) : baseCat n = specBase n := by
  by_cases h : n ∈ Generated.C05.baseCase
  · exact baseCat_on_table n h
  · have h1 : baseCat n = none := by unfold baseCat; rw [if_neg h]
    have h2 : specBase n = none := by
      unfold specBase
      rw [lookupB_none, specBase_keys]
      exact h
    rw [h1, h2]

theorem isTypeLike_eq_spec : ∀ c : Cat, c.isTypeLike = c.isTypeLikeSpec := by
  intro c; cases c <;> decide

theorem isDerefTarget_eq_concrete : ∀ c : Cat, c.isDerefTarget = c.isConcrete := by
  intro c; cases c <;> decide

theorem container_table :
    Generated.C05.containerCase = [kwMap, kwList, kwSet] ∧
    lookupB kwMap Generated.C05.categoryMap = some Cat.map.toNat ∧
    lookupB kwList Generated.C05.categoryMap = some Cat.list.toNat ∧
    lookupB kwSet Generated.C05.categoryMap = some Cat.set.toNat := by decide

/-- Go names of the categories in numeric order (parser/AST.thrift, enum Category). -/
def specCategoryNames : List Bytes :=
  [[67, 111, 110, 115, 116, 97, 110, 116], [66, 111, 111, 108], [66, 121, 116, 101], [73, 49, 54],
   [73, 51, 50], [73, 54, 52], [68, 111, 117, 98, 108, 101], [83, 116, 114, 105, 110, 103],
   [66, 105, 110, 97, 114, 121], [77, 97, 112], [76, 105, 115, 116], [83, 101, 116], [69, 110, 117, 109],
   [83, 116, 114, 117, 99, 116], [85, 110, 105, 111, 110], [69, 120, 99, 101, 112, 116, 105, 111, 110],
   [84, 121, 112, 101, 100, 101, 102], [83, 101, 114, 118, 105, 99, 101]]

theorem category_numbering :
    Generated.C05.categoryNames = specCategoryNames ∧ (Cat.all.map Cat.toNat) = List.range 18 := by decide

theorem specBase_isBase {n : Bytes} {c : Cat} (h : specBase n = some c) :
    c ≠ .typedef ∧ c.isConcrete = false ∧ splitLastDot n = none ∧ isContainerName n = false := by
  have hm := lookupB_mem n c specBaseTable h
  revert hm
  have : ∀ x, x ∈ specBaseTable → x.2 ≠ Cat.typedef ∧ x.2.isConcrete = false ∧ splitLastDot x.1 = none ∧
      isContainerName x.1 = false := by decide
  intro hm
  exact this (n, c) hm

theorem categoryMap_keys :
    Generated.C05.categoryMap.map Prod.fst = Generated.C05.baseCase ++ Generated.C05.containerCase := by decide

theorem inCategoryMap_iff (n : Bytes) :
    inCategoryMap n = true ↔ n ∈ Generated.C05.baseCase ∨ isContainerName n = true := by
  unfold inCategoryMap isContainerName
  rw [Option.isSome_iff_ne_none, Ne, lookupB_none, categoryMap_keys, List.mem_append]
  simp only [Classical.not_not, decide_eq_true_eq]

theorem specBase_some_mem {n : Bytes} {c : Cat} (h : specBase n = some c) : n ∈ Generated.C05.baseCase := by
  rw [← specBase_keys]
  exact List.mem_map.mpr ⟨(n, c), lookupB_mem n c _ h, rfl⟩

theorem specBase_none_not_mem {n : Bytes} (h : specBase n = none) : n ∉ Generated.C05.baseCase := by
  rw [← specBase_keys]
  exact (lookupB_none n _).mp h

end Sem
