import ThriftVerif.Lib.ResolveLemmas.ConstBind3
/-
  Order independence, part 1: permuting the definitions of a file changes neither what it
  declares, nor its events (as a set), nor whether the per-definition loops succeed; two traces
  over the same set of events store the same things.
-/
namespace Sem

/-- `f'` is `f` with the definitions in another order (includes untouched). -/
structure FilePerm (f f' : File) : Prop where
  filename : f.filename = f'.filename
  includes : f.includes = f'.includes
  typedefs : f.typedefs.Perm f'.typedefs
  constants : f.constants.Perm f'.constants
  enums : f.enums.Perm f'.enums
  structs : f.structs.Perm f'.structs
  unions : f.unions.Perm f'.unions
  exceptions : f.exceptions.Perm f'.exceptions
  services : f.services.Perm f'.services

theorem FilePerm.symm {f f' : File} (h : FilePerm f f') : FilePerm f' f :=
  ⟨h.filename.symm, h.includes.symm, h.typedefs.symm, h.constants.symm, h.enums.symm, h.structs.symm,
   h.unions.symm, h.exceptions.symm, h.services.symm⟩

theorem FilePerm.structLikes {f f' : File} (h : FilePerm f f') : f.structLikes.Perm f'.structLikes := by
  unfold File.structLikes
  exact (h.structs.append h.unions).append h.exceptions

theorem FilePerm.declared {f f' : File} (h : FilePerm f f') : f.declared.Perm f'.declared := by
  unfold File.declared
  exact ((((h.typedefs.map _).append (h.constants.map _)).append (h.enums.map _)).append
    (h.structLikes.map _)).append (h.services.map _)

theorem FilePerm.declares {f f' : File} (h : FilePerm f f') (n : Bytes) (c : Cat) :
    Declares f n c ↔ Declares f' n c := by
  rw [← declared_iff, ← declared_iff]
  exact h.declared.mem_iff

theorem FilePerm.nodup {f f' : File} (h : FilePerm f f') : f.names.Nodup ↔ f'.names.Nodup := by
  unfold File.names
  exact (h.declared.map _).nodup_iff

theorem FilePerm.slotType {f f' : File} (h : FilePerm f f') (s : Slot) (te : TypeExpr) :
    SlotType f s te → SlotType f' s te := by
  intro hs
  cases hs with
  | typedef h1 => exact .typedef (h.typedefs.mem_iff.mp h1)
  | const h1 => exact .const (h.constants.mem_iff.mp h1)
  | field h1 h2 => exact .field (h.structLikes.mem_iff.mp h1) h2
  | ret h1 h2 h3 => exact .ret (h.services.mem_iff.mp h1) h2 h3
  | arg h1 h2 h3 => exact .arg (h.services.mem_iff.mp h1) h2 h3
  | throw h1 h2 h3 => exact .throw (h.services.mem_iff.mp h1) h2 h3

theorem FilePerm.slotConst {f f' : File} (h : FilePerm f f') (s : Slot) (v : ConstVal) :
    SlotConst f s v → SlotConst f' s v := by
  intro hs
  cases hs with
  | const h1 => exact .const (h.constants.mem_iff.mp h1)
  | field h1 h2 h3 => exact .field (h.structLikes.mem_iff.mp h1) h2 h3
  | arg h1 h2 h3 h4 => exact .arg (h.services.mem_iff.mp h1) h2 h3 h4
  | throw h1 h2 h3 h4 => exact .throw (h.services.mem_iff.mp h1) h2 h3 h4

theorem FilePerm.events {f f' : File} (h : FilePerm f f') (ev : Ev) : ev ∈ f.events → ev ∈ f'.events := by
  intro hm
  cases ev with
  | ty s te => exact (mem_events_ty f' s te).mpr (h.slotType s te ((mem_events_ty f s te).mp hm))
  | cv s v => exact (mem_events_cv f' s v).mpr (h.slotConst s v ((mem_events_cv f s v).mp hm))
  | svc n e =>
    obtain ⟨sv, h1, h2, h3⟩ := (mem_events_svc f n e).mp hm
    exact (mem_events_svc f' n e).mpr ⟨sv, h.services.mem_iff.mp h1, h2, h3⟩

/-! ### lookups in permuted lists with distinct keys -/

theorem findTypedef_perm {a : Bytes} {l l' : List Typedef} (hp : l.Perm l')
    (hnd : (l.map (·.alias)).Nodup) : findTypedef a l = findTypedef a l' := by
  have hnd' : (l'.map (·.alias)).Nodup := (hp.map _).nodup_iff.mp hnd
  cases h : findTypedef a l with
  | none =>
    cases h' : findTypedef a l' with
    | none => rfl
    | some td' =>
      obtain ⟨m, al⟩ := findTypedef_some h'
      obtain ⟨td, ht⟩ := findTypedef_of_mem (hp.mem_iff.mpr m) al
      rw [h] at ht; cases ht
  | some td =>
    obtain ⟨m, al⟩ := findTypedef_some h
    obtain ⟨td', ht'⟩ := findTypedef_of_mem (hp.mem_iff.mp m) al
    obtain ⟨m', al'⟩ := findTypedef_some ht'
    have : td' = td := eq_of_nodup_map (·.alias) l' hnd' td' td m' (hp.mem_iff.mp m) (by rw [al, al'])
    rw [ht', this]

theorem findEnum_perm {a : Bytes} {l l' : List Enum} (hp : l.Perm l')
    (hnd : (l.map (·.name)).Nodup) : findEnum a l = findEnum a l' := by
  have hnd' : (l'.map (·.name)).Nodup := (hp.map _).nodup_iff.mp hnd
  cases h : findEnum a l with
  | none =>
    cases h' : findEnum a l' with
    | none => rfl
    | some td' =>
      obtain ⟨m, al⟩ := findEnum_some h'
      obtain ⟨td, ht⟩ := findEnum_of_mem (hp.mem_iff.mpr m) al
      rw [h] at ht; cases ht
  | some td =>
    obtain ⟨m, al⟩ := findEnum_some h
    obtain ⟨td', ht'⟩ := findEnum_of_mem (hp.mem_iff.mp m) al
    obtain ⟨m', al'⟩ := findEnum_some ht'
    have : td' = td := eq_of_nodup_map (·.name) l' hnd' td' td m' (hp.mem_iff.mp m) (by rw [al, al'])
    rw [ht', this]

/-! ### success of the per-definition loops does not depend on the order -/

theorem mapOutIdx_ok_of_all {α β} (g : Nat → α → Res (Out β)) : ∀ (l : List α) (k : Nat),
    (∀ (j : Nat) x, l[j]? = some x → ∃ a, g (k + j) x = .ok a) → ∃ o, mapOutIdx g k l = .ok o
  | [], k, _ => ⟨_, rfl⟩
  | x :: r, k, h => by
    obtain ⟨a, ha⟩ := h 0 x rfl
    rw [Nat.add_zero] at ha
    obtain ⟨b, hb⟩ := mapOutIdx_ok_of_all g r (k + 1) (fun j y hy => by
      have := h (j + 1) y (by simpa using hy)
      have e : k + (j + 1) = k + 1 + j := by omega
      rw [e] at this; exact this)
    refine ⟨⟨a.val :: b.val, a.work ++ b.work, a.used ++ b.used⟩, ?_⟩
    simp only [mapOutIdx, ha, hb]

theorem mapOut_ok_of_all {α β} (g : α → Res (Out β)) (l : List α)
    (h : ∀ x, x ∈ l → ∃ a, g x = .ok a) : ∃ o, mapOut g l = .ok o := by
  rw [mapOut_eq_idx g l 0]
  exact mapOutIdx_ok_of_all _ l 0 (fun j x hx => h x (List.mem_of_getElem? hx))

theorem mapOut_all_of_ok {α β} (g : α → Res (Out β)) (l : List α) (o : Out (List β))
    (h : mapOut g l = .ok o) : ∀ x, x ∈ l → ∃ a, g x = .ok a := by
  rw [mapOut_eq_idx g l 0] at h
  obtain ⟨as, has, _⟩ := mapOutIdx_ok _ _ _ _ h
  intro x hx
  obtain ⟨j, hj⟩ := List.mem_iff_getElem?.mp hx
  obtain ⟨a, _, ha⟩ := has.get j x hj
  exact ⟨a, ha⟩

theorem flatOut_ok {r : Res (Out (List DefOut))} : (∃ o, flatOut r = .ok o) ↔ ∃ o, r = .ok o := by
  unfold flatOut
  cases r with
  | error e => simp
  | ok o => simp

/-- if the loop over `l` succeeds, so does the loop over a permutation of `l` -/
theorem flat_mapOut_perm {α} (g : α → Res (Out DefOut)) {l l' : List α} (hp : l.Perm l')
    {o : Out DefOut} (h : flatOut (mapOut g l) = .ok o) : ∃ o', flatOut (mapOut g l') = .ok o' := by
  obtain ⟨o1, h1⟩ := flatOut_ok.mp ⟨o, h⟩
  have hall := mapOut_all_of_ok g l o1 h1
  exact flatOut_ok.mpr (mapOut_ok_of_all g l' (fun x hx => hall x (hp.mem_iff.mpr hx)))

/-! ### two traces over the same set of events -/

theorem lookupSlot_some_mem {α} {s : Slot} : ∀ {l : List (Slot × α)} {v : α},
    lookupSlot s l = some v → (s, v) ∈ l
  | [], v, h => by simp [lookupSlot] at h
  | (s', v') :: r, v, h => by
    rw [lookupSlot_cons] at h
    by_cases hs : s' = s
    · rw [if_pos hs] at h
      simp only [Option.some.injEq] at h
      subst h; subst hs
      exact List.mem_cons_self ..
    · rw [if_neg hs] at h
      exact List.mem_cons_of_mem _ (lookupSlot_some_mem h)

structure TraceEquiv (o o' : Out DefOut) : Prop where
  types : ∀ s, lookupSlot s o.val.types = lookupSlot s o'.val.types
  binds : ∀ s, lookupSlot s o.val.binds = lookupSlot s o'.val.binds
  svc : ∀ n, lookupB n o.val.svc = lookupB n o'.val.svc
  work : ∀ e, e ∈ o.work ↔ e ∈ o'.work
  used : ∀ u, u ∈ o.used ↔ u ∈ o'.used

theorem trace_equiv_half {ce : CEnv} {evs evs' : List Ev} {o o' : Out DefOut}
    (t : Trace ce evs o) (t' : Trace ce evs' o') (hsub : ∀ ev, ev ∈ evs → ev ∈ evs')
    (hsub' : ∀ ev, ev ∈ evs' → ev ∈ evs)
    (hty : (tySlots evs).Nodup) (hty' : (tySlots evs').Nodup)
    (hcv : (cvSlots evs).Nodup) (hcv' : (cvSlots evs').Nodup)
    (hsv : (svcNames evs).Nodup) (hsv' : (svcNames evs').Nodup) :
    (∀ s v, lookupSlot s o.val.types = some v → lookupSlot s o'.val.types = some v) ∧
    (∀ s v, lookupSlot s o.val.binds = some v → lookupSlot s o'.val.binds = some v) ∧
    (∀ n v, lookupB n o.val.svc = some v → lookupB n o'.val.svc = some v) ∧
    (∀ e, e ∈ o.work → e ∈ o'.work) ∧ (∀ u, u ∈ o.used → u ∈ o'.used) := by
  refine ⟨?_, ?_, ?_, ?_, ?_⟩
  · intro s v hl
    have hk : s ∈ tySlots evs := by
      rw [← t.type_keys]
      exact List.mem_map.mpr ⟨(s, v), lookupSlot_some_mem hl, rfl⟩
    obtain ⟨te, hev⟩ := mem_tySlots.mp hk
    obtain ⟨r, h1, h2, _⟩ := t.type_at hty s te hev
    obtain ⟨r', h1', h2', _⟩ := t'.type_at hty' s te (hsub _ hev)
    rw [h1] at h1'; simp only [Except.ok.injEq] at h1'; subst h1'
    rw [h2] at hl; rw [h2', ← hl]
  · intro s v hl
    have hk : s ∈ cvSlots evs := by
      rw [← t.bind_keys]
      exact List.mem_map.mpr ⟨(s, v), lookupSlot_some_mem hl, rfl⟩
    obtain ⟨cv, hev⟩ := mem_cvSlots.mp hk
    obtain ⟨r, h1, h2, _⟩ := t.bind_at hcv s cv hev
    obtain ⟨r', h1', h2', _⟩ := t'.bind_at hcv' s cv (hsub _ hev)
    rw [h1] at h1'; simp only [Except.ok.injEq] at h1'; subst h1'
    rw [h2] at hl; rw [h2', ← hl]
  · intro n v hl
    have hk : n ∈ svcNames evs := by
      rw [← t.svc_keys]
      exact List.mem_map.mpr ⟨(n, v), lookupB_mem n v _ hl, rfl⟩
    obtain ⟨ext, hev⟩ := mem_svcNames.mp hk
    obtain ⟨r, h1, h2, _⟩ := t.svc_at hsv n ext hev
    obtain ⟨r', h1', h2', _⟩ := t'.svc_at hsv' n ext (hsub _ hev)
    rw [h1] at h1'; simp only [Except.ok.injEq] at h1'; subst h1'
    rw [h2] at hl; rw [h2', ← hl]
  · intro e he
    obtain ⟨s, te, r, h1, h2, h3⟩ := t.work_from e he
    obtain ⟨r', h1', _, h3', _⟩ := t'.type_at hty' s te (hsub _ h1)
    rw [h2] at h1'; simp only [Except.ok.injEq] at h1'; subst h1'
    exact h3' e h3
  · intro u hu
    rcases t.used_from u hu with ⟨s, te, r, h1, h2, h3⟩ | ⟨s, v, b, h1, h2, h3⟩ | ⟨n, ext, b, h1, h2, h3⟩
    · obtain ⟨r', h1', _, _, h4'⟩ := t'.type_at hty' s te (hsub _ h1)
      rw [h2] at h1'; simp only [Except.ok.injEq] at h1'; subst h1'
      exact h4' u h3
    · obtain ⟨r', h1', _, h4'⟩ := t'.bind_at hcv' s v (hsub _ h1)
      rw [h2] at h1'; simp only [Except.ok.injEq] at h1'; subst h1'
      exact h4' u h3
    · obtain ⟨r', h1', _, h4'⟩ := t'.svc_at hsv' n ext (hsub _ h1)
      rw [h2] at h1'; simp only [Except.ok.injEq] at h1'; subst h1'
      exact h4' u h3

theorem option_eq_of_imp {α} {a b : Option α} (h1 : ∀ v, a = some v → b = some v)
    (h2 : ∀ v, b = some v → a = some v) : a = b := by
  cases a with
  | none =>
    cases b with
    | none => rfl
    | some v => exact (h2 v rfl).symm ▸ rfl
  | some v => exact (h1 v rfl).symm

theorem trace_equiv {ce : CEnv} {evs evs' : List Ev} {o o' : Out DefOut}
    (t : Trace ce evs o) (t' : Trace ce evs' o') (hsub : ∀ ev, ev ∈ evs → ev ∈ evs')
    (hsub' : ∀ ev, ev ∈ evs' → ev ∈ evs)
    (hty : (tySlots evs).Nodup) (hty' : (tySlots evs').Nodup)
    (hcv : (cvSlots evs).Nodup) (hcv' : (cvSlots evs').Nodup)
    (hsv : (svcNames evs).Nodup) (hsv' : (svcNames evs').Nodup) : TraceEquiv o o' := by
  obtain ⟨a1, a2, a3, a4, a5⟩ := trace_equiv_half t t' hsub hsub' hty hty' hcv hcv' hsv hsv'
  obtain ⟨b1, b2, b3, b4, b5⟩ := trace_equiv_half t' t hsub' hsub hty' hty hcv' hcv hsv' hsv
  exact ⟨fun s => option_eq_of_imp (a1 s) (b1 s), fun s => option_eq_of_imp (a2 s) (b2 s),
    fun n => option_eq_of_imp (a3 n) (b3 n), fun e => ⟨a4 e, b4 e⟩, fun u => ⟨a5 u, b5 u⟩⟩

end Sem
