import ThriftVerif.Lib.Resolve
/-
  The ResolveTypedefs loop: invariant, termination measure, and what success / failure mean.
  Everything here is about the abstract loop (`LoopEnv`, work list, store); no program yet.
-/
namespace Sem

/-- The source an entry reads exists (GetTypedef succeeds). -/
def TdEntry.src (le : LoopEnv) (e : TdEntry) : Option Cat :=
  match e.ast with
  | .cur => le.localRoot e.name
  | .inc k => le.incRoot k e.name

/-- `Settles le es e c`: following what the entries of `es` read, entry `e` ends at the
non-typedef category `c`. -/
inductive Settles (le : LoopEnv) (es : List TdEntry) : TdEntry → Cat → Prop
  | inc {e k c} : e ∈ es → e.ast = .inc k → le.incRoot k e.name = some c → c ≠ .typedef →
      Settles le es e c
  | curStatic {e c} : e ∈ es → e.ast = .cur → le.localRoot e.name = some c → c ≠ .typedef →
      Settles le es e c
  | curStep {e e' c0 c} : e ∈ es → e.ast = .cur → le.localRoot e.name = some c0 → e' ∈ es →
      e'.addr = (Slot.typedef e.name, 0) → Settles le es e' c → Settles le es e c

theorem Store.get_cons (a' : Addr) (c : Cat) (r : Store) (a : Addr) :
    Store.get ((a', c) :: r) a = if a' = a then some c else Store.get r a := rfl

def StoreSound (le : LoopEnv) (es : List TdEntry) (st : Store) : Prop :=
  ∀ a c, st.get a = some c → c ≠ .typedef ∧ ∃ e, e ∈ es ∧ e.addr = a ∧ Settles le es e c

structure LoopInv (le : LoopEnv) (es : List TdEntry) (st : Store) (tds : List TdEntry) : Prop where
  sub : ∀ e, e ∈ tds → e ∈ es
  sound : StoreSound le es st
  done : ∀ e, e ∈ es → e ∈ tds ∨ (st.get e.addr).isSome = true

theorem readTd_none {le : LoopEnv} {st : Store} {e : TdEntry} (h : readTd le st e = none) :
    e.src le = none := by
  unfold readTd at h
  unfold TdEntry.src
  cases ha : e.ast with
  | cur =>
    rw [ha] at h
    simp only at h ⊢
    cases hl : le.localRoot e.name with
    | none => rfl
    | some c0 => rw [hl] at h; simp at h
  | inc k => rw [ha] at h; simpa using h

/-- A value read that is not `typedef` is a category the entry settles at. -/
theorem read_settles {le : LoopEnv} {es : List TdEntry} {st : Store} {e : TdEntry} {c : Cat}
    (hs : StoreSound le es st) (he : e ∈ es) (hr : readTd le st e = some c) (hc : c ≠ .typedef) :
    Settles le es e c := by
  unfold readTd at hr
  cases ha : e.ast with
  | inc k =>
    rw [ha] at hr
    exact Settles.inc he ha hr hc
  | cur =>
    rw [ha] at hr
    simp only at hr
    cases hl : le.localRoot e.name with
    | none => rw [hl] at hr; simp at hr
    | some c0 =>
      rw [hl] at hr
      simp only [Option.some.injEq] at hr
      cases hg : st.get (Slot.typedef e.name, 0) with
      | none =>
        rw [hg] at hr
        simp only [Option.getD_none] at hr
        subst hr
        exact Settles.curStatic he ha hl hc
      | some c' =>
        rw [hg] at hr
        simp only [Option.getD_some] at hr
        subst hr
        obtain ⟨_, e', he', hadr, hse⟩ := hs _ _ hg
        exact Settles.curStep he ha hl he' hadr hse

theorem pass_spec {le : LoopEnv} {es : List TdEntry} :
    ∀ (l : List TdEntry) (st st' : Store) (tmp : List TdEntry),
      pass le l st = .ok (st', tmp) → (∀ e, e ∈ l → e ∈ es) → StoreSound le es st →
      StoreSound le es st' ∧ (∀ e, e ∈ tmp → e ∈ l) ∧
      (∀ e, e ∈ l → e ∈ tmp ∨ (st'.get e.addr).isSome = true) ∧
      (∀ a, (st.get a).isSome = true → (st'.get a).isSome = true) ∧ tmp.length ≤ l.length := by
  intro l
  induction l with
  | nil =>
    intro st st' tmp h _ hs
    simp only [pass, Except.ok.injEq, Prod.mk.injEq] at h
    obtain ⟨rfl, rfl⟩ := h
    exact ⟨hs, by simp, by simp, fun _ h => h, Nat.le_refl _⟩
  | cons e r ih =>
    intro st st' tmp h hsub hs
    have he : e ∈ es := hsub e (List.mem_cons_self ..)
    have hr : ∀ x, x ∈ r → x ∈ es := fun x hx => hsub x (List.mem_cons_of_mem _ hx)
    simp only [pass] at h
    cases hrd : readTd le st e with
    | none => rw [hrd] at h; simp at h
    | some c =>
      rw [hrd] at h
      simp only at h
      by_cases hc : c = .typedef
      · rw [if_pos hc] at h
        cases hp : pass le r st with
        | error err => rw [hp] at h; simp at h
        | ok res =>
          obtain ⟨st1, tmp1⟩ := res
          rw [hp] at h
          simp only [Except.ok.injEq, Prod.mk.injEq] at h
          obtain ⟨rfl, rfl⟩ := h
          obtain ⟨h1, h2, h3, h4, h5⟩ := ih st st1 tmp1 hp hr hs
          refine ⟨h1, ?_, ?_, h4, ?_⟩
          · intro x hx
            rcases List.mem_cons.mp hx with rfl | hx
            · exact List.mem_cons_self ..
            · exact List.mem_cons_of_mem _ (h2 x hx)
          · intro x hx
            rcases List.mem_cons.mp hx with rfl | hx
            · exact Or.inl (List.mem_cons_self ..)
            · rcases h3 x hx with h | h
              · exact Or.inl (List.mem_cons_of_mem _ h)
              · exact Or.inr h
          · simp only [List.length_cons]; omega
      · rw [if_neg hc] at h
        have hs2 : StoreSound le es ((e.addr, c) :: st) := by
          intro a c' hg
          rw [Store.get_cons] at hg
          by_cases hea : e.addr = a
          · rw [if_pos hea] at hg
            simp only [Option.some.injEq] at hg
            subst hg
            exact ⟨hc, e, he, hea, read_settles hs he hrd hc⟩
          · rw [if_neg hea] at hg
            exact hs a c' hg
        obtain ⟨h1, h2, h3, h4, h5⟩ := ih _ st' tmp h hr hs2
        refine ⟨h1, ?_, ?_, ?_, ?_⟩
        · intro x hx; exact List.mem_cons_of_mem _ (h2 x hx)
        · intro x hx
          rcases List.mem_cons.mp hx with rfl | hx
          · right
            apply h4
            rw [Store.get_cons, if_pos rfl]; rfl
          · exact h3 x hx
        · intro a ha
          apply h4
          rw [Store.get_cons]
          by_cases hea : e.addr = a
          · rw [if_pos hea]; rfl
          · rw [if_neg hea]; exact ha
        · simp only [List.length_cons]; omega

/-- A pass that keeps everything changed nothing and read `typedef` everywhere. -/
theorem pass_stuck {le : LoopEnv} :
    ∀ (l : List TdEntry) (st st' : Store) (tmp : List TdEntry),
      pass le l st = .ok (st', tmp) → tmp.length = l.length →
      st' = st ∧ ∀ e, e ∈ l → readTd le st e = some .typedef := by
  intro l
  induction l with
  | nil =>
    intro st st' tmp h _
    simp only [pass, Except.ok.injEq, Prod.mk.injEq] at h
    exact ⟨h.1.symm, by simp⟩
  | cons e r ih =>
    intro st st' tmp h hlen
    simp only [pass] at h
    cases hrd : readTd le st e with
    | none => rw [hrd] at h; simp at h
    | some c =>
      rw [hrd] at h
      simp only at h
      by_cases hc : c = .typedef
      · rw [if_pos hc] at h
        cases hp : pass le r st with
        | error err => rw [hp] at h; simp at h
        | ok res =>
          obtain ⟨st1, tmp1⟩ := res
          rw [hp] at h
          simp only [Except.ok.injEq, Prod.mk.injEq] at h
          obtain ⟨rfl, rfl⟩ := h
          simp only [List.length_cons, Nat.add_right_cancel_iff] at hlen
          obtain ⟨h1, h2⟩ := ih st st1 tmp1 hp hlen
          refine ⟨h1, ?_⟩
          intro x hx
          rcases List.mem_cons.mp hx with rfl | hx
          · rw [hrd, hc]
          · exact h2 x hx
      · rw [if_neg hc] at h
        exfalso
        have : tmp.length ≤ r.length := by
          have := @pass_spec le r r ((e.addr, c) :: st) st' tmp h (fun _ h => h)
          -- only the length part is needed; it does not depend on soundness
          clear this
          revert h
          generalize ((e.addr, c) :: st) = s0
          intro h
          exact pass_length r s0 st' tmp h
        simp only [List.length_cons] at hlen
        omega
where
  pass_length : ∀ (l : List TdEntry) (st st' : Store) (tmp : List TdEntry),
      pass le l st = .ok (st', tmp) → tmp.length ≤ l.length := by
    intro l
    induction l with
    | nil =>
      intro st st' tmp h
      simp only [pass, Except.ok.injEq, Prod.mk.injEq] at h
      rw [← h.2]; exact Nat.le_refl _
    | cons e r ih =>
      intro st st' tmp h
      simp only [pass] at h
      cases hrd : readTd le st e with
      | none => rw [hrd] at h; simp at h
      | some c =>
        rw [hrd] at h
        simp only at h
        by_cases hc : c = .typedef
        · rw [if_pos hc] at h
          cases hp : pass le r st with
          | error err => rw [hp] at h; simp at h
          | ok res =>
            obtain ⟨st1, tmp1⟩ := res
            rw [hp] at h
            simp only [Except.ok.injEq, Prod.mk.injEq] at h
            obtain ⟨rfl, rfl⟩ := h
            have := ih st st1 tmp1 hp
            simp only [List.length_cons]; omega
        · rw [if_neg hc] at h
          have := ih _ st' tmp h
          simp only [List.length_cons]; omega

/-- When every remaining entry reads `typedef`, none of them settles. -/
theorem stuck_not_settles {le : LoopEnv} {es tds : List TdEntry} {st : Store}
    (inv : LoopInv le es st tds) (hall : ∀ e, e ∈ tds → readTd le st e = some .typedef) :
    ∀ e c, Settles le es e c → e ∈ tds → False := by
  intro e c hs
  induction hs with
  | @inc e k c he ha hr hc =>
    intro hm
    have := hall e hm
    unfold readTd at this
    rw [ha] at this
    simp only at this
    rw [hr] at this
    exact hc (Option.some.inj this)
  | @curStatic e c he ha hl hc =>
    intro hm
    have := hall e hm
    unfold readTd at this
    rw [ha] at this
    simp only at this
    rw [hl] at this
    simp only [Option.some.injEq] at this
    cases hg : st.get (Slot.typedef e.name, 0) with
    | none => rw [hg] at this; exact hc this
    | some c' =>
      rw [hg] at this
      simp only [Option.getD_some] at this
      exact (inv.sound _ _ hg).1 this
  | @curStep e e' c0 c he ha hl he' hadr _ ih =>
    intro hm
    rcases inv.done e' he' with h | h
    · exact ih h
    · have := hall e hm
      unfold readTd at this
      rw [ha] at this
      simp only at this
      rw [hl] at this
      simp only [Option.some.injEq] at this
      rw [hadr] at h
      cases hg : st.get (Slot.typedef e.name, 0) with
      | none => rw [hg] at h; simp at h
      | some c' =>
        rw [hg] at this
        simp only [Option.getD_some] at this
        exact (inv.sound _ _ hg).1 this

theorem pass_error {le : LoopEnv} :
    ∀ (l : List TdEntry) (st : Store) (err : Err), pass le l st = .error err →
      err = .tdNotFound ∧ ∃ e, e ∈ l ∧ e.src le = none := by
  intro l
  induction l with
  | nil => intro st err h; simp [pass] at h
  | cons e r ih =>
    intro st err h
    simp only [pass] at h
    cases hrd : readTd le st e with
    | none =>
      rw [hrd] at h
      simp only [Except.error.injEq] at h
      exact ⟨h.symm, e, List.mem_cons_self .., readTd_none hrd⟩
    | some c =>
      rw [hrd] at h
      simp only at h
      by_cases hc : c = .typedef
      · rw [if_pos hc] at h
        cases hp : pass le r st with
        | error err' =>
          rw [hp] at h
          simp only [Except.error.injEq] at h
          subst h
          obtain ⟨h1, x, hx, hs⟩ := ih st err' hp
          exact ⟨h1, x, List.mem_cons_of_mem _ hx, hs⟩
        | ok res => obtain ⟨a, b⟩ := res; rw [hp] at h; simp at h
      · rw [if_neg hc] at h
        obtain ⟨h1, x, hx, hs⟩ := ih _ err h
        exact ⟨h1, x, List.mem_cons_of_mem _ hx, hs⟩

/-- The loop: it ends within the measure (`loopDiverged` never happens); `ok` means the
invariant holds with an empty work list; `tdCycle` means some entry does not settle;
`tdNotFound` means some entry has no source. -/
theorem tdLoop_spec {le : LoopEnv} {es : List TdEntry} :
    ∀ (fuel : Nat) (tds : List TdEntry) (cnt : Nat) (st : Store),
      cnt = tds.length → tds.length ≤ fuel → LoopInv le es st tds →
      match tdLoop le fuel tds cnt st with
      | .ok st' => LoopInv le es st' []
      | .error .tdCycle => ∃ e, e ∈ es ∧ ∀ c, ¬ Settles le es e c
      | .error .tdNotFound => ∃ e, e ∈ es ∧ e.src le = none
      | .error _ => False := by
  intro fuel
  induction fuel with
  | zero =>
    intro tds cnt st _ hlen inv
    have : tds = [] := List.eq_nil_of_length_eq_zero (Nat.le_zero.mp hlen)
    subst this
    simp only [tdLoop, List.isEmpty_nil, if_true]
    exact inv
  | succ fuel ih =>
    intro tds cnt st hcnt hlen inv
    simp only [tdLoop]
    cases htd : tds with
    | nil =>
      simp only [List.isEmpty_nil, if_true]
      rw [htd] at inv; exact inv
    | cons e0 r0 =>
      rw [← htd]
      have hne : tds.isEmpty = false := by rw [htd]; rfl
      simp only [hne, Bool.false_eq_true, if_false]
      cases hp : pass le tds st with
      | error err =>
        obtain ⟨h1, x, hx, hs⟩ := pass_error tds st err hp
        subst h1
        exact ⟨x, inv.sub x hx, hs⟩
      | ok res =>
        obtain ⟨st', tmp⟩ := res
        simp only
        obtain ⟨h1, h2, h3, h4, h5⟩ := pass_spec tds st st' tmp hp inv.sub inv.sound
        by_cases heq : tmp.length = cnt
        · rw [if_pos heq]
          rw [hcnt] at heq
          obtain ⟨hst, hall⟩ := pass_stuck tds st st' tmp hp heq
          have hns := stuck_not_settles inv hall
          exact ⟨e0, inv.sub e0 (by rw [htd]; exact List.mem_cons_self ..),
            fun c hc => hns e0 c hc (by rw [htd]; exact List.mem_cons_self ..)⟩
        · rw [if_neg heq]
          have inv' : LoopInv le es st' tmp := by
            refine ⟨fun e he => inv.sub e (h2 e he), h1, ?_⟩
            intro e he
            rcases inv.done e he with h | h
            · exact h3 e h
            · exact Or.inr (h4 _ h)
          have hlt : tmp.length ≤ fuel := by omega
          exact ih tmp tmp.length st' rfl hlt inv'

theorem loopInv_init (le : LoopEnv) (es : List TdEntry) : LoopInv le es [] es :=
  ⟨fun _ h => h, fun a c h => by simp [Store.get] at h, fun _ h => Or.inl h⟩

/-- resolver.ResolveTypedefs, abstractly. -/
theorem resolveTypedefs_spec (le : LoopEnv) (work : List TdEntry) :
    match resolveTypedefs le work with
    | .ok st => LoopInv le work st []
    | .error .tdCycle => ∃ e, e ∈ work ∧ ∀ c, ¬ Settles le work e c
    | .error .tdNotFound => ∃ e, e ∈ work ∧ e.src le = none
    | .error _ => False :=
  tdLoop_spec (work.length + 1) work work.length [] rfl (Nat.le_succ _) (loopInv_init le work)

end Sem
