import ThriftVerif.Lib.ResolveLemmas.ConstBind
/-
  The candidates ResolveConstValue collects for an identifier are exactly what `ConstCand` allows;
  per-file statement of resolve_const_binding.
-/
namespace Sem

structure CandCtx (p : Program) (i : Nat) (f : File) (ce : CEnv) : Prop where
  self : ce.self = i
  env : EnvGood p i f ce.env
  views : AllViews p ce.views
  cur : ∃ v, ce.views i = some v

theorem enumDen_viewed {p : Program} {views : Nat → Option FileView} (hv : AllViews p views) :
    ∀ {j b e idx}, EnumDen p j b e idx → (∃ v, views j = some v) → ∃ v', views e.1 = some v' := by
  intro j b e idx h
  induction h with
  | enum _ _ => intro hj; exact hj
  | tdLoc _ _ _ _ _ _ _ ih => intro hj; exact ih hj
  | @tdQual j f td n a b k j' c e idx h1 _ _ _ _ h6 _ ih =>
    intro ⟨v, hvj⟩
    obtain ⟨g, hg, _, _, _, _, _, _, hcl⟩ := (hv j v hvj).ex
    rw [h1] at hg; simp only [Option.some.injEq] at hg; subst hg
    obtain ⟨inc, g2, r1, r2, _⟩ := h6
    subst r2
    exact ih (hcl inc (List.mem_of_getElem? r1))

theorem enumVals_has {p : Program} {e : Nat × Bytes} {vals : List Bytes} {x : Bytes}
    (h : EnumVals p e vals) (hx : x ∈ vals) : EnumHasValue p e x := by
  obtain ⟨g, en, h1, h2, h3, h4⟩ := h
  exact ⟨g, en, h1, h2, h3, by rw [← h4]; exact hx⟩

theorem enumVals_unique {p : Program} {views : Nat → Option FileView} (hv : AllViews p views)
    {e : Nat × Bytes} (hview : ∃ v', views e.1 = some v') {vals : List Bytes} {x : Bytes}
    (h : EnumVals p e vals) (hx : EnumHasValue p e x) : x ∈ vals := by
  obtain ⟨v', hv'⟩ := hview
  obtain ⟨g0, hg0, hnd, _⟩ := (hv _ _ hv').ex
  obtain ⟨g, en, h1, h2, h3, h4⟩ := h
  obtain ⟨g', en', h1', h2', h3', h4'⟩ := hx
  rw [hg0] at h1 h1'
  simp only [Option.some.injEq] at h1 h1'
  subst h1; subst h1'
  have : en = en' := eq_of_nodup_map (·.name) g0.enums (names_sublists g0 hnd).2.2.1 en en' h2 h2' (by rw [h3, h3'])
  subst this
  rw [h4]; exact h4'

theorem allCands_one {ce : CEnv} {s1 : List Bytes} {cs : List Cand} (h : allCands ce [s1] = .ok cs) :
    altCands ce s1 = .ok cs := by
  simp only [allCands] at h
  cases ha : altCands ce s1 with
  | error e => rw [ha] at h; simp at h
  | ok c =>
    rw [ha] at h
    simp only [List.append_nil, Except.ok.injEq] at h
    rw [h]

theorem allCands_two {ce : CEnv} {s1 s2 : List Bytes} {cs : List Cand} (h : allCands ce [s1, s2] = .ok cs) :
    ∃ c1 c2, altCands ce s1 = .ok c1 ∧ altCands ce s2 = .ok c2 ∧ cs = c1 ++ c2 := by
  simp only [allCands] at h
  cases ha : altCands ce s1 with
  | error e => rw [ha] at h; simp at h
  | ok c1 =>
    rw [ha] at h
    simp only at h
    cases hb : altCands ce s2 with
    | error e => rw [hb] at h; simp at h
    | ok c2 =>
      rw [hb] at h
      simp only [List.append_nil, Except.ok.injEq] at h
      exact ⟨c1, c2, rfl, rfl, h.symm⟩

/-- include `k` of the file as the resolver sees it -/
theorem incs_at {p : Program} {f : File} {incs : List IncInfo} (hi : IncsGood p f incs)
    {j : Nat} {ii : IncInfo} (h : incs[j]? = some ii) :
    ∃ inc g, f.includes[j]? = some inc ∧ ii.pfx = idlPrefix inc.path ∧ ii.target = inc.target ∧
      p[inc.target]? = some g ∧ ∀ n c, ii.n2c n = some c ↔ Declares g n c := by
  have hlt : j < f.includes.length := by
    rw [← hi.1]; exact (List.getElem?_eq_some_iff.mp h).1
  have hinc : f.includes[j]? = some f.includes[j] := List.getElem?_eq_getElem hlt
  obtain ⟨ii', g, q1, q2, q3, q4, _, q6⟩ := hi.2 j _ hinc
  rw [h] at q1
  simp only [Option.some.injEq] at q1
  subst q1
  exact ⟨_, g, hinc, q2, q3, q4, q6⟩

/-- soundness and completeness of the `[a, v]` alternative -/
theorem alt_two_spec {p : Program} {i : Nat} {f : File} {ce : CEnv} (C : CandCtx p i f ce)
    {id a v : Bytes} (hsp : splitLastDot id = some (a, v)) {cs : List Cand} (h : altCands ce [a, v] = .ok cs) :
    (∀ c, c ∈ cs → ConstCand p i id c.1) ∧
    (∀ {e idx}, EnumDen p i a e idx → EnumHasValue p e v → ∃ c, c ∈ cs ∧ c.1 = ⟨true, idx, v, a⟩) ∧
    (∀ {k : Nat} {inc : Include} {g : File}, f.includes[k]? = some inc → idlPrefix inc.path = a →
      p[inc.target]? = some g → Declares g v .constant → ∃ c, c ∈ cs ∧ c.1 = ⟨false, (k : Int), v, a⟩) := by
  simp only [altCands] at h
  cases hg : getEnum ce.views ce.fuel [] ce.self a with
  | error err => rw [hg] at h; simp at h
  | ok res =>
    obtain ⟨en, idx0⟩ := res
    rw [hg] at h
    simp only [Except.ok.injEq] at h
    subst h
    rw [C.self] at hg
    refine ⟨?_, ?_, ?_⟩
    · intro c hc
      rcases List.mem_append.mp hc with hc | hc
      · cases en with
        | none => simp at hc
        | some vals =>
          simp only at hc
          obtain ⟨e1, e2⟩ := mem_enumCands.mp hc
          obtain ⟨e, hed, hev⟩ := getEnum_sound C.views _ _ _ _ _ _ hg
          rw [e1]
          exact ConstCand.enumValue hsp hed (enumVals_has hev e2)
      · obtain ⟨j, ii, h1, h2, h3, h4⟩ := (mem_incConstCands a v _ 0 c).mp hc
        obtain ⟨inc, g, q1, q2, q3, q4, q5⟩ := incs_at C.env.incs h1
        rw [h4]
        simp only [Nat.zero_add]
        exact ConstCand.incConst C.env.file hsp q1 (by rw [← q2]; exact h2) q4 ((q5 v .constant).mp h3)
    · intro e idx hed hval
      obtain ⟨vals, e1, e2⟩ := getEnum_complete C.views hed C.cur _ _ hg
      simp only [Prod.mk.injEq] at e1
      obtain ⟨rfl, rfl⟩ := e1
      have hx := enumVals_unique C.views (enumDen_viewed C.views hed C.cur) e2 hval
      exact ⟨(⟨true, idx0, v, a⟩, none), List.mem_append.mpr (Or.inl (mem_enumCands.mpr ⟨rfl, hx⟩)), rfl⟩
    · intro k inc g hk hp hgk hd
      obtain ⟨ii, g', q1, q2, q3, q4, _, q6⟩ := C.env.incs.2 k inc hk
      rw [hgk] at q4; simp only [Option.some.injEq] at q4; subst q4
      refine ⟨(⟨false, ((0 + k : Nat) : Int), v, a⟩, some (0 + k)), List.mem_append.mpr (Or.inr ?_), by simp⟩
      exact (mem_incConstCands a v _ 0 _).mpr ⟨k, ii, q1, by rw [q2]; exact hp, (q6 v .constant).mpr hd, rfl⟩

theorem alt_three_spec {p : Program} {i : Nat} {f : File} {ce : CEnv} (C : CandCtx p i f ce)
    {id ae a en v : Bytes} (hsp : splitLastDot id = some (ae, v)) (hsp2 : splitLastDot ae = some (a, en))
    {cs : List Cand} (h : altCands ce [a, en, v] = .ok cs) :
    (∀ c, c ∈ cs → ConstCand p i id c.1) ∧
    (∀ {k : Nat} {inc : Include} {e idx}, f.includes[k]? = some inc → idlPrefix inc.path = a →
      EnumDen p inc.target en e idx → EnumHasValue p e v → ∃ c, c ∈ cs ∧ c.1 = ⟨true, (k : Int), v, en⟩) := by
  simp only [altCands] at h
  obtain ⟨m1, m2⟩ := mem_incEnumCands ce.views ce.fuel a en v _ 0 cs h
  refine ⟨?_, ?_⟩
  · intro c hc
    obtain ⟨j, ii, vals, idx, h1, h2, h3, h4, h5⟩ := (m2 c).mp hc
    obtain ⟨inc, g, q1, q2, q3, q4, _⟩ := incs_at C.env.incs h1
    rw [q3] at h3
    obtain ⟨e, hed, hev⟩ := getEnum_sound C.views _ _ _ _ _ _ h3
    rw [h5]
    simp only [Nat.zero_add]
    exact ConstCand.incEnumValue C.env.file hsp hsp2 q1 (by rw [← q2]; exact h2) hed (enumVals_has hev h4)
  · intro k inc e idx hk hp hed hval
    obtain ⟨ii, g', q1, q2, q3, q4, _, _⟩ := C.env.incs.2 k inc hk
    obtain ⟨r, hr⟩ := m1 k ii q1 (by rw [q2]; exact hp)
    rw [q3] at hr
    -- the included file is viewed (closure of the file's own view)
    obtain ⟨vi, hvi⟩ := C.cur
    obtain ⟨g0, hg0, _, _, _, _, _, _, hcl⟩ := (C.views i vi hvi).ex
    rw [C.env.file] at hg0; simp only [Option.some.injEq] at hg0; subst hg0
    have hviewed := hcl inc (List.mem_of_getElem? hk)
    obtain ⟨vals, e1, e2⟩ := getEnum_complete C.views hed hviewed _ _ hr
    subst e1
    have hx := enumVals_unique C.views (enumDen_viewed C.views hed hviewed) e2 hval
    refine ⟨(⟨true, ((0 + k : Nat) : Int), v, en⟩, some (0 + k)), ?_, by simp⟩
    exact (m2 _).mpr ⟨k, ii, vals, idx, q1, by rw [q2]; exact hp, by rw [q3]; exact hr, hx, rfl⟩

/-- The candidates collected for an identifier are exactly the bindings the specification allows. -/
theorem cands_spec {p : Program} {i : Nat} {f : File} {ce : CEnv} (C : CandCtx p i f ce)
    {id : Bytes} {cs : List Cand} (h : allCands ce (splitValue id) = .ok cs) :
    (∀ c, c ∈ cs → ConstCand p i id c.1) ∧ (∀ y, ConstCand p i id y → ∃ c, c ∈ cs ∧ c.1 = y) := by
  unfold splitValue at h
  by_cases hid : id = []
  · rw [if_pos hid] at h
    simp only [allCands, Except.ok.injEq] at h
    subst h
    refine ⟨by simp, ?_⟩
    intro y hy
    subst hid
    cases hy with
    | localConst _ h2 _ _ => exact absurd rfl h2
    | enumValue h1 _ _ => simp [splitLastDot] at h1
    | incConst _ h1 _ _ _ _ => simp [splitLastDot] at h1
    | incEnumValue _ h1 _ _ _ _ _ => simp [splitLastDot] at h1
  · rw [if_neg hid] at h
    cases hsp : splitLastDot id with
    | none =>
      rw [hsp] at h
      simp only at h
      have h1 := allCands_one h
      simp only [altCands] at h1
      refine ⟨?_, ?_⟩
      · intro c hc
        cases hn : ce.env.n2c id with
        | none => rw [hn] at h1; simp only [Except.ok.injEq] at h1; subst h1; simp at hc
        | some cc =>
          rw [hn] at h1
          simp only at h1
          by_cases hcc : cc = .constant
          · rw [if_pos hcc] at h1
            simp only [Except.ok.injEq] at h1
            subst h1
            simp only [List.mem_cons, List.not_mem_nil, or_false] at hc
            subst hc
            subst hcc
            exact ConstCand.localConst C.env.file hid hsp ((C.env.n2c id _).mp hn)
          · rw [if_neg hcc] at h1
            simp only [Except.ok.injEq] at h1
            subst h1; simp at hc
      · intro y hy
        cases hy with
        | localConst q1 _ _ q3 =>
          rw [C.env.file] at q1; simp only [Option.some.injEq] at q1; subst q1
          rw [(C.env.n2c id .constant).mpr q3] at h1
          simp only [if_true, Except.ok.injEq] at h1
          subst h1
          exact ⟨_, List.mem_cons_self .., rfl⟩
        | enumValue q1 _ _ => rw [hsp] at q1; cases q1
        | incConst _ q1 _ _ _ _ => rw [hsp] at q1; cases q1
        | incEnumValue _ q1 _ _ _ _ _ => rw [hsp] at q1; cases q1
    | some av =>
      obtain ⟨a, v⟩ := av
      rw [hsp] at h
      simp only at h
      cases hsp2 : splitLastDot a with
      | none =>
        rw [hsp2] at h
        simp only at h
        have h1 := allCands_one h
        obtain ⟨s1, s2, s3⟩ := alt_two_spec C hsp h1
        refine ⟨s1, ?_⟩
        intro y hy
        cases hy with
        | localConst _ _ q2 _ => rw [hsp] at q2; cases q2
        | enumValue q1 q2 q3 =>
          rw [hsp] at q1; simp only [Option.some.injEq, Prod.mk.injEq] at q1
          obtain ⟨rfl, rfl⟩ := q1
          exact s2 q2 q3
        | incConst q0 q1 q2 q3 q4 q5 =>
          rw [hsp] at q1; simp only [Option.some.injEq, Prod.mk.injEq] at q1
          obtain ⟨rfl, rfl⟩ := q1
          rw [C.env.file] at q0; simp only [Option.some.injEq] at q0; subst q0
          exact s3 q2 q3 q4 q5
        | incEnumValue _ q1 q2 _ _ _ _ =>
          rw [hsp] at q1; simp only [Option.some.injEq, Prod.mk.injEq] at q1
          obtain ⟨rfl, rfl⟩ := q1
          rw [hsp2] at q2; cases q2
      | some ae =>
        obtain ⟨a', en⟩ := ae
        rw [hsp2] at h
        simp only at h
        obtain ⟨c1, c2, h1, h2, rfl⟩ := allCands_two h
        obtain ⟨s1, s2, s3⟩ := alt_two_spec C hsp h1
        obtain ⟨t1, t2⟩ := alt_three_spec C hsp hsp2 h2
        refine ⟨?_, ?_⟩
        · intro c hc
          rcases List.mem_append.mp hc with hc | hc
          · exact s1 c hc
          · exact t1 c hc
        · intro y hy
          cases hy with
          | localConst _ _ q2 _ => rw [hsp] at q2; cases q2
          | enumValue q1 q2 q3 =>
            rw [hsp] at q1; simp only [Option.some.injEq, Prod.mk.injEq] at q1
            obtain ⟨rfl, rfl⟩ := q1
            obtain ⟨c, hc, e⟩ := s2 q2 q3
            exact ⟨c, List.mem_append.mpr (Or.inl hc), e⟩
          | incConst q0 q1 q2 q3 q4 q5 =>
            rw [hsp] at q1; simp only [Option.some.injEq, Prod.mk.injEq] at q1
            obtain ⟨rfl, rfl⟩ := q1
            rw [C.env.file] at q0; simp only [Option.some.injEq] at q0; subst q0
            obtain ⟨c, hc, e⟩ := s3 q2 q3 q4 q5
            exact ⟨c, List.mem_append.mpr (Or.inl hc), e⟩
          | incEnumValue q0 q1 q2 q3 q4 q5 q6 =>
            rw [hsp] at q1; simp only [Option.some.injEq, Prod.mk.injEq] at q1
            obtain ⟨rfl, rfl⟩ := q1
            rw [hsp2] at q2; simp only [Option.some.injEq, Prod.mk.injEq] at q2
            obtain ⟨rfl, rfl⟩ := q2
            rw [C.env.file] at q0; simp only [Option.some.injEq] at q0; subst q0
            obtain ⟨c, hc, e⟩ := t2 q3 q4 q5 q6
            exact ⟨c, List.mem_append.mpr (Or.inr hc), e⟩

end Sem
