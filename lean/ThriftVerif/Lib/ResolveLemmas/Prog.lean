import ThriftVerif.Lib.ResolveLemmas.GoodFile
/-
  The recursion over includes (ResolveSymbols): every AST it has finished satisfies `Good`, and
  a finished AST has all its includes finished.
-/
namespace Sem

/-- every AST a resolver can read has its own includes readable too -/
def ViewsClosed (p : Program) (views : Nat → Option FileView) : Prop :=
  ∀ j v, views j = some v → ∃ g, p[j]? = some g ∧
    ∀ (inc : Include), inc ∈ g.includes → ∃ v', views inc.target = some v'

structure TableInv (p : Program) (gfuel : Nat) (tbl : Table) : Prop where
  /-- each finished AST is the result of ResolveAST reading good, closed views -/
  produced : ∀ (j : Nat) (f : File) (rf : RFile), p[j]? = some f → tbl[j]? = some (some rf) →
    ∃ views, ViewsGood p views ∧ ViewsClosed p views ∧ resolveAST views gfuel j f = .ok rf
  good : ∀ (j : Nat) (f : File) (rf : RFile), p[j]? = some f → tbl[j]? = some (some rf) → Good p j f rf
  closed : ∀ (j : Nat) (f : File) (rf : RFile), p[j]? = some f → tbl[j]? = some (some rf) →
    ∀ (inc : Include), inc ∈ f.includes →
      ∃ (g : File) (rf' : RFile), p[inc.target]? = some g ∧ tbl[inc.target]? = some (some rf')

/-- entries are only ever added -/
def TableLe (t t' : Table) : Prop := ∀ (j : Nat) (rf : RFile), t[j]? = some (some rf) → t'[j]? = some (some rf)

theorem tableViews_some {p : Program} {tbl : Table} {j : Nat} {v : FileView}
    (h : tableViews p tbl j = some v) : ∃ f rf, p[j]? = some f ∧ tbl[j]? = some (some rf) ∧ v = rf.view f := by
  unfold tableViews at h
  split at h
  · next f rf hf ht =>
    simp only [Option.some.injEq] at h
    exact ⟨f, rf, hf, ht, h.symm⟩
  · simp at h

theorem viewsGood_of_inv {p : Program} {gfuel : Nat} {tbl : Table} (h : TableInv p gfuel tbl) : ViewsGood p (tableViews p tbl) := by
  intro j v hv
  obtain ⟨f, rf, hf, ht, e⟩ := tableViews_some hv
  exact ⟨f, rf, hf, e, h.good j f rf hf ht⟩

theorem viewsClosed_of_inv {p : Program} {gfuel : Nat} {tbl : Table} (h : TableInv p gfuel tbl) :
    ViewsClosed p (tableViews p tbl) := by
  intro j v hv
  obtain ⟨f, rf, hf, ht, _⟩ := tableViews_some hv
  refine ⟨f, hf, ?_⟩
  intro inc hinc
  obtain ⟨g, rf', hg, ht'⟩ := h.closed j f rf hf ht inc hinc
  refine ⟨rf'.view g, ?_⟩
  unfold tableViews
  rw [hg, ht']

theorem mkIncs_views {views : Nat → Option FileView} : ∀ (l : List Include) (incs : List IncInfo),
    mkIncs views l = .ok incs → ∀ inc, inc ∈ l → ∃ v, views inc.target = some v
  | [], _ => by intro _ inc h; simp at h
  | inc0 :: r, incs => by
    intro h inc hm
    simp only [mkIncs] at h
    cases hv0 : views inc0.target with
    | none => rw [hv0] at h; simp at h
    | some v =>
      rw [hv0] at h
      simp only at h
      cases hr : mkIncs views r with
      | error e => rw [hr] at h; simp at h
      | ok is =>
        rcases List.mem_cons.mp hm with e | hm
        · subst e; exact ⟨v, hv0⟩
        · exact mkIncs_views r is hr inc hm

theorem resolveAST_includes {views : Nat → Option FileView} {gfuel i : Nat} {f : File} {rf : RFile}
    (h : resolveAST views gfuel i f = .ok rf) : ∀ inc, inc ∈ f.includes → ∃ v, views inc.target = some v := by
  obtain ⟨P⟩ := resolveAST_phases h
  exact mkIncs_views f.includes P.incs P.hincs

theorem getElem?_set_table (t : Table) (i j : Nat) (x : Option RFile) :
    (t.set i x)[j]? = if i = j then (if i < t.length then some x else none) else t[j]? := by
  rw [List.getElem?_set]

theorem resolveSymbols_inv (p : Program) (gfuel : Nat) : ∀ (fuel i : Nat) (tbl tbl' : Table),
    tbl.length = p.length → resolveSymbols p gfuel fuel i tbl = .ok tbl' → TableInv p gfuel tbl →
    TableInv p gfuel tbl' ∧ TableLe tbl tbl' ∧ tbl'.length = p.length ∧
      (p[i]?).isSome = true ∧ ∃ rf, tbl'[i]? = some (some rf) := by
  intro fuel
  induction fuel with
  | zero => intro i tbl tbl' _ h; simp [resolveSymbols] at h
  | succ fuel ih =>
    intro i tbl tbl' hlen h inv
    simp only [resolveSymbols] at h
    cases hf : p[i]? with
    | none => rw [hf] at h; simp at h
    | some f =>
      rw [hf] at h
      simp only at h
      have loop : ∀ (l : List Include) (t t' : Table), t.length = p.length →
          incLoop (resolveSymbols p gfuel fuel) l t = .ok t' → TableInv p gfuel t →
          TableInv p gfuel t' ∧ TableLe t t' ∧ t'.length = p.length := by
        intro l
        induction l with
        | nil =>
          intro t t' hl h hi
          simp only [incLoop, Except.ok.injEq] at h
          subst h
          exact ⟨hi, fun _ _ h => h, hl⟩
        | cons inc r ihl =>
          intro t t' hl h hi
          simp only [incLoop] at h
          cases h1 : resolveSymbols p gfuel fuel inc.target t with
          | error e => rw [h1] at h; simp at h
          | ok t1 =>
            rw [h1] at h
            simp only at h
            obtain ⟨i1, l1, n1, _⟩ := ih inc.target t t1 hl h1 hi
            obtain ⟨i2, l2, n2⟩ := ihl t1 t' n1 h i1
            exact ⟨i2, fun j rf hj => l2 j rf (l1 j rf hj), n2⟩
      have body : (∀ rf0, tbl[i]? ≠ some (some rf0)) →
          (match incLoop (resolveSymbols p gfuel fuel) f.includes tbl with
            | .error e => .error e
            | .ok tbl1 =>
              match resolveAST (tableViews p tbl1) gfuel i f with
              | .error e => .error e
              | .ok rf => .ok (tbl1.set i (some rf))) = Except.ok tbl' →
          TableInv p gfuel tbl' ∧ TableLe tbl tbl' ∧ tbl'.length = p.length ∧
            (some f).isSome = true ∧ ∃ rf, tbl'[i]? = some (some rf) := by
        intro hni h
        cases hl : incLoop (resolveSymbols p gfuel fuel) f.includes tbl with
        | error e => rw [hl] at h; simp at h
        | ok tbl1 =>
          rw [hl] at h
          simp only at h
          obtain ⟨i1, l1, n1⟩ := loop f.includes tbl tbl1 hlen hl inv
          cases ha : resolveAST (tableViews p tbl1) gfuel i f with
          | error e => rw [ha] at h; simp at h
          | ok rf =>
            rw [ha] at h
            simp only [Except.ok.injEq] at h
            subst h
            have hgood := resolveAST_good hf (viewsGood_of_inv i1) ha
            have hilt : i < tbl1.length := by
              rw [n1]; exact (List.getElem?_eq_some_iff.mp hf).1
            have keep : ∀ (j' : Nat) (rf' : RFile), tbl1[j']? = some (some rf') →
                ∃ rf'', (tbl1.set i (some rf))[j']? = some (some rf'') := by
              intro j' rf' hj'
              rw [getElem?_set_table]
              by_cases hij : i = j'
              · rw [if_pos hij, if_pos hilt]; exact ⟨rf, rfl⟩
              · rw [if_neg hij]; exact ⟨rf', hj'⟩
            refine ⟨⟨?_, ?_, ?_⟩, ?_, by simp [n1], rfl, rf, ?_⟩
            · intro j g rg hg hj
              rw [getElem?_set_table] at hj
              by_cases hij : i = j
              · subst hij
                rw [if_pos rfl, if_pos hilt] at hj
                simp only [Option.some.injEq] at hj
                subst hj
                rw [hf] at hg
                simp only [Option.some.injEq] at hg
                subst hg
                exact ⟨_, viewsGood_of_inv i1, viewsClosed_of_inv i1, ha⟩
              · rw [if_neg hij] at hj
                exact i1.produced j g rg hg hj
            · intro j g rg hg hj
              rw [getElem?_set_table] at hj
              by_cases hij : i = j
              · subst hij
                rw [if_pos rfl, if_pos hilt] at hj
                simp only [Option.some.injEq] at hj
                subst hj
                rw [hf] at hg
                simp only [Option.some.injEq] at hg
                subst hg
                exact hgood
              · rw [if_neg hij] at hj
                exact i1.good j g rg hg hj
            · intro j g rg hg hj inc hinc
              rw [getElem?_set_table] at hj
              by_cases hij : i = j
              · subst hij
                rw [hf] at hg
                simp only [Option.some.injEq] at hg
                subst hg
                obtain ⟨v, hv⟩ := resolveAST_includes ha inc hinc
                obtain ⟨g', rf', hg', ht', _⟩ := tableViews_some hv
                obtain ⟨rf'', h''⟩ := keep _ _ ht'
                exact ⟨g', rf'', hg', h''⟩
              · rw [if_neg hij] at hj
                obtain ⟨g', rf', hg', ht'⟩ := i1.closed j g rg hg hj inc hinc
                obtain ⟨rf'', h''⟩ := keep _ _ ht'
                exact ⟨g', rf'', hg', h''⟩
            · intro j rg hj
              have hj1 := l1 j rg hj
              rw [getElem?_set_table]
              by_cases hij : i = j
              · subst hij
                exact absurd hj (hni rg)
              · rw [if_neg hij]; exact hj1
            · rw [getElem?_set_table, if_pos rfl, if_pos hilt]
      cases ht : tbl[i]? with
      | none =>
        rw [ht] at h
        exact body (fun rf0 => by rw [ht]; simp) h
      | some x =>
        cases x with
        | none =>
          rw [ht] at h
          exact body (fun rf0 => by rw [ht]; simp) h
        | some rf0 =>
          rw [ht] at h
          simp only [Except.ok.injEq] at h
          subst h
          exact ⟨inv, fun _ _ h => h, hlen, rfl, rf0, ht⟩

theorem tableInv_init (p : Program) (gfuel : Nat) : TableInv p gfuel (List.replicate p.length none) := by
  refine ⟨?_, ?_, ?_⟩
  · intro j f rf _ h
    rw [List.getElem?_replicate] at h
    split at h <;> simp at h
  · intro j f rf _ h
    rw [List.getElem?_replicate] at h
    split at h <;> simp at h
  · intro j f rf _ h
    rw [List.getElem?_replicate] at h
    split at h <;> simp at h

/-- After a successful run every finished AST is `Good` and closed under includes; the root is finished. -/
theorem resolve_inv {p : Program} {root : Nat} {tbl : Table} (h : resolve p root = .ok tbl) :
    TableInv p p.chainFuel tbl ∧ ∃ f rf, p[root]? = some f ∧ tbl[root]? = some (some rf) := by
  unfold resolve at h
  obtain ⟨h1, _, _, h4, rf, h5⟩ := resolveSymbols_inv p p.chainFuel (p.length + 1) root _ tbl (by simp) h (tableInv_init p _)
  cases hf : p[root]? with
  | none => rw [hf] at h4; simp at h4
  | some f => exact ⟨h1, f, rf, rfl, h5⟩

end Sem
