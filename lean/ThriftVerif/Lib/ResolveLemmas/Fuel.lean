import ThriftVerif.Lib.ResolveLemmas.Perm4
/-
  getEnum's visited set bounds its recursion: the model's fuel is never exhausted.
-/
namespace Sem

def keysFrom : Nat → List File → List (Nat × Bytes)
  | _, [] => []
  | k, f :: r => f.typedefs.map (fun td => (k, td.alias)) ++ keysFrom (k + 1) r

/-- every (file, typedef name) of the program -/
def Program.typedefKeys (p : Program) : List (Nat × Bytes) := keysFrom 0 p

theorem mem_keysFrom : ∀ (l : List File) (k j : Nat) (g : File) (td : Typedef),
    l[j]? = some g → td ∈ g.typedefs → (k + j, td.alias) ∈ keysFrom k l
  | [], k, j, g, td => by intro h; simp at h
  | f :: r, k, j, g, td => by
    intro h htd
    simp only [keysFrom, List.mem_append]
    cases j with
    | zero =>
      simp only [List.getElem?_cons_zero, Option.some.injEq] at h
      subst h
      exact Or.inl (List.mem_map.mpr ⟨td, htd, rfl⟩)
    | succ j =>
      simp only [List.getElem?_cons_succ] at h
      right
      have := mem_keysFrom r (k + 1) j g td h htd
      have e : k + 1 + j = k + (j + 1) := by omega
      rw [e] at this
      exact this

theorem foldl_add (l : List Nat) (a : Nat) : l.foldl (· + ·) a = a + l.foldl (· + ·) 0 := by
  induction l generalizing a with
  | nil => simp
  | cons x r ih => simp only [List.foldl_cons]; rw [ih (a + x), ih (0 + x)]; omega

theorem keysFrom_length : ∀ (l : List File) (k : Nat),
    (keysFrom k l).length = (l.map (fun f => f.typedefs.length)).foldl (· + ·) 0
  | [], _ => rfl
  | f :: r, k => by
    simp only [keysFrom, List.length_append, List.length_map, List.map_cons, List.foldl_cons]
    rw [keysFrom_length r (k + 1), foldl_add _ (0 + f.typedefs.length)]
    omega

theorem typedefKeys_lt_chainFuel (p : Program) : p.typedefKeys.length < p.chainFuel := by
  unfold Program.typedefKeys Program.chainFuel Program.typedefCount
  rw [keysFrom_length]
  omega

/-- a duplicate-free list inside another list is not longer -/
theorem nodup_subset_length {α} [DecidableEq α] : ∀ (l m : List α), l.Nodup → (∀ x, x ∈ l → x ∈ m) →
    l.length ≤ m.length
  | [], m, _, _ => Nat.zero_le _
  | a :: r, m, hnd, hsub => by
    simp only [List.nodup_cons] at hnd
    have ham : a ∈ m := hsub a (List.mem_cons_self ..)
    have := nodup_subset_length r (m.erase a) hnd.2 (fun x hx => by
      have hxm := hsub x (List.mem_cons_of_mem _ hx)
      have hne : x ≠ a := fun e => hnd.1 (e ▸ hx)
      exact (List.mem_erase_of_ne hne).mpr hxm)
    rw [List.length_erase_of_mem ham] at this
    have hpos : 0 < m.length := List.length_pos_of_mem ham
    simp only [List.length_cons]
    omega

/-- With every typedef the views know about among the keys `K`, getEnum started on a duplicate-free
visited set inside `K` needs at most `|K| - |seen| + 1` levels: the fuel is not exhausted. -/
theorem getEnum_fuel {views : Nat → Option FileView} {K : List (Nat × Bytes)}
    (hK : ∀ j v n, views j = some v → v.n2c n = some .typedef → (j, n) ∈ K) :
    ∀ (fuel : Nat) (seen : List (Nat × Bytes)) (j : Nat) (name : Bytes), seen.Nodup →
      (∀ k, k ∈ seen → k ∈ K) → K.length - seen.length < fuel →
      getEnum views fuel seen j name ≠ .error .fuel
  | 0, seen, j, name => by intro _ _ h; omega
  | fuel + 1, seen, j, name => by
    intro hnd hsub hlt
    simp only [getEnum]
    cases hv : views j with
    | none => simp
    | some v =>
      simp only
      cases hn : v.n2c name with
      | none => simp
      | some c =>
        simp only
        by_cases hce : c = .enum
        · rw [if_pos hce]
          cases v.enum name <;> simp
        · rw [if_neg hce]
          by_cases hct : c = .typedef
          · rw [if_pos hct]
            cases ht : v.typedef name with
            | none => simp
            | some td =>
              simp only
              by_cases hseen : (j, name) ∈ seen
              · rw [if_pos hseen]; simp
              · rw [if_neg hseen]
                have hkey : (j, name) ∈ K := hK j v name hv (by rw [hn, hct])
                have hnd' : ((j, name) :: seen).Nodup := List.nodup_cons.mpr ⟨hseen, hnd⟩
                have hsub' : ∀ k, k ∈ (j, name) :: seen → k ∈ K := by
                  intro k hk
                  rcases List.mem_cons.mp hk with rfl | hk
                  · exact hkey
                  · exact hsub k hk
                have hlen := nodup_subset_length _ K hnd' hsub'
                simp only [List.length_cons] at hlen
                have hlt' : K.length - ((j, name) :: seen).length < fuel := by
                  simp only [List.length_cons]; omega
                cases hr : td.ref with
                | none =>
                  simp only
                  by_cases hcm : inCategoryMap td.rootName = true
                  · rw [if_pos hcm]; simp
                  · rw [if_neg hcm]
                    exact getEnum_fuel hK fuel _ j td.rootName hnd' hsub' hlt'
                | some r =>
                  simp only
                  cases hi : v.incs[r.index]? with
                  | none => simp
                  | some tgt =>
                    simp only
                    have ih := getEnum_fuel hK fuel _ tgt r.name hnd' hsub' hlt'
                    cases hs : getEnum views fuel ((j, name) :: seen) tgt r.name with
                    | error e =>
                      simp only
                      intro heq
                      rw [hs] at ih
                      exact ih heq
                    | ok res =>
                      obtain ⟨en, i2⟩ := res
                      cases en <;> simp
          · rw [if_neg hct]; simp

/-- The views ResolveAST builds know only typedefs of the program. -/
theorem allViews_keys {p : Program} {views : Nat → Option FileView} (hv : AllViews p views) :
    ∀ j v n, views j = some v → v.n2c n = some .typedef → (j, n) ∈ p.typedefKeys := by
  intro j v n hvj hn
  obtain ⟨g, hg, _, hn2c, _⟩ := (hv j v hvj).ex
  obtain ⟨td, htd, hal⟩ := declares_typedef ((hn2c n .typedef).mp hn)
  have := mem_keysFrom p 0 j g td hg htd
  rw [Nat.zero_add, hal] at this
  exact this

end Sem
