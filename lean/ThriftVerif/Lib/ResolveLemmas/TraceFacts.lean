import ThriftVerif.Lib.ResolveLemmas.Trace
/-
  Facts read off a trace: where the stored types / bindings / service references come from,
  where work-list entries and Used marks come from; the events of a file against
  `SlotType` / `SlotConst`; distinctness of the slots of a file with distinct names.
-/
namespace Sem

/-! ### constant values queue nothing -/

theorem resolveIdent_work {ce : CEnv} {id : Bytes} {o : Out (Option Extra)}
    (h : resolveIdent ce id = .ok o) : o.work = [] := by
  unfold resolveIdent at h
  split at h
  · simp only [Except.ok.injEq] at h; rw [← h]
  · split at h
    · simp at h
    · split at h
      · simp at h
      · simp only [Except.ok.injEq] at h; rw [← h]
      · simp at h

mutual
theorem resolveConst_work {ce : CEnv} : ∀ (v : ConstVal) (b : Out (List (Option Extra))),
    resolveConst ce v = .ok b → b.work = []
  | .int _, b, h => by simp only [resolveConst, Except.ok.injEq] at h; rw [← h]
  | .dbl _, b, h => by simp only [resolveConst, Except.ok.injEq] at h; rw [← h]
  | .str _, b, h => by simp only [resolveConst, Except.ok.injEq] at h; rw [← h]
  | .ident id, b, h => by
    simp only [resolveConst] at h
    cases hi : resolveIdent ce id with
    | error e => rw [hi] at h; simp at h
    | ok o =>
      rw [hi] at h
      simp only [Except.ok.injEq] at h
      rw [← h]
      exact resolveIdent_work hi
  | .list xs, b, h => by
    simp only [resolveConst] at h
    exact resolveConstL_work xs b h
  | .map kvs, b, h => by
    simp only [resolveConst] at h
    exact resolveConstM_work kvs b h
theorem resolveConstL_work {ce : CEnv} : ∀ (l : List ConstVal) (b : Out (List (Option Extra))),
    resolveConstL ce l = .ok b → b.work = []
  | [], b, h => by simp only [resolveConstL, Except.ok.injEq] at h; rw [← h]
  | x :: r, b, h => by
    simp only [resolveConstL] at h
    cases hx : resolveConst ce x with
    | error e => rw [hx] at h; simp at h
    | ok a =>
      rw [hx] at h
      simp only at h
      cases hr : resolveConstL ce r with
      | error e => rw [hr] at h; simp at h
      | ok c =>
        rw [hr] at h
        simp only [Except.ok.injEq] at h
        rw [← h]
        simp [resolveConst_work x a hx, resolveConstL_work r c hr]
theorem resolveConstM_work {ce : CEnv} : ∀ (l : List (ConstVal × ConstVal)) (b : Out (List (Option Extra))),
    resolveConstM ce l = .ok b → b.work = []
  | [], b, h => by simp only [resolveConstM, Except.ok.injEq] at h; rw [← h]
  | (k, v) :: r, b, h => by
    simp only [resolveConstM] at h
    cases hk : resolveConst ce k with
    | error e => rw [hk] at h; simp at h
    | ok a =>
      rw [hk] at h
      simp only at h
      cases hv : resolveConst ce v with
      | error e => rw [hv] at h; simp at h
      | ok a' =>
        rw [hv] at h
        simp only at h
        cases hr : resolveConstM ce r with
        | error e => rw [hr] at h; simp at h
        | ok c =>
          rw [hr] at h
          simp only [Except.ok.injEq] at h
          rw [← h]
          simp [resolveConst_work k a hk, resolveConst_work v a' hv, resolveConstM_work r c hr]
end

theorem resolveBaseService_work {env : Env} {ext : Bytes} {o : Out (Option Ref)}
    (h : resolveBaseService env ext = .ok o) : o.work = [] := by
  unfold resolveBaseService at h
  split at h
  · split at h
    · split at h
      · simp only [Except.ok.injEq] at h; rw [← h]
      · simp at h
    · simp at h
  · split at h
    · simp only [Except.ok.injEq] at h; rw [← h]
    · simp at h
  · simp only [Except.ok.injEq] at h; rw [← h]

/-! ### reading a trace -/

def tySlots : List Ev → List Slot
  | [] => []
  | .ty s _ :: r => s :: tySlots r
  | _ :: r => tySlots r

def cvSlots : List Ev → List Slot
  | [] => []
  | .cv s _ :: r => s :: cvSlots r
  | _ :: r => cvSlots r

def svcNames : List Ev → List Bytes
  | [] => []
  | .svc n _ :: r => n :: svcNames r
  | _ :: r => svcNames r

theorem lookupSlot_cons {α} (s s' : Slot) (v : α) (r : List (Slot × α)) :
    lookupSlot s ((s', v) :: r) = if s' = s then some v else lookupSlot s r := rfl

theorem lookupSlot_none {α} (s : Slot) : ∀ (l : List (Slot × α)), s ∉ l.map Prod.fst → lookupSlot s l = none
  | [], _ => rfl
  | (s', v) :: r, h => by
    simp only [List.map_cons, List.mem_cons, not_or] at h
    rw [lookupSlot_cons, if_neg (fun e => h.1 e.symm)]
    exact lookupSlot_none s r h.2

theorem Trace.type_keys {ce : CEnv} {evs o} (h : Trace ce evs o) :
    o.val.types.map Prod.fst = tySlots evs := by
  induction h with
  | nil => rfl
  | ty _ _ ih => simp [Out.seq, DefOut.append, tySlots, ih]
  | cv _ _ ih => simp [Out.seq, DefOut.append, tySlots, ih]
  | svc _ _ ih => simp [Out.seq, DefOut.append, tySlots, ih]

theorem Trace.bind_keys {ce : CEnv} {evs o} (h : Trace ce evs o) :
    o.val.binds.map Prod.fst = cvSlots evs := by
  induction h with
  | nil => rfl
  | ty _ _ ih => simp [Out.seq, DefOut.append, cvSlots, ih]
  | cv _ _ ih => simp [Out.seq, DefOut.append, cvSlots, ih]
  | svc _ _ ih => simp [Out.seq, DefOut.append, cvSlots, ih]

theorem Trace.svc_keys {ce : CEnv} {evs o} (h : Trace ce evs o) :
    o.val.svc.map Prod.fst = svcNames evs := by
  induction h with
  | nil => rfl
  | ty _ _ ih => simp [Out.seq, DefOut.append, svcNames, ih]
  | cv _ _ ih => simp [Out.seq, DefOut.append, svcNames, ih]
  | svc _ _ ih => simp [Out.seq, DefOut.append, svcNames, ih]

/-- A type event of a trace with distinct type slots: its result is what is stored at its slot. -/
theorem Trace.type_at {ce : CEnv} {evs o} (h : Trace ce evs o) :
    (tySlots evs).Nodup → ∀ s te, Ev.ty s te ∈ evs →
      ∃ r, resolveType ce.env s 0 te = .ok r ∧ lookupSlot s o.val.types = some r.val ∧
        (∀ e, e ∈ r.work → e ∈ o.work) ∧ (∀ u, u ∈ r.used → u ∈ o.used) := by
  induction h with
  | nil => intro _ s te hm; simp at hm
  | @ty s0 te0 o0 evs r h0 ht ih =>
    intro hnd s te hm
    simp only [tySlots, List.nodup_cons] at hnd
    rcases List.mem_cons.mp hm with heq | hm
    · simp only [Ev.ty.injEq] at heq
      obtain ⟨rfl, rfl⟩ := heq
      refine ⟨o0, h0, ?_, ?_, ?_⟩
      · simp [Out.seq, DefOut.append, lookupSlot_cons]
      · intro e he; simp [Out.seq]; exact Or.inl he
      · intro e he; simp [Out.seq]; exact Or.inl he
    · obtain ⟨r', h1, h2, h3, h4⟩ := ih hnd.2 s te hm
      refine ⟨r', h1, ?_, ?_, ?_⟩
      · have hne : s0 ≠ s := by
          intro e; subst e
          apply hnd.1
          rw [← ht.type_keys]
          have := lookupSlot_none s0 r.val.types
          by_cases hin : s0 ∈ r.val.types.map Prod.fst
          · exact hin
          · rw [this hin] at h2; simp at h2
        simp only [Out.seq, DefOut.append, List.cons_append, List.nil_append, lookupSlot_cons, if_neg hne]
        exact h2
      · intro e he; simp [Out.seq]; exact Or.inr (h3 e he)
      · intro e he; simp [Out.seq]; exact Or.inr (h4 e he)
  | @cv s0 v0 b0 evs r h0 ht ih =>
    intro hnd s te hm
    simp only [tySlots] at hnd
    rcases List.mem_cons.mp hm with heq | hm
    · simp at heq
    · obtain ⟨r', h1, h2, h3, h4⟩ := ih hnd s te hm
      refine ⟨r', h1, ?_, ?_, ?_⟩
      · simpa [Out.seq, DefOut.append] using h2
      · intro e he; simp [Out.seq]; exact Or.inr (h3 e he)
      · intro e he; simp [Out.seq]; exact Or.inr (h4 e he)
  | @svc n0 x0 b0 evs r h0 ht ih =>
    intro hnd s te hm
    simp only [tySlots] at hnd
    rcases List.mem_cons.mp hm with heq | hm
    · simp at heq
    · obtain ⟨r', h1, h2, h3, h4⟩ := ih hnd s te hm
      refine ⟨r', h1, ?_, ?_, ?_⟩
      · simpa [Out.seq, DefOut.append] using h2
      · intro e he; simp [Out.seq]; exact Or.inr (h3 e he)
      · intro e he; simp [Out.seq]; exact Or.inr (h4 e he)

theorem Trace.bind_at {ce : CEnv} {evs o} (h : Trace ce evs o) :
    (cvSlots evs).Nodup → ∀ s v, Ev.cv s v ∈ evs →
      ∃ b, resolveConst ce v = .ok b ∧ lookupSlot s o.val.binds = some b.val ∧
        (∀ u, u ∈ b.used → u ∈ o.used) := by
  induction h with
  | nil => intro _ s te hm; simp at hm
  | @cv s0 v0 b0 evs r h0 ht ih =>
    intro hnd s v hm
    simp only [cvSlots, List.nodup_cons] at hnd
    rcases List.mem_cons.mp hm with heq | hm
    · simp only [Ev.cv.injEq] at heq
      obtain ⟨rfl, rfl⟩ := heq
      refine ⟨b0, h0, ?_, ?_⟩
      · simp [Out.seq, DefOut.append, lookupSlot_cons]
      · intro e he; simp [Out.seq]; exact Or.inl he
    · obtain ⟨r', h1, h2, h4⟩ := ih hnd.2 s v hm
      refine ⟨r', h1, ?_, ?_⟩
      · have hne : s0 ≠ s := by
          intro e; subst e
          apply hnd.1
          rw [← ht.bind_keys]
          by_cases hin : s0 ∈ r.val.binds.map Prod.fst
          · exact hin
          · rw [lookupSlot_none s0 r.val.binds hin] at h2; simp at h2
        simp only [Out.seq, DefOut.append, List.cons_append, List.nil_append, lookupSlot_cons, if_neg hne]
        exact h2
      · intro e he; simp [Out.seq]; exact Or.inr (h4 e he)
  | @ty s0 v0 b0 evs r h0 ht ih =>
    intro hnd s te hm
    simp only [cvSlots] at hnd
    rcases List.mem_cons.mp hm with heq | hm
    · simp at heq
    · obtain ⟨r', h1, h2, h4⟩ := ih hnd s te hm
      refine ⟨r', h1, ?_, ?_⟩
      · simpa [Out.seq, DefOut.append] using h2
      · intro e he; simp [Out.seq]; exact Or.inr (h4 e he)
  | @svc n0 x0 b0 evs r h0 ht ih =>
    intro hnd s te hm
    simp only [cvSlots] at hnd
    rcases List.mem_cons.mp hm with heq | hm
    · simp at heq
    · obtain ⟨r', h1, h2, h4⟩ := ih hnd s te hm
      refine ⟨r', h1, ?_, ?_⟩
      · simpa [Out.seq, DefOut.append] using h2
      · intro e he; simp [Out.seq]; exact Or.inr (h4 e he)

theorem Trace.svc_at {ce : CEnv} {evs o} (h : Trace ce evs o) :
    (svcNames evs).Nodup → ∀ n ext, Ev.svc n ext ∈ evs →
      ∃ b, resolveBaseService ce.env ext = .ok b ∧ lookupB n o.val.svc = some b.val ∧
        (∀ u, u ∈ b.used → u ∈ o.used) := by
  induction h with
  | nil => intro _ s te hm; simp at hm
  | @svc n0 x0 b0 evs r h0 ht ih =>
    intro hnd n ext hm
    simp only [svcNames, List.nodup_cons] at hnd
    rcases List.mem_cons.mp hm with heq | hm
    · simp only [Ev.svc.injEq] at heq
      obtain ⟨rfl, rfl⟩ := heq
      refine ⟨b0, h0, ?_, ?_⟩
      · simp [Out.seq, DefOut.append, lookupB_cons]
      · intro e he; simp [Out.seq]; exact Or.inl he
    · obtain ⟨r', h1, h2, h4⟩ := ih hnd.2 n ext hm
      refine ⟨r', h1, ?_, ?_⟩
      · have hne : n0 ≠ n := by
          intro e; subst e
          apply hnd.1
          rw [← ht.svc_keys]
          by_cases hin : n0 ∈ r.val.svc.map Prod.fst
          · exact hin
          · rw [(lookupB_none n0 r.val.svc).mpr hin] at h2; simp at h2
        simp only [Out.seq, DefOut.append, List.cons_append, List.nil_append, lookupB_cons, if_neg hne]
        exact h2
      · intro e he; simp [Out.seq]; exact Or.inr (h4 e he)
  | @ty s0 v0 b0 evs r h0 ht ih =>
    intro hnd s te hm
    simp only [svcNames] at hnd
    rcases List.mem_cons.mp hm with heq | hm
    · simp at heq
    · obtain ⟨r', h1, h2, h4⟩ := ih hnd s te hm
      refine ⟨r', h1, ?_, ?_⟩
      · simpa [Out.seq, DefOut.append] using h2
      · intro e he; simp [Out.seq]; exact Or.inr (h4 e he)
  | @cv n0 x0 b0 evs r h0 ht ih =>
    intro hnd s te hm
    simp only [svcNames] at hnd
    rcases List.mem_cons.mp hm with heq | hm
    · simp at heq
    · obtain ⟨r', h1, h2, h4⟩ := ih hnd s te hm
      refine ⟨r', h1, ?_, ?_⟩
      · simpa [Out.seq, DefOut.append] using h2
      · intro e he; simp [Out.seq]; exact Or.inr (h4 e he)

/-- Every queued entry comes from a type event. -/
theorem Trace.work_from {ce : CEnv} {evs o} (h : Trace ce evs o) :
    ∀ e, e ∈ o.work → ∃ s te r, Ev.ty s te ∈ evs ∧ resolveType ce.env s 0 te = .ok r ∧ e ∈ r.work := by
  induction h with
  | nil => intro e he; simp [Out.nil] at he
  | @ty s0 te0 o0 evs r h0 _ ih =>
    intro e he
    simp only [Out.seq, List.mem_append] at he
    rcases he with he | he
    · exact ⟨s0, te0, o0, List.mem_cons_self .., h0, he⟩
    · obtain ⟨s, te, r', h1, h2, h3⟩ := ih e he
      exact ⟨s, te, r', List.mem_cons_of_mem _ h1, h2, h3⟩
  | @cv s0 v0 b0 evs r h0 _ ih =>
    intro e he
    simp only [Out.seq, List.mem_append, resolveConst_work v0 b0 h0] at he
    rcases he with he | he
    · simp at he
    · obtain ⟨s, te, r', h1, h2, h3⟩ := ih e he
      exact ⟨s, te, r', List.mem_cons_of_mem _ h1, h2, h3⟩
  | @svc n0 x0 b0 evs r h0 _ ih =>
    intro e he
    simp only [Out.seq, List.mem_append, resolveBaseService_work h0] at he
    rcases he with he | he
    · simp at he
    · obtain ⟨s, te, r', h1, h2, h3⟩ := ih e he
      exact ⟨s, te, r', List.mem_cons_of_mem _ h1, h2, h3⟩

/-- Every Used mark comes from a type, a constant value or a base service. -/
theorem Trace.used_from {ce : CEnv} {evs o} (h : Trace ce evs o) :
    ∀ u, u ∈ o.used →
      (∃ s te r, Ev.ty s te ∈ evs ∧ resolveType ce.env s 0 te = .ok r ∧ u ∈ r.used) ∨
      (∃ s v b, Ev.cv s v ∈ evs ∧ resolveConst ce v = .ok b ∧ u ∈ b.used) ∨
      (∃ n ext b, Ev.svc n ext ∈ evs ∧ resolveBaseService ce.env ext = .ok b ∧ u ∈ b.used) := by
  induction h with
  | nil => intro e he; simp [Out.nil] at he
  | @ty s0 te0 o0 evs r h0 _ ih =>
    intro e he
    simp only [Out.seq, List.mem_append] at he
    rcases he with he | he
    · exact Or.inl ⟨s0, te0, o0, List.mem_cons_self .., h0, he⟩
    · rcases ih e he with ⟨s, te, r', h1, h2, h3⟩ | ⟨s, te, r', h1, h2, h3⟩ | ⟨s, te, r', h1, h2, h3⟩
      · exact Or.inl ⟨s, te, r', List.mem_cons_of_mem _ h1, h2, h3⟩
      · exact Or.inr (Or.inl ⟨s, te, r', List.mem_cons_of_mem _ h1, h2, h3⟩)
      · exact Or.inr (Or.inr ⟨s, te, r', List.mem_cons_of_mem _ h1, h2, h3⟩)
  | @cv s0 v0 b0 evs r h0 _ ih =>
    intro e he
    simp only [Out.seq, List.mem_append] at he
    rcases he with he | he
    · exact Or.inr (Or.inl ⟨s0, v0, b0, List.mem_cons_self .., h0, he⟩)
    · rcases ih e he with ⟨s, te, r', h1, h2, h3⟩ | ⟨s, te, r', h1, h2, h3⟩ | ⟨s, te, r', h1, h2, h3⟩
      · exact Or.inl ⟨s, te, r', List.mem_cons_of_mem _ h1, h2, h3⟩
      · exact Or.inr (Or.inl ⟨s, te, r', List.mem_cons_of_mem _ h1, h2, h3⟩)
      · exact Or.inr (Or.inr ⟨s, te, r', List.mem_cons_of_mem _ h1, h2, h3⟩)
  | @svc n0 x0 b0 evs r h0 _ ih =>
    intro e he
    simp only [Out.seq, List.mem_append] at he
    rcases he with he | he
    · exact Or.inr (Or.inr ⟨n0, x0, b0, List.mem_cons_self .., h0, he⟩)
    · rcases ih e he with ⟨s, te, r', h1, h2, h3⟩ | ⟨s, te, r', h1, h2, h3⟩ | ⟨s, te, r', h1, h2, h3⟩
      · exact Or.inl ⟨s, te, r', List.mem_cons_of_mem _ h1, h2, h3⟩
      · exact Or.inr (Or.inl ⟨s, te, r', List.mem_cons_of_mem _ h1, h2, h3⟩)
      · exact Or.inr (Or.inr ⟨s, te, r', List.mem_cons_of_mem _ h1, h2, h3⟩)

theorem lookupSlot_patch (st : Store) (s : Slot) : ∀ (ts : List TypeRes),
    lookupSlot s (patchTypes st ts) = (lookupSlot s ts).map (patchNodes st s 0)
  | [] => rfl
  | (s', ns) :: r => by
    simp only [patchTypes, List.map_cons, lookupSlot_cons]
    by_cases h : s' = s
    · subst h; simp
    · simp only [if_neg h]
      exact lookupSlot_patch st s r

end Sem
