import ThriftVerif.Lib.ResolveLemmas.Deref
/-
  getEnum against `EnumDen`, the candidate enumeration against `ConstCand`.
-/
namespace Sem

theorem sane_of {p : Program} (hs : p.saneNames = true) {j : Nat} {f : File} (hf : p[j]? = some f)
    {n : Bytes} {c : Cat} (hd : Declares f n c) :
    splitLastDot n = none ∧ specBase n = none ∧ isContainerName n = false ∧ n ≠ [] := by
  have hfm : f ∈ p := List.mem_of_getElem? hf
  have h1 : f.saneNames = true := by
    unfold Program.saneNames at hs
    exact List.all_eq_true.mp hs f hfm
  unfold File.saneNames at h1
  have hn : n ∈ f.names := by
    unfold File.names
    exact List.mem_map.mpr ⟨(n, c), (declared_iff f n c).mpr hd, rfl⟩
  have := List.all_eq_true.mp h1 n hn
  simp only [Bool.and_eq_true, Option.isNone_iff_eq_none, Bool.not_eq_eq_eq_not, Bool.not_true,
    List.isEmpty_eq_false_iff] at this
  exact ⟨this.1.1.2, this.1.2, this.2, this.1.1.1⟩

/-- `vals` are the value names of enum `e`. -/
def EnumVals (p : Program) (e : Nat × Bytes) (vals : List Bytes) : Prop :=
  ∃ g en, p[e.1]? = some g ∧ en ∈ g.enums ∧ en.name = e.2 ∧ vals = en.values.map (·.name)

/-- What getEnum relies on in the AST `j` it looks at. -/
structure ViewSpec (p : Program) (views : Nat → Option FileView) (j : Nat) (v : FileView) : Prop where
  ex : ∃ g, p[j]? = some g ∧ g.names.Nodup ∧
    (∀ n c, v.n2c n = some c ↔ Declares g n c) ∧
    (∀ n, v.enum n = (findEnum n g.enums).map (fun e => e.values.map (·.name))) ∧
    (∀ b root, v.typedef b = some root → ∃ td, td ∈ g.typedefs ∧ td.alias = b ∧
        root.rootName = td.type.rootName ∧ (∀ k b', root.ref = some ⟨k, b'⟩ ↔ QualRef p j td.type k b') ∧
        ∃ t, Den p j (.ty td.type) t) ∧
    (∀ td, td ∈ g.typedefs → ∃ root, v.typedef td.alias = some root) ∧
    v.incs = g.includes.map (·.target) ∧
    (∀ (inc : Include), inc ∈ g.includes → ∃ v', views inc.target = some v')

def AllViews (p : Program) (views : Nat → Option FileView) : Prop :=
  ∀ j v, views j = some v → ViewSpec p views j v

theorem findEnum_some {n : Bytes} : ∀ {l : List Enum} {e : Enum}, findEnum n l = some e → e ∈ l ∧ e.name = n
  | [], e, h => by simp [findEnum] at h
  | t :: r, e, h => by
    simp only [findEnum] at h
    by_cases ht : t.name = n
    · rw [if_pos ht] at h
      simp only [Option.some.injEq] at h
      subst h
      exact ⟨List.mem_cons_self .., ht⟩
    · rw [if_neg ht] at h
      obtain ⟨h1, h2⟩ := findEnum_some h
      exact ⟨List.mem_cons_of_mem _ h1, h2⟩

theorem findEnum_of_mem {n : Bytes} : ∀ {l : List Enum} {e : Enum}, e ∈ l → e.name = n → ∃ e', findEnum n l = some e'
  | [], e, h, _ => by simp at h
  | t :: r, e, h, ha => by
    simp only [findEnum]
    by_cases ht : t.name = n
    · rw [if_pos ht]; exact ⟨t, rfl⟩
    · rw [if_neg ht]
      rcases List.mem_cons.mp h with e1 | h
      · subst e1; exact absurd ha ht
      · exact findEnum_of_mem h ha

theorem enumDen_declares {p : Program} {j : Nat} {b : Bytes} {e : Nat × Bytes} {idx : Int}
    (h : EnumDen p j b e idx) : ∃ g c, p[j]? = some g ∧ Declares g b c := by
  cases h with
  | enum h1 h2 => exact ⟨_, _, h1, h2⟩
  | tdLoc h1 h2 _ _ _ _ => exact ⟨_, _, h1, Declares.typedef h2⟩
  | tdQual h1 h2 _ _ _ _ _ => exact ⟨_, _, h1, Declares.typedef h2⟩

theorem declares_enum {f : File} {n : Bytes} (h : Declares f n .enum) : ∃ e, e ∈ f.enums ∧ e.name = n := by
  generalize hc : Cat.enum = c at h
  cases h with
  | typedef h => cases hc
  | constant h => cases hc
  | enum h => exact ⟨_, h, rfl⟩
  | @structLike s h => cases hk : s.kind <;> rw [hk] at hc <;> cases hc
  | service h => cases hc

theorem kw_container : isContainerName kwList = true ∧ isContainerName kwSet = true ∧ isContainerName kwMap = true := by
  decide

/-- getEnum finds only what `EnumDen` allows (sane names). -/
theorem getEnum_sound {p : Program} (hs : p.saneNames = true) {views : Nat → Option FileView}
    (hv : AllViews p views) : ∀ (fuel j : Nat) (name : Bytes) (vals : List Bytes) (idx : Int),
    getEnum views fuel j name = .ok (some vals, idx) →
      ∃ e, EnumDen p j name e idx ∧ EnumVals p e vals
  | 0, j, name, vals, idx => by simp [getEnum]
  | fuel + 1, j, name, vals, idx => by
    intro h
    simp only [getEnum] at h
    cases hvj : views j with
    | none => rw [hvj] at h; simp at h
    | some v =>
      rw [hvj] at h
      simp only at h
      obtain ⟨g, hg, hnd, hn2c, henum, htd, _, hincs, _⟩ := (hv j v hvj).ex
      cases hn : v.n2c name with
      | none =>
        rw [hn] at h
        simp only [Except.ok.injEq, Prod.mk.injEq, reduceCtorEq, false_and] at h
      | some c =>
        rw [hn] at h
        simp only at h
        have hdecl := (hn2c name c).mp hn
        by_cases hce : c = .enum
        · rw [if_pos hce] at h
          subst hce
          cases he : v.enum name with
          | none => rw [he] at h; simp at h
          | some vs =>
            rw [he] at h
            simp only [Except.ok.injEq, Prod.mk.injEq, Option.some.injEq] at h
            obtain ⟨rfl, rfl⟩ := h
            rw [henum] at he
            cases hfe : findEnum name g.enums with
            | none => rw [hfe] at he; simp at he
            | some en =>
              rw [hfe] at he
              simp only [Option.map_some, Option.some.injEq] at he
              obtain ⟨hm, hnm⟩ := findEnum_some hfe
              exact ⟨(j, name), EnumDen.enum hg hdecl, g, en, hg, hm, hnm, he.symm⟩
        · rw [if_neg hce] at h
          by_cases hct : c = .typedef
          · rw [if_pos hct] at h
            cases ht : v.typedef name with
            | none => rw [ht] at h; simp at h
            | some root =>
              rw [ht] at h
              simp only at h
              obtain ⟨td, htdm, hal, hrn, href, t, hden⟩ := htd name root ht
              -- the fall-back `getEnum(ast, x.Type.Name)`
              have fallback : getEnum views fuel j root.rootName = .ok (some vals, idx) →
                  root.ref = none → ∃ e, EnumDen p j name e idx ∧ EnumVals p e vals := by
                intro hr hrefn
                obtain ⟨e, hed, hev⟩ := getEnum_sound hs hv fuel j root.rootName vals idx hr
                obtain ⟨g', c', hg', hd'⟩ := enumDen_declares hed
                rw [hg] at hg'; simp only [Option.some.injEq] at hg'; subst hg'
                obtain ⟨s1, s2, s3, _⟩ := sane_of hs hg hd'
                rw [hrn] at s1 s2 s3 hed
                cases hty : td.type with
                | name n =>
                  rw [hty] at s1 s2 hed
                  simp only [TypeExpr.rootName] at s1 s2 hed
                  refine ⟨e, ?_, hev⟩
                  have := EnumDen.tdLoc hg htdm hty s2 s1 hed
                  rw [hal] at this
                  exact this
                | list x => rw [hty] at s3; simp only [TypeExpr.rootName, kw_container.1] at s3; cases s3
                | set x => rw [hty] at s3; simp only [TypeExpr.rootName, kw_container.2.1] at s3; cases s3
                | map x y => rw [hty] at s3; simp only [TypeExpr.rootName, kw_container.2.2] at s3; cases s3
              cases hr : root.ref with
              | none => rw [hr] at h; exact fallback h hr
              | some r =>
                rw [hr] at h
                simp only at h
                obtain ⟨n, f', a, j', c', e1, e2, e3, e4, e5⟩ := (href r.index r.name).mp (by rw [hr])
                rw [hg] at e3; simp only [Option.some.injEq] at e3; subst e3
                have hfirst := e5
                obtain ⟨inc, g2, r1, r2, r3, r4, r5, r6, r7⟩ := e5
                have hix : v.incs[r.index]? = some j' := by
                  rw [hincs, List.getElem?_map, r1]; simp [r2]
                rw [hix] at h
                simp only at h
                cases hsub : getEnum views fuel j' r.name with
                | error err => rw [hsub] at h; simp at h
                | ok res =>
                  obtain ⟨en, i2⟩ := res
                  rw [hsub] at h
                  cases en with
                  | some vs =>
                    simp only [Except.ok.injEq, Prod.mk.injEq, Option.some.injEq] at h
                    obtain ⟨rfl, rfl⟩ := h
                    obtain ⟨e, hed, hev⟩ := getEnum_sound hs hv fuel j' r.name vs i2 hsub
                    refine ⟨e, ?_, hev⟩
                    have := EnumDen.tdQual hg htdm e1 e2 e4 hfirst hed
                    rw [hal] at this
                    exact this
                  | none =>
                    simp only at h
                    -- the dotted written name is looked up locally: nothing is declared under it
                    exfalso
                    obtain ⟨e, hed, _⟩ := getEnum_sound hs hv fuel j root.rootName vals idx h
                    obtain ⟨g', c'', hg', hd'⟩ := enumDen_declares hed
                    rw [hg] at hg'; simp only [Option.some.injEq] at hg'; subst hg'
                    have := (sane_of hs hg hd').1
                    rw [hrn, e1] at this
                    simp only [TypeExpr.rootName] at this
                    rw [e4] at this
                    cases this
          · rw [if_neg hct] at h
            simp only [Except.ok.injEq, Prod.mk.injEq, reduceCtorEq, false_and] at h

theorem not_qual_of_nodot {p : Program} {j : Nat} {n : Bytes} (h : splitLastDot n = none) :
    ∀ k b, ¬ QualRef p j (.name n) k b := by
  rintro k b ⟨n', _, _, _, _, e, _, _, h4, _⟩
  simp only [TypeExpr.name.injEq] at e; subst e
  rw [h] at h4; cases h4

/-- getEnum finds everything `EnumDen` allows, whenever it returns at all. -/
theorem getEnum_complete {p : Program} {views : Nat → Option FileView} (hv : AllViews p views) :
    ∀ {j name e idx}, EnumDen p j name e idx → ∀ fuel r, getEnum views fuel j name = .ok r →
      ∃ vals, r = (some vals, idx) ∧ EnumVals p e vals := by
  intro j name e idx h
  induction h with
  | @enum j f b h1 h2 =>
    intro fuel r hr
    cases fuel with
    | zero => simp [getEnum] at hr
    | succ fuel =>
      simp only [getEnum] at hr
      cases hvj : views j with
      | none => rw [hvj] at hr; simp at hr
      | some v =>
        rw [hvj] at hr
        simp only at hr
        obtain ⟨g, hg, hnd, hn2c, henum, _⟩ := (hv j v hvj).ex
        rw [h1] at hg; simp only [Option.some.injEq] at hg; subst hg
        rw [(hn2c b .enum).mpr h2] at hr
        simp only [if_true] at hr
        cases he : v.enum b with
        | none => rw [he] at hr; simp at hr
        | some vs =>
          rw [he] at hr
          simp only [Except.ok.injEq] at hr
          rw [henum] at he
          cases hfe : findEnum b f.enums with
          | none => rw [hfe] at he; simp at he
          | some en =>
            rw [hfe] at he
            simp only [Option.map_some, Option.some.injEq] at he
            obtain ⟨hm, hnm⟩ := findEnum_some hfe
            exact ⟨vs, hr.symm, f, en, h1, hm, hnm, he.symm⟩
  | @tdLoc j f td n e idx h1 h2 h3 h4 h5 _ ih =>
    intro fuel r hr
    cases fuel with
    | zero => simp [getEnum] at hr
    | succ fuel =>
      simp only [getEnum] at hr
      cases hvj : views j with
      | none => rw [hvj] at hr; simp at hr
      | some v =>
        rw [hvj] at hr
        simp only at hr
        obtain ⟨g, hg, hnd, hn2c, _, htd, _, _, _⟩ := (hv j v hvj).ex
        rw [h1] at hg; simp only [Option.some.injEq] at hg; subst hg
        rw [(hn2c td.alias .typedef).mpr (Declares.typedef h2)] at hr
        simp only [reduceCtorEq, if_false, if_true] at hr
        cases ht : v.typedef td.alias with
        | none => rw [ht] at hr; simp at hr
        | some root =>
          rw [ht] at hr
          simp only at hr
          obtain ⟨td', htdm, hal, hrn, href, _⟩ := htd td.alias root ht
          have : td' = td := findTypedef_unique hnd htdm h2 hal
          subst this
          have hrefn : root.ref = none := by
            cases hrr : root.ref with
            | none => rfl
            | some rr =>
              have := (href rr.index rr.name).mp (by rw [hrr])
              rw [h3] at this
              exact absurd this (not_qual_of_nodot h5 _ _)
          rw [hrefn] at hr
          simp only at hr
          rw [hrn, h3] at hr
          exact ih fuel r hr
  | @tdQual j f td n a b k j' c e idx h1 h2 h3 h4 h5 h6 _ ih =>
    intro fuel r hr
    cases fuel with
    | zero => simp [getEnum] at hr
    | succ fuel =>
      simp only [getEnum] at hr
      cases hvj : views j with
      | none => rw [hvj] at hr; simp at hr
      | some v =>
        rw [hvj] at hr
        simp only at hr
        obtain ⟨g, hg, hnd, hn2c, _, htd, _, hincs, _⟩ := (hv j v hvj).ex
        rw [h1] at hg; simp only [Option.some.injEq] at hg; subst hg
        rw [(hn2c td.alias .typedef).mpr (Declares.typedef h2)] at hr
        simp only [reduceCtorEq, if_false, if_true] at hr
        cases ht : v.typedef td.alias with
        | none => rw [ht] at hr; simp at hr
        | some root =>
          rw [ht] at hr
          simp only at hr
          obtain ⟨td', htdm, hal, hrn, href, _⟩ := htd td.alias root ht
          have : td' = td := findTypedef_unique hnd htdm h2 hal
          subst this
          have hrefs : root.ref = some ⟨k, b⟩ :=
            (href k b).mpr (by rw [h3]; exact ⟨n, f, a, j', c, rfl, h4, h1, h5, h6⟩)
          rw [hrefs] at hr
          simp only at hr
          obtain ⟨inc, g2, r1, r2, _⟩ := h6
          have hix : v.incs[k]? = some j' := by
            rw [hincs, List.getElem?_map, r1]; simp [r2]
          rw [hix] at hr
          simp only at hr
          cases hsub : getEnum views fuel j' b with
          | error err => rw [hsub] at hr; simp at hr
          | ok res =>
            rw [hsub] at hr
            obtain ⟨vals, e1, e2⟩ := ih fuel res hsub
            subst e1
            simp only [Except.ok.injEq] at hr
            exact ⟨vals, hr.symm, e2⟩

end Sem

namespace Sem

/-! ### candidates against `ConstCand` -/

theorem mem_enumCands {vals : List Bytes} {x : Bytes} {mk c : Cand} :
    c ∈ enumCands vals x mk ↔ c = mk ∧ x ∈ vals := by
  unfold enumCands
  simp only [List.mem_map, List.mem_filter, decide_eq_true_eq]
  constructor
  · rintro ⟨y, ⟨hy, rfl⟩, e⟩; exact ⟨e.symm, hy⟩
  · rintro ⟨e, hx⟩; exact ⟨x, ⟨hx, rfl⟩, e.symm⟩

theorem mem_incConstCands (a v : Bytes) : ∀ (l : List IncInfo) (k0 : Nat) (c : Cand),
    c ∈ incConstCands a v l k0 ↔
      ∃ (j : Nat) (ii : IncInfo), l[j]? = some ii ∧ ii.pfx = a ∧ ii.n2c v = some .constant ∧
        c = (⟨false, ((k0 + j : Nat) : Int), v, a⟩, some (k0 + j))
  | [], k0, c => by simp [incConstCands]
  | inc :: r, k0, c => by
    simp only [incConstCands]
    have ih := mem_incConstCands a v r (k0 + 1) c
    have shift : (∃ (j : Nat) (ii : IncInfo), r[j]? = some ii ∧ ii.pfx = a ∧ ii.n2c v = some .constant ∧
        c = (⟨false, ((k0 + 1 + j : Nat) : Int), v, a⟩, some (k0 + 1 + j))) ↔
        (∃ (j : Nat) (ii : IncInfo), (inc :: r)[j + 1]? = some ii ∧ ii.pfx = a ∧ ii.n2c v = some .constant ∧
        c = (⟨false, ((k0 + (j + 1) : Nat) : Int), v, a⟩, some (k0 + (j + 1)))) := by
      constructor
      · rintro ⟨j, ii, h1, h2, h3, h4⟩
        exact ⟨j, ii, by simpa using h1, h2, h3, by rw [h4]; congr 2 <;> omega⟩
      · rintro ⟨j, ii, h1, h2, h3, h4⟩
        exact ⟨j, ii, by simpa using h1, h2, h3, by rw [h4]; congr 2 <;> omega⟩
    have tail : c ∈ incConstCands a v r (k0 + 1) →
        ∃ (j : Nat) (ii : IncInfo), (inc :: r)[j]? = some ii ∧ ii.pfx = a ∧ ii.n2c v = some .constant ∧
          c = (⟨false, ((k0 + j : Nat) : Int), v, a⟩, some (k0 + j)) := by
      intro h
      obtain ⟨j, ii, h1, h2, h3, h4⟩ := shift.mp (ih.mp h)
      exact ⟨j + 1, ii, h1, h2, h3, h4⟩
    have untail : ∀ (j : Nat) (ii : IncInfo), (inc :: r)[j + 1]? = some ii → ii.pfx = a → ii.n2c v = some .constant →
        c = (⟨false, ((k0 + (j + 1) : Nat) : Int), v, a⟩, some (k0 + (j + 1))) → c ∈ incConstCands a v r (k0 + 1) :=
      fun j ii h1 h2 h3 h4 => ih.mpr (shift.mpr ⟨j, ii, h1, h2, h3, h4⟩)
    by_cases hp : inc.pfx = a
    · rw [if_pos hp]
      cases hn : inc.n2c v with
      | none =>
        simp only
        constructor
        · exact tail
        · rintro ⟨j, ii, h1, h2, h3, h4⟩
          cases j with
          | zero =>
            simp only [List.getElem?_cons_zero, Option.some.injEq] at h1
            subst h1; rw [hn] at h3; cases h3
          | succ j => exact untail j ii h1 h2 h3 h4
      | some cc =>
        simp only
        by_cases hc : cc = .constant
        · rw [if_pos hc]
          simp only [List.mem_cons]
          constructor
          · rintro (e | h)
            · exact ⟨0, inc, rfl, hp, by rw [hn, hc], by rw [e]; simp⟩
            · exact tail h
          · rintro ⟨j, ii, h1, h2, h3, h4⟩
            cases j with
            | zero => left; rw [h4]; simp
            | succ j => exact Or.inr (untail j ii h1 h2 h3 h4)
        · rw [if_neg hc]
          constructor
          · exact tail
          · rintro ⟨j, ii, h1, h2, h3, h4⟩
            cases j with
            | zero =>
              simp only [List.getElem?_cons_zero, Option.some.injEq] at h1
              subst h1; rw [hn] at h3
              simp only [Option.some.injEq] at h3
              exact absurd h3 hc
            | succ j => exact untail j ii h1 h2 h3 h4
    · rw [if_neg hp]
      constructor
      · exact tail
      · rintro ⟨j, ii, h1, h2, h3, h4⟩
        cases j with
        | zero =>
          simp only [List.getElem?_cons_zero, Option.some.injEq] at h1
          subst h1; exact absurd h2 hp
        | succ j => exact untail j ii h1 h2 h3 h4

theorem mem_incEnumCands (views : Nat → Option FileView) (fuel : Nat) (a e v : Bytes) :
    ∀ (l : List IncInfo) (k0 : Nat) (cs : List Cand), incEnumCands views fuel a e v l k0 = .ok cs →
      (∀ (j : Nat) (ii : IncInfo), l[j]? = some ii → ii.pfx = a → ∃ r, getEnum views fuel ii.target e = .ok r) ∧
      ∀ c, c ∈ cs ↔
        ∃ (j : Nat) (ii : IncInfo) (vals : List Bytes) (idx : Int), l[j]? = some ii ∧ ii.pfx = a ∧
          getEnum views fuel ii.target e = .ok (some vals, idx) ∧ v ∈ vals ∧
          c = (⟨true, ((k0 + j : Nat) : Int), v, e⟩, some (k0 + j))
  | [], k0, cs => by
    intro h
    simp only [incEnumCands, Except.ok.injEq] at h
    subst h
    simp
  | inc :: r, k0, cs => by
    intro h
    simp only [incEnumCands] at h
    have lift : ∀ (cs' : List Cand), incEnumCands views fuel a e v r (k0 + 1) = .ok cs' →
        (∀ (j : Nat) (ii : IncInfo), r[j]? = some ii → ii.pfx = a → ∃ r', getEnum views fuel ii.target e = .ok r') ∧
        ∀ c, c ∈ cs' ↔
          ∃ (j : Nat) (ii : IncInfo) (vals : List Bytes) (idx : Int), (inc :: r)[j + 1]? = some ii ∧ ii.pfx = a ∧
            getEnum views fuel ii.target e = .ok (some vals, idx) ∧ v ∈ vals ∧
            c = (⟨true, ((k0 + (j + 1) : Nat) : Int), v, e⟩, some (k0 + (j + 1))) := by
      intro cs' h'
      obtain ⟨i1, i2⟩ := mem_incEnumCands views fuel a e v r (k0 + 1) cs' h'
      refine ⟨i1, ?_⟩
      intro c
      rw [i2 c]
      constructor
      · rintro ⟨j, ii, vals, idx, h1, h2, h3, h4, h5⟩
        exact ⟨j, ii, vals, idx, by simpa using h1, h2, h3, h4, by rw [h5]; congr 2 <;> omega⟩
      · rintro ⟨j, ii, vals, idx, h1, h2, h3, h4, h5⟩
        exact ⟨j, ii, vals, idx, by simpa using h1, h2, h3, h4, by rw [h5]; congr 2 <;> omega⟩
    by_cases hp : inc.pfx = a
    · rw [if_pos hp] at h
      cases hg : getEnum views fuel inc.target e with
      | error err => rw [hg] at h; simp at h
      | ok res =>
        obtain ⟨en, idx⟩ := res
        rw [hg] at h
        simp only at h
        cases hr : incEnumCands views fuel a e v r (k0 + 1) with
        | error err => rw [hr] at h; simp at h
        | ok rest =>
          rw [hr] at h
          simp only at h
          obtain ⟨l1, l2⟩ := lift rest hr
          refine ⟨?_, ?_⟩
          · intro j ii h1 h2
            cases j with
            | zero =>
              simp only [List.getElem?_cons_zero, Option.some.injEq] at h1
              subst h1; exact ⟨_, hg⟩
            | succ j => exact l1 j ii (by simpa using h1) h2
          · intro c
            cases en with
            | none =>
              simp only [Except.ok.injEq] at h
              subst h
              rw [l2 c]
              constructor
              · rintro ⟨j, ii, vals, idx', q⟩; exact ⟨j + 1, ii, vals, idx', q⟩
              · rintro ⟨j, ii, vals, idx', h1, h2, h3, h4, h5⟩
                cases j with
                | zero =>
                  simp only [List.getElem?_cons_zero, Option.some.injEq] at h1
                  subst h1; rw [hg] at h3; simp at h3
                | succ j => exact ⟨j, ii, vals, idx', h1, h2, h3, h4, h5⟩
            | some vals0 =>
              simp only [Except.ok.injEq] at h
              subst h
              rw [List.mem_append, mem_enumCands, l2 c]
              constructor
              · rintro (⟨e1, e2⟩ | ⟨j, ii, vals, idx', q⟩)
                · exact ⟨0, inc, vals0, idx, rfl, hp, hg, e2, by rw [e1]; simp⟩
                · exact ⟨j + 1, ii, vals, idx', q⟩
              · rintro ⟨j, ii, vals, idx', h1, h2, h3, h4, h5⟩
                cases j with
                | zero =>
                  simp only [List.getElem?_cons_zero, Option.some.injEq] at h1
                  subst h1
                  rw [hg] at h3
                  simp only [Except.ok.injEq, Prod.mk.injEq, Option.some.injEq] at h3
                  obtain ⟨rfl, rfl⟩ := h3
                  left
                  exact ⟨by rw [h5]; simp, h4⟩
                | succ j => exact Or.inr ⟨j, ii, vals, idx', h1, h2, h3, h4, h5⟩
    · rw [if_neg hp] at h
      obtain ⟨l1, l2⟩ := lift cs h
      refine ⟨?_, ?_⟩
      · intro j ii h1 h2
        cases j with
        | zero =>
          simp only [List.getElem?_cons_zero, Option.some.injEq] at h1
          subst h1; exact absurd h2 hp
        | succ j => exact l1 j ii (by simpa using h1) h2
      · intro c
        rw [l2 c]
        constructor
        · rintro ⟨j, ii, vals, idx', q⟩; exact ⟨j + 1, ii, vals, idx', q⟩
        · rintro ⟨j, ii, vals, idx', h1, h2, h3, h4, h5⟩
          cases j with
          | zero =>
            simp only [List.getElem?_cons_zero, Option.some.injEq] at h1
            subst h1; exact absurd h2 hp
          | succ j => exact ⟨j, ii, vals, idx', h1, h2, h3, h4, h5⟩

end Sem
