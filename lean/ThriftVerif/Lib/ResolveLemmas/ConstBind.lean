import ThriftVerif.Lib.ResolveLemmas.Deref
/-
  getEnum against `EnumDen`, the candidate enumeration against `ConstCand`.
-/
namespace Sem

/-- `vals` are the value names of enum `e`. -/
def EnumVals (p : Program) (e : Nat × Bytes) (vals : List Bytes) : Prop :=
  ∃ g en, p[e.1]? = some g ∧ en ∈ g.enums ∧ en.name = e.2 ∧ vals = en.values.map (·.name)

/-- What getEnum relies on in the AST `j` it looks at. -/
structure ViewSpec (p : Program) (views : Nat → Option FileView) (j : Nat) (v : FileView) : Prop where
  ex : ∃ g, p[j]? = some g ∧ g.names.Nodup ∧
    (∀ n c, v.n2c n = some c ↔ Declares g n c) ∧
    (∀ n, v.enum n = (findEnum n g.enums).map (fun e => e.values.map (·.name))) ∧
    (∀ b root, v.typedef b = some root → ∃ td, td ∈ g.typedefs ∧ td.alias = b ∧
        root.rootName = td.type.rootName ∧ (∀ k b', root.ref = some ⟨k, b'⟩ ↔ QualRef p j td.type k b') ∧
        ∃ t, Den p j (.ty td.type) t) ∧
    (∀ td, td ∈ g.typedefs → ∃ root, v.typedef td.alias = some root) ∧
    v.incs = g.includes.map (·.target) ∧
    (∀ (inc : Include), inc ∈ g.includes → ∃ v', views inc.target = some v')

def AllViews (p : Program) (views : Nat → Option FileView) : Prop :=
  ∀ j v, views j = some v → ViewSpec p views j v

theorem findEnum_some {n : Bytes} : ∀ {l : List Enum} {e : Enum}, findEnum n l = some e → e ∈ l ∧ e.name = n
  | [], e, h => by simp [findEnum] at h
  | t :: r, e, h => by
    simp only [findEnum] at h
    by_cases ht : t.name = n
    · rw [if_pos ht] at h
      simp only [Option.some.injEq] at h
      subst h
      exact ⟨List.mem_cons_self .., ht⟩
    · rw [if_neg ht] at h
      obtain ⟨h1, h2⟩ := findEnum_some h
      exact ⟨List.mem_cons_of_mem _ h1, h2⟩

theorem findEnum_of_mem {n : Bytes} : ∀ {l : List Enum} {e : Enum}, e ∈ l → e.name = n → ∃ e', findEnum n l = some e'
  | [], e, h, _ => by simp at h
  | t :: r, e, h, ha => by
    simp only [findEnum]
    by_cases ht : t.name = n
    · rw [if_pos ht]; exact ⟨t, rfl⟩
    · rw [if_neg ht]
      rcases List.mem_cons.mp h with e1 | h
      · subst e1; exact absurd ha ht
      · exact findEnum_of_mem h ha

theorem enumDen_declares {p : Program} {j : Nat} {b : Bytes} {e : Nat × Bytes} {idx : Int}
    (h : EnumDen p j b e idx) : ∃ g c, p[j]? = some g ∧ Declares g b c := by
  cases h with
  | enum h1 h2 => exact ⟨_, _, h1, h2⟩
  | tdLoc h1 h2 _ _ _ _ => exact ⟨_, _, h1, Declares.typedef h2⟩
  | tdQual h1 h2 _ _ _ _ _ => exact ⟨_, _, h1, Declares.typedef h2⟩

theorem declares_enum {f : File} {n : Bytes} (h : Declares f n .enum) : ∃ e, e ∈ f.enums ∧ e.name = n := by
  generalize hc : Cat.enum = c at h
  cases h with
  | typedef h => cases hc
  | constant h => cases hc
  | enum h => exact ⟨_, h, rfl⟩
  | @structLike s h => cases hk : s.kind <;> rw [hk] at hc <;> cases hc
  | service h => cases hc

theorem kw_container : isContainerName kwList = true ∧ isContainerName kwSet = true ∧ isContainerName kwMap = true := by
  decide

/-- getEnum finds only what `EnumDen` allows. -/
theorem getEnum_sound {p : Program} {views : Nat → Option FileView}
    (hv : AllViews p views) : ∀ (fuel : Nat) (seen : List (Nat × Bytes)) (j : Nat) (name : Bytes)
      (vals : List Bytes) (idx : Int),
    getEnum views fuel seen j name = .ok (some vals, idx) →
      ∃ e, EnumDen p j name e idx ∧ EnumVals p e vals
  | 0, seen, j, name, vals, idx => by simp [getEnum]
  | fuel + 1, seen, j, name, vals, idx => by
    intro h
    simp only [getEnum] at h
    cases hvj : views j with
    | none => rw [hvj] at h; simp at h
    | some v =>
      rw [hvj] at h
      simp only at h
      obtain ⟨g, hg, hnd, hn2c, henum, htd, _, hincs, _⟩ := (hv j v hvj).ex
      cases hn : v.n2c name with
      | none =>
        rw [hn] at h
        simp only [Except.ok.injEq, Prod.mk.injEq, reduceCtorEq, false_and] at h
      | some c =>
        rw [hn] at h
        simp only at h
        have hdecl := (hn2c name c).mp hn
        by_cases hce : c = .enum
        · rw [if_pos hce] at h
          subst hce
          cases he : v.enum name with
          | none => rw [he] at h; simp at h
          | some vs =>
            rw [he] at h
            simp only [Except.ok.injEq, Prod.mk.injEq, Option.some.injEq] at h
            obtain ⟨rfl, rfl⟩ := h
            rw [henum] at he
            cases hfe : findEnum name g.enums with
            | none => rw [hfe] at he; simp at he
            | some en =>
              rw [hfe] at he
              simp only [Option.map_some, Option.some.injEq] at he
              obtain ⟨hm, hnm⟩ := findEnum_some hfe
              exact ⟨(j, name), EnumDen.enum hg hdecl, g, en, hg, hm, hnm, he.symm⟩
        · rw [if_neg hce] at h
          by_cases hct : c = .typedef
          · rw [if_pos hct] at h
            cases ht : v.typedef name with
            | none => rw [ht] at h; simp at h
            | some root =>
              rw [ht] at h
              simp only at h
              obtain ⟨td, htdm, hal, hrn, href, t, hden⟩ := htd name root ht
              by_cases hseen : (j, name) ∈ seen
              · rw [if_pos hseen] at h
                simp only [Except.ok.injEq, Prod.mk.injEq, reduceCtorEq, false_and] at h
              · rw [if_neg hseen] at h
                cases hr : root.ref with
                | none =>
                  rw [hr] at h
                  simp only at h
                  by_cases hcm : inCategoryMap root.rootName = true
                  · rw [if_pos hcm] at h
                    simp only [Except.ok.injEq, Prod.mk.injEq, reduceCtorEq, false_and] at h
                  · rw [if_neg hcm] at h
                    obtain ⟨e, hed, hev⟩ := getEnum_sound hv fuel _ j root.rootName vals idx h
                    have hnk : root.rootName ∉ Generated.C05.baseCase ∧ ¬ isContainerName root.rootName = true := by
                      have := fun h' => hcm ((inCategoryMap_iff root.rootName).mpr h')
                      exact ⟨fun h' => this (Or.inl h'), fun h' => this (Or.inr h')⟩
                    rw [hrn] at hnk hed
                    cases hty : td.type with
                    | name n =>
                      rw [hty] at hnk hed hden
                      simp only [TypeExpr.rootName] at hnk hed
                      have s2 : specBase n = none := by
                        cases hb : specBase n with
                        | none => rfl
                        | some c2 => exact absurd (specBase_some_mem hb) hnk.1
                      have s3 : isContainerName n = false := by simpa using hnk.2
                      have hsp : splitLastDot n = none := by
                        rcases den_ty_name_inv hden with ⟨c2, q1, _⟩ | ⟨_, q2, _⟩ | ⟨f2, a, b, k, j2, c2, _, q2, q3, q4, _⟩
                        · rw [s2] at q1; cases q1
                        · exact q2
                        · exfalso
                          have := (href k b).mpr (by rw [hty]; exact ⟨n, f2, a, j2, c2, rfl, s2, q3, q2, q4⟩)
                          rw [hr] at this; cases this
                      refine ⟨e, ?_, hev⟩
                      have := EnumDen.tdLoc hg htdm hty s2 s3 hsp hed
                      rw [hal] at this
                      exact this
                    | list x => rw [hty] at hnk; simp only [TypeExpr.rootName, kw_container.1] at hnk; exact absurd trivial hnk.2
                    | set x => rw [hty] at hnk; simp only [TypeExpr.rootName, kw_container.2.1] at hnk; exact absurd trivial hnk.2
                    | map x y => rw [hty] at hnk; simp only [TypeExpr.rootName, kw_container.2.2] at hnk; exact absurd trivial hnk.2
                | some r =>
                  rw [hr] at h
                  simp only at h
                  obtain ⟨n, f', a, j', c', e1, e2, e3, e4, e5⟩ := (href r.index r.name).mp (by rw [hr])
                  rw [hg] at e3; simp only [Option.some.injEq] at e3; subst e3
                  have hfirst := e5
                  obtain ⟨inc, g2, r1, r2, r3, r4, r5, r6, r7⟩ := e5
                  have hix : v.incs[r.index]? = some j' := by
                    rw [hincs, List.getElem?_map, r1]; simp [r2]
                  rw [hix] at h
                  simp only at h
                  cases hsub : getEnum views fuel ((j, name) :: seen) j' r.name with
                  | error err => rw [hsub] at h; simp at h
                  | ok res =>
                    obtain ⟨en, i2⟩ := res
                    rw [hsub] at h
                    cases en with
                    | some vs =>
                      simp only [Except.ok.injEq, Prod.mk.injEq, Option.some.injEq] at h
                      obtain ⟨rfl, rfl⟩ := h
                      obtain ⟨e, hed, hev⟩ := getEnum_sound hv fuel _ j' r.name vs i2 hsub
                      refine ⟨e, ?_, hev⟩
                      have := EnumDen.tdQual hg htdm e1 e2 e4 hfirst hed
                      rw [hal] at this
                      exact this
                    | none => simp only [Except.ok.injEq, Prod.mk.injEq, reduceCtorEq, false_and] at h
          · rw [if_neg hct] at h
            simp only [Except.ok.injEq, Prod.mk.injEq, reduceCtorEq, false_and] at h

theorem not_qual_of_nodot {p : Program} {j : Nat} {n : Bytes} (h : splitLastDot n = none) :
    ∀ k b, ¬ QualRef p j (.name n) k b := by
  rintro k b ⟨n', _, _, _, _, e, _, _, h4, _⟩
  simp only [TypeExpr.name.injEq] at e; subst e
  rw [h] at h4; cases h4

/-- `EnumDen` with the number of typedefs followed. -/
inductive EnumDenH (p : Program) : Nat → Bytes → Nat × Bytes → Int → Nat → Prop
  | enum {j f b} : p[j]? = some f → Declares f b .enum → EnumDenH p j b (j, b) (-1) 0
  | tdLoc {j f td n e idx h} : p[j]? = some f → td ∈ f.typedefs → td.type = .name n →
      specBase n = none → isContainerName n = false → splitLastDot n = none → EnumDenH p j n e idx h →
      EnumDenH p j td.alias e idx (h + 1)
  | tdQual {j f td n a b} {k : Nat} {j' c e idx h} : p[j]? = some f → td ∈ f.typedefs → td.type = .name n →
      specBase n = none → splitLastDot n = some (a, b) →
      FirstInc p f Cat.isTypeLikeSpec a b k j' c → EnumDenH p j' b e idx h →
      EnumDenH p j td.alias e (k : Int) (h + 1)

theorem enumDen_height {p : Program} {j : Nat} {b : Bytes} {e : Nat × Bytes} {idx : Int}
    (h : EnumDen p j b e idx) : ∃ n, EnumDenH p j b e idx n := by
  induction h with
  | enum h1 h2 => exact ⟨0, .enum h1 h2⟩
  | tdLoc h1 h2 h3 h4 hc h5 _ ih => obtain ⟨n, hn⟩ := ih; exact ⟨n + 1, .tdLoc h1 h2 h3 h4 hc h5 hn⟩
  | tdQual h1 h2 h3 h4 h5 h6 _ ih => obtain ⟨n, hn⟩ := ih; exact ⟨n + 1, .tdQual h1 h2 h3 h4 h5 h6 hn⟩

theorem enumDenH_inv {p : Program} {j : Nat} {b : Bytes} {e : Nat × Bytes} {idx : Int} {h : Nat}
    (hd : EnumDenH p j b e idx h) :
    (∃ f, p[j]? = some f ∧ Declares f b .enum ∧ h = 0) ∨
    (∃ f td n h0, p[j]? = some f ∧ td ∈ f.typedefs ∧ td.alias = b ∧ td.type = .name n ∧
        splitLastDot n = none ∧ EnumDenH p j n e idx h0 ∧ h = h0 + 1) ∨
    (∃ f td n a b' k j' c idx0 h0, p[j]? = some f ∧ td ∈ f.typedefs ∧ td.alias = b ∧ td.type = .name n ∧
        splitLastDot n = some (a, b') ∧ FirstInc p f Cat.isTypeLikeSpec a b' k j' c ∧
        EnumDenH p j' b' e idx0 h0 ∧ h = h0 + 1) := by
  cases hd with
  | enum h1 h2 => exact Or.inl ⟨_, h1, h2, rfl⟩
  | tdLoc h1 h2 h3 _ _ h5 h6 => exact Or.inr (Or.inl ⟨_, _, _, _, h1, h2, rfl, h3, h5, h6, rfl⟩)
  | tdQual h1 h2 h3 _ h5 h6 h7 => exact Or.inr (Or.inr ⟨_, _, _, _, _, _, _, _, _, _, h1, h2, rfl, h3, h5, h6, h7, rfl⟩)

/-- the number of typedefs between a name and its enum is determined by the name -/
theorem enumDenH_fun {p : Program} {views : Nat → Option FileView} (hv : AllViews p views) :
    ∀ {j b e idx h}, EnumDenH p j b e idx h → (∃ v, views j = some v) →
      ∀ {e' idx' h'}, EnumDenH p j b e' idx' h' → h = h' := by
  intro j b e idx h hd
  induction hd with
  | @enum j f b h1 h2 =>
    intro ⟨v, hvj⟩ e' idx' h' hd'
    obtain ⟨g, hg, hnd, _⟩ := (hv j v hvj).ex
    rw [h1] at hg; simp only [Option.some.injEq] at hg; subst hg
    rcases enumDenH_inv hd' with ⟨_, _, _, q⟩ | ⟨f', td, _, _, q1, q2, q3, _⟩ | ⟨f', td, _, _, _, _, _, _, _, _, q1, q2, q3, _⟩
    · exact q.symm
    · rw [h1] at q1; simp only [Option.some.injEq] at q1; subst q1
      have := declares_unique hnd h2 (by rw [← q3]; exact Declares.typedef q2)
      cases this
    · rw [h1] at q1; simp only [Option.some.injEq] at q1; subst q1
      have := declares_unique hnd h2 (by rw [← q3]; exact Declares.typedef q2)
      cases this
  | @tdLoc j f td n e idx h h1 h2 h3 _ _ h5 _ ih =>
    intro ⟨v, hvj⟩ e' idx' h' hd'
    obtain ⟨g, hg, hnd, _⟩ := (hv j v hvj).ex
    rw [h1] at hg; simp only [Option.some.injEq] at hg; subst hg
    rcases enumDenH_inv hd' with ⟨f', q1, q2, _⟩ | ⟨f', td', n', h0, q1, q2, q3, q4, _, q6, q7⟩ |
        ⟨f', td', n', a, b', k, j', c, idx0, h0, q1, q2, q3, q4, q5, _⟩
    · rw [h1] at q1; simp only [Option.some.injEq] at q1; subst q1
      have := declares_unique hnd q2 (Declares.typedef h2)
      cases this
    · rw [h1] at q1; simp only [Option.some.injEq] at q1; subst q1
      have : td' = td := findTypedef_unique hnd q2 h2 q3
      subst this
      rw [h3] at q4; simp only [TypeExpr.name.injEq] at q4; subst q4
      rw [q7, ih ⟨v, hvj⟩ q6]
    · rw [h1] at q1; simp only [Option.some.injEq] at q1; subst q1
      have : td' = td := findTypedef_unique hnd q2 h2 q3
      subst this
      rw [h3] at q4; simp only [TypeExpr.name.injEq] at q4; subst q4
      rw [h5] at q5; cases q5
  | @tdQual j f td n a b k j' c e idx h h1 h2 h3 _ h5 h6 _ ih =>
    intro ⟨v, hvj⟩ e' idx' h' hd'
    obtain ⟨g, hg, hnd, _, _, _, _, _, hcl⟩ := (hv j v hvj).ex
    rw [h1] at hg; simp only [Option.some.injEq] at hg; subst hg
    rcases enumDenH_inv hd' with ⟨f', q1, q2, _⟩ | ⟨f', td', n', h0, q1, q2, q3, q4, q5, _⟩ |
        ⟨f', td', n', a', b', k', j'', c', idx0, h0, q1, q2, q3, q4, q5, q6, q7, q8⟩
    · rw [h1] at q1; simp only [Option.some.injEq] at q1; subst q1
      have := declares_unique hnd q2 (Declares.typedef h2)
      cases this
    · rw [h1] at q1; simp only [Option.some.injEq] at q1; subst q1
      have : td' = td := findTypedef_unique hnd q2 h2 q3
      subst this
      rw [h3] at q4; simp only [TypeExpr.name.injEq] at q4; subst q4
      rw [h5] at q5; cases q5
    · rw [h1] at q1; simp only [Option.some.injEq] at q1; subst q1
      have : td' = td := findTypedef_unique hnd q2 h2 q3
      subst this
      rw [h3] at q4; simp only [TypeExpr.name.injEq] at q4; subst q4
      rw [h5] at q5; simp only [Option.some.injEq, Prod.mk.injEq] at q5
      obtain ⟨rfl, rfl⟩ := q5
      have hN : ∀ (k : Nat) (inc : Include) (g : File), f.includes[k]? = some inc → p[inc.target]? = some g →
          g.names.Nodup := by
        intro k inc g hk hgk
        obtain ⟨v', hv'⟩ := hcl inc (List.mem_of_getElem? hk)
        obtain ⟨g', hg', hnd', _⟩ := (hv _ _ hv').ex
        rw [hgk] at hg'; simp only [Option.some.injEq] at hg'; subst hg'
        exact hnd'
      obtain ⟨rfl, rfl, rfl⟩ := firstInc_unique' hN h6 q6
      obtain ⟨inc, g2, r1, r2, _⟩ := h6
      subst r2
      rw [q8, ih (hcl inc (List.mem_of_getElem? r1)) q7]

/-- getEnum finds everything `EnumDen` allows, whenever it returns at all: the keys in the visited
set are the typedefs already followed, which lie strictly further from the enum. -/
theorem getEnum_complete_h {p : Program} {views : Nat → Option FileView} (hv : AllViews p views) :
    ∀ {j name e idx h}, EnumDenH p j name e idx h → (∃ v, views j = some v) →
      ∀ fuel (seen : List (Nat × Bytes)) r,
      (∀ k, k ∈ seen → ∀ e' idx' h', EnumDenH p k.1 k.2 e' idx' h' → h < h') →
      getEnum views fuel seen j name = .ok r →
      ∃ vals, r = (some vals, idx) ∧ EnumVals p e vals := by
  intro j name e idx h hd
  induction hd with
  | @enum j f b h1 h2 =>
    intro _ fuel seen r _ hr
    cases fuel with
    | zero => simp [getEnum] at hr
    | succ fuel =>
      simp only [getEnum] at hr
      cases hvj : views j with
      | none => rw [hvj] at hr; simp at hr
      | some v =>
        rw [hvj] at hr
        simp only at hr
        obtain ⟨g, hg, hnd, hn2c, henum, _⟩ := (hv j v hvj).ex
        rw [h1] at hg; simp only [Option.some.injEq] at hg; subst hg
        rw [(hn2c b .enum).mpr h2] at hr
        simp only [if_true] at hr
        cases he : v.enum b with
        | none => rw [he] at hr; simp at hr
        | some vs =>
          rw [he] at hr
          simp only [Except.ok.injEq] at hr
          rw [henum] at he
          cases hfe : findEnum b f.enums with
          | none => rw [hfe] at he; simp at he
          | some en =>
            rw [hfe] at he
            simp only [Option.map_some, Option.some.injEq] at he
            obtain ⟨hm, hnm⟩ := findEnum_some hfe
            exact ⟨vs, hr.symm, f, en, h1, hm, hnm, he.symm⟩
  | @tdLoc j f td n e idx h h1 h2 h3 h4 hcn h5 hsub ih =>
    intro hview fuel seen r hseen hr
    have hself := EnumDenH.tdLoc h1 h2 h3 h4 hcn h5 hsub
    cases fuel with
    | zero => simp [getEnum] at hr
    | succ fuel =>
      simp only [getEnum] at hr
      cases hvj : views j with
      | none => rw [hvj] at hr; simp at hr
      | some v =>
        rw [hvj] at hr
        simp only at hr
        obtain ⟨g, hg, hnd, hn2c, _, htd, _, _, _⟩ := (hv j v hvj).ex
        rw [h1] at hg; simp only [Option.some.injEq] at hg; subst hg
        rw [(hn2c td.alias .typedef).mpr (Declares.typedef h2)] at hr
        simp only [reduceCtorEq, if_false, if_true] at hr
        cases ht : v.typedef td.alias with
        | none => rw [ht] at hr; simp at hr
        | some root =>
          rw [ht] at hr
          simp only at hr
          obtain ⟨td', htdm, hal, hrn, href, _⟩ := htd td.alias root ht
          have : td' = td := findTypedef_unique hnd htdm h2 hal
          subst this
          have hns : (j, td'.alias) ∉ seen := by
            intro hm
            have := hseen _ hm _ _ _ hself
            omega
          rw [if_neg hns] at hr
          have hrefn : root.ref = none := by
            cases hrr : root.ref with
            | none => rfl
            | some rr =>
              have := (href rr.index rr.name).mp (by rw [hrr])
              rw [h3] at this
              exact absurd this (not_qual_of_nodot h5 _ _)
          rw [hrefn] at hr
          simp only at hr
          rw [hrn, h3] at hr
          have hncm : ¬ inCategoryMap (TypeExpr.name n).rootName = true := by
            simp only [TypeExpr.rootName]
            rw [inCategoryMap_iff]
            simp only [not_or]
            exact ⟨specBase_none_not_mem h4, by rw [hcn]; simp⟩
          rw [if_neg hncm] at hr
          simp only [TypeExpr.rootName] at hr
          refine ih hview fuel _ r ?_ hr
          intro k hk e' idx' h' hd'
          rcases List.mem_cons.mp hk with rfl | hk
          · have := enumDenH_fun hv hself hview hd'
            omega
          · have := hseen k hk e' idx' h' hd'
            omega
  | @tdQual j f td n a b k j' c e idx h h1 h2 h3 h4 h5 h6 hsub ih =>
    intro hview fuel seen r hseen hr
    have hself := EnumDenH.tdQual h1 h2 h3 h4 h5 h6 hsub
    cases fuel with
    | zero => simp [getEnum] at hr
    | succ fuel =>
      simp only [getEnum] at hr
      cases hvj : views j with
      | none => rw [hvj] at hr; simp at hr
      | some v =>
        rw [hvj] at hr
        simp only at hr
        obtain ⟨g, hg, hnd, hn2c, _, htd, _, hincs, hcl⟩ := (hv j v hvj).ex
        rw [h1] at hg; simp only [Option.some.injEq] at hg; subst hg
        rw [(hn2c td.alias .typedef).mpr (Declares.typedef h2)] at hr
        simp only [reduceCtorEq, if_false, if_true] at hr
        cases ht : v.typedef td.alias with
        | none => rw [ht] at hr; simp at hr
        | some root =>
          rw [ht] at hr
          simp only at hr
          obtain ⟨td', htdm, hal, hrn, href, _⟩ := htd td.alias root ht
          have : td' = td := findTypedef_unique hnd htdm h2 hal
          subst this
          have hns : (j, td'.alias) ∉ seen := by
            intro hm
            have := hseen _ hm _ _ _ hself
            omega
          rw [if_neg hns] at hr
          have hrefs : root.ref = some ⟨k, b⟩ :=
            (href k b).mpr (by rw [h3]; exact ⟨n, f, a, j', c, rfl, h4, h1, h5, h6⟩)
          rw [hrefs] at hr
          simp only at hr
          obtain ⟨inc, g2, r1, r2, _⟩ := h6
          have hix : v.incs[k]? = some j' := by
            rw [hincs, List.getElem?_map, r1]; simp [r2]
          rw [hix] at hr
          simp only at hr
          have hview' : ∃ v', views j' = some v' := by
            rw [← r2]; exact hcl inc (List.mem_of_getElem? r1)
          cases hsubc : getEnum views fuel ((j, td'.alias) :: seen) j' b with
          | error err => rw [hsubc] at hr; simp at hr
          | ok res =>
            rw [hsubc] at hr
            obtain ⟨vals, e1, e2⟩ := ih hview' fuel _ res (by
              intro k' hk e' idx' h' hd'
              rcases List.mem_cons.mp hk with rfl | hk
              · have := enumDenH_fun hv hself hview hd'
                omega
              · have := hseen k' hk e' idx' h' hd'
                omega) hsubc
            subst e1
            simp only [Except.ok.injEq] at hr
            exact ⟨vals, hr.symm, e2⟩

theorem getEnum_complete {p : Program} {views : Nat → Option FileView} (hv : AllViews p views)
    {j : Nat} {name : Bytes} {e : Nat × Bytes} {idx : Int} (hd : EnumDen p j name e idx)
    (hview : ∃ v, views j = some v) (fuel : Nat) (r : Option (List Bytes) × Int)
    (hr : getEnum views fuel [] j name = .ok r) :
    ∃ vals, r = (some vals, idx) ∧ EnumVals p e vals := by
  obtain ⟨h, hh⟩ := enumDen_height hd
  exact getEnum_complete_h hv hh hview fuel [] r (by intro k hk; simp at hk) hr

end Sem

namespace Sem

/-! ### candidates against `ConstCand` -/

theorem mem_enumCands {vals : List Bytes} {x : Bytes} {mk c : Cand} :
    c ∈ enumCands vals x mk ↔ c = mk ∧ x ∈ vals := by
  unfold enumCands
  simp only [List.mem_map, List.mem_filter, decide_eq_true_eq]
  constructor
  · rintro ⟨y, ⟨hy, rfl⟩, e⟩; exact ⟨e.symm, hy⟩
  · rintro ⟨e, hx⟩; exact ⟨x, ⟨hx, rfl⟩, e.symm⟩

theorem mem_incConstCands (a v : Bytes) : ∀ (l : List IncInfo) (k0 : Nat) (c : Cand),
    c ∈ incConstCands a v l k0 ↔
      ∃ (j : Nat) (ii : IncInfo), l[j]? = some ii ∧ ii.pfx = a ∧ ii.n2c v = some .constant ∧
        c = (⟨false, ((k0 + j : Nat) : Int), v, a⟩, some (k0 + j))
  | [], k0, c => by simp [incConstCands]
  | inc :: r, k0, c => by
    simp only [incConstCands]
    have ih := mem_incConstCands a v r (k0 + 1) c
    have shift : (∃ (j : Nat) (ii : IncInfo), r[j]? = some ii ∧ ii.pfx = a ∧ ii.n2c v = some .constant ∧
        c = (⟨false, ((k0 + 1 + j : Nat) : Int), v, a⟩, some (k0 + 1 + j))) ↔
        (∃ (j : Nat) (ii : IncInfo), (inc :: r)[j + 1]? = some ii ∧ ii.pfx = a ∧ ii.n2c v = some .constant ∧
        c = (⟨false, ((k0 + (j + 1) : Nat) : Int), v, a⟩, some (k0 + (j + 1)))) := by
      constructor
      · rintro ⟨j, ii, h1, h2, h3, h4⟩
        exact ⟨j, ii, by simpa using h1, h2, h3, by rw [h4]; congr 2 <;> omega⟩
      · rintro ⟨j, ii, h1, h2, h3, h4⟩
        exact ⟨j, ii, by simpa using h1, h2, h3, by rw [h4]; congr 2 <;> omega⟩
    have tail : c ∈ incConstCands a v r (k0 + 1) →
        ∃ (j : Nat) (ii : IncInfo), (inc :: r)[j]? = some ii ∧ ii.pfx = a ∧ ii.n2c v = some .constant ∧
          c = (⟨false, ((k0 + j : Nat) : Int), v, a⟩, some (k0 + j)) := by
      intro h
      obtain ⟨j, ii, h1, h2, h3, h4⟩ := shift.mp (ih.mp h)
      exact ⟨j + 1, ii, h1, h2, h3, h4⟩
    have untail : ∀ (j : Nat) (ii : IncInfo), (inc :: r)[j + 1]? = some ii → ii.pfx = a → ii.n2c v = some .constant →
        c = (⟨false, ((k0 + (j + 1) : Nat) : Int), v, a⟩, some (k0 + (j + 1))) → c ∈ incConstCands a v r (k0 + 1) :=
      fun j ii h1 h2 h3 h4 => ih.mpr (shift.mpr ⟨j, ii, h1, h2, h3, h4⟩)
    by_cases hp : inc.pfx = a
    · rw [if_pos hp]
      cases hn : inc.n2c v with
      | none =>
        simp only
        constructor
        · exact tail
        · rintro ⟨j, ii, h1, h2, h3, h4⟩
          cases j with
          | zero =>
            simp only [List.getElem?_cons_zero, Option.some.injEq] at h1
            subst h1; rw [hn] at h3; cases h3
          | succ j => exact untail j ii h1 h2 h3 h4
      | some cc =>
        simp only
        by_cases hc : cc = .constant
        · rw [if_pos hc]
          simp only [List.mem_cons]
          constructor
          · rintro (e | h)
            · exact ⟨0, inc, rfl, hp, by rw [hn, hc], by rw [e]; simp⟩
            · exact tail h
          · rintro ⟨j, ii, h1, h2, h3, h4⟩
            cases j with
            | zero => left; rw [h4]; simp
            | succ j => exact Or.inr (untail j ii h1 h2 h3 h4)
        · rw [if_neg hc]
          constructor
          · exact tail
          · rintro ⟨j, ii, h1, h2, h3, h4⟩
            cases j with
            | zero =>
              simp only [List.getElem?_cons_zero, Option.some.injEq] at h1
              subst h1; rw [hn] at h3
              simp only [Option.some.injEq] at h3
              exact absurd h3 hc
            | succ j => exact untail j ii h1 h2 h3 h4
    · rw [if_neg hp]
      constructor
      · exact tail
      · rintro ⟨j, ii, h1, h2, h3, h4⟩
        cases j with
        | zero =>
          simp only [List.getElem?_cons_zero, Option.some.injEq] at h1
          subst h1; exact absurd h2 hp
        | succ j => exact untail j ii h1 h2 h3 h4

theorem mem_incEnumCands (views : Nat → Option FileView) (fuel : Nat) (a e v : Bytes) :
    ∀ (l : List IncInfo) (k0 : Nat) (cs : List Cand), incEnumCands views fuel a e v l k0 = .ok cs →
      (∀ (j : Nat) (ii : IncInfo), l[j]? = some ii → ii.pfx = a → ∃ r, getEnum views fuel [] ii.target e = .ok r) ∧
      ∀ c, c ∈ cs ↔
        ∃ (j : Nat) (ii : IncInfo) (vals : List Bytes) (idx : Int), l[j]? = some ii ∧ ii.pfx = a ∧
          getEnum views fuel [] ii.target e = .ok (some vals, idx) ∧ v ∈ vals ∧
          c = (⟨true, ((k0 + j : Nat) : Int), v, e⟩, some (k0 + j))
  | [], k0, cs => by
    intro h
    simp only [incEnumCands, Except.ok.injEq] at h
    subst h
    simp
  | inc :: r, k0, cs => by
    intro h
    simp only [incEnumCands] at h
    have lift : ∀ (cs' : List Cand), incEnumCands views fuel a e v r (k0 + 1) = .ok cs' →
        (∀ (j : Nat) (ii : IncInfo), r[j]? = some ii → ii.pfx = a → ∃ r', getEnum views fuel [] ii.target e = .ok r') ∧
        ∀ c, c ∈ cs' ↔
          ∃ (j : Nat) (ii : IncInfo) (vals : List Bytes) (idx : Int), (inc :: r)[j + 1]? = some ii ∧ ii.pfx = a ∧
            getEnum views fuel [] ii.target e = .ok (some vals, idx) ∧ v ∈ vals ∧
            c = (⟨true, ((k0 + (j + 1) : Nat) : Int), v, e⟩, some (k0 + (j + 1))) := by
      intro cs' h'
      obtain ⟨i1, i2⟩ := mem_incEnumCands views fuel a e v r (k0 + 1) cs' h'
      refine ⟨i1, ?_⟩
      intro c
      rw [i2 c]
      constructor
      · rintro ⟨j, ii, vals, idx, h1, h2, h3, h4, h5⟩
        exact ⟨j, ii, vals, idx, by simpa using h1, h2, h3, h4, by rw [h5]; congr 2 <;> omega⟩
      · rintro ⟨j, ii, vals, idx, h1, h2, h3, h4, h5⟩
        exact ⟨j, ii, vals, idx, by simpa using h1, h2, h3, h4, by rw [h5]; congr 2 <;> omega⟩
    by_cases hp : inc.pfx = a
    · rw [if_pos hp] at h
      cases hg : getEnum views fuel [] inc.target e with
      | error err => rw [hg] at h; simp at h
      | ok res =>
        obtain ⟨en, idx⟩ := res
        rw [hg] at h
        simp only at h
        cases hr : incEnumCands views fuel a e v r (k0 + 1) with
        | error err => rw [hr] at h; simp at h
        | ok rest =>
          rw [hr] at h
          simp only at h
          obtain ⟨l1, l2⟩ := lift rest hr
          refine ⟨?_, ?_⟩
          · intro j ii h1 h2
            cases j with
            | zero =>
              simp only [List.getElem?_cons_zero, Option.some.injEq] at h1
              subst h1; exact ⟨_, hg⟩
            | succ j => exact l1 j ii (by simpa using h1) h2
          · intro c
            cases en with
            | none =>
              simp only [Except.ok.injEq] at h
              subst h
              rw [l2 c]
              constructor
              · rintro ⟨j, ii, vals, idx', q⟩; exact ⟨j + 1, ii, vals, idx', q⟩
              · rintro ⟨j, ii, vals, idx', h1, h2, h3, h4, h5⟩
                cases j with
                | zero =>
                  simp only [List.getElem?_cons_zero, Option.some.injEq] at h1
                  subst h1; rw [hg] at h3; simp at h3
                | succ j => exact ⟨j, ii, vals, idx', h1, h2, h3, h4, h5⟩
            | some vals0 =>
              simp only [Except.ok.injEq] at h
              subst h
              rw [List.mem_append, mem_enumCands, l2 c]
              constructor
              · rintro (⟨e1, e2⟩ | ⟨j, ii, vals, idx', q⟩)
                · exact ⟨0, inc, vals0, idx, rfl, hp, hg, e2, by rw [e1]; simp⟩
                · exact ⟨j + 1, ii, vals, idx', q⟩
              · rintro ⟨j, ii, vals, idx', h1, h2, h3, h4, h5⟩
                cases j with
                | zero =>
                  simp only [List.getElem?_cons_zero, Option.some.injEq] at h1
                  subst h1
                  rw [hg] at h3
                  simp only [Except.ok.injEq, Prod.mk.injEq, Option.some.injEq] at h3
                  obtain ⟨rfl, rfl⟩ := h3
                  left
                  exact ⟨by rw [h5]; simp, h4⟩
                | succ j => exact Or.inr ⟨j, ii, vals, idx', h1, h2, h3, h4, h5⟩
    · rw [if_neg hp] at h
      obtain ⟨l1, l2⟩ := lift cs h
      refine ⟨?_, ?_⟩
      · intro j ii h1 h2
        cases j with
        | zero =>
          simp only [List.getElem?_cons_zero, Option.some.injEq] at h1
          subst h1; exact absurd h2 hp
        | succ j => exact l1 j ii (by simpa using h1) h2
      · intro c
        rw [l2 c]
        constructor
        · rintro ⟨j, ii, vals, idx', q⟩; exact ⟨j + 1, ii, vals, idx', q⟩
        · rintro ⟨j, ii, vals, idx', h1, h2, h3, h4, h5⟩
          cases j with
          | zero =>
            simp only [List.getElem?_cons_zero, Option.some.injEq] at h1
            subst h1; exact absurd h2 hp
          | succ j => exact ⟨j, ii, vals, idx', h1, h2, h3, h4, h5⟩

end Sem
