import ThriftVerif.Lib.ResolveLemmas.Good
/-
  What ResolveType does at one node, against the specification.
-/
namespace Sem

structure EnvGood (p : Program) (i : Nat) (f : File) (env : Env) : Prop where
  file : p[i]? = some f
  nodup : f.names.Nodup
  n2c : ∀ n c, env.n2c n = some c ↔ Declares f n c
  incs : IncsGood p f env.incs

/-- `e` is the work-list entry of a node written `n`. -/
def EntryOf (p : Program) (f : File) (e : TdEntry) (n : Bytes) : Prop :=
  specBase n = none ∧
  ((e.ast = .cur ∧ e.name = n ∧ splitLastDot n = none ∧ Declares f n .typedef) ∨
   (∃ a k j, e.ast = .inc k ∧ splitLastDot n = some (a, e.name) ∧
      FirstInc p f Cat.isTypeLikeSpec a e.name k j .typedef))

theorem isTypeLike_funext : Cat.isTypeLike = Cat.isTypeLikeSpec := funext isTypeLike_eq_spec

theorem concrete_of_typeLike {c : Cat} (h : c.isTypeLikeSpec = true) (hc : c ≠ .typedef) :
    c.isConcrete = true := by
  unfold Cat.isTypeLikeSpec at h
  simp only [Bool.or_eq_true, decide_eq_true_eq] at h
  rcases h with h | h
  · exact h
  · exact absurd h hc

structure NodeFacts (p : Program) (i : Nat) (f : File) (s : Slot) (k : Nat) (sub : TypeExpr)
    (a : Out RNode) : Prop where
  isTd : a.val.isTypedef = true ↔ NamesTypedef p i sub
  ref : ∀ k' b, a.val.ref = some ⟨k', b⟩ ↔ QualRef p i sub k' b
  addr : ∀ e, e ∈ a.work → e.addr = (s, k)
  cat : (a.val.cat ≠ .typedef ∧ a.work = [] ∧ ∃ t, Den p i (.ty sub) t ∧ a.val.cat = t.cat) ∨
        (a.val.cat = .typedef ∧ ∃ e n, a.work = [e] ∧ sub = .name n ∧ EntryOf p f e n)
  used : ∀ u, u ∈ a.used ↔ ∃ b, a.val.ref = some ⟨u, b⟩

theorem container_facts {p : Program} {i : Nat} {f : File} {s : Slot} {k : Nat} {sub : TypeExpr}
    {c : Cat} (hsub : ∀ n, sub ≠ .name n) (hc : c ≠ .typedef)
    (hden : ∃ t, Den p i (.ty sub) t ∧ c = t.cat) :
    NodeFacts p i f s k sub ⟨plainNode c, [], []⟩ := by
  refine ⟨?_, ?_, ?_, ?_, ?_⟩
  · simp only [plainNode, Bool.false_eq_true, false_iff]
    rintro ⟨n, _, h, _⟩
    exact hsub n h
  · intro k' b
    simp only [plainNode, reduceCtorEq, false_iff]
    rintro ⟨n, _, _, _, _, h, _⟩
    exact hsub n h
  · intro e he; simp at he
  · exact Or.inl ⟨hc, rfl, hden⟩
  · intro u; simp [plainNode]

theorem nodeOut_facts {p : Program} {i : Nat} {f : File} {env : Env} (hg : EnvGood p i f env)
    {s : Slot} {k : Nat} {sub : TypeExpr} {a : Out RNode} (h : nodeOut env s k sub = .ok a) :
    NodeFacts p i f s k sub a := by
  cases sub with
  | list v =>
    simp only [nodeOut, Except.ok.injEq] at h
    subst h
    exact container_facts (by intro n; simp) (by simp) ⟨_, Den.list, rfl⟩
  | set v =>
    simp only [nodeOut, Except.ok.injEq] at h
    subst h
    exact container_facts (by intro n; simp) (by simp) ⟨_, Den.set, rfl⟩
  | map kk v =>
    simp only [nodeOut, Except.ok.injEq] at h
    subst h
    exact container_facts (by intro n; simp) (by simp) ⟨_, Den.map, rfl⟩
  | name n =>
    simp only [nodeOut, resolveName] at h
    rw [baseCat_eq_specBase] at h
    cases hb : specBase n with
    | some c =>
      rw [hb] at h
      simp only [Except.ok.injEq] at h
      subst h
      have hbase := specBase_isBase hb
      refine ⟨?_, ?_, ?_, ?_, ?_⟩
      · simp only [plainNode, Bool.false_eq_true, false_iff]
        rintro ⟨n', _, h1, h2, _⟩
        simp only [TypeExpr.name.injEq] at h1
        subst h1
        rw [hb] at h2; simp at h2
      · intro k' b
        simp only [plainNode, reduceCtorEq, false_iff]
        rintro ⟨n', _, _, _, _, h1, h2, _⟩
        simp only [TypeExpr.name.injEq] at h1
        subst h1
        rw [hb] at h2; simp at h2
      · intro e he; simp at he
      · exact Or.inl ⟨hbase.1, rfl, _, Den.base hb, rfl⟩
      · intro u; simp [plainNode]
    | none =>
      rw [hb] at h
      simp only at h
      by_cases hcn : isContainerName n = true
      · rw [if_pos hcn] at h; simp at h
      · rw [if_neg hcn] at h
        rcases splitType_cases n with h0 | ⟨a1, h1⟩ | ⟨a1, b1, h2⟩
        · rw [h0] at h; simp at h
        · -- unqualified
          rw [h1] at h
          simp only at h
          obtain ⟨hsp, rfl, _⟩ := splitType_one h1
          cases hn : env.n2c a1 with
          | none => rw [hn] at h; simp at h
          | some c =>
            rw [hn] at h
            simp only at h
            have hdecl : Declares f a1 c := (hg.n2c a1 c).mp hn
            by_cases htl : c.isTypeLike = true
            · rw [if_pos htl] at h
              by_cases hct : c = .typedef
              · rw [if_pos hct] at h
                simp only [Except.ok.injEq] at h
                subst h
                subst hct
                refine ⟨?_, ?_, ?_, ?_, ?_⟩
                · simp only [true_iff]
                  exact ⟨a1, f, rfl, hb, hg.file, Or.inl ⟨hsp, hdecl⟩⟩
                · intro k' b
                  simp only [reduceCtorEq, false_iff]
                  rintro ⟨n', f', a', j', c', h1', _, _, h4, _⟩
                  simp only [TypeExpr.name.injEq] at h1'
                  subst h1'
                  rw [hsp] at h4; simp at h4
                · intro e he
                  simp only [List.mem_cons, List.not_mem_nil, or_false] at he
                  subst he; rfl
                · exact Or.inr ⟨rfl, _, a1, rfl, rfl, hb, Or.inl ⟨rfl, rfl, hsp, hdecl⟩⟩
                · intro u; simp
              · rw [if_neg hct] at h
                simp only [Except.ok.injEq] at h
                subst h
                have hconc : c.isConcrete = true :=
                  concrete_of_typeLike (by rw [← isTypeLike_eq_spec]; exact htl) hct
                refine ⟨?_, ?_, ?_, ?_, ?_⟩
                · simp only [Bool.false_eq_true, false_iff]
                  rintro ⟨n', f', h1', _, hf', hor⟩
                  simp only [TypeExpr.name.injEq] at h1'
                  subst h1'
                  rw [hg.file] at hf'
                  simp only [Option.some.injEq] at hf'
                  subst hf'
                  rcases hor with ⟨_, hd⟩ | ⟨a', b', k', j', h4, _⟩
                  · exact hct (declares_unique hg.nodup hdecl hd)
                  · rw [hsp] at h4; simp at h4
                · intro k' b
                  simp only [reduceCtorEq, false_iff]
                  rintro ⟨n', f', a', j', c', h1', _, _, h4, _⟩
                  simp only [TypeExpr.name.injEq] at h1'
                  subst h1'
                  rw [hsp] at h4; simp at h4
                · intro e he; simp at he
                · exact Or.inl ⟨hct, rfl, _, Den.loc hb hsp (Den.concrete hg.file hdecl hconc), rfl⟩
                · intro u; simp
            · rw [if_neg htl] at h; simp at h
        · -- qualified
          rw [h2] at h
          simp only at h
          have hsp := splitType_two h2
          cases hfi : findInc Cat.isTypeLike a1 b1 env.incs 0 with
          | none => rw [hfi] at h; simp at h
          | some kc =>
            obtain ⟨k0, c⟩ := kc
            rw [hfi] at h
            simp only at h
            obtain ⟨j, hfirst⟩ := firstInc_of_findInc hg.incs hfi
            rw [isTypeLike_funext] at hfirst
            have href : ∀ (nd : RNode), nd.ref = some ⟨k0, b1⟩ →
                ∀ k' b, nd.ref = some ⟨k', b⟩ ↔ QualRef p i (.name n) k' b := by
              intro nd hnd k' b
              rw [hnd]
              simp only [Option.some.injEq, Ref.mk.injEq]
              constructor
              · rintro ⟨rfl, rfl⟩
                exact ⟨n, f, a1, j, c, rfl, hb, hg.file, hsp, hfirst⟩
              · rintro ⟨n', f', a', j', c', h1', _, hf', h4, h5⟩
                simp only [TypeExpr.name.injEq] at h1'
                subst h1'
                rw [hg.file] at hf'
                simp only [Option.some.injEq] at hf'
                subst hf'
                rw [hsp] at h4
                simp only [Option.some.injEq, Prod.mk.injEq] at h4
                obtain ⟨rfl, rfl⟩ := h4
                have := firstInc_unique hg.incs hfirst h5
                exact ⟨this.1, rfl⟩
            have hden : ∀ g, p[j]? = some g → True := fun _ _ => trivial
            by_cases hct : c = .typedef
            · rw [if_pos hct] at h
              simp only [Except.ok.injEq] at h
              subst h
              subst hct
              refine ⟨?_, href _ rfl, ?_, ?_, ?_⟩
              · simp only [true_iff]
                exact ⟨n, f, rfl, hb, hg.file, Or.inr ⟨a1, b1, k0, j, hsp, hfirst⟩⟩
              · intro e he
                simp only [List.mem_cons, List.not_mem_nil, or_false] at he
                subst he; rfl
              · exact Or.inr ⟨rfl, _, n, rfl, rfl, hb, Or.inr ⟨a1, k0, j, rfl, hsp, hfirst⟩⟩
              · intro u
                simp only [List.mem_cons, List.not_mem_nil, or_false, Option.some.injEq, Ref.mk.injEq]
                constructor
                · intro hu; exact ⟨b1, hu.symm, rfl⟩
                · rintro ⟨b, hu, _⟩; exact hu.symm
            · rw [if_neg hct] at h
              simp only [Except.ok.injEq] at h
              subst h
              obtain ⟨inc, g, q1, q2, q3, q4, q5, q6, q7⟩ := hfirst
              have hconc : c.isConcrete = true := concrete_of_typeLike q6 hct
              refine ⟨?_, href _ rfl, ?_, ?_, ?_⟩
              · simp only [Bool.false_eq_true, false_iff]
                rintro ⟨n', f', h1', _, hf', hor⟩
                simp only [TypeExpr.name.injEq] at h1'
                subst h1'
                rw [hg.file] at hf'
                simp only [Option.some.injEq] at hf'
                subst hf'
                rcases hor with ⟨h4, _⟩ | ⟨a', b', k', j', h4, h5⟩
                · rw [hsp] at h4; simp at h4
                · rw [hsp] at h4
                  simp only [Option.some.injEq, Prod.mk.injEq] at h4
                  obtain ⟨rfl, rfl⟩ := h4
                  have := firstInc_unique hg.incs ⟨inc, g, q1, q2, q3, q4, q5, q6, q7⟩ h5
                  exact hct this.2.2
              · intro e he; simp at he
              · refine Or.inl ⟨hct, rfl, _, Den.qual hb hsp hg.file ⟨inc, g, q1, q2, q3, q4, q5, q6, q7⟩
                  (Den.concrete q4 q5 hconc), rfl⟩
              · intro u
                simp only [List.mem_cons, List.not_mem_nil, or_false, Option.some.injEq, Ref.mk.injEq]
                constructor
                · intro hu; exact ⟨b1, hu.symm, rfl⟩
                · rintro ⟨b, hu, _⟩; exact hu.symm

end Sem
