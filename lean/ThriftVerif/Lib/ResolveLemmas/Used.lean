import ThriftVerif.Lib.ResolveLemmas.Const
/-
  `Include.Used` is set exactly for the includes something in the file is bound through.
-/
namespace Sem

theorem usedFlags_get (n : Nat) (marks : List Nat) (k : Nat) :
    (usedFlags n marks)[k]? = if k < n then some (decide (k ∈ marks)) else none := by
  unfold usedFlags
  rw [List.getElem?_map]
  by_cases h : k < n
  · simp [h]
  · simp [h]

theorem usedFlags_length (n : Nat) (marks : List Nat) : (usedFlags n marks).length = n := by
  simp [usedFlags]

theorem resolveBaseService_used {env : Env} {ext : Bytes} {o : Out (Option Ref)}
    (h : resolveBaseService env ext = .ok o) : ∀ u, u ∈ o.used ↔ ∃ b, o.val = some ⟨u, b⟩ := by
  intro u
  unfold resolveBaseService at h
  split at h
  · split at h
    · split at h
      · simp only [Except.ok.injEq] at h; rw [← h]; simp
      · simp at h
    · simp at h
  · split at h
    · next k c _ =>
      simp only [Except.ok.injEq] at h; rw [← h]
      simp only [List.mem_cons, List.not_mem_nil, or_false, Option.some.injEq, Ref.mk.injEq]
      constructor
      · intro e; exact ⟨_, e.symm, rfl⟩
      · rintro ⟨b, e, _⟩; exact e.symm
    · simp at h
  · simp only [Except.ok.injEq] at h; rw [← h]; simp

theorem patchNode_ref (st : Store) (a : Addr) (n : RNode) : (patchNode st a n).ref = n.ref := by
  unfold patchNode; split <;> rfl

theorem resolveAST_used {p : Program} {views : Nat → Option FileView} {gfuel i : Nat} {f : File} {rf : RFile}
    (hf : p[i]? = some f) (hv : ViewsGood p views) (h : resolveAST views gfuel i f = .ok rf) :
    rf.used.length = f.includes.length ∧
    ∀ k, k < f.includes.length → (rf.used[k]? = some true ↔ RefersTo f rf k) := by
  obtain ⟨P⟩ := resolveAST_phases h
  obtain ⟨incs, n2cL, tds, all, st, hincs0, hn2c0, htds, hall, _, hst, hrf⟩ := P
  obtain ⟨hnd, hn2c⟩ := registerNames_ok hn2c0
  have hincs := mkIncs_good hv f.includes incs hincs0
  have hg : EnvGood p i f (mkEnv n2cL incs) := by
    refine ⟨hf, hnd, hn2c, hincs.1, ?_⟩
    intro k inc hk
    obtain ⟨ii, g, q1, q2, q3, q4, q5, q6, _⟩ := hincs.2 k inc hk
    exact ⟨ii, g, q1, q2, q3, q4, q5, q6⟩
  generalize hce : mkCE views gfuel i (mkEnv n2cL incs) (mkCur (mkEnv n2cL incs) tds.val.types f) = ce
    at hall htds
  have hceenv : ce.env = mkEnv n2cL incs := by rw [← hce]; rfl
  have hcur : ce.views ce.self = some (mkCur (mkEnv n2cL incs) tds.val.types f) := by
    rw [← hce]; simp [mkCE]
  rw [← hceenv] at hg
  -- the nodes stored for a slot, node by node
  have slot_final : ∀ {s te}, SlotType f s te →
      ∃ as, IdxAll (nodeOut ce.env s) 0 te.nodes as ∧
        rf.nodesAt s = some (patchNodes st s 0 (as.map (·.val))) ∧
        (∀ a, a ∈ as → ∀ u, u ∈ a.used → u ∈ all.used) := by
    intro s te hs
    obtain ⟨as, hidx, hlook, _, hused⟩ := slot_nodes hnd hall hs
    refine ⟨as, hidx, ?_, hused⟩
    rw [hrf]
    simp only [RFile.nodesAt]
    rw [lookupSlot_patch, hlook]
    rfl
  refine ⟨by rw [hrf]; exact usedFlags_length _ _, ?_⟩
  intro k hk
  have hflag : rf.used[k]? = some true ↔ k ∈ all.used := by
    rw [hrf]
    simp only
    rw [usedFlags_get, if_pos hk]
    simp
  rw [hflag]
  constructor
  · intro hm
    rcases hall.used_from k hm with ⟨s, te, r, h1, h2, h3⟩ | ⟨s, v, b, h1, h2, h3⟩ | ⟨n, ext, bo, h1, h2, h3⟩
    · -- a type node
      have hs := (mem_events_ty f s te).mp h1
      obtain ⟨as, hidx, hnodes, _⟩ := slot_final hs
      obtain ⟨as', hidx', hr⟩ := resolveType_ok h2
      rw [hr] at h3
      obtain ⟨a, ham, hua⟩ := mem_combine_used.mp h3
      obtain ⟨j, hj⟩ := List.mem_iff_getElem?.mp ham
      obtain ⟨sub, hsub, hout⟩ := hidx'.get' j a hj
      rw [Nat.zero_add] at hout
      obtain ⟨b, hb⟩ := ((nodeOut_facts hg hout).used k).mp hua
      obtain ⟨a2, ha2, hout2⟩ := hidx.get j sub hsub
      rw [Nat.zero_add, hout] at hout2
      simp only [Except.ok.injEq] at hout2
      subst hout2
      refine Or.inl ⟨s, te, _, j, patchNode st (s, 0 + j) a.val, b, hs, hnodes, ?_, ?_⟩
      · rw [patchNodes_get, List.getElem?_map, ha2]; rfl
      · rw [patchNode_ref]; exact hb
    · -- an identifier value
      have hs := (mem_events_cv f s v).mp h1
      obtain ⟨b', q1, q2, _⟩ := hall.bind_at (events_cv_nodup f hnd) s v h1
      rw [h2] at q1
      simp only [Except.ok.injEq] at q1
      subst q1
      obtain ⟨as, hidx, hb⟩ := resolveConst_ok v b h2
      rw [hb] at h3
      obtain ⟨a, ham, hua⟩ := mem_combine_used.mp h3
      obtain ⟨j, hj⟩ := List.mem_iff_getElem?.mp ham
      obtain ⟨id, _, hout⟩ := hidx.get' j a hj
      rcases resolveIdent_spec hout with ⟨_, e⟩ | ⟨_, c, hc, e⟩
      · rw [e] at hua; simp at hua
      · rw [e] at hua
        simp only [candMarks, List.filterMap_cons, List.filterMap_nil] at hua
        have hcok := allCands_ok ce _ _ hc c (List.mem_cons_self ..)
        cases hm2 : c.2 with
        | none => rw [hm2] at hua; simp at hua
        | some k' =>
          rw [hm2] at hua
          simp only [List.mem_cons, List.not_mem_nil, or_false] at hua
          subst hua
          rcases hcok with ⟨k'', e1, e2⟩ | ⟨e1, _⟩
          · rw [hm2] at e1
            simp only [Option.some.injEq] at e1
            subst e1
            refine Or.inr (Or.inl ⟨s, v, b.val, c.1, hs, ?_, ?_, e2⟩)
            · rw [hrf]; exact q2
            · rw [hb]
              simp only [combine, List.mem_map]
              exact ⟨a, ham, by rw [e]⟩
          · rw [hm2] at e1; cases e1
    · -- a base service
      obtain ⟨sv, hsv, rfl, rfl⟩ := (mem_events_svc f n ext).mp h1
      obtain ⟨b', q1, q2, _⟩ := hall.svc_at (events_svc_nodup f hnd) _ _ h1
      rw [h2] at q1
      simp only [Except.ok.injEq] at q1
      subst q1
      obtain ⟨b, hb⟩ := (resolveBaseService_used h2 k).mp h3
      refine Or.inr (Or.inr ⟨sv, b, hsv, ?_⟩)
      rw [hrf]
      simp only [RFile.svcRef]
      rw [q2, hb]
  · rintro (⟨s, te, ns, j, nd, b, hs, hns, hj, hb⟩ | ⟨s, cv, bs, x, hs, hbs, hx, hxi⟩ | ⟨sv, b, hsv, hb⟩)
    · obtain ⟨as, hidx, hnodes, hused⟩ := slot_final hs
      rw [hnodes] at hns
      simp only [Option.some.injEq] at hns
      subst hns
      rw [patchNodes_get, List.getElem?_map] at hj
      cases haj : as[j]? with
      | none => rw [haj] at hj; simp at hj
      | some a =>
        rw [haj] at hj
        simp only [Option.map_some, Option.some.injEq] at hj
        subst hj
        rw [patchNode_ref] at hb
        obtain ⟨sub, hsub, hout⟩ := hidx.get' j a haj
        rw [Nat.zero_add] at hout
        have := ((nodeOut_facts hg hout).used k).mpr ⟨b, hb⟩
        exact hused a (List.mem_iff_getElem?.mpr ⟨j, haj⟩) k this
    · obtain ⟨b, q1, q2, q3⟩ := hall.bind_at (events_cv_nodup f hnd) s cv ((mem_events_cv f s cv).mpr hs)
      rw [hrf] at hbs
      simp only [RFile.bindsAt] at hbs
      rw [q2] at hbs
      simp only [Option.some.injEq] at hbs
      subst hbs
      obtain ⟨as, hidx, hb⟩ := resolveConst_ok cv b q1
      rw [hb] at hx
      simp only [combine, List.mem_map] at hx
      obtain ⟨a, ham, hax⟩ := hx
      obtain ⟨j, hj⟩ := List.mem_iff_getElem?.mp ham
      obtain ⟨id, _, hout⟩ := hidx.get' j a hj
      rcases resolveIdent_spec hout with ⟨_, e⟩ | ⟨_, c, hc, e⟩
      · rw [e] at hax; simp at hax
      · rw [e] at hax
        simp only [Option.some.injEq] at hax
        have hcok := allCands_ok ce _ _ hc c (List.mem_cons_self ..)
        rcases hcok with ⟨k', e1, e2⟩ | ⟨e1, e2 | ⟨a', vals, hge⟩⟩
        · -- marked directly
          rw [hax, hxi] at e2
          have : k = k' := by exact_mod_cast e2
          subst this
          apply q3
          rw [hb]
          apply mem_combine_used.mpr
          refine ⟨a, ham, ?_⟩
          rw [e]
          simp [candMarks, e1]
        · rw [hax, hxi] at e2
          exact absurd e2 (by omega)
        · -- through a typedef of this file whose type is qualified: that type node marked it
          rw [hax, hxi] at hge
          rcases getEnum_idx ce.views ce.fuel [] ce.self a' vals (k : Int) hge with h1 | ⟨v, a'', root, r, g1, g2, g3, g4⟩
          · exact absurd h1 (by omega)
          · rw [hcur] at g1
            simp only [Option.some.injEq] at g1
            subst g1
            simp only [mkCur, mkView] at g2
            obtain ⟨td, a0, t1, t2, t3, t4⟩ := tdRootOf_spec hnd htds (typedef_events_nodup f hnd)
              (fun td htd => List.mem_map.mpr ⟨td, htd, rfl⟩) g2
            have hs' : SlotType f (.typedef a'') td.type := by
              have := SlotType.typedef (f := f) t1
              rw [t2] at this
              exact this
            obtain ⟨as', hidx', _, hused'⟩ := slot_final hs'
            obtain ⟨a0', h0, hout0⟩ := hidx'.get 0 td.type (nodes_head _)
            rw [Nat.zero_add, t3] at hout0
            simp only [Except.ok.injEq] at hout0
            subst hout0
            have hr : a0.val.ref = some r := by rw [t4] at g3; exact g3
            have hk : r.index = k := by exact_mod_cast g4.symm
            have := ((nodeOut_facts hg t3).used r.index).mpr ⟨r.name, hr⟩
            rw [hk] at this
            exact hused' a0 (List.mem_iff_getElem?.mpr ⟨0, h0⟩) k this
    · obtain ⟨bo, q1, q2, q3⟩ := hall.svc_at (events_svc_nodup f hnd) sv.name sv.extends
        ((mem_events_svc f _ _).mpr ⟨sv, hsv, rfl, rfl⟩)
      rw [hrf] at hb
      simp only [RFile.svcRef] at hb
      rw [q2] at hb
      simp only [Option.some.injEq] at hb
      exact q3 k ((resolveBaseService_used q1 k).mpr ⟨b, hb⟩)

end Sem
