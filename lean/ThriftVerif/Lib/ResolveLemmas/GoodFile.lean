import ThriftVerif.Lib.ResolveLemmas.NodeFacts
/-
  ResolveAST establishes `Good` for the file it resolves, given `Good` for the ASTs it reads.
-/
namespace Sem

theorem patchNodes_length (st : Store) (s : Slot) : ∀ (ns : List RNode) (off : Nat),
    (patchNodes st s off ns).length = ns.length
  | [], _ => rfl
  | n :: r, off => by simp [patchNodes, patchNodes_length st s r (off + 1)]

def patchNode (st : Store) (a : Addr) (n : RNode) : RNode :=
  match st.get a with
  | some c => { n with cat := c }
  | none => n

theorem patchNodes_get (st : Store) (s : Slot) : ∀ (ns : List RNode) (off k : Nat),
    (patchNodes st s off ns)[k]? = (ns[k]?).map (patchNode st (s, off + k))
  | [], _, _ => by simp [patchNodes]
  | n :: r, off, 0 => by
    simp only [patchNodes, List.getElem?_cons_zero, Option.map_some, Nat.add_zero]
    rfl
  | n :: r, off, k + 1 => by
    simp only [patchNodes, List.getElem?_cons_succ]
    rw [patchNodes_get st s r (off + 1) k]
    congr 2
    simp only [Prod.mk.injEq, true_and]
    omega

theorem ty_event_unique {s : Slot} {te te' : TypeExpr} : ∀ (evs : List Ev), (tySlots evs).Nodup →
    Ev.ty s te ∈ evs → Ev.ty s te' ∈ evs → te = te'
  | [], _, h, _ => by simp at h
  | .ty s0 t0 :: r, hnd, h, h' => by
    simp only [tySlots, List.nodup_cons] at hnd
    rcases List.mem_cons.mp h with e | h <;> rcases List.mem_cons.mp h' with e' | h'
    · simp only [Ev.ty.injEq] at e e'
      rw [e.2, e'.2]
    · simp only [Ev.ty.injEq] at e
      exact absurd (mem_tySlots.mpr ⟨te', by rw [← e.1]; exact h'⟩) hnd.1
    · simp only [Ev.ty.injEq] at e'
      exact absurd (mem_tySlots.mpr ⟨te, by rw [← e'.1]; exact h⟩) hnd.1
    · exact ty_event_unique r hnd.2 h h'
  | .cv s0 t0 :: r, hnd, h, h' => by
    simp only [tySlots] at hnd
    rcases List.mem_cons.mp h with e | h
    · simp at e
    rcases List.mem_cons.mp h' with e' | h'
    · simp at e'
    exact ty_event_unique r hnd h h'
  | .svc s0 t0 :: r, hnd, h, h' => by
    simp only [tySlots] at hnd
    rcases List.mem_cons.mp h with e | h
    · simp at e
    rcases List.mem_cons.mp h' with e' | h'
    · simp at e'
    exact ty_event_unique r hnd h h'

theorem slot_fun {f : File} (hnd : f.names.Nodup) {s : Slot} {te te' : TypeExpr}
    (h : SlotType f s te) (h' : SlotType f s te') : te = te' :=
  ty_event_unique f.events (events_ty_nodup f hnd) ((mem_events_ty f s te).mpr h) ((mem_events_ty f s te').mpr h')

/-- The nodes stored for a slot are the per-node outputs in order. -/
theorem slot_nodes {ce : CEnv} {f : File} (hnd : f.names.Nodup) {all : Out DefOut}
    (hall : Trace ce f.events all) {s : Slot} {te : TypeExpr} (hs : SlotType f s te) :
    ∃ as, IdxAll (nodeOut ce.env s) 0 te.nodes as ∧ lookupSlot s all.val.types = some (as.map (·.val)) ∧
      (∀ a, a ∈ as → ∀ e, e ∈ a.work → e ∈ all.work) ∧ (∀ a, a ∈ as → ∀ u, u ∈ a.used → u ∈ all.used) := by
  obtain ⟨r, h1, h2, h3, h4⟩ := hall.type_at (events_ty_nodup f hnd) s te ((mem_events_ty f s te).mpr hs)
  obtain ⟨as, ha, hr⟩ := resolveType_ok h1
  refine ⟨as, ha, ?_, ?_, ?_⟩
  · rw [h2, hr]; rfl
  · intro a hm e he
    exact h3 e (by rw [hr]; exact mem_combine_work.mpr ⟨a, hm, he⟩)
  · intro a hm u hu
    exact h4 u (by rw [hr]; exact mem_combine_used.mpr ⟨a, hm, hu⟩)

/-- Every queued entry is the entry of some node of some slot. -/
theorem entry_node {ce : CEnv} {f : File} {all : Out DefOut} (hall : Trace ce f.events all)
    {e : TdEntry} (he : e ∈ all.work) :
    ∃ s te k sub a, SlotType f s te ∧ te.nodes[k]? = some sub ∧ nodeOut ce.env s k sub = .ok a ∧ e ∈ a.work := by
  obtain ⟨s, te, r, h1, h2, h3⟩ := hall.work_from e he
  obtain ⟨as, ha, hr⟩ := resolveType_ok h2
  rw [hr] at h3
  obtain ⟨a, hm, hea⟩ := mem_combine_work.mp h3
  obtain ⟨k, hk⟩ := List.mem_iff_getElem?.mp hm
  obtain ⟨sub, hsub, hout⟩ := ha.get' k a hk
  rw [Nat.zero_add] at hout
  exact ⟨s, te, k, sub, a, (mem_events_ty f s te).mp h1, hsub, hout, hea⟩

theorem declares_typedef {f : File} {n : Bytes} (h : Declares f n .typedef) :
    ∃ td, td ∈ f.typedefs ∧ td.alias = n := by
  generalize hc : Cat.typedef = c at h
  cases h with
  | typedef h => exact ⟨_, h, rfl⟩
  | constant h => cases hc
  | enum h => cases hc
  | @structLike s h => cases hk : s.kind <;> rw [hk] at hc <;> cases hc
  | service h => cases hc

theorem findTypedef_some {a : Bytes} : ∀ {l : List Typedef} {td : Typedef},
    findTypedef a l = some td → td ∈ l ∧ td.alias = a
  | [], td, h => by simp [findTypedef] at h
  | t :: r, td, h => by
    simp only [findTypedef] at h
    by_cases ht : t.alias = a
    · rw [if_pos ht] at h
      simp only [Option.some.injEq] at h
      subst h
      exact ⟨List.mem_cons_self .., ht⟩
    · rw [if_neg ht] at h
      obtain ⟨h1, h2⟩ := findTypedef_some h
      exact ⟨List.mem_cons_of_mem _ h1, h2⟩

theorem findTypedef_of_mem {a : Bytes} : ∀ {l : List Typedef} {td : Typedef},
    td ∈ l → td.alias = a → ∃ td', findTypedef a l = some td'
  | [], td, h, _ => by simp at h
  | t :: r, td, h, ha => by
    simp only [findTypedef]
    by_cases ht : t.alias = a
    · rw [if_pos ht]; exact ⟨t, rfl⟩
    · rw [if_neg ht]
      rcases List.mem_cons.mp h with e | h
      · subst e; exact absurd ha ht
      · exact findTypedef_of_mem h ha

/-- What a view says about typedef `a` of a file whose typedef types have been resolved. -/
theorem tdRootOf_spec {ce : CEnv} {f : File} (hnd : f.names.Nodup) {o : Out DefOut}
    {evs : List Ev} (ht : Trace ce evs o) (hevn : (tySlots evs).Nodup)
    (hmem : ∀ td, td ∈ f.typedefs → Ev.ty (.typedef td.alias) td.type ∈ evs)
    {a : Bytes} {root : TdRoot} (h : tdRootOf f o.val.types a = some root) :
    ∃ td a0, td ∈ f.typedefs ∧ td.alias = a ∧ nodeOut ce.env (.typedef a) 0 td.type = .ok a0 ∧
      root = ⟨td.type.rootName, a0.val.cat, a0.val.isTypedef, a0.val.ref⟩ := by
  unfold tdRootOf at h
  cases hft : findTypedef a f.typedefs with
  | none => rw [hft] at h; simp at h
  | some td =>
    rw [hft] at h
    simp only at h
    obtain ⟨hm, hal⟩ := findTypedef_some hft
    obtain ⟨r, h1, h2, _, _⟩ := ht.type_at hevn (.typedef td.alias) td.type (hmem td hm)
    obtain ⟨as, ha, hr⟩ := resolveType_ok h1
    obtain ⟨a0, hg0, hout⟩ := ha.get 0 td.type (nodes_head td.type)
    rw [hal] at h2 hout
    rw [h2, hr] at h
    have : ((some (combine as).val).bind List.head?) = some a0.val := by
      simp only [Option.bind_some, combine]
      cases as with
      | nil => simp at hg0
      | cons x r =>
        simp only [List.getElem?_cons_zero, Option.some.injEq] at hg0
        subst hg0
        rfl
    rw [this] at h
    simp only [Option.some.injEq] at h
    exact ⟨td, a0, hm, hal, hout, h.symm⟩

theorem typedef_events_nodup (f : File) (hnd : f.names.Nodup) :
    (tySlots (f.typedefs.map (fun td => Ev.ty (.typedef td.alias) td.type))).Nodup := by
  have h := events_ty_nodup f hnd
  unfold File.events at h
  rw [tySlots_append, tySlots_append, tySlots_append] at h
  exact (List.nodup_append.mp (List.nodup_append.mp (List.nodup_append.mp h).1).1).1

theorem resolveAST_good {p : Program} {views : Nat → Option FileView} {gfuel i : Nat} {f : File} {rf : RFile}
    (hf : p[i]? = some f) (hv : ViewsGood p views) (h : resolveAST views gfuel i f = .ok rf) :
    Good p i f rf := by
  obtain ⟨P⟩ := resolveAST_phases h
  obtain ⟨incs, n2cL, tds, all, st, hincs0, hn2c0, htds, hall, _, hst, hrf⟩ := P
  obtain ⟨hnd, hn2c⟩ := registerNames_ok hn2c0
  have hincs := mkIncs_good hv f.includes incs hincs0
  have hg : EnvGood p i f (mkEnv n2cL incs) := by
    refine ⟨hf, hnd, hn2c, hincs.1, ?_⟩
    intro k inc hk
    obtain ⟨ii, g, q1, q2, q3, q4, q5, q6, _⟩ := hincs.2 k inc hk
    exact ⟨ii, g, q1, q2, q3, q4, q5, q6⟩
  generalize hce : mkCE views gfuel i (mkEnv n2cL incs) (mkCur (mkEnv n2cL incs) tds.val.types f) = ce
    at hall htds
  have hceenv : ce.env = mkEnv n2cL incs := by rw [← hce]; rfl
  rw [← hceenv] at hg
  have hloop := resolveTypedefs_spec (mkLE views incs (mkCur (mkEnv n2cL incs) tds.val.types f)) all.work
  rw [hst] at hloop
  simp only at hloop
  generalize hle : mkLE views incs (mkCur (mkEnv n2cL incs) tds.val.types f) = le at hloop
  -- an entry whose address is a node's address is that node's entry
  have entry_at : ∀ {e s te k sub a}, e ∈ all.work → e.addr = (s, k) → SlotType f s te →
      te.nodes[k]? = some sub → nodeOut ce.env s k sub = .ok a → e ∈ a.work := by
    intro e s te k sub a he hadr hs hsub hout
    obtain ⟨s', te', k', sub', a', hs', hsub', hout', hea'⟩ := entry_node hall he
    have hadr' := (nodeOut_facts hg hout').addr e hea'
    rw [hadr] at hadr'
    simp only [Prod.mk.injEq] at hadr'
    obtain ⟨rfl, rfl⟩ := hadr'
    have := slot_fun hnd hs hs'
    subst this
    rw [hsub] at hsub'
    simp only [Option.some.injEq] at hsub'
    subst hsub'
    rw [hout] at hout'
    simp only [Except.ok.injEq] at hout'
    subst hout'
    exact hea'
  -- the local typedef roots as the loop reads them
  have local_root : ∀ {a c}, le.localRoot a = some c →
      ∃ td a0, td ∈ f.typedefs ∧ td.alias = a ∧ nodeOut ce.env (.typedef a) 0 td.type = .ok a0 ∧ c = a0.val.cat := by
    intro a c hlr
    rw [← hle] at hlr
    simp only [mkLE, mkCur, mkView] at hlr
    cases hroot : tdRootOf f tds.val.types a with
    | none => rw [hroot] at hlr; simp at hlr
    | some root =>
      rw [hroot] at hlr
      simp only [Option.map_some, Option.some.injEq] at hlr
      obtain ⟨td, a0, h1, h2, h3, h4⟩ := tdRootOf_spec hnd htds (typedef_events_nodup f hnd)
        (fun td htd => List.mem_map.mpr ⟨td, htd, rfl⟩) hroot
      exact ⟨td, a0, h1, h2, h3, by rw [← hlr, h4]⟩
  -- Settles, read against the specification
  have settles_den : ∀ e c, Settles le all.work e c → ∀ n, EntryOf p f e n →
      ∃ t, Den p i (.ty (.name n)) t ∧ t.cat = c := by
    intro e c hs
    induction hs with
    | @inc e k c he ha hr hc =>
      intro n ⟨hb, hor⟩
      rcases hor with ⟨hcur, _⟩ | ⟨a, k', j, hinc, hsp, hfirst⟩
      · rw [ha] at hcur; cases hcur
      · rw [ha] at hinc
        simp only [AstRef.inc.injEq] at hinc
        subst hinc
        rw [← hle] at hr
        simp only [mkLE] at hr
        obtain ⟨inc, g, q1, q2, q3, q4, q5, q6, q7⟩ := hfirst
        subst q2
        obtain ⟨ii, g', r1, r2, r3, r4, r5, r6, v, r7, r8⟩ := hincs.2 k inc q1
        rw [r1] at hr
        simp only at hr
        rw [r3, r7] at hr
        simp only at hr
        obtain ⟨g2, rf2, s1, s2, s3⟩ := hv _ _ r7
        rw [q4] at s1
        simp only [Option.some.injEq] at s1
        subst s1
        rw [s2] at hr
        simp only [RFile.view, mkView] at hr
        cases hroot : tdRootOf g rf2.types e.name with
        | none => rw [hroot] at hr; simp at hr
        | some root =>
          rw [hroot] at hr
          simp only [Option.map_some, Option.some.injEq] at hr
          unfold tdRootOf at hroot
          cases hft : findTypedef e.name g.typedefs with
          | none => rw [hft] at hroot; simp at hroot
          | some td =>
            rw [hft] at hroot
            simp only at hroot
            obtain ⟨hm, hal⟩ := findTypedef_some hft
            obtain ⟨ns, hns, hlen, hgood⟩ := s3.nodes (.typedef td.alias) td.type (.typedef hm)
            rw [hal] at hns
            unfold RFile.nodesAt at hns
            rw [hns] at hroot
            have hpos := nodes_pos td.type
            cases ns with
            | nil => simp at hlen; omega
            | cons nd0 rest =>
              simp only [Option.bind_some, List.head?_cons, Option.some.injEq] at hroot
              obtain ⟨⟨t, hden, hcat⟩, _, _⟩ := hgood 0 td.type nd0 (nodes_head _) rfl
              refine ⟨t, Den.qual hb hsp hf ⟨inc, g, q1, rfl, q3, q4, q5, q6, q7⟩ ?_, ?_⟩
              · have := Den.typedef q4 hm hden
                rw [hal] at this
                exact this
              · rw [← hcat, ← hr, ← hroot]
    | @curStatic e c he ha hl hc =>
      intro n ⟨hb, hor⟩
      rcases hor with ⟨_, hname, hsp, hdecl⟩ | ⟨a, k', j, hinc, _⟩
      · obtain ⟨td, a0, h1, h2, h3, h4⟩ := local_root hl
        have facts := nodeOut_facts hg h3
        rcases facts.cat with ⟨_, _, t, hden, hcat⟩ | ⟨hcat, _⟩
        · refine ⟨t, Den.loc hb hsp ?_, by rw [← hcat, h4]⟩
          have := Den.typedef hf h1 hden
          rw [h2, hname] at this
          exact this
        · rw [← h4] at hcat; exact absurd hcat hc
      · rw [ha] at hinc; cases hinc
    | @curStep e e' c0 c he ha hl he' hadr _ ih =>
      intro n ⟨hb, hor⟩
      rcases hor with ⟨_, hname, hsp, hdecl⟩ | ⟨a, k', j, hinc, _⟩
      · obtain ⟨td, a0, h1, h2, h3, _⟩ := local_root hl
        have hs : SlotType f (.typedef e.name) td.type := by
          have := SlotType.typedef (f := f) h1
          rw [h2] at this
          exact this
        have hea := entry_at he' hadr hs (nodes_head _) h3
        have facts := nodeOut_facts hg h3
        rcases facts.cat with ⟨_, hw, _⟩ | ⟨_, e'', n', hw, hsubn, hentry⟩
        · rw [hw] at hea; simp at hea
        · rw [hw] at hea
          simp only [List.mem_cons, List.not_mem_nil, or_false] at hea
          subst hea
          obtain ⟨t, hden, hcat⟩ := ih n' hentry
          refine ⟨t, Den.loc hb hsp ?_, hcat⟩
          rw [← hsubn] at hden
          have := Den.typedef hf h1 hden
          rw [h2, hname] at this
          exact this
      · rw [ha] at hinc; cases hinc
  -- assemble
  refine ⟨hnd, by rw [hrf]; exact hn2c, ?_⟩
  intro s te hs
  obtain ⟨as, hidx, hlook, hwork, _⟩ := slot_nodes hnd hall hs
  refine ⟨patchNodes st s 0 (as.map (·.val)), ?_, ?_, ?_⟩
  · rw [hrf]
    simp only [RFile.nodesAt]
    rw [lookupSlot_patch, hlook]
    rfl
  · rw [patchNodes_length, List.length_map, hidx.length]
  · intro k sub nd hsub hnd'
    obtain ⟨a, hak, hout⟩ := hidx.get k sub hsub
    rw [Nat.zero_add] at hout
    rw [patchNodes_get, List.getElem?_map, hak] at hnd'
    simp only [Option.map_some, Nat.zero_add, Option.some.injEq] at hnd'
    have ham : a ∈ as := List.mem_iff_getElem?.mpr ⟨k, hak⟩
    have facts := nodeOut_facts hg hout
    rcases facts.cat with ⟨hcat, hw, t, hden, hc⟩ | ⟨hcat, e, n, hw, hsubn, hentry⟩
    · have hnone : st.get (s, k) = none := by
        cases hget : st.get (s, k) with
        | none => rfl
        | some c =>
          exfalso
          obtain ⟨_, e, he, hadr, _⟩ := hloop.sound _ _ hget
          have := entry_at he hadr hs hsub hout
          rw [hw] at this
          simp at this
      have : nd = a.val := by rw [← hnd']; unfold patchNode; rw [hnone]
      rw [this]
      exact ⟨⟨t, hden, hc⟩, facts.isTd, facts.ref⟩
    · have he : e ∈ all.work := hwork a ham e (by rw [hw]; exact List.mem_cons_self ..)
      have hadr : e.addr = (s, k) := facts.addr e (by rw [hw]; exact List.mem_cons_self ..)
      have hdone := hloop.done e he
      simp only [List.not_mem_nil, false_or] at hdone
      rw [hadr] at hdone
      cases hget : st.get (s, k) with
      | none => rw [hget] at hdone; simp at hdone
      | some c =>
        obtain ⟨_, e', he', hadr', hset⟩ := hloop.sound _ _ hget
        have hee := entry_at he' hadr' hs hsub hout
        rw [hw] at hee
        simp only [List.mem_cons, List.not_mem_nil, or_false] at hee
        subst hee
        obtain ⟨t, hden, htc⟩ := settles_den e' c hset n hentry
        have : nd = { a.val with cat := c } := by rw [← hnd']; unfold patchNode; rw [hget]
        rw [this]
        refine ⟨⟨t, by rw [hsubn]; exact hden, htc.symm⟩, facts.isTd, facts.ref⟩

end Sem
