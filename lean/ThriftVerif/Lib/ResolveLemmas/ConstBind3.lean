import ThriftVerif.Lib.ResolveLemmas.ConstBind2
/-
  Per-file statement of resolve_const_binding.
-/
namespace Sem

theorem viewSpec_finished {p : Program} {V : Nat → Option FileView} {j : Nat} {g : File} {rf : RFile}
    (hg : p[j]? = some g) (hgood : Good p j g rf)
    (hcl : ∀ (inc : Include), inc ∈ g.includes → ∃ v', V inc.target = some v') :
    ViewSpec p V j (rf.view g) := by
  refine ⟨g, hg, hgood.nodup, ?_, ?_, ?_, ?_, rfl, hcl⟩
  · intro n c
    simp only [RFile.view, mkView]
    exact hgood.n2c n c
  · intro n; rfl
  · intro b root hroot
    obtain ⟨td, nd0, h1, h2, h3, h4⟩ := view_typedef hgood hroot
    refine ⟨td, h1, h2, by rw [h4], ?_, ?_⟩
    · intro k b'; rw [h4]; exact h3.2.2 k b'
    · obtain ⟨t, ht, _⟩ := h3.1; exact ⟨t, ht⟩
  · intro td htd
    exact view_typedef_exists htd

theorem resolveAST_binds {p : Program} {views : Nat → Option FileView} {gfuel i : Nat} {f : File} {rf : RFile}
    (hf : p[i]? = some f) (hv : ViewsGood p views) (hc : ViewsClosed p views)
    (h : resolveAST views gfuel i f = .ok rf) (hgood : Good p i f rf)
    {s : Slot} {cv : ConstVal} (hs : SlotConst f s cv) :
    ∃ bs, rf.bindsAt s = some bs ∧ bs.length = cv.idents.length ∧
      ∀ (k : Nat) id b, cv.idents[k]? = some id → bs[k]? = some b →
        ((id = kwTrue ∨ id = kwFalse) ∧ b = none) ∨
        (¬ (id = kwTrue ∨ id = kwFalse) ∧ ∃ x, b = some x ∧ ConstCand p i id x ∧
          ∀ y, ConstCand p i id y → y = x) := by
  obtain ⟨P⟩ := resolveAST_phases h
  obtain ⟨incs, n2cL, tds, all, st, hincs0, hn2c0, htds, hall, _, hst, hrf⟩ := P
  obtain ⟨hnd, hn2c⟩ := registerNames_ok hn2c0
  have hincs := mkIncs_good hv f.includes incs hincs0
  have hg : EnvGood p i f (mkEnv n2cL incs) := by
    refine ⟨hf, hnd, hn2c, hincs.1, ?_⟩
    intro k inc hk
    obtain ⟨ii, g, q1, q2, q3, q4, q5, q6, _⟩ := hincs.2 k inc hk
    exact ⟨ii, g, q1, q2, q3, q4, q5, q6⟩
  have hincl := mkIncs_views f.includes incs hincs0
  generalize hce : mkCE views gfuel i (mkEnv n2cL incs) (mkCur (mkEnv n2cL incs) tds.val.types f) = ce
    at hall htds
  have hceenv : ce.env = mkEnv n2cL incs := by rw [← hce]; rfl
  have hviews : ∀ j, ce.views j = if j = i then some (mkCur (mkEnv n2cL incs) tds.val.types f) else views j := by
    intro j; rw [← hce]; rfl
  rw [← hceenv] at hg
  have hsome : ∀ (inc : Include), (∃ v', views inc.target = some v') → ∃ v', ce.views inc.target = some v' := by
    intro inc ⟨v', hv'⟩
    rw [hviews]
    by_cases hji : inc.target = i
    · rw [if_pos hji]; exact ⟨_, rfl⟩
    · rw [if_neg hji]; exact ⟨v', hv'⟩
  have hall_views : AllViews p ce.views := by
    intro j v hvj
    rw [hviews] at hvj
    by_cases hji : j = i
    · subst hji
      rw [if_pos rfl] at hvj
      simp only [Option.some.injEq] at hvj
      subst hvj
      refine ⟨f, hf, hnd, ?_, ?_, ?_, ?_, rfl, ?_⟩
      · intro n c
        simp only [mkCur, mkView]
        rw [← hceenv]
        exact hg.n2c n c
      · intro n; rfl
      · intro b root hroot
        simp only [mkCur, mkView] at hroot
        obtain ⟨td, a0, t1, t2, t3, t4⟩ := tdRootOf_spec hnd htds (typedef_events_nodup f hnd)
          (fun td htd => List.mem_map.mpr ⟨td, htd, rfl⟩) hroot
        refine ⟨td, t1, t2, by rw [t4], ?_, ?_⟩
        · intro k b'
          rw [t4]
          exact (nodeOut_facts hg t3).ref k b'
        · obtain ⟨ns, _, hlen, hgn⟩ := hgood.nodes (.typedef td.alias) td.type (.typedef t1)
          have hpos := nodes_pos td.type
          cases ns with
          | nil => simp at hlen; omega
          | cons nd0 rest =>
            obtain ⟨⟨t, ht, _⟩, _⟩ := hgn 0 td.type nd0 (nodes_head _) rfl
            exact ⟨t, ht⟩
      · intro td htd
        simp only [mkCur, mkView]
        unfold tdRootOf
        obtain ⟨td', h'⟩ := findTypedef_of_mem htd rfl
        rw [h']
        simp only
        split <;> exact ⟨_, rfl⟩
      · intro inc hinc
        exact hsome inc (hincl inc hinc)
    · rw [if_neg hji] at hvj
      obtain ⟨g, rf', hg', hvv, hgood'⟩ := hv j v hvj
      obtain ⟨g2, hg2, hcl⟩ := hc j v hvj
      rw [hg'] at hg2; simp only [Option.some.injEq] at hg2; subst hg2
      rw [hvv]
      exact viewSpec_finished hg' hgood' (fun inc hinc => hsome inc (hcl inc hinc))
  have C : CandCtx p i f ce :=
    ⟨by rw [← hce]; rfl, hg, hall_views, ⟨_, by rw [hviews, if_pos rfl]⟩⟩
  obtain ⟨b, q1, q2, _⟩ := hall.bind_at (events_cv_nodup f hnd) s cv ((mem_events_cv f s cv).mpr hs)
  obtain ⟨as, hidx, hb⟩ := resolveConst_ok cv b q1
  refine ⟨b.val, by rw [hrf]; exact q2, by rw [hb]; simp [combine, hidx.length], ?_⟩
  intro k id bd hid hbd
  rw [hb, combine_val_get] at hbd
  obtain ⟨a, hak, hout⟩ := hidx.get k id hid
  rw [hak] at hbd
  simp only [Option.map_some, Option.some.injEq] at hbd
  subst hbd
  rcases resolveIdent_spec hout with ⟨hk, e⟩ | ⟨hk, c, hc', e⟩
  · exact Or.inl ⟨hk, by rw [e]⟩
  · obtain ⟨s1, s2⟩ := cands_spec C hc'
    refine Or.inr ⟨hk, c.1, by rw [e], s1 c (List.mem_cons_self ..), ?_⟩
    intro y hy
    obtain ⟨c', hc'', e'⟩ := s2 y hy
    simp only [List.mem_cons, List.not_mem_nil, or_false] at hc''
    rw [← e', hc'']

end Sem
