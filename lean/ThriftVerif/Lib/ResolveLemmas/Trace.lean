import ThriftVerif.Lib.ResolveLemmas.Struct
/-
  ResolveAST as a trace: the exact sequence of ResolveType / ResolveConstValue /
  ResolveBaseService calls made on a file (`File.events`), and the relation `Trace` saying that an
  output is what those calls produce, in that order.  One decomposition theorem
  (`resolveAST_trace`) turns the nested loops of the model into this flat form; everything else
  is proved about traces.
-/
namespace Sem

inductive Ev
  | ty (s : Slot) (te : TypeExpr)
  | cv (s : Slot) (v : ConstVal)
  | svc (name ext : Bytes)

/-- a member list (struct fields, arguments, throws): type, then default if set -/
def fieldEvs (mk : Nat → Slot) : Nat → List Field → List Ev
  | _, [] => []
  | k, fl :: r =>
    (Ev.ty (mk k) fl.type ::
      (match fl.dflt with
       | some d => [Ev.cv (mk k) d]
       | none => [])) ++ fieldEvs mk (k + 1) r

def fnEv (svc : Bytes) (k : Nat) (fn : Function) : List Ev :=
  (match fn.ret with
   | some t => [Ev.ty (.ret svc k) t]
   | none => []) ++
  (fieldEvs (fun a => .arg svc k a) 0 fn.args ++ fieldEvs (fun a => .throw svc k a) 0 fn.throws)

def fnEvs (svc : Bytes) : Nat → List Function → List Ev
  | _, [] => []
  | k, fn :: r => fnEv svc k fn ++ fnEvs svc (k + 1) r

def svcEvs (s : Service) : List Ev := fnEvs s.name 0 s.functions ++ [Ev.svc s.name s.extends]

/-- The calls ResolveAST makes on file `f`, in order. -/
def File.events (f : File) : List Ev :=
  ((f.typedefs.map (fun td => Ev.ty (.typedef td.alias) td.type) ++
    f.constants.flatMap (fun c => [Ev.ty (.const c.name) c.type, Ev.cv (.const c.name) c.value])) ++
   f.structLikes.flatMap (fun s => fieldEvs (fun k => .field s.name k) 0 s.fields)) ++
  f.services.flatMap svcEvs

def Out.seq (a b : Out DefOut) : Out DefOut := ⟨a.val.append b.val, a.work ++ b.work, a.used ++ b.used⟩

def Out.nil : Out DefOut := ⟨⟨[], [], []⟩, [], []⟩

inductive Trace (ce : CEnv) : List Ev → Out DefOut → Prop
  | nil : Trace ce [] Out.nil
  | ty {s te o evs r} : resolveType ce.env s 0 te = .ok o → Trace ce evs r →
      Trace ce (.ty s te :: evs) (Out.seq ⟨⟨[(s, o.val)], [], []⟩, o.work, o.used⟩ r)
  | cv {s v b evs r} : resolveConst ce v = .ok b → Trace ce evs r →
      Trace ce (.cv s v :: evs) (Out.seq ⟨⟨[], [(s, b.val)], []⟩, b.work, b.used⟩ r)
  | svc {name ext bo evs r} : resolveBaseService ce.env ext = .ok bo → Trace ce evs r →
      Trace ce (.svc name ext :: evs) (Out.seq ⟨⟨[], [], [(name, bo.val)]⟩, bo.work, bo.used⟩ r)

theorem DefOut.append_nil (a : DefOut) : a.append ⟨[], [], []⟩ = a := by
  cases a; simp [DefOut.append]

theorem DefOut.nil_append (a : DefOut) : DefOut.append ⟨[], [], []⟩ a = a := by
  cases a; simp [DefOut.append]

theorem DefOut.append_assoc (a b c : DefOut) : (a.append b).append c = a.append (b.append c) := by
  simp [DefOut.append, List.append_assoc]

theorem Out.seq_nil (a : Out DefOut) : Out.seq a Out.nil = a := by
  cases a; simp [Out.seq, Out.nil, DefOut.append_nil]

theorem Out.nil_seq (a : Out DefOut) : Out.seq Out.nil a = a := by
  cases a; simp [Out.seq, Out.nil, DefOut.nil_append]

theorem Out.seq_assoc (a b c : Out DefOut) : Out.seq (Out.seq a b) c = Out.seq a (Out.seq b c) := by
  simp [Out.seq, DefOut.append_assoc, List.append_assoc]

theorem Trace.append {ce : CEnv} : ∀ {e1 o1 e2 o2}, Trace ce e1 o1 → Trace ce e2 o2 →
    Trace ce (e1 ++ e2) (Out.seq o1 o2) := by
  intro e1 o1 e2 o2 h1 h2
  induction h1 with
  | nil => rw [Out.nil_seq]; exact h2
  | ty h _ ih => rw [Out.seq_assoc]; exact .ty h ih
  | cv h _ ih => rw [Out.seq_assoc]; exact .cv h ih
  | svc h _ ih => rw [Out.seq_assoc]; exact .svc h ih

theorem seqOut_ok {a b : Res (Out DefOut)} {o : Out DefOut} (h : seqOut a b = .ok o) :
    ∃ x y, a = .ok x ∧ b = .ok y ∧ o = Out.seq x y := by
  unfold seqOut at h
  cases a with
  | error e => simp at h
  | ok x =>
    cases b with
    | error e => simp at h
    | ok y =>
      simp only [Except.ok.injEq] at h
      exact ⟨x, y, rfl, rfl, h.symm⟩

theorem resolveSlot_trace {ce : CEnv} {s : Slot} {te : TypeExpr} {o : Out DefOut}
    (h : resolveSlot ce.env s te = .ok o) : Trace ce [.ty s te] o := by
  unfold resolveSlot at h
  cases hr : resolveType ce.env s 0 te with
  | error e => rw [hr] at h; simp at h
  | ok r =>
    rw [hr] at h
    simp only [Except.ok.injEq] at h
    have := Trace.ty (s := s) hr (Trace.nil (ce := ce))
    rw [Out.seq_nil] at this
    rw [← h]; exact this

theorem resolveSlotConst_trace {ce : CEnv} {s : Slot} {v : ConstVal} {o : Out DefOut}
    (h : resolveSlotConst ce s v = .ok o) : Trace ce [.cv s v] o := by
  unfold resolveSlotConst at h
  cases hr : resolveConst ce v with
  | error e => rw [hr] at h; simp at h
  | ok r =>
    rw [hr] at h
    simp only [Except.ok.injEq] at h
    have := Trace.cv (s := s) hr (Trace.nil (ce := ce))
    rw [Out.seq_nil] at this
    rw [← h]; exact this

def evsOf {α} (ev : Nat → α → List Ev) : Nat → List α → List Ev
  | _, [] => []
  | k, x :: r => ev k x ++ evsOf ev (k + 1) r

/-- `flatOut (mapOutIdx g k l)` when each item leaves a trace. -/
theorem flat_trace {α} {ce : CEnv} (g : Nat → α → Res (Out DefOut)) (ev : Nat → α → List Ev)
    (hg : ∀ k x o, g k x = .ok o → Trace ce (ev k x) o) :
    ∀ (l : List α) (k : Nat) (o : Out DefOut), flatOut (mapOutIdx g k l) = .ok o →
      Trace ce (evsOf ev k l) o
  | [], k, o => by
    intro h
    simp only [mapOutIdx, flatOut, DefOut.concat, Except.ok.injEq] at h
    rw [← h]; exact .nil
  | x :: r, k, o => by
    intro h
    simp only [mapOutIdx] at h
    cases hx : g k x with
    | error e => rw [hx] at h; simp [flatOut] at h
    | ok a =>
      rw [hx] at h
      simp only at h
      cases hr : mapOutIdx g (k + 1) r with
      | error e => rw [hr] at h; simp [flatOut] at h
      | ok b =>
        rw [hr] at h
        simp only [flatOut, DefOut.concat, Except.ok.injEq] at h
        have hb : flatOut (mapOutIdx g (k + 1) r) = .ok ⟨DefOut.concat b.val, b.work, b.used⟩ := by
          rw [hr]; rfl
        have t2 := flat_trace g ev hg r (k + 1) _ hb
        have t1 := hg k x a hx
        have := t1.append t2
        rw [← h]
        exact this

theorem evsOf_const {α} (ev : α → List Ev) : ∀ (l : List α) (k : Nat),
    evsOf (fun _ => ev) k l = l.flatMap ev
  | [], _ => rfl
  | x :: r, k => by simp [evsOf, evsOf_const ev r (k + 1)]

theorem evsOf_field (mk : Nat → Slot) : ∀ (l : List Field) (k : Nat),
    evsOf (fun k (fl : Field) =>
      Ev.ty (mk k) fl.type ::
        (match fl.dflt with
         | some d => [Ev.cv (mk k) d]
         | none => [])) k l = fieldEvs mk k l
  | [], _ => rfl
  | x :: r, k => by simp [evsOf, fieldEvs, evsOf_field mk r (k + 1)]

theorem evsOf_fn (svc : Bytes) : ∀ (l : List Function) (k : Nat),
    evsOf (fnEv svc) k l = fnEvs svc k l
  | [], _ => rfl
  | x :: r, k => by simp [evsOf, fnEvs, evsOf_fn svc r (k + 1)]

theorem resolveMember_trace {ce : CEnv} {mk : Nat → Slot} {k : Nat} {fl : Field} {o : Out DefOut}
    (h : resolveMember ce mk k fl = .ok o) :
    Trace ce (Ev.ty (mk k) fl.type ::
        (match fl.dflt with
         | some d => [Ev.cv (mk k) d]
         | none => [])) o := by
  unfold resolveMember at h
  cases hd : fl.dflt with
  | none =>
    rw [hd] at h
    exact resolveSlot_trace h
  | some d =>
    rw [hd] at h
    obtain ⟨x, y, hx, hy, rfl⟩ := seqOut_ok h
    exact (resolveSlot_trace hx).append (resolveSlotConst_trace hy)

theorem resolveFunction_trace {ce : CEnv} {svc : Bytes} {k : Nat} {fn : Function} {o : Out DefOut}
    (h : resolveFunction ce svc k fn = .ok o) : Trace ce (fnEv svc k fn) o := by
  unfold resolveFunction at h
  obtain ⟨x, y, hx, hy, rfl⟩ := seqOut_ok h
  obtain ⟨ya, yt, hya, hyt, rfl⟩ := seqOut_ok hy
  have ta := flat_trace (ce := ce) (resolveMember ce (fun a => .arg svc k a)) _
    (fun a fl o h => resolveMember_trace h) fn.args 0 ya hya
  have tt := flat_trace (ce := ce) (resolveMember ce (fun a => .throw svc k a)) _
    (fun a fl o h => resolveMember_trace h) fn.throws 0 yt hyt
  rw [evsOf_field] at ta tt
  unfold fnEv
  refine Trace.append ?_ (ta.append tt)
  cases hr : fn.ret with
  | none =>
    rw [hr] at hx
    simp only [Except.ok.injEq] at hx
    rw [← hx]; exact .nil
  | some t =>
    rw [hr] at hx
    exact resolveSlot_trace hx

theorem resolveServiceDef_trace {ce : CEnv} {s : Service} {o : Out DefOut}
    (h : resolveServiceDef ce s = .ok o) : Trace ce (svcEvs s) o := by
  unfold resolveServiceDef at h
  obtain ⟨x, y, hx, hy, rfl⟩ := seqOut_ok h
  have tf := flat_trace (ce := ce) (resolveFunction ce s.name) (fnEv s.name)
    (fun k fn o h => resolveFunction_trace h) s.functions 0 x hx
  rw [evsOf_fn] at tf
  unfold svcEvs
  refine tf.append ?_
  cases hb : resolveBaseService ce.env s.extends with
  | error e => rw [hb] at hy; simp at hy
  | ok bo =>
    rw [hb] at hy
    simp only [Except.ok.injEq] at hy
    have := Trace.svc (name := s.name) hb (Trace.nil (ce := ce))
    rw [Out.seq_nil] at this
    rw [← hy]; exact this

theorem resolveStructLikeDef_trace {ce : CEnv} {s : StructLike} {o : Out DefOut}
    (h : resolveStructLikeDef ce s = .ok o) : Trace ce (fieldEvs (fun k => .field s.name k) 0 s.fields) o := by
  unfold resolveStructLikeDef at h
  have := flat_trace (ce := ce) (resolveMember ce (fun k => .field s.name k)) _
    (fun k fl o h => resolveMember_trace h) s.fields 0 o h
  rw [evsOf_field] at this
  exact this

theorem resolveConstantDef_trace {ce : CEnv} {c : Constant} {o : Out DefOut}
    (h : resolveConstantDef ce c = .ok o) :
    Trace ce [Ev.ty (.const c.name) c.type, Ev.cv (.const c.name) c.value] o := by
  unfold resolveConstantDef at h
  obtain ⟨x, y, hx, hy, rfl⟩ := seqOut_ok h
  exact (resolveSlot_trace hx).append (resolveSlotConst_trace hy)

theorem flatOut_mapOut_trace {α} {ce : CEnv} (g : α → Res (Out DefOut)) (ev : α → List Ev)
    (hg : ∀ x o, g x = .ok o → Trace ce (ev x) o) (l : List α) (o : Out DefOut)
    (h : flatOut (mapOut g l) = .ok o) : Trace ce (l.flatMap ev) o := by
  rw [mapOut_eq_idx g l 0] at h
  have := flat_trace (ce := ce) (fun _ => g) (fun _ => ev) (fun _ x o h => hg x o h) l 0 o h
  rw [evsOf_const] at this
  exact this

/-- Everything ResolveAST computes, with the calls before ResolveTypedefs as one trace. -/
structure Phases (views : Nat → Option FileView) (gfuel i : Nat) (f : File) (rf : RFile) where
  incs : List IncInfo
  n2cL : N2C
  tds : Out DefOut
  all : Out DefOut
  st : Store
  hincs : mkIncs views f.includes = .ok incs
  hn2c : registerNames f = .ok n2cL
  htds : Trace (mkCE views gfuel i (mkEnv n2cL incs) (mkCur (mkEnv n2cL incs) tds.val.types f))
    (f.typedefs.map (fun td => Ev.ty (.typedef td.alias) td.type)) tds
  hall : Trace (mkCE views gfuel i (mkEnv n2cL incs) (mkCur (mkEnv n2cL incs) tds.val.types f)) f.events all
  hprefix : ∃ rest, all = Out.seq tds rest
  hst : resolveTypedefs (mkLE views incs (mkCur (mkEnv n2cL incs) tds.val.types f)) all.work = .ok st
  hrf : rf = { n2c := n2cL
               used := usedFlags f.includes.length all.used
               types := patchTypes st all.val.types
               binds := all.val.binds
               svcRefs := all.val.svc }

theorem resolveAST_phases {views : Nat → Option FileView} {gfuel i : Nat} {f : File} {rf : RFile}
    (h : resolveAST views gfuel i f = .ok rf) : Nonempty (Phases views gfuel i f rf) := by
  unfold resolveAST at h
  cases hincs : mkIncs views f.includes with
  | error e => rw [hincs] at h; simp at h
  | ok incs =>
    rw [hincs] at h
    simp only at h
    cases hn : registerNames f with
    | error e => rw [hn] at h; simp at h
    | ok n2cL =>
      rw [hn] at h
      simp only at h
      cases htds : flatOut (mapOut (resolveTypedefDef (mkEnv n2cL incs)) f.typedefs) with
      | error e => rw [htds] at h; simp at h
      | ok tds =>
        rw [htds] at h
        simp only at h
        generalize hce : mkCE views gfuel i (mkEnv n2cL incs) (mkCur (mkEnv n2cL incs) tds.val.types f) = ce at h
        cases hcs : flatOut (mapOut (resolveConstantDef ce) f.constants) with
        | error e => rw [hcs] at h; simp at h
        | ok cs =>
          rw [hcs] at h
          simp only at h
          cases hss : flatOut (mapOut (resolveStructLikeDef ce) f.structLikes) with
          | error e => rw [hss] at h; simp at h
          | ok ss =>
            rw [hss] at h
            simp only at h
            cases hsv : flatOut (mapOut (resolveServiceDef ce) f.services) with
            | error e => rw [hsv] at h; simp at h
            | ok svs =>
              rw [hsv] at h
              simp only at h
              cases hst : resolveTypedefs (mkLE views incs (mkCur (mkEnv n2cL incs) tds.val.types f))
                  (tds.work ++ cs.work ++ ss.work ++ svs.work) with
              | error e => rw [hst] at h; simp at h
              | ok st =>
                rw [hst] at h
                simp only [Except.ok.injEq] at h
                have hceenv : ce.env = mkEnv n2cL incs := by rw [← hce]; rfl
                have t1 : Trace ce (f.typedefs.map (fun td => Ev.ty (.typedef td.alias) td.type)) tds := by
                  have := flatOut_mapOut_trace (ce := ce) (resolveTypedefDef (mkEnv n2cL incs))
                    (fun td => [Ev.ty (.typedef td.alias) td.type])
                    (fun td o ho => by
                      unfold resolveTypedefDef at ho
                      rw [← hceenv] at ho
                      exact resolveSlot_trace ho) f.typedefs tds htds
                  have e : f.typedefs.flatMap (fun td => [Ev.ty (.typedef td.alias) td.type]) =
                      f.typedefs.map (fun td => Ev.ty (.typedef td.alias) td.type) := by
                    induction f.typedefs with
                    | nil => rfl
                    | cons a r ih => simp [ih]
                  rw [e] at this
                  exact this
                have t2 := flatOut_mapOut_trace (ce := ce) (resolveConstantDef ce) _
                  (fun c o ho => resolveConstantDef_trace ho) f.constants cs hcs
                have t3 := flatOut_mapOut_trace (ce := ce) (resolveStructLikeDef ce) _
                  (fun c o ho => resolveStructLikeDef_trace ho) f.structLikes ss hss
                have t4 := flatOut_mapOut_trace (ce := ce) (resolveServiceDef ce) svcEvs
                  (fun c o ho => resolveServiceDef_trace ho) f.services svs hsv
                have tall := ((t1.append t2).append t3).append t4
                subst hce
                refine ⟨{ incs := incs, n2cL := n2cL, tds := tds
                          all := Out.seq (Out.seq (Out.seq tds cs) ss) svs, st := st
                          hincs := hincs, hn2c := hn
                          htds := t1, hall := tall
                          hprefix := ⟨Out.seq (Out.seq cs ss) svs, by simp [Out.seq_assoc]⟩
                          hst := hst, hrf := ?_ }⟩
                rw [← h]
                rfl

end Sem
