import ThriftVerif.Lib.ResolveLemmas.TraceFacts
/-
  The events of a file against `SlotType` / `SlotConst`, and distinctness of slots.
-/
namespace Sem

theorem tySlots_append : ∀ (a b : List Ev), tySlots (a ++ b) = tySlots a ++ tySlots b
  | [], b => rfl
  | .ty s t :: r, b => by simp [tySlots, tySlots_append r b]
  | .cv s t :: r, b => by simp [tySlots, tySlots_append r b]
  | .svc s t :: r, b => by simp [tySlots, tySlots_append r b]

theorem cvSlots_append : ∀ (a b : List Ev), cvSlots (a ++ b) = cvSlots a ++ cvSlots b
  | [], b => rfl
  | .ty s t :: r, b => by simp [cvSlots, cvSlots_append r b]
  | .cv s t :: r, b => by simp [cvSlots, cvSlots_append r b]
  | .svc s t :: r, b => by simp [cvSlots, cvSlots_append r b]

theorem svcNames_append : ∀ (a b : List Ev), svcNames (a ++ b) = svcNames a ++ svcNames b
  | [], b => rfl
  | .ty s t :: r, b => by simp [svcNames, svcNames_append r b]
  | .cv s t :: r, b => by simp [svcNames, svcNames_append r b]
  | .svc s t :: r, b => by simp [svcNames, svcNames_append r b]

theorem mem_tySlots : ∀ {evs : List Ev} {s : Slot}, s ∈ tySlots evs ↔ ∃ te, Ev.ty s te ∈ evs
  | [], s => by simp [tySlots]
  | .ty s' t :: r, s => by
    simp only [tySlots, List.mem_cons, mem_tySlots (evs := r), Ev.ty.injEq]
    constructor
    · rintro (rfl | ⟨te, h⟩)
      · exact ⟨t, Or.inl ⟨rfl, rfl⟩⟩
      · exact ⟨te, Or.inr h⟩
    · rintro ⟨te, (⟨rfl, rfl⟩ | h)⟩
      · exact Or.inl rfl
      · exact Or.inr ⟨te, h⟩
  | .cv s' t :: r, s => by simp [tySlots, mem_tySlots (evs := r)]
  | .svc s' t :: r, s => by simp [tySlots, mem_tySlots (evs := r)]

theorem mem_cvSlots : ∀ {evs : List Ev} {s : Slot}, s ∈ cvSlots evs ↔ ∃ v, Ev.cv s v ∈ evs
  | [], s => by simp [cvSlots]
  | .cv s' t :: r, s => by
    simp only [cvSlots, List.mem_cons, mem_cvSlots (evs := r), Ev.cv.injEq]
    constructor
    · rintro (rfl | ⟨te, h⟩)
      · exact ⟨t, Or.inl ⟨rfl, rfl⟩⟩
      · exact ⟨te, Or.inr h⟩
    · rintro ⟨te, (⟨rfl, rfl⟩ | h)⟩
      · exact Or.inl rfl
      · exact Or.inr ⟨te, h⟩
  | .ty s' t :: r, s => by simp [cvSlots, mem_cvSlots (evs := r)]
  | .svc s' t :: r, s => by simp [cvSlots, mem_cvSlots (evs := r)]

theorem mem_svcNames : ∀ {evs : List Ev} {s : Bytes}, s ∈ svcNames evs ↔ ∃ v, Ev.svc s v ∈ evs
  | [], s => by simp [svcNames]
  | .svc s' t :: r, s => by
    simp only [svcNames, List.mem_cons, mem_svcNames (evs := r), Ev.svc.injEq]
    constructor
    · rintro (rfl | ⟨te, h⟩)
      · exact ⟨t, Or.inl ⟨rfl, rfl⟩⟩
      · exact ⟨te, Or.inr h⟩
    · rintro ⟨te, (⟨rfl, rfl⟩ | h)⟩
      · exact Or.inl rfl
      · exact Or.inr ⟨te, h⟩
  | .ty s' t :: r, s => by simp [svcNames, mem_svcNames (evs := r)]
  | .cv s' t :: r, s => by simp [svcNames, mem_svcNames (evs := r)]

/-! ### membership in the event lists -/

theorem mem_fieldEvs_ty (mk : Nat → Slot) : ∀ (l : List Field) (k : Nat) (s : Slot) (te : TypeExpr),
    Ev.ty s te ∈ fieldEvs mk k l ↔ ∃ (j : Nat) (fl : Field), l[j]? = some fl ∧ s = mk (k + j) ∧ te = fl.type
  | [], k, s, te => by simp [fieldEvs]
  | fl :: r, k, s, te => by
    simp only [fieldEvs, List.cons_append, List.mem_cons, Ev.ty.injEq, List.mem_append]
    rw [mem_fieldEvs_ty mk r (k + 1) s te]
    constructor
    · rintro (⟨rfl, rfl⟩ | h | ⟨j, fl', h1, h2, h3⟩)
      · exact ⟨0, fl, rfl, rfl, rfl⟩
      · cases hd : fl.dflt <;> rw [hd] at h <;> simp at h
      · exact ⟨j + 1, fl', by simpa using h1, by rw [h2]; congr 1; omega, h3⟩
    · rintro ⟨j, fl', h1, h2, h3⟩
      cases j with
      | zero =>
        simp only [List.getElem?_cons_zero, Option.some.injEq] at h1
        subst h1
        exact Or.inl ⟨h2, h3⟩
      | succ j =>
        simp only [List.getElem?_cons_succ] at h1
        exact Or.inr (Or.inr ⟨j, fl', h1, by rw [h2]; congr 1; omega, h3⟩)

theorem mem_fieldEvs_cv (mk : Nat → Slot) : ∀ (l : List Field) (k : Nat) (s : Slot) (v : ConstVal),
    Ev.cv s v ∈ fieldEvs mk k l ↔ ∃ (j : Nat) (fl : Field), l[j]? = some fl ∧ s = mk (k + j) ∧ fl.dflt = some v
  | [], k, s, te => by simp [fieldEvs]
  | fl :: r, k, s, v => by
    simp only [fieldEvs, List.cons_append, List.mem_cons, List.mem_append]
    rw [mem_fieldEvs_cv mk r (k + 1) s v]
    constructor
    · rintro (h | h | ⟨j, fl', h1, h2, h3⟩)
      · simp at h
      · cases hd : fl.dflt with
        | none => rw [hd] at h; simp at h
        | some d =>
          rw [hd] at h
          simp only [List.mem_cons, Ev.cv.injEq, List.not_mem_nil, or_false] at h
          exact ⟨0, fl, rfl, h.1, by rw [hd, h.2]⟩
      · exact ⟨j + 1, fl', by simpa using h1, by rw [h2]; congr 1; omega, h3⟩
    · rintro ⟨j, fl', h1, h2, h3⟩
      cases j with
      | zero =>
        simp only [List.getElem?_cons_zero, Option.some.injEq] at h1
        subst h1
        right; left
        rw [h3]
        simp [h2]
      | succ j =>
        simp only [List.getElem?_cons_succ] at h1
        exact Or.inr (Or.inr ⟨j, fl', h1, by rw [h2]; congr 1; omega, h3⟩)

theorem not_mem_fieldEvs_svc (mk : Nat → Slot) : ∀ (l : List Field) (k : Nat) (n e : Bytes),
    Ev.svc n e ∉ fieldEvs mk k l
  | [], k, n, e => by simp [fieldEvs]
  | fl :: r, k, n, e => by
    simp only [fieldEvs, List.cons_append, List.mem_cons, List.mem_append, not_or]
    refine ⟨by simp, ?_, not_mem_fieldEvs_svc mk r (k + 1) n e⟩
    cases fl.dflt <;> simp

theorem mem_fnEvs (svc : Bytes) : ∀ (l : List Function) (k : Nat) (ev : Ev),
    ev ∈ fnEvs svc k l ↔ ∃ (j : Nat) (fn : Function), l[j]? = some fn ∧ ev ∈ fnEv svc (k + j) fn
  | [], k, ev => by simp [fnEvs]
  | fn :: r, k, ev => by
    simp only [fnEvs, List.mem_append]
    rw [mem_fnEvs svc r (k + 1) ev]
    constructor
    · rintro (h | ⟨j, fn', h1, h2⟩)
      · exact ⟨0, fn, rfl, h⟩
      · exact ⟨j + 1, fn', by simpa using h1, by
          have : k + (j + 1) = k + 1 + j := by omega
          rw [this]; exact h2⟩
    · rintro ⟨j, fn', h1, h2⟩
      cases j with
      | zero =>
        simp only [List.getElem?_cons_zero, Option.some.injEq] at h1
        subst h1
        exact Or.inl h2
      | succ j =>
        simp only [List.getElem?_cons_succ] at h1
        have : k + (j + 1) = k + 1 + j := by omega
        rw [this] at h2
        exact Or.inr ⟨j, fn', h1, h2⟩

theorem mem_fnEv_ty (svc : Bytes) (k : Nat) (fn : Function) (s : Slot) (te : TypeExpr) :
    Ev.ty s te ∈ fnEv svc k fn ↔
      (fn.ret = some te ∧ s = .ret svc k) ∨
      (∃ (a : Nat) (fl : Field), fn.args[a]? = some fl ∧ s = .arg svc k a ∧ te = fl.type) ∨
      (∃ (a : Nat) (fl : Field), fn.throws[a]? = some fl ∧ s = .throw svc k a ∧ te = fl.type) := by
  unfold fnEv
  simp only [List.mem_append, mem_fieldEvs_ty, Nat.zero_add]
  constructor
  · rintro (h | h | h)
    · cases hr : fn.ret with
      | none => rw [hr] at h; simp at h
      | some t =>
        rw [hr] at h
        simp only [List.mem_cons, List.not_mem_nil, or_false, Ev.ty.injEq] at h
        exact Or.inl ⟨by rw [h.2], h.1⟩
    · exact Or.inr (Or.inl h)
    · exact Or.inr (Or.inr h)
  · rintro (⟨h1, h2⟩ | h | h)
    · left; rw [h1, h2]; simp
    · exact Or.inr (Or.inl h)
    · exact Or.inr (Or.inr h)

theorem mem_fnEv_cv (svc : Bytes) (k : Nat) (fn : Function) (s : Slot) (v : ConstVal) :
    Ev.cv s v ∈ fnEv svc k fn ↔
      (∃ (a : Nat) (fl : Field), fn.args[a]? = some fl ∧ s = .arg svc k a ∧ fl.dflt = some v) ∨
      (∃ (a : Nat) (fl : Field), fn.throws[a]? = some fl ∧ s = .throw svc k a ∧ fl.dflt = some v) := by
  unfold fnEv
  simp only [List.mem_append, mem_fieldEvs_cv, Nat.zero_add]
  constructor
  · rintro (h | h | h)
    · cases hr : fn.ret <;> rw [hr] at h <;> simp at h
    · exact Or.inl h
    · exact Or.inr h
  · rintro (h | h)
    · exact Or.inr (Or.inl h)
    · exact Or.inr (Or.inr h)

theorem not_svc_fnEv (svc : Bytes) (k : Nat) (fn : Function) (n e : Bytes) : Ev.svc n e ∉ fnEv svc k fn := by
  unfold fnEv
  simp only [List.mem_append, not_or]
  refine ⟨?_, not_mem_fieldEvs_svc _ _ _ _ _, not_mem_fieldEvs_svc _ _ _ _ _⟩
  cases fn.ret <;> simp

theorem not_svc_fnEvs (svc : Bytes) (l : List Function) (k : Nat) (n e : Bytes) :
    Ev.svc n e ∉ fnEvs svc k l := by
  intro h
  obtain ⟨j, fn, _, h2⟩ := (mem_fnEvs svc l k _).mp h
  exact not_svc_fnEv _ _ _ _ _ h2

theorem mem_events_ty (f : File) (s : Slot) (te : TypeExpr) :
    Ev.ty s te ∈ f.events ↔ SlotType f s te := by
  unfold File.events
  simp only [List.mem_append, List.mem_map, List.mem_flatMap, List.mem_cons, Ev.ty.injEq,
    List.not_mem_nil, or_false, reduceCtorEq]
  constructor
  · rintro (((⟨td, h, rfl, rfl⟩ | ⟨c, h, ⟨rfl, rfl⟩⟩) | ⟨sl, h, hm⟩) | ⟨sv, h, hm⟩)
    · exact .typedef h
    · exact .const h
    · obtain ⟨j, fl, h1, rfl, rfl⟩ := (mem_fieldEvs_ty _ sl.fields 0 s te).mp hm
      rw [Nat.zero_add]
      exact .field h h1
    · unfold svcEvs at hm
      simp only [List.mem_append, List.mem_cons, reduceCtorEq, List.not_mem_nil, or_false] at hm
      obtain ⟨j, fn, h1, h2⟩ := (mem_fnEvs sv.name sv.functions 0 _).mp hm
      rw [Nat.zero_add] at h2
      rcases (mem_fnEv_ty sv.name j fn _ _).mp h2 with ⟨h3, rfl⟩ | ⟨a, fl, h3, rfl, rfl⟩ | ⟨a, fl, h3, rfl, rfl⟩
      · exact .ret h h1 h3
      · exact .arg h h1 h3
      · exact .throw h h1 h3
  · intro h
    cases h with
    | typedef h => exact Or.inl (Or.inl (Or.inl ⟨_, h, rfl, rfl⟩))
    | const h => exact Or.inl (Or.inl (Or.inr ⟨_, h, rfl, rfl⟩))
    | @field sl k fl h h1 =>
      refine Or.inl (Or.inr ⟨sl, h, ?_⟩)
      exact (mem_fieldEvs_ty _ sl.fields 0 _ _).mpr ⟨k, fl, h1, by rw [Nat.zero_add], rfl⟩
    | @ret sv k fn _ h h1 h2 =>
      refine Or.inr ⟨sv, h, ?_⟩
      unfold svcEvs
      refine List.mem_append.mpr (Or.inl ((mem_fnEvs sv.name sv.functions 0 _).mpr ⟨k, fn, h1, ?_⟩))
      rw [Nat.zero_add]
      exact (mem_fnEv_ty ..).mpr (Or.inl ⟨h2, rfl⟩)
    | @arg sv k fn a fl h h1 h2 =>
      refine Or.inr ⟨sv, h, ?_⟩
      unfold svcEvs
      refine List.mem_append.mpr (Or.inl ((mem_fnEvs sv.name sv.functions 0 _).mpr ⟨k, fn, h1, ?_⟩))
      rw [Nat.zero_add]
      exact (mem_fnEv_ty ..).mpr (Or.inr (Or.inl ⟨a, fl, h2, rfl, rfl⟩))
    | @throw sv k fn a fl h h1 h2 =>
      refine Or.inr ⟨sv, h, ?_⟩
      unfold svcEvs
      refine List.mem_append.mpr (Or.inl ((mem_fnEvs sv.name sv.functions 0 _).mpr ⟨k, fn, h1, ?_⟩))
      rw [Nat.zero_add]
      exact (mem_fnEv_ty ..).mpr (Or.inr (Or.inr ⟨a, fl, h2, rfl, rfl⟩))

theorem mem_events_cv (f : File) (s : Slot) (v : ConstVal) :
    Ev.cv s v ∈ f.events ↔ SlotConst f s v := by
  unfold File.events
  simp only [List.mem_append, List.mem_map, List.mem_flatMap, List.mem_cons, Ev.cv.injEq,
    List.not_mem_nil, or_false, reduceCtorEq, false_or, and_false, exists_false]
  constructor
  · rintro ((⟨c, h, ⟨rfl, rfl⟩⟩ | ⟨sl, h, hm⟩) | ⟨sv, h, hm⟩)
    · exact .const h
    · obtain ⟨j, fl, h1, rfl, h3⟩ := (mem_fieldEvs_cv _ sl.fields 0 s v).mp hm
      rw [Nat.zero_add]
      exact .field h h1 h3
    · unfold svcEvs at hm
      simp only [List.mem_append, List.mem_cons, reduceCtorEq, List.not_mem_nil, or_false] at hm
      obtain ⟨j, fn, h1, h2⟩ := (mem_fnEvs sv.name sv.functions 0 _).mp hm
      rw [Nat.zero_add] at h2
      rcases (mem_fnEv_cv sv.name j fn _ _).mp h2 with ⟨a, fl, h3, rfl, h4⟩ | ⟨a, fl, h3, rfl, h4⟩
      · exact .arg h h1 h3 h4
      · exact .throw h h1 h3 h4
  · intro h
    cases h with
    | const h => exact Or.inl (Or.inl ⟨_, h, rfl, rfl⟩)
    | @field sl k fl d h h1 h2 =>
      refine Or.inl (Or.inr ⟨sl, h, ?_⟩)
      exact (mem_fieldEvs_cv _ sl.fields 0 _ _).mpr ⟨k, fl, h1, by rw [Nat.zero_add], h2⟩
    | @arg sv k fn a fl d h h1 h2 h3 =>
      refine Or.inr ⟨sv, h, ?_⟩
      unfold svcEvs
      refine List.mem_append.mpr (Or.inl ((mem_fnEvs sv.name sv.functions 0 _).mpr ⟨k, fn, h1, ?_⟩))
      rw [Nat.zero_add]
      exact (mem_fnEv_cv ..).mpr (Or.inl ⟨a, fl, h2, rfl, h3⟩)
    | @throw sv k fn a fl d h h1 h2 h3 =>
      refine Or.inr ⟨sv, h, ?_⟩
      unfold svcEvs
      refine List.mem_append.mpr (Or.inl ((mem_fnEvs sv.name sv.functions 0 _).mpr ⟨k, fn, h1, ?_⟩))
      rw [Nat.zero_add]
      exact (mem_fnEv_cv ..).mpr (Or.inr ⟨a, fl, h2, rfl, h3⟩)

theorem mem_events_svc (f : File) (n e : Bytes) :
    Ev.svc n e ∈ f.events ↔ ∃ sv, sv ∈ f.services ∧ n = sv.name ∧ e = sv.extends := by
  unfold File.events
  simp only [List.mem_append, List.mem_map, List.mem_flatMap, List.mem_cons,
    List.not_mem_nil, or_false, reduceCtorEq, false_or, and_false, exists_false]
  constructor
  · rintro (⟨sl, h, hm⟩ | ⟨sv, h, hm⟩)
    · exact absurd hm (not_mem_fieldEvs_svc _ _ _ _ _)
    · unfold svcEvs at hm
      simp only [List.mem_append, List.mem_cons, Ev.svc.injEq, List.not_mem_nil, or_false] at hm
      rcases hm with hm | hm
      · exact absurd hm (not_svc_fnEvs _ _ _ _ _)
      · exact ⟨sv, h, hm.1, hm.2⟩
  · rintro ⟨sv, h, rfl, rfl⟩
    refine Or.inr ⟨sv, h, ?_⟩
    unfold svcEvs
    simp

end Sem
