import ThriftVerif.Lib.ResolveLemmas.Unique
/-
  ResolveConstValue: the bindings of a constant value are the per-identifier results in visiting
  order; what candidates look like; what getEnum's include index is.
-/
namespace Sem

theorem IdxAll.shift {α β} {g : α → Res (Out β)} : ∀ {k l as} (k' : Nat),
    IdxAll (fun _ => g) k l as → IdxAll (fun _ => g) k' l as := by
  intro k l as k' h
  induction h generalizing k' with
  | nil => exact .nil
  | cons hg _ ih => exact .cons hg (ih (k' + 1))

theorem IdxAll.append' {α β} {g : α → Res (Out β)} {k l1 as1 l2 as2}
    (h1 : IdxAll (fun _ => g) k l1 as1) (h2 : IdxAll (fun _ => g) k l2 as2) :
    IdxAll (fun _ => g) k (l1 ++ l2) (as1 ++ as2) :=
  h1.append (h2.shift _)

theorem combine_nil {β} : combine ([] : List (Out β)) = ⟨[], [], []⟩ := rfl

theorem combine_append' {β} (as bs : List (Out β)) (x y : Out (List β))
    (hx : x = combine as) (hy : y = combine bs) :
    (⟨x.val ++ y.val, x.work ++ y.work, x.used ++ y.used⟩ : Out (List β)) = combine (as ++ bs) := by
  rw [hx, hy, combine_append]

mutual
theorem resolveConst_ok {ce : CEnv} : ∀ (v : ConstVal) (b : Out (List (Option Extra))),
    resolveConst ce v = .ok b →
      ∃ as, IdxAll (fun _ id => resolveIdent ce id) 0 v.idents as ∧ b = combine as
  | .int _, b, h => by
    simp only [resolveConst, Except.ok.injEq] at h
    exact ⟨[], .nil, h.symm⟩
  | .dbl _, b, h => by
    simp only [resolveConst, Except.ok.injEq] at h
    exact ⟨[], .nil, h.symm⟩
  | .str _, b, h => by
    simp only [resolveConst, Except.ok.injEq] at h
    exact ⟨[], .nil, h.symm⟩
  | .ident id, b, h => by
    simp only [resolveConst] at h
    cases hi : resolveIdent ce id with
    | error e => rw [hi] at h; simp at h
    | ok o =>
      rw [hi] at h
      simp only [Except.ok.injEq] at h
      refine ⟨[o], .cons hi .nil, ?_⟩
      rw [← h]
      simp [combine]
  | .list xs, b, h => by
    simp only [resolveConst] at h
    exact resolveConstL_ok xs b h
  | .map kvs, b, h => by
    simp only [resolveConst] at h
    exact resolveConstM_ok kvs b h
theorem resolveConstL_ok {ce : CEnv} : ∀ (l : List ConstVal) (b : Out (List (Option Extra))),
    resolveConstL ce l = .ok b →
      ∃ as, IdxAll (fun _ id => resolveIdent ce id) 0 (ConstVal.identsL l) as ∧ b = combine as
  | [], b, h => by
    simp only [resolveConstL, Except.ok.injEq] at h
    exact ⟨[], .nil, h.symm⟩
  | x :: r, b, h => by
    simp only [resolveConstL] at h
    cases hx : resolveConst ce x with
    | error e => rw [hx] at h; simp at h
    | ok a =>
      rw [hx] at h
      simp only at h
      cases hr : resolveConstL ce r with
      | error e => rw [hr] at h; simp at h
      | ok c =>
        rw [hr] at h
        simp only [Except.ok.injEq] at h
        obtain ⟨as1, i1, e1⟩ := resolveConst_ok x a hx
        obtain ⟨as2, i2, e2⟩ := resolveConstL_ok r c hr
        refine ⟨as1 ++ as2, by simp only [ConstVal.identsL]; exact i1.append' i2, ?_⟩
        rw [← h]
        exact combine_append' as1 as2 a c e1 e2
theorem resolveConstM_ok {ce : CEnv} : ∀ (l : List (ConstVal × ConstVal)) (b : Out (List (Option Extra))),
    resolveConstM ce l = .ok b →
      ∃ as, IdxAll (fun _ id => resolveIdent ce id) 0 (ConstVal.identsM l) as ∧ b = combine as
  | [], b, h => by
    simp only [resolveConstM, Except.ok.injEq] at h
    exact ⟨[], .nil, h.symm⟩
  | (k, v) :: r, b, h => by
    simp only [resolveConstM] at h
    cases hk : resolveConst ce k with
    | error e => rw [hk] at h; simp at h
    | ok a =>
      rw [hk] at h
      simp only at h
      cases hv : resolveConst ce v with
      | error e => rw [hv] at h; simp at h
      | ok a' =>
        rw [hv] at h
        simp only at h
        cases hr : resolveConstM ce r with
        | error e => rw [hr] at h; simp at h
        | ok c =>
          rw [hr] at h
          simp only [Except.ok.injEq] at h
          obtain ⟨as1, i1, e1⟩ := resolveConst_ok k a hk
          obtain ⟨as2, i2, e2⟩ := resolveConst_ok v a' hv
          obtain ⟨as3, i3, e3⟩ := resolveConstM_ok r c hr
          refine ⟨(as1 ++ as2) ++ as3, by simp only [ConstVal.identsM]; exact (i1.append' i2).append' i3, ?_⟩
          rw [← h]
          have e12 := combine_append' as1 as2 a a' e1 e2
          exact combine_append' (as1 ++ as2) as3
            ⟨a.val ++ a'.val, a.work ++ a'.work, a.used ++ a'.used⟩ c e12 e3
end

/-! ### candidates -/

/-- How a candidate's include index relates to the include it marks. -/
def CandOK (ce : CEnv) (c : Cand) : Prop :=
  (∃ k : Nat, c.2 = some k ∧ c.1.index = (k : Int)) ∨
  (c.2 = none ∧ (c.1.index = -1 ∨
    ∃ a vals, getEnum ce.views ce.fuel [] ce.self a = .ok (some vals, c.1.index)))

theorem enumCands_mem {vals : List Bytes} {x : Bytes} {mk c : Cand} (h : c ∈ enumCands vals x mk) : c = mk := by
  unfold enumCands at h
  obtain ⟨_, _, e⟩ := List.mem_map.mp h
  exact e.symm

theorem incConstCands_ok (ce : CEnv) (a v : Bytes) : ∀ (l : List IncInfo) (k : Nat) (c : Cand),
    c ∈ incConstCands a v l k → CandOK ce c
  | [], k, c => by simp [incConstCands]
  | inc :: r, k, c => by
    intro h
    simp only [incConstCands] at h
    have ih := incConstCands_ok ce a v r (k + 1) c
    by_cases hp : inc.pfx = a
    · rw [if_pos hp] at h
      cases hn : inc.n2c v with
      | none => rw [hn] at h; exact ih h
      | some cc =>
        rw [hn] at h
        simp only at h
        by_cases hc : cc = .constant
        · rw [if_pos hc] at h
          rcases List.mem_cons.mp h with e | h
          · subst e; exact Or.inl ⟨k, rfl, rfl⟩
          · exact ih h
        · rw [if_neg hc] at h; exact ih h
    · rw [if_neg hp] at h; exact ih h

theorem incEnumCands_ok (ce : CEnv) (views : Nat → Option FileView) (fuel : Nat) (a e v : Bytes) :
    ∀ (l : List IncInfo) (k : Nat) (cs : List Cand), incEnumCands views fuel a e v l k = .ok cs →
      ∀ c, c ∈ cs → CandOK ce c
  | [], k, cs => by
    intro h c hc
    simp only [incEnumCands, Except.ok.injEq] at h
    subst h; simp at hc
  | inc :: r, k, cs => by
    intro h c hc
    simp only [incEnumCands] at h
    by_cases hp : inc.pfx = a
    · rw [if_pos hp] at h
      cases hg : getEnum views fuel [] inc.target e with
      | error err => rw [hg] at h; simp at h
      | ok res =>
        obtain ⟨en, idx⟩ := res
        rw [hg] at h
        simp only at h
        cases hr : incEnumCands views fuel a e v r (k + 1) with
        | error err => rw [hr] at h; simp at h
        | ok rest =>
          rw [hr] at h
          simp only at h
          have ih := incEnumCands_ok ce views fuel a e v r (k + 1) rest hr c
          cases en with
          | none =>
            simp only [Except.ok.injEq] at h
            subst h; exact ih hc
          | some vals =>
            simp only [Except.ok.injEq] at h
            subst h
            rcases List.mem_append.mp hc with hc | hc
            · rw [enumCands_mem hc]; exact Or.inl ⟨k, rfl, rfl⟩
            · exact ih hc
    · rw [if_neg hp] at h
      exact incEnumCands_ok ce views fuel a e v r (k + 1) cs h c hc

theorem altCands_ok (ce : CEnv) (ss : List Bytes) (cs : List Cand) (h : altCands ce ss = .ok cs) :
    ∀ c, c ∈ cs → CandOK ce c := by
  intro c hc
  unfold altCands at h
  split at h
  · next a =>
    split at h
    · next cc _ =>
      by_cases hcc : cc = .constant
      · rw [if_pos hcc] at h
        simp only [Except.ok.injEq] at h
        subst h
        simp only [List.mem_cons, List.not_mem_nil, or_false] at hc
        subst hc
        exact Or.inr ⟨rfl, Or.inl rfl⟩
      · rw [if_neg hcc] at h
        simp only [Except.ok.injEq] at h
        subst h; simp at hc
    · simp only [Except.ok.injEq] at h
      subst h; simp at hc
  · next a v =>
    cases hg : getEnum ce.views ce.fuel [] ce.self a with
    | error err => rw [hg] at h; simp at h
    | ok res =>
      obtain ⟨en, idx⟩ := res
      rw [hg] at h
      simp only [Except.ok.injEq] at h
      subst h
      rcases List.mem_append.mp hc with hc | hc
      · cases en with
        | none => simp at hc
        | some vals =>
          simp only at hc
          rw [enumCands_mem hc]
          exact Or.inr ⟨rfl, Or.inr ⟨a, vals, hg⟩⟩
      · exact incConstCands_ok ce a v _ _ c hc
  · next a e v => exact incEnumCands_ok ce ce.views ce.fuel a e v _ _ cs h c hc
  · simp only [Except.ok.injEq] at h
    subst h; simp at hc

theorem allCands_ok (ce : CEnv) : ∀ (sss : List (List Bytes)) (cs : List Cand),
    allCands ce sss = .ok cs → ∀ c, c ∈ cs → CandOK ce c
  | [], cs => by
    intro h c hc
    simp only [allCands, Except.ok.injEq] at h
    subst h; simp at hc
  | ss :: r, cs => by
    intro h c hc
    simp only [allCands] at h
    cases ha : altCands ce ss with
    | error e => rw [ha] at h; simp at h
    | ok c1 =>
      rw [ha] at h
      simp only at h
      cases hr : allCands ce r with
      | error e => rw [hr] at h; simp at h
      | ok c2 =>
        rw [hr] at h
        simp only [Except.ok.injEq] at h
        subst h
        rcases List.mem_append.mp hc with hc | hc
        · exact altCands_ok ce ss c1 ha c hc
        · exact allCands_ok ce r c2 hr c hc

/-- What ResolveConstValue does for one identifier. -/
theorem resolveIdent_spec {ce : CEnv} {id : Bytes} {o : Out (Option Extra)} (h : resolveIdent ce id = .ok o) :
    ((id = kwTrue ∨ id = kwFalse) ∧ o = ⟨none, [], []⟩) ∨
    (¬ (id = kwTrue ∨ id = kwFalse) ∧ ∃ c, allCands ce (splitValue id) = .ok [c] ∧
      o = ⟨some c.1, [], candMarks [c]⟩) := by
  unfold resolveIdent at h
  split at h
  · next hk =>
    simp only [Except.ok.injEq] at h
    exact Or.inl ⟨hk, h.symm⟩
  · next hk =>
    right
    refine ⟨hk, ?_⟩
    cases hc : allCands ce (splitValue id) with
    | error e => rw [hc] at h; simp at h
    | ok cs =>
      rw [hc] at h
      simp only at h
      match cs, h with
      | [], h => simp at h
      | [c], h =>
        simp only [Except.ok.injEq] at h
        exact ⟨c, rfl, h.symm⟩
      | _ :: _ :: _, h => simp at h

/-- getEnum's include index is -1 or the Reference index of the root of a typedef of the same AST. -/
theorem getEnum_idx (views : Nat → Option FileView) : ∀ (fuel : Nat) (seen : List (Nat × Bytes)) (j : Nat)
    (name : Bytes) (vals : List Bytes) (idx : Int),
    getEnum views fuel seen j name = .ok (some vals, idx) →
    idx = -1 ∨ ∃ v a root r, views j = some v ∧ v.typedef a = some root ∧ root.ref = some r ∧ idx = (r.index : Int)
  | 0, seen, j, name, vals, idx => by simp [getEnum]
  | fuel + 1, seen, j, name, vals, idx => by
    intro h
    simp only [getEnum] at h
    cases hv : views j with
    | none => rw [hv] at h; simp at h
    | some v =>
      rw [hv] at h
      simp only at h
      cases hn : v.n2c name with
      | none =>
        rw [hn] at h
        simp only [Except.ok.injEq, Prod.mk.injEq, reduceCtorEq, false_and] at h
      | some c =>
        rw [hn] at h
        simp only at h
        by_cases hce : c = .enum
        · rw [if_pos hce] at h
          cases he : v.enum name with
          | none => rw [he] at h; simp at h
          | some vs =>
            rw [he] at h
            simp only [Except.ok.injEq, Prod.mk.injEq] at h
            exact Or.inl h.2.symm
        · rw [if_neg hce] at h
          by_cases hct : c = .typedef
          · rw [if_pos hct] at h
            cases ht : v.typedef name with
            | none => rw [ht] at h; simp at h
            | some td =>
              rw [ht] at h
              simp only at h
              by_cases hseen : (j, name) ∈ seen
              · rw [if_pos hseen] at h
                simp only [Except.ok.injEq, Prod.mk.injEq, reduceCtorEq, false_and] at h
              · rw [if_neg hseen] at h
                cases hr : td.ref with
                | none =>
                  rw [hr] at h
                  simp only at h
                  by_cases hcm : inCategoryMap td.rootName = true
                  · rw [if_pos hcm] at h
                    simp only [Except.ok.injEq, Prod.mk.injEq, reduceCtorEq, false_and] at h
                  · rw [if_neg hcm] at h
                    have := getEnum_idx views fuel _ j td.rootName vals idx h
                    rw [hv] at this
                    exact this
                | some r =>
                  rw [hr] at h
                  simp only at h
                  cases hi : v.incs[r.index]? with
                  | none => rw [hi] at h; simp at h
                  | some tgt =>
                    rw [hi] at h
                    simp only at h
                    cases hs : getEnum views fuel ((j, name) :: seen) tgt r.name with
                    | error e => rw [hs] at h; simp at h
                    | ok res =>
                      obtain ⟨en, i2⟩ := res
                      rw [hs] at h
                      cases en with
                      | none => simp only [Except.ok.injEq, Prod.mk.injEq, reduceCtorEq, false_and] at h
                      | some vs =>
                        simp only [Except.ok.injEq, Prod.mk.injEq] at h
                        exact Or.inr ⟨v, name, td, r, rfl, ht, hr, h.2.symm⟩
          · rw [if_neg hct] at h
            simp only [Except.ok.injEq, Prod.mk.injEq, reduceCtorEq, false_and] at h

end Sem
