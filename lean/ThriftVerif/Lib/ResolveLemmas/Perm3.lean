import ThriftVerif.Lib.ResolveLemmas.Perm2
/-
  Order independence, part 3: ResolveAST on a file and on the same file with its definitions in
  another order (same views) succeed together and store the same things at every slot.
-/
namespace Sem

structure RFileEquiv (rf rf' : RFile) : Prop where
  n2c : ∀ n, lookupB n rf.n2c = lookupB n rf'.n2c
  used : rf.used = rf'.used
  types : ∀ s, rf.nodesAt s = rf'.nodesAt s
  binds : ∀ s, rf.bindsAt s = rf'.bindsAt s
  svc : ∀ n, rf.svcRef n = rf'.svcRef n

/-- the equations a successful ResolveAST consists of -/
structure Run (views : Nat → Option FileView) (gfuel i : Nat) (f : File) (rf : RFile) where
  incs : List IncInfo
  n2cL : N2C
  tds : Out DefOut
  cs : Out DefOut
  ss : Out DefOut
  svs : Out DefOut
  st : Store
  e1 : mkIncs views f.includes = .ok incs
  e2 : registerNames f = .ok n2cL
  e3 : flatOut (mapOut (resolveTypedefDef (mkEnv n2cL incs)) f.typedefs) = .ok tds
  e4 : flatOut (mapOut (resolveConstantDef
        (mkCE views gfuel i (mkEnv n2cL incs) (mkCur (mkEnv n2cL incs) tds.val.types f))) f.constants) = .ok cs
  e5 : flatOut (mapOut (resolveStructLikeDef
        (mkCE views gfuel i (mkEnv n2cL incs) (mkCur (mkEnv n2cL incs) tds.val.types f))) f.structLikes) = .ok ss
  e6 : flatOut (mapOut (resolveServiceDef
        (mkCE views gfuel i (mkEnv n2cL incs) (mkCur (mkEnv n2cL incs) tds.val.types f))) f.services) = .ok svs
  e7 : resolveTypedefs (mkLE views incs (mkCur (mkEnv n2cL incs) tds.val.types f))
        (tds.work ++ cs.work ++ ss.work ++ svs.work) = .ok st
  e8 : rf = { n2c := n2cL
              used := usedFlags f.includes.length (tds.used ++ cs.used ++ ss.used ++ svs.used)
              types := patchTypes st (((tds.val.append cs.val).append ss.val).append svs.val).types
              binds := (((tds.val.append cs.val).append ss.val).append svs.val).binds
              svcRefs := (((tds.val.append cs.val).append ss.val).append svs.val).svc }

theorem resolveAST_run {views : Nat → Option FileView} {gfuel i : Nat} {f : File} {rf : RFile}
    (h : resolveAST views gfuel i f = .ok rf) : Nonempty (Run views gfuel i f rf) := by
  unfold resolveAST at h
  cases h1 : mkIncs views f.includes with
  | error e => rw [h1] at h; simp at h
  | ok incs =>
    rw [h1] at h; simp only at h
    cases h2 : registerNames f with
    | error e => rw [h2] at h; simp at h
    | ok n2cL =>
      rw [h2] at h; simp only at h
      cases h3 : flatOut (mapOut (resolveTypedefDef (mkEnv n2cL incs)) f.typedefs) with
      | error e => rw [h3] at h; simp at h
      | ok tds =>
        rw [h3] at h; simp only at h
        cases h4 : flatOut (mapOut (resolveConstantDef
            (mkCE views gfuel i (mkEnv n2cL incs) (mkCur (mkEnv n2cL incs) tds.val.types f))) f.constants) with
        | error e => rw [h4] at h; simp at h
        | ok cs =>
          rw [h4] at h; simp only at h
          cases h5 : flatOut (mapOut (resolveStructLikeDef
              (mkCE views gfuel i (mkEnv n2cL incs) (mkCur (mkEnv n2cL incs) tds.val.types f))) f.structLikes) with
          | error e => rw [h5] at h; simp at h
          | ok ss =>
            rw [h5] at h; simp only at h
            cases h6 : flatOut (mapOut (resolveServiceDef
                (mkCE views gfuel i (mkEnv n2cL incs) (mkCur (mkEnv n2cL incs) tds.val.types f))) f.services) with
            | error e => rw [h6] at h; simp at h
            | ok svs =>
              rw [h6] at h; simp only at h
              cases h7 : resolveTypedefs (mkLE views incs (mkCur (mkEnv n2cL incs) tds.val.types f))
                  (tds.work ++ cs.work ++ ss.work ++ svs.work) with
              | error e => rw [h7] at h; simp at h
              | ok st =>
                rw [h7] at h
                simp only [Except.ok.injEq] at h
                exact ⟨⟨incs, n2cL, tds, cs, ss, svs, st, h1, h2, h3, h4, h5, h6, h7, h.symm⟩⟩

theorem resolveAST_of_run {views : Nat → Option FileView} {gfuel i : Nat} {f : File} {rf : RFile}
    (R : Run views gfuel i f rf) : resolveAST views gfuel i f = .ok rf := by
  unfold resolveAST
  rw [R.e1]; simp only
  rw [R.e2]; simp only
  rw [R.e3]; simp only
  rw [R.e4]; simp only
  rw [R.e5]; simp only
  rw [R.e6]; simp only
  rw [R.e7]; simp only
  exact congrArg Except.ok R.e8.symm

/-- the four loops of a run as one trace over the file's events -/
theorem Run.traces {views : Nat → Option FileView} {gfuel i : Nat} {f : File} {rf : RFile}
    (R : Run views gfuel i f rf) :
    Trace (mkCE views gfuel i (mkEnv R.n2cL R.incs) (mkCur (mkEnv R.n2cL R.incs) R.tds.val.types f))
      (f.typedefs.map (fun td => Ev.ty (.typedef td.alias) td.type)) R.tds ∧
    Trace (mkCE views gfuel i (mkEnv R.n2cL R.incs) (mkCur (mkEnv R.n2cL R.incs) R.tds.val.types f))
      f.events (Out.seq (Out.seq (Out.seq R.tds R.cs) R.ss) R.svs) := by
  generalize hce : mkCE views gfuel i (mkEnv R.n2cL R.incs) (mkCur (mkEnv R.n2cL R.incs) R.tds.val.types f) = ce
  have hceenv : ce.env = mkEnv R.n2cL R.incs := by rw [← hce]; rfl
  have t1 : Trace ce (f.typedefs.map (fun td => Ev.ty (.typedef td.alias) td.type)) R.tds := by
    have := flatOut_mapOut_trace (ce := ce) (resolveTypedefDef (mkEnv R.n2cL R.incs))
      (fun td => [Ev.ty (.typedef td.alias) td.type])
      (fun td o ho => by
        unfold resolveTypedefDef at ho
        rw [← hceenv] at ho
        exact resolveSlot_trace ho) f.typedefs R.tds R.e3
    rw [← map_eq_flatMap] at this
    exact this
  have t2 := flatOut_mapOut_trace (ce := ce) (resolveConstantDef ce) _
    (fun c o ho => resolveConstantDef_trace ho) f.constants R.cs (by rw [← hce]; exact R.e4)
  have t3 := flatOut_mapOut_trace (ce := ce) (resolveStructLikeDef ce) _
    (fun c o ho => resolveStructLikeDef_trace ho) f.structLikes R.ss (by rw [← hce]; exact R.e5)
  have t4 := flatOut_mapOut_trace (ce := ce) (resolveServiceDef ce) svcEvs
    (fun c o ho => resolveServiceDef_trace ho) f.services R.svs (by rw [← hce]; exact R.e6)
  exact ⟨t1, ((t1.append t2).append t3).append t4⟩

theorem usedFlags_congr {n : Nat} {m m' : List Nat} (h : ∀ u, u ∈ m ↔ u ∈ m') :
    usedFlags n m = usedFlags n m' := by
  unfold usedFlags
  apply List.map_congr_left
  intro k _
  exact decide_eq_decide.mpr (h k)

theorem patchNodes_congr {st st' : Store} (h : ∀ a, st'.get a = st.get a) (s : Slot) :
    ∀ (ns : List RNode) (k : Nat), patchNodes st' s k ns = patchNodes st s k ns
  | [], _ => rfl
  | n :: r, k => by simp only [patchNodes, h, patchNodes_congr h s r (k + 1)]

theorem resolveAST_perm {p : Program} {views : Nat → Option FileView} {gfuel i : Nat} {f f' : File} {rf : RFile}
    (hf : p[i]? = some f) (hv : ViewsGood p views) (hp : FilePerm f f')
    (h : resolveAST views gfuel i f = .ok rf) :
    ∃ rf', resolveAST views gfuel i f' = .ok rf' ∧ RFileEquiv rf rf' := by
  obtain ⟨R⟩ := resolveAST_run h
  obtain ⟨hnd, hn2c⟩ := registerNames_ok R.e2
  have hnd' : f'.names.Nodup := hp.nodup.mp hnd
  obtain ⟨n2cL', e2'⟩ := registerNames_complete hnd'
  obtain ⟨_, hn2c'⟩ := registerNames_ok e2'
  have henv : mkEnv n2cL' R.incs = mkEnv R.n2cL R.incs := by
    unfold mkEnv
    congr 1
    funext n
    apply option_eq_of_imp
    · intro c hc; exact (hn2c n c).mpr ((hp.declares n c).mpr ((hn2c' n c).mp hc))
    · intro c hc; exact (hn2c' n c).mpr ((hp.declares n c).mp ((hn2c n c).mp hc))
  obtain ⟨t1, tall⟩ := R.traces
  generalize hce : mkCE views gfuel i (mkEnv R.n2cL R.incs) (mkCur (mkEnv R.n2cL R.incs) R.tds.val.types f) = ce
    at t1 tall
  have hceenv : ce.env = mkEnv R.n2cL R.incs := by rw [← hce]; rfl
  -- typedefs
  obtain ⟨tds', e3'⟩ := flat_mapOut_perm _ hp.typedefs R.e3
  have t1' : Trace ce (f'.typedefs.map (fun td => Ev.ty (.typedef td.alias) td.type)) tds' := by
    have := flatOut_mapOut_trace (ce := ce) (resolveTypedefDef (mkEnv R.n2cL R.incs))
      (fun td => [Ev.ty (.typedef td.alias) td.type])
      (fun td o ho => by
        unfold resolveTypedefDef at ho
        rw [← hceenv] at ho
        exact resolveSlot_trace ho) f'.typedefs tds' e3'
    rw [← map_eq_flatMap] at this
    exact this
  have hmemtd : ∀ ev, ev ∈ f.typedefs.map (fun td => Ev.ty (.typedef td.alias) td.type) ↔
      ev ∈ f'.typedefs.map (fun td => Ev.ty (.typedef td.alias) td.type) := fun ev => (hp.typedefs.map _).mem_iff
  have tdeq : ∀ s, lookupSlot s R.tds.val.types = lookupSlot s tds'.val.types := by
    intro s
    apply option_eq_of_imp
    · intro v hl
      have hk : s ∈ tySlots (f.typedefs.map (fun td => Ev.ty (.typedef td.alias) td.type)) := by
        rw [← t1.type_keys]
        exact List.mem_map.mpr ⟨(s, v), lookupSlot_some_mem hl, rfl⟩
      obtain ⟨te, hev⟩ := mem_tySlots.mp hk
      obtain ⟨r, q1, q2, _⟩ := t1.type_at (typedef_events_nodup f hnd) s te hev
      obtain ⟨r', q1', q2', _⟩ := t1'.type_at (typedef_events_nodup f' hnd') s te ((hmemtd _).mp hev)
      rw [q1] at q1'; simp only [Except.ok.injEq] at q1'; subst q1'
      rw [q2] at hl; rw [q2', ← hl]
    · intro v hl
      have hk : s ∈ tySlots (f'.typedefs.map (fun td => Ev.ty (.typedef td.alias) td.type)) := by
        rw [← t1'.type_keys]
        exact List.mem_map.mpr ⟨(s, v), lookupSlot_some_mem hl, rfl⟩
      obtain ⟨te, hev⟩ := mem_tySlots.mp hk
      obtain ⟨r, q1, q2, _⟩ := t1'.type_at (typedef_events_nodup f' hnd') s te hev
      obtain ⟨r', q1', q2', _⟩ := t1.type_at (typedef_events_nodup f hnd) s te ((hmemtd _).mpr hev)
      rw [q1] at q1'; simp only [Except.ok.injEq] at q1'; subst q1'
      rw [q2] at hl; rw [q2', ← hl]
  have hcur : mkCur (mkEnv R.n2cL R.incs) tds'.val.types f' = mkCur (mkEnv R.n2cL R.incs) R.tds.val.types f := by
    unfold mkCur mkView
    congr 1
    · funext a
      unfold tdRootOf
      rw [← findTypedef_perm hp.typedefs (names_sublists f hnd).1, ← tdeq]
    · funext n
      rw [← findEnum_perm hp.enums (names_sublists f hnd).2.2.1]
    · rw [hp.includes]
  have hce' : mkCE views gfuel i (mkEnv R.n2cL R.incs) (mkCur (mkEnv R.n2cL R.incs) tds'.val.types f') = ce := by
    rw [hcur, hce]
  have e4f := R.e4
  have e5f := R.e5
  have e6f := R.e6
  rw [hce] at e4f e5f e6f
  obtain ⟨cs', e4'⟩ := flat_mapOut_perm _ hp.constants e4f
  obtain ⟨ss', e5'⟩ := flat_mapOut_perm _ hp.structLikes e5f
  obtain ⟨svs', e6'⟩ := flat_mapOut_perm _ hp.services e6f
  -- the trace of the permuted file
  have t2' := flatOut_mapOut_trace (ce := ce) (resolveConstantDef ce) _
    (fun c o ho => resolveConstantDef_trace ho) f'.constants cs' e4'
  have t3' := flatOut_mapOut_trace (ce := ce) (resolveStructLikeDef ce) _
    (fun c o ho => resolveStructLikeDef_trace ho) f'.structLikes ss' e5'
  have t4' := flatOut_mapOut_trace (ce := ce) (resolveServiceDef ce) svcEvs
    (fun c o ho => resolveServiceDef_trace ho) f'.services svs' e6'
  have tall' : Trace ce f'.events (Out.seq (Out.seq (Out.seq tds' cs') ss') svs') :=
    ((t1'.append t2').append t3').append t4'
  have teq := trace_equiv tall tall' hp.events hp.symm.events
    (events_ty_nodup f hnd) (events_ty_nodup f' hnd') (events_cv_nodup f hnd) (events_cv_nodup f' hnd')
    (events_svc_nodup f hnd) (events_svc_nodup f' hnd')
  -- the loop
  have hincs := mkIncs_good hv f.includes R.incs R.e1
  have hg : EnvGood p i f ce.env := by
    rw [hceenv]
    refine ⟨hf, hnd, hn2c, hincs.1, ?_⟩
    intro k inc hk
    obtain ⟨ii, g, q1, q2, q3, q4, q5, q6, _⟩ := hincs.2 k inc hk
    exact ⟨ii, g, q1, q2, q3, q4, q5, q6⟩
  have T : Traced p i f ce R.tds (Out.seq (Out.seq (Out.seq R.tds R.cs) R.ss) R.svs) := ⟨hg, t1, tall⟩
  have e7f : resolveTypedefs (mkLE views R.incs (mkCur ce.env R.tds.val.types f))
      (Out.seq (Out.seq (Out.seq R.tds R.cs) R.ss) R.svs).work = .ok R.st := by
    rw [hceenv]; exact R.e7
  obtain ⟨st', e7', hst⟩ := T.loop_perm (views := views) (incs := R.incs)
    (w' := (Out.seq (Out.seq (Out.seq tds' cs') ss') svs').work) (fun x => (teq.work x).symm) e7f
  rw [hceenv] at e7'
  -- assemble the run on the permuted file
  have R' : Run views gfuel i f' _ :=
    { incs := R.incs, n2cL := n2cL', tds := tds', cs := cs', ss := ss', svs := svs', st := st'
      e1 := by rw [← hp.includes]; exact R.e1
      e2 := e2'
      e3 := by rw [henv]; exact e3'
      e4 := by rw [henv, hce']; exact e4'
      e5 := by rw [henv, hce']; exact e5'
      e6 := by rw [henv, hce']; exact e6'
      e7 := by rw [henv, hcur]; exact e7'
      e8 := rfl }
  refine ⟨_, resolveAST_of_run R', ?_⟩
  rw [R.e8]
  refine ⟨?_, ?_, ?_, ?_, ?_⟩
  · intro n
    apply option_eq_of_imp
    · intro c hc; exact (hn2c' n c).mpr ((hp.declares n c).mp ((hn2c n c).mp hc))
    · intro c hc; exact (hn2c n c).mpr ((hp.declares n c).mpr ((hn2c' n c).mp hc))
  · simp only
    rw [← hp.includes]
    exact usedFlags_congr teq.used
  · intro s
    simp only [RFile.nodesAt]
    rw [lookupSlot_patch, lookupSlot_patch]
    have := teq.types s
    simp only [Out.seq] at this
    rw [this]
    congr 1
    funext ns
    exact (patchNodes_congr hst s ns 0).symm
  · intro s
    simp only [RFile.bindsAt]
    have := teq.binds s
    simp only [Out.seq] at this
    exact this
  · intro n
    simp only [RFile.svcRef]
    have := teq.svc n
    simp only [Out.seq] at this
    exact this

end Sem
