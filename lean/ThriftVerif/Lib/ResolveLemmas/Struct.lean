import ThriftVerif.Lib.ResolveLemmas.Basic
/-
  Shape of the outputs: `mapOut` / `mapOutIdx` as lists of per-item outputs, and ResolveType as
  the per-node function mapped over the nodes of the type expression in pre-order.
-/
namespace Sem

/-- per-item outputs put together the way `mapOut` does -/
def combine {β} (as : List (Out β)) : Out (List β) :=
  ⟨as.map (·.val), as.flatMap (·.work), as.flatMap (·.used)⟩

/-- `as` are the outputs of `g` on the items of `l`, positions counted from `k`. -/
inductive IdxAll {α β} (g : Nat → α → Res (Out β)) : Nat → List α → List (Out β) → Prop
  | nil {k} : IdxAll g k [] []
  | cons {k x a r as} : g k x = .ok a → IdxAll g (k + 1) r as → IdxAll g k (x :: r) (a :: as)

theorem mapOutIdx_ok {α β} (g : Nat → α → Res (Out β)) : ∀ (l : List α) (k : Nat) (o : Out (List β)),
    mapOutIdx g k l = .ok o → ∃ as, IdxAll g k l as ∧ o = combine as
  | [], k, o => by
    intro h
    simp only [mapOutIdx, Except.ok.injEq] at h
    exact ⟨[], .nil, by rw [← h]; rfl⟩
  | x :: r, k, o => by
    intro h
    simp only [mapOutIdx] at h
    cases hg : g k x with
    | error e => rw [hg] at h; simp at h
    | ok a =>
      rw [hg] at h
      simp only at h
      cases hr : mapOutIdx g (k + 1) r with
      | error e => rw [hr] at h; simp at h
      | ok b =>
        rw [hr] at h
        simp only [Except.ok.injEq] at h
        obtain ⟨as, has, hb⟩ := mapOutIdx_ok g r (k + 1) b hr
        refine ⟨a :: as, .cons hg has, ?_⟩
        rw [← h, hb]
        simp [combine]

theorem mapOutIdx_of_all {α β} (g : Nat → α → Res (Out β)) : ∀ (l : List α) (k : Nat) (as : List (Out β)),
    IdxAll g k l as → mapOutIdx g k l = .ok (combine as)
  | _, _, _, .nil => rfl
  | _, _, _, .cons hg hr => by
    simp only [mapOutIdx, hg, mapOutIdx_of_all g _ _ _ hr]
    simp [combine]

theorem mapOutIdx_error {α β} (g : Nat → α → Res (Out β)) : ∀ (l : List α) (k : Nat) (e : Err),
    mapOutIdx g k l = .error e → ∃ j x, l[j]? = some x ∧ g (k + j) x = .error e
  | [], k, e => by simp [mapOutIdx]
  | x :: r, k, e => by
    intro h
    simp only [mapOutIdx] at h
    cases hg : g k x with
    | error e' =>
      rw [hg] at h
      simp only [Except.error.injEq] at h
      exact ⟨0, x, rfl, by rw [Nat.add_zero, hg, h]⟩
    | ok a =>
      rw [hg] at h
      simp only at h
      cases hr : mapOutIdx g (k + 1) r with
      | error e' =>
        rw [hr] at h
        simp only [Except.error.injEq] at h
        subst h
        obtain ⟨j, y, hj, hy⟩ := mapOutIdx_error g r (k + 1) e' hr
        exact ⟨j + 1, y, by simpa using hj, by rw [← hy]; congr 1; omega⟩
      | ok b => rw [hr] at h; simp at h

theorem IdxAll.length {α β} {g : Nat → α → Res (Out β)} {k l as} (h : IdxAll g k l as) :
    as.length = l.length := by
  induction h with
  | nil => rfl
  | cons _ _ ih => simp [ih]

theorem IdxAll.get {α β} {g : Nat → α → Res (Out β)} {k l as} (h : IdxAll g k l as) :
    ∀ j x, l[j]? = some x → ∃ a, as[j]? = some a ∧ g (k + j) x = .ok a := by
  induction h with
  | nil => intro j x hj; simp at hj
  | @cons k x0 a r as hg _ ih =>
    intro j x hj
    cases j with
    | zero =>
      simp only [List.getElem?_cons_zero, Option.some.injEq] at hj
      subst hj
      exact ⟨a, rfl, by simpa using hg⟩
    | succ j =>
      simp only [List.getElem?_cons_succ] at hj
      obtain ⟨a', h1, h2⟩ := ih j x hj
      exact ⟨a', by simpa using h1, by rw [← h2]; congr 1; omega⟩

theorem IdxAll.get' {α β} {g : Nat → α → Res (Out β)} {k l as} (h : IdxAll g k l as) :
    ∀ j a, as[j]? = some a → ∃ x, l[j]? = some x ∧ g (k + j) x = .ok a := by
  induction h with
  | nil => intro j x hj; simp at hj
  | @cons k x0 a r as hg _ ih =>
    intro j a' hj
    cases j with
    | zero =>
      simp only [List.getElem?_cons_zero, Option.some.injEq] at hj
      subst hj
      exact ⟨x0, rfl, by simpa using hg⟩
    | succ j =>
      simp only [List.getElem?_cons_succ] at hj
      obtain ⟨x, h1, h2⟩ := ih j a' hj
      exact ⟨x, by simpa using h1, by rw [← h2]; congr 1; omega⟩

theorem IdxAll.append {α β} {g : Nat → α → Res (Out β)} : ∀ {k l1 as1 l2 as2},
    IdxAll g k l1 as1 → IdxAll g (k + l1.length) l2 as2 → IdxAll g k (l1 ++ l2) (as1 ++ as2) := by
  intro k l1 as1 l2 as2 h1
  induction h1 with
  | nil => intro h2; simpa using h2
  | @cons k x a r as hg _ ih =>
    intro h2
    simp only [List.cons_append]
    refine .cons hg (ih ?_)
    have : k + (x :: r).length = k + 1 + r.length := by simp; omega
    rw [this] at h2
    exact h2

theorem IdxAll.split {α β} {g : Nat → α → Res (Out β)} : ∀ (l1 : List α) {k l2 as},
    IdxAll g k (l1 ++ l2) as →
    ∃ as1 as2, as = as1 ++ as2 ∧ IdxAll g k l1 as1 ∧ IdxAll g (k + l1.length) l2 as2
  | [], k, l2, as, h => ⟨[], as, rfl, .nil, by simpa using h⟩
  | x :: r, k, l2, as, h => by
    cases h with
    | cons hg hr =>
      obtain ⟨as1, as2, e, h1, h2⟩ := IdxAll.split r hr
      refine ⟨_ :: as1, as2, by rw [e]; rfl, .cons hg h1, ?_⟩
      have : k + (x :: r).length = k + 1 + r.length := by simp; omega
      rw [this]
      exact h2

theorem mapOut_eq_idx {α β} (g : α → Res (Out β)) : ∀ (l : List α) (k : Nat),
    mapOut g l = mapOutIdx (fun _ => g) k l
  | [], k => rfl
  | x :: r, k => by
    simp only [mapOut, mapOutIdx, mapOut_eq_idx g r (k + 1)]

theorem combine_append {β} (as bs : List (Out β)) :
    combine (as ++ bs) = ⟨(combine as).val ++ (combine bs).val, (combine as).work ++ (combine bs).work,
      (combine as).used ++ (combine bs).used⟩ := by
  simp [combine]

theorem mem_combine_work {β} {as : List (Out β)} {e : TdEntry} :
    e ∈ (combine as).work ↔ ∃ a, a ∈ as ∧ e ∈ a.work := by
  simp [combine, List.mem_flatMap]

theorem mem_combine_used {β} {as : List (Out β)} {e : Nat} :
    e ∈ (combine as).used ↔ ∃ a, a ∈ as ∧ e ∈ a.used := by
  simp [combine, List.mem_flatMap]

theorem combine_val_get {β} {as : List (Out β)} (j : Nat) :
    (combine as).val[j]? = (as[j]?).map (·.val) := by
  simp [combine]

/-! ### ResolveType is `nodeOut` mapped over the nodes -/

theorem resolveType_eq (env : Env) (slot : Slot) : ∀ (te : TypeExpr) (off : Nat),
    resolveType env slot off te = mapOutIdx (nodeOut env slot) off te.nodes
  | .name n, off => by
    simp only [resolveType, TypeExpr.nodes, mapOutIdx, nodeOut]
    cases resolveName env slot off n with
    | error e => rfl
    | ok o => simp
  | .list v, off => by
    simp only [resolveType, TypeExpr.nodes, mapOutIdx, nodeOut, resolveType_eq env slot v (off + 1)]
    cases mapOutIdx (nodeOut env slot) (off + 1) v.nodes with
    | error e => rfl
    | ok o => simp
  | .set v, off => by
    simp only [resolveType, TypeExpr.nodes, mapOutIdx, nodeOut, resolveType_eq env slot v (off + 1)]
    cases mapOutIdx (nodeOut env slot) (off + 1) v.nodes with
    | error e => rfl
    | ok o => simp
  | .map k v, off => by
    simp only [resolveType, TypeExpr.nodes, mapOutIdx, nodeOut, resolveType_eq env slot k (off + 1)]
    cases hk : mapOutIdx (nodeOut env slot) (off + 1) k.nodes with
    | error e =>
      simp only
      cases hkv : mapOutIdx (nodeOut env slot) (off + 1) (k.nodes ++ v.nodes) with
      | error e' =>
        -- the first failing node is in the key part in both readings
        obtain ⟨j, x, hj, hx⟩ := mapOutIdx_error _ _ _ _ hk
        have : e' = e := by
          have := first_error (nodeOut env slot) (k.nodes ++ v.nodes) k.nodes (off + 1) e' e hkv hk
            (fun j x hj => by rw [List.getElem?_append]; rw [if_pos]; exact hj
                              exact (List.getElem?_eq_some_iff.mp hj).1)
          exact this
        rw [this]
      | ok o =>
        exfalso
        obtain ⟨as, has, _⟩ := mapOutIdx_ok _ _ _ _ hkv
        obtain ⟨as1, as2, _, h1, _⟩ := IdxAll.split k.nodes has
        rw [mapOutIdx_of_all _ _ _ _ h1] at hk
        simp at hk
    | ok ok =>
      simp only
      obtain ⟨as1, h1, e1⟩ := mapOutIdx_ok _ _ _ _ hk
      have hlen : ok.val.length = k.nodes.length := by rw [e1]; simp [combine, h1.length]
      rw [resolveType_eq env slot v (off + 1 + ok.val.length), hlen]
      cases hv : mapOutIdx (nodeOut env slot) (off + 1 + k.nodes.length) v.nodes with
      | error e =>
        simp only
        cases hkv : mapOutIdx (nodeOut env slot) (off + 1) (k.nodes ++ v.nodes) with
        | error e' =>
          obtain ⟨j, x, hj, hx⟩ := mapOutIdx_error _ _ _ _ hkv
          by_cases hjl : j < k.nodes.length
          · exfalso
            rw [List.getElem?_append, if_pos hjl] at hj
            obtain ⟨a, _, ha⟩ := h1.get j x hj
            rw [ha] at hx; simp at hx
          · -- failing node is in the value part: it is the first failing node there too
            have := first_error_suffix (nodeOut env slot) k.nodes v.nodes (off + 1) as1 e' e h1 hkv hv
            rw [this]
        | ok o =>
          exfalso
          obtain ⟨as, has, _⟩ := mapOutIdx_ok _ _ _ _ hkv
          obtain ⟨_, as2, _, _, h2⟩ := IdxAll.split k.nodes has
          rw [mapOutIdx_of_all _ _ _ _ h2] at hv
          simp at hv
      | ok ov =>
        simp only
        obtain ⟨as2, h2, e2⟩ := mapOutIdx_ok _ _ _ _ hv
        rw [mapOutIdx_of_all _ _ _ _ (h1.append h2), combine_append, ← e1, ← e2]
        simp
where
  first_error {α β} (g : Nat → α → Res (Out β)) : ∀ (l l1 : List α) (k : Nat) (e e1 : Err),
      mapOutIdx g k l = .error e → mapOutIdx g k l1 = .error e1 →
      (∀ j x, l1[j]? = some x → l[j]? = some x) → e = e1
    | l, [], k, e, e1 => by intro _ h; simp [mapOutIdx] at h
    | [], y :: r1, k, e, e1 => by
      intro _ _ h
      have := h 0 y List.getElem?_cons_zero
      rw [List.getElem?_nil] at this
      cases this
    | x :: r, y :: r1, k, e, e1 => by
      intro h h1 hp
      have hxy : x = y := by
        have := hp 0 y List.getElem?_cons_zero
        rw [List.getElem?_cons_zero] at this
        exact Option.some.inj this
      subst hxy
      simp only [mapOutIdx] at h h1
      cases hg : g k x with
      | error e' =>
        rw [hg] at h h1
        simp only [Except.error.injEq] at h h1
        rw [← h, ← h1]
      | ok a =>
        rw [hg] at h h1
        simp only at h h1
        cases hr : mapOutIdx g (k + 1) r with
        | ok b => rw [hr] at h; simp at h
        | error e' =>
          cases hr1 : mapOutIdx g (k + 1) r1 with
          | ok b => rw [hr1] at h1; simp at h1
          | error e1' =>
            rw [hr] at h; rw [hr1] at h1
            simp only [Except.error.injEq] at h h1
            subst h; subst h1
            exact first_error g r r1 (k + 1) _ _ hr hr1
              (fun j z hz => by
                have := hp (j + 1) z (by rw [List.getElem?_cons_succ]; exact hz)
                rw [List.getElem?_cons_succ] at this
                exact this)
  first_error_suffix {α β} (g : Nat → α → Res (Out β)) : ∀ (l1 l2 : List α) (k : Nat) (as1 : List (Out β))
      (e e2 : Err), IdxAll g k l1 as1 → mapOutIdx g k (l1 ++ l2) = .error e →
      mapOutIdx g (k + l1.length) l2 = .error e2 → e = e2
    | [], l2, k, as1, e, e2 => by
      intro _ h h2
      simp only [List.nil_append, List.length_nil, Nat.add_zero] at h h2
      rw [h] at h2
      exact Except.error.inj h2
    | x :: r, l2, k, as1, e, e2 => by
      intro h1 h h2
      cases h1 with
      | cons hg hr =>
        simp only [List.cons_append, mapOutIdx, hg] at h
        cases hrr : mapOutIdx g (k + 1) (r ++ l2) with
        | ok b => rw [hrr] at h; simp at h
        | error e' =>
          rw [hrr] at h
          simp only [Except.error.injEq] at h
          subst h
          have : k + (x :: r).length = k + 1 + r.length := by simp; omega
          rw [this] at h2
          exact first_error_suffix g r l2 (k + 1) _ _ _ hr hrr h2

/-- ResolveType on a type expression: one `nodeOut` per node, in pre-order. -/
theorem resolveType_ok {env : Env} {slot : Slot} {te : TypeExpr} {off : Nat} {o : Out (List RNode)}
    (h : resolveType env slot off te = .ok o) :
    ∃ as, IdxAll (nodeOut env slot) off te.nodes as ∧ o = combine as := by
  rw [resolveType_eq] at h
  exact mapOutIdx_ok _ _ _ _ h

end Sem
