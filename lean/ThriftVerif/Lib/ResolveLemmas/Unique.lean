import ThriftVerif.Lib.ResolveLemmas.Prog
/-
  The denotation relations are functional on resolved programs.
-/
namespace Sem

theorem firstInc_unique' {p : Program} {f : File}
    (hN : ∀ (k : Nat) (inc : Include) (g : File), f.includes[k]? = some inc → p[inc.target]? = some g → g.names.Nodup)
    {okc : Cat → Bool} {a b : Bytes} {k j k' j' : Nat} {c c' : Cat}
    (h : FirstInc p f okc a b k j c) (h' : FirstInc p f okc a b k' j' c') : k = k' ∧ j = j' ∧ c = c' := by
  obtain ⟨inc, g, h1, h2, h3, h4, h5, h6, h7⟩ := h
  obtain ⟨inc', g', h1', h2', h3', h4', h5', h6', h7'⟩ := h'
  have hk : k = k' := by
    rcases Nat.lt_trichotomy k k' with hlt | heq | hgt
    · have := h7' k inc g c hlt h1 h3 (by rw [h2]; exact h4) h5
      rw [h6] at this; simp at this
    · exact heq
    · have := h7 k' inc' g' c' hgt h1' h3' (by rw [h2']; exact h4') h5'
      rw [h6'] at this; simp at this
  subst hk
  rw [h1] at h1'
  simp only [Option.some.injEq] at h1'
  subst h1'
  rw [h2] at h2'
  subst h2'
  rw [h4] at h4'
  simp only [Option.some.injEq] at h4'
  subst h4'
  have hnd := hN k inc g h1 (by rw [h2]; exact h4)
  exact ⟨rfl, rfl, declares_unique hnd h5 h5'⟩

theorem den_nm_inv {p : Program} {j : Nat} {b : Bytes} {t : Target} (h : Den p j (.nm b) t) :
    (∃ f c, p[j]? = some f ∧ Declares f b c ∧ c.isConcrete = true ∧ t = ⟨j, b, c⟩) ∨
    (∃ f td, p[j]? = some f ∧ td ∈ f.typedefs ∧ td.alias = b ∧ Den p j (.ty td.type) t) := by
  generalize hx : NameOrType.nm b = x at h
  cases h with
  | concrete h1 h2 h3 =>
    simp only [NameOrType.nm.injEq] at hx
    subst hx
    exact Or.inl ⟨_, _, h1, h2, h3, rfl⟩
  | typedef h1 h2 h3 =>
    simp only [NameOrType.nm.injEq] at hx
    exact Or.inr ⟨_, _, h1, h2, hx.symm, h3⟩
  | base _ => cases hx
  | list => cases hx
  | set => cases hx
  | map => cases hx
  | loc _ _ _ => cases hx
  | qual _ _ _ _ _ => cases hx

theorem den_ty_name_inv {p : Program} {j : Nat} {n : Bytes} {t : Target} (h : Den p j (.ty (.name n)) t) :
    (∃ c, specBase n = some c ∧ t = ⟨j, n, c⟩) ∨
    (specBase n = none ∧ splitLastDot n = none ∧ Den p j (.nm n) t) ∨
    (∃ f a b k j' c, specBase n = none ∧ splitLastDot n = some (a, b) ∧ p[j]? = some f ∧
      FirstInc p f Cat.isTypeLikeSpec a b k j' c ∧ Den p j' (.nm b) t) := by
  generalize hx : NameOrType.ty (.name n) = x at h
  cases h with
  | concrete _ _ _ => cases hx
  | typedef _ _ _ => cases hx
  | base h1 =>
    simp only [NameOrType.ty.injEq, TypeExpr.name.injEq] at hx
    subst hx
    exact Or.inl ⟨_, h1, rfl⟩
  | list => cases hx
  | set => cases hx
  | map => cases hx
  | loc h1 h2 h3 =>
    simp only [NameOrType.ty.injEq, TypeExpr.name.injEq] at hx
    subst hx
    exact Or.inr (Or.inl ⟨h1, h2, h3⟩)
  | qual h1 h2 h3 h4 h5 =>
    simp only [NameOrType.ty.injEq, TypeExpr.name.injEq] at hx
    subst hx
    exact Or.inr (Or.inr ⟨_, _, _, _, _, _, h1, h2, h3, h4, h5⟩)

def containerCat : TypeExpr → Cat
  | .list _ => .list
  | .set _ => .set
  | .map _ _ => .map
  | .name _ => .constant

theorem den_ty_container_inv {p : Program} {j : Nat} {te : TypeExpr} {t : Target}
    (h : Den p j (.ty te) t) (hte : ∀ n, te ≠ .name n) :
    t = ⟨j, te.rootName, containerCat te⟩ := by
  generalize hx : NameOrType.ty te = x at h
  cases h with
  | concrete _ _ _ => cases hx
  | typedef _ _ _ => cases hx
  | base _ => simp only [NameOrType.ty.injEq] at hx; exact absurd hx (hte _)
  | list => simp only [NameOrType.ty.injEq] at hx; subst hx; rfl
  | set => simp only [NameOrType.ty.injEq] at hx; subst hx; rfl
  | map => simp only [NameOrType.ty.injEq] at hx; subst hx; rfl
  | loc _ _ _ => simp only [NameOrType.ty.injEq] at hx; exact absurd hx (hte _)
  | qual _ _ _ _ _ => simp only [NameOrType.ty.injEq] at hx; exact absurd hx (hte _)

theorem concrete_ne_typedef {c : Cat} (h : c.isConcrete = true) : c ≠ .typedef := by
  intro e; subst e; simp [Cat.isConcrete] at h

theorem den_cat_ne_typedef {p : Program} {j : Nat} {x : NameOrType} {t : Target} (h : Den p j x t) :
    t.cat ≠ .typedef := by
  induction h with
  | concrete _ _ h3 => exact concrete_ne_typedef h3
  | typedef _ _ _ ih => exact ih
  | base h1 => exact (specBase_isBase h1).1
  | list => simp
  | set => simp
  | map => simp
  | loc _ _ _ ih => exact ih
  | qual _ _ _ _ _ ih => exact ih

/-- On a program resolved up to `tbl`, denotations from a finished file are unique. -/
theorem den_unique {p : Program} {gfuel : Nat} {tbl : Table} (inv : TableInv p gfuel tbl) :
    ∀ {j x t}, Den p j x t → (∃ rf, tbl[j]? = some (some rf)) → ∀ t', Den p j x t' → t = t' := by
  have hNodup : ∀ (j : Nat) (f : File), p[j]? = some f → (∃ rf, tbl[j]? = some (some rf)) → f.names.Nodup :=
    fun j f hf ⟨rf, hr⟩ => (inv.good j f rf hf hr).nodup
  have hIncs : ∀ (j : Nat) (f : File), p[j]? = some f → (∃ rf, tbl[j]? = some (some rf)) →
      ∀ (k : Nat) (inc : Include) (g : File), f.includes[k]? = some inc → p[inc.target]? = some g →
        g.names.Nodup ∧ ∃ rf', tbl[inc.target]? = some (some rf') := by
    intro j f hf ⟨rf, hr⟩ k inc g hk hg
    obtain ⟨g', rf', hg', hr'⟩ := inv.closed j f rf hf hr inc (List.mem_of_getElem? hk)
    rw [hg] at hg'
    simp only [Option.some.injEq] at hg'
    subst hg'
    exact ⟨(inv.good _ g rf' hg hr').nodup, rf', hr'⟩
  intro j x t h
  induction h with
  | @concrete j f b c h1 h2 h3 =>
    intro hj t' h'
    rcases den_nm_inv h' with ⟨f', c', q1, q2, _, q4⟩ | ⟨f', td, q1, q2, q3, _⟩
    · rw [h1] at q1; simp only [Option.some.injEq] at q1; subst q1
      rw [q4, declares_unique (hNodup j f h1 hj) h2 q2]
    · rw [h1] at q1; simp only [Option.some.injEq] at q1; subst q1
      have := declares_unique (hNodup j f h1 hj) h2 (by rw [← q3]; exact Declares.typedef q2)
      exact absurd this (concrete_ne_typedef h3)
  | @typedef j f td t h1 h2 _ ih =>
    intro hj t' h'
    rcases den_nm_inv h' with ⟨f', c', q1, q2, q3, _⟩ | ⟨f', td', q1, q2, q3, q4⟩
    · rw [h1] at q1; simp only [Option.some.injEq] at q1; subst q1
      have := declares_unique (hNodup j f h1 hj) q2 (Declares.typedef h2)
      exact absurd this (concrete_ne_typedef q3)
    · rw [h1] at q1; simp only [Option.some.injEq] at q1; subst q1
      have hal := (names_sublists f (hNodup j f h1 hj)).1
      have : td' = td := eq_of_nodup_map (·.alias) f.typedefs hal td' td q2 h2 q3
      subst this
      exact ih hj t' q4
  | @base j n c h1 =>
    intro _ t' h'
    rcases den_ty_name_inv h' with ⟨c', q1, q2⟩ | ⟨q1, _⟩ | ⟨_, _, _, _, _, _, q1, _⟩
    · rw [h1] at q1; simp only [Option.some.injEq] at q1; subst q1; exact q2.symm
    · rw [h1] at q1; simp at q1
    · rw [h1] at q1; simp at q1
  | list => intro _ t' h'; exact (den_ty_container_inv h' (by intro n; simp)).symm
  | set => intro _ t' h'; exact (den_ty_container_inv h' (by intro n; simp)).symm
  | map => intro _ t' h'; exact (den_ty_container_inv h' (by intro n; simp)).symm
  | @loc j n t h1 h2 _ ih =>
    intro hj t' h'
    rcases den_ty_name_inv h' with ⟨c', q1, _⟩ | ⟨_, _, q3⟩ | ⟨_, _, _, _, _, _, _, q2, _⟩
    · rw [h1] at q1; simp at q1
    · exact ih hj t' q3
    · rw [h2] at q2; simp at q2
  | @qual j f n a b k j' c t h1 h2 h3 h4 _ ih =>
    intro hj t' h'
    rcases den_ty_name_inv h' with ⟨c', q1, _⟩ | ⟨_, q2, _⟩ | ⟨f', a', b', k', j'', c', _, q2, q3, q4, q5⟩
    · rw [h1] at q1; simp at q1
    · rw [h2] at q2; simp at q2
    · rw [h3] at q3; simp only [Option.some.injEq] at q3; subst q3
      rw [h2] at q2; simp only [Option.some.injEq, Prod.mk.injEq] at q2
      obtain ⟨rfl, rfl⟩ := q2
      have hu := firstInc_unique' (fun k inc g hk hg => (hIncs j f h3 hj k inc g hk hg).1) h4 q4
      obtain ⟨rfl, rfl, rfl⟩ := hu
      obtain ⟨inc, g, r1, r2, _, r4, _⟩ := h4
      subst r2
      exact ih (hIncs j f h3 hj k inc g r1 r4).2 t' q5

end Sem
