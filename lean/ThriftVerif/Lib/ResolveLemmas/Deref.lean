import ThriftVerif.Lib.ResolveLemmas.Used
/-
  Deref on a resolved program terminates and returns what the node denotes.
-/
namespace Sem

theorem findTypedef_unique {f : File} (hnd : f.names.Nodup) {td td' : Typedef}
    (h : td ∈ f.typedefs) (h' : td' ∈ f.typedefs) (e : td.alias = td'.alias) : td = td' :=
  eq_of_nodup_map (·.alias) f.typedefs (names_sublists f hnd).1 td td' h h' e

/-- What the view of a finished file says about its typedefs. -/
theorem view_typedef {p : Program} {j : Nat} {g : File} {rf : RFile} (hgood : Good p j g rf)
    {b : Bytes} {root : TdRoot} (h : (rf.view g).typedef b = some root) :
    ∃ td nd0, td ∈ g.typedefs ∧ td.alias = b ∧ NodeGood p j td.type nd0 ∧
      root = ⟨td.type.rootName, nd0.cat, nd0.isTypedef, nd0.ref⟩ := by
  simp only [RFile.view, mkView] at h
  unfold tdRootOf at h
  cases hft : findTypedef b g.typedefs with
  | none => rw [hft] at h; simp at h
  | some td =>
    rw [hft] at h
    simp only at h
    obtain ⟨hm, hal⟩ := findTypedef_some hft
    obtain ⟨ns, hns, hlen, hgn⟩ := hgood.nodes (.typedef td.alias) td.type (.typedef hm)
    rw [hal] at hns
    unfold RFile.nodesAt at hns
    rw [hns] at h
    have hpos := nodes_pos td.type
    cases ns with
    | nil => simp at hlen; omega
    | cons nd0 rest =>
      simp only [Option.bind_some, List.head?_cons, Option.some.injEq] at h
      exact ⟨td, nd0, hm, hal, hgn 0 td.type nd0 (nodes_head _) rfl, h.symm⟩

theorem view_typedef_exists {g : File} {rf : RFile} {td : Typedef} (h : td ∈ g.typedefs) :
    ∃ root, (rf.view g).typedef td.alias = some root := by
  simp only [RFile.view, mkView]
  unfold tdRootOf
  obtain ⟨td', h'⟩ := findTypedef_of_mem h rfl
  rw [h']
  simp only
  split <;> exact ⟨_, rfl⟩

theorem deref_succ_none_plain (views : Nat → Option FileView) (fuel i : Nat) (name : Bytes) (cat : Cat) :
    deref views (fuel + 1) i name cat false none = .ok (i, name, cat) := by
  simp [deref]

/-- The statement proved along a denotation. -/
def DerefGoal (p : Program) (views : Nat → Option FileView) (j : Nat) (t : Target) : NameOrType → Prop
  | .nm b => ∀ v root, views j = some v → v.typedef b = some root →
      ∃ fuel0, ∀ fuel, fuel0 ≤ fuel →
        deref views fuel j root.rootName root.cat root.isTypedef root.ref = .ok (t.file, t.name, t.cat)
  | .ty sub => ∀ nd, NodeGood p j sub nd →
      ∃ fuel0, ∀ fuel, fuel0 ≤ fuel →
        deref views fuel j sub.rootName nd.cat nd.isTypedef nd.ref = .ok (t.file, t.name, t.cat)

theorem ref_none_of_not_qual {p : Program} {j : Nat} {sub : TypeExpr} {nd : RNode}
    (h : NodeGood p j sub nd) (hq : ∀ k b, ¬ QualRef p j sub k b) : nd.ref = none := by
  cases hr : nd.ref with
  | none => rfl
  | some r => exact absurd ((h.2.2 r.index r.name).mp (by rw [hr])) (hq _ _)

theorem deref_den {p : Program} {gfuel : Nat} {tbl : Table} (inv : TableInv p gfuel tbl) :
    ∀ {j x t}, Den p j x t → (∃ rf, tbl[j]? = some (some rf)) → DerefGoal p (tableViews p tbl) j t x := by
  intro j x t h
  induction h with
  | @concrete j f b c h1 h2 h3 =>
    intro ⟨rf, hr⟩ v root hv hroot
    obtain ⟨f', rf', hf', hr', hvv⟩ := tableViews_some hv
    rw [h1] at hf'; simp only [Option.some.injEq] at hf'; subst hf'
    rw [hr] at hr'; simp only [Option.some.injEq] at hr'; subst hr'
    rw [hvv] at hroot
    have hgood := inv.good j f rf h1 hr
    obtain ⟨td, _, hm, hal, _⟩ := view_typedef hgood hroot
    have := declares_unique hgood.nodup h2 (by rw [← hal]; exact Declares.typedef hm)
    exact absurd this (concrete_ne_typedef h3)
  | @typedef j f td t h1 h2 _ ih =>
    intro ⟨rf, hr⟩ v root hv hroot
    obtain ⟨f', rf', hf', hr', hvv⟩ := tableViews_some hv
    rw [h1] at hf'; simp only [Option.some.injEq] at hf'; subst hf'
    rw [hr] at hr'; simp only [Option.some.injEq] at hr'; subst hr'
    rw [hvv] at hroot
    have hgood := inv.good j f rf h1 hr
    obtain ⟨td', nd0, hm, hal, hng, hroot'⟩ := view_typedef hgood hroot
    have : td' = td := findTypedef_unique hgood.nodup hm h2 hal
    subst this
    obtain ⟨fuel0, hfuel⟩ := ih ⟨rf, hr⟩ nd0 hng
    refine ⟨fuel0, ?_⟩
    intro fuel hle
    rw [hroot']
    exact hfuel fuel hle
  | @base j n c h1 =>
    intro _ nd hng
    have hbase := specBase_isBase h1
    have hq : ∀ k b, ¬ QualRef p j (.name n) k b := by
      rintro k b ⟨n', _, _, _, _, e, h2, _⟩
      simp only [TypeExpr.name.injEq] at e; subst e
      rw [h1] at h2; simp at h2
    have hnt : nd.isTypedef = false := by
      cases hb : nd.isTypedef with
      | false => rfl
      | true =>
        obtain ⟨n', _, e, h2, _⟩ := hng.2.1.mp hb
        simp only [TypeExpr.name.injEq] at e; subst e
        rw [h1] at h2; simp at h2
    obtain ⟨t', hden, hcat⟩ := hng.1
    rcases den_ty_name_inv hden with ⟨c', q1, q2⟩ | ⟨q1, _⟩ | ⟨_, _, _, _, _, _, q1, _⟩
    · rw [h1] at q1; simp only [Option.some.injEq] at q1; subst q1
      refine ⟨1, ?_⟩
      intro fuel hle
      obtain ⟨m, rfl⟩ : ∃ m, fuel = m + 1 := ⟨fuel - 1, by omega⟩
      rw [ref_none_of_not_qual hng hq, hnt, hcat, q2]
      exact deref_succ_none_plain _ _ _ _ _
    · rw [h1] at q1; simp at q1
    · rw [h1] at q1; simp at q1
  | @list j v =>
    intro _ nd hng
    have hq : ∀ k b, ¬ QualRef p j (.list v) k b := by
      rintro k b ⟨n', _, _, _, _, e, _⟩; simp at e
    have hnt : nd.isTypedef = false := by
      cases hb : nd.isTypedef with
      | false => rfl
      | true => obtain ⟨n', _, e, _⟩ := hng.2.1.mp hb; simp at e
    obtain ⟨t', hden, hcat⟩ := hng.1
    have := den_ty_container_inv hden (by intro n; simp)
    refine ⟨1, ?_⟩
    intro fuel hle
    obtain ⟨m, rfl⟩ : ∃ m, fuel = m + 1 := ⟨fuel - 1, by omega⟩
    rw [ref_none_of_not_qual hng hq, hnt, hcat, this]
    exact deref_succ_none_plain _ _ _ _ _
  | @set j v =>
    intro _ nd hng
    have hq : ∀ k b, ¬ QualRef p j (.set v) k b := by
      rintro k b ⟨n', _, _, _, _, e, _⟩; simp at e
    have hnt : nd.isTypedef = false := by
      cases hb : nd.isTypedef with
      | false => rfl
      | true => obtain ⟨n', _, e, _⟩ := hng.2.1.mp hb; simp at e
    obtain ⟨t', hden, hcat⟩ := hng.1
    have := den_ty_container_inv hden (by intro n; simp)
    refine ⟨1, ?_⟩
    intro fuel hle
    obtain ⟨m, rfl⟩ : ∃ m, fuel = m + 1 := ⟨fuel - 1, by omega⟩
    rw [ref_none_of_not_qual hng hq, hnt, hcat, this]
    exact deref_succ_none_plain _ _ _ _ _
  | @map j kk v =>
    intro _ nd hng
    have hq : ∀ k b, ¬ QualRef p j (.map kk v) k b := by
      rintro k b ⟨n', _, _, _, _, e, _⟩; simp at e
    have hnt : nd.isTypedef = false := by
      cases hb : nd.isTypedef with
      | false => rfl
      | true => obtain ⟨n', _, e, _⟩ := hng.2.1.mp hb; simp at e
    obtain ⟨t', hden, hcat⟩ := hng.1
    have := den_ty_container_inv hden (by intro n; simp)
    refine ⟨1, ?_⟩
    intro fuel hle
    obtain ⟨m, rfl⟩ : ∃ m, fuel = m + 1 := ⟨fuel - 1, by omega⟩
    rw [ref_none_of_not_qual hng hq, hnt, hcat, this]
    exact deref_succ_none_plain _ _ _ _ _
  | @loc j n t h1 h2 h3 ih =>
    intro hj nd hng
    obtain ⟨rf, hr⟩ := hj
    have hq : ∀ k b, ¬ QualRef p j (.name n) k b := by
      rintro k b ⟨n', _, _, _, _, e, _, _, h4, _⟩
      simp only [TypeExpr.name.injEq] at e; subst e
      rw [h2] at h4; simp at h4
    have hrn := ref_none_of_not_qual hng hq
    obtain ⟨t', hden', hcat⟩ := hng.1
    have htt : t' = t := (den_unique inv (Den.loc h1 h2 h3) ⟨rf, hr⟩ t' hden').symm
    subst htt
    rcases den_nm_inv h3 with ⟨f, c, q1, q2, q3, q4⟩ | ⟨f, td, q1, q2, q3, _⟩
    · -- a concrete local definition: the node is returned as it is
      have hgood := inv.good j f rf q1 hr
      have hnt : nd.isTypedef = false := by
        cases hb : nd.isTypedef with
        | false => rfl
        | true =>
          obtain ⟨n', f', e, _, hf', hor⟩ := hng.2.1.mp hb
          simp only [TypeExpr.name.injEq] at e; subst e
          rw [q1] at hf'; simp only [Option.some.injEq] at hf'; subst hf'
          rcases hor with ⟨_, hd⟩ | ⟨_, _, _, _, h4, _⟩
          · exact absurd (declares_unique hgood.nodup q2 hd) (concrete_ne_typedef q3)
          · rw [h2] at h4; simp at h4
      refine ⟨1, ?_⟩
      intro fuel hle
      obtain ⟨m, rfl⟩ : ∃ m, fuel = m + 1 := ⟨fuel - 1, by omega⟩
      rw [hrn, hnt, hcat, q4]
      exact deref_succ_none_plain _ _ _ _ _
    · -- a local typedef
      have hgood := inv.good j f rf q1 hr
      have hit : nd.isTypedef = true :=
        hng.2.1.mpr ⟨n, f, rfl, h1, q1, Or.inl ⟨h2, by rw [← q3]; exact Declares.typedef q2⟩⟩
      have hv : tableViews p tbl j = some (rf.view f) := by
        unfold tableViews; rw [q1, hr]
      obtain ⟨root, hroot⟩ := view_typedef_exists (rf := rf) q2
      rw [q3] at hroot
      obtain ⟨fuel0, hfuel⟩ := ih ⟨rf, hr⟩ _ root hv hroot
      refine ⟨fuel0 + 1, ?_⟩
      intro fuel hle
      obtain ⟨m, rfl⟩ : ∃ m, fuel = m + 1 := ⟨fuel - 1, by omega⟩
      rw [hrn, hit]
      simp only [deref, TypeExpr.rootName, Bool.not_true, Bool.false_eq_true, if_false, hv, hroot]
      exact hfuel m (by omega)
  | @qual j f n a b k j' c t h1 h2 h3 h4 h5 ih =>
    intro hj nd hng
    obtain ⟨rf, hr⟩ := hj
    have hgood := inv.good j f rf h3 hr
    have href : nd.ref = some ⟨k, b⟩ := (hng.2.2 k b).mpr ⟨n, f, a, j', c, rfl, h1, h3, h2, h4⟩
    obtain ⟨inc, g, r1, r2, r3, r4, r5, r6, _⟩ := h4
    subst r2
    obtain ⟨g', rf', hg', hr'⟩ := inv.closed j f rf h3 hr inc (List.mem_of_getElem? r1)
    rw [r4] at hg'; simp only [Option.some.injEq] at hg'; subst hg'
    have hgood' := inv.good _ g rf' r4 hr'
    have hv : tableViews p tbl j = some (rf.view f) := by
      unfold tableViews; rw [h3, hr]
    have hv' : tableViews p tbl inc.target = some (rf'.view g) := by
      unfold tableViews; rw [r4, hr']
    have hincs : (rf.view f).incs[k]? = some inc.target := by
      simp only [RFile.view, mkView, List.getElem?_map, r1, Option.map_some]
    have hn2c : (rf'.view g).n2c b = some c := by
      simp only [RFile.view, mkView]
      exact (hgood'.n2c b c).mpr r5
    by_cases hct : c = .typedef
    · subst hct
      obtain ⟨td, htd, hal⟩ := declares_typedef r5
      obtain ⟨root, hroot⟩ := view_typedef_exists (rf := rf') htd
      rw [hal] at hroot
      obtain ⟨fuel0, hfuel⟩ := ih ⟨rf', hr'⟩ _ root hv' hroot
      refine ⟨fuel0 + 1, ?_⟩
      intro fuel hle
      obtain ⟨m, rfl⟩ : ∃ m, fuel = m + 1 := ⟨fuel - 1, by omega⟩
      rw [href]
      simp only [deref, hv, hincs, hv', hn2c, Option.getD_some, if_true, hroot]
      exact hfuel m (by omega)
    · have hconc : c.isConcrete = true := concrete_of_typeLike r6 hct
      rcases den_nm_inv h5 with ⟨g2, c2, q1, q2, _, q4⟩ | ⟨g2, td, q1, q2, q3, _⟩
      · rw [r4] at q1; simp only [Option.some.injEq] at q1; subst q1
        have := declares_unique hgood'.nodup r5 q2
        subst this
        refine ⟨1, ?_⟩
        intro fuel hle
        obtain ⟨m, rfl⟩ : ∃ m, fuel = m + 1 := ⟨fuel - 1, by omega⟩
        rw [href, q4]
        simp only [deref, hv, hincs, hv', hn2c, Option.getD_some, if_neg hct,
          isDerefTarget_eq_concrete, hconc, if_true]
      · rw [r4] at q1; simp only [Option.some.injEq] at q1; subst q1
        have := declares_unique hgood'.nodup r5 (by rw [← q3]; exact Declares.typedef q2)
        exact absurd this hct

end Sem
