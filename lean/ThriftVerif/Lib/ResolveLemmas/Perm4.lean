import ThriftVerif.Lib.ResolveLemmas.Perm3
/-
  Order independence, part 4: the recursion over includes, in lockstep on a program and on the same
  program with the definitions of its files in other orders.
-/
namespace Sem

/-- `p'` is `p` with the definitions of each file permuted. -/
def ProgPerm (p p' : Program) : Prop :=
  p.length = p'.length ∧ ∀ (i : Nat) (f f' : File), p[i]? = some f → p'[i]? = some f' → FilePerm f f'

/-- Two tables have finished the same files and stored the same things at every slot. -/
def TableEquiv (t t' : Table) : Prop :=
  t.length = t'.length ∧ ∀ (i : Nat),
    match t[i]?, t'[i]? with
    | some (some rf), some (some rf') => RFileEquiv rf rf'
    | some none, some none => True
    | none, none => True
    | _, _ => False

theorem RFileEquiv.symm {a b : RFile} (h : RFileEquiv a b) : RFileEquiv b a :=
  ⟨fun n => (h.n2c n).symm, h.used.symm, fun s => (h.types s).symm, fun s => (h.binds s).symm,
   fun n => (h.svc n).symm⟩

theorem TableEquiv.symm {t t' : Table} (h : TableEquiv t t') : TableEquiv t' t := by
  refine ⟨h.1.symm, ?_⟩
  intro i
  have := h.2 i
  cases h1 : t[i]? with
  | none =>
    cases h2 : t'[i]? with
    | none => simp
    | some y => rw [h1, h2] at this; simp at this
  | some x =>
    cases h2 : t'[i]? with
    | none => rw [h1, h2] at this; cases x <;> simp at this
    | some y =>
      rw [h1, h2] at this
      cases x <;> cases y <;> simp only at this ⊢
      exact this.symm

theorem ProgPerm.symm {p p' : Program} (h : ProgPerm p p') : ProgPerm p' p :=
  ⟨h.1.symm, fun i f f' h1 h2 => (h.2 i f' f h2 h1).symm⟩

theorem view_eq {f f' : File} {rf rf' : RFile} (hp : FilePerm f f') (hnd : f.names.Nodup)
    (he : RFileEquiv rf rf') : rf.view f = rf'.view f' := by
  unfold RFile.view mkView
  congr 1
  · funext n; exact he.n2c n
  · funext a
    unfold tdRootOf
    rw [← findTypedef_perm hp.typedefs (names_sublists f hnd).1]
    have := he.types (.typedef a)
    unfold RFile.nodesAt at this
    rw [this]
  · funext n
    rw [← findEnum_perm hp.enums (names_sublists f hnd).2.2.1]
  · rw [hp.includes]

theorem tableViews_eq {p p' : Program} {gfuel : Nat} {t t' : Table} (hp : ProgPerm p p')
    (inv : TableInv p gfuel t) (he : TableEquiv t t') : tableViews p t = tableViews p' t' := by
  funext j
  unfold tableViews
  have hj := he.2 j
  cases hf : p[j]? with
  | none =>
    have : p'[j]? = none := by
      rw [List.getElem?_eq_none_iff] at hf ⊢
      rw [← hp.1]; exact hf
    rw [this]
  | some f =>
    have hlt : j < p'.length := by rw [← hp.1]; exact (List.getElem?_eq_some_iff.mp hf).1
    have hf' : p'[j]? = some p'[j] := List.getElem?_eq_getElem hlt
    rw [hf']
    have hperm := hp.2 j f _ hf hf'
    cases h1 : t[j]? with
    | none =>
      cases h2 : t'[j]? with
      | none => rfl
      | some y => rw [h1, h2] at hj; simp at hj
    | some x =>
      cases h2 : t'[j]? with
      | none => rw [h1, h2] at hj; cases x <;> simp at hj
      | some y =>
        rw [h1, h2] at hj
        cases x with
        | none => cases y with
          | none => rfl
          | some _ => simp at hj
        | some rf => cases y with
          | none => simp at hj
          | some rf' =>
            simp only at hj ⊢
            rw [view_eq hperm (inv.good j f rf hf h1).nodup hj]

theorem tableEquiv_set {t t' : Table} (he : TableEquiv t t') (i : Nat) {rf rf' : RFile}
    (hr : RFileEquiv rf rf') : TableEquiv (t.set i (some rf)) (t'.set i (some rf')) := by
  refine ⟨by simp [he.1], ?_⟩
  intro j
  rw [getElem?_set_table, getElem?_set_table]
  by_cases hij : i = j
  · rw [if_pos hij, if_pos hij, ← he.1]
    by_cases hl : i < t.length
    · rw [if_pos hl, if_pos hl]; exact hr
    · rw [if_neg hl, if_neg hl]; trivial
  · rw [if_neg hij, if_neg hij]
    exact he.2 j

theorem resolveSymbols_perm {p p' : Program} (hp : ProgPerm p p') (gfuel : Nat) :
    ∀ (fuel i : Nat) (t t' t1 : Table), t.length = p.length → TableInv p gfuel t → TableEquiv t t' →
      resolveSymbols p gfuel fuel i t = .ok t1 →
      ∃ t1', resolveSymbols p' gfuel fuel i t' = .ok t1' ∧ TableEquiv t1 t1' := by
  intro fuel
  induction fuel with
  | zero => intro i t t' t1 _ _ _ h; simp [resolveSymbols] at h
  | succ fuel ih =>
    intro i t t' t1 hlen inv he h
    simp only [resolveSymbols] at h ⊢
    cases hf : p[i]? with
    | none => rw [hf] at h; simp at h
    | some f =>
      rw [hf] at h
      simp only at h
      have hlt : i < p'.length := by rw [← hp.1]; exact (List.getElem?_eq_some_iff.mp hf).1
      have hf' : p'[i]? = some p'[i] := List.getElem?_eq_getElem hlt
      rw [hf']
      simp only
      have hperm := hp.2 i f _ hf hf'
      have loop : ∀ (l : List Include) (u u' u1 : Table), u.length = p.length → TableInv p gfuel u →
          TableEquiv u u' → incLoop (resolveSymbols p gfuel fuel) l u = .ok u1 →
          ∃ u1', incLoop (resolveSymbols p' gfuel fuel) l u' = .ok u1' ∧ TableEquiv u1 u1' ∧
            u1.length = p.length ∧ TableInv p gfuel u1 := by
        intro l
        induction l with
        | nil =>
          intro u u' u1 hl hi hu h
          simp only [incLoop, Except.ok.injEq] at h
          subst h
          exact ⟨u', rfl, hu, hl, hi⟩
        | cons inc r ihl =>
          intro u u' u1 hl hi hu h
          simp only [incLoop] at h ⊢
          cases h1 : resolveSymbols p gfuel fuel inc.target u with
          | error e => rw [h1] at h; simp at h
          | ok u2 =>
            rw [h1] at h
            simp only at h
            obtain ⟨u2', q1, q2⟩ := ih inc.target u u' u2 hl hi hu h1
            obtain ⟨i1, _, n1, _⟩ := resolveSymbols_inv p gfuel fuel inc.target u u2 hl h1 hi
            rw [q1]
            simp only
            exact ihl u2 u2' u1 n1 i1 q2 h
      -- the memo
      have hi := he.2 i
      have body : (∀ rf0, t[i]? ≠ some (some rf0)) →
          (match incLoop (resolveSymbols p gfuel fuel) f.includes t with
            | .error e => .error e
            | .ok tbl1 =>
              match resolveAST (tableViews p tbl1) gfuel i f with
              | .error e => .error e
              | .ok rf => .ok (tbl1.set i (some rf))) = Except.ok t1 →
          ∃ t1', (match incLoop (resolveSymbols p' gfuel fuel) p'[i].includes t' with
            | .error e => .error e
            | .ok tbl1 =>
              match resolveAST (tableViews p' tbl1) gfuel i p'[i] with
              | .error e => .error e
              | .ok rf => .ok (tbl1.set i (some rf))) = Except.ok t1' ∧ TableEquiv t1 t1' := by
        intro _ h
        cases hl : incLoop (resolveSymbols p gfuel fuel) f.includes t with
        | error e => rw [hl] at h; simp at h
        | ok u1 =>
          rw [hl] at h
          simp only at h
          obtain ⟨u1', q1, q2, n1, i1⟩ := loop f.includes t t' u1 hlen inv he hl
          rw [← hperm.includes, q1]
          simp only
          cases ha : resolveAST (tableViews p u1) gfuel i f with
          | error e => rw [ha] at h; simp at h
          | ok rf =>
            rw [ha] at h
            simp only [Except.ok.injEq] at h
            subst h
            obtain ⟨rf', r1, r2⟩ := resolveAST_perm hf (viewsGood_of_inv i1) hperm ha
            rw [← tableViews_eq hp i1 q2, r1]
            exact ⟨_, rfl, tableEquiv_set q2 i r2⟩
      cases ht : t[i]? with
      | none =>
        rw [ht] at h hi
        cases ht' : t'[i]? with
        | some y => rw [ht'] at hi; simp at hi
        | none =>
          simp only
          exact body (fun rf0 => by rw [ht]; simp) h
      | some x =>
        cases x with
        | none =>
          rw [ht] at h hi
          cases ht' : t'[i]? with
          | none => rw [ht'] at hi; simp at hi
          | some y =>
            rw [ht'] at hi
            cases y with
            | some _ => simp at hi
            | none =>
              simp only
              exact body (fun rf0 => by rw [ht]; simp) h
        | some rf0 =>
          rw [ht] at h hi
          simp only [Except.ok.injEq] at h
          subst h
          cases ht' : t'[i]? with
          | none => rw [ht'] at hi; simp at hi
          | some y =>
            rw [ht'] at hi
            cases y with
            | none => simp at hi
            | some rf0' =>
              simp only
              exact ⟨t', rfl, he⟩

theorem typedefCount_perm {p p' : Program} (hp : ProgPerm p p') : p.typedefCount = p'.typedefCount := by
  unfold Program.typedefCount
  have : p.map (fun f => f.typedefs.length) = p'.map (fun f => f.typedefs.length) := by
    apply List.ext_getElem?
    intro i
    rw [List.getElem?_map, List.getElem?_map]
    cases hf : p[i]? with
    | none =>
      have : p'[i]? = none := by
        rw [List.getElem?_eq_none_iff] at hf ⊢
        rw [← hp.1]; exact hf
      rw [this]
    | some f =>
      have hlt : i < p'.length := by rw [← hp.1]; exact (List.getElem?_eq_some_iff.mp hf).1
      have hf' : p'[i]? = some p'[i] := List.getElem?_eq_getElem hlt
      rw [hf']
      simp only [Option.map_some, Option.some.injEq]
      exact (hp.2 i f _ hf hf').typedefs.length_eq
  rw [this]

theorem tableEquiv_init (n : Nat) : TableEquiv (List.replicate n none) (List.replicate n none) := by
  refine ⟨rfl, ?_⟩
  intro i
  rw [List.getElem?_replicate]
  by_cases h : i < n
  · rw [if_pos h]; trivial
  · rw [if_neg h]; trivial

/-- The whole run on a program and on the same program with its definitions reordered. -/
theorem resolve_perm {p p' : Program} (hp : ProgPerm p p') (root : Nat) {tbl : Table}
    (h : resolve p root = .ok tbl) : ∃ tbl', resolve p' root = .ok tbl' ∧ TableEquiv tbl tbl' := by
  unfold resolve at h ⊢
  have hc : p'.chainFuel = p.chainFuel := by
    unfold Program.chainFuel
    rw [typedefCount_perm hp, hp.1]
  rw [hc, ← hp.1]
  exact resolveSymbols_perm hp p.chainFuel (p.length + 1) root _ _ tbl (by simp) (tableInv_init p _)
    (tableEquiv_init _) h

end Sem
