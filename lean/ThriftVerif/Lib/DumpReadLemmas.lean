/-
  C17 helper lemmas: the final text of a constant value (`finalCV`) is read back by the reader model.
-/
import ThriftVerif.Lib.DumpLemmas
import ThriftVerif.Lib.DumpNumLemmas

namespace Dump

/-! ### final text of a constant value -/

mutual
def finalCV (ff : Nat → Bytes) : CV → Bytes
  | .dbl b => dblText (ff b)
  | .int i => fmtInt i
  | .lit v => quoteVal stdCfg v
  | .ident s => s
  | .list l => 91 :: (finalItems ff l ++ [93])
  | .map m => 123 :: (finalPairs ff m ++ [10, 125])
  | .unset => []
def finalItems (ff : Nat → Bytes) : List CV → Bytes
  | [] => []
  | v :: rest => finalCV ff v ++ ((if !rest.isEmpty then [44, 32] else []) ++ finalItems ff rest)
def finalPairs (ff : Nat → Bytes) : List (CV × CV) → Bytes
  | [] => []
  | (k, v) :: rest =>
    10 :: 9 :: (finalCV ff k ++ (58 :: 32 :: (finalCV ff v ++ ((if !rest.isEmpty then [44, 32] else []) ++ finalPairs ff rest))))
end

/-- what may follow a value in dumped text: `,` `]` `:` newline `}` blank `(` or the end -/
def Term : Bytes → Prop
  | [] => True
  | c :: _ => c = 44 ∨ c = 93 ∨ c = 58 ∨ c = 10 ∨ c = 125 ∨ c = 32 ∨ c = 40

theorem Term.sep {r : Bytes} (h : Term r) : Sep r := by
  cases r with
  | nil => trivial
  | cons c r => rcases h with h | h | h | h | h | h | h <;> subst h <;> simp [Sep, isDigit]

theorem Term.sepD {r : Bytes} (h : Term r) : SepD r := by
  cases r with
  | nil => trivial
  | cons c r => rcases h with h | h | h | h | h | h | h <;> subst h <;> simp [SepD, isDigit]

theorem Term.stopsId {r : Bytes} (h : Term r) : stops isIdChar r := by
  cases r with
  | nil => trivial
  | cons c r => rcases h with h | h | h | h | h | h | h <;> subst h <;> simp [stops, isIdChar, isLetter, isDigit]

/-- first bytes of values -/
def ValStart (c : Nat) : Prop := isDigit c = true ∨ c = 45 ∨ c = 34 ∨ c = 39 ∨ isLetter c = true ∨ c = 91 ∨ c = 123

theorem ValStart.notWs {c : Nat} (h : ValStart c) : isWs c = false := by
  rcases h with h | h | h | h | h | h | h
  · simp [isDigit] at h; simp [isWs]; omega
  · subst h; rfl
  · subst h; rfl
  · subst h; rfl
  · simp [isLetter] at h; simp [isWs]; omega
  · subst h; rfl
  · subst h; rfl

theorem ValStart.notIndent {c : Nat} (h : ValStart c) : isIndent c = false := by
  have := h.notWs
  simp [isWs] at this
  simp [isIndent]; omega

theorem dropP_cons_false (p : Nat → Bool) (c : Nat) (s : Bytes) (h : p c = false) : dropP p (c :: s) = c :: s := by
  simp [dropP, h]

theorem dropP_cons_true (p : Nat → Bool) (c : Nat) (s : Bytes) (h : p c = true) : dropP p (c :: s) = dropP p s := by
  simp [dropP, h]

def IdentOK (s : Bytes) : Prop := ∃ c r, s = c :: r ∧ isLetter c = true ∧ r.all isIdChar = true

/-- what the reader returns for a dumped value (kept as a function for the statements below; it is the
    identity since doubles are always written with a fractional part, see `reread_id`) -/
def rereadDbl (_t : Bytes) (b : Nat) : CV := .dbl b

mutual
def reread (ff : Nat → Bytes) : CV → CV
  | .dbl b => rereadDbl (ff b) b
  | .int i => .int i
  | .lit v => .lit v
  | .ident s => .ident s
  | .list l => .list (rereadItems ff l)
  | .map m => .map (rereadPairs ff m)
  | .unset => .unset
def rereadItems (ff : Nat → Bytes) : List CV → List CV
  | [] => []
  | v :: r => reread ff v :: rereadItems ff r
def rereadPairs (ff : Nat → Bytes) : List (CV × CV) → List (CV × CV)
  | [] => []
  | (k, v) :: r => (reread ff k, reread ff v) :: rereadPairs ff r
end

mutual
def GoodCV (ff : Nat → Bytes) (pf : Bytes → Nat) : CV → Prop
  | .dbl b => Nonempty (FShape (ff b)) ∧ pf (dblText (ff b)) = b
  | .int i => -9223372036854775808 ≤ i ∧ i < 9223372036854775808
  | .lit v => Representable v = true
  | .ident s => IdentOK s
  | .list l => GoodItems ff pf l
  | .map m => GoodPairs ff pf m
  | .unset => False
def GoodItems (ff : Nat → Bytes) (pf : Bytes → Nat) : List CV → Prop
  | [] => True
  | v :: r => GoodCV ff pf v ∧ GoodItems ff pf r
def GoodPairs (ff : Nat → Bytes) (pf : Bytes → Nat) : List (CV × CV) → Prop
  | [] => True
  | (k, v) :: r => GoodCV ff pf k ∧ GoodCV ff pf v ∧ GoodPairs ff pf r
end

mutual
def cvSize : CV → Nat
  | .list l => 1 + itemsSize l
  | .map m => 1 + pairsSize m
  | _ => 1
def itemsSize : List CV → Nat
  | [] => 1
  | v :: r => 1 + cvSize v + itemsSize r
def pairsSize : List (CV × CV) → Nat
  | [] => 1
  | (k, v) :: r => 1 + cvSize k + cvSize v + pairsSize r
end

/-! ### shapes of FormatFloat text -/

theorem canon_head {ds : Bytes} (h : Canon ds) : ∃ d r, ds = d :: r ∧ isDigit d = true := by
  obtain ⟨hall, d, r, hdr, _⟩ := h
  subst hdr
  simp at hall
  exact ⟨d, r, rfl, hall.1⟩

theorem digits_noDot (ds : Bytes) (h : ds.all isDigit = true) : ds.any (· == 46) = false := by
  induction ds with
  | nil => rfl
  | cons d ds ih =>
    simp only [List.all_cons, Bool.and_eq_true] at h
    have : d ≠ 46 := by intro e; subst e; simp [isDigit] at h
    simp [this, ih h.2]

theorem fshape_hasDot {t : Bytes} (sh : FShape t) : hasDot t = !sh.fp.isEmpty := by
  obtain ⟨neg, ip, fp, heq, hip, hfp⟩ := sh
  subst heq
  have h1 := digits_noDot ip hip.1
  cases fp with
  | nil => cases neg <;> simp [hasDot, h1]
  | cons f fp => cases neg <;> simp [hasDot]

/-- the written text of a double always has the shape of a double literal with a fractional part -/
def fshapeDbl {t : Bytes} (sh : FShape t) : FShape (dblText t) :=
  if h : sh.fp = [] then
    { neg := sh.neg, ip := sh.ip, fp := [48]
      eq := by
        have hd : hasDot t = false := by rw [fshape_hasDot sh, h]; rfl
        have := sh.eq
        simp only [h, List.isEmpty_nil, if_true, List.append_nil] at this
        simp only [dblText, hd, Bool.false_eq_true, if_false, List.isEmpty_cons]
        exact congrArg (fun x => x ++ [46, 48]) this
      ipCanon := sh.ipCanon
      fpDigits := by decide }
  else
    { neg := sh.neg, ip := sh.ip, fp := sh.fp
      eq := by
        have hd : hasDot t = true := by
          rw [fshape_hasDot sh]
          cases h' : sh.fp with
          | nil => exact absurd h' h
          | cons _ _ => rfl
        simp only [dblText, hd, if_true]
        exact sh.eq
      ipCanon := sh.ipCanon
      fpDigits := sh.fpDigits }

theorem fshapeDbl_fp {t : Bytes} (sh : FShape t) : (fshapeDbl sh).fp ≠ [] := by
  unfold fshapeDbl
  split
  · simp
  · assumption

theorem fshape_head {t : Bytes} (sh : FShape t) : ∃ c r, t = c :: r ∧ (isDigit c = true ∨ c = 45) := by
  obtain ⟨neg, ip, fp, heq, hip, hfp⟩ := sh
  obtain ⟨d, r, hdr, hd⟩ := canon_head hip
  subst heq; subst hdr
  cases neg with
  | true => exact ⟨45, _, rfl, Or.inr rfl⟩
  | false => exact ⟨d, _, rfl, Or.inl hd⟩

theorem fmtInt_head (i : Int) : ∃ c r, fmtInt i = c :: r ∧ (isDigit c = true ∨ c = 45) := by
  cases i with
  | ofNat n =>
    obtain ⟨d, r, hdr, hd⟩ := canon_head (decDigits_canon n)
    exact ⟨d, r, by simp [fmtInt, hdr], Or.inl hd⟩
  | negSucc n => exact ⟨45, _, rfl, Or.inr rfl⟩

/-- every good value starts with a byte that no `Skip`/`Indent*` consumes and that is not a closing bracket -/
theorem finalCV_head (ff : Nat → Bytes) (pf : Bytes → Nat) (cv : CV) (h : GoodCV ff pf cv) :
    ∃ c t, finalCV ff cv = c :: t ∧ ValStart c := by
  cases cv with
  | dbl b =>
    obtain ⟨⟨sh⟩, _⟩ := (by simpa [GoodCV] using h : Nonempty (FShape (ff b)) ∧ _)
    obtain ⟨c, r, hcr, hc⟩ := fshape_head (fshapeDbl sh)
    exact ⟨c, r, by simp [finalCV, hcr], by rcases hc with hc | hc; exact Or.inl hc; exact Or.inr (Or.inl hc)⟩
  | int i =>
    obtain ⟨c, r, hcr, hc⟩ := fmtInt_head i
    exact ⟨c, r, by simp [finalCV, hcr], by rcases hc with hc | hc; exact Or.inl hc; exact Or.inr (Or.inl hc)⟩
  | lit v =>
    obtain ⟨c, t, hct, hc⟩ := quoteVal_head v
    exact ⟨c, t, by simp [finalCV, hct], by rcases hc with hc | hc; exact Or.inr (Or.inr (Or.inl hc)); exact Or.inr (Or.inr (Or.inr (Or.inl hc)))⟩
  | ident s =>
    obtain ⟨c, r, hs, hc, _⟩ := (by simpa [GoodCV] using h : IdentOK s)
    exact ⟨c, r, by simp [finalCV, hs], Or.inr (Or.inr (Or.inr (Or.inr (Or.inl hc))))⟩
  | list l => exact ⟨91, _, rfl, Or.inr (Or.inr (Or.inr (Or.inr (Or.inr (Or.inl rfl)))))⟩
  | map m => exact ⟨123, _, rfl, Or.inr (Or.inr (Or.inr (Or.inr (Or.inr (Or.inr rfl)))))⟩
  | unset => simp [GoodCV] at h

end Dump

namespace Dump

/-! ### dispatch of `readCV` on the first byte -/

theorem numStart_facts {c : Nat} (h : isDigit c = true ∨ c = 45) :
    isWs c = false ∧ c ≠ 91 ∧ c ≠ 123 ∧ c ≠ 34 ∧ c ≠ 39 ∧ isLetter c = false := by
  rcases h with h | h
  · simp [isDigit] at h
    refine ⟨?_, ?_, ?_, ?_, ?_, ?_⟩ <;> simp [isWs, isLetter] <;> omega
  · subst h; decide

theorem readCV_num_int (pf : Bytes → Nat) (f c : Nat) (r r' : Bytes) (i : Int) (h : isDigit c = true ∨ c = 45)
    (hn : readNumber pf (c :: r) = (.int i, r')) : readCV pf (f + 1) (c :: r) = some (CV.int i, skipIndent r') := by
  obtain ⟨h1, h2, h3, h4, h5, h6⟩ := numStart_facts h
  rw [readCV]
  simp [skipWs, dropP, h1, h2, h3, h4, h5, h6, hn]

theorem readCV_num_dbl (pf : Bytes → Nat) (f c : Nat) (r r' : Bytes) (b : Nat) (h : isDigit c = true ∨ c = 45)
    (hn : readNumber pf (c :: r) = (.dbl b, r')) : readCV pf (f + 1) (c :: r) = some (CV.dbl b, skipIndent r') := by
  obtain ⟨h1, h2, h3, h4, h5, h6⟩ := numStart_facts h
  rw [readCV]
  simp [skipWs, dropP, h1, h2, h3, h4, h5, h6, hn]

theorem readCV_num_int' (pf : Bytes → Nat) (f : Nat) (t rest r' : Bytes) (i : Int)
    (hh : ∃ c r, t = c :: r ∧ (isDigit c = true ∨ c = 45))
    (hn : readNumber pf (t ++ rest) = (.int i, r')) : readCV pf (f + 1) (t ++ rest) = some (CV.int i, skipIndent r') := by
  obtain ⟨c, r, rfl, hc⟩ := hh
  exact readCV_num_int pf f c _ r' i hc hn

theorem readCV_num_dbl' (pf : Bytes → Nat) (f : Nat) (t rest r' : Bytes) (b : Nat)
    (hh : ∃ c r, t = c :: r ∧ (isDigit c = true ∨ c = 45))
    (hn : readNumber pf (t ++ rest) = (.dbl b, r')) : readCV pf (f + 1) (t ++ rest) = some (CV.dbl b, skipIndent r') := by
  obtain ⟨c, r, rfl, hc⟩ := hh
  exact readCV_num_dbl pf f c _ r' b hc hn

theorem readCV_lit (pf : Bytes → Nat) (f c : Nat) (r : Bytes) (hc : c = 34 ∨ c = 39) :
    readCV pf (f + 1) (c :: r) = (readLiteral (c :: r)).map fun p => (CV.lit p.1, skipIndent p.2) := by
  rw [readCV]
  rcases hc with h | h <;> subst h <;> simp [skipWs, dropP, isWs]

theorem letter_facts {c : Nat} (h : isLetter c = true) : isWs c = false ∧ c ≠ 91 ∧ c ≠ 123 ∧ c ≠ 34 ∧ c ≠ 39 := by
  simp [isLetter] at h
  refine ⟨?_, ?_, ?_, ?_, ?_⟩ <;> simp [isWs] <;> omega

theorem readCV_ident (pf : Bytes → Nat) (f c : Nat) (r : Bytes) (h : isLetter c = true) :
    readCV pf (f + 1) (c :: r) = (readIdent (c :: r)).map fun p => (CV.ident p.1, skipIndent p.2) := by
  obtain ⟨h1, h2, h3, h4, h5⟩ := letter_facts h
  rw [readCV]
  simp [skipWs, dropP, h1, h2, h3, h4, h5, h]

theorem readCV_list (pf : Bytes → Nat) (f : Nat) (r : Bytes) :
    readCV pf (f + 1) (91 :: r) = (readCVItems pf f (skipIndent r)).map fun p => (CV.list p.1, p.2) := by
  rw [readCV]
  simp [skipWs, dropP, isWs]

theorem readCV_map (pf : Bytes → Nat) (f : Nat) (r : Bytes) :
    readCV pf (f + 1) (123 :: r) = (readCVPairs pf f (skipIndent r)).map fun p => (CV.map p.1, p.2) := by
  rw [readCV]
  simp [skipWs, dropP, isWs]

theorem skipWs_vs {c : Nat} (h : ValStart c) (s : Bytes) : skipWs (c :: s) = c :: s :=
  dropP_cons_false _ _ _ h.notWs

theorem skipIndent_vs {c : Nat} (h : ValStart c) (s : Bytes) : skipIndent (c :: s) = c :: s :=
  dropP_cons_false _ _ _ h.notIndent

theorem ValStart.ne93 {c : Nat} (h : ValStart c) : c ≠ 93 := by
  rcases h with h | h | h | h | h | h | h
  · simp [isDigit] at h; omega
  · omega
  · omega
  · omega
  · simp [isLetter] at h; omega
  · omega
  · omega

theorem ValStart.ne125 {c : Nat} (h : ValStart c) : c ≠ 125 := by
  rcases h with h | h | h | h | h | h | h
  · simp [isDigit] at h; omega
  · omega
  · omega
  · omega
  · simp [isLetter] at h; omega
  · omega
  · omega

theorem readCVItems_close (pf : Bytes → Nat) (f : Nat) (rest : Bytes) :
    readCVItems pf (f + 1) (93 :: rest) = some ([], skipIndent rest) := by
  rw [readCVItems]; simp [skipWs, dropP, isWs]

theorem readCVItems_step (pf : Bytes → Nat) (f c : Nat) (s : Bytes) (h : ValStart c) :
    readCVItems pf (f + 1) (c :: s) =
      match readCV pf f (c :: s) with
      | none => none
      | some (v, r) => (readCVItems pf f (skipSep r)).map fun p => (v :: p.1, p.2) := by
  rw [readCVItems]
  rw [show skipWs (c :: s) = c :: s from skipWs_vs h s]
  split
  · rename_i r heq; injection heq with h1 _; exact absurd h1 h.ne93
  · rfl

theorem readCVPairs_close (pf : Bytes → Nat) (f : Nat) (rest : Bytes) :
    readCVPairs pf (f + 1) (10 :: 125 :: rest) = some ([], skipIndent rest) := by
  rw [readCVPairs]; simp [skipWs, dropP, isWs]

theorem readCVPairs_step (pf : Bytes → Nat) (f c : Nat) (s : Bytes) (h : ValStart c) :
    readCVPairs pf (f + 1) (10 :: 9 :: c :: s) =
      match readCV pf f (c :: s) with
      | none => none
      | some (k, r) =>
        match skipWs r with
        | 58 :: r2 =>
          match readCV pf f (skipIndent r2) with
          | none => none
          | some (v, r3) => (readCVPairs pf f (skipSep r3)).map fun p => ((k, v) :: p.1, p.2)
        | _ => none := by
  rw [readCVPairs]
  have : skipWs (10 :: 9 :: c :: s) = c :: s := by
    have hw := h.notWs
    simp [skipWs, dropP, isWs] at hw ⊢
    simp [hw]
  rw [this]
  split
  · rename_i r heq; injection heq with h1 _; exact absurd h1 h.ne125
  · rfl

end Dump

namespace Dump

theorem term_sep_items (rest : Bytes) (tl : Bytes) (b : Bool) :
    Term ((if b then [44, 32] else []) ++ tl ++ 93 :: rest) ∨ True := Or.inr trivial

theorem readIdent_ok (c : Nat) (r rest : Bytes) (hc : isLetter c = true) (hr : r.all isIdChar = true) (ht : Term rest) :
    readIdent (c :: (r ++ rest)) = some (c :: r, rest) := by
  simp [readIdent, hc, spanP_append isIdChar r rest hr ht.stopsId]

/-- leaves -/
theorem readCV_leaf (ff : Nat → Bytes) (pf : Bytes → Nat) (cv : CV) (hleaf : cvSize cv = 1) (hg : GoodCV ff pf cv)
    (rest : Bytes) (ht : Term rest) (f : Nat) :
    readCV pf (f + 1) (finalCV ff cv ++ rest) = some (reread ff cv, skipIndent rest) := by
  cases cv with
  | dbl b =>
    obtain ⟨⟨sh⟩, hrt⟩ := (by simpa [GoodCV] using hg : Nonempty (FShape (ff b)) ∧ _)
    obtain ⟨c, r, hcr, hc⟩ := fshape_head (fshapeDbl sh)
    simp only [finalCV, reread, rereadDbl]
    have hn := readNumber_fshape_frac pf (dblText (ff b)) (fshapeDbl sh) (fshapeDbl_fp sh) rest ht.sepD
    rw [hrt] at hn
    exact readCV_num_dbl' pf f _ rest rest b ⟨c, r, hcr, hc⟩ hn
  | int i =>
    obtain ⟨hlo, hhi⟩ := (by simpa [GoodCV] using hg : -9223372036854775808 ≤ i ∧ i < 9223372036854775808)
    obtain ⟨c, r, hcr, hc⟩ := fmtInt_head i
    have hn := readNumber_fmtInt pf i hlo hhi rest ht.sep
    simp only [finalCV, reread]
    exact readCV_num_int' pf f _ rest rest i ⟨c, r, hcr, hc⟩ hn
  | lit v =>
    have hs : Representable v = true := by simpa [GoodCV] using hg
    simp only [finalCV, reread]
    obtain ⟨c, t, hct, hc⟩ := quoteVal_head v
    have := readLiteral_quoteVal v rest hs
    rw [hct] at this ⊢
    rw [List.cons_append, readCV_lit pf f c _ hc, ← List.cons_append, this]; rfl
  | ident s =>
    obtain ⟨c, r, hs, hc, hr⟩ := (by simpa [GoodCV] using hg : IdentOK s)
    subst hs
    simp only [finalCV, reread, List.cons_append]
    rw [readCV_ident pf f c _ hc, readIdent_ok c r rest hc hr ht]; rfl
  | list l => simp [cvSize] at hleaf; cases l <;> simp [itemsSize] at hleaf <;> omega
  | map m => simp [cvSize] at hleaf; cases m <;> simp [pairsSize] at hleaf <;> omega
  | unset => simp [GoodCV] at hg

end Dump

namespace Dump

theorem readCVItems_step' (pf : Bytes → Nat) (f : Nat) (T : Bytes) (h : ∃ c t, T = c :: t ∧ ValStart c) :
    readCVItems pf (f + 1) T =
      match readCV pf f T with
      | none => none
      | some (v, r) => (readCVItems pf f (skipSep r)).map fun p => (v :: p.1, p.2) := by
  obtain ⟨c, t, rfl, hc⟩ := h
  exact readCVItems_step pf f c t hc

theorem readCVPairs_step' (pf : Bytes → Nat) (f : Nat) (T : Bytes) (h : ∃ c t, T = c :: t ∧ ValStart c) :
    readCVPairs pf (f + 1) (10 :: 9 :: T) =
      match readCV pf f T with
      | none => none
      | some (k, r) =>
        match skipWs r with
        | 58 :: r2 =>
          match readCV pf f (skipIndent r2) with
          | none => none
          | some (v, r3) => (readCVPairs pf f (skipSep r3)).map fun p => ((k, v) :: p.1, p.2)
        | _ => none := by
  obtain ⟨c, t, rfl, hc⟩ := h
  exact readCVPairs_step pf f c t hc

theorem head_append {T : Bytes} (h : ∃ c t, T = c :: t ∧ ValStart c) (Z : Bytes) : ∃ c t, T ++ Z = c :: t ∧ ValStart c := by
  obtain ⟨c, t, rfl, hc⟩ := h
  exact ⟨c, t ++ Z, rfl, hc⟩

theorem skipIndent_head {T : Bytes} (h : ∃ c t, T = c :: t ∧ ValStart c) : skipIndent T = T := by
  obtain ⟨c, t, rfl, hc⟩ := h
  exact skipIndent_vs hc t

theorem skipIndent_sp_head {T : Bytes} (h : ∃ c t, T = c :: t ∧ ValStart c) : skipIndent (32 :: T) = T := by
  rw [skipIndent, dropP_cons_true _ _ _ (by rfl)]
  exact skipIndent_head h

theorem skipSep_comma_head {T : Bytes} (h : ∃ c t, T = c :: t ∧ ValStart c) : skipSep (44 :: 32 :: T) = T := by
  simp only [skipSep, skipWs, dropP, isWs]
  simp
  exact skipIndent_sp_head h

theorem skipSep_93 (r : Bytes) : skipSep (93 :: r) = 93 :: r := by
  simp [skipSep, skipWs, dropP, isWs]

theorem skipSep_nl125 (r : Bytes) : skipSep (10 :: 125 :: r) = 10 :: 125 :: r := by
  simp [skipSep, skipWs, dropP, isWs]

theorem skipSep_comma_nl (r : Bytes) : skipSep (44 :: 32 :: 10 :: r) = 10 :: r := by
  simp [skipSep, skipWs, skipIndent, dropP, isWs, isIndent]

theorem skipIndent_ne (c : Nat) (r : Bytes) (h : isIndent c = false) : skipIndent (c :: r) = c :: r :=
  dropP_cons_false _ _ _ h

theorem skipWs_ne (c : Nat) (r : Bytes) (h : isWs c = false) : skipWs (c :: r) = c :: r :=
  dropP_cons_false _ _ _ h

theorem finalItems_head (ff : Nat → Bytes) (pf : Bytes → Nat) (v : CV) (vs : List CV) (h : GoodCV ff pf v) (Z : Bytes) :
    ∃ c t, finalItems ff (v :: vs) ++ Z = c :: t ∧ ValStart c := by
  simp only [finalItems, List.append_assoc]
  exact head_append (finalCV_head ff pf v h) _

theorem cvSize_pos (cv : CV) : 1 ≤ cvSize cv := by
  cases cv <;> simp [cvSize]

mutual
theorem readCV_final (ff : Nat → Bytes) (pf : Bytes → Nat) :
    ∀ (cv : CV), GoodCV ff pf cv → ∀ rest, Term rest → ∀ f, cvSize cv ≤ f →
      readCV pf f (finalCV ff cv ++ rest) = some (reread ff cv, skipIndent rest)
  | .list l, hg, rest, ht, f, hf => by
    have hg' : GoodItems ff pf l := by simpa [GoodCV] using hg
    simp only [cvSize] at hf
    obtain ⟨f', rfl⟩ : ∃ f', f = f' + 1 := ⟨f - 1, by omega⟩
    simp only [finalCV, reread, List.cons_append, List.append_assoc]
    rw [readCV_list]
    simp only [List.nil_append]
    have hsk : skipIndent (finalItems ff l ++ 93 :: rest) = finalItems ff l ++ 93 :: rest := by
      cases l with
      | nil => simp [finalItems, skipIndent, dropP, isIndent]
      | cons v vs => exact skipIndent_head (finalItems_head ff pf v vs hg'.1 _)
    rw [hsk, readItems_final ff pf l hg' rest f' (by omega)]
    rfl
  | .map m, hg, rest, ht, f, hf => by
    have hg' : GoodPairs ff pf m := by simpa [GoodCV] using hg
    simp only [cvSize] at hf
    obtain ⟨f', rfl⟩ : ∃ f', f = f' + 1 := ⟨f - 1, by omega⟩
    simp only [finalCV, reread, List.cons_append, List.append_assoc]
    rw [readCV_map]
    simp only [List.nil_append]
    have hsk : skipIndent (finalPairs ff m ++ 10 :: 125 :: rest) = finalPairs ff m ++ 10 :: 125 :: rest := by
      cases m with
      | nil => simp [finalPairs, skipIndent, dropP, isIndent]
      | cons kv ms => obtain ⟨k, v⟩ := kv; simp [finalPairs, skipIndent, dropP, isIndent]
    rw [hsk, readPairs_final ff pf m hg' rest f' (by omega)]
    rfl
  | .dbl b, hg, rest, ht, f, hf => by
    obtain ⟨f', rfl⟩ : ∃ f', f = f' + 1 := ⟨f - 1, by simp [cvSize] at hf; omega⟩
    exact readCV_leaf ff pf _ rfl hg rest ht f'
  | .int i, hg, rest, ht, f, hf => by
    obtain ⟨f', rfl⟩ : ∃ f', f = f' + 1 := ⟨f - 1, by simp [cvSize] at hf; omega⟩
    exact readCV_leaf ff pf _ rfl hg rest ht f'
  | .lit v, hg, rest, ht, f, hf => by
    obtain ⟨f', rfl⟩ : ∃ f', f = f' + 1 := ⟨f - 1, by simp [cvSize] at hf; omega⟩
    exact readCV_leaf ff pf _ rfl hg rest ht f'
  | .ident s, hg, rest, ht, f, hf => by
    obtain ⟨f', rfl⟩ : ∃ f', f = f' + 1 := ⟨f - 1, by simp [cvSize] at hf; omega⟩
    exact readCV_leaf ff pf _ rfl hg rest ht f'
  | .unset, hg, _, _, _, _ => by simp [GoodCV] at hg
theorem readItems_final (ff : Nat → Bytes) (pf : Bytes → Nat) :
    ∀ (l : List CV), GoodItems ff pf l → ∀ rest f, itemsSize l ≤ f →
      readCVItems pf f (finalItems ff l ++ 93 :: rest) = some (rereadItems ff l, skipIndent rest)
  | [], _, rest, f, hf => by
    simp only [itemsSize] at hf
    obtain ⟨f', rfl⟩ : ∃ f', f = f' + 1 := ⟨f - 1, by omega⟩
    simp only [finalItems, List.nil_append, rereadItems]
    exact readCVItems_close pf f' rest
  | v :: vs, hg, rest, f, hf => by
    obtain ⟨hgv, hgvs⟩ : GoodCV ff pf v ∧ GoodItems ff pf vs := by simpa [GoodItems] using hg
    simp only [itemsSize] at hf
    obtain ⟨f', rfl⟩ : ∃ f', f = f' + 1 := ⟨f - 1, by omega⟩
    rw [readCVItems_step' pf f' _ (finalItems_head ff pf v vs hgv _)]
    simp only [finalItems, List.append_assoc, rereadItems]
    cases vs with
    | nil =>
      simp only [List.isEmpty_nil, Bool.not_true, Bool.false_eq_true, if_false, List.nil_append, finalItems]
      rw [readCV_final ff pf v hgv (93 :: rest) (by simp [Term]) f' (by omega)]
      simp only [skipIndent_ne 93 rest (by rfl), skipSep_93]
      have hpos := cvSize_pos v
      have h0 := readItems_final ff pf [] hgvs rest f' (by simp only [itemsSize] at hf ⊢; omega)
      simp only [finalItems, List.nil_append] at h0
      rw [h0]
      rfl
    | cons w ws =>
      simp only [List.isEmpty_cons, Bool.not_false, if_true, List.cons_append, List.nil_append]
      have hh := finalItems_head ff pf w ws hgvs.1 (93 :: rest)
      rw [readCV_final ff pf v hgv (44 :: 32 :: (finalItems ff (w :: ws) ++ 93 :: rest)) (by simp [Term]) f' (by omega)]
      simp only [skipIndent_ne 44 _ (by rfl), skipSep_comma_head hh]
      rw [readItems_final ff pf (w :: ws) hgvs rest f' (by simp only [itemsSize] at hf ⊢; omega)]
      rfl
theorem readPairs_final (ff : Nat → Bytes) (pf : Bytes → Nat) :
    ∀ (m : List (CV × CV)), GoodPairs ff pf m → ∀ rest f, pairsSize m ≤ f →
      readCVPairs pf f (finalPairs ff m ++ 10 :: 125 :: rest) = some (rereadPairs ff m, skipIndent rest)
  | [], _, rest, f, hf => by
    simp only [pairsSize] at hf
    obtain ⟨f', rfl⟩ : ∃ f', f = f' + 1 := ⟨f - 1, by omega⟩
    simp only [finalPairs, List.nil_append, rereadPairs]
    exact readCVPairs_close pf f' rest
  | (k, v) :: ms, hg, rest, f, hf => by
    obtain ⟨hgk, hgv, hgms⟩ : GoodCV ff pf k ∧ GoodCV ff pf v ∧ GoodPairs ff pf ms := by simpa [GoodPairs] using hg
    simp only [pairsSize] at hf
    obtain ⟨f', rfl⟩ : ∃ f', f = f' + 1 := ⟨f - 1, by omega⟩
    simp only [finalPairs, List.cons_append, List.append_assoc, rereadPairs]
    rw [readCVPairs_step' pf f' _ (head_append (finalCV_head ff pf k hgk) _)]
    rw [readCV_final ff pf k hgk _ (by simp [Term]) f' (by omega)]
    simp only [skipIndent_ne 58 _ (by rfl), skipWs_ne 58 _ (by rfl)]
    cases ms with
    | nil =>
      simp only [List.isEmpty_nil, Bool.not_true, Bool.false_eq_true, if_false, List.nil_append, finalPairs]
      rw [skipIndent_sp_head (head_append (finalCV_head ff pf v hgv) _)]
      rw [readCV_final ff pf v hgv (10 :: 125 :: rest) (by simp [Term]) f' (by omega)]
      simp only [skipIndent_ne 10 _ (by rfl), skipSep_nl125]
      have hpos := cvSize_pos v
      have h0 := readPairs_final ff pf [] hgms rest f' (by simp only [pairsSize] at hf ⊢; omega)
      simp only [finalPairs, List.nil_append] at h0
      rw [h0]
      rfl
    | cons kv ms' =>
      obtain ⟨k2, v2⟩ := kv
      simp only [List.isEmpty_cons, Bool.not_false, if_true, List.cons_append, List.nil_append]
      rw [skipIndent_sp_head (head_append (finalCV_head ff pf v hgv) _)]
      have e : finalPairs ff ((k2, v2) :: ms') ++ 10 :: 125 :: rest
          = 10 :: (9 :: (finalCV ff k2 ++ (58 :: 32 :: (finalCV ff v2 ++ ((if !ms'.isEmpty then [44, 32] else []) ++ finalPairs ff ms'))))
              ++ 10 :: 125 :: rest) := by
        simp [finalPairs]
      rw [e]
      rw [readCV_final ff pf v hgv _ (by simp [Term]) f' (by omega)]
      simp only [skipIndent_ne 44 _ (by rfl), skipSep_comma_nl]
      rw [← e, readPairs_final ff pf ((k2, v2) :: ms') hgms rest f' (by simp only [pairsSize] at hf ⊢; omega)]
      rfl
end

end Dump

/-! ### the dumped text of a constant value is its final text -/
namespace Dump

mutual
theorem printCV_final (ff : Nat → Bytes) : ∀ cv : CV, printCV stdCfg ff cv = finalCV ff cv
  | .dbl b => by simp [printCV, finalCV, ws]
  | .int i => by simp [printCV, finalCV, ws]
  | .lit v => by simp [printCV, finalCV, ws]
  | .ident s => by simp [printCV, finalCV, ws]
  | .list l => by simp [printCV, finalCV, ws, printItems_final ff l]
  | .map m => by simp [printCV, finalCV, ws, printPairs_final ff m]
  | .unset => by simp [printCV, finalCV]
theorem printItems_final (ff : Nat → Bytes) : ∀ l : List CV, printCVList stdCfg ff l = finalItems ff l
  | [] => by simp [printCVList, finalItems]
  | v :: rest => by
    simp only [printCVList, finalItems, printCV_final ff v, printItems_final ff rest, ws]
    simp
theorem printPairs_final (ff : Nat → Bytes) : ∀ m : List (CV × CV), printCVMap stdCfg ff m = finalPairs ff m
  | [] => by simp [printCVMap, finalPairs]
  | (k, v) :: rest => by
    simp only [printCVMap, finalPairs, printCV_final ff k, printCV_final ff v, printPairs_final ff rest, ws]
    simp
end

theorem dumpCV_final (ff : Nat → Bytes) (cv : CV) : dumpCV stdCfg ff cv = finalCV ff cv := printCV_final ff cv

end Dump

/-! ### annotation lists: dumped text and reader -/
namespace Dump

/-- final text of the `k = "v"` pairs, `, ` between them -/
def finalAP : List (Bytes × Bytes) → Bytes
  | [] => []
  | (k, v) :: rest =>
    k ++ (32 :: 61 :: 32 :: (quoteVal stdCfg v ++ ((if !rest.isEmpty then [44, 32] else []) ++ finalAP rest)))

def finalAnn (l : List Ann) : Bytes := if l.isEmpty then [] else 40 :: (finalAP (annFlatten l) ++ [41])

theorem annPairs_final (key : Bytes) (last : Bool) (vs : List Bytes) (tail : List (Bytes × Bytes)) (hl : last = tail.isEmpty) :
    annPairs stdCfg key last vs ++ finalAP tail = finalAP (vs.map (fun v => (key, v)) ++ tail) := by
  induction vs with
  | nil => simp [annPairs]
  | cons v vs ih =>
    simp only [annPairs, ws, List.map_cons, List.cons_append, finalAP, List.append_assoc]
    have hcomma : (!last || !vs.isEmpty) = !(vs.map (fun v => (key, v)) ++ tail).isEmpty := by
      subst hl; cases vs <;> cases tail <;> simp
    rw [← hcomma, ih]
    simp

theorem annFlatten_isEmpty (l : List Ann) (h : ∀ a ∈ l, a.vals ≠ []) : (annFlatten l).isEmpty = l.isEmpty := by
  cases l with
  | nil => rfl
  | cons a rest =>
    have := h a (by simp)
    cases hv : a.vals with
    | nil => exact absurd hv this
    | cons v vs => simp [annFlatten, hv]

theorem annLoop_final (l : List Ann) (h : ∀ a ∈ l, a.vals ≠ []) : annLoop stdCfg l = finalAP (annFlatten l) := by
  induction l with
  | nil => simp [annLoop, annFlatten, finalAP]
  | cons a rest ih =>
    have hr : ∀ b ∈ rest, b.vals ≠ [] := fun b hb => h b (by simp [hb])
    simp only [annLoop, annFlatten, ih hr]
    exact annPairs_final a.key rest.isEmpty a.vals (annFlatten rest) (annFlatten_isEmpty rest hr).symm

theorem dumpAnnotations_final (l : List Ann) (hne : ∀ a ∈ l, a.vals ≠ []) :
    dumpAnnotations stdCfg l = finalAnn l := by
  unfold dumpAnnotations printAnnotation finalAnn
  cases l with
  | nil => simp
  | cons a rest => simp [ws, annLoop_final _ hne]

/-! reader -/

def PairsOK (ps : List (Bytes × Bytes)) : Prop := ∀ p ∈ ps, IdentOK p.1 ∧ Representable p.2 = true

theorem finalAP_head (k v : Bytes) (rest : List (Bytes × Bytes)) (hk : IdentOK k) (Z : Bytes) :
    ∃ c t, finalAP ((k, v) :: rest) ++ Z = c :: t ∧ isLetter c = true := by
  obtain ⟨c, r, rfl, hc, _⟩ := hk
  exact ⟨c, _, rfl, hc⟩

theorem readAnnPairs_close (f : Nat) (rest : Bytes) : readAnnPairs (f + 1) (41 :: rest) = some ([], skipIndent rest) := by
  rw [readAnnPairs]; simp [skipWs, dropP, isWs]

theorem term_sp_eq (X : Bytes) : Term (32 :: X) := by simp [Term]

theorem readAnnPairs_step (f c : Nat) (r v X : Bytes) (hc : isLetter c = true) (hr : r.all isIdChar = true)
    (hv : Representable v = true) :
    readAnnPairs (f + 1) (c :: (r ++ (32 :: 61 :: 32 :: (quoteVal stdCfg v ++ X))))
      = (readAnnPairs f (skipSep (skipIndent X))).map fun p => ((c :: r, v) :: p.1, p.2) := by
  have hlf := letter_facts hc
  have hne41 : c ≠ 41 := by simp [isLetter] at hc; omega
  obtain ⟨cq, tq, hq, hcq⟩ := quoteVal_head v
  have hqws : isWs cq = false := by rcases hcq with h | h <;> subst h <;> rfl
  have hlit := readLiteral_quoteVal v X hv
  rw [readAnnPairs, skipWs_ne c _ hlf.1]
  split
  · rename_i r' heq; injection heq with h1 _; exact absurd h1 hne41
  · rw [readIdent_ok c r _ hc hr (term_sp_eq _)]
    have hsw : skipWs (32 :: 61 :: 32 :: (quoteVal stdCfg v ++ X)) = 61 :: 32 :: (quoteVal stdCfg v ++ X) := by
      simp [skipWs, dropP, isWs]
    simp only [hsw]
    have hsw2 : skipWs (32 :: (quoteVal stdCfg v ++ X)) = quoteVal stdCfg v ++ X := by
      rw [hq, List.cons_append, skipWs, dropP_cons_true _ _ _ (by rfl)]
      exact dropP_cons_false _ _ _ hqws
    simp only [hsw2, hlit]

theorem readAP_final : ∀ (ps : List (Bytes × Bytes)), PairsOK ps → ∀ rest f, ps.length < f →
    readAnnPairs f (finalAP ps ++ 41 :: rest) = some (ps, skipIndent rest)
  | [], _, rest, f, hf => by
    obtain ⟨f', rfl⟩ : ∃ f', f = f' + 1 := ⟨f - 1, by simp at hf; omega⟩
    simp only [finalAP, List.nil_append]
    exact readAnnPairs_close f' rest
  | (k, v) :: ps, hok, rest, f, hf => by
    obtain ⟨hk, hv⟩ := hok (k, v) (by simp)
    have hps : PairsOK ps := fun p hp => hok p (by simp [hp])
    obtain ⟨f', rfl⟩ : ∃ f', f = f' + 1 := ⟨f - 1, by simp at hf; omega⟩
    obtain ⟨c, r, rfl, hc, hr⟩ := hk
    simp only [finalAP, List.cons_append, List.append_assoc]
    rw [readAnnPairs_step f' c r v _ hc hr hv]
    cases ps with
    | nil =>
      simp only [List.isEmpty_nil, Bool.not_true, Bool.false_eq_true, if_false, List.nil_append, finalAP]
      rw [skipIndent_ne 41 _ (by rfl)]
      have : skipSep (41 :: rest) = 41 :: rest := by simp [skipSep, skipWs, dropP, isWs]
      rw [this]
      have h0 := readAP_final [] hps rest f' (by simp at hf ⊢; omega)
      simp only [finalAP, List.nil_append] at h0
      rw [h0]; rfl
    | cons p ps' =>
      obtain ⟨k2, v2⟩ := p
      simp only [List.isEmpty_cons, Bool.not_false, if_true, List.cons_append, List.nil_append]
      rw [skipIndent_ne 44 _ (by rfl)]
      obtain ⟨c2, t2, hct, hc2⟩ := finalAP_head k2 v2 ps' (hps (k2, v2) (by simp)).1 (41 :: rest)
      have hss : skipSep (44 :: 32 :: (finalAP ((k2, v2) :: ps') ++ 41 :: rest)) = finalAP ((k2, v2) :: ps') ++ 41 :: rest := by
        rw [hct]
        have hni : isIndent c2 = false := by
          have := (letter_facts hc2).1; simp [isWs] at this; simp [isIndent]; omega
        have e1 : skipWs (44 :: 32 :: c2 :: t2) = 44 :: 32 :: c2 :: t2 := skipWs_ne 44 _ (by rfl)
        simp only [skipSep, e1]
        rw [skipIndent, dropP_cons_true _ _ _ (by rfl)]
        exact dropP_cons_false _ _ _ hni
      rw [hss, readAP_final ((k2, v2) :: ps') hps rest f' (by simp at hf ⊢; omega)]
      rfl

theorem finalAP_length (ps : List (Bytes × Bytes)) (h : PairsOK ps) : ps.length ≤ (finalAP ps).length := by
  induction ps with
  | nil => simp
  | cons p ps ih =>
    obtain ⟨k, v⟩ := p
    have := ih (fun q hq => h q (by simp [hq]))
    simp only [finalAP, List.length_cons, List.length_append]
    omega

theorem readAnnotations_final (l : List Ann) (hne : l ≠ []) (hwf : WFAnn l) (hok : PairsOK (annFlatten l)) (rest : Bytes) :
    readAnnotations (finalAnn l ++ rest) = some (l, skipIndent rest) := by
  have he : l.isEmpty = false := by cases l with | nil => exact absurd rfl hne | cons _ _ => rfl
  simp only [finalAnn, he, Bool.false_eq_true, if_false, readAnnotations, List.cons_append, List.append_assoc]
  rw [skipWs_ne 40 _ (by rfl)]
  simp only [List.nil_append]
  -- the first pair starts with a letter: Indent* after `(` consumes nothing
  have hfl : ∃ k v ps, annFlatten l = (k, v) :: ps := by
    cases l with
    | nil => exact absurd rfl hne
    | cons a rest' =>
      have := hwf.2 a (by simp)
      cases hv : a.vals with
      | nil => exact absurd hv this
      | cons v vs => exact ⟨a.key, v, vs.map (fun v => (a.key, v)) ++ annFlatten rest', by simp [annFlatten, hv]⟩
  obtain ⟨k, v, ps, hfl⟩ := hfl
  obtain ⟨c, t, hct, hc⟩ := finalAP_head k v ps (hok (k, v) (by simp [hfl])).1 (41 :: rest)
  have hni : isIndent c = false := by
    have := (letter_facts hc).1; simp [isWs] at this; simp [isIndent]; omega
  have hsk : skipIndent (finalAP (annFlatten l) ++ 41 :: rest) = finalAP (annFlatten l) ++ 41 :: rest := by
    rw [hfl, hct]; exact skipIndent_ne c t hni
  rw [hsk, readAP_final (annFlatten l) hok rest _ (by
    have := finalAP_length (annFlatten l) hok
    simp only [List.length_append, List.length_cons]; omega)]
  simp [regroup_flatten l hwf]

end Dump

/-! ### composition: a value followed by an annotation list (tail of a constant / field definition) -/
namespace Dump

mutual
theorem reread_id (ff : Nat → Bytes) : ∀ cv : CV, reread ff cv = cv
  | .dbl _ => rfl
  | .int _ => rfl
  | .lit _ => rfl
  | .ident _ => rfl
  | .list l => by simp [reread, rereadItems_id ff l]
  | .map m => by simp [reread, rereadPairs_id ff m]
  | .unset => rfl
theorem rereadItems_id (ff : Nat → Bytes) : ∀ l : List CV, rereadItems ff l = l
  | [] => rfl
  | v :: r => by simp [rereadItems, reread_id ff v, rereadItems_id ff r]
theorem rereadPairs_id (ff : Nat → Bytes) : ∀ m : List (CV × CV), rereadPairs ff m = m
  | [] => rfl
  | (k, v) :: r => by simp [rereadPairs, reread_id ff k, reread_id ff v, rereadPairs_id ff r]
end

/-- annotation lists as the parser builds them, with values the dumper can write -/
def AnnsOK (l : List Ann) : Prop := ∀ a ∈ l, IdentOK a.key ∧ ∀ v ∈ a.vals, Representable v = true

theorem AnnsOK.pairs {l : List Ann} (h : AnnsOK l) : PairsOK (annFlatten l) := by
  induction l with
  | nil => intro p hp; simp [annFlatten] at hp
  | cons a rest ih =>
    intro p hp
    simp only [annFlatten, List.mem_append, List.mem_map] at hp
    rcases hp with ⟨v, hv, rfl⟩ | hp
    · exact ⟨(h a (by simp)).1, (h a (by simp)).2 v hv⟩
    · exact ih (fun b hb => h b (by simp [hb])) p hp

theorem term_finalAnn (l : List Ann) (rest : Bytes) (h : Term rest) : Term (finalAnn l ++ rest) := by
  unfold finalAnn
  cases l with
  | nil => simpa using h
  | cons a r => simp [Term]

theorem skipIndent_finalAnn (l : List Ann) (hne : l ≠ []) (rest : Bytes) :
    skipIndent (finalAnn l ++ rest) = finalAnn l ++ rest := by
  unfold finalAnn
  cases l with
  | nil => exact absurd rfl hne
  | cons a r => simp [skipIndent, dropP, isIndent]

end Dump
