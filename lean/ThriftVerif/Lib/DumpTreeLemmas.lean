/- C17 helper lemmas for the traversal model `DumpTree`. -/
import ThriftVerif.Lib.DumpTree

namespace DumpTree

mutual
theorem rd_mono : ∀ (n : Node) (vis : List Nat) (a : Nat), a ∈ vis → a ∈ rd n vis
  | .mk id incs, vis, a, h => by
    unfold rd
    split
    · exact h
    · exact rdAll_mono incs _ a (by simp [h])
theorem rdAll_mono : ∀ (ns : List Node) (vis : List Nat) (a : Nat), a ∈ vis → a ∈ rdAll ns vis
  | [], _, _, h => by simpa [rdAll] using h
  | n :: ns, vis, a, h => by
    unfold rdAll
    exact rdAll_mono ns _ a (rd_mono n vis a h)
end

theorem rd_self (n : Node) (vis : List Nat) : n.id ∈ rd n vis := by
  cases n with
  | mk id incs =>
    unfold rd
    split
    · assumption
    · exact rdAll_mono incs _ id (by simp)

theorem rdAll_children : ∀ (ns : List Node) (vis : List Nat) (c : Node), c ∈ ns → c.id ∈ rdAll ns vis
  | [], _, _, h => by simp at h
  | n :: ns, vis, c, h => by
    unfold rdAll
    rcases List.mem_cons.mp h with rfl | h
    · exact rdAll_mono ns _ _ (rd_self c vis)
    · exact rdAll_children ns _ c h

mutual
/-- nothing is written twice -/
theorem rd_nodup : ∀ (n : Node) (vis : List Nat), vis.Nodup → (rd n vis).Nodup
  | .mk id incs, vis, h => by
    unfold rd
    split
    · exact h
    · rename_i hn
      refine rdAll_nodup incs _ ?_
      rw [List.nodup_append]
      exact ⟨h, by simp, by intro a ha b hb; simp at hb; subst hb; intro e; subst e; exact hn ha⟩
theorem rdAll_nodup : ∀ (ns : List Node) (vis : List Nat), vis.Nodup → (rdAll ns vis).Nodup
  | [], _, h => by simpa [rdAll] using h
  | n :: ns, vis, h => by
    unfold rdAll
    exact rdAll_nodup ns _ (rd_nodup n vis h)
end

theorem occ_self (n : Node) : n ∈ occ n := by
  cases n with
  | mk id incs => simp [occ]

theorem occAll_mem : ∀ (ns : List Node) (c t : Node), c ∈ ns → t ∈ occ c → t ∈ occAll ns
  | [], _, _, h, _ => by simp at h
  | n :: ns, c, t, h, ht => by
    unfold occAll
    rcases List.mem_cons.mp h with rfl | h
    · exact List.mem_append_left _ ht
    · exact List.mem_append_right _ (occAll_mem ns c t h ht)

mutual
/-- every id that gets written is written at an occurrence all of whose includes are written as well -/
theorem rd_explained : ∀ (n : Node) (vis : List Nat) (a : Nat), a ∈ rd n vis →
    a ∈ vis ∨ ∃ incs, Node.mk a incs ∈ occ n ∧ ∀ c ∈ incs, c.id ∈ rd n vis
  | .mk id incs, vis, a, h => by
    unfold rd at h ⊢
    split at h
    · rename_i hv; simp only [hv, if_true]; exact Or.inl h
    · rename_i hv
      simp only [hv, if_false]
      rcases rdAll_explained incs (vis ++ [id]) a h with h1 | ⟨l, hl, hc⟩
      · rcases List.mem_append.mp h1 with h1 | h1
        · exact Or.inl h1
        · have : a = id := by simpa using h1
          subst this
          exact Or.inr ⟨incs, by simp [occ], fun c hc => rdAll_children incs _ c hc⟩
      · exact Or.inr ⟨l, by simp [occ, hl], hc⟩
theorem rdAll_explained : ∀ (ns : List Node) (vis : List Nat) (a : Nat), a ∈ rdAll ns vis →
    a ∈ vis ∨ ∃ incs, Node.mk a incs ∈ occAll ns ∧ ∀ c ∈ incs, c.id ∈ rdAll ns vis
  | [], vis, a, h => by left; simpa [rdAll] using h
  | n :: ns, vis, a, h => by
    unfold rdAll at h ⊢
    rcases rdAll_explained ns (rd n vis) a h with h1 | ⟨l, hl, hc⟩
    · rcases rd_explained n vis a h1 with h2 | ⟨l, hl, hc⟩
      · exact Or.inl h2
      · exact Or.inr ⟨l, by unfold occAll; exact List.mem_append_left _ hl, fun c hcm => rdAll_mono ns _ _ (hc c hcm)⟩
    · exact Or.inr ⟨l, by unfold occAll; exact List.mem_append_right _ hl, hc⟩
end

mutual
theorem complete_node (root : Node) (hcons : Consistent root) :
    ∀ (n : Node), (∀ t ∈ occ n, t ∈ occ root) → n.id ∈ rd root [] → ∀ t ∈ occ n, t.id ∈ rd root []
  | .mk a incs, hsub, hin, t, ht => by
    have hmem : Node.mk a incs ∈ occ root := hsub _ (occ_self _)
    rcases rd_explained root [] a hin with h | ⟨l, hl, hc⟩
    · simp at h
    · have hids : incs.map Node.id = l.map Node.id := hcons a incs l hmem hl
      have hch : ∀ c ∈ incs, c.id ∈ rd root [] := by
        intro c hcm
        have : c.id ∈ l.map Node.id := by rw [← hids]; exact List.mem_map_of_mem hcm
        obtain ⟨c', hc', he⟩ := List.mem_map.mp this
        rw [← he]; exact hc c' hc'
      simp only [occ, List.mem_cons] at ht
      rcases ht with rfl | ht
      · exact hin
      · exact complete_list root hcons incs (fun c hcm t' ht' => hsub t' (by simp only [occ, List.mem_cons]; exact Or.inr (occAll_mem incs c t' hcm ht'))) hch t ht
theorem complete_list (root : Node) (hcons : Consistent root) :
    ∀ (ns : List Node), (∀ c ∈ ns, ∀ t ∈ occ c, t ∈ occ root) → (∀ c ∈ ns, c.id ∈ rd root []) →
      ∀ t ∈ occAll ns, t.id ∈ rd root []
  | [], _, _, t, ht => by simp [occAll] at ht
  | n :: ns, hsub, hin, t, ht => by
    unfold occAll at ht
    rcases List.mem_append.mp ht with ht | ht
    · exact complete_node root hcons n (hsub n (by simp)) (hin n (by simp)) t ht
    · exact complete_list root hcons ns (fun c hc => hsub c (by simp [hc])) (fun c hc => hin c (by simp [hc])) t ht
end

end DumpTree
