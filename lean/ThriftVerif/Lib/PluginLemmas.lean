import ThriftVerif.Lib.Plugin
/- helper lemmas about Lib/Plugin for Props/C11 -/
namespace Plugin

/-! ### prefixes -/

theorem stripPrefix_append (p s : Bytes) : stripPrefix (p ++ s) p = some s := by
  induction p with
  | nil => cases s <;> rfl
  | cons a p ih => simp [stripPrefix, ih]

theorem hasPrefix_iff_strip (s p : Bytes) : hasPrefix s p = (stripPrefix s p).isSome := by
  induction p generalizing s with
  | nil => cases s <;> rfl
  | cons b p ih =>
    cases s with
    | nil => rfl
    | cons a s =>
      simp only [hasPrefix, stripPrefix]
      by_cases h : a = b
      · simp [h, ih]
      · simp [h]

/-! ### sizes, descendants -/

variable {α : Type}

theorem Tree.size_eq (t : Tree α) : t.size = sizeK t.kids + 1 := by
  cases t; simp [Tree.size, Tree.kids]

theorem mem_nodesK_size : ∀ (n : Nat) (l : List (Tree α)), sizeK l ≤ n → ∀ d, d ∈ nodesK l → d.size ≤ sizeK l := by
  intro n
  induction n with
  | zero =>
    intro l hl d hd
    cases l with
    | nil => simp [nodesK] at hd
    | cons k r => cases k; simp [sizeK, Tree.size] at hl
  | succ n ih =>
    intro l hl d hd
    cases l with
    | nil => simp [nodesK] at hd
    | cons k r =>
      cases k with
      | node inc fn body ks =>
        simp only [sizeK, Tree.size] at hl ⊢
        simp only [nodesK, Tree.descs, List.mem_cons, List.mem_append] at hd
        rcases hd with rfl | hd | hd
        · simp [Tree.size]
        · have := ih ks (by omega) d hd; omega
        · have := ih r (by omega) d hd; omega

theorem mem_nodesK_cons_self (k : Tree α) (r : List (Tree α)) : k ∈ nodesK (k :: r) := by
  simp [nodesK]

theorem mem_nodesK_of_kids (inc : α) (fn : Bytes) (body : α) (ks r : List (Tree α)) (d : Tree α) (h : d ∈ nodesK ks) :
    d ∈ nodesK (.node inc fn body ks :: r) := by
  simp [nodesK, Tree.descs, h]

theorem mem_nodesK_of_tail (k : Tree α) (r : List (Tree α)) (d : Tree α) (h : d ∈ nodesK r) : d ∈ nodesK (k :: r) := by
  simp [nodesK, h]

/-! ### heaps -/

def Heap.le (h h' : Heap α) : Prop := ∀ k v, h k = some v → h' k = some v

theorem Heap.le_refl (h : Heap α) : h.le h := fun _ _ x => x
theorem Heap.le_trans {a b c : Heap α} (h1 : a.le b) (h2 : b.le c) : a.le c := fun k v x => h2 k v (h1 k v x)
theorem Heap.le_ins (h : Heap α) (k : Bytes) (v : Tree α) (hk : h k = none) : h.le (h.ins k v) := by
  intro k' v' hv
  by_cases e : k' = k
  · subst e; rw [hk] at hv; cases hv
  · simp [Heap.ins, e, hv]

theorem Heap.ins_comm (k k' : Bytes) (v v' : Tree α) (h : Heap α) (hne : k ≠ k') :
    (h.ins k v).ins k' v' = (h.ins k' v').ins k v := by
  funext x
  simp only [Heap.ins]
  by_cases h1 : x = k' <;> by_cases h2 : x = k <;> simp [h1, h2]
  · subst h1; subst h2; exact absurd rfl hne
  · subst h1; intro e; exact absurd e.symm hne
  · subst h2; intro e; exact absurd e hne

/-! ### decompress is monotone in the heap and in the fuel -/

theorem decListWith_mono (dk dk' : List (Tree α) → DRes (List (Tree α))) (m m' : Heap α) (hm : m.le m')
    (hdk : ∀ x y, dk x = .ok y → dk' x = .ok y) :
    ∀ (l r : List (Tree α)), decListWith dk m l = .ok r → decListWith dk' m' l = .ok r := by
  intro l
  induction l with
  | nil => intro r h; simpa [decListWith] using h
  | cons k t ih =>
    intro r h
    cases k with
    | node inc fn body ks =>
      simp only [decListWith] at h ⊢
      cases hs : stripPrefix fn refPrefix with
      | some fn' =>
        simp only [hs] at h ⊢
        cases hl : m fn' with
        | none => simp [hl] at h
        | some c =>
          cases c with
          | node ginc g gbody gks =>
            simp only [hl] at h
            rw [hm fn' _ hl]
            simp only
            cases hd : dk gks with
            | ok gks' =>
              simp only [hd] at h
              rw [hdk _ _ hd]
              simp only
              cases ht : decListWith dk m t with
              | ok r' =>
                simp only [ht] at h
                rw [ih r' ht]
                exact h
              | panic => simp [ht] at h
              | fuel => simp [ht] at h
            | panic => simp [hd] at h
            | fuel => simp [hd] at h
      | none =>
        simp only [hs] at h ⊢
        cases hd : dk ks with
        | ok ks' =>
          simp only [hd] at h
          rw [hdk _ _ hd]
          simp only
          cases ht : decListWith dk m t with
          | ok r' =>
            simp only [ht] at h
            rw [ih r' ht]
            exact h
          | panic => simp [ht] at h
          | fuel => simp [ht] at h
        | panic => simp [hd] at h
        | fuel => simp [hd] at h

theorem decompressKids_succ (f : Nat) (m : Heap α) (l : List (Tree α)) :
    decompressKids (f + 1) m l = decListWith (decompressKids f m) m l := by
  cases l with
  | nil => simp [decompressKids, decListWith]
  | cons k r => simp [decompressKids]

theorem decompressKids_mono : ∀ (f f' : Nat) (m m' : Heap α), f ≤ f' → m.le m' →
    ∀ (l r : List (Tree α)), decompressKids f m l = .ok r → decompressKids f' m' l = .ok r := by
  intro f
  induction f with
  | zero =>
    intro f' m m' _ _ l r h
    cases l with
    | nil => simp only [decompressKids] at h ⊢; cases f' <;> simpa [decompressKids] using h
    | cons k t => simp [decompressKids] at h
  | succ f ih =>
    intro f' m m' hf hm l r h
    cases f' with
    | zero => omega
    | succ f' =>
      rw [decompressKids_succ] at h ⊢
      exact decListWith_mono _ _ m m' hm (fun x y hxy => ih f' m m' (by omega) hm x y hxy) l r h

/-! ### the invariant of compressThriftInclude -/

/-- a heap entry `c` for file `k` decompresses (under `H`) to the original `o` -/
def GoodEntry (U : Tree α → Prop) (H : Heap α) (k : Bytes) : Prop :=
  ∃ c o, H k = some c ∧ U o ∧ o.fn = k ∧ c.fn = k ∧ c.body = o.body ∧
    ∀ f, depthK o.kids ≤ f → decompressKids f H c.kids = .ok o.kids

structure Inv (U : Tree α → Prop) (P : List Bytes) (s : CState α) : Prop where
  keys : ∀ k, s.heap k ≠ none → k ∈ s.vis
  prog : ∀ k, k ∈ P → s.heap k = none
  good : ∀ k, k ∈ s.vis → k ∈ P ∨ GoodEntry U s.heap k

theorem GoodEntry.mono {U : Tree α → Prop} {H H' : Heap α} {k : Bytes} (hle : H.le H') (h : GoodEntry U H k) :
    GoodEntry U H' k := by
  obtain ⟨c, o, h1, h2, h3, h4, h4', h5⟩ := h
  exact ⟨c, o, hle _ _ h1, h2, h3, h4, h4', fun f hf => decompressKids_mono f f H H' (Nat.le_refl _) hle _ _ (h5 f hf)⟩

theorem compressKids_nil (dflt : α) (s : CState α) : compressKids dflt [] s = ([], s) := by simp only [compressKids]

theorem compressKids_visited (dflt inc : α) (fn : Bytes) (body : α) (ks r : List (Tree α)) (s : CState α)
    (h : s.vis.contains fn = true) :
    compressKids dflt (.node inc fn body ks :: r) s =
      (.node inc (refPrefix ++ fn) dflt [] :: (compressKids dflt r s).1, (compressKids dflt r s).2) := by
  simp only [compressKids, compressNode, Tree.fn, Tree.inc, h, if_true]

/-- state after marking `fn` visited -/
def CState.mark (s : CState α) (fn : Bytes) : CState α := ⟨fn :: s.vis, s.heap⟩
/-- state after the recursive call on `fn` returned: the pointee is final -/
def CState.fin (s1 : CState α) (fn : Bytes) (c : Tree α) : CState α := ⟨s1.vis, Heap.ins fn c s1.heap⟩

theorem compressKids_fresh (dflt inc : α) (fn : Bytes) (body : α) (ks r : List (Tree α)) (s : CState α)
    (h : s.vis.contains fn = false) :
    compressKids dflt (.node inc fn body ks :: r) s =
      (.node inc fn body (compressKids dflt ks (s.mark fn)).1 ::
        (compressKids dflt r ((compressKids dflt ks (s.mark fn)).2.fin fn
          (.node inc fn body (compressKids dflt ks (s.mark fn)).1))).1,
       (compressKids dflt r ((compressKids dflt ks (s.mark fn)).2.fin fn
          (.node inc fn body (compressKids dflt ks (s.mark fn)).1))).2) := by
  simp only [compressKids, compressNode, Tree.fn, Tree.inc, Tree.body, h, Bool.false_eq_true, if_false,
    CState.mark, CState.fin]

theorem collectKids_nil (m : Heap α) : collectKids ([] : List (Tree α)) m = m := by simp only [collectKids]

theorem collectKids_cons (inc : α) (fn : Bytes) (body : α) (ks r : List (Tree α)) (m : Heap α) :
    collectKids (.node inc fn body ks :: r) m =
      if hasPrefix fn refPrefix then collectKids r m
      else collectKids r (collectKids ks (m.ins fn (.node inc fn body ks))) := by
  simp only [collectKids, collectNode, Tree.fn]
  rfl

theorem depthK_cons (inc : α) (fn : Bytes) (body : α) (ks r : List (Tree α)) :
    depthK (.node inc fn body ks :: r) = max (depthK ks + 1) (depthK r) := by
  simp [depthK, Tree.depth]

/-- **main invariant**: compressing a list of includes keeps the invariant, only extends the heap, and
its output decompresses (under the resulting heap, hence under every later one) to the input. -/
theorem compressKids_inv (dflt : α) (U : Tree α → Prop)
    (hU : ∀ a b, U a → U b → a.fn = b.fn → a.body = b.body ∧ a.kids = b.kids)
    (hN : ∀ a, U a → stripPrefix a.fn refPrefix = none) :
    ∀ (n : Nat) (l : List (Tree α)), sizeK l ≤ n → ∀ (P : List Bytes) (s : CState α), Inv U P s →
      (∀ d, d ∈ nodesK l → U d ∧ d.fn ∉ P) →
      Inv U P (compressKids dflt l s).2 ∧ s.heap.le (compressKids dflt l s).2.heap ∧
      (∀ k, k ∈ s.vis → k ∈ (compressKids dflt l s).2.vis) ∧
      (∀ f, depthK l ≤ f → decompressKids f (compressKids dflt l s).2.heap (compressKids dflt l s).1 = .ok l) := by
  intro n
  induction n with
  | zero =>
    intro l hl P s hI _
    cases l with
    | nil =>
      rw [compressKids_nil]
      exact ⟨hI, Heap.le_refl _, fun _ h => h, fun f _ => by cases f <;> simp [decompressKids]⟩
    | cons k r => cases k; simp [sizeK, Tree.size] at hl
  | succ n ih =>
    intro l hl P s hI hl'
    cases l with
    | nil =>
      rw [compressKids_nil]
      exact ⟨hI, Heap.le_refl _, fun _ h => h, fun f _ => by cases f <;> simp [decompressKids]⟩
    | cons k r =>
      cases k with
      | node inc fn body ks =>
        have hsz : sizeK ks ≤ n ∧ sizeK r ≤ n := by simp only [sizeK, Tree.size] at hl; omega
        have hself := hl' _ (mem_nodesK_cons_self (.node inc fn body ks) r)
        have hUself : U (.node inc fn body ks) := hself.1
        have hfnP : fn ∉ P := hself.2
        have hr' : ∀ d, d ∈ nodesK r → U d ∧ d.fn ∉ P := fun d hd => hl' d (mem_nodesK_of_tail _ r d hd)
        by_cases hv : s.vis.contains fn = true
        · -- visited: a reference stub
          obtain ⟨i1, i2, i3, i4⟩ := ih r hsz.2 P s hI hr'
          rw [compressKids_visited dflt inc fn body ks r s hv]
          refine ⟨i1, i2, i3, ?_⟩
          intro f hf
          rw [depthK_cons] at hf
          cases f with
          | zero => omega
          | succ f =>
            have hmem : fn ∈ s.vis := by simpa using hv
            rcases hI.good fn hmem with hp | ⟨c, o, g1, g2, g3, g4, g4', g5⟩
            · exact absurd hp hfnP
            · obtain ⟨hob, hok⟩ := hU _ _ g2 hUself (by simpa [Tree.fn] using g3)
              simp only [Tree.body, Tree.kids] at hob hok
              cases c with
              | node cinc g gbody gks =>
                simp only [Tree.fn] at g4
                subst g4
                simp only [Tree.kids, hok] at g5
                simp only [Tree.body, hob] at g4'
                subst g4'
                have e1 := decompressKids_mono _ f _ _ (by omega) i2 _ _ (g5 (depthK ks) (Nat.le_refl _))
                have e2 := i4 (f + 1) (by omega)
                rw [decompressKids_succ] at e2 ⊢
                simp only [decListWith, stripPrefix_append, i2 _ _ g1, e1, e2]
        · -- first occurrence: mark, recurse, record the pointee
          have hv' : s.vis.contains fn = false := by simpa using hv
          have hnv : fn ∉ s.vis := by simpa using hv'
          have hHfn : s.heap fn = none := by
            cases h : s.heap fn with
            | none => rfl
            | some v => exact absurd (hI.keys fn (by simp [h])) hnv
          -- state for the recursive call
          let sa : CState α := { s with vis := fn :: s.vis }
          have hIa : Inv U (fn :: P) sa := {
            keys := fun k hk => List.mem_cons_of_mem _ (hI.keys k hk)
            prog := fun k hk => by
              rcases List.mem_cons.mp hk with rfl | hk
              · exact hHfn
              · exact hI.prog k hk
            good := fun k hk => by
              rcases List.mem_cons.mp hk with rfl | hk
              · exact Or.inl (List.mem_cons_self ..)
              · rcases hI.good k hk with h | h
                · exact Or.inl (List.mem_cons_of_mem _ h)
                · exact Or.inr h }
          have hks' : ∀ d, d ∈ nodesK ks → U d ∧ d.fn ∉ fn :: P := by
            intro d hd
            have hd' := hl' d (mem_nodesK_of_kids inc fn body ks r d hd)
            refine ⟨hd'.1, ?_⟩
            intro hmem
            rcases List.mem_cons.mp hmem with h | h
            · have hk : d.kids = ks := by
                simpa [Tree.kids] using (hU _ _ hd'.1 hUself (by simpa [Tree.fn] using h)).2
              have hsize := mem_nodesK_size (sizeK ks) ks (Nat.le_refl _) d hd
              rw [Tree.size_eq, hk] at hsize
              omega
            · exact hd'.2 h
          obtain ⟨a1, a2, a3, a4⟩ := ih ks hsz.1 (fn :: P) sa hIa hks'
          -- after recording the pointee
          let s1 := (compressKids dflt ks sa).2
          let ks' := (compressKids dflt ks sa).1
          let s2 : CState α := { vis := s1.vis, heap := s1.heap.ins fn (.node inc fn body ks') }
          have hH1fn : s1.heap fn = none := a1.prog fn (List.mem_cons_self ..)
          have hle12 : s1.heap.le s2.heap := Heap.le_ins _ _ _ hH1fn
          have hI2 : Inv U P s2 := {
            keys := fun k hk => by
              by_cases e : k = fn
              · subst e; exact a3 _ (List.mem_cons_self ..)
              · exact a1.keys k (by simpa [s2, Heap.ins, e] using hk)
            prog := fun k hk => by
              have e : k ≠ fn := fun e => hfnP (e ▸ hk)
              have := a1.prog k (List.mem_cons_of_mem _ hk)
              show Heap.ins fn (Tree.node inc fn body ks') s1.heap k = none
              simp only [Heap.ins, e, if_false]
              exact this
            good := fun k hk => by
              by_cases e : k = fn
              · subst e
                refine Or.inr ⟨.node inc k body ks', .node inc k body ks, by simp [s2, Heap.ins], hUself, rfl, rfl, rfl, ?_⟩
                intro f hf
                exact decompressKids_mono f f _ _ (Nat.le_refl _) hle12 _ _ (a4 f hf)
              · rcases a1.good k hk with h | h
                · rcases List.mem_cons.mp h with h | h
                  · exact absurd h e
                  · exact Or.inl h
                · exact Or.inr (h.mono hle12) }
          obtain ⟨b1, b2, b3, b4⟩ := ih r hsz.2 P s2 hI2 hr'
          have hc : compressKids dflt (.node inc fn body ks :: r) s =
              (.node inc fn body ks' :: (compressKids dflt r s2).1, (compressKids dflt r s2).2) :=
            compressKids_fresh dflt inc fn body ks r s hv'
          rw [hc]
          refine ⟨b1, Heap.le_trans a2 (Heap.le_trans hle12 b2), ?_, ?_⟩
          · intro k hk
            exact b3 k (a3 k (List.mem_cons_of_mem _ hk))
          · intro f hf
            rw [depthK_cons] at hf
            cases f with
            | zero => omega
            | succ f =>
              have e1 : decompressKids f (compressKids dflt r s2).2.heap ks' = .ok ks :=
                decompressKids_mono _ f _ _ (Nat.le_refl _) (Heap.le_trans hle12 b2) _ _ (a4 f (by omega))
              have e2 := b4 (f + 1) (by omega)
              rw [decompressKids_succ] at e2 ⊢
              have hs : stripPrefix fn refPrefix = none := by simpa [Tree.fn] using hN _ hUself
              simp only [decListWith, hs, e1, e2]

/-- the key set only grows -/
theorem compressKids_vis (dflt : α) : ∀ (n : Nat) (l : List (Tree α)), sizeK l ≤ n → ∀ (s : CState α) k, k ∈ s.vis →
    k ∈ (compressKids dflt l s).2.vis := by
  intro n
  induction n with
  | zero =>
    intro l hl s k hk
    cases l with
    | nil => simpa [compressKids_nil] using hk
    | cons k r => cases k; simp [sizeK, Tree.size] at hl
  | succ n ih =>
    intro l hl s k hk
    cases l with
    | nil => simpa [compressKids_nil] using hk
    | cons t r =>
      cases t with
      | node inc fn body ks =>
        have hsz : sizeK ks ≤ n ∧ sizeK r ≤ n := by simp only [sizeK, Tree.size] at hl; omega
        by_cases hv : s.vis.contains fn = true
        · rw [compressKids_visited dflt inc fn body ks r s hv]
          exact ih r hsz.2 s k hk
        · have hv' : s.vis.contains fn = false := by simpa using hv
          rw [compressKids_fresh dflt inc fn body ks r s hv']
          apply ih r hsz.2
          apply ih ks hsz.1
          exact List.mem_cons_of_mem _ hk

/-- **collect on the plugin side rebuilds the compressor's pointees**: whatever commutes with the
insertions of not-yet-visited files can be pushed through. -/
theorem collect_compress (dflt : α) :
    ∀ (n : Nat) (l : List (Tree α)), sizeK l ≤ n → (∀ d, d ∈ nodesK l → stripPrefix d.fn refPrefix = none) →
    ∀ (s : CState α) (g : Heap α → Heap α),
      (∀ k v H, k ∉ s.vis → g (Heap.ins k v H) = Heap.ins k v (g H)) →
      collectKids (compressKids dflt l s).1 (g s.heap) = g (compressKids dflt l s).2.heap := by
  intro n
  induction n with
  | zero =>
    intro l hl _ s g _
    cases l with
    | nil => simp [compressKids_nil, collectKids_nil]
    | cons k r => cases k; simp [sizeK, Tree.size] at hl
  | succ n ih =>
    intro l hl hno s g hg
    cases l with
    | nil => simp [compressKids_nil, collectKids_nil]
    | cons t r =>
      cases t with
      | node inc fn body ks =>
        have hsz : sizeK ks ≤ n ∧ sizeK r ≤ n := by simp only [sizeK, Tree.size] at hl; omega
        have hr : ∀ d, d ∈ nodesK r → stripPrefix d.fn refPrefix = none :=
          fun d hd => hno d (mem_nodesK_of_tail _ r d hd)
        have hk : ∀ d, d ∈ nodesK ks → stripPrefix d.fn refPrefix = none :=
          fun d hd => hno d (mem_nodesK_of_kids inc fn body ks r d hd)
        by_cases hv : s.vis.contains fn = true
        · rw [compressKids_visited dflt inc fn body ks r s hv]
          have hp : hasPrefix (refPrefix ++ fn) refPrefix = true := by
            rw [hasPrefix_iff_strip, stripPrefix_append]; rfl
          rw [collectKids_cons]
          simp only [hp, if_true]
          exact ih r hsz.2 hr s g hg
        · have hv' : s.vis.contains fn = false := by simpa using hv
          have hnv : fn ∉ s.vis := by simpa using hv'
          rw [compressKids_fresh dflt inc fn body ks r s hv']
          have hs : stripPrefix fn refPrefix = none := by
            simpa [Tree.fn] using hno _ (mem_nodesK_cons_self (.node inc fn body ks) r)
          have hp : hasPrefix fn refPrefix = false := by rw [hasPrefix_iff_strip, hs]; rfl
          rw [collectKids_cons]
          simp only [hp, Bool.false_eq_true, if_false]
          -- push the insertion of `fn` through the recursive call
          have e1 := ih ks hsz.1 hk (s.mark fn)
            (fun H => Heap.ins fn (Tree.node inc fn body (compressKids dflt ks (s.mark fn)).1) (g H)) (by
            intro k v H hk'
            have hkv : k ∉ s.vis := fun h => hk' (List.mem_cons_of_mem _ h)
            have hne : k ≠ fn := fun e => hk' (e ▸ List.mem_cons_self ..)
            show Heap.ins fn _ (g (Heap.ins k v H)) = Heap.ins k v (Heap.ins fn _ (g H))
            rw [hg k v H hkv, Heap.ins_comm k fn v _ (g H) hne])
          simp only [CState.mark] at e1 ⊢
          rw [e1, ← hg fn _ _ hnv]
          exact ih r hsz.2 hr _ g (fun k v H hk' => hg k v H (fun h => hk'
            (compressKids_vis dflt _ ks (Nat.le_refl _) ⟨fn :: s.vis, s.heap⟩ k (List.mem_cons_of_mem _ h))))

/-! ### data trailer -/

theorem hasSuffix_append (d s : Bytes) : hasSuffix (d ++ s) s = true := by
  simp [hasSuffix]

theorem hasSuffix_split (d s : Bytes) (h : hasSuffix d s = true) : ∃ p, d = p ++ s := by
  simp only [hasSuffix, Bool.and_eq_true, decide_eq_true_eq, beq_iff_eq] at h
  refine ⟨d.take (d.length - s.length), ?_⟩
  have := List.take_append_drop (d.length - s.length) d
  rw [h.2] at this
  exact this.symm

theorem trailer_last : trailerMagic.getLast? = some 255 := by decide

theorem no_trailer_of_stop (x : Bytes) (feature : Nat) : hasDataTrailerFeature (x ++ [0]) feature = false := by
  have hs : hasSuffix (x ++ [0]) trailerMagic = false := by
    cases h : hasSuffix (x ++ [0]) trailerMagic with
    | false => rfl
    | true =>
      obtain ⟨p, hp⟩ := hasSuffix_split _ _ h
      have := congrArg List.getLast? hp
      rw [List.getLast?_append, List.getLast?_append, trailer_last] at this
      simp at this
  simp [hasDataTrailerFeature, hs]

theorem has_append_trailer (d : Bytes) (feature : Nat) :
    hasDataTrailerFeature (appendDataTrailer d feature) feature = true := by
  have hl : ¬ ((d ++ [feature]) ++ trailerMagic).length < trailerMagic.length + 1 := by simp
  have hidx : ((d ++ [feature]) ++ trailerMagic).length - 1 - trailerMagic.length = d.length := by simp
  simp only [hasDataTrailerFeature, appendDataTrailer, hasSuffix_append, hidx]
  simp [hl]

/-! ### splitting -/

theorem cut_nosep (sep : Nat) (x r : Bytes) (h : ∀ c, c ∈ x → c ≠ sep) :
    cut sep (x ++ sep :: r) = (x, r, true) := by
  induction x with
  | nil => simp [cut]
  | cons a x ih =>
    have ha : a ≠ sep := h a (List.mem_cons_self ..)
    simp [cut, ha, ih (fun c hc => h c (List.mem_cons_of_mem _ hc))]

theorem cut_none (sep : Nat) (x : Bytes) (h : ∀ c, c ∈ x → c ≠ sep) : cut sep x = (x, [], false) := by
  induction x with
  | nil => simp [cut]
  | cons a x ih =>
    have ha : a ≠ sep := h a (List.mem_cons_self ..)
    simp [cut, ha, ih (fun c hc => h c (List.mem_cons_of_mem _ hc))]

theorem splitOn_ne_nil (sep : Nat) (x : Bytes) : splitOn sep x ≠ [] := by
  induction x with
  | nil => simp [splitOn]
  | cons a x ih =>
    simp only [splitOn]
    split
    · simp
    · split <;> simp

theorem splitOn_nosep (sep : Nat) (x r : Bytes) (h : ∀ c, c ∈ x → c ≠ sep) :
    splitOn sep (x ++ sep :: r) = x :: splitOn sep r := by
  induction x with
  | nil => simp [splitOn]
  | cons a x ih =>
    have ha : a ≠ sep := h a (List.mem_cons_self ..)
    simp [splitOn, ha, ih (fun c hc => h c (List.mem_cons_of_mem _ hc))]

theorem splitOn_none (sep : Nat) (x : Bytes) (h : ∀ c, c ∈ x → c ≠ sep) : splitOn sep x = [x] := by
  induction x with
  | nil => simp [splitOn]
  | cons a x ih =>
    have ha : a ≠ sep := h a (List.mem_cons_self ..)
    simp [splitOn, ha, ih (fun c hc => h c (List.mem_cons_of_mem _ hc))]

theorem splitN2_nosep (sep : Nat) (x r : Bytes) (h : ∀ c, c ∈ x → c ≠ sep) :
    splitN2 sep (x ++ sep :: r) = (x, some r) := by
  induction x with
  | nil => simp [splitN2]
  | cons a x ih =>
    have ha : a ≠ sep := h a (List.mem_cons_self ..)
    simp [splitN2, ha, ih (fun c hc => h c (List.mem_cons_of_mem _ hc))]

theorem splitN2_none (sep : Nat) (x : Bytes) (h : ∀ c, c ∈ x → c ≠ sep) : splitN2 sep x = (x, none) := by
  induction x with
  | nil => simp [splitN2]
  | cons a x ih =>
    have ha : a ≠ sep := h a (List.mem_cons_self ..)
    simp [splitN2, ha, ih (fun c hc => h c (List.mem_cons_of_mem _ hc))]

/-! ### version strings -/

/-- a non-empty string of ASCII digits -/
def IsDigits (d : Bytes) : Prop := d ≠ [] ∧ ∀ c, c ∈ d → isDigit c = true

/-- its decimal value -/
def digitsNat (d : Bytes) : Nat := d.foldl (fun a c => a * 10 + (c - 48)) 0

/-- `vA.B.C` or `vA.B.C-pre` -/
def verString (a b c : Bytes) (pre : Option Bytes) : Bytes :=
  118 :: (a ++ 46 :: (b ++ 46 :: (c ++ (match pre with | none => [] | some p => 45 :: p))))

def digitsFold (d : Bytes) (acc : Nat) : Nat := d.foldl (fun a c => a * 10 + (c - 48)) acc

theorem digitsFold_ge (d : Bytes) (acc : Nat) : acc ≤ digitsFold d acc := by
  induction d generalizing acc with
  | nil => simp [digitsFold]
  | cons c r ih =>
    have := ih (acc * 10 + (c - 48))
    simp only [digitsFold, List.foldl_cons] at this ⊢
    omega

theorem parseUint_digits (d : Bytes) (n : Nat) (h : ∀ c, c ∈ d → isDigit c = true) :
    (parseUint d n = .ok (digitsFold d n) ∧ digitsFold d n ≤ maxUint64) ∨
    (parseUint d n = .range ∧ digitsFold d n > maxUint64) ∨ (d = [] ∧ parseUint d n = .ok n) := by
  induction d generalizing n with
  | nil => exact Or.inr (Or.inr ⟨rfl, rfl⟩)
  | cons c r ih =>
    have hc := h c (List.mem_cons_self ..)
    have hr : ∀ x, x ∈ r → isDigit x = true := fun x hx => h x (List.mem_cons_of_mem _ hx)
    simp only [parseUint, hc, Bool.not_true, Bool.false_eq_true, if_false]
    have hge := digitsFold_ge r (n * 10 + (c - 48))
    have hfold : digitsFold (c :: r) n = digitsFold r (n * 10 + (c - 48)) := by simp [digitsFold]
    by_cases h1 : n ≥ maxUint64 / 10 + 1
    · simp only [h1, if_true]
      refine Or.inr (Or.inl ⟨trivial, ?_⟩)
      rw [hfold]; simp only [maxUint64] at h1 ⊢; omega
    · simp only [h1, if_false]
      by_cases h2 : n * 10 + (c - 48) > maxUint64
      · simp only [h2, if_true]
        exact Or.inr (Or.inl ⟨trivial, by rw [hfold]; omega⟩)
      · simp only [h2, if_false]
        rcases ih (n * 10 + (c - 48)) hr with ⟨a, b⟩ | ⟨a, b⟩ | ⟨a, b⟩
        · exact Or.inl ⟨by rw [a, hfold], by rw [hfold]; exact b⟩
        · exact Or.inr (Or.inl ⟨a, by rw [hfold]; exact b⟩)
        · subst a
          refine Or.inl ⟨by rw [b, hfold]; simp [digitsFold], ?_⟩
          rw [hfold]; simp only [digitsFold, List.foldl_nil]; omega

theorem atoi_digits (d : Bytes) (h : IsDigits d) :
    atoi d = if digitsNat d > maxInt64 then (maxInt64 : Int) else (digitsNat d : Int) := by
  obtain ⟨hne, hd⟩ := h
  cases d with
  | nil => exact absurd rfl hne
  | cons c r =>
    have hc := hd c (List.mem_cons_self ..)
    simp only [isDigit, Bool.and_eq_true, decide_eq_true_eq] at hc
    have h43 : c ≠ 43 := by omega
    have h45 : c ≠ 45 := by omega
    have hs : signSplit (c :: r) = (false, c :: r) := by
      unfold signSplit
      split
      · rename_i heq; simp at heq; exact absurd heq.1 h43
      · rename_i heq; simp at heq; exact absurd heq.1 h45
      · rfl
    have hfold : digitsFold (c :: r) 0 = digitsNat (c :: r) := rfl
    simp only [atoi, hs, List.isEmpty_cons, Bool.false_eq_true, if_false]
    rcases parseUint_digits (c :: r) 0 hd with ⟨a, b⟩ | ⟨a, b⟩ | ⟨a, _⟩
    · rw [a, hfold]
    · rw [a]
      rw [hfold] at b
      have : digitsNat (c :: r) > maxInt64 := by simp only [maxUint64, maxInt64] at b ⊢; omega
      simp [this]
    · cases a

theorem digit_ne (c : Nat) (h : isDigit c = true) : c ≠ 45 ∧ c ≠ 46 := by
  simp only [isDigit, Bool.and_eq_true, decide_eq_true_eq] at h; omega

/-! ### option strings -/

/-- `strings.Join(xs, ",")` -/
def joinComma : List Bytes → Bytes
  | [] => []
  | [x] => x
  | x :: y :: r => x ++ 44 :: joinComma (y :: r)

theorem splitOn_joinComma (xs : List Bytes) (hne : xs ≠ []) (h : ∀ x, x ∈ xs → ∀ c, c ∈ x → c ≠ 44) :
    splitOn 44 (joinComma xs) = xs := by
  induction xs with
  | nil => exact absurd rfl hne
  | cons x r ih =>
    cases r with
    | nil => simpa [joinComma] using splitOn_none 44 x (h x (List.mem_cons_self ..))
    | cons y r =>
      simp only [joinComma]
      rw [splitOn_nosep 44 x _ (h x (List.mem_cons_self ..)), ih (by simp) (fun z hz => h z (List.mem_cons_of_mem _ hz))]

/-! ### plugins per Generate call -/

theorem pluginLoop_own {δ : Type} : ∀ (suf pre : List δ),
    pluginLoop suf (pre ++ suf) pre.length = suf.map fun d => (d, some d) := by
  intro suf
  induction suf with
  | nil => intro pre; rfl
  | cons p ps ih =>
    intro pre
    have h := ih (pre ++ [p])
    simp only [List.append_assoc, List.singleton_append, List.length_append, List.length_singleton] at h
    simp [pluginLoop, h]

theorem generateCalls_own {δ : Type} (descs : List δ) : ∀ (n : Nat) (st : List δ) (call : List (δ × Option δ)),
    call ∈ generateCalls true descs n st → call = descs.map fun d => (d, some d) := by
  intro n
  induction n with
  | zero => intro st call h; simp [generateCalls] at h
  | succ n ih =>
    intro st call h
    simp only [generateCalls, preparePlugins, if_true, List.nil_append, List.mem_cons] at h
    rcases h with h | h
    · rw [h]; exact pluginLoop_own descs []
    · exact ih _ call h

theorem paramsSeen_foldl (descs : List (List Opt)) : ∀ (acc : List (List Bytes)) (cur : List Bytes),
    (descs.foldl (fun (a : List (List Bytes) × List Bytes) opts => (a.1 ++ [pack opts], pack opts)) (acc, cur)).1 =
      acc ++ descs.map pack := by
  induction descs with
  | nil => intro acc cur; simp
  | cons d r ih => intro acc cur; simp [List.foldl_cons, ih]

theorem paramsSeen_own (descs : List (List Opt)) (cur : List Bytes) : (paramsSeen descs cur).1 = descs.map pack := by
  simpa [paramsSeen] using paramsSeen_foldl descs [] cur

theorem paramsSeenCalls_own (descs : List (List Opt)) : ∀ (n : Nat) (cur : List Bytes) (call : List (List Bytes)),
    call ∈ paramsSeenCalls descs n cur → call = descs.map pack := by
  intro n
  induction n with
  | zero => intro cur call h; simp [paramsSeenCalls] at h
  | succ n ih =>
    intro cur call h
    simp only [paramsSeenCalls, List.mem_cons] at h
    rcases h with h | h
    · rw [h]; exact paramsSeen_own descs cur
    · exact ih _ call h

end Plugin
