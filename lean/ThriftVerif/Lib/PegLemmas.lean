import ThriftVerif.Lib.Peg
/-
  Lemmas about the PEG matcher `Peg.run`: consumption invariant, totality under `wf`.
-/
namespace Peg

theorem size_pos (e : Expr) : 0 < size e := by
  cases e <;> simp [size] <;> omega

/-- The nullable table is sound for the rules: a rule marked non-nullable has a non-nullable body. -/
def NulSound (g : Grammar) (nul : List Bool) : Prop :=
  ∀ i body, g.rules[i]? = some body → nul.getD i true = false → nullable nul body = false

/-- What a successful match does to the position and the remaining input. -/
theorem run_ok {g : Grammar} {nul : List Bool} (hn : NulSound g nul) :
    ∀ (fuel : Nat) (e : Expr) (pos : Nat) (s : List Nat) (p' : Nat) (s' : List Nat) (t : T),
      run g fuel e pos s = .ok p' s' t →
      s'.length ≤ s.length ∧ p' + s'.length = pos + s.length ∧ (nullable nul e = false → s'.length < s.length) := by
  intro fuel
  induction fuel with
  | zero => intro e pos s p' s' t h; simp [run] at h
  | succ fuel ih =>
    intro e pos s p' s' t h
    cases e with
    | eps =>
      simp only [run, Res.ok.injEq] at h
      obtain ⟨rfl, rfl, _⟩ := h
      simp [nullable]
    | rng lo hi =>
      cases s with
      | nil => simp [run] at h
      | cons c r =>
        simp only [run] at h
        split at h
        · simp only [Res.ok.injEq] at h
          obtain ⟨rfl, rfl, _⟩ := h
          simp; omega
        · simp at h
    | any =>
      cases s with
      | nil => simp [run] at h
      | cons c r =>
        simp only [run, Res.ok.injEq] at h
        obtain ⟨rfl, rfl, _⟩ := h
        simp; omega
    | call r =>
      simp only [run] at h
      split at h
      · simp at h
      · rename_i body hb
        split at h
        · rename_i p1 s1 t1 h1
          simp only [Res.ok.injEq] at h
          obtain ⟨rfl, rfl, _⟩ := h
          have := ih body pos s _ _ _ h1
          refine ⟨this.1, this.2.1, ?_⟩
          intro hnul
          simp only [nullable] at hnul
          exact this.2.2 (hn r body hb hnul)
        · rename_i x hx
          cases x <;> simp_all
    | seq a b =>
      simp only [run] at h
      split at h
      · rename_i p1 s1 t1 h1
        split at h
        · rename_i p2 s2 t2 h2
          simp only [Res.ok.injEq] at h
          obtain ⟨rfl, rfl, _⟩ := h
          have ha := ih a pos s _ _ _ h1
          have hb := ih b p1 s1 _ _ _ h2
          refine ⟨by omega, by omega, ?_⟩
          intro hnul
          simp only [nullable, Bool.and_eq_false_iff] at hnul
          cases hnul with
          | inl h' => have := ha.2.2 h'; omega
          | inr h' => have := hb.2.2 h'; omega
        · rename_i x hx
          cases x <;> simp_all
      · rename_i x hx
        cases x <;> simp_all
    | alt a b =>
      simp only [run] at h
      split at h
      · have hb := ih b pos s _ _ _ h
        refine ⟨hb.1, hb.2.1, ?_⟩
        intro hnul
        simp only [nullable, Bool.or_eq_false_iff] at hnul
        exact hb.2.2 hnul.2
      · rename_i x hx
        have ha := ih a pos s _ _ _ h
        refine ⟨ha.1, ha.2.1, ?_⟩
        intro hnul
        simp only [nullable, Bool.or_eq_false_iff] at hnul
        exact ha.2.2 hnul.1
    | star e =>
      simp only [run] at h
      split at h
      · rename_i p1 s1 t1 h1
        split at h
        · rename_i p2 s2 t2 h2
          simp only [Res.ok.injEq] at h
          obtain ⟨rfl, rfl, _⟩ := h
          have ha := ih e pos s _ _ _ h1
          have hb := ih (.star e) p1 s1 _ _ _ h2
          refine ⟨by omega, by omega, ?_⟩
          intro hnul; simp [nullable] at hnul
        · rename_i x hx
          cases x <;> simp_all
      · simp only [Res.ok.injEq] at h
        obtain ⟨rfl, rfl, _⟩ := h
        simp [nullable]
      · simp at h
    | plus e =>
      simp only [run] at h
      split at h
      · rename_i p1 s1 t1 h1
        split at h
        · rename_i p2 s2 t2 h2
          simp only [Res.ok.injEq] at h
          obtain ⟨rfl, rfl, _⟩ := h
          have ha := ih e pos s _ _ _ h1
          have hb := ih (.star e) p1 s1 _ _ _ h2
          refine ⟨by omega, by omega, ?_⟩
          intro hnul
          simp only [nullable] at hnul
          have := ha.2.2 hnul; omega
        · rename_i x hx
          cases x <;> simp_all
      · rename_i x hx
        cases x <;> simp_all
    | opt e =>
      simp only [run] at h
      split at h
      · simp only [Res.ok.injEq] at h
        obtain ⟨rfl, rfl, _⟩ := h
        simp [nullable]
      · have ha := ih e pos s _ _ _ h
        refine ⟨ha.1, ha.2.1, ?_⟩
        intro hnul; simp [nullable] at hnul
    | notP e =>
      simp only [run] at h
      split at h
      · simp at h
      · simp only [Res.ok.injEq] at h
        obtain ⟨rfl, rfl, _⟩ := h
        simp [nullable]
      · simp at h
    | andP e =>
      simp only [run] at h
      split at h
      · simp only [Res.ok.injEq] at h
        obtain ⟨rfl, rfl, _⟩ := h
        simp [nullable]
      · rename_i x hx
        cases x <;> simp_all
    | cap e =>
      simp only [run] at h
      split at h
      · rename_i p1 s1 t1 h1
        simp only [Res.ok.injEq] at h
        obtain ⟨rfl, rfl, _⟩ := h
        have := ih e pos s _ _ _ h1
        refine ⟨this.1, this.2.1, ?_⟩
        intro hnul
        simp only [nullable] at hnul
        exact this.2.2 hnul
      · rename_i x hx
        cases x <;> simp_all

/-! ### well-formedness, unpacked -/

structure WF (g : Grammar) (nul : List Bool) (rank : List Nat) : Prop where
  nulLen : nul.length = g.rules.size
  rankLen : rank.length = g.rules.size
  rule : ∀ i, i < g.rules.size → ruleOK g nul rank i = true

theorem wf_unpack {g : Grammar} {nul : List Bool} {rank : List Nat} (h : wf g nul rank = true) : WF g nul rank := by
  simp only [wf, Bool.and_eq_true, beq_iff_eq, List.all_eq_true, List.mem_range] at h
  exact ⟨h.1.1, h.1.2, h.2⟩

structure RuleFacts (g : Grammar) (nul : List Bool) (rank : List Nat) (i : Nat) (body : Expr) : Prop where
  lt : i < g.rules.size
  exprOK : exprOK g.rules.size nul body = true
  headOK : headOK nul rank (rank.getD i 0) body = true
  rankLt : rank.getD i 0 < g.rules.size
  nulClosed : nullable nul body = true → nul.getD i false = true

theorem WF.facts {g : Grammar} {nul : List Bool} {rank : List Nat} (h : WF g nul rank) {i : Nat} {body : Expr}
    (hb : g.rules[i]? = some body) : RuleFacts g nul rank i body := by
  have hlt : i < g.rules.size := by
    rcases Nat.lt_or_ge i g.rules.size with h1 | h1
    · exact h1
    · have := Array.getElem?_eq_none h1
      rw [this] at hb; cases hb
  have hr := h.rule i hlt
  simp only [ruleOK, hb, Bool.and_eq_true, Bool.or_eq_true, Bool.not_eq_true', decide_eq_true_eq] at hr
  obtain ⟨⟨⟨h1, h2⟩, h3⟩, h4⟩ := hr
  have hrl : i < rank.length := by rw [h.rankLen]; exact hlt
  have e1 : rank.getD i g.rules.size = rank.getD i 0 := by
    simp [List.getD_eq_getElem?_getD, List.getElem?_eq_getElem hrl]
  refine ⟨hlt, h1, h2, by rw [← e1]; exact h3, ?_⟩
  intro hn
  cases h4 with
  | inl h4 => rw [hn] at h4; cases h4
  | inr h4 => exact h4

theorem WF.nulSound {g : Grammar} {nul : List Bool} {rank : List Nat} (h : WF g nul rank) : NulSound g nul := by
  intro i body hb hf
  have f := h.facts hb
  have hnl : i < nul.length := by rw [h.nulLen]; exact f.lt
  cases hnb : nullable nul body with
  | false => rfl
  | true =>
    have := f.nulClosed hnb
    simp [List.getD_eq_getElem?_getD, List.getElem?_eq_getElem hnl] at this hf
    rw [this] at hf; cases hf

theorem size_le_maxSize {g : Grammar} {i : Nat} {body : Expr} (hb : g.rules[i]? = some body) : size body ≤ maxSize g := by
  have hmem : body ∈ g.rules.toList := by
    have := Array.mem_of_getElem? hb
    exact Array.mem_toList_iff.mpr this
  unfold maxSize
  generalize g.rules.toList = l at hmem
  induction l with
  | nil => cases hmem
  | cons x xs ih =>
    simp only [List.map_cons, List.foldr_cons]
    cases hmem with
    | head => omega
    | tail _ h' => have := ih h'; omega

/-- at the top level every call is allowed -/
theorem headOK_top {nul : List Bool} {rank : List Nat} {K : Nat} (hr : ∀ r, r < K → rank.getD r K < K) :
    ∀ e, exprOK K nul e = true → headOK nul rank K e = true := by
  intro e
  induction e with
  | eps => intro _; rfl
  | rng _ _ => intro _; rfl
  | any => intro _; rfl
  | call r => intro h; simp only [exprOK, decide_eq_true_eq] at h; simp only [headOK, decide_eq_true_eq]; exact hr r h
  | seq a b iha ihb =>
    intro h; simp only [exprOK, Bool.and_eq_true] at h
    simp only [headOK, Bool.and_eq_true, Bool.or_eq_true]
    exact ⟨iha h.1, Or.inr (ihb h.2)⟩
  | alt a b iha ihb =>
    intro h; simp only [exprOK, Bool.and_eq_true] at h
    simp only [headOK, Bool.and_eq_true]
    exact ⟨iha h.1, ihb h.2⟩
  | star e ih => intro h; simp only [exprOK, Bool.and_eq_true] at h; simp only [headOK]; exact ih h.1
  | plus e ih => intro h; simp only [exprOK, Bool.and_eq_true] at h; simp only [headOK]; exact ih h.1
  | opt e ih => intro h; simp only [exprOK] at h; simp only [headOK]; exact ih h
  | notP e ih => intro h; simp only [exprOK] at h; simp only [headOK]; exact ih h
  | andP e ih => intro h; simp only [exprOK] at h; simp only [headOK]; exact ih h
  | cap e ih => intro h; simp only [exprOK] at h; simp only [headOK]; exact ih h

/-! ### totality: fuel exhaustion is unreachable -/

section Total
variable {g : Grammar} {nul : List Bool} {rank : List Nat}

/-- `S`: strictly above every rule body's size (and ≥ 2) -/
def bigS (g : Grammar) : Nat := maxSize g + 2
/-- `W`: the fuel one consumed rune pays for -/
def bigW (g : Grammar) : Nat := (g.rules.size + 2) * bigS g

theorem rank_top (h : WF g nul rank) : ∀ r, r < g.rules.size → rank.getD r g.rules.size < g.rules.size := by
  intro r hr
  have : g.rules[r]? = some g.rules[r] := Array.getElem?_eq_getElem hr
  have f := h.facts this
  have hrl : r < rank.length := by rw [h.rankLen]; exact hr
  have e1 : rank.getD r g.rules.size = rank.getD r 0 := by
    simp [List.getD_eq_getElem?_getD, List.getElem?_eq_getElem hrl]
  rw [e1]; exact f.rankLt

/-- The measure `|s|·W + k·S + size e` bounds the recursion depth of `run` on `e` at level `k`. -/
theorem run_no_oof (h : WF g nul rank) :
    ∀ (fuel : Nat) (e : Expr) (pos : Nat) (s : List Nat) (k : Nat),
      exprOK g.rules.size nul e = true → headOK nul rank k e = true → size e ≤ bigS g → k ≤ g.rules.size →
      s.length * bigW g + k * bigS g + size e ≤ fuel → run g fuel e pos s ≠ .oof := by
  intro fuel
  induction fuel with
  | zero =>
    intro e pos s k _ _ _ _ hf
    have := size_pos e
    omega
  | succ fuel ih =>
    intro e pos s k hok hhd hsz hk hf
    have hns := h.nulSound
    have hW : bigW g = g.rules.size * bigS g + 2 * bigS g := by unfold bigW; rw [Nat.add_mul]
    -- continuing after input was consumed: any level fits
    have shrink : ∀ (e' : Expr) (p1 : Nat) (s1 : List Nat), exprOK g.rules.size nul e' = true → size e' ≤ bigS g →
        s1.length < s.length → run g fuel e' p1 s1 ≠ .oof := by
      intro e' p1 s1 hok' hsz' hlt
      apply ih e' p1 s1 g.rules.size hok' (headOK_top (rank_top h) e' hok') hsz' (Nat.le_refl _)
      have h1 : (s1.length + 1) * bigW g ≤ s.length * bigW g := Nat.mul_le_mul_right _ hlt
      rw [Nat.add_mul, Nat.one_mul] at h1
      have := size_pos e
      omega
    -- continuing at the same level on an input that is not longer
    have same : ∀ (e' : Expr) (p1 : Nat) (s1 : List Nat), exprOK g.rules.size nul e' = true → headOK nul rank k e' = true →
        size e' < size e → s1.length ≤ s.length → run g fuel e' p1 s1 ≠ .oof := by
      intro e' p1 s1 hok' hhd' hsz' hle
      apply ih e' p1 s1 k hok' hhd' (by omega) hk
      have h1 : s1.length * bigW g ≤ s.length * bigW g := Nat.mul_le_mul_right _ hle
      omega
    cases e with
    | eps => simp [run]
    | rng lo hi =>
      cases s with
      | nil => simp [run]
      | cons c r => simp only [run]; split <;> simp
    | any =>
      cases s with
      | nil => simp [run]
      | cons c r => simp [run]
    | call r =>
      simp only [run]
      split
      · simp
      · rename_i body hb
        have f := h.facts hb
        have hrk : rank.getD r 0 < k := by
          simp only [headOK, decide_eq_true_eq] at hhd
          have hrl : r < rank.length := by rw [h.rankLen]; exact f.lt
          have e1 : rank.getD r k = rank.getD r 0 := by
            simp [List.getD_eq_getElem?_getD, List.getElem?_eq_getElem hrl]
          rw [e1] at hhd; exact hhd
        have hbs : size body ≤ bigS g := by have := size_le_maxSize hb; unfold bigS; omega
        have hne : run g fuel body pos s ≠ .oof := by
          apply ih body pos s (rank.getD r 0) f.exprOK f.headOK hbs (Nat.le_of_lt f.rankLt)
          have h1 : (rank.getD r 0 + 1) * bigS g ≤ k * bigS g := Nat.mul_le_mul_right _ hrk
          rw [Nat.add_mul, Nat.one_mul] at h1
          simp only [size] at hf
          omega
        split
        · simp
        · rename_i x hx
          cases x <;> simp_all
    | seq a b =>
      simp only [exprOK, Bool.and_eq_true] at hok
      simp only [headOK, Bool.and_eq_true, Bool.or_eq_true, Bool.not_eq_true'] at hhd
      simp only [size] at hsz hf
      have ha := same a pos s hok.1 hhd.1 (by simp only [size]; omega) (Nat.le_refl _)
      simp only [run]
      split
      · rename_i p1 s1 t1 h1
        have inv := run_ok hns fuel a pos s _ _ _ h1
        have hb : run g fuel b p1 s1 ≠ .oof := by
          cases hhd.2 with
          | inl hna => exact shrink b p1 s1 hok.2 (by omega) (inv.2.2 hna)
          | inr hhb => exact same b p1 s1 hok.2 hhb (by simp only [size]; omega) inv.1
        split
        · simp
        · rename_i x hx
          cases x <;> simp_all
      · rename_i x hx
        cases x <;> simp_all
    | alt a b =>
      simp only [exprOK, Bool.and_eq_true] at hok
      simp only [headOK, Bool.and_eq_true] at hhd
      have ha := same a pos s hok.1 hhd.1 (by simp only [size]; omega) (Nat.le_refl _)
      have hb := same b pos s hok.2 hhd.2 (by simp only [size]; omega) (Nat.le_refl _)
      simp only [run]
      split
      · exact hb
      · rename_i x hx
        cases x <;> simp_all
    | star e =>
      simp only [exprOK, Bool.and_eq_true, Bool.not_eq_true'] at hok
      simp only [headOK] at hhd
      have ha := same e pos s hok.1 hhd (by simp only [size]; omega) (Nat.le_refl _)
      simp only [run]
      split
      · rename_i p1 s1 t1 h1
        have inv := run_ok hns fuel e pos s _ _ _ h1
        have hb : run g fuel (.star e) p1 s1 ≠ .oof :=
          shrink (.star e) p1 s1 (by simp only [exprOK, Bool.and_eq_true, Bool.not_eq_true']; exact hok) hsz (inv.2.2 hok.2)
        split
        · simp
        · rename_i x hx
          cases x <;> simp_all
      · simp
      · rename_i hx; exact absurd hx ha
    | plus e =>
      simp only [exprOK, Bool.and_eq_true, Bool.not_eq_true'] at hok
      simp only [headOK] at hhd
      have ha := same e pos s hok.1 hhd (by simp only [size]; omega) (Nat.le_refl _)
      simp only [run]
      split
      · rename_i p1 s1 t1 h1
        have inv := run_ok hns fuel e pos s _ _ _ h1
        have hb : run g fuel (.star e) p1 s1 ≠ .oof :=
          shrink (.star e) p1 s1 (by simp only [exprOK, Bool.and_eq_true, Bool.not_eq_true']; exact hok)
            (by simp only [size] at hsz ⊢; omega) (inv.2.2 hok.2)
        split
        · simp
        · rename_i x hx
          cases x <;> simp_all
      · rename_i x hx
        cases x <;> simp_all
    | opt e =>
      simp only [exprOK] at hok
      simp only [headOK] at hhd
      have ha := same e pos s hok hhd (by simp only [size]; omega) (Nat.le_refl _)
      simp only [run]
      split
      · simp
      · rename_i x hx
        cases x <;> simp_all
    | notP e =>
      simp only [exprOK] at hok
      simp only [headOK] at hhd
      have ha := same e pos s hok hhd (by simp only [size]; omega) (Nat.le_refl _)
      simp only [run]
      split
      · simp
      · simp
      · rename_i hx; exact absurd hx ha
    | andP e =>
      simp only [exprOK] at hok
      simp only [headOK] at hhd
      have ha := same e pos s hok hhd (by simp only [size]; omega) (Nat.le_refl _)
      simp only [run]
      split
      · simp
      · rename_i x hx
        cases x <;> simp_all
    | cap e =>
      simp only [exprOK] at hok
      simp only [headOK] at hhd
      have ha := same e pos s hok hhd (by simp only [size]; omega) (Nat.le_refl _)
      simp only [run]
      split
      · simp
      · rename_i x hx
        cases x <;> simp_all

/-- `p.Parse()` never runs out of fuel on a well-formed grammar. -/
theorem parseRunes_no_oof (h : WF g nul rank) (rs : List Nat) : parseRunes g rs ≠ .oof := by
  unfold parseRunes
  rcases Nat.eq_zero_or_pos g.rules.size with h0 | hpos
  · -- no rule at all: `call 0` fails at once
    have : g.rules[0]? = none := Array.getElem?_eq_none (by omega)
    unfold fuelFor
    simp [run, this]
  · apply run_no_oof h _ (.call 0) 0 rs g.rules.size
    · simp only [exprOK, decide_eq_true_eq]; exact hpos
    · simp only [headOK, decide_eq_true_eq]; exact rank_top h 0 hpos
    · simp only [size]; unfold bigS; omega
    · exact Nat.le_refl _
    · unfold fuelFor
      have hW : bigW g = g.rules.size * bigS g + 2 * bigS g := by unfold bigW; rw [Nat.add_mul]
      have e1 : (rs.length + 1) * ((g.rules.size + 2) * (maxSize g + 2)) = rs.length * bigW g + bigW g := by
        unfold bigW bigS; rw [Nat.add_mul, Nat.one_mul]
      rw [e1]
      simp only [size]
      omega

end Total

end Peg
