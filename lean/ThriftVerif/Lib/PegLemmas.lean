import ThriftVerif.Lib.Peg
/-
  Lemmas about the PEG matcher `Peg.run`: consumption invariant, totality under `wf`.
-/
namespace Peg

theorem size_pos (e : Expr) : 0 < size e := by
  cases e <;> simp [size] <;> omega

/-- The nullable table is sound for the rules: a rule marked non-nullable has a non-nullable body. -/
def NulSound (g : Grammar) (nul : List Bool) : Prop :=
  ∀ i body, g.rules[i]? = some body → nul.getD i true = false → nullable nul body = false

/-- What a successful match does to the position and the remaining input. -/
theorem run_ok {g : Grammar} {nul : List Bool} (hn : NulSound g nul) :
    ∀ (fuel : Nat) (e : Expr) (pos : Nat) (s : List Nat) (p' : Nat) (s' : List Nat) (t : T),
      run g fuel e pos s = .ok p' s' t →
      s'.length ≤ s.length ∧ p' + s'.length = pos + s.length ∧ (nullable nul e = false → s'.length < s.length) := by
  intro fuel
  induction fuel with
  | zero => intro e pos s p' s' t h; simp [run] at h
  | succ fuel ih =>
    intro e pos s p' s' t h
    cases e with
    | eps =>
      simp only [run, Res.ok.injEq] at h
      obtain ⟨rfl, rfl, _⟩ := h
      simp [nullable]
    | rng lo hi =>
      cases s with
      | nil => simp [run] at h
      | cons c r =>
        simp only [run] at h
        split at h
        · simp only [Res.ok.injEq] at h
          obtain ⟨rfl, rfl, _⟩ := h
          simp; omega
        · simp at h
    | any =>
      cases s with
      | nil => simp [run] at h
      | cons c r =>
        simp only [run, Res.ok.injEq] at h
        obtain ⟨rfl, rfl, _⟩ := h
        simp; omega
    | call r =>
      simp only [run] at h
      split at h
      · simp at h
      · rename_i body hb
        split at h
        · rename_i p1 s1 t1 h1
          simp only [Res.ok.injEq] at h
          obtain ⟨rfl, rfl, _⟩ := h
          have := ih body pos s _ _ _ h1
          refine ⟨this.1, this.2.1, ?_⟩
          intro hnul
          simp only [nullable] at hnul
          exact this.2.2 (hn r body hb hnul)
        · rename_i x hx
          cases x <;> simp_all
    | seq a b =>
      simp only [run] at h
      split at h
      · rename_i p1 s1 t1 h1
        split at h
        · rename_i p2 s2 t2 h2
          simp only [Res.ok.injEq] at h
          obtain ⟨rfl, rfl, _⟩ := h
          have ha := ih a pos s _ _ _ h1
          have hb := ih b p1 s1 _ _ _ h2
          refine ⟨by omega, by omega, ?_⟩
          intro hnul
          simp only [nullable, Bool.and_eq_false_iff] at hnul
          cases hnul with
          | inl h' => have := ha.2.2 h'; omega
          | inr h' => have := hb.2.2 h'; omega
        · rename_i x hx
          cases x <;> simp_all
      · rename_i x hx
        cases x <;> simp_all
    | alt a b =>
      simp only [run] at h
      split at h
      · have hb := ih b pos s _ _ _ h
        refine ⟨hb.1, hb.2.1, ?_⟩
        intro hnul
        simp only [nullable, Bool.or_eq_false_iff] at hnul
        exact hb.2.2 hnul.2
      · rename_i x hx
        have ha := ih a pos s _ _ _ h
        refine ⟨ha.1, ha.2.1, ?_⟩
        intro hnul
        simp only [nullable, Bool.or_eq_false_iff] at hnul
        exact ha.2.2 hnul.1
    | star e =>
      simp only [run] at h
      split at h
      · rename_i p1 s1 t1 h1
        split at h
        · rename_i p2 s2 t2 h2
          simp only [Res.ok.injEq] at h
          obtain ⟨rfl, rfl, _⟩ := h
          have ha := ih e pos s _ _ _ h1
          have hb := ih (.star e) p1 s1 _ _ _ h2
          refine ⟨by omega, by omega, ?_⟩
          intro hnul; simp [nullable] at hnul
        · rename_i x hx
          cases x <;> simp_all
      · simp only [Res.ok.injEq] at h
        obtain ⟨rfl, rfl, _⟩ := h
        simp [nullable]
      · simp at h
    | plus e =>
      simp only [run] at h
      split at h
      · rename_i p1 s1 t1 h1
        split at h
        · rename_i p2 s2 t2 h2
          simp only [Res.ok.injEq] at h
          obtain ⟨rfl, rfl, _⟩ := h
          have ha := ih e pos s _ _ _ h1
          have hb := ih (.star e) p1 s1 _ _ _ h2
          refine ⟨by omega, by omega, ?_⟩
          intro hnul
          simp only [nullable] at hnul
          have := ha.2.2 hnul; omega
        · rename_i x hx
          cases x <;> simp_all
      · rename_i x hx
        cases x <;> simp_all
    | opt e =>
      simp only [run] at h
      split at h
      · simp only [Res.ok.injEq] at h
        obtain ⟨rfl, rfl, _⟩ := h
        simp [nullable]
      · have ha := ih e pos s _ _ _ h
        refine ⟨ha.1, ha.2.1, ?_⟩
        intro hnul; simp [nullable] at hnul
    | notP e =>
      simp only [run] at h
      split at h
      · simp at h
      · simp only [Res.ok.injEq] at h
        obtain ⟨rfl, rfl, _⟩ := h
        simp [nullable]
      · simp at h
    | andP e =>
      simp only [run] at h
      split at h
      · simp only [Res.ok.injEq] at h
        obtain ⟨rfl, rfl, _⟩ := h
        simp [nullable]
      · rename_i x hx
        cases x <;> simp_all
    | cap e =>
      simp only [run] at h
      split at h
      · rename_i p1 s1 t1 h1
        simp only [Res.ok.injEq] at h
        obtain ⟨rfl, rfl, _⟩ := h
        have := ih e pos s _ _ _ h1
        refine ⟨this.1, this.2.1, ?_⟩
        intro hnul
        simp only [nullable] at hnul
        exact this.2.2 hnul
      · rename_i x hx
        cases x <;> simp_all

end Peg
