/-
  C17 — model of the IDL dump writer (tool/trimmer/dump/dump.go, `DumpIDL`) and of the reader-side
  token classes needed to state the round trip (parser/thrift.peg `Literal`, `IntConstant`,
  `DoubleConstant`, `Identifier`, `Annotations`, `ConstValue`; parser/parser.go `pegText`,
  `parseConstValue`, `parseAnnotations`; parser/AST-extend.go `Annotations.Append`).

  Go strings are `Bytes`.  The parser works on `[]rune`; for valid UTF-8 every byte ≥ 0x80 differs
  from all characters the rules below test, so the byte-wise model agrees (assumption, exercised by
  the correspondence with non-ASCII literals).

  Core Lean only.
-/
import ThriftVerif.Core.VL

namespace Dump

/-! ## Go string primitives -/

def isPrefix : Bytes → Bytes → Bool
  | [], _ => true
  | _ :: _, [] => false
  | a :: p, b :: s => decide (a = b) && isPrefix p s

/-- `strings.Contains(s, p)` -/
def contains (p : Bytes) : Bytes → Bool
  | [] => isPrefix p []
  | c :: s => isPrefix p (c :: s) || contains p s

/-- scanner of `strings.Replace(s, old, new, -1)` for a non-empty `old`: leftmost, non-overlapping.
    `skip` = number of bytes of the current match still to be consumed. -/
def replGo (old new : Bytes) : Nat → Bytes → Bytes
  | _, [] => []
  | skip + 1, _ :: s => replGo old new skip s
  | 0, c :: s =>
    if isPrefix old (c :: s) then new ++ replGo old new (old.length - 1) s
    else c :: replGo old new 0 s

/-- `strings.Replace(s, old, new, -1)` / `strings.ReplaceAll`; every call site in dump.go has a constant
    non-empty `old` (for an empty `old` Go interleaves `new`, never reached; the model returns `s`). -/
def replaceAll (old new s : Bytes) : Bytes :=
  match old with
  | [] => s
  | _ :: _ => replGo old new 0 s

/-- the constants of `quoteLiteral` in dump.go, regenerated from the source (`Generated.C17.cfg`). -/
structure Cfg where
  dq : Bytes      -- `"`   delimiter and the byte escaped between double quotes
  dqEsc : Bytes   -- `\"`
  sq : Bytes      -- `'`
  sqEsc : Bytes   -- `\'`
  deriving Repr, DecidableEq

def stdCfg : Cfg := { dq := [34], dqEsc := [92, 34], sq := [39], sqEsc := [92, 39] }

/-- `stringBuilder.writeString`: the text appended to the buffer — the string itself (no escaping). -/
def ws (_cfg : Cfg) (str : Bytes) : Bytes := str

/-- `oddBackslashesBefore(v, q)`: `odd` = the run of backslashes just read has odd length. -/
def oddGo (q : Nat) : Bool → Bytes → Bool
  | _, [] => false
  | odd, c :: s =>
    if c = 92 then oddGo q (!odd) s
    else if c = q then (if odd then true else oddGo q odd s)
    else oddGo q false s

/-- `quoteLiteral`: between double quotes with `"` → `\"`, unless a `"` of the value is preceded by an odd
    number of backslashes; then between single quotes with `'` → `\'`. -/
def quoteVal (cfg : Cfg) (v : Bytes) : Bytes :=
  if oddGo 34 false v then cfg.sq ++ replaceAll cfg.sq cfg.sqEsc v ++ cfg.sq
  else cfg.dq ++ replaceAll cfg.dq cfg.dqEsc v ++ cfg.dq

/-! ## numbers -/

/-- decimal digits of a natural number, most significant first (`%d` of a non-negative value). -/
def decDigits (n : Nat) : Bytes :=
  if h : n < 10 then [48 + n] else decDigits (n / 10) ++ [48 + n % 10]
termination_by n
decreasing_by omega

/-- `fmt.Sprintf("%d", i)` -/
def fmtInt (i : Int) : Bytes :=
  match i with
  | .ofNat n => decDigits n
  | .negSucc n => 45 :: decDigits (n + 1)

/-! ## AST fragments -/

def asc (s : String) : Bytes := s.toList.map Char.toNat

structure Ann where
  key : Bytes
  vals : List Bytes
  deriving Repr, DecidableEq, Inhabited

/-- `printAnnotation` -/
def annPairs (cfg : Cfg) (key : Bytes) (lastAnn : Bool) : List Bytes → Bytes
  | [] => []
  | v :: vs =>
    ws cfg (key ++ [32, 61, 32] ++ quoteVal cfg v)
      ++ (if !lastAnn || !vs.isEmpty then ws cfg [44, 32] else [])
      ++ annPairs cfg key lastAnn vs

def annLoop (cfg : Cfg) : List Ann → Bytes
  | [] => []
  | a :: rest => annPairs cfg a.key rest.isEmpty a.vals ++ annLoop cfg rest

def printAnnotation (cfg : Cfg) (a : List Ann) : Bytes :=
  if a.isEmpty then [] else ws cfg [40] ++ annLoop cfg a ++ ws cfg [41]

/-- `parser.Type` as far as `typeName` reads it (`cpp` = CppType, "" when absent). -/
inductive Ty where
  | mk (name : Bytes) (key : Option Ty) (val : Option Ty) (cpp : Bytes) (anns : List Ann)
  deriving Repr, Inhabited

/-- `typeName`: `cpp_type "…"` after the keyword of map/set and after the `>` of list; annotations through a
    nested stringBuilder. -/
def typeName : Cfg → Ty → Bytes
  | cfg, .mk name key val cpp anns =>
    let cppT : Bytes := if cpp.isEmpty then [] else [32, 99, 112, 112, 95, 116, 121, 112, 101, 32] ++ quoteVal cfg cpp
    let base :=
      match key, val with
      | some k, some v => name ++ cppT ++ [60] ++ typeName cfg k ++ [44] ++ typeName cfg v ++ [62]
      | none, some v =>
        if name = [108, 105, 115, 116] then name ++ [60] ++ typeName cfg v ++ [62] ++ cppT
        else name ++ cppT ++ [60] ++ typeName cfg v ++ [62]
      | _, none => name
    base ++ printAnnotation cfg anns

/-- `parser.ConstTypedValue` with exactly one member set (what the parser produces); `dbl` carries the
    IEEE bits, rendered through the parameter `ff` = `strconv.FormatFloat(·, 'f', -1, 64)`. -/
inductive CV where
  | dbl (bits : Nat)
  | int (i : Int)
  | lit (v : Bytes)
  | ident (s : Bytes)
  | list (l : List CV)
  | map (m : List (CV × CV))
  | unset
  deriving Repr, Inhabited

def hasDot (t : Bytes) : Bool := t.any (· == 46)

/-- the text written for a double: FormatFloat's, with ".0" appended when it has no '.' -/
def dblText (t : Bytes) : Bytes := if hasDot t then t else t ++ [46, 48]

mutual
/-- `printConstTypedValue` -/
def printCV (cfg : Cfg) (ff : Nat → Bytes) : CV → Bytes
  | .dbl b => ws cfg (dblText (ff b))
  | .int i => ws cfg (fmtInt i)
  | .lit v => ws cfg (quoteVal cfg v)
  | .ident s => ws cfg s
  | .list l => ws cfg [91] ++ printCVList cfg ff l ++ ws cfg [93]
  | .map m => ws cfg [123] ++ printCVMap cfg ff m ++ ws cfg [10] ++ ws cfg [125]
  | .unset => []
def printCVList (cfg : Cfg) (ff : Nat → Bytes) : List CV → Bytes
  | [] => []
  | v :: rest => printCV cfg ff v ++ (if !rest.isEmpty then ws cfg [44, 32] else []) ++ printCVList cfg ff rest
def printCVMap (cfg : Cfg) (ff : Nat → Bytes) : List (CV × CV) → Bytes
  | [] => []
  | (k, v) :: rest =>
    ws cfg [10, 9] ++ printCV cfg ff k ++ ws cfg [58, 32] ++ printCV cfg ff v
      ++ (if !rest.isEmpty then ws cfg [44, 32] else []) ++ printCVMap cfg ff rest
end

/-- the final text of one literal / one annotation list / one constant value written alone. -/
def dumpLiteral (cfg : Cfg) (v : Bytes) : Bytes := ws cfg (quoteVal cfg v)
def dumpAnnotations (cfg : Cfg) (a : List Ann) : Bytes := printAnnotation cfg a
def dumpCV (cfg : Cfg) (ff : Nat → Bytes) (v : CV) : Bytes := printCV cfg ff v

/-! ## whole file (writer only; the reader of whole files is not modelled) -/

def isSpaceByte (c : Nat) : Bool := c = 32 || c = 9 || c = 10 || c = 11 || c = 12 || c = 13

/-- `printComment`; `strings.TrimSpace` emptiness modelled for ASCII white space (comments produced by
    the parser are empty or start with `/`). -/
def printComment (cfg : Cfg) (comment pre : Bytes) : Bytes :=
  if comment.all isSpaceByte then [] else ws cfg (pre ++ comment ++ [10])

structure Field where
  comment : Bytes
  id : Int
  req : Nat          -- 0 default, 1 required, 2 optional
  ty : Ty
  name : Bytes
  dflt : Option CV
  anns : List Ann
  deriving Inhabited

structure Namespace where
  lang : Bytes
  name : Bytes
  anns : List Ann

structure Typedef where
  comment : Bytes
  ty : Ty
  alias : Bytes
  anns : List Ann

structure Const where
  comment : Bytes
  ty : Ty
  name : Bytes
  value : CV
  anns : List Ann

structure EnumValue where
  comment : Bytes
  name : Bytes
  value : Int
  anns : List Ann

structure Enum where
  comment : Bytes
  name : Bytes
  values : List EnumValue
  anns : List Ann

structure StructLike where
  comment : Bytes
  name : Bytes
  fields : List Field
  anns : List Ann

structure Function where
  comment : Bytes
  oneway : Bool
  ftype : Ty
  name : Bytes
  args : List Field
  throws : List Field
  anns : List Ann

structure Service where
  comment : Bytes
  name : Bytes
  ext : Bytes
  functions : List Function
  anns : List Ann

structure File where
  includes : List Bytes
  namespaces : List Namespace
  cppIncludes : List Bytes
  typedefs : List Typedef
  constants : List Const
  enums : List Enum
  structs : List StructLike
  unions : List StructLike
  exceptions : List StructLike
  services : List Service

def reqWord (r : Nat) : Bytes :=
  if r = 2 then asc "optional " else if r = 1 then asc "required " else []

def sepIf (cfg : Cfg) (c : Bool) (s : Bytes) : Bytes := if c then ws cfg s else []
def blankIf (cfg : Cfg) {α} (l : List α) : Bytes := if l.isEmpty then [] else ws cfg [10]

def printEnumValues (cfg : Cfg) : List EnumValue → Bytes
  | [] => []
  | ev :: rest =>
    printComment cfg ev.comment (asc "    ")
      ++ ws cfg (asc "    " ++ ev.name ++ asc " = " ++ fmtInt ev.value ++ asc " ")
      ++ printAnnotation cfg ev.anns ++ ws cfg [10]
      ++ sepIf cfg (!rest.isEmpty) [10]
      ++ printEnumValues cfg rest

def printField (cfg : Cfg) (ff : Nat → Bytes) (f : Field) : Bytes :=
  printComment cfg f.comment (asc "    ")
    ++ ws cfg (asc "    " ++ fmtInt f.id ++ asc ": " ++ reqWord f.req ++ typeName cfg f.ty)
    ++ ws cfg (asc " " ++ f.name)
    ++ (match f.dflt with
        | some d => ws cfg (asc " = ") ++ printCV cfg ff d
        | none => [])
    ++ printAnnotation cfg f.anns ++ ws cfg [10]

/-- `printStruct` -/
def printStruct (cfg : Cfg) (ff : Nat → Bytes) (kind : Bytes) (s : StructLike) : Bytes :=
  printComment cfg s.comment []
    ++ ws cfg (kind ++ asc " " ++ s.name ++ asc " ") ++ ws cfg (asc "{\n")
    ++ (s.fields.map (printField cfg ff)).flatten
    ++ ws cfg (asc "} ") ++ printAnnotation cfg s.anns ++ ws cfg (asc "\n\n")

/-- the argument loop and the throws loop: id, requiredness, type, name, default, annotations, and `, `
    unless it is the last of its own list -/
def printArgs (cfg : Cfg) (ff : Nat → Bytes) (n : Nat) : Nat → List Field → Bytes
  | _, [] => []
  | i, ag :: rest =>
    ws cfg (fmtInt ag.id ++ asc ": " ++ reqWord ag.req ++ typeName cfg ag.ty ++ asc " " ++ ag.name)
      ++ (match ag.dflt with
          | some d => ws cfg (asc " = ") ++ printCV cfg ff d
          | none => [])
      ++ printAnnotation cfg ag.anns
      ++ sepIf cfg (decide (i + 1 ≠ n)) (asc ", ")
      ++ printArgs cfg ff n (i + 1) rest

def printFunction (cfg : Cfg) (ff : Nat → Bytes) (f : Function) : Bytes :=
  printComment cfg f.comment (asc "    ")
    ++ ws cfg (asc "    ")
    ++ sepIf cfg f.oneway (asc "oneway ")
    ++ ws cfg (typeName cfg f.ftype ++ asc " " ++ f.name)
    ++ ws cfg (asc "(")
    ++ printArgs cfg ff f.args.length 0 f.args
    ++ ws cfg (asc ")")
    ++ (if f.throws.isEmpty then [] else
          ws cfg (asc "throws ") ++ ws cfg (asc "(")
          ++ printArgs cfg ff f.throws.length 0 f.throws
          ++ ws cfg (asc ")"))
    ++ printAnnotation cfg f.anns ++ ws cfg [10]

def printService (cfg : Cfg) (ff : Nat → Bytes) (svc : Service) : Bytes :=
  printComment cfg svc.comment []
    ++ ws cfg (asc "service " ++ svc.name ++ asc " ")
    ++ (if svc.ext.isEmpty then [] else ws cfg (asc "extends " ++ svc.ext ++ asc " "))
    ++ ws cfg (asc "{\n")
    ++ (svc.functions.map (printFunction cfg ff)).flatten
    ++ ws cfg (asc "} ") ++ printAnnotation cfg svc.anns ++ ws cfg (asc "\n\n")

/-- the buffer `sb` of `DumpIDL` before the post-passes. -/
def dumpBuffer (cfg : Cfg) (ff : Nat → Bytes) (f : File) : Bytes :=
  (f.includes.map fun p => ws cfg (asc "include " ++ quoteVal cfg p ++ [10])).flatten
    ++ blankIf cfg f.includes
    ++ (f.namespaces.map fun ns =>
          ws cfg (asc "namespace " ++ ns.lang ++ asc " " ++ ns.name) ++ printAnnotation cfg ns.anns ++ ws cfg [10]).flatten
    ++ blankIf cfg f.namespaces
    ++ (f.cppIncludes.map fun p => ws cfg (asc "cpp_include " ++ quoteVal cfg p ++ [10])).flatten
    ++ blankIf cfg f.cppIncludes
    ++ (f.typedefs.map fun td =>
          printComment cfg td.comment [] ++ ws cfg (asc "typedef " ++ typeName cfg td.ty)
            ++ ws cfg (asc " " ++ td.alias ++ asc " ") ++ printAnnotation cfg td.anns ++ ws cfg [10]).flatten
    ++ blankIf cfg f.typedefs
    ++ (f.constants.map fun c =>
          printComment cfg c.comment []
            ++ ws cfg (asc "const " ++ typeName cfg c.ty ++ asc " " ++ c.name ++ asc " = ")
            ++ printCV cfg ff c.value ++ printAnnotation cfg c.anns ++ ws cfg [10]).flatten
    ++ blankIf cfg f.constants
    ++ (f.enums.map fun e =>
          printComment cfg e.comment [] ++ ws cfg (asc "enum " ++ e.name ++ asc " ") ++ ws cfg (asc "{\n")
            ++ printEnumValues cfg e.values
            ++ ws cfg (asc "} ") ++ printAnnotation cfg e.anns ++ ws cfg (asc "\n\n")).flatten
    ++ blankIf cfg f.enums
    ++ (f.structs.map (printStruct cfg ff (asc "struct"))).flatten
    ++ blankIf cfg f.structs
    ++ (f.unions.map (printStruct cfg ff (asc "union"))).flatten
    ++ blankIf cfg f.unions
    ++ (f.exceptions.map (printStruct cfg ff (asc "exception"))).flatten
    ++ blankIf cfg f.exceptions
    ++ (f.services.map (printService cfg ff)).flatten

/-- `DumpIDL` (new writer; `UseOldDumpFunction = false`): the buffer is returned as it is. -/
def dump (cfg : Cfg) (ff : Nat → Bytes) (f : File) : Bytes := dumpBuffer cfg ff f

/-! ## reader side -/

/-- body of the `Literal` rule after the opening quote `q`:
    `<(EscapeLiteralChar / !q .)*> q` with `EscapeLiteralChar <- '\\' ["']`.
    Returns the captured text and the rest after the closing quote; `none` = the alternative fails. -/
def lexBody (q : Nat) : Bytes → Option (Bytes × Bytes)
  | [] => none
  | [c] => if c = q then some ([], []) else none
  | c :: d :: s =>
    if c = 92 ∧ (d = 34 ∨ d = 39) then
      (lexBody q s).map fun (b, r) => (c :: d :: b, r)
    else if c = q then some ([], d :: s)
    else (lexBody q (d :: s)).map fun (b, r) => (c :: b, r)
termination_by l => l.length

/-- the loop of `pegText` over a non-empty captured text (from index `i` on, last character included). -/
def pegLoop (q : Nat) : Bytes → Bytes
  | [] => []
  | [r] => [r]                          -- `runes = append(runes, p.buffer[n.end-1])`
  | [r, n] =>
    if r = 92 then
      if n = 92 then [92, 92, n]        -- i ran past end-1: the final append adds buffer[end-1] again
      else if n = q then [n]
      else [r, n]
    else [r, n]
  | r :: n :: m :: rest =>
    if r = 92 then
      if n = 92 then                    -- case '\\': i++; append r   (then the append after the switch)
        92 :: 92 :: pegLoop q (m :: rest)
      else if n = q then pegLoop q (n :: m :: rest)  -- case quote: continue
      else r :: pegLoop q (n :: m :: rest)
    else r :: pegLoop q (n :: m :: rest)
termination_by l => l.length

/-- `pegText` on a `Literal` node: empty captures have no PegText node (tokens with begin = end are
    dropped by `tokens32.AST`), the search then finds nothing and returns "". -/
def pegText (q : Nat) (raw : Bytes) : Bytes := if raw.isEmpty then [] else pegLoop q raw

/-- the `Literal` rule at the start of `s` (after `Skip`), then `pegText`; `Indent*` after it is left in
    the rest. -/
def readLiteral (s : Bytes) : Option (Bytes × Bytes) :=
  match s with
  | [] => none
  | c :: t =>
    if c = 34 ∨ c = 39 then (lexBody c t).map fun (b, r) => (pegText c b, r) else none

/-- `Annotations.Append` -/
def annAppend : List Ann → Bytes → Bytes → List Ann
  | [], k, v => [⟨k, [v]⟩]
  | a :: rest, k, v => if a.key = k then ⟨a.key, a.vals ++ [v]⟩ :: rest else a :: annAppend rest k v

/-- the `k = v` pairs `printAnnotation` writes, in order -/
def annFlatten : List Ann → List (Bytes × Bytes)
  | [] => []
  | a :: rest => a.vals.map (fun v => (a.key, v)) ++ annFlatten rest

/-- `parseAnnotations`: `ret.Append(k, v)` for every pair in source order -/
def annRegroup (pairs : List (Bytes × Bytes)) : List Ann :=
  pairs.foldl (fun acc kv => annAppend acc kv.1 kv.2) []

def isDigit (c : Nat) : Bool := 48 ≤ c && c ≤ 57
def isLetter (c : Nat) : Bool := (65 ≤ c && c ≤ 90) || (97 ≤ c && c ≤ 122) || c = 95
def isAlnum (c : Nat) : Bool := isDigit c || (65 ≤ c && c ≤ 90) || (97 ≤ c && c ≤ 122)

def spanP (p : Nat → Bool) : Bytes → Bytes × Bytes
  | [] => ([], [])
  | c :: s => if p c then let (a, b) := spanP p s; (c :: a, b) else ([], c :: s)

def decVal (ds : Bytes) : Nat := ds.foldl (fun a d => a * 10 + (d - 48)) 0

def digitVal (base : Nat) (c : Nat) : Option Nat :=
  let v := if isDigit c then c - 48 else if 97 ≤ c ∧ c ≤ 122 then c - 87 else if 65 ≤ c ∧ c ≤ 90 then c - 55 else 99
  if v < base then some v else none

def baseVal (base : Nat) : Bytes → Option Nat
  | ds => ds.foldl (fun a d => match a, digitVal base d with
                               | some a, some v => some (a * base + v)
                               | _, _ => none) (some 0)

inductive Num where
  | int (i : Int)
  | dbl (bits : Nat)
  | err            -- lexed, but `strconv.ParseInt(text, 0, 64)` fails: parseConstValue returns an error
  | exp            -- exponent form (C03's territory), not modelled here
  | nolex          -- neither DoubleConstant nor IntConstant matches at this position
  deriving Repr, DecidableEq

/-- magnitude read by `strconv.ParseInt(·, 0, 64)`; pre: 0 = no prefix, 16 = "0x", 8 = "0o" -/
def magOf (pre : Nat) (ds : Bytes) : Option Nat :=
  if pre = 16 then baseVal 16 ds
  else if pre = 8 then baseVal 8 ds
  else match ds with
    | 48 :: d :: r => baseVal 8 (d :: r)      -- base 0: a leading "0" means octal
    | _ => some (decVal ds)

/-- `strconv.ParseInt(sign ++ digits-with-prefix, 0, 64)` for the shapes the IntConstant rule lets through. -/
def parseInt0 (neg : Bool) (pre : Nat) (ds : Bytes) : Num :=
  match magOf pre ds with
  | none => .err
  | some m =>
    if neg then (if m ≤ 9223372036854775808 then .int (-(m : Int)) else .err)
    else (if m < 9223372036854775808 then .int m else .err)

/-- optional sign of DoubleConstant / the third IntConstant alternative -/
def splitSign (s : Bytes) : Bytes × Bytes :=
  match s with
  | 43 :: r => ([43], r)
  | 45 :: r => ([45], r)
  | _ => ([], s)

/-- DoubleConstant `[+-]? (Digit* '.' Digit+ Exponent? / Digit+ Exponent)` after sign and `Digit*` -/
def dblAlt (pf : Bytes → Nat) (sign ip s2 : Bytes) : Option (Num × Bytes) :=
  match s2 with
  | 46 :: s3 =>
    let (fp, s4) := spanP isDigit s3
    if fp.isEmpty then none
    else match s4 with
      | 101 :: _ => some (.exp, s4)
      | 69 :: _ => some (.exp, s4)
      | _ => some (.dbl (pf (sign ++ ip ++ [46] ++ fp)), s4)
  | 101 :: _ => if ip.isEmpty then none else some (.exp, s2)
  | 69 :: _ => if ip.isEmpty then none else some (.exp, s2)
  | _ => none

/-- IntConstant `'0x' alnum+ / '0o' Digit+ / [+-]? Digit+` -/
def intAlt (s sign ip s2 : Bytes) : Num × Bytes :=
  match s with
  | 48 :: 120 :: r =>
    let (hs, r') := spanP isAlnum r
    if hs.isEmpty then (parseInt0 false 0 [48], 120 :: r) else (parseInt0 false 16 hs, r')
  | 48 :: 111 :: r =>
    let (os, r') := spanP isDigit r
    if os.isEmpty then (parseInt0 false 0 [48], 111 :: r) else (parseInt0 false 8 os, r')
  | _ =>
    if ip.isEmpty then (.nolex, s)
    else (parseInt0 (sign = [45]) 0 ip, s2)

/-- `ConstValue <- DoubleConstant / IntConstant / …` at the start of `s` (after `Skip`):
    DoubleConstant is tried first, then IntConstant.  `pf` = `strconv.ParseFloat(·, 64)` as bits.
    Returns the value and the rest.  Exponent forms are reported as `.exp` as soon as an `e`/`E` follows
    the digits (C03's territory; never produced by the dumper). -/
def readNumber (pf : Bytes → Nat) (s : Bytes) : Num × Bytes :=
  let ss := splitSign s
  let sp := spanP isDigit ss.2
  match dblAlt pf ss.1 sp.1 sp.2 with
  | some r => r
  | none => intAlt s ss.1 sp.1 sp.2


/-! ## reader side: constant values and annotation lists

  `Skip` is modelled for white space only: the dumper writes no comment inside a value or an annotation
  list, and the correspondence texts contain none there.  (On a `#` or `/` outside a literal the model
  fails where the real `Skip` would consume a comment.) -/

def isWs (c : Nat) : Bool := c = 32 || c = 9 || c = 11 || c = 13 || c = 10
def isIndent (c : Nat) : Bool := c = 32 || c = 9 || c = 11
def isIdChar (c : Nat) : Bool := isLetter c || isDigit c || c = 46

def dropP (p : Nat → Bool) : Bytes → Bytes
  | [] => []
  | c :: s => if p c then dropP p s else c :: s

def skipWs (s : Bytes) : Bytes := dropP isWs s
def skipIndent (s : Bytes) : Bytes := dropP isIndent s

/-- `ListSeparator? <- (Skip (',' / ';') Indent*)?` -/
def skipSep (r : Bytes) : Bytes :=
  match skipWs r with
  | 44 :: r' => skipIndent r'
  | 59 :: r' => skipIndent r'
  | _ => r

/-- `Identifier <- Skip <Letter (Letter / Digit / '.')*> Indent*` after `Skip`, `Indent*` left in the rest -/
def readIdent (s : Bytes) : Option (Bytes × Bytes) :=
  match s with
  | [] => none
  | c :: r => if isLetter c then let p := spanP isIdChar r; some (c :: p.1, p.2) else none

mutual
/-- `ConstValue <- DoubleConstant / IntConstant / Literal / Identifier / ConstList / ConstMap` with
    `parseConstValue`; the alternatives start with disjoint first bytes, so the ordered choice is a
    dispatch on the first byte after `Skip`.  Fuel bounds the nesting depth. -/
def readCV (pf : Bytes → Nat) : Nat → Bytes → Option (CV × Bytes)
  | 0, _ => none
  | f + 1, s0 =>
    match skipWs s0 with
    | [] => none
    | c :: r =>
      if c = 91 then (readCVItems pf f (skipIndent r)).map fun p => (CV.list p.1, p.2)
      else if c = 123 then (readCVPairs pf f (skipIndent r)).map fun p => (CV.map p.1, p.2)
      else if c = 34 ∨ c = 39 then (readLiteral (c :: r)).map fun p => (CV.lit p.1, skipIndent p.2)
      else if isLetter c then (readIdent (c :: r)).map fun p => (CV.ident p.1, skipIndent p.2)
      else
        match readNumber pf (c :: r) with
        | (.int i, r') => some (CV.int i, skipIndent r')
        | (.dbl b, r') => some (CV.dbl b, skipIndent r')
        | _ => none
/-- `(ConstValue ListSeparator?)* RBRK` -/
def readCVItems (pf : Bytes → Nat) : Nat → Bytes → Option (List CV × Bytes)
  | 0, _ => none
  | f + 1, s0 =>
    match skipWs s0 with
    | 93 :: r => some ([], skipIndent r)
    | s =>
      match readCV pf f s with
      | none => none
      | some (v, r) => (readCVItems pf f (skipSep r)).map fun p => (v :: p.1, p.2)
/-- `(ConstValue COLON ConstValue ListSeparator?)* RWING` -/
def readCVPairs (pf : Bytes → Nat) : Nat → Bytes → Option (List (CV × CV) × Bytes)
  | 0, _ => none
  | f + 1, s0 =>
    match skipWs s0 with
    | 125 :: r => some ([], skipIndent r)
    | s =>
      match readCV pf f s with
      | none => none
      | some (k, r) =>
        match skipWs r with
        | 58 :: r2 =>
          match readCV pf f (skipIndent r2) with
          | none => none
          | some (v, r3) => (readCVPairs pf f (skipSep r3)).map fun p => ((k, v) :: p.1, p.2)
        | _ => none
end

/-- `Annotations <- LPAR Annotation* RPAR`, `Annotation <- Identifier EQUAL Literal ListSeparator?`:
    the `(k, v)` pairs in reading order (then regrouped by `annRegroup`), after the opening `(`. -/
def readAnnPairs : Nat → Bytes → Option (List (Bytes × Bytes) × Bytes)
  | 0, _ => none
  | f + 1, s0 =>
    match skipWs s0 with
    | 41 :: r => some ([], skipIndent r)
    | s =>
      match readIdent s with
      | none => none
      | some (k, r) =>
        match skipWs r with
        | 61 :: r2 =>
          match readLiteral (skipWs r2) with
          | none => none
          | some (v, r3) => (readAnnPairs f (skipSep (skipIndent r3))).map fun p => ((k, v) :: p.1, p.2)
        | _ => none

def readAnnotations (s : Bytes) : Option (List Ann × Bytes) :=
  match skipWs s with
  | 40 :: r => (readAnnPairs (r.length + 1) (skipIndent r)).map fun p => (annRegroup p.1, p.2)
  | _ => none

end Dump
