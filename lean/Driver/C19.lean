import Driver.Common
import ThriftVerif.Lib.AsyncPP
import ThriftVerif.Generated.C19
import Std.Data.HashSet
import Std.Data.HashMap

/-
  Model driver for C19 (tv_c19).  The LTS is always instantiated with `Generated.C19.facts`
  (the skeleton extracted from the working tree), so it stays executable when the facts changed.

  stdin mode (no args), one answer per line:
    T <cfg> | <events>      replay a controlled trace of the real OnFinished as a path of the LTS
    F <cfg> | <ret> <written>   is this final observation one of the LTS's reachable finals?
  gen <seed> <count> <maxN> <maxK>    model paths (random + adversarial walks) to force on the implementation
  explore <maxN> <maxK>               bounded search of the LTS for states violating a statement; prints
                                      one shortest path per violation kind (to be forced on the implementation)
  facts                               prints whether the generated facts equal `expected`

  <cfg> = <conc> <pp:0|1> <N> then N times: <hexpath> <hexcontent> <o|p|w|b>
-/
namespace Driver.C19
open AsyncPP

def F : Facts := Generated.C19.facts

structure PCfg where
  cfg : Cfg
  n : Nat
  hasPP : Bool
  fl : Array Char
  key : String

def ppfOn (p c : Bytes) : Bytes := c ++ [35] ++ p

def mkCfg (conc : Nat) (hasPP : Bool) (jobs : List (Bytes × Bytes)) (fl : Array Char) : PCfg :=
  { cfg := { jobs := jobs, conc := conc,
             failPP := fun k => hasPP && (fl.getD k 'o' == 'p' || fl.getD k 'o' == 'b'),
             failWr := fun k => fl.getD k 'o' == 'w' || fl.getD k 'o' == 'b',
             ppf := if hasPP then ppfOn else fun _ c => c },
    n := jobs.length, hasPP := hasPP, fl := fl,
    key := s!"{conc} {VL.boolStr hasPP} {String.ofList fl.toList} " ++
      " ".intercalate (jobs.map fun (p, c) => VL.hexEncode p ++ ":" ++ VL.hexEncode c) }

def parseJobs : Nat → List String → Option (List (Bytes × Bytes) × List Char × List String)
  | 0, rest => some ([], [], rest)
  | n + 1, p :: c :: f :: rest => do
    let pb ← VL.hexDecode p
    let cb ← VL.hexDecode c
    let fc ← f.toList.head?
    let (js, fs, r) ← parseJobs n rest
    pure ((pb, cb) :: js, fc :: fs, r)
  | _, _ => none

/-- pp flag 2: four tokens per job, the fourth is the post-processed content of THAT file
    (the real backend's PostProcess computed sequentially by the harness) -/
def parseJobsT : Nat → List String → Option (List (Bytes × Bytes) × List Char × List (Bytes × Bytes × Bytes) × List String)
  | 0, rest => some ([], [], [], rest)
  | n + 1, p :: c :: f :: x :: rest => do
    let pb ← VL.hexDecode p
    let cb ← VL.hexDecode c
    let xb ← VL.hexDecode x
    let fc ← f.toList.head?
    let (js, fs, tb, r) ← parseJobsT n rest
    pure ((pb, cb) :: js, fc :: fs, (pb, cb, xb) :: tb, r)
  | _, _ => none

/-- the post-processing function given as a table: a function of (path, content) of one file alone -/
def ppfTable (tb : List (Bytes × Bytes × Bytes)) (p c : Bytes) : Bytes :=
  match tb.find? (fun (p', c', _) => p' == p && c' == c) with
  | some (_, _, x) => x
  | none => c

def parseCfg : List String → Option (PCfg × List String)
  | conc :: pp :: n :: rest => do
    let c ← conc.toNat?
    let n ← n.toNat?
    if pp == "2" then
      let (js, fs, tb, r) ← parseJobsT n rest
      let pc := mkCfg c true js fs.toArray
      pure ({ pc with cfg := { pc.cfg with ppf := ppfTable tb }, key := "T " ++ pc.key }, r)
    else
      let (js, fs, r) ← parseJobs n rest
      pure (mkCfg c (pp == "1") js fs.toArray, r)
  | _ => none

/-- default job list used by gen/explore: path "a/<k>", content "c<k>" -/
def defJob (k : Nat) : Bytes × Bytes :=
  (VL.ofAscii s!"d{k % 2}/f{k}", VL.ofAscii s!"c{k}")

def cfgToks (pc : PCfg) : String :=
  let js := (List.range pc.n).map fun k =>
    let (p, c) := pc.cfg.jobs.getD k ([], [])
    s!"{VL.hexEncode p} {VL.hexEncode c} {pc.fl.getD k 'o'}"
  s!"{pc.cfg.conc} {VL.boolStr pc.hasPP} {pc.n}" ++ (if js.isEmpty then "" else " " ++ " ".intercalate js)

-- ---------------------------------------------------------------- observations

def insertSorted (x : String) : List String → List String
  | [] => [x]
  | y :: r => if x ≤ y then x :: y :: r else y :: insertSorted x r

def writtenStr (s : State) : String :=
  let l := s.written.map fun (_, p, c) => VL.hexEncode p ++ ":" ++ VL.hexEncode c
  if l.isEmpty then "-" else ",".intercalate (l.foldr insertSorted [])

def retStr : Option (Option Nat) → String
  | none => "none"
  | some none => "nil"
  | some (some e) => s!"e{e}"

-- ---------------------------------------------------------------- trace replay

inductive G | d | w (k : Nat) deriving DecidableEq, Repr, BEq

structure Ev where
  g : G
  code : String
  arg : String      -- job index text or rt value
  release : Bool    -- "+g" marker
  tok : String

def parseEv (t : String) : Option Ev :=
  if t.startsWith "+" then
    let r := (t.drop 1).toString
    if r == "d" then some ⟨.d, "+", "", true, t⟩ else (r.toNat?).map fun k => ⟨.w k, "+", "", true, t⟩
  else if t.startsWith "rt:" then some ⟨.d, "rt", (t.drop 3).toString, false, t⟩
  else
    let code := (t.take 2).toString
    let arg := (t.drop 2).toString
    if ["di", "ac", "er", "ey", "sp", "sd", "fw", "fd", "fe", "fn"].contains code then some ⟨.d, code, arg, false, t⟩
    else if ["ws", "wp", "ww", "we", "wt", "wx", "wr"].contains code then (arg.toNat?).map fun k => ⟨.w k, code, arg, false, t⟩
    else none

structure RS where
  s : State
  inflight : List G
  prevD : String     -- code of the dispatcher's previous event
  dAhead : Nat       -- labels of the dispatcher's next event already fired in advance

/-- labels the dispatcher performs between its previous trace point and arriving at `code` -/
def dLabels (prevD code : String) : List Label :=
  -- "sp" = trace point before the go statement, "sd" = trace point right after it (may be absent in the build)
  match code with
  | "di" | "fw" =>
    if prevD == "sp" then (if F.addAfterGo then [.spawn, .add] else [.spawn])
    else if prevD == "sd" then (if F.addAfterGo then [.add] else [])
    else []
  | "ac" => [.acquire]
  | "er" => [.recvErr]
  | "sp" => if F.addAfterGo then [] else [.add]
  | "sd" => [.spawn]
  | "ey" => [.earlyRet]
  | "fd" => [.finalWait]
  | "fe" | "fn" => [.finalRecv]
  | _ => []

/-- is worker k still before the point `code`?  (then it has to perform its next operation) -/
def wNeeds (s : State) (k : Nat) (code : String) : Option Bool :=
  match s.workers[k]? with
  | none => none
  | some w =>
    some (match code with
      | "wp" => w.ops.contains .pp
      | "ww" => w.ops.contains .write
      | "wt" => w.ops.contains .send
      | "wr" => !w.ops.isEmpty
      | _ => false)

/-- one step towards event `e` of its own goroutine. `some (rs', true)` = event complete,
    `some (rs', false)` = made a step, `none` = next step not enabled -/
def advance (pc : PCfg) (rs : RS) (e : Ev) : Option (RS × Bool) :=
  match e.g with
  | .d =>
    let ls := (dLabels rs.prevD e.code).drop rs.dAhead
    match ls with
    | [] => some (rs, true)
    | l :: rest =>
      match step F pc.cfg rs.s l with
      | none => none
      | some s' => some ({ rs with s := s', dAhead := rs.dAhead + 1 }, rest.isEmpty)
  | .w k =>
    match wNeeds rs.s k e.code with
    | none => none     -- worker not spawned in the model yet
    | some false => some (rs, true)
    | some true =>
      match step F pc.cfg rs.s (.work k) with
      | none => none
      | some s' => some ({ rs with s := s' }, false)

def firstEvOf (g : G) : List Ev → Option Ev
  | [] => none
  | e :: r => if e.g == g && !e.release then some e else firstEvOf g r

/-- fire one step of some in-flight goroutine other than `me`, guided by its next arrival in the trace -/
def prefire (pc : PCfg) (rs : RS) (me : G) (rest : List Ev) : List G → Option RS
  | [] => none
  | h :: hs =>
    if h == me then prefire pc rs me rest hs else
    match firstEvOf h rest with
    | none => prefire pc rs me rest hs
    | some e =>
      match advance pc rs e with
      | some (rs', done) =>
        -- a completed no-op is no progress
        if rs'.s == rs.s && done then prefire pc rs me rest hs else some rs'
      | none => prefire pc rs me rest hs

def checkEv (rs : RS) (e : Ev) : Option String :=
  match e.code with
  | "fe" => match rs.s.ret with | some (some _) => none | _ => some "final-err but model returns nil"
  | "fn" => if rs.s.ret == some none then none else some "final-nil but model returns an error"
  | "rt" => if retStr rs.s.ret == e.arg then none else some s!"returned {e.arg} but model {retStr rs.s.ret}"
  | "we" => match rs.s.workers[(match e.g with | .w k => k | .d => 0)]? with
            | some w => if w.failed then none else some "error send but model worker has no error"
            | none => some "no such worker"
  | _ => none

partial def processEv (pc : PCfg) (rs : RS) (e : Ev) (rest : List Ev) : Except String RS :=
  match advance pc rs e with
  | some (rs', true) =>
    match checkEv rs' e with
    | some m => .error m
    | none =>
      let rs' := match e.g with
        | .d => { rs' with prevD := e.code, dAhead := 0 }
        | _ => rs'
      .ok { rs' with inflight := rs'.inflight.filter (· != e.g) }
  | some (rs', false) => processEv pc rs' e rest
  | none =>
    match prefire pc rs e.g rest rs.inflight with
    | some rs' => processEv pc rs' e rest
    | none => .error "not enabled"

partial def replayLoop (pc : PCfg) (rs : RS) (i : Nat) : List Ev → String
  | [] =>
    if !rs.s.final && (enabled F pc.cfg rs.s).isEmpty then
      s!"deadlock ret={retStr rs.s.ret} written={writtenStr rs.s}"
    else s!"ok ret={retStr rs.s.ret} written={writtenStr rs.s} final={VL.boolStr rs.s.final}"
  | e :: rest =>
    if e.release then
      -- a goroutine released from its spawn point also lets the new worker run
      replayLoop pc { rs with inflight := e.g :: rs.inflight } (i + 1) rest
    else
      -- a worker that was never released explicitly is in flight from its creation
      match processEv pc rs e rest with
      | .error m => s!"reject@{i}:{e.tok}:{m}"
      | .ok rs' => replayLoop pc rs' (i + 1) rest

def splitBar (l : List String) : List String × List String :=
  (l.takeWhile (· != "|"), (l.dropWhile (· != "|")).drop 1)

def replayLine (toks : List String) : String :=
  let (c, evs) := splitBar toks
  match parseCfg c with
  | none => "bad-cfg"
  | some (pc, _) =>
    match evs.mapM parseEv with
    | none => "bad-events"
    | some es => replayLoop pc ⟨init, [], "", 0⟩ 0 es

-- ---------------------------------------------------------------- exploration

structure Explored where
  states : Array State
  parent : Std.HashMap State (State × Label)
  transitions : Nat

instance : Inhabited Explored := ⟨⟨#[], ∅, 0⟩⟩

partial def bfsLoop (cfg : Cfg) (limit : Nat) (queue : Array State) (qi : Nat)
    (seen : Std.HashMap State (State × Label)) (tr : Nat) : Explored :=
  if h : qi < queue.size then
    if queue.size > limit then ⟨queue, seen, tr⟩ else
    let s := queue[qi]
    let (queue, seen, tr) := (enabled F cfg s).foldl (init := (queue, seen, tr)) fun (q, sn, t) l =>
      match step F cfg s l with
      | none => (q, sn, t)
      | some s' => if sn.contains s' then (q, sn, t + 1) else (q.push s', sn.insert s' (s, l), t + 1)
    bfsLoop cfg limit queue (qi + 1) seen tr
  else ⟨queue, seen, tr⟩

def bfs (cfg : Cfg) (limit : Nat := 2000000) : Explored :=
  bfsLoop cfg limit #[init] 0 ((∅ : Std.HashMap State (State × Label)).insert init (init, .acquire)) 0

partial def pathTo (ex : Explored) (s : State) (acc : List Label) : List Label :=
  if s == init then acc else
  match ex.parent[s]? with
  | none => acc
  | some (p, l) => pathTo ex p (l :: acc)

def obsStr (s : State) : String := s!"{retStr s.ret} {writtenStr s}"

/-- the forced step (goroutine>target trace point) that realises a label on the implementation -/
def forcedTok (s : State) : Label → Option String
  | .acquire => some "d>ac"
  | .recvErr => some "d>er"
  | .add => some (if F.addAfterGo then "d>nx" else "d>sp")
  | .spawn => some (if F.addAfterGo then "d>sd" else "d>nx")
  | .earlyRet => some "d>rt"
  | .finalWait => some "d>fd"
  | .finalRecv => some "d>rt"
  | .work k =>
    match s.workers[k]? with
    | none => none
    | some w =>
      match w.ops with
      | .pp :: _ => some s!"{k}>wp"
      | .write :: _ => some s!"{k}>ww"
      | .send :: _ => if w.failed then some s!"{k}>wt" else none
      | .done :: _ => some s!"{k}>wr"   -- no trace point between wg.Done() and <-processing
      | .release :: _ => some s!"{k}>xx"
      | _ => none

def forcedPath (cfg : Cfg) (ls : List Label) : List String :=
  (ls.foldl (init := (init, ([] : List String))) fun (s, acc) l =>
    let acc := match forcedTok s l with | some t => t :: acc | none => acc
    match step F cfg s l with
    | some s' => (s', acc)
    | none => (s, acc)).2.reverse

/-- which statement a state violates, if any -/
def violation (cfg : Cfg) (s : State) : Option String :=
  let n := cfg.jobs.length
  if s.panicked then some "panic-negative-waitgroup"
  else if !s.final && (enabled F cfg s).isEmpty then some "deadlock"
  else if (s.workers.filter fun w => w.ops.contains .pp || w.ops.contains .write || w.ops.contains .send).length > conc F cfg then
    some "more-workers-than-concurrency"
  else if s.ret.isSome && s.workers.any (fun w => !w.quiescent) then some "return-with-work-in-flight"
  else if s.ret == some none && (s.idx < n || s.workers.any (fun w => w.failed) ||
      (List.range s.idx).any (fun k => cfg.jobFails k)) then some "nil-despite-failure"
  else if (match s.ret with | some (some e) => !cfg.jobFails e | _ => false) then some "error-of-a-job-that-did-not-fail"
  else if s.final && s.ret == some none && (s.written.map (·.1)).length != n then some "nil-but-not-all-written"
  else if !(s.written.map (·.1)).Nodup then some "double-write"
  else if s.written.any (fun (k, p, c) => match cfg.jobs[k]? with
      | some (p0, c0) => !(p == p0 && c == cfg.ppf p0 c0) | none => true) then some "wrong-content"
  else none

def failPatterns : Nat → List (List Char)
  | 0 => [[]]
  | n + 1 => (failPatterns n).flatMap fun r => [('o' :: r), ('p' :: r), ('w' :: r)]

def exploreAll (maxN maxK : Nat) : IO Unit := do
  let mut found : Std.HashMap String String := ∅
  let mut states := 0
  let mut trans := 0
  let mut cfgs := 0
  for n in List.range (maxN + 1) do
    for conc in List.range (maxK + 1) do
      for fl in failPatterns n do
        let pc := mkCfg conc true ((List.range n).map defJob) fl.toArray
        let ex := bfs pc.cfg 400000
        states := states + ex.states.size
        trans := trans + ex.transitions
        cfgs := cfgs + 1
        for s in ex.states do
          match violation pc.cfg s with
          | none => pure ()
          | some v =>
            if !found.contains v then
              let p := pathTo ex s []
              found := found.insert v s!"X {v} {cfgToks pc} | {" ".intercalate (forcedPath pc.cfg p)}"
  for (_, l) in found.toList do
    IO.println l
  IO.println s!"S configs={cfgs} states={states} transitions={trans} violations={found.size}"

/-- every transition of the LTS (bounded configurations) as a path to force on the implementation -/
def coverAll (maxN maxK : Nat) : IO Unit := do
  for n in List.range (maxN + 1) do
    for conc in List.range (maxK + 1) do
      for fl in failPatterns n do
        let pc := mkCfg conc true ((List.range n).map defJob) fl.toArray
        let ex := bfs pc.cfg 400000
        for s in ex.states do
          let p := pathTo ex s []
          for l in enabled F pc.cfg s do
            IO.println s!"P cover {cfgToks pc} | {" ".intercalate (forcedPath pc.cfg (p ++ [l]))}"

-- ---------------------------------------------------------------- F lines

def finalsOf (pc : PCfg) : List String :=
  let ex := bfs pc.cfg 3000000
  (ex.states.foldl (init := (∅ : Std.HashSet String)) fun acc s =>
    if s.final then acc.insert (obsStr s)
    else if (enabled F pc.cfg s).isEmpty then acc.insert ("DEADLOCK " ++ obsStr s) else acc).toList

-- ---------------------------------------------------------------- generation of model paths

def rngNext (x : UInt64) : UInt64 × UInt64 :=
  let s := x + 0x9E3779B97F4A7C15
  let z := (s ^^^ (s >>> 30)) * 0xBF58476D1CE4E5B9
  let z := (z ^^^ (z >>> 27)) * 0x94D049BB133111EB
  (s, z ^^^ (z >>> 31))

def rnd (r : UInt64) (n : Nat) : UInt64 × Nat :=
  let (r, v) := rngNext r
  (r, if n == 0 then 0 else v.toNat % n)

/-- weight of a label under a walking strategy -/
def weight (strat : Nat) (pc : PCfg) (s : State) (l : Label) : Nat :=
  let isD := match l with | .work _ => false | _ => true
  let failing (k : Nat) := pc.cfg.jobFails k
  match strat with
  | 0 => 1                                   -- uniform
  | 1 => if isD then 50 else 1               -- dispatcher first: fill the semaphore
  | 2 => if isD then 1 else 50               -- workers first
  | 3 => match l with                        -- errors race the dispatcher: failing workers first, receive preferred
         | .work k => if failing k then 40 else 1
         | .recvErr => 200
         | _ => 5
  | 4 => match l with                        -- keep workers unreleased as long as possible
         | .work k => (match s.workers[k]? with
                       | some w => (match w.ops with | .done :: _ => 0 | .release :: _ => 0 | _ => 20)
                       | none => 1)
         | _ => 10
  | _ => match l with                        -- last spawned worker first
         | .work k => 1 + 10 * k
         | _ => 3

partial def walk (pc : PCfg) (strat : Nat) (s : State) (r : UInt64) (acc : List Label) (fuel : Nat) : List Label :=
  if fuel == 0 then acc.reverse else
  let en := enabled F pc.cfg s
  if en.isEmpty then acc.reverse else
  let ws := en.map (weight strat pc s)
  let tot := ws.foldl (· + ·) 0
  let (r, pick) := if tot == 0 then rnd r en.length else rnd r tot
  let l := if tot == 0 then en.getD pick .acquire else
    ((en.zip ws).foldl (init := (pick, (none : Option Label))) fun (rem, ch) (l, w) =>
      match ch with
      | some _ => (rem, ch)
      | none => if rem < w then (rem, some l) else (rem - w, none)).2.getD .acquire
  match step F pc.cfg s l with
  | none => acc.reverse
  | some s' => walk pc strat s' r (l :: acc) (fuel - 1)

def genFl (r : UInt64) (n : Nat) : UInt64 × List Char :=
  let (r, mode) := rnd r 6
  match mode with
  | 0 => (r, List.replicate n 'o')
  | 1 => let (r, st) := rnd r 2; (r, List.replicate n (if st == 0 then 'p' else 'w'))
  | 2 => (r, (List.range n).map fun k => if k + 1 == n then 'w' else 'o')
  | 3 => (r, (List.range n).map fun k => if k == 0 then 'p' else 'o')
  | _ => (List.range n).foldl (init := (r, [])) (fun (r, acc) _ =>
           let (r, v) := rnd r 6
           (r, acc ++ [if v == 0 then 'p' else if v == 1 then 'w' else if v == 2 then 'b' else 'o']))

def genAll (seed count maxN maxK : Nat) : IO Unit := do
  let mut r : UInt64 := UInt64.ofNat (seed * 7919 + 17)
  for i in List.range count do
    let (r1, n) := rnd r (maxN + 1)
    let (r2, conc) := rnd r1 (maxK + 2)     -- 0 (clamped) .. maxK+1
    let (r3, fl) := genFl r2 n
    let (r4, strat) := rnd r3 6
    let (r5, _) := rngNext r4
    r := r5
    let pc := mkCfg conc true ((List.range n).map defJob) fl.toArray
    let p := walk pc (if i % 7 == 0 then 3 else strat) init r4 [] 10000
    IO.println s!"P s{strat} {cfgToks pc} | {" ".intercalate (forcedPath pc.cfg p)}"

-- ---------------------------------------------------------------- main

partial def serve (cache : Std.HashMap String (List String)) : IO Unit := do
  let stdin ← IO.getStdin
  let stdout ← IO.getStdout
  let line ← stdin.getLine
  if line.isEmpty then stdout.flush; return ()
  match VL.toks line with
  | "T" :: rest =>
    stdout.putStrLn (replayLine rest)
    serve cache
  | "F" :: rest =>
    let (c, obs) := splitBar rest
    match parseCfg c with
    | none => stdout.putStrLn "bad-cfg"; serve cache
    | some (pc, _) =>
      let (fin, cache) := match cache[pc.key]? with
        | some f => (f, cache)
        | none => let f := finalsOf pc; (f, cache.insert pc.key f)
      -- the written set of the observation uses the line's own jobs; finals are computed for them too
      let o := " ".intercalate obs
      stdout.putStrLn (if fin.contains o then "member" else s!"not-member of {fin.length} finals")
      serve cache
  | _ => stdout.putStrLn "bad-op"; serve cache

end Driver.C19

open Driver.C19 in
def main (args : List String) : IO UInt32 := do
  match args with
  | [] => serve ∅; return 0
  | ["facts"] =>
    IO.println (if F = AsyncPP.expected then "facts=expected" else "facts=CHANGED")
    IO.println (repr F).pretty
    return 0
  | ["gen", seed, count, maxN, maxK] =>
    genAll seed.toNat! count.toNat! maxN.toNat! maxK.toNat!; return 0
  | ["cover", maxN, maxK] =>
    coverAll maxN.toNat! maxK.toNat!; return 0
  | ["explore", maxN, maxK] =>
    exploreAll maxN.toNat! maxK.toNat!; return 0
  | _ => IO.eprintln "usage: tv_c19 [facts | gen seed count maxN maxK | explore maxN maxK]"; return 2
