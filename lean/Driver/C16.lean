import Driver.Common
import ThriftVerif.Lib.Trim

/-! Model driver for C16: one line = one (configuration, program); answer = canonical rendering of
the trimmed program reachable from the root (or `crash`). -/
namespace Driver.C16
open Trim

abbrev P := StateT (List String) Option

def tok : P String := fun s => match s with
  | [] => none
  | t :: r => some (t, r)

def nat : P Nat := do
  let t ← tok
  match t.toNat? with
  | some n => pure n
  | none => failure

def int : P Int := do
  let t ← tok
  match t.toInt? with
  | some n => pure n
  | none => failure

def bytes : P Bytes := do
  let t ← tok
  match VL.hexDecode t with
  | some b => pure b
  | none => failure

def bool : P Bool := do
  let t ← tok
  pure (t == "1")

def many {α} (p : P α) : Nat → P (List α)
  | 0 => pure []
  | n+1 => do
    let a ← p
    let r ← many p n
    pure (a :: r)

def counted {α} (p : P α) : P (List α) := do
  let n ← nat
  many p n

def ref : P (Option (Bytes × Nat)) := do
  let b ← bool
  if b then
    let n ← bytes
    let i ← nat
    pure (some (n, i))
  else pure none

def hdr : P TyHdr := do
  let name ← bytes
  let cat ← nat
  let isTd ← bool
  let r ← ref
  pure ⟨name, cat, isTd, r⟩

partial def ty : P Ty := do
  let t ← tok
  let h ← hdr
  match t with
  | "N" => pure (.named h)
  | "U" => do
    let v ← ty
    pure (.unary h v)
  | "B" => do
    let k ← ty
    let v ← ty
    pure (.binary h k v)
  | _ => failure

def field : P Field := do
  let n ← bytes
  let i ← int
  let t ← ty
  pure ⟨n, i, t⟩

def structLike : P StructLike := do
  let n ← bytes
  let pc ← bool
  let fs ← counted field
  pure ⟨n, fs, pc⟩

def function : P Function := do
  let n ← bytes
  let a ← counted field
  let t ← counted field
  let hasRet ← bool
  if hasRet then
    let r ← ty
    pure ⟨n, a, t, some r⟩
  else pure ⟨n, a, t, none⟩

def service : P Service := do
  let n ← bytes
  let e ← bytes
  let r ← ref
  let fns ← counted function
  pure ⟨n, e, r, fns⟩

def pInclude : P Include := do
  let path ← bytes
  let t ← nat
  pure ⟨path, t⟩

def typedef : P Typedef := do
  let a ← bytes
  let t ← ty
  pure ⟨a, t⟩

def const : P Const := do
  let a ← bytes
  let t ← ty
  pure ⟨a, t⟩

def file : P File := do
  let name ← bytes
  let incs ← counted pInclude
  let tds ← counted typedef
  let cs ← counted const
  let es ← counted bytes
  let ss ← counted structLike
  let us ← counted structLike
  let xs ← counted structLike
  let svs ← counted service
  pure ⟨name, incs, tds, cs, es, ss, us, xs, svs⟩

def rxRow : P (Bytes × Bytes × Bool) := do
  let pat ← bytes
  let s ← bytes
  let b ← bool
  pure (pat, s, b)

def cfg : P Cfg := do
  let f2 ← bool
  let f3 ← bool
  let f4 ← bool
  let force ← bool
  let noComment ← bool
  let pres ← counted bytes
  let ms ← counted bytes
  let rows ← counted rxRow
  pure ⟨⟨f2, f3, f4⟩, ms, force, noComment, pres, fun pat s => rows.any (fun r => r.1 == pat && r.2.1 == s && r.2.2)⟩

/-! rendering -/

def a (b : Bytes) : String := VL.ascii b

def rRef (withIdx : Bool) : Option (Bytes × Nat) → String
  | none => ""
  | some (n, i) => "@" ++ a n ++ (if withIdx then ":" ++ toString i else "")

def rHdr (w : Bool) (h : TyHdr) : String :=
  a h.name ++ (if w then "#" ++ toString h.cat else "") ++ (if h.isTd then "t" else "") ++ rRef w h.ref

def rTy (w : Bool) : Ty → String
  | .named h => rHdr w h
  | .unary h v => rHdr w h ++ "<" ++ rTy w v ++ ">"
  | .binary h k v => rHdr w h ++ "<" ++ rTy w k ++ "," ++ rTy w v ++ ">"

def rField (w : Bool) (fd : Field) : String := a fd.name ++ ":" ++ toString fd.id ++ ":" ++ rTy w fd.ty

def rList (l : List String) : String := "[" ++ ",".intercalate l ++ "]"

def rSL (w : Bool) (s : StructLike) : String := a s.name ++ "{" ++ ";".intercalate (s.fields.map (rField w)) ++ "}"

def rFn (w : Bool) (fn : Function) : String :=
  a fn.name ++ "(" ++ ";".intercalate (fn.args.map (rField w)) ++ ")(" ++ ";".intercalate (fn.throws.map (rField w)) ++ ")" ++
    (match fn.ret with | some t => rTy w t | none => "void")

def rSvc (w : Bool) (s : Service) : String :=
  a s.name ++ "^" ++ a s.ext ++ rRef w s.ref ++ "{" ++ " ".intercalate (s.fns.map (rFn w)) ++ "}"

def rFile (w : Bool) (q : Program) (file : File) : String :=
  "F " ++ a file.name ++
  " I" ++ rList (file.includes.map (fun i => a i.path ++ "=" ++ a (q.file i.target).name)) ++
  " T" ++ rList (file.typedefs.map (fun t => a t.alias ++ "=" ++ rTy w t.ty)) ++
  " C" ++ rList (file.consts.map (fun c => a c.name ++ "=" ++ rTy w c.ty)) ++
  " E" ++ rList (file.enums.map a) ++
  " S" ++ rList (file.structs.map (rSL w)) ++
  " U" ++ rList (file.unions.map (rSL w)) ++
  " X" ++ rList (file.exceptions.map (rSL w)) ++
  " V" ++ rList (file.services.map (rSvc w))

partial def order (q : Program) (f : Nat) (seen : List Nat) : List Nat :=
  if seen.contains f then seen
  else (q.file f).includes.foldl (fun s inc => order q inc.target s) (seen ++ [f])

def render (w : Bool) (ms : List Bytes) (q : Program) : String :=
  "Q" ++ rList (ms.map a) ++ " | " ++ " | ".intercalate ((order q 0 []).map (fun f => rFile w q (q.file f)))

def handleLine (line : String) : String :=
  match VL.toks line with
  | "T" :: w :: rest =>
    let p : P (Cfg × List File) := do
      let c ← cfg
      let fs ← counted file
      pure (c, fs)
    match p rest with
    | some ((c, fs), []) =>
      let prog : Program := ⟨fs⟩
      match trim prog c with
      | .crash => "crash"
      | .ok q => render (w == "1") (effMethods prog c) q
    | _ => "bad-op"
  | _ => "bad-op"

end Driver.C16

def main : IO Unit := Driver.lineLoop Driver.C16.handleLine
