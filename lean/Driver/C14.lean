import Driver.Common
import ThriftVerif.Lib.FieldMask
import ThriftVerif.Generated.C14

/-
  Model driver for C14.  Line protocol (see harness/cmd/c14/main.go):
    D <schema>                         set the schema (global descriptor)
    N <slot> <black> <ty> <n> <hex>*   NewFieldMask into a slot
    Q <slot> <step>*                   queries, following the returned sub-mask
    P <slot> <ty> <hexpath>            GetPath
    J <slot>                           MarshalJSON as a canonical tree
    T <slot>                           the tree UnmarshalJSON is assumed to see of that text
    U <slot> <tree>|null               UnmarshalJSON of a decoded document into a slot
-/
namespace Driver.C14
open FieldMask

structure St where
  sch : Schema
  slots : List (Nat × Mask)

def St.get (s : St) (i : Nat) : Option Mask := (s.slots.find? (·.1 == i)).map (·.2)
def St.set (s : St) (i : Nat) (m : Option Mask) : St :=
  let r := s.slots.filter (·.1 != i)
  { s with slots := match m with | some m => (i, m) :: r | none => r }

def cfg : Sites := Generated.C14.sites

/-- parse one type expression from a token list -/
def parseTy : Nat → List String → Option (Ty × List String)
  | 0, _ => none
  | f + 1, t :: r =>
    if t = "l" then do
      let (e, r') ← parseTy f r
      pure (.list e, r')
    else if t = "m" then do
      let (k, r1) ← parseTy f r
      let (v, r2) ← parseTy f r1
      pure (.map k v, r2)
    else if t.startsWith "n" then do
      let b ← VL.hexDecode (t.drop 1).toString
      pure (.named b, r)
    else none
  | _, [] => none

def parseFields : Nat → Nat → List String → Option (List FieldD × List String)
  | _, 0, r => some ([], r)
  | 0, _, _ => none
  | f + 1, n + 1, id :: nm :: r => do
    let i ← id.toInt?
    let name ← VL.hexDecode nm
    let (t, r1) ← parseTy 64 r
    let (fs, r2) ← parseFields f n r1
    pure ({ id := i, name := name, ty := t } :: fs, r2)
  | _, _, _ => none

def parseStructs : Nat → List String → Option (List (Bytes × List FieldD) × List String)
  | 0, r => some ([], r)
  | n + 1, nm :: cnt :: r => do
    let name ← VL.hexDecode nm
    let c ← cnt.toNat?
    let (fs, r1) ← parseFields (c + 1) c r
    let (ss, r2) ← parseStructs n r1
    pure ((name, fs) :: ss, r2)
  | _, _ => none

def parseTypedefs : Nat → List String → Option (List (Bytes × Ty) × List String)
  | 0, r => some ([], r)
  | n + 1, nm :: r => do
    let name ← VL.hexDecode nm
    let (t, r1) ← parseTy 64 r
    let (ts, r2) ← parseTypedefs n r1
    pure ((name, t) :: ts, r2)
  | _, _ => none

def parseSchema (toks : List String) : Option Schema :=
  match toks with
  | ns :: r => do
    let n ← ns.toNat?
    let (ss, r1) ← parseStructs n r
    match r1 with
    | nt :: r2 => do
      let t ← nt.toNat?
      let (ts, r3) ← parseTypedefs t r2
      match r3 with
      | ne :: r4 => do
        let e ← ne.toNat?
        if r4.length ≠ e then none else
        let es ← r4.mapM VL.hexDecode
        pure { structs := ss, typedefs := ts, enums := es }
      | _ => none
    | _ => none
  | _ => none

def resStr {α} (f : α → String) : Res α → String
  | .ok a => f a
  | .err _ => "err"
  | .panic s => "panic:" ++ s.key
  | .crash => "crash"

def sig : MaskOpt → String
  | .none => "nil"
  | .some m => s!"t{m.typ.toNat}a{VL.boolStr m.allQ}b{VL.boolStr m.isBlack}e{VL.boolStr (m.typ != .invalid)}"

def keyStr : Key → String
  | .i n => s!"i{n}"
  | .s b => "s" ++ VL.hexEncode b

def keyLt : Key → Key → Bool
  | .i a, .i b => decide (a < b)
  | .s a, .s b => decide (a < b)
  | .i _, .s _ => true
  | .s _, .i _ => false

def insertK (p : Key × Mask) : List (Key × Mask) → List (Key × Mask)
  | [] => [p]
  | q :: r => if keyLt p.1 q.1 then p :: q :: r else q :: insertK p r

def parseStep (t : String) : Option QStep :=
  if t.startsWith "f" then (t.drop 1).toString.toInt?.map QStep.field
  else if t.startsWith "i" then (t.drop 1).toString.toInt?.map QStep.int
  else if t.startsWith "s" then (VL.hexDecode (t.drop 1).toString).map QStep.str
  else none

def runSteps : MaskOpt → List String → List String → String
  | _, [], acc => " ".intercalate acc.reverse
  | cur, t :: r, acc =>
    if t = "a" then runSteps cur r (("a" ++ VL.boolStr cur.allQ) :: acc)
    else if t = "g" then runSteps cur r (("g" ++ sig cur) :: acc)
    else if t = "c" then
      match forEachChild cfg cur with
      | .ok kids =>
        let ks := kids.foldr insertK []
        let s := ",".intercalate (ks.map fun (k, m) => keyStr k ++ "=" ++ sig (.some m))
        runSteps cur r (("c[" ++ s ++ "]") :: acc)
      | x => " ".intercalate ((resStr (fun _ => "") x :: acc).reverse)
    else match parseStep t with
      | none => "bad-op"
      | some q =>
        match query cfg cur q with
        | .ok (nxt, ok) => runSteps nxt r ((VL.boolStr ok ++ ":" ++ sig nxt) :: acc)
        | x => " ".intercalate ((resStr (fun _ => "") x :: acc).reverse)

def jpStr : JPath → String
  | .root => "$" | .any => "*" | .int n => s!"i{n}"
  | .str s => if s = [42] then "*" else "s" ++ VL.hexEncode (sanitizeUtf8 (s.length + 1) s)   -- the text cannot tell the key "*" from the wildcard; keys are compared after UTF-8 sanitising (JSON cannot carry other bytes)

mutual
def joutStr : JOut → String
  | .mk p t b hk ks => "(" ++ jpStr p ++ " " ++ toString t.toNat ++ " " ++ VL.boolStr b ++ " " ++
      (if hk then "[" ++ joutsStr ks ++ "]" else "-") ++ ")"
def joutsStr : JOuts → String
  | .nil => ""
  | .cons j r => joutStr j ++ joutsStr r
end

def optInt : Option Int → String
  | none => "x" | some n => toString n
def optHex : Option Bytes → String
  | none => "x" | some b => VL.hexEncode (sanitizeUtf8 (b.length + 1) b)

mutual
def jinStr : JIn → String
  | .mk p t b ks => VL.boolStr p.isRoot ++ VL.boolStr p.isAny ++ " " ++ optInt p.i32 ++ " " ++ optInt p.int ++ " " ++
      optHex p.str ++ " " ++ toString t.toNat ++ " " ++ VL.boolStr b ++ " " ++ toString (jinsLen ks) ++ jinsStr ks
def jinsStr : JIns → String
  | .nil => ""
  | .cons j r => " " ++ jinStr j ++ jinsStr r
def jinsLen : JIns → Nat
  | .nil => 0
  | .cons _ r => 1 + jinsLen r
end

def parseOptInt (t : String) : Option (Option Int) := if t = "x" then some none else t.toInt?.map some
def parseOptHex (t : String) : Option (Option Bytes) := if t = "x" then some none else (VL.hexDecode t).map some

mutual
def parseJIn : Nat → List String → Option (JIn × List String)
  | 0, _ => none
  | f + 1, fl :: a :: b :: c :: t :: bl :: n :: r => do
    let i32 ← parseOptInt a
    let i ← parseOptInt b
    let s ← parseOptHex c
    let tn ← t.toNat?
    let cnt ← n.toNat?
    let (ks, r') ← parseJIns f cnt r
    pure (.mk ⟨fl.startsWith "1", (fl.drop 1).toString.startsWith "1", i32, i, s⟩ (Ft.ofCode tn) (bl = "1") ks, r')
  | _, _ => none
def parseJIns : Nat → Nat → List String → Option (JIns × List String)
  | _, 0, r => some (.nil, r)
  | 0, _, _ => none
  | f + 1, n + 1, r => do
    let (j, r1) ← parseJIn f r
    let (js, r2) ← parseJIns f n r1
    pure (.cons j js, r2)
end

def handle (s : St) (line : String) : St × String :=
  match VL.toks line with
  | "D" :: rest =>
    match parseSchema rest with
    | some sch => ({ sch := sch, slots := [] }, "ok")
    | none => (s, "bad-op")
  | "N" :: slot :: black :: rest =>
    match slot.toNat?, parseTy 64 rest with
    | some sl, some (ty, cnt :: ps) =>
      match cnt.toNat?, ps.mapM VL.hexDecode with
      | some n, some paths =>
        if n ≠ paths.length then (s, "bad-op") else
        let r := newFieldMask cfg s.sch ty (black = "1") paths
        (s.set sl (match r with | .ok m => some m | _ => none), resStr (fun _ => "ok") r)
      | _, _ => (s, "bad-op")
    | _, _ => (s, "bad-op")
  | "Q" :: slot :: steps =>
    match slot.toNat? with
    | some sl =>
      match s.get sl with
      | some m => (s, runSteps (.some m) steps [])
      | none => (s, "no-mask")
    | none => (s, "bad-op")
  | "P" :: slot :: rest =>
    match slot.toNat?, parseTy 64 rest with
    | some sl, some (ty, [p]) =>
      match s.get sl, VL.hexDecode p with
      | some m, some path =>
        (s, resStr (fun (r : MaskOpt × Bool) => VL.boolStr r.2 ++ ":" ++ sig r.1) (getPath cfg s.sch (.some m) ty path))
      | _, _ => (s, "no-mask")
    | _, _ => (s, "bad-op")
  | ["J", slot] =>
    match slot.toNat?.bind s.get with
    | some m => (s, resStr joutStr (marshal m))
    | none => (s, "no-mask")
  | ["T", slot] =>
    match slot.toNat?.bind s.get with
    | some m => (s, resStr (fun j => jinStr j.toIn) (marshal m))
    | none => (s, "no-mask")
  | ["U", slot, "null"] =>
    match slot.toNat? with
    | some sl =>
      let r := unmarshal cfg none
      (s.set sl (match r with | .ok m => some m | _ => none), resStr (fun _ => "ok") r)
    | none => (s, "bad-op")
  | ["U", slot, "bad"] =>
    match slot.toNat? with
    | some sl => (s.set sl none, "err")
    | none => (s, "bad-op")
  | "U" :: slot :: rest =>
    match slot.toNat?, parseJIn 100000 rest with
    | some sl, some (j, []) =>
      let r := unmarshal cfg (some j)
      (s.set sl (match r with | .ok m => some m | _ => none), resStr (fun _ => "ok") r)
    | _, _ => (s, "bad-op")
  | _ => (s, "bad-op")

end Driver.C14

def main : IO Unit :=
  Driver.stateLoop (σ := Driver.C14.St) { sch := { structs := [], typedefs := [], enums := [] }, slots := [] } Driver.C14.handle
