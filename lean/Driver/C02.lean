import Driver.GenVL
import ThriftVerif.Gen.Std
/- model driver for C02 (and the generic W/R/N/Z ops of docs/BATCH.md) -/
namespace Driver.C02
open Gen Driver.GenVL

def resStr {α} (r : Res α) (f : α → String) : String :=
  match r with | .ok a => "ok " ++ f a | .err => "err" | .panic => "panic"

/-- canonical bytes of a wire value: map entries sorted by encoded key (what refcodec.Canon does) -/
partial def canonW (sortFields : Bool := false) : Wire.WVal → Wire.WVal
  | .struct fs =>
      let fs' := fs.map fun (i, v) => (i, canonW sortFields v)
      if sortFields then .struct (fs'.foldr insF []) else .struct fs'
  | .list t xs => .list t (xs.map (canonW sortFields))
  | .set t xs => .set t (xs.map (canonW sortFields))
  | .map k v kvs =>
      let es := kvs.map fun (a, b) => (canonW sortFields a, canonW sortFields b)
      let keyed := es.map fun (a, b) => (VL.hexEncode (Wire.encW a), (a, b))
      let sorted := keyed.foldr (fun x acc => ins x acc) []
      .map k v (sorted.map (·.2))
  | w => w
where
  insF (x : Nat × Wire.WVal) : List (Nat × Wire.WVal) → List (Nat × Wire.WVal)
  | [] => [x]
  | y :: r => if x.1 ≤ y.1 then x :: y :: r else y :: insF x r
  ins (x : String × (Wire.WVal × Wire.WVal)) : List (String × (Wire.WVal × Wire.WVal)) → List (String × (Wire.WVal × Wire.WVal))
  | [] => [x]
  | y :: r => if x.1 ≤ y.1 then x :: y :: r else y :: ins x r

/-- units generated with `reorder_fields`: the struct layout, hence the order in which Write emits
the fields, is permuted; their W answers are compared with the fields of every struct sorted by id -/
abbrev St := Progs × List String

def step (st : St) (line : String) : St × String :=
  let (ps, ro) := st
  let toks := VL.toks line
  let ro := match toks with
    | "P" :: u :: _ :: opts => if opts.contains "reorder_fields=1" then u :: ro else ro
    | _ => ro
  match schemaLine ps toks with
  | some (ps', out) => ((ps', ro), out)
  | none =>
  let r : Progs × String :=
    match toks with
    | "W" :: key :: rest =>
      match splitKey key with
      | some (u, i) => match ps.get u, parseVal rest with
        | some P, some (v, []) =>
            (ps, resStr (Std.toW P (.struct i) v) fun w => VL.hexEncode (Wire.encW (canonW (ro.contains u) w)))
        | _, _ => (ps, "bad-op")
      | none => (ps, "bad-op")
    | ["R", key, hex] =>
      match splitKey key with
      | some (u, i) => match ps.get u, VL.hexDecode hex with
        | some P, some bs =>
            (ps, match Std.read P i bs with
              | some v => "ok " ++ showVal P (.struct i) v
              | none => "err")
        | _, _ => (ps, "bad-op")
      | none => (ps, "bad-op")
    | ["N", key] | ["Z", key] =>
      match splitKey key with
      | some (u, i) => match ps.get u with
        | some P => match P.struct? i with
          | some sd => (ps, "ok " ++ showVal P (.struct i) (newX sd))
          | none => (ps, "bad-op")
        | none => (ps, "bad-op")
      | none => (ps, "bad-op")
    | _ => (ps, "bad-op")
  ((r.1, ro), r.2)

end Driver.C02

def main : IO Unit := Driver.stateLoop (([], []) : Driver.C02.St) Driver.C02.step
