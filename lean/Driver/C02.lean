import Driver.GenVL
import ThriftVerif.Gen.Std
/- model driver for C02 (and the generic W/R/N/Z ops of docs/BATCH.md) -/
namespace Driver.C02
open Gen Driver.GenVL

def resStr {α} (r : Res α) (f : α → String) : String :=
  match r with | .ok a => "ok " ++ f a | .err => "err" | .panic => "panic"

/-- canonical bytes of a wire value: map entries sorted by encoded key (what refcodec.Canon does) -/
partial def canonW : Wire.WVal → Wire.WVal
  | .struct fs => .struct (fs.map fun (i, v) => (i, canonW v))
  | .list t xs => .list t (xs.map canonW)
  | .set t xs => .set t (xs.map canonW)
  | .map k v kvs =>
      let es := kvs.map fun (a, b) => (canonW a, canonW b)
      let keyed := es.map fun (a, b) => (VL.hexEncode (Wire.encW a), (a, b))
      let sorted := keyed.foldr (fun x acc => ins x acc) []
      .map k v (sorted.map (·.2))
  | w => w
where ins (x : String × (Wire.WVal × Wire.WVal)) : List (String × (Wire.WVal × Wire.WVal)) → List (String × (Wire.WVal × Wire.WVal))
  | [] => [x]
  | y :: r => if x.1 ≤ y.1 then x :: y :: r else y :: ins x r

def step (ps : Progs) (line : String) : Progs × String :=
  let toks := VL.toks line
  match schemaLine ps toks with
  | some r => r
  | none =>
    match toks with
    | "W" :: key :: rest =>
      match splitKey key with
      | some (u, i) => match ps.get u, parseVal rest with
        | some P, some (v, []) =>
            (ps, resStr (Std.toW P (.struct i) v) fun w => VL.hexEncode (Wire.encW (canonW w)))
        | _, _ => (ps, "bad-op")
      | none => (ps, "bad-op")
    | ["R", key, hex] =>
      match splitKey key with
      | some (u, i) => match ps.get u, VL.hexDecode hex with
        | some P, some bs =>
            (ps, match Std.read P i bs with
              | some v => "ok " ++ showVal P (.struct i) v
              | none => "err")
        | _, _ => (ps, "bad-op")
      | none => (ps, "bad-op")
    | ["N", key] | ["Z", key] =>
      match splitKey key with
      | some (u, i) => match ps.get u with
        | some P => match P.struct? i with
          | some sd => (ps, "ok " ++ showVal P (.struct i) (newX sd))
          | none => (ps, "bad-op")
        | none => (ps, "bad-op")
      | none => (ps, "bad-op")
    | _ => (ps, "bad-op")

end Driver.C02

def main : IO Unit := Driver.stateLoop ([] : Driver.GenVL.Progs) Driver.C02.step
