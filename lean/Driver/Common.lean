import ThriftVerif.Core.VL

namespace Driver

/-- stateless suites: one output line per input line -/
partial def lineLoop (f : String → String) : IO Unit := do
  let stdin ← IO.getStdin
  let stdout ← IO.getStdout
  let rec go : IO Unit := do
    let line ← stdin.getLine
    if line.isEmpty then return ()
    stdout.putStrLn (f line)
    go
  go
  stdout.flush

/-- stateful suites -/
partial def stateLoop {σ : Type} (init : σ) (f : σ → String → σ × String) : IO Unit := do
  let stdin ← IO.getStdin
  let stdout ← IO.getStdout
  let rec go (s : σ) : IO Unit := do
    let line ← stdin.getLine
    if line.isEmpty then return ()
    let (s', out) := f s line
    stdout.putStrLn out
    go s'
  go init
  stdout.flush

end Driver
