import Driver.GenVL
import ThriftVerif.Gen.DeepEq
import ThriftVerif.Generated.C18
/- model driver for C18: ops E / EN / EI / EA (generated DeepEqual), W (Write with the set check of the unit's
   option set), V (the specification `valEq`, compared with the harness' Go oracle) -/
namespace Driver.C18
open Gen Driver.GenVL

def F : Gen.DeepEq.Facts := Generated.C18.facts

structure St where
  ps : Progs := []
  de : List String := []      -- units generated with gen_deep_equal

/-- canonical bytes of a wire value: map entries sorted by encoded key (what refcodec.Canon does) -/
partial def canonW : Wire.WVal → Wire.WVal
  | .struct fs => .struct (fs.map fun (i, v) => (i, canonW v))
  | .list t xs => .list t (xs.map canonW)
  | .set t xs => .set t (xs.map canonW)
  | .map k v kvs =>
      let es := kvs.map fun (a, b) => (canonW a, canonW b)
      let keyed := es.map fun (a, b) => (VL.hexEncode (Wire.encW a), (a, b))
      let sorted := keyed.foldr (fun x acc => ins x acc) []
      .map k v (sorted.map (·.2))
  | w => w
where ins (x : String × (Wire.WVal × Wire.WVal)) : List (String × (Wire.WVal × Wire.WVal)) → List (String × (Wire.WVal × Wire.WVal))
  | [] => [x]
  | y :: r => if x.1 ≤ y.1 then x :: y :: r else y :: ins x r

def boolRes : Res Bool → String
  | .ok true => "true" | .ok false => "false" | .panic => "panic" | .err => "bad-value"

def two (rest : List String) : Option (GoVal × GoVal) :=
  match parseVal rest with
  | some (v1, r) => match parseVal r with
    | some (v2, []) => some (v1, v2)
    | _ => none
  | none => none

def step (st : St) (line : String) : St × String :=
  let toks := VL.toks line
  let st := match toks with
    | "P" :: u :: _ :: opts => if optOn opts "gen_deep_equal" false then { st with de := u :: st.de } else st
    | _ => st
  match schemaLine st.ps toks with
  | some (ps, out) => ({ st with ps := ps }, out)
  | none =>
    match toks with
    | op :: key :: rest =>
      match splitKey key with
      | none => (st, "bad-op")
      | some (u, i) =>
        match st.ps.get u with
        | none => (st, "bad-op")
        | some P =>
          let de := st.de.contains u
          if op == "E" || op == "EN" then
            match two rest with
            | some (v1, v2) => (st, if de then boolRes (DeepEq.deepEqualTop F P i false v1 v2) else "nomethod")
            | none => (st, "bad-op")
          else if op == "ES" then
            match two rest with
            | some (v1, v2) => (st, if de then boolRes (DeepEq.deepEqualSh F P (.struct i) v1 v2) else "nomethod")
            | none => (st, "bad-op")
          else if op == "EI" then
            match parseVal rest with
            | some (v, []) => (st, if de then boolRes (DeepEq.deepEqualTop F P i true v v) else "nomethod")
            | _ => (st, "bad-op")
          else if op == "EA" then
            match parseVal rest with
            | some (v, []) => (st, if de then boolRes (DeepEq.shallowCopyEq F P i v) else "nomethod")
            | _ => (st, "bad-op")
          else if op == "V" then
            match two rest with
            | some (v1, v2) => (st, if DeepEq.valEq P (.struct i) v1 v2 then "true" else "false")
            | none => (st, "bad-op")
          else if op == "W" then
            match parseVal rest with
            | some (v, []) =>
                (st, match DeepEq.toW F P de (.struct i) v with
                  | .ok w => "ok " ++ VL.hexEncode (Wire.encW (canonW w))
                  | .err => "err" | .panic => "panic")
            | _ => (st, "bad-op")
          else (st, "bad-op")
    | _ => (st, "bad-op")

end Driver.C18

def main : IO Unit := Driver.stateLoop ({} : Driver.C18.St) Driver.C18.step
