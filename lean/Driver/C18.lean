import Driver.Common
/- stub: model driver for C18 not built yet -/
def main : IO Unit := Driver.lineLoop (fun _ => "unimplemented")
