import Driver.Common
import ThriftVerif.Lib.Resolve

/-
  Model driver of C05.  Ops (one per line):
    R <root> <nfiles> File*     run `Sem.resolve` on the program, print the canonical dump
    P <pathHex>                 IDLPrefix
    Y <idHex>                   SplitType
    Z <idHex>                   SplitValue
  Program encoding: see harness/cmd/c05/vlenc.go (prefix notation, explicit counts, hex strings).
-/
namespace Driver.C05
open Sem

abbrev P (α : Type) := List String → Option (α × List String)

def pNat : P Nat
  | t :: r => t.toNat?.map (·, r)
  | [] => none

def pInt : P Int
  | t :: r => t.toInt?.map (·, r)
  | [] => none

def pHex : P Bytes
  | t :: r => (VL.hexDecode t).map (·, r)
  | [] => none

partial def pMany {α} (p : P α) : Nat → P (List α)
  | 0, ts => some ([], ts)
  | n + 1, ts => do
    let (x, ts) ← p ts
    let (xs, ts) ← pMany p n ts
    pure (x :: xs, ts)

def pCounted {α} (p : P α) : P (List α) := fun ts => do
  let (n, ts) ← pNat ts
  pMany p n ts

partial def pType : P TypeExpr
  | "n" :: ts => do let (n, ts) ← pHex ts; pure (.name n, ts)
  | "l" :: ts => do let (v, ts) ← pType ts; pure (.list v, ts)
  | "s" :: ts => do let (v, ts) ← pType ts; pure (.set v, ts)
  | "m" :: ts => do let (k, ts) ← pType ts; let (v, ts) ← pType ts; pure (.map k v, ts)
  | _ => none

partial def pCV : P ConstVal
  | "i" :: ts => do let (v, ts) ← pInt ts; pure (.int v, ts)
  | "d" :: ts => do let (v, ts) ← pHex ts; pure (.dbl v, ts)
  | "t" :: ts => do let (v, ts) ← pHex ts; pure (.str v, ts)
  | "x" :: ts => do let (v, ts) ← pHex ts; pure (.ident v, ts)
  | "L" :: ts => do let (xs, ts) ← pCounted pCV ts; pure (.list xs, ts)
  | "M" :: ts => do
    let (kvs, ts) ← pCounted (fun ts => do
      let (k, ts) ← pCV ts
      let (v, ts) ← pCV ts
      pure ((k, v), ts)) ts
    pure (.map kvs, ts)
  | _ => none

def pField : P Field := fun ts => do
  let (id, ts) ← pInt ts
  let (name, ts) ← pHex ts
  let (ty, ts) ← pType ts
  match ts with
  | "0" :: ts => pure (⟨id, name, ty, none⟩, ts)
  | "1" :: ts => do let (d, ts) ← pCV ts; pure (⟨id, name, ty, some d⟩, ts)
  | _ => none

def pTypedef : P Typedef := fun ts => do
  let (a, ts) ← pHex ts
  let (ty, ts) ← pType ts
  pure (⟨a, ty⟩, ts)

def pConstant : P Constant := fun ts => do
  let (a, ts) ← pHex ts
  let (ty, ts) ← pType ts
  let (v, ts) ← pCV ts
  pure (⟨a, ty, v⟩, ts)

def pEnum : P Enum := fun ts => do
  let (a, ts) ← pHex ts
  let (vs, ts) ← pCounted (fun ts => do
    let (n, ts) ← pHex ts
    let (v, ts) ← pInt ts
    pure ((⟨n, v⟩ : EnumValue), ts)) ts
  pure (⟨a, vs⟩, ts)

def pStructLike (k : SLKind) : P StructLike := fun ts => do
  let (a, ts) ← pHex ts
  let (fs, ts) ← pCounted pField ts
  pure (⟨k, a, fs⟩, ts)

def pFunction : P Function := fun ts => do
  let (a, ts) ← pHex ts
  let (ow, ts) ← pNat ts
  let (ret, ts) ← (match ts with
    | "v" :: ts => some (none, ts)
    | "r" :: ts => (pType ts).map (fun (t, ts) => (some t, ts))
    | _ => none)
  let (args, ts) ← pCounted pField ts
  let (thr, ts) ← pCounted pField ts
  pure (⟨a, ow != 0, ret, args, thr⟩, ts)

def pService : P Service := fun ts => do
  let (a, ts) ← pHex ts
  let (e, ts) ← pHex ts
  let (fs, ts) ← pCounted pFunction ts
  pure (⟨a, e, fs⟩, ts)

def pInclude : P Include := fun ts => do
  let (p, ts) ← pHex ts
  let (t, ts) ← pNat ts
  pure (⟨p, t⟩, ts)

def pFile : P File
  | "F" :: ts => do
    let (fname, ts) ← pHex ts
    let (incs, ts) ← pCounted pInclude ts
    let (tds, ts) ← pCounted pTypedef ts
    let (cs, ts) ← pCounted pConstant ts
    let (es, ts) ← pCounted pEnum ts
    let (ss, ts) ← pCounted (pStructLike .struct) ts
    let (us, ts) ← pCounted (pStructLike .union) ts
    let (xs, ts) ← pCounted (pStructLike .exception) ts
    let (svs, ts) ← pCounted pService ts
    pure (⟨fname, incs, tds, cs, es, ss, us, xs, svs⟩, ts)
  | _ => none

/-! canonical dump -/

def insertSorted (x : String) : List String → List String
  | [] => [x]
  | y :: r => if x ≤ y then x :: y :: r else y :: insertSorted x r

def sortStrs (l : List String) : List String := l.foldr insertSorted []

def hx := VL.hexEncode

def refStr : Option Ref → String
  | none => "-"
  | some r => s!"{r.index}~{hx r.name}"

def errStr : Err → String
  | .multidef => "multidef" | .undefType => "undeftype" | .badCat => "badcat"
  | .invalidTypeName => "invalidname" | .undefValue => "undefvalue" | .ambiguous => "ambiguous"
  | .baseSvc => "basesvc" | .tdCycle => "tdcycle" | .tdNotFound => "tdnotfound"
  | .notParsed => "notparsed" | .goPanic => "panic" | .derefErr => "dereferr"
  | .includeCycle => "includecycle" | .loopDiverged => "loopdiverged" | .fuel => "modelfuel" | .crash => "crash"

structure DCtx where
  views : Nat → Option FileView
  fuel : Nat
  file : Nat

def nodeStr (d : DCtx) (name : Bytes) (n : RNode) : String :=
  let dr := match deref d.views d.fuel d.file name n.cat n.isTypedef n.ref with
    | .ok (j, nm, c) => s!"{j}~{hx nm}~{c.toNat}"
    | .error .crash => "crash"
    | .error _ => "E"
  s!"{n.cat.toNat}:{VL.boolStr n.isTypedef}:{refStr n.ref}:{dr}"

def nodesStr (d : DCtx) (te : TypeExpr) (ns : List RNode) : String :=
  let names := te.nodes.map TypeExpr.rootName
  if names.length != ns.length then "LEN" else
  ",".intercalate ((names.zip ns).map fun (nm, n) => nodeStr d nm n)

def bindStr : Option Extra → String
  | none => "_"
  | some e => s!"{VL.boolStr e.isEnum}:{e.index}:{hx e.name}:{hx e.sel}"

def bindsStr (bs : List (Option Extra)) : String :=
  if bs.isEmpty then "-" else ",".intercalate (bs.map bindStr)

def zipIdx {α β} (xs : List α) (ys : List β) : List (Nat × α × β) :=
  (List.range xs.length).zip (xs.zip ys)

def typeRec (d : DCtx) (rf : RFile) (slot : Slot) (te : TypeExpr) : String :=
  match lookupSlot slot rf.types with
  | some ns => nodesStr d te ns
  | none => "MISSING"

def bindRec (rf : RFile) (slot : Slot) : String :=
  match lookupSlot slot rf.binds with
  | some bs => bindsStr bs
  | none => "-"

def fileRecords (d : DCtx) (f : File) (rf : RFile) : List String :=
  let n := rf.n2c.map fun (k, c) => s!"N.{hx k}.{c.toNat}"
  let t := f.typedefs.map fun td => s!"T.{hx td.alias}.{typeRec d rf (.typedef td.alias) td.type}"
  let c := f.constants.map fun cd =>
    s!"C.{hx cd.name}.{typeRec d rf (.const cd.name) cd.type}.{bindRec rf (.const cd.name)}"
  let s := f.structLikes.flatMap fun sd =>
    (zipIdx sd.fields sd.fields).map fun (k, fd, _) =>
      s!"S.{hx sd.name}.{k}.{typeRec d rf (.field sd.name k) fd.type}.{bindRec rf (.field sd.name k)}"
  let v := f.services.flatMap fun sd =>
    s!"V.{hx sd.name}.{refStr ((lookupB sd.name rf.svcRefs).getD none)}" ::
    (zipIdx sd.functions sd.functions).flatMap fun (k, fd, _) =>
      (match fd.ret with
       | some te => [s!"R.{hx sd.name}.{k}.{typeRec d rf (.ret sd.name k) te}"]
       | none => []) ++
      ((zipIdx fd.args fd.args).map fun (a, ad, _) => s!"A.{hx sd.name}.{k}.{a}.{typeRec d rf (.arg sd.name k a) ad.type}.{bindRec rf (.arg sd.name k a)}") ++
      ((zipIdx fd.throws fd.throws).map fun (a, ad, _) => s!"X.{hx sd.name}.{k}.{a}.{typeRec d rf (.throw sd.name k a) ad.type}.{bindRec rf (.throw sd.name k a)}")
  sortStrs (n ++ t ++ c ++ s ++ v)

def usedStr (u : List Bool) : String := String.ofList (u.map fun b => if b then '1' else '0')

def dump (p : Program) (tbl : Table) : String :=
  let views := tableViews p tbl
  let parts := (zipIdx p tbl).filterMap fun (j, f, e) =>
    match e with
    | none => none
    | some rf =>
      some (s!"F{j} u{usedStr rf.used} " ++ " ".intercalate (fileRecords ⟨views, p.chainFuel, j⟩ f rf))
  "ok " ++ " | ".intercalate parts

def runProgram (ts : List String) : String :=
  match (do
    let (root, ts) ← pNat ts
    let (files, ts) ← pCounted pFile ts
    if ts.isEmpty then some (root, files) else none) with
  | none => "bad-op"
  | some (root, p) =>
    match resolve p root with
    | .error e => "err:" ++ errStr e
    | .ok tbl => dump p tbl

def handleLine (line : String) : String :=
  match VL.toks line with
  | "R" :: ts => runProgram ts
  | ["P", h] => match VL.hexDecode h with
    | some b => hx (idlPrefix b)
    | none => "bad-op"
  | ["Y", h] => match VL.hexDecode h with
    | some b => ",".intercalate ((splitType b).map hx) ++ ";"
    | none => "bad-op"
  | ["Z", h] => match VL.hexDecode h with
    | some b => "|".intercalate ((splitValue b).map fun ss => ",".intercalate (ss.map hx)) ++ ";"
    | none => "bad-op"
  | _ => "bad-op"

end Driver.C05

def main : IO Unit := Driver.lineLoop Driver.C05.handleLine
