import Driver.GenVL
import ThriftVerif.Gen.Rpc
/- model driver for C08: ops CALL / INJ / RECV over `Gen.Rpc` (docs/C08.md) -/
namespace Driver.C08
open Gen Gen.Rpc Driver.GenVL

/-- service table of one unit: svc index ↦ (base index, own methods) -/
abbrev SvcTab := List (Nat × (Option Nat × List Method))

structure St where
  progs : Progs := []
  svcs : List (String × SvcTab) := []

def St.tab (s : St) (u : String) : SvcTab := ((s.svcs.find? (·.1 == u)).map (·.2)).getD []

def buildSvc (tab : SvcTab) : Nat → Nat → Option Service
  | 0, _ => none
  | fuel+1, i =>
    match (tab.find? (·.1 == i)).map (·.2) with
    | none => none
    | some (none, ms) => some (.root ms)
    | some (some b, ms) => (buildSvc tab fuel b).map (.ext ms)

partial def canonW : Wire.WVal → Wire.WVal
  | .struct fs => .struct (fs.map fun (i, v) => (i, canonW v))
  | .list t xs => .list t (xs.map canonW)
  | .set t xs => .set t (xs.map canonW)
  | .map k v kvs =>
      let es := kvs.map fun (a, b) => (canonW a, canonW b)
      let keyed := es.map fun (a, b) => (VL.hexEncode (Wire.encW a), (a, b))
      let sorted := keyed.foldr (fun x acc => ins x acc) []
      .map k v (sorted.map (·.2))
  | w => w
where ins (x : String × (Wire.WVal × Wire.WVal)) : List (String × (Wire.WVal × Wire.WVal)) → List (String × (Wire.WVal × Wire.WVal))
  | [] => [x]
  | y :: r => if x.1 ≤ y.1 then x :: y :: r else y :: ins x r

/-- envelope kept, body struct re-encoded with map entries sorted by encoded key (refcodec.Canon) -/
def canonMsg (bs : Bytes) : String :=
  if bs.isEmpty then "-" else
  match decMsg false bs with
  | some (name, ty, seq, body) =>
    (match Wire.decW (body.length + 1) .struct body with
     | some (w, []) => VL.hexEncode (encMsg name ty seq ++ Wire.encW (canonW w))
     | _ => "raw:" ++ VL.hexEncode bs)
  | none => "raw:" ++ VL.hexEncode bs

/-- every IDL function with its streaming mode ("-" = none); the model applies the backend's filter -/
def parseFns : Nat → P (List Fn)
  | 0, r => some ([], r)
  | n+1, nm :: a :: res :: ow :: vd :: nt :: md :: r => do
      let name ← VL.hexDecode nm
      let ai ← a.toNat?
      let ri := (res.toNat?).getD 0
      let k ← nt.toNat?
      let (ms, r) ← parseFns n r
      some ({ m := { name := name, args := ai, result := ri, oneway := ow == "1", void := vd == "1", nthrows := k },
              mode := if md == "-" then none else some md } :: ms, r)
  | _, _ => none

def parseAnswer : P Answer
  | "ok" :: r => do let (v, r) ← parseVal r; some (.ok v, r)
  | "exc" :: i :: r => do let k ← i.toNat?; let (v, r) ← parseVal r; some (.exc k v, r)
  | "err" :: m :: r => do let b ← VL.hexDecode m; some (.err b, r)
  | _ => none

def seqPat (s : String) : Option Nat := (s.toInt?).map (pat 32)

def findMethod (svc : Service) (name : Bytes) : Option Method := svc.methods.find? (·.name == name)

def throwTy (P : Prog) (m : Method) (i : Nat) : Ty :=
  match P.struct? m.result with
  | some sd => ((sd.fields.drop ((if m.void then 0 else 1) + i)).head?.map (·.ty)).getD (.struct 0)
  | none => .struct 0

def showOutcome (P : Prog) (m : Method) : Outcome → String
  | .ok v => if m.void then "ok n" else "ok " ++ showVal P ((successTy P m).getD .bool) v
  | .exc i v => s!"exc {i} " ++ showVal P (throwTy P m i) v
  | .app ty msg => s!"app {ty} " ++ VL.hexEncode msg
  | .err => "err"

def showLog (P : Prog) (svc : Service) (log : List (Bytes × List GoVal)) : String :=
  match log with
  | [] => "H-"
  | _ => " ".intercalate (log.map fun (n, a) =>
      match findMethod svc n with
      | some m => "H " ++ VL.hexEncode n ++ " " ++ showVal P (.struct m.args) (.strct a)
      | none => "H?")

def showRest : Option Bytes → String
  | some b => toString b.length
  | none => "*"

def showObs (P : Prog) (svc : Service) (m : Method) (o : CallObs) : String :=
  let req := match o.req with | some b => canonMsg b | none => "-"
  let (lg, rep) := match o.proc with
    | some po => (showLog P svc po.log, canonMsg po.reply)
    | none => ("H-", "-")
  req ++ " " ++ lg ++ " " ++ rep ++ " " ++ showOutcome P m o.outcome

/-- parse `<n>` call specs: method name, args record, scripted answer -/
def parseCalls (svc : Service) : Nat → P (List (Method × List GoVal × Answer))
  | 0, r => some ([], r)
  | n+1, nm :: r => do
      let name ← VL.hexDecode nm
      let m ← findMethod svc name
      let (av, r) ← parseVal r
      let a ← (match av with | .strct fs => some fs | _ => none)
      let (ans, r) ← parseAnswer r
      let (cs, r) ← parseCalls svc n r
      some ((m, a, ans) :: cs, r)
  | _, _ => none

def runShow (P : Prog) (svc : Service) : List (Method × List GoVal × Answer) → Conn → List String → Conn × List String
  | [], c, acc => (c, acc.reverse)
  | (m, a, ans) :: r, c, acc =>
    let (c', o) := call P svc m (fun _ _ => ans) a c
    runShow P svc r c' (showObs P svc m o :: acc)

def withSvc (s : St) (key : String) (f : Prog → Service → String) : String :=
  match splitKey key with
  | some (u, i) =>
    match s.progs.get u, buildSvc (s.tab u) 64 i with
    | some P, some svc => f P svc
    | _, _ => "bad-op"
  | none => "bad-op"

def step (s : St) (line : String) : St × String :=
  let toks := VL.toks line
  match schemaLine s.progs toks with
  | some (ps, out) => ({ s with progs := ps }, out)
  | none =>
    match toks with
    | "V" :: u :: si :: base :: n :: rest =>
      (match si.toNat?, n.toNat?, s.progs.get u with
       | some i, some k, some P =>
         (match parseFns k rest with
          | some (fns, []) =>
            let ms := keptMethods fns
            if ms.all (methodOkB P) then
              let tab := s.tab u ++ [(i, (base.toNat?, ms))]
              ({ s with svcs := (u, tab) :: s.svcs.filter (·.1 != u) }, "ok")
            else (s, "bad-service")
          | _ => (s, "bad-op"))
       | _, _, _ => (s, "bad-op"))
    | "CALL" :: key :: _ctor :: seq0 :: n :: rest =>
      (s, withSvc s key fun P svc =>
        match seqPat seq0, n.toNat? with
        | some q, some k =>
          (match parseCalls svc k rest with
           | some (cs, []) =>
             let (c, outs) := runShow P svc cs (Conn.fresh q) []
             " | ".intercalate outs ++ " ; " ++ showRest c.c2s ++ " " ++ showRest c.s2c
           | _ => "bad-op")
        | _, _ => "bad-op")
    | "INJ" :: key :: hex :: rest =>
      (s, withSvc s key fun P svc =>
        match VL.hexDecode hex, parseAnswer rest with
        | some bs, some (ans, []) =>
          let po := process P svc (fun _ _ => ans) bs
          VL.boolStr po.success ++ " " ++ VL.boolStr po.failed ++ " " ++ showLog P svc po.log ++ " " ++
            canonMsg po.reply ++ " " ++ showRest po.rest
        | _, _ => "bad-op")
    | "RECV" :: key :: _ctor :: seq0 :: nm :: rest =>
      (s, withSvc s key fun P svc =>
        match seqPat seq0, VL.hexDecode nm with
        | some q, some name =>
          (match findMethod svc name, parseVal rest with
           | some m, some (.strct a, [hex]) =>
             (match VL.hexDecode hex with
              | some reply =>
                (match clientSend P q m a with
                 | (seq', .ok req) =>
                   if m.oneway then canonMsg req ++ " ok n " ++ toString reply.length
                   else
                     let (o, rest) := clientRecv P seq' m reply
                     canonMsg req ++ " " ++ showOutcome P m o ++ " " ++ showRest rest
                 | _ => "- err *")
              | none => "bad-op")
           | _, _ => "bad-op")
        | _, _ => "bad-op")
    | _ => (s, "bad-op")

end Driver.C08

def main : IO Unit := Driver.stateLoop ({} : Driver.C08.St) Driver.C08.step
