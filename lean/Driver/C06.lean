import Driver.GenVL
import ThriftVerif.Gen.Defaults
/- model driver for C06: constants, defaults, getters (docs/C06.md has the line grammar) -/
namespace Driver.C06
open Gen Gen.Defaults Driver.GenVL

/-! ### parsing -/

def catOf : String → Option Cat
  | "b" => some .bool | "y" => some .i8 | "h" => some .i16 | "i" => some .i32 | "l" => some .i64
  | "d" => some .dbl | "s" => some .str | "B" => some .bin | "e" => some .enum
  | "L" => some .list | "T" => some .set | "M" => some .map | "S" => some .strct
  | _ => none

partial def parseATy : P ATy
  | "N" :: c :: ref :: nm :: r => do
      let cat ← catOf c
      let name ← VL.hexDecode nm
      let rf ← (if ref == "-" then some none else ref.toNat?.map some)
      some (.named cat rf name, r)
  | "L" :: r => do let (e, r) ← parseATy r; some (.list e, r)
  | "T" :: r => do let (e, r) ← parseATy r; some (.set e, r)
  | "M" :: r => do let (k, r) ← parseATy r; let (v, r) ← parseATy r; some (.map k v, r)
  | c :: r => do
      let cat ← catOf c
      if cat.isBase then some (.base cat, r) else none
  | [] => none

def parseExtra (t : String) : Option (Option Extra) :=
  if t == "-" then some none else
  match t.splitOn ":" with
  | [e, idx, nm, sel] => do
      let name ← VL.hexDecode nm
      let s ← VL.hexDecode sel
      let i ← (if idx == "-" then some none else idx.toNat?.map some)
      some (some { isEnum := e == "E1", index := i, name := name, sel := s })
  | _ => none

def pairCV : List CV → List (CV × CV)
  | k :: v :: r => (k, v) :: pairCV r
  | _ => []

mutual
partial def parseCV : P CV
  | "V" :: idt :: ex :: r => do
      let s ← VL.hexDecode idt
      let x ← parseExtra ex
      some (.ident s x, r)
  | "L" :: n :: r => do let k ← n.toNat?; let (xs, r) ← parseCVs k r; some (.list xs, r)
  | "M" :: n :: r => do let k ← n.toNat?; let (xs, r) ← parseCVs (2 * k) r; some (.map (pairCV xs), r)
  | t :: r =>
      match t.toList with
      | 'I' :: ds => do let v ← (String.ofList ds).toInt?; some (.int v, r)
      | 'D' :: ds =>
          match (String.ofList ds).splitOn ":" with
          | [b, tx] => do
              let bits ← hexNat b
              let txt ← VL.hexDecode tx
              some (.dbl bits txt, r)
          | _ => none
      | 'X' :: ds => do let b ← VL.hexDecode (String.ofList ds); some (.lit b, r)
      | _ => none
  | [] => none
partial def parseCVs : Nat → P (List CV)
  | 0, r => some ([], r)
  | n+1, r => do let (x, r) ← parseCV r; let (xs, r) ← parseCVs n r; some (x :: xs, r)
end

/-! ### state -/

structure Names where
  globals : List (Nat × Name × Bytes) := []            -- (file, IDL name) ↦ Go name
  enumVals : List (Nat × Name × Name × Bytes) := []    -- (file, enum, value) ↦ Go name
  fields : List (Nat × Name × Nat × Bytes) := []       -- (file, struct, field index) ↦ Go field name
  quals : List (Nat × Nat × Bytes) := []               -- (root file, file) ↦ package qualifier
  deriving Inhabited

structure Unit where
  env : Env := { files := [] }
  names : Names := {}
  sidx : List (Nat × Nat × Name) := []                 -- schema index ↦ (file, struct name)
  deriving Inhabited

structure St where
  progs : Progs := []
  units : List (String × Unit) := []
  deriving Inhabited

def St.unit (s : St) (u : String) : Unit := ((s.units.find? (·.1 == u)).map (·.2)).getD {}

def St.setUnit (s : St) (u : String) (x : Unit) : St :=
  if s.units.any (·.1 == u) then { s with units := s.units.map fun (k, v) => if k == u then (k, x) else (k, v) }
  else { s with units := (u, x) :: s.units }

def updFile (E : Env) (i : Nat) (f : FileEnv → FileEnv) : Env :=
  { E with files := (E.files.zipIdx).map fun (fe, k) => if k == i then f fe else fe }

partial def parseIncs : Nat → P (List (Nat × Bool))
  | 0, r => some ([], r)
  | n+1, t :: r =>
      match t.splitOn ":" with
      | [a, b] => do
          let k ← a.toNat?
          let (xs, r) ← parseIncs n r
          some ((k, b == "1") :: xs, r)
      | _ => none
  | _, _ => none

partial def parseNames : Nat → P (List Name)
  | 0, r => some ([], r)
  | n+1, t :: r => do let b ← VL.hexDecode t; let (xs, r) ← parseNames n r; some (b :: xs, r)
  | _, _ => none

partial def parseEnumVals : Nat → P (List (Name × Int))
  | 0, r => some ([], r)
  | n+1, a :: b :: r => do
      let nm ← VL.hexDecode a
      let v ← b.toInt?
      let (xs, r) ← parseEnumVals n r
      some ((nm, v) :: xs, r)
  | _, _ => none

partial def parseAFields : Nat → P (List AField)
  | 0, r => some ([], r)
  | n+1, a :: rq :: r => do
      let nm ← VL.hexDecode a
      let req ← parseReq rq
      let (ty, r) ← parseATy r
      let (xs, r) ← parseAFields n r
      some ({ name := nm, req := req, ty := ty, dflt := none } :: xs, r)
  | _, _ => none

def envLine (s : St) (toks : List String) : Option (St × String) :=
  match toks with
  | ["CP", u, nf, vt] => do
      let n ← nf.toNat?
      let x : Unit := { env := { files := List.replicate n { ns := 0, includes := [] }, vtic := vt == "1" } }
      some (s.setUnit u x, "ok")
  | "CF" :: u :: fi :: ns :: ninc :: rest => do
      let i ← fi.toNat?
      let nsv ← ns.toNat?
      let k ← ninc.toNat?
      let (incs, rest) ← parseIncs k rest
      match rest with
      | no :: rest => do
          let m ← no.toNat?
          let (others, rest) ← parseNames m rest
          if rest != [] then none else
          let x := s.unit u
          some (s.setUnit u { x with env := updFile x.env i fun fe => { fe with ns := nsv, includes := incs, others := others } }, "ok")
      | _ => none
  | "CE" :: u :: fi :: nm :: n :: rest => do
      let i ← fi.toNat?
      let name ← VL.hexDecode nm
      let k ← n.toNat?
      let (vals, rest) ← parseEnumVals k rest
      if rest != [] then none else
      let x := s.unit u
      some (s.setUnit u { x with env := updFile x.env i fun fe => { fe with enums := fe.enums ++ [{ name := name, values := vals }] } }, "ok")
  | "CT" :: u :: fi :: nm :: rest => do
      let i ← fi.toNat?
      let name ← VL.hexDecode nm
      let (ty, rest) ← parseATy rest
      if rest != [] then none else
      let x := s.unit u
      some (s.setUnit u { x with env := updFile x.env i fun fe => { fe with typedefs := fe.typedefs ++ [{ name := name, ty := ty }] } }, "ok")
  | "CS" :: u :: fi :: nm :: sx :: n :: rest => do
      let i ← fi.toNat?
      let name ← VL.hexDecode nm
      let k ← n.toNat?
      let (fs, rest) ← parseAFields k rest
      if rest != [] then none else
      let x := s.unit u
      let sidx := match sx.toNat? with
        | some j => x.sidx ++ [(j, i, name)]
        | none => x.sidx
      some (s.setUnit u { x with sidx := sidx, env := updFile x.env i fun fe => { fe with structs := fe.structs ++ [{ name := name, fields := fs }] } }, "ok")
  | "CD" :: u :: fi :: nm :: fx :: rest => do
      let i ← fi.toNat?
      let name ← VL.hexDecode nm
      let j ← fx.toNat?
      let (cv, rest) ← parseCV rest
      if rest != [] then none else
      let x := s.unit u
      some (s.setUnit u { x with env := updFile x.env i fun fe => { fe with structs := fe.structs.map fun st =>
        if st.name == name then { st with fields := (st.fields.zipIdx).map fun (f, k) => if k == j then { f with dflt := some cv } else f } else st } }, "ok")
  | "CC" :: u :: fi :: nm :: rest => do
      let i ← fi.toNat?
      let name ← VL.hexDecode nm
      let (ty, rest) ← parseATy rest
      let (cv, rest) ← parseCV rest
      if rest != [] then none else
      let x := s.unit u
      some (s.setUnit u { x with env := updFile x.env i fun fe => { fe with consts := fe.consts ++ [{ name := name, ty := ty, val := cv }] } }, "ok")
  | ["GN", u, fi, nm, gn] => do
      let i ← fi.toNat?
      let name ← VL.hexDecode nm
      let g ← VL.hexDecode gn
      let x := s.unit u
      some (s.setUnit u { x with names := { x.names with globals := (i, name, g) :: x.names.globals } }, "ok")
  | ["GV", u, fi, en, vn, gn] => do
      let i ← fi.toNat?
      let e ← VL.hexDecode en
      let v ← VL.hexDecode vn
      let g ← VL.hexDecode gn
      let x := s.unit u
      some (s.setUnit u { x with names := { x.names with enumVals := (i, e, v, g) :: x.names.enumVals } }, "ok")
  | ["GF", u, fi, sn, fx, gn] => do
      let i ← fi.toNat?
      let sname ← VL.hexDecode sn
      let j ← fx.toNat?
      let g ← VL.hexDecode gn
      let x := s.unit u
      some (s.setUnit u { x with names := { x.names with fields := (i, sname, j, g) :: x.names.fields } }, "ok")
  | ["GQ", u, ri, fi, q] => do
      let r ← ri.toNat?
      let i ← fi.toNat?
      let g ← VL.hexDecode q
      let x := s.unit u
      some (s.setUnit u { x with names := { x.names with quals := (r, i, g) :: x.names.quals } }, "ok")
  | _ => none

/-! ### printing Go text (whitespace-free, as bytes: string literals may hold any byte) -/

def a (s : String) : Bytes := s.toUTF8.toList.map (·.toNat)

def Names.global (n : Names) (f : Nat) (nm : Name) : Bytes :=
  match n.globals.find? (fun (x, b, _) => x == f && b == nm) with
  | some (_, _, g) => g
  | none => a "?" ++ nm

def Names.enumVal (n : Names) (f : Nat) (en v : Name) : Bytes :=
  match n.enumVals.find? (fun (x, b, c, _) => x == f && b == en && c == v) with
  | some (_, _, _, g) => g
  | none => a "?" ++ en ++ a "." ++ v

def Names.field (n : Names) (f : Nat) (sn : Name) (i : Nat) : Bytes :=
  match n.fields.find? (fun (x, b, c, _) => x == f && b == sn && c == i) with
  | some (_, _, _, g) => g
  | none => a s!"?{i}"

def Names.qual (n : Names) (root f : Nat) : Bytes :=
  match n.quals.find? (fun (x, b, _) => x == root && b == f) with
  | some (_, _, g) => g ++ a "."
  | none => a "?."

def baseName : Cat → String
  | .bool => "bool" | .i8 => "int8" | .i16 => "int16" | .i32 => "int32" | .i64 => "int64"
  | .dbl => "float64" | .str => "string" | .bin => "[]byte" | _ => "?"

def showTy (n : Names) (root : Nat) : GoTy → Bytes
  | .base c => a (baseName c)
  | .named f nm q => (if q then n.qual root f else []) ++ n.global f nm
  | .slice p e => a "[]" ++ (if p then a "*" else []) ++ showTy n root e
  | .map kp k vp v => a "map[" ++ (if kp then a "*" else []) ++ showTy n root k ++ a "]" ++ (if vp then a "*" else []) ++ showTy n root v
  | .bad => []

/-- elements of a composite literal; the optional trailing comma is not printed (the harness drops it too) -/
def commaSep : List Bytes → Bytes
  | [] => []
  | [x] => x
  | x :: r => x ++ [44] ++ commaSep r

partial def showExpr (E : Env) (n : Names) (root : Nat) : GoExpr → Bytes
  | .boolLit b => a (if b then "true" else "false")
  | .intLit k => a (toString k)
  | .floatOfInt k => a (toString k ++ ".0")
  | .floatLit _ txt => txt
  | .strLit raw => raw
  | .ident (.global f nm) => (if qual E root f then n.qual root f else []) ++ n.global f nm
  | .ident (.enumVal f en v) => (if qual E root f then n.qual root f else []) ++ n.enumVal f en v
  | .conv ty _ e => showTy n root ty ++ a "(" ++ showExpr E n root e ++ a ")"
  | .bytesConv e => a "[]byte(" ++ showExpr E n root e ++ a ")"
  | .sliceLit ty es => showTy n root ty ++ a "{" ++ commaSep (es.map fun e => showExpr E n root e) ++ a "}"
  | .mapLit ty kvs => showTy n root ty ++ a "{" ++ commaSep (kvs.map fun (k, v) => showExpr E n root k ++ a ":" ++ showExpr E n root v) ++ a "}"
  | .structLit ty file sn ents => a "&" ++ showTy n root ty ++ a "{" ++
      commaSep (ents.map fun (i, e) => n.field file sn i ++ a ":" ++ showExpr E n root e) ++ a "}"
  | .addr e => a "&" ++ showExpr E n root e
  | .ptrTrick ty e => a "(&struct{x" ++ showTy n root ty ++ a "}{" ++ showExpr E n root e ++ a "}).x"
  | .unamp e => (showExpr E n root e).drop 1
  | .star e => a "*" ++ showExpr E n root e
  | .strConv e => a "string(" ++ showExpr E n root e ++ a ")"

def textOut (b : Bytes) : String := VL.hexEncode b

/-! ### ops -/

def constFuel (E : Env) : Nat := (E.files.map (·.consts.length)).sum + 1

def resTag {α} : Res α → String
  | .ok _ => "accept" | .err => "reject" | .panic => "panic"

/-- parser.Thrift.DepthFirstSearch: includes first (all of them, used or not), every file once -/
partial def dfsOrder (E : Env) (f : Nat) (seen : List Nat) : List Nat × List Nat :=
  if seen.contains f then ([], seen) else
  match E.file? f with
  | none => ([], seen)
  | some fe =>
    let (out, seen) := fe.includes.foldl (fun (acc : List Nat × List Nat) (inc : Nat × Bool) =>
      let (o, s) := dfsOrder E inc.1 acc.2
      (acc.1 ++ o, s)) ([], f :: seen)
    (out ++ [f], seen)

/-- thriftgo's verdict on the unit: files in depth-first order; per file the defaults of struct, union and
    exception fields, then the constants (Scope.resolveTypesAndValues); the first initialiser that does not
    resolve decides: an error ends the process (`reject`), a Go panic is recovered and reported (`panic`) -/
def unitVerdict (E : Env) : String :=
  let order := (dfsOrder E 0 []).1
  let all := order.flatMap fun i =>
    match E.file? i with
    | none => []
    | some fe =>
      let ds := fe.structs.flatMap fun st => st.fields.filterMap fun f =>
        match f.dflt with
        | some d => some (resTag (resolveConst E i i i f.ty d))
        | none => none
      let cs := fe.consts.map fun c => resTag (resolveConst E i i i c.ty c.val)
      ds ++ cs
  match all.find? (· != "accept") with
  | some v => v
  | none => "accept"

/-- number of initialisers of the unit outside the hypothesis `good` of const_value -/
def notGood (E : Env) : Nat :=
  ((E.files.zipIdx).map fun (fe, i) =>
    let ds := fe.structs.flatMap fun st => st.fields.filterMap fun f =>
      match f.dflt with
      | some d => some (good E i f.ty d)
      | none => none
    let cs := fe.consts.map fun c => good E i c.ty c.val
    ((ds ++ cs).filter (· == false)).length).sum

def withDefaults (x : Unit) (P : Prog) (sidx : Nat) (sd : StructDef) : StructDef :=
  match x.sidx.find? (·.1 == sidx) with
  | some (_, file, name) =>
      match x.env.findStruct file name with
      | some st => if st.fields.length == sd.fields.length then structDefOf x.env (constFuel x.env) file st sd else sd
      | none => sd
  | none => let _ := P; sd

/-- the schema with the model's defaults in place of the generator's -/
def progOf (x : Unit) (P : Prog) : Prog :=
  { P with structs := (P.structs.zipIdx).map fun (sd, i) => withDefaults x P i sd }

def showOpt (P : Prog) (ty : Ty) : Option GoVal → String
  | some v => "ok " ++ showVal P ty v
  | none => "none"

partial def showGetters (P : Prog) : List FieldDef → List GoVal → String
  | f :: fs, v :: vs =>
      " " ++ showVal P f.ty (getter f v) ++ " " ++ (if supportIsSet f then VL.boolStr (Std.isSet f v) else "-") ++ showGetters P fs vs
  | _, _ => ""

def step (s : St) (line : String) : St × String :=
  let toks := VL.toks line
  match schemaLine s.progs toks with
  | some (ps, out) => ({ s with progs := ps }, out)
  | none =>
    match envLine s toks with
    | some r => r
    | none =>
      match toks with
      | "K" :: u :: fi :: nm :: rest =>
          match fi.toNat?, VL.hexDecode nm, parseTy rest, s.progs.get u with
          | some f, some name, some (ty, []), some P =>
              let x := s.unit u
              (s, showOpt (progOf x P) ty (goEnvOf x.env (constFuel x.env) f name))
          | _, _, _, _ => (s, "bad-op")
      | "KI" :: u :: fi :: nm :: rest =>
          match fi.toNat?, VL.hexDecode nm, parseTy rest, s.progs.get u with
          | some f, some name, some (ty, []), some P =>
              let x := s.unit u
              (s, showOpt (progOf x P) ty (idlEnvOf x.env (constFuel x.env) f name))
          | _, _, _, _ => (s, "bad-op")
      | ["KT", u, fi, nm] =>
          match fi.toNat?, VL.hexDecode nm with
          | some f, some name =>
              let x := s.unit u
              match x.env.findConst f name with
              | some c => match resolveConst x.env f f f c.ty c.val with
                | .ok e => (s, "ok " ++ textOut (showExpr x.env x.names f e))
                | .err => (s, "reject")
                | .panic => (s, "panic")
              | none => (s, "bad-op")
          | _, _ => (s, "bad-op")
      | ["DT", u, fi, sn, fx] =>
          match fi.toNat?, VL.hexDecode sn, fx.toNat? with
          | some f, some sname, some j =>
              let x := s.unit u
              match (x.env.findStruct f sname).bind (·.fields[j]?) with
              | some fd => match fd.dflt with
                | some d => match resolveConst x.env f f f fd.ty d with
                  | .ok e => (s, "ok " ++ textOut (showExpr x.env x.names f e))
                  | .err => (s, "reject")
                  | .panic => (s, "panic")
                | none => (s, "bad-op")
              | none => (s, "bad-op")
          | _, _, _ => (s, "bad-op")
      | ["Q", u] => (s, unitVerdict (s.unit u).env)
      | ["H", u] => (s, s!"ok {notGood (s.unit u).env}")
      | ["N", key] | ["Z", key] =>
          match splitKey key with
          | some (u, i) => match s.progs.get u with
            | some P =>
                let P' := progOf (s.unit u) P
                match P'.struct? i with
                | some sd =>
                    if toks.head? == some "N" then (s, "ok " ++ showVal P' (.struct i) (newX sd))
                    else (s, "ok " ++ showVal P' (.struct i) (initDefault sd (zeroStruct sd)))
                | none => (s, "bad-op")
            | none => (s, "bad-op")
          | none => (s, "bad-op")
      | "G" :: key :: rest =>
          match splitKey key with
          | some (u, i) => match s.progs.get u, parseVal rest with
            | some P, some (.strct vs, []) =>
                let P' := progOf (s.unit u) P
                match P'.struct? i with
                | some sd => (s, "ok" ++ showGetters P' sd.fields vs)
                | none => (s, "bad-op")
            | _, _ => (s, "bad-op")
          | none => (s, "bad-op")
      | "A" :: key :: rest =>
          match splitKey key with
          | some (u, i) => match s.progs.get u, parseVal rest with
            | some P, some (.strct vs, []) =>
                let P' := progOf (s.unit u) P
                match P'.struct? i with
                | some sd => (s, "ok " ++ showVal P' (.struct i) (initDefault sd (zeroStruct sd)) ++ " | ok" ++ showGetters P' sd.fields vs)
                | none => (s, "bad-op")
            | _, _ => (s, "bad-op")
          | none => (s, "bad-op")
      | ["U", hx] =>
          match VL.hexDecode hx with
          | some raw => (s, match goUnquote raw with
              | some b => "ok " ++ VL.hexEncode b
              | none => "none")
          | none => (s, "bad-op")
      | ["UI", hx] =>
          match VL.hexDecode hx with
          | some raw => (s, match interp raw with
              | some b => "ok " ++ VL.hexEncode b
              | none => "none")
          | none => (s, "bad-op")
      | _ => (s, "bad-op")

end Driver.C06

def main : IO Unit := Driver.stateLoop ({} : Driver.C06.St) Driver.C06.step
