import Driver.Common
import ThriftVerif.Lib.Diag
import ThriftVerif.Generated.C04

/-
  tv_c04: runs the Diag model on programs serialised by harness/cmd/c04.
    S <program>            → staged verdict of circle / CheckAll / ResolveSymbols
    R <6 env bits> <program> → outcome class of `run`
  program := <nfiles> <root> file*           (see harness/cmd/c04/encode.go)
-/
namespace Driver.C04
open Diag

abbrev P := StateT (List String) Option

def tok : P String := do
  match (← get) with
  | [] => failure
  | t :: r => set r; pure t

def nat : P Nat := do
  let t ← tok
  match t.toNat? with
  | some n => pure n
  | none => failure

def int : P Int := do
  let t ← tok
  match t.toInt? with
  | some n => pure n
  | none => failure

def name : P Name := do
  let t ← tok
  match VL.hexDecode t with
  | some b => pure b
  | none => failure

def bool : P Bool := do
  let t ← tok
  pure (t == "1")

def many {α : Type} (x : P α) : P (List α) := do
  let n ← nat
  let rec go : Nat → List α → P (List α)
    | 0, acc => pure acc.reverse
    | k + 1, acc => do
      let a ← x
      go k (a :: acc)
  go n []

partial def ty : P Ty := do
  let t ← tok
  match t with
  | "b" => pure .base
  | "l" => do let v ← ty; pure (.list v)
  | "m" => do let k ← ty; let v ← ty; pure (.map k v)
  | "r" => do let n ← name; pure (.ref n)
  | _ => failure

def field : P Field := do
  let id ← int
  let n ← name
  let t ← ty
  let hd ← bool
  let ids ← many name
  pure ⟨id, n, t, hd, ids⟩

def structLike : P StructLike := do
  let n ← name
  let fs ← many field
  pure ⟨n, fs⟩

def enumDef : P EnumDef := do
  let n ← name
  let vs ← many (do let vn ← name; let v ← int; pure (vn, v))
  pure ⟨n, vs⟩

def func : P Func := do
  let n ← name
  let ow ← bool
  let vd ← bool
  let r ← ty
  let args ← many field
  let thr ← many field
  pure ⟨n, ow, vd, r, args, thr⟩

def service : P Service := do
  let n ← name
  let e ← name
  let fs ← many func
  pure ⟨n, e, fs⟩

def file : P File := do
  let t ← tok
  if t != "F" then failure
  let fnm ← name
  let incs ← many (do let p ← name; let r ← nat; pure (⟨p, r⟩ : Include))
  let tds ← many (do let a ← name; let t ← ty; pure (⟨a, t⟩ : Typedef))
  let cs ← many (do let n ← name; let t ← ty; let ids ← many name; pure (⟨n, t, ids⟩ : Const))
  let es ← many enumDef
  let ss ← many structLike
  let us ← many structLike
  let xs ← many structLike
  let svs ← many service
  pure ⟨fnm, incs, tds, cs, es, ss, us, xs, svs⟩

def program : P Program := do
  let n ← nat
  let root ← nat
  let rec go : Nat → List File → P (List File)
    | 0, acc => pure acc.reverse
    | k + 1, acc => do
      let f ← file
      go k (f :: acc)
  let fs ← go n []
  pure ⟨fs, root⟩

def fnName : CheckFn → String
  | .globals => "CheckGlobals" | .enums => "CheckEnums" | .structLikes => "CheckStructLikes"
  | .unions => "CheckUnions" | .functions => "CheckFunctions"

def cfg : Cfg := Generated.C04.cfg

def staged (p : Program) : String :=
  if !wfb p then "not-wf" else
  match circleDetect p with
  | none => "crash"
  | some true => "circle"
  | some false =>
    match checkAll cfg p with
    | .exhausted => "crash"
    | .err i _ _ =>
      let fns := match p.files[i]? with
        | some f => ([CheckFn.globals, .enums, .structLikes, .unions, .functions].filter fun c => (runCheck cfg c f).isSome).map fnName
        | none => []
      s!"check {i} {",".intercalate fns}"
    | .ok =>
      match resolveAll cfg p with
      | .crash => "crash"
      | .err i _ => s!"resolve {i}"
      | .ok => "ok"

def outcomeStr : Outcome → String
  | .ok => "ok" | .reject _ => "reject" | .crash => "crash" | .exit0NoOutput => "exit0_without_output"

def handleLine (line : String) : String :=
  match VL.toks line with
  | "S" :: rest =>
    match program.run rest with
    | some (p, []) => staged p
    | _ => "bad-op"
  | "D" :: rest =>
    match program.run rest with
    | some (p, []) =>
      let tables := programTables p
      let per := (List.range p.files.length).map fun i => s!"{i}:{repr (resolveFile cfg p tables i)}:{repr (checkAt cfg p i)}"
      s!"order={repr (dfsOrder p)} circle={repr (circleDetect p)} " ++ " ".intercalate per
    | _ => "bad-op"
  | "R" :: f1 :: f2 :: f3 :: f4 :: f5 :: f6 :: rest =>
    match program.run rest with
    | some (p, []) =>
      let env : Env := ⟨f1 == "1", f2 == "1", f3 == "1", f4 == "1", f5 == "1", f6 == "1"⟩
      let r := run cfg env p
      outcomeStr r.outcome ++ (if r.persisted then " persisted" else " nothing-written")
    | _ => "bad-op"
  | _ => "bad-op"

end Driver.C04

def main : IO Unit := Driver.lineLoop Driver.C04.handleLine
