import Driver.GenVL
import ThriftVerif.Gen.Unknown
/- model driver for C09: (a) the `unknown` package alone (`UA`, `UW`), (b) hops between generated programs -/
namespace Driver.C09
open Gen Gen.Unknown Driver.GenVL

/-- canonical bytes of a wire value: map entries sorted by encoded key (what refcodec.Canon does) -/
partial def canonW : Wire.WVal → Wire.WVal
  | .struct fs => .struct (fs.map fun (i, v) => (i, canonW v))
  | .list t xs => .list t (xs.map canonW)
  | .set t xs => .set t (xs.map canonW)
  | .map k v kvs =>
      let es := kvs.map fun (a, b) => (canonW a, canonW b)
      let keyed := es.map fun (a, b) => (VL.hexEncode (Wire.encW a), (a, b))
      let sorted := keyed.foldr (fun x acc => ins x acc) []
      .map k v (sorted.map (·.2))
  | w => w
where ins (x : String × (Wire.WVal × Wire.WVal)) : List (String × (Wire.WVal × Wire.WVal)) → List (String × (Wire.WVal × Wire.WVal))
  | [] => [x]
  | y :: r => if x.1 ≤ y.1 then x :: y :: r else y :: ins x r

/-- canonical form of the bytes of one struct (as the harness canonicalises the implementation's answer) -/
def canonBytes (bs : Bytes) : String :=
  match Wire.decW 300 .struct bs with
  | some (w, []) => VL.hexEncode (Wire.encW (canonW w))
  | _ => "malformed:" ++ VL.hexEncode bs

def wrStr : WR → String
  | .ok _ out => "ok " ++ VL.hexEncode out
  | .err => "err"
  | .panic => "panic"
  | .crash => "crash"

def step (ps : Progs) (line : String) : Progs × String :=
  let toks := VL.toks line
  match schemaLine ps toks with
  | some r => r
  | none =>
    match toks with
    | ["UA", hex] =>
      match VL.hexDecode hex with
      | some bs =>
        let r := appendLoop (bs.length + 1) (St.fresh bs) []
        (ps, (if r.err then "err " else "ok ") ++ VL.hexEncode r.out ++ s!" {r.st.inp.length} w:" ++ wrStr (writeR r.out))
      | none => (ps, "bad-op")
    | ["UW", hex] =>
      match VL.hexDecode hex with
      | some bs => (ps, wrStr (writeR bs))
      | none => (ps, "bad-op")
    | "W" :: key :: rest =>
      match splitKey key with
      | some (u, i) => match ps.get u, parseVal rest with
        | some P, some (v, []) =>
            (ps, match Std.toW P (.struct i) v with
              | .ok w => "ok " ++ VL.hexEncode (Wire.encW (canonW w))
              | .err => "err" | .panic => "panic")
        | _, _ => (ps, "bad-op")
      | none => (ps, "bad-op")
    | ["R", key, hex] =>
      match splitKey key with
      | some (u, i) => match ps.get u, VL.hexDecode hex with
        | some P, some bs =>
            if P.keepUnknown then
              (ps, match readKU P i bs with
                | some v => "ok " ++ showVal P (.struct i) (strip P.structs (.struct i) v)
                | none => "err")
            else
              (ps, match Std.read P i bs with
                | some v => "ok " ++ showVal P (.struct i) v
                | none => "err")
        | _, _ => (ps, "bad-op")
      | none => (ps, "bad-op")
    | ["H", key, hex] =>
      match splitKey key with
      | some (u, i) => match ps.get u, VL.hexDecode hex with
        | some P, some bs =>
            if P.keepUnknown then
              (ps, match readKU P i bs with
                | none => "rerr"
                | some v => match writeKU P i v with
                  | .ok out => "ok " ++ canonBytes out ++ (if carryingObj v then " c=1" else " c=0")
                  | .err => "werr" ++ (if carryingObj v then " c=1" else " c=0")
                  | .panic => "panic")
            else
              (ps, match Std.read P i bs with
                | none => "rerr"
                | some v => match Std.write P i v with
                  | .ok out => "ok " ++ canonBytes out ++ " c=-"
                  | .err => "werr c=-"
                  | .panic => "panic")
        | _, _ => (ps, "bad-op")
      | none => (ps, "bad-op")
    | _ => (ps, "bad-op")

end Driver.C09

def main : IO Unit := Driver.stateLoop ([] : Driver.GenVL.Progs) Driver.C09.step
