import Driver.GenVL
import ThriftVerif.Gen.Mask
import ThriftVerif.Generated.C13
import ThriftVerif.Generated.C14
/-
  Model driver for C13 (see harness/cmd/c13/main.go for the line protocol).
    P/S lines                          schema of a unit (docs/BATCH.md §5); options field_mask_halfway / field_mask_zero_required
    D u<i> <n> (<nf> <namehex>*)*      field names of every struct-like (for paths that name fields)
    MW <key> <mask> <nenv> (<pos> <mask>)* <value>    Set_FieldMask on children (env), on the root, then Write
    MR <key> <mask> <hex>                              NewX, Set_FieldMask, Read
    mask = `n` (nil) | <black 0|1> <k> <hexpath>*k     built by the C14 model of fieldmask.NewFieldMask
-/
namespace Driver.C13
open Gen Driver.GenVL
open FieldMask (MaskOpt Sites)

structure Unit where
  opts : Gen.Mask.Opts := {}
  names : List (List Bytes) := []

structure St where
  ps : Progs := []
  us : List (String × Unit) := []

def St.unit (s : St) (u : String) : Unit := ((s.us.find? (·.1 == u)).map (·.2)).getD {}
def St.setUnit (s : St) (u : String) (x : Unit) : St :=
  { s with us := (u, x) :: s.us.filter (·.1 != u) }

def cfg : Sites := Generated.C14.sites
def tpl : Gen.Mask.Tpl := Generated.C13.tpl

def str (s : String) : Bytes := s.toList.map (·.toNat)

/-- descriptor name of struct-like `i`: structs are `S<i>`; unions and exceptions are `U<i>`, which the descriptor
schema does not list among the structs (`IsStruct()` is false for them: switchFt gives Invalid) -/
def sname (P : Prog) (i : Nat) : Bytes :=
  match P.struct? i with
  | some sd => if sd.kind = 0 then str s!"S{i}" else str s!"U{i}"
  | none => str s!"X{i}"

def descTy (P : Prog) : Ty → FieldMask.Ty
  | .bool => .named (str "bool") | .i8 => .named (str "byte") | .i16 => .named (str "i16")
  | .i32 => .named (str "i32") | .i64 => .named (str "i64") | .dbl => .named (str "double")
  | .str => .named (str "string") | .bin => .named (str "binary") | .enum => .named (str "E")
  | .list e => .list (descTy P e) | .set e => .list (descTy P e)
  | .map k v => .map (descTy P k) (descTy P v)
  | .struct i => .named (sname P i)

def descSchema (P : Prog) (names : List (List Bytes)) : FieldMask.Schema :=
  let idx := List.range P.structs.length
  { structs := (idx.zip (P.structs.zip names)).filterMap fun (i, sd, ns) =>
      if sd.kind = 0 then
        some (sname P i, (sd.fields.zip ns).map fun (f, n) => { id := f.id, name := n, ty := descTy P f.ty })
      else none,
    typedefs := [],
    enums := [str "E"] }

inductive MaskR
  | ok (m : MaskOpt)
  | bad (s : String)

/-- parse a mask spec and build the mask with the C14 model -/
def parseMask (sch : FieldMask.Schema) (desc : FieldMask.Ty) : List String → Option (MaskR × List String)
  | "n" :: r => some (.ok .none, r)
  | b :: k :: r => do
      let n ← k.toNat?
      if r.length < n then none else
      let paths ← (r.take n).mapM VL.hexDecode
      let rest := r.drop n
      let black := b == "1"
      match FieldMask.newFieldMask cfg sch desc black paths with
      | .ok m => some (.ok (.some m), rest)
      | .err _ => some (.bad "maskerr", rest)
      | .panic _ => some (.bad "maskpanic", rest)
      | .crash => some (.bad "maskcrash", rest)
  | _ => none

/-- canonical form: map entries sorted by encoded key (the harness sorts the recorded entries alike) -/
partial def canonM : Gen.Mask.MW → Gen.Mask.MW
  | .struct fs => .struct (fs.map fun (i, v) => (i, canonM v))
  | .list t c xs => .list t c (xs.map canonM)
  | .set t c xs => .set t c (xs.map canonM)
  | .map k v c kvs =>
      let es := kvs.map fun (a, b) => (canonM a, canonM b)
      let keyed := es.map fun (a, b) => (VL.hexEncode (Gen.Mask.encM a), (a, b))
      .map k v c ((keyed.foldr ins []).map (·.2))
  | w => w
where
  ins (x : String × (Gen.Mask.MW × Gen.Mask.MW)) : List (String × (Gen.Mask.MW × Gen.Mask.MW)) → List (String × (Gen.Mask.MW × Gen.Mask.MW))
  | [] => [x]
  | y :: r => if x.1 ≤ y.1 then x :: y :: r else y :: ins x r

def parseEnv (P : Prog) (sch : FieldMask.Schema) (sd : StructDef) : Nat → List String → Option (Except String Gen.Mask.Env × List String)
  | 0, r => some (.ok [], r)
  | n + 1, pos :: r => do
      let j ← pos.toNat?
      let f ← sd.fields[j]?
      let (m, r1) ← parseMask sch (descTy P f.ty) r
      let (rest, r2) ← parseEnv P sch sd n r1
      match m, rest with
      | .ok mo, .ok env => some (.ok ((j, mo) :: env), r2)
      | .bad s, _ => some (.error s, r2)
      | _, .error s => some (.error s, r2)
  | _, _ => none

def hexOut (b : Bytes) : String := if b.isEmpty then "-" else VL.hexEncode b

def step (st : St) (line : String) : St × String :=
  let toks := VL.toks line
  match toks with
  | "P" :: u :: _ :: opts =>
      let st := st.setUnit u { opts := { halfway := optOn opts "field_mask_halfway" false, zeroReq := optOn opts "field_mask_zero_required" false } }
      match schemaLine st.ps toks with
      | some (ps', out) => ({ st with ps := ps' }, out)
      | none => (st, "bad-op")
  | "S" :: _ =>
      match schemaLine st.ps toks with
      | some (ps', out) => ({ st with ps := ps' }, out)
      | none => (st, "bad-op")
  | "D" :: u :: n :: rest =>
      let rec go : Nat → List String → Option (List (List Bytes))
        | 0, [] => some []
        | 0, _ => none
        | k + 1, nf :: r => do
            let c ← nf.toNat?
            if r.length < c then none else
            let ns ← (r.take c).mapM VL.hexDecode
            let tl ← go k (r.drop c)
            some (ns :: tl)
        | _, _ => none
      match n.toNat? with
      | some k => match go k rest with
        | some names => (st.setUnit u { st.unit u with names := names }, "ok")
        | none => (st, "bad-op")
      | none => (st, "bad-op")
  | "MW" :: key :: rest =>
      (st, (do
        let (u, i) ← splitKey key
        let P ← st.ps.get u
        let un := st.unit u
        let sch := descSchema P un.names
        let sd ← P.struct? i
        let (m, r1) ← parseMask sch (.named (sname P i)) rest
        match r1 with
        | ne :: r2 =>
          let n ← ne.toNat?
          let (env, r3) ← parseEnv P sch sd n r2
          let (v, r4) ← parseVal r3
          if !r4.isEmpty then none else
          match m, env with
          | .bad s, _ => some s
          | _, .error s => some s
          | .ok fm, .ok env =>
            some (match Gen.Mask.toM P tpl un.opts cfg env fm (.struct i) v with
              | .ok w => "ok " ++ hexOut (Gen.Mask.encM (canonM w))
              | .err => "err"
              | .panic => "panic")
        | [] => none).getD "bad-op")
  | "MR" :: key :: rest =>
      (st, (do
        let (u, i) ← splitKey key
        let P ← st.ps.get u
        let un := st.unit u
        let sch := descSchema P un.names
        let (m, r1) ← parseMask sch (.named (sname P i)) rest
        match r1 with
        | [hex] =>
          let bs ← VL.hexDecode hex
          match m with
          | .bad s => some s
          | .ok fm =>
            some (match Gen.Mask.read P cfg fm i bs with
              | .ok v => "ok " ++ showVal P (.struct i) v
              | .err => "err"
              | .panic => "panic")
        | _ => none).getD "bad-op")
  | _ => (st, "bad-op")

end Driver.C13

def main : IO Unit := Driver.stateLoop ({} : Driver.C13.St) Driver.C13.step
