import Driver.C20

def main (args : List String) : IO UInt32 := do
  match args with
  | ["c20"] => Driver.C20.main; return 0
  | _ => IO.eprintln "usage: tvdriver <suite>"; return 2
