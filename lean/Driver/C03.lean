import Driver.Common
import ThriftVerif.Lib.Walker
import ThriftVerif.Generated.C03Grammar

/-
  tv_c03: one line per op.
    P <flags> <hex bytes>   ->  fail | T<n>:<hash> N<m>:<hash> <walk outcome>
  flags: 1 = also walk (AST dump), 0 = tokens and tree only.
-/
namespace Driver.C03
open Peg Walker

def M : Nat := 1099511627689
@[inline] def mix (h x : Nat) : Nat := (h * 1000003 + x + 1) % M

def tokHash (ts : List Tok) : Nat × Nat :=
  ts.foldl (fun (hc : Nat × Nat) t => (mix (mix (mix hc.1 t.rule) t.b) t.e, hc.2 + 1)) (7, 0)

def treeHash : T → Nat → Nat × Nat → Nat × Nat
  | .nil, _, acc => acc
  | .node r b e up next, d, (h, c) =>
    treeHash next d (treeHash up (d + 1) (mix (mix (mix (mix h d) r) b) e, c + 1))

def hx (b : Bytes) : String := VL.hexEncode b

def annsStr (a : Anns) : String :=
  s!"A{a.length}" ++ String.join (a.map fun (k, vs) => s!" {hx k} L{vs.length}" ++ String.join (vs.map fun v => " " ++ hx v))

def tyStr : Ty → String
  | .none => "_"
  | .mk n k v c a => s!"t {hx n} {tyStr k} {tyStr v} {hx c} {annsStr a}"

partial def cvStr : CV → String
  | .dbl t => "D" ++ hx t
  | .int v => s!"i{v}"
  | .lit s => "l" ++ hx s
  | .ident s => "n" ++ hx s
  | .list xs => s!"[{xs.length}" ++ String.join (xs.map fun x => " " ++ cvStr x)
  | .map kvs => "{" ++ s!"{kvs.length}" ++ String.join (kvs.map fun (k, v) => " " ++ cvStr k ++ " " ++ cvStr v)

def fieldStr (f : Field) : String :=
  let d := match f.dflt with | none => "~" | some v => cvStr v
  s!"f{f.id} {hx f.name} {f.req} {tyStr f.ty} {d} {annsStr f.anns} {hx f.comments}"

def listStr {α} (tag : String) (f : α → String) (l : List α) : String :=
  s!"{tag}{l.length}" ++ String.join (l.map fun x => " " ++ f x)

def slikeStr (s : StructLike) : String :=
  s!"sl {s.category} {hx s.name} {listStr "F" fieldStr s.fields} {annsStr s.anns} {hx s.comments}"

def fnStr (f : Function) : String :=
  s!"fn {hx f.name} {VL.boolStr f.oneway} {VL.boolStr f.void} {tyStr f.ty} {listStr "G" fieldStr f.args} {listStr "W" fieldStr f.throws} {annsStr f.anns} {hx f.comments}"

def thriftStr (t : Thrift) : String :=
  " ".intercalate [
    listStr "I" hx t.includes,
    listStr "P" hx t.cppIncludes,
    listStr "N" (fun (n : Namespace) => s!"{hx n.lang} {hx n.name} {annsStr n.anns}") t.namespaces,
    listStr "T" (fun (d : Typedef) => s!"{tyStr d.ty} {hx d.alias} {annsStr d.anns} {hx d.comments}") t.typedefs,
    listStr "C" (fun (c : Constant) => s!"{hx c.name} {tyStr c.ty} {cvStr c.value} {annsStr c.anns} {hx c.comments}") t.constants,
    listStr "E" (fun (e : Enum) => s!"{hx e.name} " ++
        listStr "V" (fun (v : EnumValue) => s!"{hx v.name} {v.value} {annsStr v.anns} {hx v.comments}") e.values
        ++ s!" {annsStr e.anns} {hx e.comments}") t.enums,
    listStr "S" slikeStr t.structs,
    listStr "U" slikeStr t.unions,
    listStr "X" slikeStr t.exceptions,
    listStr "V" (fun (s : Service) => s!"sv {hx s.name} {hx s.ext} {listStr "F" fnStr s.functions} {annsStr s.anns} {hx s.comments}") t.services]

def handle (flags : String) (bytes : Bytes) : String :=
  let g := Generated.C03.grammar
  let ids := Generated.C03.ids
  let rs := Utf8.decode bytes
  match parseRunes g rs with
  | .oof => "oof"
  | .fail => "fail"
  | .ok _ _ t =>
    let (th, tc) := tokHash (tokens t)
    let pt := prune t
    let (nh, nc) := treeHash pt 0 (7, 0)
    let head := s!"T{tc}:{th} N{nc}:{nh}"
    if flags = "0" then head else
    match walk ids (rs ++ [1114112]).toArray pt with
    | .ok a => head ++ " ok " ++ thriftStr a
    | .err => head ++ " err"
    | .panic => head ++ " panic"
    | .crash => head ++ " crash"

def handleLine (line : String) : String :=
  match VL.toks line with
  | ["P", flags, h] =>
    match VL.hexDecode h with
    | none => "bad-op"
    | some b => handle flags b
  | _ => "bad-op"

end Driver.C03

def main : IO Unit := Driver.lineLoop Driver.C03.handleLine
