import Driver.Common
import Driver.GenVL
import ThriftVerif.Lib.Plugin
import ThriftVerif.Gen.Std
import ThriftVerif.Generated.C11Schema
/-
  tv_c11: runs the C11 model on the harness' op lines.

  mar <sidx> <hexbytes> <VL value>   model `write` vs the implementation's Marshal bytes (up to map order)
  unm <sidx> <hexbytes>              model `read` on the implementation's bytes, printed canonically
  unm <sidx> = <tag>                 the same on the bytes of the preceding `mar` line
  cmp <tree>                         compress, then decompress on the plugin side
  unc <hexbytes>                     UnmarshalRequest: model `read`, then (trailer present) decompress of the AST
  apt <hexdata> <feature>            appendDataTrailer, hasDataTrailerFeature on the result
  has <hexdata> <feature>            hasDataTrailerFeature
  ver <hex>                          supportDataTrailer
  pca <hex>                          ParseCompactArguments + Pack
  exe <run> <decoded> <err> <feedok> <stderr> <nwarn> <ncontents>   executeOutcome
  gen <nlanguages> <nplugins>        plugin executions per Generate call
  gat <env 0|1> <hex version>        the trailer/compression gate of Execute
  par <nlanguages> <nplugins> <hex -p args…>   PluginParameters seen by each execution
-/
namespace Driver.C11
open Wire Gen Gen.Std Plugin Driver.GenVL

def prog : Prog := Generated.C11.prog

/-! canonical form of wire values: map entries sorted by their encoded key -/

def bytesLe : Bytes → Bytes → Bool
  | [], _ => true
  | _ :: _, [] => false
  | a :: x, b :: y => if a < b then true else if b < a then false else bytesLe x y

def insPair (p : Bytes × (WVal × WVal)) : List (Bytes × (WVal × WVal)) → List (Bytes × (WVal × WVal))
  | [] => [p]
  | q :: r => if bytesLe p.1 q.1 then p :: q :: r else q :: insPair p r

mutual
partial def canonW : WVal → WVal
  | .struct fs => .struct (fs.map fun (i, v) => (i, canonW v))
  | .map kt vt kvs =>
      let kvs' := kvs.map fun (k, v) => (canonW k, canonW v)
      let keyed := kvs'.map fun (k, v) => (encW k, (k, v))
      .map kt vt ((keyed.foldr insPair []).map (·.2))
  | .set et xs => .set et (xs.map canonW)
  | .list et xs => .list et (xs.map canonW)
  | w => w
end

def firstDiff : Bytes → Bytes → Nat → Nat
  | a :: x, b :: y, i => if a = b then firstDiff x y (i + 1) else i
  | _, _, i => i

def fnv (s : String) : Nat :=
  s.toList.foldl (fun h c => ((h ^^^ c.toNat) * 1099511628211) % 18446744073709551616) 14695981039346656037

/-- long dumps are compared by length and FNV-1a hash (same rule in the Go harness) -/
def clip (s : String) : String :=
  if s.length ≤ 6000 then s else s!"H{fnv s} {s.length}"

def doMar (sidx : Nat) (impl : Bytes) (v : GoVal) : String :=
  match toW prog (.struct sidx) v with
  | .err => "model-err"
  | .panic => "model-panic"
  | .ok w =>
    match decW (impl.length + 1) .struct impl with
    | none => "impl-bytes-undecodable"
    | some (w', rest) =>
      if !rest.isEmpty then s!"impl-trailing-bytes {rest.length}"
      else if encW w' != impl then "impl-bytes-not-canonical"
      else
        let a := encW (canonW w)
        let b := encW (canonW w')
        if a == b then s!"ok {a.length}"
        else s!"differ at {firstDiff a b 0} model-len {a.length} impl-len {b.length}"

def doUnm (sidx : Nat) (bs : Bytes) : String :=
  match Gen.Std.read prog sidx bs with
  | none => "err"
  | some v => "ok " ++ clip (showVal prog (.struct sidx) v)

/-! trees: `N <hexfn> <nkids> kids…` (payloads are units here; `unc` carries real ones) -/

mutual
partial def parseTree : List String → Option (Tree Unit × List String)
  | "N" :: fn :: n :: r => do
      let f ← VL.hexDecode fn
      let k ← n.toNat?
      let (ks, r) ← parseTrees k r
      some (.node () f () ks, r)
  | _ => none
partial def parseTrees : Nat → List String → Option (List (Tree Unit) × List String)
  | 0, r => some ([], r)
  | n+1, r => do
      let (t, r) ← parseTree r
      let (ts, r) ← parseTrees n r
      some (t :: ts, r)
end

partial def showTree : Tree Unit → String
  | .node _ fn _ ks => s!"N {VL.hexEncode fn} {ks.length}" ++ String.join (ks.map fun k => " " ++ showTree k)

def doCmp (t : Tree Unit) : String :=
  let c := (compress () t).1
  let fuel := t.size + 2
  let d := match decompress fuel none c with
    | .ok t' => "ok " ++ showTree t'
    | .panic => "panic"
    | .fuel => "fuel"
  clip (showTree c) ++ " | " ++ clip d

/-! the AST of a decoded request as an include tree with payloads, and back.
`inc` = the Include record with its Reference blanked, `body` = the Thrift record with its Includes
blanked (the file name is carried by the node). Positions come from the regenerated schema. -/

def setAt (l : List GoVal) (i : Nat) (v : GoVal) : List GoVal := l.set i v

partial def astToTree (inc : GoVal) (thrift : GoVal) : Option (Tree GoVal) :=
  match thrift with
  | .strct fs =>
    match fs[Generated.C11.thriftFilenamePos]?, fs[Generated.C11.thriftIncludesPos]? with
    | some (.bytes fn), some incs =>
      let xs := match incs with | .list xs => some xs | .nil => some [] | _ => none
      match xs with
      | none => none
      | some xs =>
        let kids := xs.mapM fun x => match x with
          | .strct is =>
            match is[Generated.C11.includeReferencePos]? with
            | some ref => astToTree (.strct (setAt is Generated.C11.includeReferencePos .nil)) ref
            | none => none
          | _ => none
        kids.map fun ks => .node inc fn (.strct (setAt fs Generated.C11.thriftIncludesPos incs)) ks
    | _, _ => none
  | _ => none

partial def treeToAst : Tree GoVal → GoVal
  | .node _ fn body ks =>
    match body with
    | .strct fs =>
      let incs := ks.map fun k => match k.inc with
        | .strct is => GoVal.strct (setAt is Generated.C11.includeReferencePos (treeToAst k))
        | other => other
      let incsV := match fs[Generated.C11.thriftIncludesPos]? with
        | some .nil => if incs.isEmpty then GoVal.nil else .list incs
        | _ => .list incs
      .strct (setAt (setAt fs Generated.C11.thriftFilenamePos (.bytes fn)) Generated.C11.thriftIncludesPos incsV)
    | other => other

/-- the zero Thrift a reference stub carries besides its file name -/
def stubBody : GoVal :=
  match prog.struct? Generated.C11.thriftIdx with
  | some sd => newX sd
  | none => .nil

/-- UnmarshalRequest: FastRead, then decompressThriftInclude(req.AST, nil) when the trailer says so -/
def doUnc (bs : Bytes) : String :=
  match Gen.Std.read prog Generated.C11.requestIdx bs with
  | none => "err"
  | some req =>
    if !hasDataTrailerFeature bs featureCompressInclude then
      "ok " ++ clip (showVal prog (.struct Generated.C11.requestIdx) req)
    else match req with
      | .strct fs =>
        match fs[Generated.C11.requestAstPos]? with
        | some ast =>
          match astToTree .nil ast with
          | none => "panic"       -- a nil Reference: the code dereferences it
          | some t =>
            match decompress (t.size + 2) none t with
            | .ok t' =>
              let req' := GoVal.strct (setAt fs Generated.C11.requestAstPos (treeToAst t'))
              "ok " ++ clip (showVal prog (.struct Generated.C11.requestIdx) req')
            | .panic => "panic"
            | .fuel => "fuel"
        | none => "bad-request"
      | _ => "bad-request"

def hexList (l : List Bytes) : String := " ".intercalate (l.map VL.hexEncode)

def doPca (s : Bytes) : String :=
  match parseCompact s with
  | none => "err"
  | some (name, opts) =>
    if opts.isEmpty then s!"ok {VL.hexEncode name} 0"
    else s!"ok {VL.hexEncode name} {opts.length} {hexList (pack opts)}"

def mkWarn (n : Nat) : List Bytes := (List.range n).map fun i => [119, i]
def mkGen (n : Nat) : List Plugin.Generated := (List.range n).map fun i => { content := [i], name := some [i], point := none }

def doExe (toks : List String) : String :=
  match toks with
  | [run, dec, err, feed, se, nw, nc] =>
    let r : Option RunResult := match run with
      | "kill" => some .killed
      | "nostart" => some .notStarted
      | s => (s.drop 1).toNat?.map .exited
    match r, nw.toNat?, nc.toNat? with
    | some r, some nw, some nc =>
      let res : Response := { error := (match err with | "none" => none | "empty" => some [] | _ => some [101]),
                              contents := mkGen nc, warnings := mkWarn nw }
      let decoded := if dec == "1" then some res else none
      let stderr : Bytes := if se == "1" then [115] else []
      match executeOutcome (fun _ => feed == "1") r decoded [111] stderr [69] [110] with
      | .fail shown => s!"fail {shown.length}"
      | .ok fed shown => s!"ok {fed.length} {shown.length}"
    | _, _, _ => "bad-op"
  | _ => "bad-op"

/-- state: the bytes of the last `mar` line (`unm <sidx> = <tag>` decodes those) -/
def handleLine (last : Bytes) (line : String) : Bytes × String :=
  (fun (r : String) => (last, r)) <|
  match VL.toks line with
  | ["unm", sidx, "=", _] =>
    match sidx.toNat? with
    | some i => doUnm i last
    | none => "bad-op"
  | ["unm", sidx, hex] =>
    match sidx.toNat?, VL.hexDecode hex with
    | some i, some bs => doUnm i bs
    | _, _ => "bad-op"
  | ["unc", hex] =>
    match VL.hexDecode hex with
    | some bs => doUnc bs
    | none => "bad-op"
  | "cmp" :: rest =>
    match parseTree rest with
    | some (t, []) => doCmp t
    | _ => "bad-op"
  | ["apt", hex, f] =>
    match VL.hexDecode hex, f.toNat? with
    | some d, some f =>
      let a := appendDataTrailer d f
      s!"{VL.hexEncode a} {VL.boolStr (hasDataTrailerFeature a f)}"
    | _, _ => "bad-op"
  | ["has", hex, f] =>
    match VL.hexDecode hex, f.toNat? with
    | some d, some f => VL.boolStr (hasDataTrailerFeature d f)
    | _, _ => "bad-op"
  | ["ver", hex] =>
    match VL.hexDecode hex with
    | some v => VL.boolStr (supportDataTrailer v)
    | none => "bad-op"
  | ["pca", hex] =>
    match VL.hexDecode hex with
    | some s => doPca s
    | none => "bad-op"
  | "exe" :: rest => doExe rest
  | ["gat", env, hex] =>
    match VL.hexDecode hex with
    | some v => VL.boolStr (supportDataTrailer v && env == "1")
    | none => "bad-op"
  | "par" :: nl :: _ :: args =>
    match nl.toNat?, args.mapM VL.hexDecode with
    | some nl, some args =>
      match args.mapM parseCompact with
      | none => "err"
      | some ds =>
        let calls := paramsSeenCalls (ds.map (·.2)) nl [[120]]   -- a stale value the model must overwrite
        let one (ps : List Bytes) : String :=
          if ps.isEmpty then "0" else s!"{ps.length} {hexList ps}"
        "ok " ++ " | ".intercalate (calls.flatten.map one)
    | _, _ => "bad-op"
  | ["gen", nl, np] =>
    match nl.toNat?, np.toNat? with
    | some nl, some np =>
      let descs := List.range np
      let calls := generateCalls true descs nl []
      if calls.all (fun c => c.all (fun x => x.2 == some x.1)) then
        s!"ok {calls.length} {" ".intercalate (calls.map fun c => toString c.length)}"
      else "panic"
    | _, _ => "bad-op"
  | _ => "bad-op"

def step (last : Bytes) (line : String) : Bytes × String :=
  match VL.toks line with
  | "mar" :: sidx :: hex :: rest =>
    match sidx.toNat?, VL.hexDecode hex, parseVal rest with
    | some i, some bs, some (v, []) => (bs, doMar i bs v)
    | _, _, _ => (last, "bad-op")
  | _ => handleLine last line

end Driver.C11

def main : IO Unit := Driver.stateLoop ([] : Bytes) Driver.C11.step
