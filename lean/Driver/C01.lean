import Driver.Common
import ThriftVerif.Lib.Names
import ThriftVerif.Generated.C01

/-!
  Model driver for C01 (tv_c01): reads the op lines written by harness/cmd/c01 (see observe.go) and answers
  from `Names` what the generated file declares: outcome, package-level identifiers, struct members, method
  parameters, import table.  `identify` is the table of `I` lines (the real naming style, as data).
-/
namespace Driver.C01
open Names

structure St where
  ft : Feat := {}
  table : Table := []                 -- raw name -> identified name
  -- current file, definitions in reverse order of arrival
  svcs : List Svc := []
  structs : List SL := []
  enums : List Enm := []
  tdefs : List Tdef := []
  consts : List Bytes := []
  incs : List (Bytes × Bytes × Bool) := []
  quals : List Bytes := []
  bases : List (Bytes × Bool) := []   -- service raw name -> has a base

def identOf (t : Table) (raw : Bytes) : Bytes :=
  match lk raw t with
  | some v => v
  | none => [63] ++ raw   -- "?raw": a missing table entry shows up in the diff

def hex? (s : String) : Bytes := (VL.hexDecode s).getD [63]
def flag (s : String) : Bool := s == "1" || s.endsWith "=1"

def insertSorted (x : String) : List String → List String
  | [] => [x]
  | y :: r => if x ≤ y then x :: y :: r else y :: insertSorted x r

def sortStrs (l : List String) : List String := l.foldr insertSorted []

def asc (b : Bytes) : String := VL.ascii b
def ascs (l : List Bytes) : List String := l.map asc

/-- the file accumulated so far, in source order -/
def St.file (s : St) : File :=
  { services := s.svcs.reverse.map (fun v => { v with fns := v.fns.reverse.map (fun f => { f with args := f.args.reverse, throws := f.throws.reverse }) }),
    structs :=
      let all := s.structs.reverse.map (fun v => { v with fields := v.fields.reverse })
      all.filter (·.cat = .struct) ++ all.filter (·.cat = .union) ++ all.filter (·.cat = .exception),
    enums := s.enums.reverse.map (fun e => { e with values := e.values.reverse }),
    typedefs := s.tdefs.reverse, consts := s.consts.reverse }

def St.scope (s : St) : Except Err ScopeNames :=
  buildScope s.ft Generated.C01.isKeywords s.file (identOf s.table)

def mkFld (n i b : String) : Fld := { name := hex? n, id := (i.toInt?).getD 0, isset := flag b }

def structLine (ft : Feat) (synth : Bool) (s : StructNames) : String :=
  asc s.goName ++ "=" ++ ",".intercalate (sortStrs (ascs (declaredMembers ft synth s)))

def svcTypeLines (ft : Feat) (ext : List (Bytes × Bool)) (v : SvcNames) : List String :=
  let hasBase := (ext.find? (·.1 = v.raw)).map (·.2) |>.getD false
  let synth := v.fns.flatMap fun f => [structLine ft true f.argType] ++ (match f.resType with | some r => [structLine ft true r] | none => [])
  if ft.noProcessor then synth else
  let client := asc (v.goName ++ sClient) ++ "=" ++ ",".intercalate (sortStrs (ascs ((if hasBase then [] else [sC, sClientU]) ++ v.fns.map (·.goName))))
  let proc := asc (v.goName ++ sProcessor) ++ "=" ++ ",".intercalate (sortStrs (ascs (if hasBase then [] else [sProcessorMap, sHandler, sAddToProcessorMap, sGetProcessorFunction, sProcessorMapM, sProcess])))
  let pfs := v.fns.map fun f => asc (unexport (v.goName ++ sProcessor) ++ f.goName) ++ "=" ++ ",".intercalate (sortStrs (ascs [sHandler, sProcess]))
  [client, proc] ++ pfs ++ synth

def importLines (s : St) : String :=
  match ImportMgr.init Generated.C01.stdLibs [] with
  | .error _ => "crash"
  | .ok im0 =>
    match includeLoop im0 s.incs.reverse with
    | .error _ => "crash"
    | .ok (im1, _) =>
      let im2 := im1.useStd s.quals
      let res := if Generated.C01.importsScanBody then filterMentioned s.quals im2.resolve else im2.resolve
      "imports " ++ ",".intercalate (sortStrs (res.map fun (p, a) => asc p ++ "=" ++ asc a))

def errStr : Err → String
  | .reserve _ _ _ => "reject:reserve"
  | .crash => "crash"

def step (s : St) (line : String) : St × String :=
  match VL.toks line with
  | "U" :: _ :: be :: rest =>
    let get (k : String) : Bool := rest.any (fun t => t == k ++ "=1")
    ({ ft := { compat := get "compat", kuf := get "kuf", deq := get "deq", setter := get "setter", noProcessor := get "noproc",
               enumAnn := get "enumann", fieldMask := get "fm", halfway := get "halfway", fastgo := be == "fastgo",
               adaptor := get "adaptor", resV2 := Generated.C01.reservesDeclaredMethods,
               svcV2 := Generated.C01.reservesClientAccessor, fnV2 := Generated.C01.reservesNil } }, "ok")
  | ["I", r, v] => ({ s with table := put (hex? r) (hex? v) s.table }, "ok")
  | "F" :: _ => ({ ft := s.ft, table := s.table }, "ok")
  | ["V", n, e] => ({ s with svcs := { name := hex? n, fns := [] } :: s.svcs, bases := (hex? n, flag e) :: s.bases }, "ok")
  | ["M", n, ow, vd] =>
    match s.svcs with
    | v :: r => ({ s with svcs := { v with fns := { name := hex? n, oneway := flag ow, void := flag vd, args := [], throws := [] } :: v.fns } :: r }, "ok")
    | [] => (s, "bad-op")
  | ["A", n, i, b] =>
    match s.svcs with
    | v :: r => match v.fns with
      | f :: fr => ({ s with svcs := { v with fns := { f with args := mkFld n i b :: f.args } :: fr } :: r }, "ok")
      | [] => (s, "bad-op")
    | [] => (s, "bad-op")
  | ["X", n, i, b] =>
    match s.svcs with
    | v :: r => match v.fns with
      | f :: fr => ({ s with svcs := { v with fns := { f with throws := mkFld n i b :: f.throws } :: fr } :: r }, "ok")
      | [] => (s, "bad-op")
    | [] => (s, "bad-op")
  | ["S", c, n] =>
    let cat := if c == "u" then Cat.union else if c == "e" then Cat.exception else Cat.struct
    ({ s with structs := { name := hex? n, cat := cat, fields := [] } :: s.structs }, "ok")
  | ["D", n, i, b] =>
    match s.structs with
    | v :: r => ({ s with structs := { v with fields := mkFld n i b :: v.fields } :: r }, "ok")
    | [] => (s, "bad-op")
  | ["E", n] => ({ s with enums := { name := hex? n, values := [] } :: s.enums }, "ok")
  | ["W", n] =>
    match s.enums with
    | e :: r => ({ s with enums := { e with values := hex? n :: e.values } :: r }, "ok")
    | [] => (s, "bad-op")
  | ["Y", n, b] => ({ s with tdefs := { alias := hex? n, structTarget := flag b } :: s.tdefs }, "ok")
  | ["C", n] => ({ s with consts := hex? n :: s.consts }, "ok")
  | ["N", pkg, pth, same] => ({ s with incs := (hex? pkg, hex? pth, flag same) :: s.incs }, "ok")
  | "Q" :: qs => ({ s with quals := qs.map hex? }, "ok")
  | "QO" :: _ =>
    match s.scope with
    | .error e => (s, errStr e)
    | .ok _ => (s, "ok")
  | "QG" :: _ =>
    match s.scope with
    | .error e => (s, errStr e)
    | .ok sc => (s, "globals " ++ ",".intercalate (sortStrs (ascs (fileGlobals s.ft sc))))
  | "QT" :: _ =>
    match s.scope with
    | .error e => (s, errStr e)
    | .ok sc =>
      let ls := sc.structs.map (structLine s.ft false) ++ sc.services.flatMap (svcTypeLines s.ft s.bases)
      (s, "types " ++ ";".intercalate (sortStrs ls))
  | "QP" :: _ =>
    match s.scope with
    | .error e => (s, errStr e)
    | .ok sc =>
      let ls := sc.services.flatMap fun v => v.fns.map fun f => asc v.goName ++ "." ++ asc f.goName ++ "=" ++ ",".intercalate (ascs f.params)
      (s, "params " ++ ";".intercalate (sortStrs ls))
  | "QI" :: _ => (s, importLines s)
  | [] => (s, "")
  | _ => (s, "bad-op")

end Driver.C01

def main : IO Unit := Driver.stateLoop ({} : Driver.C01.St) Driver.C01.step
