import Driver.Common
import ThriftVerif.Lib.Dump
import ThriftVerif.Generated.C17
import ThriftVerif.Lib.DumpTree

/-! model driver for C17: one op per line (see harness/cmd/c17). -/
namespace Driver.C17
open Dump

abbrev P := StateT (List String × List (Nat × Bytes)) Option

def tok : P String := do
  let (ts, fl) ← get
  match ts with
  | [] => failure
  | t :: r => set (r, fl); pure t

def pNat : P Nat := do
  let t ← tok
  match t.toNat? with
  | some n => pure n
  | none => failure

def pInt : P Int := do
  let t ← tok
  match t.toInt? with
  | some n => pure n
  | none => failure

def pBytes : P Bytes := do
  let t ← tok
  match VL.hexDecode t with
  | some b => pure b
  | none => failure

partial def pMany {α} (p : P α) : P (List α) := do
  let n ← pNat
  let rec go (k : Nat) (acc : List α) : P (List α) :=
    if k = 0 then pure acc.reverse else do
      let x ← p
      go (k - 1) (x :: acc)
  go n []

def pAnn : P Ann := do
  let k ← pBytes
  let vs ← pMany pBytes
  pure ⟨k, vs⟩

def pAnns : P (List Ann) := pMany pAnn

partial def pTy : P Ty := do
  let name ← pBytes
  let hk ← pNat
  let k ← if hk = 1 then some <$> pTy else pure none
  let hv ← pNat
  let v ← if hv = 1 then some <$> pTy else pure none
  let cpp ← pBytes
  let a ← pAnns
  pure (.mk name k v cpp a)

partial def pCV : P CV := do
  let t ← tok
  match t with
  | "D" => do
    let bits ← pNat
    let txt ← pBytes
    modify fun (ts, fl) => (ts, (bits, txt) :: fl)
    pure (.dbl bits)
  | "I" => .int <$> pInt
  | "L" => .lit <$> pBytes
  | "X" => .ident <$> pBytes
  | "S" => .list <$> pMany pCV
  | "M" => .map <$> pMany (do let k ← pCV; let v ← pCV; pure (k, v))
  | "Z" => pure .unset
  | _ => failure

def pField : P Field := do
  let cm ← pBytes
  let id ← pInt
  let req ← pNat
  let ty ← pTy
  let name ← pBytes
  let hd ← pNat
  let d ← if hd = 1 then some <$> pCV else pure none
  let a ← pAnns
  pure { comment := cm, id := id, req := req, ty := ty, name := name, dflt := d, anns := a }

def pStructLike : P StructLike := do
  let cm ← pBytes
  let name ← pBytes
  let fs ← pMany pField
  let a ← pAnns
  pure ⟨cm, name, fs, a⟩

def pFunction : P Function := do
  let cm ← pBytes
  let ow ← pNat
  let ty ← pTy
  let name ← pBytes
  let args ← pMany pField
  let thr ← pMany pField
  let a ← pAnns
  pure ⟨cm, ow = 1, ty, name, args, thr, a⟩

def pFile : P File := do
  let incs ← pMany pBytes
  let nss ← pMany (do let l ← pBytes; let n ← pBytes; let a ← pAnns; pure (⟨l, n, a⟩ : Namespace))
  let cpps ← pMany pBytes
  let tds ← pMany (do let c ← pBytes; let t ← pTy; let al ← pBytes; let a ← pAnns; pure (⟨c, t, al, a⟩ : Typedef))
  let cs ← pMany (do let c ← pBytes; let t ← pTy; let n ← pBytes; let v ← pCV; let a ← pAnns; pure (⟨c, t, n, v, a⟩ : Const))
  let es ← pMany (do
    let c ← pBytes; let n ← pBytes
    let vs ← pMany (do let c ← pBytes; let n ← pBytes; let v ← pInt; let a ← pAnns; pure (⟨c, n, v, a⟩ : EnumValue))
    let a ← pAnns
    pure (⟨c, n, vs, a⟩ : Enum))
  let ss ← pMany pStructLike
  let us ← pMany pStructLike
  let xs ← pMany pStructLike
  let svcs ← pMany (do
    let c ← pBytes; let n ← pBytes; let e ← pBytes
    let fs ← pMany pFunction
    let a ← pAnns
    pure (⟨c, n, e, fs, a⟩ : Service))
  pure ⟨incs, nss, cpps, tds, cs, es, ss, us, xs, svcs⟩

def lookupFF (fl : List (Nat × Bytes)) (b : Nat) : Bytes :=
  match fl.find? (fun p => p.1 = b) with
  | some p => p.2
  | none => []

def cfg := Generated.C17.cfg

/-- what may follow a constant value on its line for the definition to be a complete `Const`:
    `Indent* ([,;] Indent*)? (UnixComment)?` -/
def restOk (r : Bytes) : Bool :=
  let r1 := r.dropWhile (fun c => c = 32 || c = 9)
  let r2 := match r1 with
    | 44 :: t => t.dropWhile (fun c => c = 32 || c = 9)
    | 59 :: t => t.dropWhile (fun c => c = 32 || c = 9)
    | _ => r1
  match r2 with
  | [] => true
  | 35 :: _ => true
  | _ => false

def annsStr (l : List Ann) : String :=
  " ".intercalate (l.map fun a => VL.hexEncode a.key ++ "=" ++ ",".intercalate (a.vals.map VL.hexEncode))

partial def pPairs : P (List (Bytes × Bytes)) := pMany (do let k ← pBytes; let v ← pBytes; pure (k, v))

partial def cvStr : CV → String
  | .dbl b => s!"D {b}"
  | .int i => s!"I {i}"
  | .lit v => "L " ++ VL.hexEncode v
  | .ident v => "X " ++ VL.hexEncode v
  | .list l => s!"S {l.length}" ++ String.join (l.map fun x => " " ++ cvStr x)
  | .map m => s!"M {m.length}" ++ String.join (m.map fun (k, v) => " " ++ cvStr k ++ " " ++ cvStr v)
  | .unset => "Z"

def pPfPairs : P (List (Bytes × Nat)) := pMany (do let t ← pBytes; let b ← pNat; pure (t, b))

def insertNat (x : Nat) : List Nat → List Nat
  | [] => [x]
  | y :: r => if x ≤ y then x :: y :: r else y :: insertNat x r

def pAdj : P (List (List Nat)) := do
  let n ← pNat
  let rec go (k : Nat) (acc : List (List Nat)) : P (List (List Nat)) :=
    match k with
    | 0 => pure acc.reverse
    | k + 1 => do
      let cs ← pMany pNat
      go k (cs :: acc)
  go n []

def handleLine (line : String) : String :=
  match VL.toks line with
  | "F" :: _ :: rest =>
    match pFile.run (rest, []) with
    | some (f, ([], fl)) => "ok " ++ VL.hexEncode (dump cfg (lookupFF fl) f)
    | _ => "bad-op"
  | ["R", h] =>
    match VL.hexDecode h with
    | none => "bad-op"
    | some s =>
      match readLiteral (s.dropWhile (fun c => c = 32 || c = 9)) with
      | some (v, r) => if restOk r then "ok " ++ VL.hexEncode v else "other"
      | none => "other"
  | ["N", h, bits] =>
    match VL.hexDecode h, bits.toNat? with
    | some s, some b =>
      let (n, r) := readNumber (fun _ => b) (s.dropWhile (fun c => c = 32 || c = 9))
      if !restOk r then "other" else
      match n with
      | .int i => s!"int {i}"
      | .dbl b => s!"dbl {b}"
      | .err => "err"
      | .exp => "exp"
      | .nolex => "other"
    | _, _ => "bad-op"
  | "T" :: rest =>
    match pAdj.run (rest, []) with
    | some (adj, ([], _)) =>
      let written := DumpTree.rd (DumpTree.unfold adj (adj.length + 1) 0) []
      ("ok " ++ " ".intercalate ((written.foldr insertNat []).map toString)).trimAscii.toString
    | _ => "bad-op"
  | "A" :: rest =>
    match pPairs.run (rest, []) with
    | some (ps, ([], _)) => "ok " ++ annsStr (annRegroup ps)
    | _ => "bad-op"
  | "V" :: h :: rest =>
    match VL.hexDecode h, pPfPairs.run (rest, []) with
    | some s, some (ps, ([], _)) =>
      let pf := fun t => match ps.find? (fun p => p.1 = t) with | some p => p.2 | none => 0
      match readCV pf (s.length + 2) s with
      | some (v, r) => if restOk r then "ok " ++ cvStr v else "other"
      | none => "other"
    | _, _ => "bad-op"
  | ["P", h] =>
    match VL.hexDecode h with
    | none => "bad-op"
    | some s =>
      match readAnnotations s with
      | some (l, r) =>
        -- a struct definition takes no list separator after its annotations: only blanks or a comment may follow
        let r1 := r.dropWhile (fun c => c = 32 || c = 9)
        if r1.isEmpty || r1.head? == some 35 then ("ok " ++ annsStr l).trimAscii.toString else "other"
      | none => "other"
  | _ => "bad-op"

end Driver.C17

def main : IO Unit := Driver.lineLoop Driver.C17.handleLine
