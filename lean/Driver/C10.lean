import Driver.GenVL
import ThriftVerif.Gen.Fast
/- model driver for C10: ops FW BL FN FR FO SK of docs/BATCH.md over Gen.Fast.
   `tv_c10 why` prints the reason of a panic (`panic:index`, `panic:slice`) instead of `panic`. -/
namespace Driver.C10
open Gen Gen.Fast Driver.GenVL

def fuel : Nat := 400

def panicStr (why : Bool) (w : Nat) : String :=
  if why then (if w = 1 then "panic:index" else if w = 2 then "panic:slice" else "panic:overflow") else "panic"

def resStr {α} (why : Bool) (r : FRes α) (f : α → String) : String :=
  match r with | .ok a => "ok " ++ f a | .err => "err" | .panic w => panicStr why w

/-- canonical form of a wire value: map entries sorted by encoded key (what refcodec.Canon does) -/
partial def canonW : Wire.WVal → Wire.WVal
  | .struct fs => .struct (fs.map fun (i, v) => (i, canonW v))
  | .list t xs => .list t (xs.map canonW)
  | .set t xs => .set t (xs.map canonW)
  | .map k v kvs =>
      let es := kvs.map fun (a, b) => (canonW a, canonW b)
      let keyed := es.map fun (a, b) => (VL.hexEncode (Wire.encW a), (a, b))
      let sorted := keyed.foldr (fun x acc => ins x acc) []
      .map k v (sorted.map (·.2))
  | w => w
where ins (x : String × (Wire.WVal × Wire.WVal)) : List (String × (Wire.WVal × Wire.WVal)) → List (String × (Wire.WVal × Wire.WVal))
  | [] => [x]
  | y :: r => if x.1 ≤ y.1 then x :: y :: r else y :: ins x r

/-- canonical bytes of an encoded struct (maps sorted); malformed bytes are shown as they are -/
def canonBytes (bs : Bytes) : String :=
  match Wire.decW 200 .struct bs with
  | some (w, []) => VL.hexEncode (Wire.encW (canonW w))
  | _ => "malformed:" ++ VL.hexEncode bs

def insertPair (x : String × String) : List (String × String) → List (String × String)
  | [] => [x]
  | y :: r => if x.1 < y.1 || (x.1 == y.1 && x.2 ≤ y.2) then x :: y :: r else y :: insertPair x r

/-- the dump of the batch driver: like `GenVL.showVal`, but map entries are sorted by (key text, value text) —
struct-typed keys are pointers, so two entries can have equal key texts -/
partial def showV (Pg : Prog) (ty : Ty) (v : GoVal) : String :=
  match v, ty with
  | .nil, _ => "n"
  | .bool b, _ => if b then "b1" else "b0"
  | .int x, _ => s!"I{x}"
  | .dbl x, _ => "D" ++ hex16 x
  | .bytes b, _ => "X" ++ VL.hexEncode b
  | .list xs, .set e => s!"T {xs.length}" ++ String.join (xs.map fun x => " " ++ showV Pg e x)
  | .list xs, .list e => s!"L {xs.length}" ++ String.join (xs.map fun x => " " ++ showV Pg e x)
  | .list xs, _ => s!"L {xs.length} ?"
  | .map kvs, .map k w =>
      let es := kvs.map fun (a, b) => (showV Pg k a, showV Pg w b)
      let es := es.foldr insertPair []
      s!"M {kvs.length}" ++ String.join (es.map fun (a, b) => " " ++ a ++ " " ++ b)
  | .map kvs, _ => s!"M {kvs.length} ?"
  | .strct fs, .struct i =>
      match Pg.struct? i with
      | some sd => s!"R {fs.length}" ++ String.join ((fs.zip sd.fields).map fun (x, f) => " " ++ showV Pg f.ty x)
      | none => "R ?"
  | .strct fs, _ => s!"R {fs.length} ?"

def step (why : Bool) (ps : Progs) (line : String) : Progs × String :=
  let toks := VL.toks line
  match schemaLine ps toks with
  | some r => r
  | none =>
    match toks with
    | "FW" :: key :: rest =>
      match splitKey key with
      | some (u, i) => match ps.get u, parseVal rest with
        | some P, some (v, []) => (ps, resStr why (fastWrite P fuel i v) canonBytes)
        | _, _ => (ps, "bad-op")
      | none => (ps, "bad-op")
    | "FN" :: key :: rest =>
      match splitKey key with
      | some (u, i) => match ps.get u, parseVal rest with
        | some P, some (v, []) => (ps, resStr why (fastWriteInto P fuel i v) canonBytes)
        | _, _ => (ps, "bad-op")
      | none => (ps, "bad-op")
    | "BL" :: key :: rest =>
      match splitKey key with
      | some (u, i) => match ps.get u, parseVal rest with
        | some P, some (v, []) => (ps, resStr why (blength P fuel i v) toString)
        | _, _ => (ps, "bad-op")
      | none => (ps, "bad-op")
    | ["FR", key, hex] =>
      match splitKey key with
      | some (u, i) => match ps.get u, VL.hexDecode hex with
        | some P, some bs => (ps, resStr why (fastRead P i bs) fun (v, _) => showV P (.struct i) v)
        | _, _ => (ps, "bad-op")
      | none => (ps, "bad-op")
    | ["FO", key, hex] =>
      match splitKey key with
      | some (u, i) => match ps.get u, VL.hexDecode hex with
        | some P, some bs => (ps, resStr why (fastRead P i bs) fun (_, n) => toString n)
        | _, _ => (ps, "bad-op")
      | none => (ps, "bad-op")
    | ["HH", key, mode, hex1, hex2] =>
      match splitKey key with
      | some (u, i) => match ps.get u, VL.hexDecode hex1, VL.hexDecode hex2 with
        | some P, some b1, some b2 =>
          match P.struct? i with
          | some sd =>
            let stepR (m : Char) (cur : GoVal) (bs : Bytes) : FRes GoVal :=
              if m == 'F' then (match fastReadInto P i cur bs with | .ok (v, _) => .ok v | .err => .err | .panic w => .panic w)
              else (match stdReadInto P i cur bs with | some v => .ok v | none => .err)
            let ms := mode.toList
            match stepR (ms.getD 0 'F') (newX sd) b1 with
            | .err => (ps, "err1")
            | .panic w => (ps, panicStr why w)
            | .ok o1 => (ps, resStr why (stepR (ms.getD 1 'F') o1 b2) fun v => showV P (.struct i) v)
          | none => (ps, "bad-op")
        | _, _, _ => (ps, "bad-op")
      | none => (ps, "bad-op")
    | ["SK", t, hex] =>
      match t.toNat?, VL.hexDecode hex with
      | some t, some bs => (ps, resStr why (Gopkg.skip t bs) toString)
      | _, _ => (ps, "bad-op")
    | _ => (ps, "bad-op")

end Driver.C10

def main (args : List String) : IO UInt32 := do
  Driver.stateLoop ([] : Driver.GenVL.Progs) (Driver.C10.step (args.contains "why"))
  return 0
