import Driver.Common
import ThriftVerif.Lib.Determinism

/- model driver for C07: one line per op
     R <content> <np> (<point name> <patch text>)*   → hex of the file content BuildResponse produces
     D <path> <ni> (<k> <v>)* <nn> (<k> <v>)*         → hex of meta.Marshal(FileDescriptor); the entries come in any order (the model sorts, as the code does)
     V <n> (<k> <v>)*                                 → hex of meta.Marshal(ConstValueDescriptor{MAP}) with string keys/values; keys may repeat
     T <go type name>*                                → ServiceThrows: the names in the order the template function returns them
     N <style> <n> (<name> <id>)*                     → name2id (sorted) and Get(id) per entry after Add in the given order
-/
namespace Driver.C07
open Determinism

def takePairs : Nat → List String → Option (List (Bytes × Bytes) × List String)
  | 0, rest => some ([], rest)
  | n + 1, a :: b :: rest => do
    let x ← VL.hexDecode a
    let y ← VL.hexDecode b
    let (ps, rest') ← takePairs n rest
    pure ((x, y) :: ps, rest')
  | _, _ => none

def pairsStr (ps : List (Bytes × Bytes)) : String :=
  if ps.isEmpty then "none" else
  ",".intercalate (ps.map fun (k, v) => VL.hexEncode k ++ "=" ++ VL.hexEncode v)

def handleLine (line : String) : String :=
  match VL.toks line with
  | "R" :: c :: np :: rest =>
    match VL.hexDecode c, np.toNat? with
    | some content, some n =>
      match takePairs n rest with
      | some (patches, []) => VL.hexEncode (ipReplace (ipTable content patches) content)
      | _ => "bad-op"
    | _, _ => "bad-op"
  | "D" :: p :: ni :: rest =>
    match VL.hexDecode p, ni.toNat? with
    | some path, some n =>
      match takePairs n rest with
      | some (inc, nn :: rest') =>
        match nn.toNat? with
        | some m =>
          match takePairs m rest' with
          | some (ns, []) => VL.hexEncode (encFileDescriptorSorted path inc ns)
          | _ => "bad-op"
        | none => "bad-op"
      | _ => "bad-op"
    | _, _ => "bad-op"
  | "V" :: n :: rest =>
    match n.toNat? with
    | some k =>
      match takePairs k rest with
      | some (es, []) => VL.hexEncode (encCVMap es)
      | _ => "bad-op"
    | none => "bad-op"
  | "T" :: rest =>
    match rest.mapM VL.hexDecode with
    | some names => " ".intercalate ("ok" :: (sortedBy bytesLe names).map VL.hexEncode)
    | none => "bad-op"
  | "N" :: style :: n :: rest =>
    match n.toNat? with
    | some k =>
      match takePairs k rest with
      | some (es, []) =>
        let rename := if style = "0" then renameNum else renameUnderscore
        match NS.addAll rename NS.empty es with
        | none => "crash"
        | some ns =>
          let sorted := sortedBy (fun a b => bytesLe a.1 b.1) ns.name2id
          let gets := es.map fun e => VL.hexEncode ((aLookup e.2 ns.id2name).getD [])
          " ".intercalate (["ok", pairsStr sorted] ++ gets)
      | _ => "bad-op"
    | none => "bad-op"
  | _ => "bad-op"

end Driver.C07

def main : IO Unit := Driver.lineLoop Driver.C07.handleLine
