import Driver.Common
import ThriftVerif.Gen.Schema
/- VL parsing/printing of schemas and Go values (docs/BATCH.md §2, §5). Driver-side only. -/
namespace Driver.GenVL
open Gen

abbrev P (α : Type) := List String → Option (α × List String)

def hexNat (s : String) : Option Nat :=
  s.toList.foldlM (fun acc c => (VL.hexVal c).map (acc * 16 + ·)) 0

partial def parseTy : P Ty
  | "b" :: r => some (.bool, r) | "y" :: r => some (.i8, r) | "h" :: r => some (.i16, r)
  | "i" :: r => some (.i32, r) | "l" :: r => some (.i64, r) | "d" :: r => some (.dbl, r)
  | "s" :: r => some (.str, r) | "B" :: r => some (.bin, r) | "e" :: r => some (.enum, r)
  | "L" :: r => do let (e, r) ← parseTy r; some (.list e, r)
  | "T" :: r => do let (e, r) ← parseTy r; some (.set e, r)
  | "M" :: r => do let (k, r) ← parseTy r; let (v, r) ← parseTy r; some (.map k v, r)
  | "S" :: n :: r => do let i ← n.toNat?; some (.struct i, r)
  | _ => none

def pairUp : List GoVal → List (GoVal × GoVal)
  | k :: v :: r => (k, v) :: pairUp r
  | _ => []

mutual
partial def parseVal : P GoVal
  | "n" :: r => some (.nil, r)
  | "b0" :: r => some (.bool false, r)
  | "b1" :: r => some (.bool true, r)
  | "L" :: n :: r => do let k ← n.toNat?; let (xs, r) ← parseVals k r; some (.list xs, r)
  | "T" :: n :: r => do let k ← n.toNat?; let (xs, r) ← parseVals k r; some (.list xs, r)
  | "R" :: n :: r => do let k ← n.toNat?; let (xs, r) ← parseVals k r; some (.strct xs, r)
  | "M" :: n :: r => do
      let k ← n.toNat?
      let (xs, r) ← parseVals (2 * k) r
      some (.map (pairUp xs), r)
  | t :: r =>
      match t.toList with
      | 'I' :: ds => do let v ← (String.ofList ds).toInt?; some (.int v, r)
      | 'D' :: ds => do let v ← hexNat (String.ofList ds); some (.dbl v, r)
      | 'X' :: ds => do let b ← VL.hexDecode (String.ofList ds); some (.bytes b, r)
      | _ => none
  | [] => none
partial def parseVals : Nat → P (List GoVal)
  | 0, r => some ([], r)
  | n+1, r => do let (x, r) ← parseVal r; let (xs, r) ← parseVals n r; some (x :: xs, r)
end

def parseReq : String → Option Req
  | "r" => some .required | "o" => some .optional | "d" => some .default | _ => none

partial def parseFields : Nat → P (List FieldDef)
  | 0, r => some ([], r)
  | n+1, idt :: rq :: r => do
      let id ← idt.toInt?
      let req ← parseReq rq
      let (ty, r) ← parseTy r
      let (d, r) ← (match r with
        | "-" :: r' => some (none, r')
        | _ => do let (v, r') ← parseVal r; some (some v, r'))
      let (fs, r) ← parseFields n r
      some ({ id := id, req := req, ty := ty, dflt := d } :: fs, r)
  | _, _ => none

def hex16 (n : Nat) : String :=
  String.ofList ((List.range 16).reverse.map fun i => VL.hexDigit ((n / 16 ^ i) % 16))

def insertSorted (x : String × String) : List (String × String) → List (String × String)
  | [] => [x]
  | y :: r => if x.1 < y.1 || (x.1 == y.1 && x.2 ≤ y.2) then x :: y :: r else y :: insertSorted x r

mutual
partial def showVal (Pg : Prog) (ty : Ty) (v : GoVal) : String :=
  match v, ty with
  | .nil, _ => "n"
  | .bool b, _ => if b then "b1" else "b0"
  | .int x, _ => s!"I{x}"
  | .dbl x, _ => "D" ++ hex16 x
  | .bytes b, _ => "X" ++ VL.hexEncode b
  | .list xs, .set e => s!"T {xs.length}" ++ String.join (xs.map fun x => " " ++ showVal Pg e x)
  | .list xs, .list e => s!"L {xs.length}" ++ String.join (xs.map fun x => " " ++ showVal Pg e x)
  | .list xs, _ => s!"L {xs.length} ?"
  | .map kvs, .map k w =>
      let es := kvs.map fun (a, b) => (showVal Pg k a, showVal Pg w b)
      let es := es.foldr insertSorted []
      s!"M {kvs.length}" ++ String.join (es.map fun (a, b) => " " ++ a ++ " " ++ b)
  | .map kvs, _ => s!"M {kvs.length} ?"
  | .strct fs, .struct i =>
      match Pg.struct? i with
      | some sd => s!"R {fs.length}" ++ String.join ((fs.zip sd.fields).map fun (x, f) => " " ++ showVal Pg f.ty x)
      | none => "R ?"
  | .strct fs, _ => s!"R {fs.length} ?"
end

/-- driver state: schemas by unit key -/
abbrev Progs := List (String × Prog)

def Progs.get (ps : Progs) (k : String) : Option Prog := (ps.find? (·.1 == k)).map (·.2)

def Progs.upd (ps : Progs) (k : String) (f : Prog → Prog) : Progs :=
  match ps.find? (·.1 == k) with
  | some _ => ps.map fun (k', p) => if k' == k then (k', f p) else (k', p)
  | none => (k, f { structs := [] }) :: ps

def optOn (opts : List String) (name : String) (dflt : Bool) : Bool :=
  if opts.contains (name ++ "=1") then true
  else if opts.contains (name ++ "=0") then false else dflt

/-- `P u<i> <n> opts…` and `S u<i> <sidx> <kind> <nfields> …` lines; returns none for other lines -/
def schemaLine (ps : Progs) (toks : List String) : Option (Progs × String) :=
  match toks with
  | "P" :: u :: _ :: opts =>
      some (ps.upd u (fun _ => { structs := [], keepUnknown := optOn opts "keep_unknown_fields" false,
                                 validateSet := optOn opts "validate_set" true }), "ok")
  | "S" :: u :: sidx :: kind :: nf :: rest =>
      match sidx.toNat?, nf.toNat? with
      | some i, some n =>
        match parseFields n rest with
        | some (fs, []) =>
            let k := if kind == "u" then 1 else if kind == "e" then 2 else 0
            some (ps.upd u (fun p =>
              if p.structs.length = i then { p with structs := p.structs ++ [{ kind := k, fields := fs }] } else p), "ok")
        | _ => some (ps, "bad-schema")
      | _, _ => some (ps, "bad-schema")
  | _ => none

/-- `u3:5` → ("u3", 5) -/
def splitKey (k : String) : Option (String × Nat) :=
  match k.splitOn ":" with
  | [u, i] => i.toNat?.map (u, ·)
  | _ => none

end Driver.GenVL
