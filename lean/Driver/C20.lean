import Driver.Common
import ThriftVerif.Lib.Options
import ThriftVerif.Generated.C20

namespace Driver.C20
open Options

def bits (l : List Bool) : String := String.ofList (l.map fun b => if b then '1' else '0')

def insertSorted (x : String) : List String → List String
  | [] => [x]
  | y :: r => if x ≤ y then x :: y :: r else y :: insertSorted x r

def replStr (r : List (Bytes × Bytes)) : String :=
  if r.isEmpty then "none" else
  let kv := r.map fun (k, v) => VL.hexEncode k ++ "=" ++ VL.hexEncode v
  ",".intercalate (kv.foldr insertSorted [])

def handleLine (line : String) : String :=
  match VL.toks line with
  | "H" :: _ :: rest =>
    match rest.mapM VL.hexDecode with
    | none => "bad-op"
    | some args =>
      match handle Generated.C20.env args with
      | none => "err"
      | some c => s!"ok {bits c.features} {VL.hexEncode c.style} {VL.boolStr c.effInit} {VL.hexEncode c.pkgPrefix} {VL.hexEncode c.template} {replStr c.repl}"
  | ["A", h] =>
    match VL.hexDecode h with
    | none => "bad-op"
    | some text =>
      match cmdline Generated.C20.env Generated.C20.cmdEnv text with
      | none => "err"
      | some c => s!"ok {bits c.features} {VL.hexEncode c.style} {VL.boolStr c.effInit} {VL.hexEncode c.pkgPrefix} {VL.hexEncode c.template} {replStr c.repl}"
  | _ => "bad-op"

end Driver.C20

def main : IO Unit := Driver.lineLoop Driver.C20.handleLine
