import Driver.Common
import ThriftVerif.Lib.Reflect
import ThriftVerif.Generated.C15Schema
/- model driver for C15: `describe`, the schema-driven codec at the regenerated descriptor schema,
   `RegisterAST` and the lookup API (harness/cmd/c15 writes the op lines). -/
namespace Driver.C15
open Gen Reflect

abbrev P (α : Type) := List String → Option (α × List String)

def pStr : P Str
  | t :: r => (VL.hexDecode t).map (·, r)
  | [] => none

def pNat : P Nat
  | t :: r => t.toNat?.map (·, r)
  | [] => none

def pInt : P Int
  | t :: r => t.toInt?.map (·, r)
  | [] => none

def hexNat (s : String) : Option Nat :=
  s.toList.foldlM (fun acc c => (VL.hexVal c).map (acc * 16 + ·)) 0

partial def pMany {α : Type} (p : P α) : Nat → P (List α)
  | 0, r => some ([], r)
  | n+1, r => do let (x, r) ← p r; let (xs, r) ← pMany p n r; some (x :: xs, r)

def pList {α : Type} (p : P α) : P (List α) := fun r => do
  let (n, r) ← pNat r
  pMany p n r

def pAnno : P Anno := fun r => do
  let (k, r) ← pStr r
  let (vs, r) ← pList pStr r
  some ({ key := k, values := vs }, r)

mutual
partial def pTy : P TyE
  | "T" :: r => do
      let (n, r) ← pStr r
      let (k, r) ← pTyO r
      let (v, r) ← pTyO r
      some (.mk n k v, r)
  | _ => none
partial def pTyO : P TyO
  | "-" :: r => some (.none, r)
  | r => do let (t, r) ← pTy r; some (.some t, r)
end

partial def pCV : P CV
  | "i" :: r => do let (v, r) ← pInt r; some (.int v, r)
  | "d" :: t :: r => do let v ← hexNat t; some (.dbl v, r)
  | "s" :: r => do let (s, r) ← pStr r; some (.lit s, r)
  | "x" :: r => do let (s, r) ← pStr r; some (.ident s, r)
  | "l" :: r => do let (xs, r) ← pList pCV r; some (.list xs, r)
  | "m" :: r => do
      let (xs, r) ← pList (fun r => do let (k, r) ← pCV r; let (v, r) ← pCV r; some ((k, v), r)) r
      some (.map xs, r)
  | _ => none

def pReq : P Reflect.Req
  | "d" :: r => some (.dflt, r)
  | "r" :: r => some (.required, r)
  | "o" :: r => some (.optional, r)
  | _ => none

def pField : P Field := fun r => do
  let (name, r) ← pStr r
  let (id, r) ← pInt r
  let (req, r) ← pReq r
  let (ty, r) ← pTy r
  let (d, r) ← (match r with
    | "-" :: r' => some (none, r')
    | _ => do let (c, r') ← pCV r; some (some c, r'))
  let (as, r) ← pList pAnno r
  let (c, r) ← pStr r
  some ({ name := name, id := id, req := req, ty := ty, dflt := d, annos := as, comments := c }, r)

def pStruct : P StructLike := fun r => do
  let (name, r) ← pStr r
  let (fs, r) ← pList pField r
  let (as, r) ← pList pAnno r
  let (c, r) ← pStr r
  some ({ name := name, fields := fs, annos := as, comments := c }, r)

def pEnumValue : P EnumValue := fun r => do
  let (name, r) ← pStr r
  let (v, r) ← pInt r
  let (as, r) ← pList pAnno r
  let (c, r) ← pStr r
  some ({ name := name, value := v, annos := as, comments := c }, r)

def pEnum : P Enum := fun r => do
  let (name, r) ← pStr r
  let (vs, r) ← pList pEnumValue r
  let (as, r) ← pList pAnno r
  let (c, r) ← pStr r
  some ({ name := name, values := vs, annos := as, comments := c }, r)

def pTypedef : P Typedef := fun r => do
  let (alias, r) ← pStr r
  let (ty, r) ← pTy r
  let (as, r) ← pList pAnno r
  let (c, r) ← pStr r
  some ({ alias := alias, ty := ty, annos := as, comments := c }, r)

def pConst : P Const := fun r => do
  let (name, r) ← pStr r
  let (ty, r) ← pTy r
  let (v, r) ← pCV r
  let (as, r) ← pList pAnno r
  let (c, r) ← pStr r
  some ({ name := name, ty := ty, value := v, annos := as, comments := c }, r)

def pFunction : P Function := fun r => do
  let (name, r) ← pStr r
  let (ow, r) ← pNat r
  let (ft, r) ← pTyO r
  let (args, r) ← pList pField r
  let (throws, r) ← pList pField r
  let (as, r) ← pList pAnno r
  let (c, r) ← pStr r
  some ({ name := name, oneway := ow == 1, fnType := ft, args := args, throws := throws, annos := as, comments := c }, r)

def pService : P Service := fun r => do
  let (name, r) ← pStr r
  let (base, r) ← pStr r
  let (fs, r) ← pList pFunction r
  let (as, r) ← pList pAnno r
  let (c, r) ← pStr r
  some ({ name := name, base := base, functions := fs, annos := as, comments := c }, r)

def pNamespace : P Namespace := fun r => do
  let (l, r) ← pStr r
  let (n, r) ← pStr r
  some ({ lang := l, name := n }, r)

def pFile : P File := fun r => do
  let (fname, r) ← pStr r
  let (incs, r) ← pList pStr r
  let (nss, r) ← pList pNamespace r
  let (tds, r) ← pList pTypedef r
  let (cs, r) ← pList pConst r
  let (es, r) ← pList pEnum r
  let (ss, r) ← pList pStruct r
  let (us, r) ← pList pStruct r
  let (xs, r) ← pList pStruct r
  let (svs, r) ← pList pService r
  some ({ filename := fname, includes := incs, namespaces := nss, typedefs := tds, consts := cs, enums := es,
          structs := ss, unions := us, exceptions := xs, services := svs }, r)

/-! ### dumps: the generic Value grammar (docs/BATCH.md §2), maps sorted by (key text, value text) -/

def hex16 (n : Nat) : String :=
  String.ofList ((List.range 16).reverse.map fun i => VL.hexDigit ((n / 16 ^ i) % 16))

def insSorted (x : String × String) : List (String × String) → List (String × String)
  | [] => [x]
  | y :: r => if x.1 < y.1 || (x.1 == y.1 && x.2 ≤ y.2) then x :: y :: r else y :: insSorted x r

partial def showVal (Pg : Prog) (ty : Ty) (v : GoVal) : String :=
  match v, ty with
  | .nil, _ => "n"
  | .bool b, _ => if b then "b1" else "b0"
  | .int x, _ => s!"I{x}"
  | .dbl x, _ => "D" ++ hex16 x
  | .bytes b, _ => "X" ++ VL.hexEncode b
  | .list xs, .set e => s!"T {xs.length}" ++ String.join (xs.map fun x => " " ++ showVal Pg e x)
  | .list xs, .list e => s!"L {xs.length}" ++ String.join (xs.map fun x => " " ++ showVal Pg e x)
  | .list xs, _ => s!"L {xs.length} ?"
  | .map kvs, .map k w =>
      let es := kvs.map fun (a, b) => (showVal Pg k a, showVal Pg w b)
      let es := es.foldr insSorted []
      s!"M {kvs.length}" ++ String.join (es.map fun (a, b) => " " ++ a ++ " " ++ b)
  | .map kvs, _ => s!"M {kvs.length} ?"
  | .strct fs, .struct i =>
      match Pg.struct? i with
      | some sd => s!"R {fs.length}" ++ String.join ((fs.zip sd.fields).map fun (x, f) => " " ++ showVal Pg f.ty x)
      | none => "R ?"
  | .strct fs, _ => s!"R {fs.length} ?"

/-- canonical bytes of a wire value: map entries sorted by (encoded key, encoded value) -/
partial def canonW : Wire.WVal → Wire.WVal
  | .struct fs => .struct (fs.map fun (i, v) => (i, canonW v))
  | .list t xs => .list t (xs.map canonW)
  | .set t xs => .set t (xs.map canonW)
  | .map k v kvs =>
      let es := kvs.map fun (a, b) => (canonW a, canonW b)
      let keyed := es.map fun (a, b) => ((VL.hexEncode (Wire.encW a), VL.hexEncode (Wire.encW b)), (a, b))
      let sorted := keyed.foldr ins []
      .map k v (sorted.map (·.2))
  | w => w
where ins (x : (String × String) × (Wire.WVal × Wire.WVal)) :
    List ((String × String) × (Wire.WVal × Wire.WVal)) → List ((String × String) × (Wire.WVal × Wire.WVal))
  | [] => [x]
  | y :: r => if x.1.1 < y.1.1 || (x.1.1 == y.1.1 && x.1.2 ≤ y.1.2) then x :: y :: r else y :: ins x r

def prog : Prog := Generated.C15Schema.prog

def dump (sidx : Nat) (v : GoVal) : String := showVal prog (.struct sidx) v

def dumpOpt {α : Type} (sidx : Nat) (g : α → GoVal) : Option α → String
  | none => "nil"
  | some x => "ok " ++ dump sidx (g x)

/-! ### state: the files of the current program, the registries -/

structure St where
  files : List (Nat × File × List Nat) := []
  world : World := { dflt := [], regs := [] }
  gd : Option GFD := none

def uuidTok : Str := [85, 85, 73, 68]

def buildAst (files : List (Nat × File × List Nat)) : Nat → Nat → Option Ast
  | 0, _ => none
  | fuel+1, idx =>
    match files.find? (·.1 == idx) with
    | none => none
    | some (_, f, refs) =>
      (refs.mapM (buildAst files fuel)).map fun rs => Ast.mk f rs

partial def allFiles : Ast → List File
  | .mk f refs => f :: refs.flatMap allFiles

def tdOf (path name : Str) (withUuid : Bool) : TypeDesc :=
  .mk path name .none .none (if withUuid then some [(uuidKey, uuidTok)] else none)

def findStructKind (fd : FileDesc) (kind : String) (name : Str) : Option StructDesc :=
  if kind == "s" then lookStruct fd name else if kind == "u" then lookUnion fd name else lookException fd name

/-- call-history ops: `HM`/`HU` are `M`/`U` asked again after other Marshal calls — in the model Marshal and
Unmarshal are functions of their argument, so the answers are the ones of `M`/`U` -/
def histAlias : List String → List String
  | "HM" :: r => "M" :: r
  | "HU" :: r => "U" :: r
  | t => t

def step (st : St) (line : String) : St × String :=
  match histAlias (VL.toks line) with
  | "D" :: r =>
    match pFile r with
    | some (f, []) => (st, "ok " ++ dump sFileDescriptor (gFile (describe f)))
    | _ => (st, "bad-op")
  | "M" :: r =>
    match pFile r with
    | some (f, []) =>
      (st, if !wtB prog.structs (.struct sFileDescriptor) (gFile (describe f)) then "notwt" else
        match Std.toW prog (.struct sFileDescriptor) (gFile (describe f)) with
        | .ok w => "ok " ++ VL.hexEncode (Wire.encW (canonW w))
        | .err => "err"
        | .panic => "panic")
    | _ => (st, "bad-op")
  | ["U", hex] =>
    match VL.hexDecode hex with
    | some bs => (st, match unmarshalVal prog bs with
        | some v => "ok " ++ dump sFileDescriptor v
        | none => "err")
    | none => (st, "bad-op")
  | "AA" :: r =>
    match pList (fun r => do let (k, r) ← pStr r; let (v, r) ← pStr r; some ((k, v), r)) r with
    | some (ps, []) =>
      let as := annosOfPairs ps
      (st, s!"ok {as.length}" ++ String.join (as.map fun a =>
        " " ++ VL.hexEncode a.key ++ s!" {a.values.length}" ++ String.join (a.values.map fun v => " " ++ VL.hexEncode v)))
    | _ => (st, "bad-op")
  | ["P"] => ({}, "ok")
  | "A" :: idx :: r =>
    match idx.toNat?, pList pNat r with
    | some i, some (refs, r') =>
      match pFile r' with
      | some (f, []) => ({ st with files := st.files ++ [(i, f, refs)] }, "ok")
      | _ => (st, "bad-op")
    | _, _ => (st, "bad-op")
  | ["G", root] =>
    match root.toNat? with
    | some i =>
      match buildAst st.files (st.files.length + 1) i with
      | some a =>
        let w := st.world.registerAST uuidTok a
        let gd := mapGet w.regs uuidTok
        ({ st with world := w, gd := gd }, s!"ok {(gd.getD []).length}")
      | none => (st, "bad-op")
    | none => (st, "bad-op")
  | ["GC", root] =>
    match root.toNat? with
    | some i =>
      match buildAst st.files (st.files.length + 1) i with
      | some a =>
        let g := (allFiles a).foldl (fun g f => registerBuilt g (describe f)) []
        ({ st with world := { dflt := g, regs := [] }, gd := some g }, s!"ok {g.length}")
      | none => (st, "bad-op")
    | none => (st, "bad-op")
  | ["GD", path] =>
    match VL.hexDecode path with
    | some p => (st, dumpOpt sFileDescriptor gFile (lookupFD st.gd p))
    | none => (st, "bad-op")
  | ["L", kind, path, name] =>
    match VL.hexDecode path, VL.hexDecode name with
    | some p, some n =>
      let w := st.world
      (st, match kind with
        | "s" => dumpOpt sStructDescriptor gStruct (lookupIn w st.gd p n lookStruct)
        | "u" => dumpOpt sStructDescriptor gStruct (lookupIn w st.gd p n lookUnion)
        | "x" => dumpOpt sStructDescriptor gStruct (lookupIn w st.gd p n lookException)
        | "e" => dumpOpt sEnumDescriptor gEnum (lookupIn w st.gd p n lookEnum)
        | "t" => dumpOpt sTypedefDescriptor gTypedef (lookupIn w st.gd p n lookTypedef)
        | "c" => dumpOpt sConstDescriptor gConst (lookupIn w st.gd p n lookConst)
        | "v" => dumpOpt sServiceDescriptor gService (lookupIn w st.gd p n lookService)
        | _ => "bad-op")
    | _, _ => (st, "bad-op")
  | ["LM", path, svc, meth] =>
    match VL.hexDecode path, VL.hexDecode svc, VL.hexDecode meth with
    | some p, some s, some m => (st, dumpOpt sMethodDescriptor gMethod (lookupMethod st.world st.gd p s m))
    | _, _, _ => (st, "bad-op")
  | ["TD", how, path, name, uu] =>
    match VL.hexDecode path, VL.hexDecode name with
    | some p, some n =>
      let w := st.world
      let td := tdOf p n (uu == "1")
      (st, match how with
        | "s" => dumpOpt sStructDescriptor gStruct (td.getVia w lookStruct)
        | "u" => dumpOpt sStructDescriptor gStruct (td.getVia w lookUnion)
        | "x" => dumpOpt sStructDescriptor gStruct (td.getVia w lookException)
        | "e" => dumpOpt sEnumDescriptor gEnum (td.getVia2 w lookEnum)
        | "t" => dumpOpt sTypedefDescriptor gTypedef (td.getVia2 w lookTypedef)
        | _ => "bad-op")
    | _, _ => (st, "bad-op")
  | ["FN", path, kind, sname, fname] =>
    match VL.hexDecode path, VL.hexDecode sname, VL.hexDecode fname with
    | some p, some s, some f =>
      (st, dumpOpt sFieldDescriptor gField
        (((lookupFD st.gd p).bind fun fd => findStructKind fd kind s).bind (·.fieldByName f)))
    | _, _, _ => (st, "bad-op")
  | ["FI", path, kind, sname, id] =>
    match VL.hexDecode path, VL.hexDecode sname, id.toInt? with
    | some p, some s, some i =>
      (st, dumpOpt sFieldDescriptor gField
        (((lookupFD st.gd p).bind fun fd => findStructKind fd kind s).bind (·.fieldById i)))
    | _, _, _ => (st, "bad-op")
  | ["SP", path, svc] =>
    match VL.hexDecode path, VL.hexDecode svc with
    | some p, some s =>
      (st, dumpOpt sServiceDescriptor gService
        (((lookupFD st.gd p).bind fun fd => lookService fd s).bind (·.parent st.world)))
    | _, _ => (st, "bad-op")
  | _ => (st, "bad-op")

end Driver.C15

def main : IO Unit := Driver.stateLoop ({} : Driver.C15.St) Driver.C15.step
