import Driver.Common
import ThriftVerif.Lib.FileManager
import ThriftVerif.Generated.C12
/-
  Model driver for C12.  One history per line:
    H <ncalls> ( <nitems> ( <name|~> <ip> <content> )* )*
  name: `~` = unset, otherwise hex ("-" = set and empty); ip, content: hex.
  Answer: R <outcome,outcome,…|-> <nfiles> ( <name> <content> )*
-/
namespace Driver.C12
open FileManager

def parseItems : Nat → List String → Option (List Item × List String)
  | 0, ts => some ([], ts)
  | n + 1, nm :: ip :: ct :: ts => do
    let name ← if nm = "~" then some none else (VL.hexDecode nm).map some
    let ip ← VL.hexDecode ip
    let ct ← VL.hexDecode ct
    let (r, ts') ← parseItems n ts
    pure (⟨name, ip, ct⟩ :: r, ts')
  | _, _ => none

def parseCalls : Nat → List String → Option (List (List Item))
  | 0, [] => some []
  | 0, _ => none
  | n + 1, k :: ts => do
    let k ← k.toNat?
    let (c, ts') ← parseItems k ts
    let r ← parseCalls n ts'
    pure (c :: r)
  | _, _ => none

def outcomeStr : Outcome → String
  | .ok => "ok" | .err => "err" | .panic => "panic" | .hang => "hang"

def handleLine (line : String) : String :=
  match VL.toks line with
  | "H" :: n :: rest =>
    match n.toNat? with
    | none => "bad-op"
    | some n =>
      match parseCalls n rest with
      | none => "bad-op"
      | some calls =>
        let st := feedAll St.init calls
        let os := outcomes St.init calls
        let res := build Generated.C12.cfg st
        let o := if os.isEmpty then "-" else ",".intercalate (os.map outcomeStr)
        let fs := res.map fun (n, c) => VL.hexEncode n ++ " " ++ VL.hexEncode c
        " ".intercalate (["R", o, toString res.length] ++ fs)
  | _ => "bad-op"

end Driver.C12

def main : IO Unit := Driver.lineLoop Driver.C12.handleLine
