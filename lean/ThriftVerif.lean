import ThriftVerif.Core.VL
import ThriftVerif.Lib.Options
import ThriftVerif.Generated.C20
